package vtok

import (
	"encoding/hex"
	"encoding/json"
	"fmt"
	"net/http/httptest"
	"sync/atomic"
	"time"

	"github.com/google/uuid"

	"github.com/tucats/ego/internal/caches"
	"github.com/tucats/ego/internal/language/data"
	"github.com/tucats/ego/internal/language/symbols"
	"github.com/tucats/ego/internal/language/tokens"
	"github.com/tucats/ego/internal/router"
	"github.com/tucats/ego/internal/runtime/cipher"
	"github.com/tucats/ego/internal/util"
)

// tokRec is what the monitor knows about a token it had issued.
type tokRec struct {
	User    string
	Str     string
	ID      string
	Key     string    // the server token key in force when it was issued
	Expires time.Time // read from the token itself with the issuing key (not through Unwrap/Validate)
}

// openToken decrypts a token string with a given key and returns its fields. Used only to learn the id
// (the input of Blacklist/Delete) and the expiry the issuer wrote; it is not a validity door.
func openToken(str, key string) (tokens.Token, error) {
	var t tokens.Token

	raw, err := hex.DecodeString(str)
	if err != nil {
		return t, err
	}

	j, err := util.Decrypt(string(raw), key)
	if err != nil {
		return t, err
	}

	err = json.Unmarshal([]byte(j), &t)

	return t, err
}

var symtab = symbols.NewSymbolTable("c21")

// issue makes a token through the Ego runtime function cipher.New (what the logon handler calls) or
// directly through tokens.New.
func issue(user, lifetime, key string, viaCipher bool) (tokRec, error) {
	var str string

	if viaCipher {
		v, err := cipher.NewToken(symtab, data.NewList(user, "payload-"+user, lifetime))
		if err != nil {
			return tokRec{}, err
		}

		l, ok := v.(data.List)
		if !ok || l.Len() < 1 {
			return tokRec{}, fmt.Errorf("cipher.New returned %T", v)
		}

		str = data.String(l.Get(0))
	} else {
		s, err := tokens.New(user, "payload-"+user, lifetime, uuid.NewString(), 0)
		if err != nil {
			return tokRec{}, err
		}

		str = s
	}

	t, err := openToken(str, key)
	if err != nil {
		return tokRec{}, fmt.Errorf("cannot open a token just issued: %v", err)
	}

	return tokRec{User: user, Str: str, ID: t.TokenID.String(), Key: key, Expires: t.Expires}, nil
}

var sessionSeq atomic.Int32

// The three doors. Each returns whether the token was accepted, and the identity the door reported.

func doorAuth(tok string) (bool, string) {
	req := httptest.NewRequest("GET", "http://localhost/services/admin/authenticate", nil)
	req.Header.Set("Authorization", "Bearer "+tok)

	s := &router.Session{ID: int(sessionSeq.Add(1))}
	s.Authenticate(req)

	return s.Authenticated, s.User
}

func doorValidate(tok string) (bool, string) {
	v, _ := cipher.Validate(symtab, data.NewList(tok))
	b, _ := v.(bool)

	return b, ""
}

func doorExtract(tok string) (bool, string) {
	v, err := cipher.Extract(symtab, data.NewList(tok))
	if err != nil {
		return false, ""
	}

	l, ok := v.(data.List)
	if !ok || l.Len() < 1 {
		return false, ""
	}

	st, ok := l.Get(0).(*data.Struct)
	if !ok || st == nil {
		return false, ""
	}

	name, _ := st.Get("Name")
	id, _ := st.Get("TokenID")

	return true, data.String(name) + "/" + data.String(id)
}

var doorNames = []string{"authenticate", "cipher.Validate", "cipher.Extract"}

func door(name, tok string) (bool, string) {
	switch name {
	case "authenticate":
		return doorAuth(tok)
	case "cipher.Validate":
		return doorValidate(tok)
	default:
		return doorExtract(tok)
	}
}

// identityOK checks what an accepting door reported about the token's owner.
func identityOK(doorName string, t tokRec, reported string) bool {
	switch doorName {
	case "authenticate":
		return reported == t.User
	case "cipher.Extract":
		return reported == t.User+"/"+t.ID
	default:
		return true
	}
}

var cacheClasses = map[string]int{"token": caches.TokenCache, "blacklist": caches.BlacklistCache, "auth": caches.AuthCache}

// ---- the model: accepted <=> issued under the current key, unaltered, not expired, id not revoked now ----

const (
	mustReject = iota
	mustAccept
	eitherOK // now == expiry exactly: "has not expired" does not say which side the instant belongs to
)

type model struct {
	curKey  string
	revoked map[string]bool
}

func newModel() *model { return &model{curKey: keyA, revoked: map[string]bool{}} }

// expect returns the verdict and, for a rejection, the clause that fails.
func (m *model) expect(t *tokRec, altered bool, now time.Time) (int, string) {
	switch {
	case t == nil:
		return mustReject, "never-issued"
	case altered:
		return mustReject, "altered"
	case t.Key != m.curKey:
		return mustReject, "other-key"
	case now.After(t.Expires):
		return mustReject, "expired"
	case m.revoked[t.ID]:
		return mustReject, "revoked"
	case now.Equal(t.Expires):
		return eitherOK, "at-expiry"
	default:
		return mustAccept, "valid"
	}
}
