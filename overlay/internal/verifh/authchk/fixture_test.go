package authchk

import (
	"os"
	"runtime"
	"testing"

	"github.com/tucats/ego/internal/verifh/srvfix"
)

// startFixture starts the shared in-process server (once per process) the way every part of this
// package needs it: SQLite user store (so that the token revocation list is enabled, as in the
// server's default configuration), panic recovery off so a handler panic is seen as such.
func startFixture(t *testing.T) *srvfix.Fixture {
	t.Helper()

	if os.Getenv("VERIF_EGO_SRC") == "" {
		t.Fatal("VERIF_EGO_SRC not set (run through ./check)")
	}

	f, err := srvfix.Start(srvfix.Options{UserStore: "sqlite", Loggers: []string{"AUTH"}})
	if err != nil {
		t.Fatalf("fixture: %v", err)
	}

	return f
}

// ballast: every presentation of a token that is not served from the server's token cache derives an
// Argon2id key over a fresh 32 MiB block. With Go's default pacing that block is collected and its pages are
// handed back to the kernel after almost every call, and touching them again costs far more than the
// derivation itself on this VM (0.1-1 s instead of 45 ms). A never-touched live allocation raises the heap
// goal just enough for the freed block to be reused instead of returned.
var ballast []byte

func TestMain(m *testing.M) {
	ballast = make([]byte, 64<<20)
	rc := m.Run()

	runtime.KeepAlive(ballast)
	os.Exit(rc)
}
