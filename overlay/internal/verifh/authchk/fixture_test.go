package authchk

import (
	"os"
	"testing"

	"github.com/tucats/ego/internal/verifh/srvfix"
)

// startFixture starts the shared in-process server (once per process) the way every part of this
// package needs it: SQLite user store (so that the token revocation list is enabled, as in the
// server's default configuration), panic recovery off so a handler panic is seen as such.
func startFixture(t *testing.T) *srvfix.Fixture {
	t.Helper()

	if os.Getenv("VERIF_EGO_SRC") == "" {
		t.Fatal("VERIF_EGO_SRC not set (run through ./check)")
	}

	f, err := srvfix.Start(srvfix.Options{UserStore: "sqlite", Loggers: []string{"AUTH"}})
	if err != nil {
		t.Fatalf("fixture: %v", err)
	}

	return f
}
