package authchk

// C32 — Route resolution is deterministic and most specific.
//
// Events: the (route, status) returned by (*router.Router).FindRoute(method, path, false),
// 64 times per query (Go randomises map iteration per range statement, so one process
// sees many iteration orders), on the server's real route table and on generated tables
// that are each registered in 8 different orders.
// Oracle 1 (determinism): every repeat and every registration order yields the same
// (endpoint, method) or the same status.
// Oracle 2 (specificity): an independent strict matcher computes which routes of the table
// match the query; when the chosen route and another route both match under that matcher
// and they have different numbers of {{…}} variables, the chosen one has the fewer.
// Ties between candidates with the same variable count only have to be deterministic.
import (
	"encoding/json"
	"fmt"
	"math/rand"
	"sort"
	"strings"
	"testing"

	"github.com/tucats/ego/internal/router"
	"github.com/tucats/ego/internal/verifh/vh"
)

type rtSpec struct {
	Ep     string `json:"ep"`
	Method string `json:"method"`
}

func (s rtSpec) String() string { return s.Ep + "|" + s.Method }

// ---- the independent matcher (the monitor's own reading of "a route matches a request") ----

// pathSegs splits a pattern or a request path into segments: the leading slash and one
// trailing slash are not significant.
func pathSegs(p string) []string {
	p = strings.TrimPrefix(p, "/")
	p = strings.TrimSuffix(p, "/")

	if p == "" {
		return nil
	}

	return strings.Split(p, "/")
}

func isGlobSeg(s string) bool {
	return strings.HasPrefix(s, "{{") && strings.HasSuffix(s, "...}}")
}

func isVarSeg(s string) bool {
	return strings.HasPrefix(s, "{{") && strings.HasSuffix(s, "}}")
}

// modelVars counts the variable segments of a pattern.
func modelVars(ep string) int {
	n := 0

	for _, s := range pathSegs(ep) {
		if isVarSeg(s) {
			n++
		}
	}

	return n
}

// modelMatch: literal segments must be equal, a {{name}} takes exactly one non-empty
// segment, a {{name...}} takes the rest, "/" is claimed for the root path only, the route's method is
// ANY or equals the request's. It is deliberately strict: it is only used to say "these two
// routes both certainly match", never to say that the implementation matched too much.
func modelMatch(rt rtSpec, method, path string) bool {
	if rt.Method != router.AnyMethod && !strings.EqualFold(rt.Method, method) {
		return false
	}

	e, p := pathSegs(rt.Ep), pathSegs(path)

	if rt.Ep == "/" {
		// FindRoute treats "/" as a catch-all candidate for every path. Whether a catch-all "matches"
		// in the sense of the fewer-variables rule is not something the property states (it is the
		// least specific route there is), so the strict matcher only claims the root path for it.
		return len(p) == 0
	}

	for i, seg := range e {
		switch {
		case isGlobSeg(seg):
			// FindRoute compares the segments before a glob literally, i.e. it does not support a
			// {{variable}} in front of a {{glob...}} (the real table has none; the documentation of the
			// glob form is silent about it). The strict matcher makes no claim for such patterns.
			for _, before := range e[:i] {
				if isVarSeg(before) {
					return false
				}
			}

			return i == len(e)-1 && len(p) > i
		case isVarSeg(seg):
			if i >= len(p) || p[i] == "" {
				return false
			}
		default:
			if i >= len(p) || p[i] != seg {
				return false
			}
		}
	}

	return len(p) == len(e)
}

// shape abstracts a pattern for finding keys on generated tables: literals -> L,
// variables -> V, glob -> G; the trailing slash is kept because the implementation's
// exact-match rule depends on it.
func shape(ep string) string {
	if ep == "/" {
		return "/"
	}

	var b strings.Builder

	for _, s := range pathSegs(ep) {
		switch {
		case isGlobSeg(s):
			b.WriteString("/G")
		case isVarSeg(s):
			b.WriteString("/V")
		default:
			b.WriteString("/L")
		}
	}

	if strings.HasSuffix(ep, "/") {
		b.WriteString("/")
	}

	return b.String()
}

func methodClass(m string) string {
	if m == router.AnyMethod {
		return "ANY"
	}

	return "M"
}

// ---- observation ----

type outcome struct {
	Status int    `json:"status"`
	Ep     string `json:"ep,omitempty"`
	Method string `json:"method,omitempty"`
}

func (o outcome) String() string {
	if o.Ep == "" {
		return fmt.Sprintf("status=%d", o.Status)
	}

	return o.Ep + "|" + o.Method
}

func observe(m *router.Router, method, path string) outcome {
	r, st := m.FindRoute(method, path, false)
	if r == nil {
		return outcome{Status: st}
	}

	return outcome{Status: st, Ep: r.VerifC32Endpoint(), Method: r.VerifC32Method()}
}

type c32case struct {
	Kind   string   `json:"kind"` // "real" or "gen"
	Table  []rtSpec `json:"table,omitempty"`
	Method string   `json:"method"`
	Path   string   `json:"path"`
}

type c32run struct {
	r      *vh.Report
	real   *router.Router
	realRT []rtSpec
}

// pairKey names an ambiguous pair: by its two endpoints on the real table (a fixed table, so the
// key is stable); on generated tables, whose endpoints differ from seed to seed, by the class of the
// pair (what the two patterns have in common) plus nothing else.
func pairKey(kind string, a, b outcome) string {
	x, y := a.String(), b.String()
	if y < x {
		x, y = y, x
	}

	if kind == "gen" {
		return "gen:" + pairClass(a, b)
	}

	return strings.ReplaceAll(kind+":"+x+"~"+y, " ", "%20")
}

// normEp: the pattern without its trailing slash and with variable names erased (two patterns that
// differ only in those accept exactly the same paths).
func normEp(ep string) string {
	segs := append([]string{}, pathSegs(ep)...)
	for i, s := range segs {
		if isGlobSeg(s) {
			segs[i] = "{{...}}"
		} else if isVarSeg(s) {
			segs[i] = "{{}}"
		}
	}

	return "/" + strings.Join(segs, "/")
}

// pairClass classifies two different results for one query.
func pairClass(a, b outcome) string {
	switch {
	case a.Ep == "" && b.Ep == "":
		return "status-vs-status"
	case a.Ep == "" || b.Ep == "":
		return "status-vs-route"
	case normEp(a.Ep) == normEp(b.Ep) && a.Method == b.Method:
		return "equivalent-patterns-same-method"
	case normEp(a.Ep) == normEp(b.Ep):
		return "equivalent-patterns-any-vs-method"
	case a.Ep == "/" || b.Ep == "/":
		o := a
		if a.Ep == "/" {
			o = b
		}

		if modelVars(o.Ep) == 0 {
			return "catchall-vs-literal-route"
		}

		return "catchall-vs-variable-route"
	case modelVars(a.Ep) != modelVars(b.Ep):
		return "different-variable-counts"
	case modelVars(a.Ep) == 0:
		return "two-literal-routes"
	default:
		return "same-variable-count"
	}
}

// judge runs one query: repeats on every router (all registered from the same table) and applies both oracles.
func (c *c32run) judge(cs c32case, table []rtSpec, routers []*router.Router, repeats int) {
	seen := map[outcome]int{}
	order := []outcome{}

	for _, m := range routers {
		for i := 0; i < repeats; i++ {
			o := observe(m, cs.Method, cs.Path)
			if seen[o] == 0 {
				order = append(order, o)
			}

			seen[o]++
			c.r.Count("events.findroute_calls", 1)
		}
	}

	// the independent candidate set
	cands := []rtSpec{}

	for _, rt := range table {
		if modelMatch(rt, cs.Method, cs.Path) {
			cands = append(cands, rt)
		}
	}

	distinctVars := map[int]bool{}
	for _, rt := range cands {
		distinctVars[modelVars(rt.Ep)] = true
	}

	c.r.Eval(vh.Hash(cs.Kind, cs.Table, cs.Method, cs.Path), len(cands) >= 2)
	c.r.Count("queries."+cs.Kind, 1)
	c.r.Count(fmt.Sprintf("model_candidates.%s.%d", cs.Kind, min(len(cands), 4)), 1)

	if len(distinctVars) >= 2 {
		c.r.Count("queries.candidates_with_different_variable_counts."+cs.Kind, 1)
	}

	// oracle 1: determinism
	if len(order) > 1 {
		sort.Slice(order, func(i, j int) bool { return order[i].String() < order[j].String() })

		obs := map[string]int{}
		for o, n := range seen {
			obs[o.String()] = n
		}

		c.r.Violate(vh.Violation{
			Key:  "nondet:" + pairKey(cs.Kind, order[0], order[1]),
			Desc: fmt.Sprintf("FindRoute(%q, %q) returned %d different results over %d calls on one route table", cs.Method, cs.Path, len(order), len(routers)*repeats),
			Case: cs, Expected: "one (endpoint, method) or one status for every repeat and registration order", Observed: obs})
	}

	// oracle 2: specificity, judged for every observed outcome that the strict matcher also accepts
	for _, o := range order {
		if o.Ep == "" {
			if len(cands) > 0 {
				c.r.Count("notes.model_match_but_status_"+fmt.Sprint(o.Status)+"."+cs.Kind, 1)
			}

			continue
		}

		chosen := rtSpec{o.Ep, o.Method}
		inModel := false

		for _, rt := range cands {
			if rt == chosen {
				inModel = true
			}
		}

		if !inModel {
			// the implementation matches more loosely than the strict matcher (missing segments are
			// filled in from the pattern, everything after "//" is ignored); not a C32 question.
			c.r.Count("notes.chosen_outside_strict_matcher."+cs.Kind, 1)

			continue
		}

		c.r.Count("events.specificity_judged", 1)

		for _, rt := range cands {
			if modelVars(rt.Ep) < modelVars(chosen.Ep) {
				c.r.Violate(vh.Violation{
					Key:  "specific:" + pairKey(cs.Kind, o, outcome{Status: 200, Ep: rt.Ep, Method: rt.Method}),
					Desc: fmt.Sprintf("FindRoute(%q, %q) chose %s (%d variables) although %s (%d variables) also matches", cs.Method, cs.Path, chosen, modelVars(chosen.Ep), rt, modelVars(rt.Ep)),
					Case: cs, Expected: rt.String(), Observed: chosen.String()})

				break
			}
		}
	}

	if len(cands) >= 2 && c.r.Evaluations%397 == 1 {
		c.r.Sample(map[string]any{"kind": cs.Kind, "method": cs.Method, "path": cs.Path, "model_candidates": fmt.Sprint(cands), "chosen": fmt.Sprint(order)})
	}
}

// ---- query generation ----

var c32methods = []string{"GET", "POST", "PUT", "DELETE", "PATCH", "HEAD", "get", "Post"}

// literalsOf collects every literal segment of a table (the values that collide with sibling routes).
func literalsOf(table []rtSpec) []string {
	set := map[string]bool{}

	for _, rt := range table {
		for _, s := range pathSegs(rt.Ep) {
			if !isVarSeg(s) {
				set[s] = true
			}
		}
	}

	out := []string{}
	for s := range set {
		out = append(out, s)
	}

	sort.Strings(out)

	return out
}

// siblingLiterals: the literal segments that other routes have at position i while agreeing with rt
// on every earlier position (equal, or a variable on either side) - the values that make two routes collide.
func siblingLiterals(table []rtSpec, rt rtSpec, i int) []string {
	mine := pathSegs(rt.Ep)
	set := map[string]bool{}

	for _, o := range table {
		segs := pathSegs(o.Ep)
		if len(segs) <= i || isVarSeg(segs[i]) {
			continue
		}

		ok := true
		for j := 0; j < i && ok; j++ {
			ok = segs[j] == mine[j] || isVarSeg(segs[j]) || isVarSeg(mine[j])
		}

		if ok {
			set[segs[i]] = true
		}
	}

	out := []string{}
	for s := range set {
		out = append(out, s)
	}

	sort.Strings(out)

	return out
}

func genQuery(rng *rand.Rand, table []rtSpec, lits []string) (string, string) {
	rt := table[rng.Intn(len(table))]
	plain := []string{"v1", "x", "42", "Accounts", "my-table"}
	hostile := []string{"", "{{x}}", "a%2Fb", "..", "v 1", "{{table}}", "*"}

	value := func() string {
		switch p := rng.Float64(); {
		case p < 0.40 && len(lits) > 0:
			return lits[rng.Intn(len(lits))]
		case p < 0.52:
			return hostile[rng.Intn(len(hostile))]
		default:
			return plain[rng.Intn(len(plain))]
		}
	}

	parts := []string{}

	for i, s := range pathSegs(rt.Ep) {
		switch {
		case isGlobSeg(s):
			for n := 1 + rng.Intn(3); n > 0; n-- {
				parts = append(parts, value())
			}
		case isVarSeg(s):
			if sib := siblingLiterals(table, rt, i); len(sib) > 0 && rng.Float64() < 0.5 {
				parts = append(parts, sib[rng.Intn(len(sib))])
			} else {
				parts = append(parts, value())
			}
		default:
			parts = append(parts, s)
		}
	}

	// structural mutations
	switch p := rng.Float64(); {
	case p < 0.12 && len(parts) > 0: // drop trailing segments
		parts = parts[:len(parts)-1-rng.Intn(min(2, len(parts)))]
	case p < 0.24: // extra segment
		parts = append(parts, value())
	case p < 0.34 && len(parts) > 0: // empty segment somewhere (doubled slash)
		i := rng.Intn(len(parts) + 1)
		parts = append(parts[:i], append([]string{""}, parts[i:]...)...)
	case p < 0.40 && len(parts) > 0: // replace a segment by an empty one
		parts[rng.Intn(len(parts))] = ""
	case p < 0.46 && len(parts) > 1: // replace a literal by a sibling literal
		parts[rng.Intn(len(parts))] = value()
	}

	path := "/" + strings.Join(parts, "/")

	switch p := rng.Float64(); {
	case p < 0.30:
		path += "/"
	case p < 0.36:
		path += "//"
	}

	method := rt.Method
	if method == router.AnyMethod || rng.Float64() < 0.25 {
		method = c32methods[rng.Intn(len(c32methods))]
	}

	return method, path
}

// genTable makes a small table whose routes overlap: new routes are mostly derived from earlier ones.
func genTable(rng *rand.Rand) []rtSpec {
	lits := []string{"a", "b", "rows", "@sql", "tables"}
	vars := []string{"{{x}}", "{{y}}", "{{name}}"}
	methods := []string{"GET", "GET", "POST", "DELETE", router.AnyMethod}
	n := 2 + rng.Intn(8)
	seen := map[rtSpec]bool{}
	table := []rtSpec{}

	fresh := func() []string {
		segs := []string{}
		for d := 1 + rng.Intn(4); d > 0; d-- {
			if rng.Float64() < 0.35 {
				segs = append(segs, vars[rng.Intn(len(vars))])
			} else {
				segs = append(segs, lits[rng.Intn(len(lits))])
			}
		}

		return segs
	}

	for tries := 0; len(table) < n && tries < 200; tries++ {
		var segs []string

		if len(table) == 0 || rng.Float64() < 0.3 {
			segs = fresh()
		} else {
			segs = append([]string{}, pathSegs(table[rng.Intn(len(table))].Ep)...)
			if len(segs) > 0 && isGlobSeg(segs[len(segs)-1]) {
				segs = segs[:len(segs)-1]
			}

			switch p := rng.Float64(); {
			case p < 0.35 && len(segs) > 0: // swap literal <-> variable at one position
				i := rng.Intn(len(segs))
				if isVarSeg(segs[i]) {
					segs[i] = lits[rng.Intn(len(lits))]
				} else {
					segs[i] = vars[rng.Intn(len(vars))]
				}
			case p < 0.55: // extend
				segs = append(segs, fresh()[0])
			case p < 0.65 && len(segs) > 1: // shorten
				segs = segs[:len(segs)-1]
			case p < 0.75: // glob tail
				segs = append(segs, "{{rest...}}")
			}
		}

		ep := "/" + strings.Join(segs, "/")
		if len(segs) > 0 && !isGlobSeg(segs[len(segs)-1]) && rng.Float64() < 0.4 {
			ep += "/"
		}

		if len(segs) == 0 || rng.Float64() < 0.04 {
			ep = "/"
		}

		rt := rtSpec{ep, methods[rng.Intn(len(methods))]}
		if !seen[rt] {
			seen[rt] = true
			table = append(table, rt)
		}
	}

	return table
}

// buildRouters registers one table in n different orders (order 0 is the table's own).
func buildRouters(table []rtSpec, n int, rng *rand.Rand) []*router.Router {
	out := []*router.Router{}

	for k := 0; k < n; k++ {
		idx := rng.Perm(len(table))
		if k == 0 {
			for i := range idx {
				idx[i] = i
			}
		} else if k == 1 {
			for i := range idx {
				idx[i] = len(table) - 1 - i
			}
		}

		m := router.NewRouter(fmt.Sprintf("c32-gen-%d", k))
		for _, i := range idx {
			m.New(table[i].Ep, nil, table[i].Method)
		}

		out = append(out, m)
	}

	return out
}

func TestC32(t *testing.T) {
	f := startFixture(t)
	r := vh.New("C32", "resolve")
	r.Rule = "query = (method, path) derived from a route of the table: variables instantiated with plain values, literal segment names of sibling routes (@sql, @transaction, rows, permissions…), " +
		"empty and hostile values, globs of 1-3 segments, then trailing slash / doubled slash / dropped / extra / emptied segments and foreign or lower-case methods; " +
		"real table queried 64x, generated tables (2-9 overlapping routes incl. ANY-method, trailing-slash twins, globs and the catch-all '/') registered in 8 orders x 8 repeats; " +
		"distinct = distinct (table, method, path); non-trivial = at least two routes match under the monitor's strict matcher"
	r.Assume("the monitor's strict matcher (literal = equal, {{v}} = one non-empty segment, {{v...}} = rest, '/' = root path only) only under-approximates 'both match'; where FindRoute matches more loosely the specificity oracle is silent")
	r.Assume("64 calls per query expose the map-iteration orders of one process; an order never produced by Go's iteration randomisation is not observed")

	c := &c32run{r: r, real: f.Router}
	for _, rt := range f.Router.VerifC32Routes() {
		c.realRT = append(c.realRT, rtSpec{rt.VerifC32Endpoint(), rt.VerifC32Method()})
	}

	r.Count("real_table.routes", int64(len(c.realRT)))

	if len(c.realRT) < 60 {
		t.Fatalf("real route table has only %d routes", len(c.realRT))
	}

	if rc := vh.ReplayCase(); rc != nil {
		var cs c32case
		if err := json.Unmarshal(rc, &cs); err != nil {
			t.Fatal(err)
		}

		if cs.Kind == "real" {
			c.judge(cs, c.realRT, []*router.Router{f.Router}, 256)
		} else {
			c.judge(cs, cs.Table, buildRouters(cs.Table, 8, vh.Rand("c32-replay")), 32)
		}

		r.Distinct = 2
		_ = r.Write()

		return
	}

	total := vh.N(3000, 200000)
	nReal := total * 2 / 5
	nGen := total - nReal

	// 1. the real table
	rng := vh.Rand("c32-real")
	lits := literalsOf(c.realRT)

	// every real endpoint instantiated plainly once, with and without trailing slash
	for _, rt := range c.realRT {
		parts := []string{}
		for _, s := range pathSegs(rt.Ep) {
			if isVarSeg(s) {
				parts = append(parts, "v1")
			} else {
				parts = append(parts, s)
			}
		}

		m := rt.Method
		if m == router.AnyMethod {
			m = "GET"
		}

		for _, tail := range []string{"", "/"} {
			c.judge(c32case{Kind: "real", Method: m, Path: "/" + strings.Join(parts, "/") + tail}, c.realRT, []*router.Router{f.Router}, 64)
			nReal--
		}
	}

	for i := 0; i < nReal; i++ {
		m, p := genQuery(rng, c.realRT, lits)
		c.judge(c32case{Kind: "real", Method: m, Path: p}, c.realRT, []*router.Router{f.Router}, 64)
	}

	// 2. generated tables
	grng := vh.Rand("c32-gen")
	perTable := 12

	for done := 0; done < nGen; {
		table := genTable(grng)
		routers := buildRouters(table, 8, grng)
		glits := literalsOf(table)

		r.Count("generated.tables", 1)

		for q := 0; q < perTable && done < nGen; q++ {
			m, p := genQuery(grng, table, glits)
			c.judge(c32case{Kind: "gen", Table: table, Method: m, Path: p}, table, routers, 8)
			done++
		}
	}

	if r.Counters["events.findroute_calls"] == 0 {
		t.Fatal("observed nothing")
	}

	if r.Counters["events.specificity_judged"] == 0 || r.Counters["queries.candidates_with_different_variable_counts.real"] == 0 {
		r.Inconcl("no query had candidates with different variable counts: specificity oracle never exercised")
	}

	if err := r.Write(); err != nil {
		t.Fatal(err)
	}
}
