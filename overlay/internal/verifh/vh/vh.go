// Package vh is the reporting side of the /verif harnesses: every monitor
// records what it evaluated, what it observed and any violation into a Report,
// which is written as JSON to $VERIF_OUT for the ./check driver to turn into the
// evidence file, KNOWN-FINDING lines and VIOLATION lines.
package vh

import (
	"crypto/sha256"
	"encoding/hex"
	"encoding/json"
	"fmt"
	"math/rand"
	"os"
	"sort"
	"strconv"
	"strings"
	"sync"
	"time"
)

// Violation is one refuted case. Key is as narrow as the defect (used to match
// known_findings.jsonl); Case is the concrete witness (program text, request,
// history) and is what --replay reruns.
type Violation struct {
	Key      string `json:"key"`
	Desc     string `json:"desc"`
	Case     any    `json:"case"`
	Expected any    `json:"expected,omitempty"`
	Observed any    `json:"observed,omitempty"`
}

// Report accumulates one run of one monitor.
type Report struct {
	mu           sync.Mutex
	Property     string           `json:"property"`
	Part         string           `json:"part"`
	Evaluations  int64            `json:"evaluations"`
	Distinct     int64            `json:"distinct_nontrivial"`
	Rule         string           `json:"rule"`
	Samples      []any            `json:"samples"`
	Violations   []Violation      `json:"violations"`
	Inconclusive []string         `json:"inconclusive"`
	Counters     map[string]int64 `json:"counters"`
	Assumptions  []string         `json:"assumptions"`
	Notes        []string         `json:"notes"`
	Exhaustive   bool             `json:"exhaustive"`
	ProbesRun    []string         `json:"probes_run"`
	WallS        float64          `json:"wall_s"`
	seen         map[string]struct{}
	vseen        map[string]int
	start        time.Time
	maxSamples   int
}

// New creates a report for property prop, part name part.
func New(prop, part string) *Report {
	return &Report{Property: prop, Part: part, Counters: map[string]int64{}, seen: map[string]struct{}{},
		vseen: map[string]int{}, start: time.Now(), maxSamples: 6, Samples: []any{}, Violations: []Violation{},
		Inconclusive: []string{}, Assumptions: []string{}, Notes: []string{}, ProbesRun: []string{}}
}

// Hash is a short content hash used for distinctness.
func Hash(parts ...any) string {
	h := sha256.New()
	for _, p := range parts {
		fmt.Fprintf(h, "%v\x00", p)
	}

	return hex.EncodeToString(h.Sum(nil))[:16]
}

// Eval records one evaluated case. id identifies the case for distinctness;
// nontrivial says whether it counts under the report's rule.
func (r *Report) Eval(id string, nontrivial bool) {
	r.mu.Lock()
	defer r.mu.Unlock()

	r.Evaluations++

	if !nontrivial {
		return
	}

	if _, ok := r.seen[id]; !ok {
		r.seen[id] = struct{}{}
		r.Distinct++
	}
}

// Count bumps a named counter.
func (r *Report) Count(name string, n int64) {
	r.mu.Lock()
	r.Counters[name] += n
	r.mu.Unlock()
}

// Max keeps the max of a named counter.
func (r *Report) Max(name string, n int64) {
	r.mu.Lock()
	if n > r.Counters[name] {
		r.Counters[name] = n
	}
	r.mu.Unlock()
}

// Sample keeps up to maxSamples real cases for the evidence file.
func (r *Report) Sample(x any) {
	r.mu.Lock()
	if len(r.Samples) < r.maxSamples {
		r.Samples = append(r.Samples, x)
	}
	r.mu.Unlock()
}

// Violate records a violation; at most 5 witnesses per key are kept.
func (r *Report) Violate(v Violation) {
	r.mu.Lock()
	defer r.mu.Unlock()

	r.vseen[v.Key]++
	r.Counters["violations_raw"]++

	if r.vseen[v.Key] <= 3 {
		r.Violations = append(r.Violations, v)
	}
}

// Inconcl records an inconclusive sub-verdict.
func (r *Report) Inconcl(s string) {
	r.mu.Lock()
	if len(r.Inconclusive) < 50 {
		r.Inconclusive = append(r.Inconclusive, s)
	}
	r.Counters["inconclusive"]++
	r.mu.Unlock()
}

// Note adds free text to the evidence.
func (r *Report) Note(s string) {
	r.mu.Lock()
	r.Notes = append(r.Notes, s)
	r.mu.Unlock()
}

// Assume records an assumption / trusted base entry.
func (r *Report) Assume(s string) {
	r.mu.Lock()
	r.Assumptions = append(r.Assumptions, s)
	r.mu.Unlock()
}

// Probe records that a known-finding probe was executed.
func (r *Report) Probe(key string) {
	r.mu.Lock()
	r.ProbesRun = append(r.ProbesRun, key)
	r.mu.Unlock()
}

// Write stores the report at $VERIF_OUT (or ./verif_out_<part>.json).
func (r *Report) Write() error {
	r.mu.Lock()
	defer r.mu.Unlock()

	r.WallS = time.Since(r.start).Seconds()
	for k, n := range r.vseen {
		r.Counters["violations_key:"+k] = int64(n)
	}

	sort.Strings(r.ProbesRun)

	path := os.Getenv("VERIF_OUT")
	if path == "" {
		path = "verif_out_" + r.Property + "_" + r.Part + ".json"
	}

	b, err := json.MarshalIndent(r, "", " ")
	if err != nil {
		return err
	}

	return os.WriteFile(path, b, 0o644)
}

// Seed returns VERIF_SEED (default 1).
func Seed() int64 {
	if s := os.Getenv("VERIF_SEED"); s != "" {
		if n, err := strconv.ParseInt(s, 10, 64); err == nil {
			return n
		}
	}

	return 1
}

// Tier returns "quick" or "thorough".
func Tier() string {
	if os.Getenv("VERIF_TIER") == "thorough" {
		return "thorough"
	}

	return "quick"
}

// N picks the tier's count; VERIF_SCALE (float) scales it for experiments.
func N(quick, thorough int) int {
	n := quick
	if Tier() == "thorough" {
		n = thorough
	}

	if s := os.Getenv("VERIF_SCALE"); s != "" {
		if f, err := strconv.ParseFloat(s, 64); err == nil && f > 0 {
			n = int(float64(n) * f)
			if n < 1 {
				n = 1
			}
		}
	}

	return n
}

// Rand returns a PRNG determined by the seed and a stream name.
func Rand(stream string) *rand.Rand {
	h := sha256.Sum256([]byte(fmt.Sprintf("%d/%s", Seed(), stream)))
	var s int64
	for i := 0; i < 8; i++ {
		s = s<<8 | int64(h[i])
	}

	return rand.New(rand.NewSource(s))
}

// KnownKeys returns the keys of the `known:` lines for a property in
// /verif/known_findings.txt ($VERIF_KNOWN). Generators use it as an avoid set.
func KnownKeys(prop string) map[string]bool {
	out := map[string]bool{}

	b, err := os.ReadFile(os.Getenv("VERIF_KNOWN"))
	if err != nil {
		return out
	}

	for _, line := range strings.Split(string(b), "\n") {
		line = strings.TrimSpace(line)
		if !strings.HasPrefix(line, "known:") {
			continue
		}

		p, k := "", ""
		for _, tok := range strings.Fields(line) {
			if strings.HasPrefix(tok, "property=") && p == "" {
				p = strings.TrimPrefix(tok, "property=")
			} else if strings.HasPrefix(tok, "key=") && k == "" {
				k = strings.TrimPrefix(tok, "key=")
			}
		}

		if p == prop && k != "" {
			out[k] = true
		}
	}

	return out
}

// ReplayCase returns the case stored in the replay file named by $VERIF_REPLAY, or nil.
func ReplayCase() json.RawMessage {
	p := os.Getenv("VERIF_REPLAY")
	if p == "" {
		return nil
	}

	b, err := os.ReadFile(p)
	if err != nil {
		return nil
	}

	var doc struct {
		Case json.RawMessage `json:"case"`
	}

	if json.Unmarshal(b, &doc) != nil {
		return nil
	}

	return doc.Case
}

// Trunc shortens long strings for samples.
func Trunc(s string, n int) string {
	if len(s) <= n {
		return s
	}

	return s[:n] + fmt.Sprintf("…(+%d bytes)", len(s)-n)
}
