package lang

// C01, part "directed": the fixed table operator x integer width x statement form
// (x++, x--, x op= k, x = x + k, unary minus, the six comparisons) with boundary
// start values, plus one probe per known finding. The expected output of every
// cell comes from the same Go batch build as in the random part; nothing is
// hand-predicted. Each failing cell reports under its own coordinates, which are
// also the names the generator's avoid set understands.

import (
	"fmt"
	"math"
	"strings"
	"testing"

	"github.com/tucats/ego/internal/verifh/egorun"
	"github.com/tucats/ego/internal/verifh/gen"
	"github.com/tucats/ego/internal/verifh/vh"
)

type cell struct {
	key  string // base key (coordinates)
	name string
	prog gen.Program
}

type intInfo struct {
	name     string
	min, max string
	signed   bool
}

func intTypes() []intInfo {
	u := func(v uint64) string { return fmt.Sprintf("%d", v) }
	s := func(v int64) string { return fmt.Sprintf("%d", v) }
	return []intInfo{
		{"int", s(math.MinInt64 + 1), s(math.MaxInt64), true},
		{"int8", s(math.MinInt8), s(math.MaxInt8), true},
		{"int16", s(math.MinInt16), s(math.MaxInt16), true},
		{"int32", s(math.MinInt32), s(math.MaxInt32), true},
		{"int64", s(math.MinInt64 + 1), s(math.MaxInt64), true},
		{"uint", "0", u(math.MaxInt64), false}, // literals above MaxInt64 are a literal-spelling matter (C06)
		{"uint8", "0", u(math.MaxUint8), false},
		{"uint16", "0", u(math.MaxUint16), false},
		{"uint32", "0", u(math.MaxUint32), false},
		{"uint64", "0", u(math.MaxInt64), false},
	}
}

func tmplMain(body string) string {
	return "__MAIN__\n" + body + "}\n"
}

// directedCells builds the table.
func directedCells() []cell {
	var cs []cell
	add := func(key, name, body string) {
		cs = append(cs, cell{key: key, name: name, prog: gen.FromTemplate(tmplMain(body), true)})
	}
	for _, ti := range intTypes() {
		T := ti.name
		// every value enters through an explicit conversion of an in-range literal, so that only the
		// statement form under test can change the type
		val := func(v string) string { return T + "(" + v + ")" }
		starts := []string{ti.max, ti.min, "5"}
		head := func(start string) string {
			return fmt.Sprintf("\tvar x %s = %s\n\tvar big %s = %s\n", T, val(start), T, val(ti.max))
		}
		// the result is printed, and then combined with a variable of the same type at its maximum:
		// a result whose type drifted away from T shows as a different (unwrapped) value
		tail := "\t__F__Printf(\"%d\\n\", x)\n\tz := x + big\n\t__F__Printf(\"%d\\n\", z)\n\tq := x * big\n\t__F__Printf(\"%d\\n\", q)\n"
		for _, st := range starts {
			add("incdec:"+T, "x++ from "+st, head(st)+"\tx++\n"+tail)
			add("incdec:"+T, "x-- from "+st, head(st)+"\tx--\n"+tail)
			for _, op := range []string{"+=", "-=", "*=", "/="} {
				add("compound-const:"+T, "x "+op+" 3 from "+st, head(st)+"\tx "+op+" 3\n"+tail)
				add("compound:"+T, "x "+op+" T(3) from "+st, head(st)+"\tx "+op+" "+val("3")+"\n"+tail)
			}
			for _, op := range []string{"+", "-"} {
				add("selfadd-const:"+T, "x = x "+op+" 1 from "+st, head(st)+"\tx = x "+op+" 1\n"+tail)
				add("selfadd:"+T, "x = x "+op+" T(2) from "+st, head(st)+"\tx = x "+op+" "+val("2")+"\n"+tail)
			}
			if ti.signed {
				add("neg:"+T+":var", "y := -x from "+st, head(st)+"\ty := -x\n\t__F__Printf(\"%d\\n\", y)\n\tz2 := y + big\n\t__F__Printf(\"%d\\n\", z2)\n\tx = -y\n"+tail)
			}
		}
		for _, pr := range [][2]string{{ti.min, ti.max}, {ti.max, ti.max}, {"7", "3"}} {
			body := fmt.Sprintf("\tvar a %s = %s\n\tvar b %s = %s\n", T, val(pr[0]), T, val(pr[1])) +
				"\t__F__Printf(\"%t %t %t %t %t %t\\n\", a == b, a != b, a < b, a <= b, a > b, a >= b)\n" +
				"\t__F__Printf(\"%t %t %t\\n\", a < 4, b >= 4, a == 7)\n"
			add("cmp:"+T, "compare "+pr[0]+" with "+pr[1], body)
		}
	}
	for _, T := range []string{"float32", "float64"} {
		val := func(v string) string { return T + "(" + v + ")" }
		for _, st := range []string{"0.0", "2.5", "-1.75", "16777216.0"} {
			head := fmt.Sprintf("\tvar x %s = %s\n", T, val(st))
			tail := "\t__F__Printf(\"%v %.6f\\n\", x, x)\n\tz := x / 3.0\n\t__F__Printf(\"%v\\n\", z)\n"
			add("incdec:"+T, "x++ from "+st, head+"\tx++\n"+tail)
			add("incdec:"+T, "x-- from "+st, head+"\tx--\n"+tail)
			for _, op := range []string{"+=", "-=", "*=", "/="} {
				add("compound-const:"+T, "x "+op+" 2.5 from "+st, head+"\tx "+op+" 2.5\n"+tail)
				add("compound:"+T, "x "+op+" T(2.5) from "+st, head+"\tx "+op+" "+val("2.5")+"\n"+tail)
			}
			add("selfadd-const:"+T, "x = x + 1.0 from "+st, head+"\tx = x + 1.0\n"+tail)
			add("selfadd:"+T, "x = x + T(1.0) from "+st, head+"\tx = x + "+val("1.0")+"\n"+tail)
			add("neg:"+T+":var", "y := -x from "+st, head+"\ty := -x\n\t__F__Printf(\"%v\\n\", y)\n\tx = y * 3.0\n"+tail)
			add("cmp:"+T, "compare with "+st, head+fmt.Sprintf("\tvar b %s = %s\n", T, val("2.5"))+
				"\t__F__Printf(\"%t %t %t %t %t %t\\n\", x == b, x != b, x < b, x <= b, x > b, x >= b)\n")
		}
	}
	// an untyped constant at the argument / return / declaration boundary of every non-default numeric type
	for _, T := range []string{"int8", "int16", "int32", "int64", "uint", "uint8", "uint16", "uint32", "uint64", "float32"} {
		k := "5"
		if T == "float32" {
			k = "2.5"
		}
		cs = append(cs, cell{key: "arg-const:" + T, name: "f(" + k + ") with a " + T + " parameter", prog: gen.FromTemplate(
			"func __P__f(a "+T+") "+T+" {\n\treturn a + a\n}\n\n"+tmplMain("\t__F__Printf(\"%v\\n\", __P__f("+k+"))\n"), false)})
		cs = append(cs, cell{key: "method-arg-const:" + T, name: "v.M(" + k + ") with a " + T + " parameter", prog: gen.FromTemplate(
			"type __P__S struct {\n\tF int\n}\n\nfunc (r __P__S) M(a "+T+") "+T+" {\n\treturn a + a\n}\n\n"+tmplMain("\tv := __P__S{F: 1}\n\t__F__Printf(\"%v %d\\n\", v.M("+k+"), v.F)\n"), false)})
		cs = append(cs, cell{key: "return-const:" + T, name: "return 5 from a function with result " + T, prog: gen.FromTemplate(
			"func __P__f(a "+T+") "+T+" {\n\tif a > 100 {\n\t\treturn 5\n\t}\n\treturn a + 7\n}\n\n"+tmplMain("\tvar x "+T+" = "+T+"(101)\n\t__F__Printf(\"%v %v\\n\", __P__f(x), __P__f(x - x))\n"), false)})
		cs = append(cs, cell{key: "decl-const:" + T, name: "var x " + T + " = 5", prog: gen.FromTemplate(
			tmplMain("\tvar x "+T+" = 5\n\tx = x + x\n\t__F__Printf(\"%v\\n\", x)\n"), false)})
	}
	cs = append(cs, findingProbes()...)
	cs = append(cs, rangeReturnCells()...)
	cs = append(cs, deferArgCells()...)
	cs = append(cs, structCopyCells()...)
	return cs
}

// findingProbes: one minimal program per construct that was found to break the
// property. The construct is kept out of the random stream while its key is in
// known_findings; the probe keeps it under test.
func findingProbes() []cell {
	var cs []cell
	add := func(key, name, tmpl string) {
		cs = append(cs, cell{key: key, name: name, prog: gen.FromTemplate(tmpl, true)})
	}
	add("structlit:bare-const-field", "struct literal: constant initialiser of an int32 field",
		"type __P__S struct {\n\tA int\n\tB int32\n}\n\n"+tmplMain("\tp := __P__S{A: 1, B: 2147483647}\n\tp.B = p.B + 1\n\t__F__Printf(\"%d\\n\", p.B)\n\tvar q int32 = 2147483647\n\tp.B = q\n\tp.B += 1\n\t__F__Printf(\"%d\\n\", p.B)\n"))
	add("struct-alias:store-into-collection", "a struct variable stored into a slice literal / append / element / map literal must be copied",
		"type __P__S struct {\n\tA int\n\tB string\n}\n\n"+tmplMain("\tp := __P__S{A: 1, B: \"a\"}\n\ts := []__P__S{p}\n\tp.B = \"b\"\n\ts = append(s, p)\n\tp.B = \"c\"\n\ts[0].A = 7\n\t__F__Printf(\"%s %s %s %d\\n\", s[0].B, s[1].B, p.B, p.A)\n"+
			"\tt := []__P__S{__P__S{A: 0, B: \"z\"}}\n\tt[0] = p\n\tp.B = \"d\"\n\tm := map[string]__P__S{\"k\": p}\n\tp.B = \"e\"\n\t__F__Printf(\"%s %s %s\\n\", t[0].B, m[\"k\"].B, p.B)\n"))
	add("struct-alias:range-value", "writing a field of the range VALUE variable must not change the slice element",
		"type __P__S struct {\n\tA int\n\tB string\n}\n\n"+tmplMain("\ts := []__P__S{__P__S{A: 1, B: \"a\"}, __P__S{A: 2, B: \"b\"}}\n\tfor _, e := range s {\n\t\te.B = \"w\"\n\t\te.A = e.A + 10\n\t\t__F__Printf(\"%d %s\\n\", e.A, e.B)\n\t}\n\t__F__Printf(\"%d %s %d %s\\n\", s[0].A, s[0].B, s[1].A, s[1].B)\n"))
	add("loopvar-capture:continue-in-if-init", "continue executed under an if with an init statement; a deferred closure captured the loop variable",
		"func __P__f() {\n\tfor i := 0; i < 3; i++ {\n\t\tdefer func() {\n\t\t\t__F__Printf(\"d %d\\n\", i)\n\t\t}()\n\t\tif v := (-6) - i; v > 2 {\n\t\t\t__F__Println(\"x\")\n\t\t} else {\n\t\t\tif i <= 8 {\n\t\t\t\tcontinue\n\t\t\t}\n\t\t}\n\t}\n}\n\n"+
			tmplMain("\t__P__f()\n"))
	add("loopvar-capture:for3-assign-post", "closure capturing the variable of a three-clause loop whose post statement is i = i + 1",
		"func __P__f() {\n\tfor i := 0; i < 3; i = i + 1 {\n\t\tdefer func() {\n\t\t\t__F__Printf(\"d %d\\n\", i)\n\t\t}()\n\t}\n}\n\n"+
			tmplMain("\t__P__f()\n\tvar fs []func() int\n\tfor j := 0; j < 3; j = j + 1 {\n\t\tfs = append(fs, func() int { return j })\n\t}\n\tfor _, g := range fs {\n\t\t__F__Printf(\"c %d\\n\", g())\n\t}\n"))
	add("loopvar-capture:for3-incr-post", "closure capturing the variable of a three-clause loop whose post statement is i++",
		"func __P__f() {\n\tfor i := 0; i < 3; i++ {\n\t\tdefer func() {\n\t\t\t__F__Printf(\"d %d\\n\", i)\n\t\t}()\n\t}\n}\n\n"+
			tmplMain("\t__P__f()\n\tvar fs []func() int\n\tfor j := 0; j < 3; j++ {\n\t\tfs = append(fs, func() int { return j })\n\t}\n\tfor _, g := range fs {\n\t\t__F__Printf(\"c %d\\n\", g())\n\t}\n"))
	add("closure:unused-param", "function literal with a parameter it does not use",
		tmplMain("\tf := func(a int, b string) int {\n\t\treturn a + 1\n\t}\n\t__F__Printf(\"%d\\n\", f(1, \"s\"))\n"))
	add("parallel-define:last-call", "a, b := 1, len(s)",
		tmplMain("\ts := \"abc\"\n\ta, b := 1, len(s)\n\t__F__Printf(\"%d %d\\n\", a, b)\n\tc, d := len(s), 1\n\t__F__Printf(\"%d %d\\n\", c, d)\n"))
	add("parallel-define:first-is-index", "a, b := m[k], x",
		tmplMain("\tm := map[int]int{2: 40}\n\tx := 7\n\ta, b := m[2], x\n\t__F__Printf(\"%d %d\\n\", a, b)\n"))
	add("label:first-in-block", "label as first statement of an if block",
		tmplMain("\tx := 3\n\tif x > 1 {\n\tL1:\n\t\tfor i := 0; i < 2; i++ {\n\t\t\tfor j := 0; j < 2; j++ {\n\t\t\t\tif j == 1 {\n\t\t\t\t\tcontinue L1\n\t\t\t\t}\n\t\t\t\t__F__Printf(\"%d %d\\n\", i, j)\n\t\t\t}\n\t\t}\n\t}\n\t__F__Println(\"done\")\n"))
	add("empty-block:after-name", "if x == p.F { } with an empty body",
		"type __P__S struct {\n\tF int\n}\n\n"+tmplMain("\tp := __P__S{F: 2}\n\tx := 1\n\tif x > 3 {\n\t\t__F__Println(\"a\")\n\t} else if 2 == p.F {\n\t}\n\t__F__Println(\"done\")\n"))
	add("intlit:above-int32", "integer literal above the int32 range used as int",
		tmplMain("\tm := map[string]int{\"a\": 1}\n\tv := 4294967296\n\tm[\"a\"] = v\n\t__F__Printf(\"%d\\n\", m[\"a\"])\n\tn := map[string]int{\"b\": 2147483648}\n\t__F__Printf(\"%d\\n\", n[\"b\"])\n"))
	add("switch-default:jump", "break inside an if inside a default clause",
		tmplMain("\tfor i := 0; i < 3; i++ {\n\t\tswitch i {\n\t\tcase 7:\n\t\t\t__F__Println(\"seven\")\n\t\tdefault:\n\t\t\tif i >= 1 {\n\t\t\t\tbreak\n\t\t\t}\n\t\t\t__F__Println(\"after if\")\n\t\t}\n\t\t__F__Printf(\"i=%d\\n\", i)\n\t}\n\t__F__Println(\"done\")\n"))
	add("switch-default:jump", "continue inside an if inside a default clause",
		tmplMain("\tfor i := 0; i < 3; i++ {\n\t\tswitch {\n\t\tdefault:\n\t\t\tif i >= 1 {\n\t\t\t\tcontinue\n\t\t\t}\n\t\t\t__F__Println(\"after if\")\n\t\t}\n\t\t__F__Printf(\"i=%d\\n\", i)\n\t}\n\t__F__Println(\"done\")\n"))
	add("switch-default:return-call", "return of several values, the last one containing a conversion, inside a default clause",
		"func __P__h(a int8, b string) (string, string, int8) {\n\tswitch len(b) / (-7) {\n\tcase 2:\n\t\t__F__Println(\"two\")\n\tdefault:\n\t\tif a >= int8(4) {\n\t\t\treturn b, b, a * int8(6)\n\t\t}\n\t}\n\treturn \"hello\", \"ego\", a\n}\n\n"+
			tmplMain("\tp, q, r := __P__h(int8(5), \"abc\")\n\t__F__Printf(\"%s %s %d\\n\", p, q, r)\n"))
	add("parallel-assign:in-for3-body", "a, b = b, a inside a three-clause for loop",
		tmplMain("\ta := 1\n\tb := 2\n\tfor i := 0; i < 3; i++ {\n\t\ta, b = b, a\n\t\t__F__Printf(\"%d %d\\n\", a, b)\n\t}\n\tc := 5\n\td := 6\n\tfor i := 0; i < 3; i++ {\n\t\tc, d = d, c+d\n\t\t__F__Printf(\"%d %d\\n\", c, d)\n\t}\n"))
	add("parallel-assign:before-for3-in-block", "a, b = b, a followed by a for loop in the same block",
		tmplMain("\ta := 1\n\tb := 2\n\tc := 5\n\tif c > 3 {\n\t\tb, a = a, b\n\t\tfor i := 0; i < 1; i++ {\n\t\t\tc++\n\t\t}\n\t}\n\t__F__Printf(\"%d %d %d\\n\", a, b, c)\n"))
	add("return:in-nested-loop", "return from the first iteration of a nested loop",
		"func __P__h(a string) string {\n\tfor i := 0; i < 1; i++ {\n\t\tfor j := 0; j < 2; j++ {\n\t\t\tif j == 0 {\n\t\t\t\treturn a + a\n\t\t\t}\n\t\t}\n\t}\n\treturn a\n}\n\n"+
			tmplMain("\t__F__Printf(\"%s %d\\n\", __P__h(\"b\"), 6)\n"))
	add("continue-label:range-outer", "continue L from a nested loop, L labels a range loop; the function has a deferred call",
		"func __P__h(a int) (res int) {\n\tdefer func() {\n\t\t__F__Println(\"deferred\")\n\t}()\n\tc := 0\nL:\n\tfor i := range []int{1, 2} {\n\t\tc += i\n\t\tfor j := 0; j < 3; j++ {\n\t\t\tif j == 0 {\n\t\t\t\tcontinue L\n\t\t\t}\n\t\t\tc += 10\n\t\t}\n\t\tc += 1000\n\t}\n\treturn a + c\n}\n\n"+
			tmplMain("\t__F__Printf(\"%d %d\\n\", __P__h(2), 6)\n"))
	add("break-label:range-outer", "break L from a nested loop, L labels a range loop; the function has a deferred call",
		"func __P__h(a int) (res int) {\n\tdefer func() {\n\t\t__F__Println(\"deferred\")\n\t}()\n\tc := 0\nL:\n\tfor i := range []int{1, 2} {\n\t\tc += i\n\t\tfor j := 0; j < 3; j++ {\n\t\t\tif j == 0 {\n\t\t\t\tbreak L\n\t\t\t}\n\t\t\tc += 10\n\t\t}\n\t\tc += 1000\n\t}\n\treturn a + c\n}\n\n"+
			tmplMain("\t__F__Printf(\"%d %d\\n\", __P__h(2), 6)\n"))
	add("continue-label:cond-outer", "continue L from a nested loop, L labels a cond loop; the function has a deferred call",
		"func __P__h(a int) (res int) {\n\tdefer func() {\n\t\t__F__Println(\"deferred\")\n\t}()\n\tc := 0\nL:\n\tfor c < 3 {\n\t\tc++\n\t\tfor j := 0; j < 3; j++ {\n\t\t\tif j == 0 {\n\t\t\t\tcontinue L\n\t\t\t}\n\t\t\tc += 10\n\t\t}\n\t\tc += 1000\n\t}\n\treturn a + c\n}\n\n"+
			tmplMain("\t__F__Printf(\"%d %d\\n\", __P__h(2), 6)\n"))
	add("break-label:cond-outer", "break L from a nested loop, L labels a cond loop; the function has a deferred call",
		"func __P__h(a int) (res int) {\n\tdefer func() {\n\t\t__F__Println(\"deferred\")\n\t}()\n\tc := 0\nL:\n\tfor c < 3 {\n\t\tc++\n\t\tfor j := 0; j < 3; j++ {\n\t\t\tif j == 0 {\n\t\t\t\tbreak L\n\t\t\t}\n\t\t\tc += 10\n\t\t}\n\t\tc += 1000\n\t}\n\treturn a + c\n}\n\n"+
			tmplMain("\t__F__Printf(\"%d %d\\n\", __P__h(2), 6)\n"))
	add("continue-label:forever-outer", "continue L from a nested loop, L labels a forever loop; the function has a deferred call",
		"func __P__h(a int) (res int) {\n\tdefer func() {\n\t\t__F__Println(\"deferred\")\n\t}()\n\tc := 0\nL:\n\tfor {\n\t\tc++\n\t\tif c > 3 {\n\t\t\tbreak\n\t\t}\n\t\tfor j := 0; j < 3; j++ {\n\t\t\tif j == 0 {\n\t\t\t\tcontinue L\n\t\t\t}\n\t\t\tc += 10\n\t\t}\n\t\tc += 1000\n\t}\n\treturn a + c\n}\n\n"+
			tmplMain("\t__F__Printf(\"%d %d\\n\", __P__h(2), 6)\n"))
	add("break-label:forever-outer", "break L from a nested loop, L labels a forever loop; the function has a deferred call",
		"func __P__h(a int) (res int) {\n\tdefer func() {\n\t\t__F__Println(\"deferred\")\n\t}()\n\tc := 0\nL:\n\tfor {\n\t\tc++\n\t\tif c > 3 {\n\t\t\tbreak\n\t\t}\n\t\tfor j := 0; j < 3; j++ {\n\t\t\tif j == 0 {\n\t\t\t\tbreak L\n\t\t\t}\n\t\t\tc += 10\n\t\t}\n\t\tc += 1000\n\t}\n\treturn a + c\n}\n\n"+
			tmplMain("\t__F__Printf(\"%d %d\\n\", __P__h(2), 6)\n"))
	add("continue-label:for3-outer", "continue L from a nested loop, L labels a for3 loop; the function has a deferred call",
		"func __P__h(a int) (res int) {\n\tdefer func() {\n\t\t__F__Println(\"deferred\")\n\t}()\n\tc := 0\nL:\n\tfor i := 0; i < 2; i++ {\n\t\tc += i\n\t\tfor j := 0; j < 3; j++ {\n\t\t\tif j == 0 {\n\t\t\t\tcontinue L\n\t\t\t}\n\t\t\tc += 10\n\t\t}\n\t\tc += 1000\n\t}\n\treturn a + c\n}\n\n"+
			tmplMain("\t__F__Printf(\"%d %d\\n\", __P__h(2), 6)\n"))
	add("break-label:for3-outer", "break L from a nested loop, L labels a for3 loop; the function has a deferred call",
		"func __P__h(a int) (res int) {\n\tdefer func() {\n\t\t__F__Println(\"deferred\")\n\t}()\n\tc := 0\nL:\n\tfor i := 0; i < 2; i++ {\n\t\tc += i\n\t\tfor j := 0; j < 3; j++ {\n\t\t\tif j == 0 {\n\t\t\t\tbreak L\n\t\t\t}\n\t\t\tc += 10\n\t\t}\n\t\tc += 1000\n\t}\n\treturn a + c\n}\n\n"+
			tmplMain("\t__F__Printf(\"%d %d\\n\", __P__h(2), 6)\n"))
	add("return:in-range-loop", "return from inside a range loop, called from inside a range loop",
		"func __P__h(xs []int) int {\n\tfor _, e := range xs {\n\t\tif e >= 0 {\n\t\t\treturn 5\n\t\t}\n\t}\n\treturn 1\n}\n\n"+
			tmplMain("\tfor i := range []int{-2, 4} {\n\t\ta := __P__h([]int{74, 6})\n\t\t__F__Printf(\"%d %d\\n\", i, a)\n\t}\n"))
	add("defer:before-return-expr", "deferred call and the return expression",
		"func __P__p(s string) int {\n\t__F__Println(s)\n\treturn 1\n}\n\nfunc __P__f() int {\n\tx := 1\n\tdefer func() {\n\t\t__F__Println(\"deferred\")\n\t\tx = 2\n\t}()\n\treturn x + __P__p(\"return expr\")\n}\n\nfunc __P__g() int {\n\tx := 1\n\tdefer func() {\n\t\tx = 2\n\t}()\n\treturn x\n}\n\n"+
			tmplMain("\t__F__Printf(\"%d\\n\", __P__f())\n\t__F__Printf(\"%d\\n\", __P__g())\n"))
	add("multi-return:eval-order", "return e1, e2 evaluates e1 first",
		"func __P__p(s string) float64 {\n\t__F__Println(s)\n\treturn 2.0\n}\n\nfunc __P__two() (float64, float64) {\n\treturn 1.0 - (__P__p(\"a\") * __P__p(\"b\")), __P__p(\"c\") / 0.5\n}\n\n"+
			tmplMain("\tx, y := __P__two()\n\t__F__Printf(\"%v %v\\n\", x, y)\n"))
	add("variadic-arg-const", "untyped constants as arguments of a variadic float32 parameter",
		"func __P__v(base float32, xs ...float32) float32 {\n\tfor _, x := range xs {\n\t\tbase = base + x\n\t}\n\treturn base\n}\n\n"+
			tmplMain("\t__F__Printf(\"%v\\n\", __P__v(float32(0.5), 1.5, 2.25))\n"))
	add("variadic-arg-const", "untyped constants as arguments of a variadic int16 parameter",
		"func __P__v(base int16, xs ...int16) int16 {\n\tfor _, x := range xs {\n\t\tbase = base + x\n\t}\n\treturn base\n}\n\n"+
			tmplMain("\t__F__Printf(\"%v\\n\", __P__v(int16(32767), 1, 2))\n"))
	add("variadic-param:as-slice-arg", "a variadic parameter passed on as a slice argument",
		"func __P__n(xs []int8) int {\n\treturn len(xs)\n}\n\nfunc __P__v(va ...int8) int {\n\treturn __P__n(va) + 1\n}\n\n"+
			tmplMain("\t__F__Printf(\"%d\\n\", __P__v(int8(1), int8(2)))\n"))
	add("negconst:float32", "negative constant combined with a float32 value",
		tmplMain("\tvar v float32 = 2.25\n\tx := (-122.625) * (v / 4.0)\n\t__F__Printf(\"%v\\n\", x)\n\ty := v + (-0.5)\n\t__F__Printf(\"%v\\n\", y)\n"))
	return cs
}

func TestC01Directed(t *testing.T) {
	r := vh.New("C01", "directed")
	r.Rule = "enumerated cells: 10 integer widths x {x++, x--, x op= k (4 ops, bare and converted k), x = x +/- k, unary minus, six comparisons} x boundary start values (max, min, 5), the same for float32/float64, " +
		"and one probe per recorded finding; every cell under dynamic/relaxed/strict x optimizer {0,2}; expected output from the Go build of the same text. distinct = (cell, mode, optimizer); all cells are non-trivial (each exercises its form at a boundary)."
	r.Assume("the Go toolchain (go1.26) is the reference semantics")
	if c := vh.ReplayCase(); c != nil {
		c01Replay(t, r, c)
		return
	}
	egorun.Init()
	cells := directedCells()
	progs := make([]gen.Program, len(cells))
	for i, c := range cells {
		progs[i] = c.prog
	}
	gres, err := gen.RunGoBatch(arena(t), progs)
	if err != nil {
		t.Fatalf("go reference batch: %v", err)
	}
	probed := map[string]bool{}
	for i, c := range cells {
		g := gres[i]
		if g.BuildErr != "" || g.Missing {
			t.Fatalf("directed cell %q (%s) has no Go reference: %s", c.name, c.key, g.BuildErr)
		}
		if !probed[c.key] {
			probed[c.key] = true
			r.Probe(c.key)
		}
		type fail struct {
			mode   string
			opt    int
			class  string
			detail string
			out    string
			err    string
		}
		var fails []fail
		for _, m := range c01Modes {
			for _, o := range []int{0, 2} {
				e := runEgo(c.prog.Ego, egorun.Config{Types: m, Opt: o})
				r.Eval(vh.Hash(c.key, c.name, m, o), true)
				r.Count("cells.runs", 1)
				if class, detail := judge(e, g); class != "" {
					fails = append(fails, fail{m, o, class, detail, e.Out, e.Err})
				}
			}
		}
		r.Count("cells", 1)
		if len(fails) == 0 {
			r.Count("cells.agree", 1)
			continue
		}
		key := c.key
		onlyO2 := true
		var where []string
		for _, f := range fails {
			if f.opt != 2 {
				onlyO2 = false
			}
			where = append(where, fmt.Sprintf("%s/-o%d:%s", f.mode, f.opt, f.class))
		}
		if onlyO2 {
			key += ":o2"
		}
		f := fails[0]
		r.Violate(vh.Violation{Key: key, Desc: fmt.Sprintf("%s: %s [%s]", c.name, f.detail, strings.Join(where, " ")),
			Case:     c01Case{Kind: "directed", Key: key, Mode: f.mode, Opt: f.opt, Ego: c.prog.Ego, Go: gen.GoSingle(c.prog)},
			Expected: map[string]any{"stdout": g.Out, "panicked": g.Panicked},
			Observed: map[string]any{"stdout": f.out, "error": f.err}})
		if len(r.Samples) < 3 {
			r.Sample(map[string]any{"cell": c.name, "key": key, "ego": c.prog.Ego, "go_stdout": g.Out, "ego_stdout": f.out, "ego_error": f.err})
		}
	}
	r.Sample(map[string]any{"cell": cells[0].name, "ego": cells[0].prog.Ego, "go_stdout": gres[0].Out})
	if r.Evaluations == 0 {
		t.Fatal("observed nothing")
	}
	if err := r.Write(); err != nil {
		t.Fatal(err)
	}
}
