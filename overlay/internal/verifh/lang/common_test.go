package lang

// Shared pieces of the C01 and C10 monitors: running one Ego program in-process
// under a logical step budget, normalising Ego's abort report, comparing with
// the Go reference, and the cross-check through the real `ego` binary.

import (
	"bytes"
	"os"
	"os/exec"
	"path/filepath"
	"regexp"
	"strconv"
	"strings"
	"sync/atomic"

	"github.com/tucats/ego/internal/language/bytecode"
	"github.com/tucats/ego/internal/verifh/egorun"
	"github.com/tucats/ego/internal/verifh/gen"
)

// stepBudget bounds one in-process run (bytecode instructions). Generated
// programs are bounded by construction far below it (their Go rendering ends in
// microseconds); reaching it means the interpreter loops where Go does not.
const stepBudget = 40_000_000

// egoBudget is the budget in force (the C10 programs are tiny and use a smaller one).
var egoBudget int64 = stepBudget

type egoRes struct {
	Out     string
	Err     string // Ego error text, "" if the program ended normally
	GoPanic string // recovered Go panic of the interpreter itself
	Budget  bool   // step budget exhausted
}

func (e egoRes) aborted() bool { return e.Err != "" }

func runEgo(src string, cfg egorun.Config) egoRes {
	bytecode.VerifStepLimit.Store(atomic.LoadInt64(&bytecode.InstructionsExecuted) + egoBudget)
	hits := bytecode.VerifBudgetHits.Load()
	r := egorun.Run(src, cfg)
	bytecode.VerifStepLimit.Store(0)
	res := egoRes{Out: r.Out, Err: r.Err, GoPanic: r.Panic}
	if bytecode.VerifBudgetHits.Load() != hits {
		res.Budget = true
	}
	res.Out = stripPanicReport(res.Out, res.Err)
	return res
}

// stripPanicReport removes the abort report an unrecovered panic() writes to the
// program's output stream ("panic: <value>" followed by "Call frames:" lines).
// Go writes the corresponding report to stderr; it is the abort notice, not
// program output, and is compared through the abort outcome instead.
func stripPanicReport(out, err string) string {
	if !strings.Contains(err, "unhandled panic") {
		return out
	}
	i := strings.LastIndex(out, "panic: ")
	if i < 0 || (i > 0 && out[i-1] != '\n') {
		return out
	}
	if !strings.Contains(out[i:], "Call frames:") {
		return out
	}
	return out[:i]
}

var digitsRe = regexp.MustCompile(`\d+`)
var identRe = regexp.MustCompile(`\b[a-zA-Z]+\d+\b`)

// errClass reduces an Ego error message to a seed-independent class (numbers and generated names masked).
func errClass(msg string) string {
	if msg == "" {
		return "none"
	}
	if i := strings.Index(msg, "), "); i > 0 && strings.HasPrefix(msg, "at ") {
		msg = msg[i+3:]
	} else if strings.HasPrefix(msg, "at line") {
		if j := strings.Index(msg, ", "); j > 0 {
			msg = msg[j+2:]
		}
	}
	msg = identRe.ReplaceAllString(msg, "ID")
	msg = digitsRe.ReplaceAllString(msg, "N")
	msg = strings.Join(strings.Fields(msg), "-")
	if len(msg) > 60 {
		msg = msg[:60]
	}
	return msg
}

// judge compares one Ego execution with the Go reference. class is "" when they agree.
func judge(e egoRes, g gen.GoResult) (class, detail string) {
	switch {
	case e.GoPanic != "":
		return "interpreter-go-panic", firstLine(e.GoPanic)
	case e.Budget:
		return "no-termination", "logical step budget exhausted; the Go rendering / the model terminated"
	case g.Panicked && !e.aborted():
		return "go-aborts-ego-does-not", "Go panicked: " + g.PanicMsg
	case !g.Panicked && e.aborted():
		return "ego-error:" + errClass(e.Err), "Ego error: " + e.Err
	case e.Out != g.Out:
		return "stdout-differs", firstDiff(g.Out, e.Out)
	}
	return "", ""
}

func firstLine(s string) string {
	if i := strings.IndexByte(s, '\n'); i >= 0 {
		return s[:i]
	}
	return s
}

func firstDiff(want, got string) string {
	wl, gl := strings.Split(want, "\n"), strings.Split(got, "\n")
	for i := 0; i < len(wl) || i < len(gl); i++ {
		var w, g string
		if i < len(wl) {
			w = wl[i]
		} else {
			w = "<end>"
		}
		if i < len(gl) {
			g = gl[i]
		} else {
			g = "<end>"
		}
		if w != g {
			return "line " + itoa(i+1) + ": go=" + trunc(w, 120) + " ego=" + trunc(g, 120)
		}
	}
	return "equal"
}

func itoa(n int) string { return strconv.Itoa(n) }

func trunc(s string, n int) string {
	if len(s) <= n {
		return s
	}
	return s[:n] + "…"
}

// cliRun runs src through the real binary: ego run --types <mode> -o <opt> file.
func cliRun(src, mode string, opt int, name string) (stdout string, failed bool, err error) {
	bin := filepath.Join(os.Getenv("VERIF_BIN"), "ego")
	if _, e := os.Stat(bin); e != nil {
		return "", false, e
	}
	dir := filepath.Join(os.Getenv("VERIF_ARENA"), "cli")
	_ = os.MkdirAll(dir, 0o755)
	f := filepath.Join(dir, name+".ego")
	if e := os.WriteFile(f, []byte(src), 0o644); e != nil {
		return "", false, e
	}
	cmd := exec.Command(bin, "run", "--types", mode, "-o", itoa(opt), f)
	home := os.Getenv("VERIF_HOME")
	cmd.Env = append(os.Environ(), "HOME="+home, "EGO_PATH="+home)
	var so, se bytes.Buffer
	cmd.Stdout, cmd.Stderr = &so, &se
	runErr := cmd.Run()
	out := so.String()
	if runErr != nil {
		if _, ok := runErr.(*exec.ExitError); !ok {
			return "", false, runErr
		}
		failed = true
	}
	all := out + se.String()
	if failed && strings.Contains(all, "unhandled panic") {
		out = stripPanicReport(out, "unhandled panic")
	}
	if failed {
		// the CLI prints its "Error: ..." line on the same stream as the program output
		if i := strings.LastIndex(out, "Error: "); i >= 0 && (i == 0 || out[i-1] == '\n') {
			out = out[:i]
		}
	}
	return out, failed, nil
}
