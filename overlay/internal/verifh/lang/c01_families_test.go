package lang

// Two more directed families of C01 (expected output from the Go build, as for
// every directed cell):
//
//   - range-return: a function that returns from inside 1..3 nested for-range
//     loops (over a slice, a map or a string; index+value / value-only /
//     index-only form; returning a constant or a loop variable; on the first or a
//     later iteration; directly or through a second function that itself returns
//     from inside a range loop), called from the body of a loop in the caller
//     that then keeps iterating.
//   - defer-args: defer of a function LITERAL with >= 2 arguments of different
//     types, the function exits by panic(), recovered in the same function or in
//     the caller; the arguments must arrive in order with their defer-time values.

import (
	"fmt"
	"strings"

	"github.com/tucats/ego/internal/verifh/gen"
)

type rrShape struct {
	coll   string // slice | map | string
	loops  int    // nested range loops that the return abandons
	form   string // iv | v | i
	ret    string // const | var
	when   string // first | later
	depth  int    // 1: returns itself; 2: the innermost condition is a call of a function that returns from inside a range loop
	caller string // range | for3
	void   bool   // the callee prints what it found and returns no value
}

func (s rrShape) key() string {
	// the collection kind, the range form, the returned value and the iteration are in the cell name; all of
	// them behave alike for the defects recorded so far, so the key is (loops abandoned, callee depth, result kind, caller loop)
	k := fmt.Sprintf("range-return:L%d:d%d", s.loops, s.depth)
	if s.void {
		k += ":void"
	}
	if s.caller != "range" {
		k += ":caller-" + s.caller
	}
	return k
}

func (s rrShape) name() string {
	return fmt.Sprintf("return from %d nested range loop(s) over a %s, form %s, returns %s on the %s iteration, callee depth %d, caller loop %s, void=%t",
		s.loops, s.coll, s.form, s.ret, s.when, s.depth, s.caller, s.void)
}

// rangeHead renders "for <vars> := range <coll> {" for nesting level n, and the
// expressions that name the current element value (as int) and the value to return.
func (s rrShape) rangeHead(n int) (head, elem, retVar string, uses []string) {
	i, v := fmt.Sprintf("i%d", n), fmt.Sprintf("v%d", n)
	var coll, idxElem, idxRet string
	switch s.coll {
	case "slice":
		coll, idxElem, idxRet = "xs", "xs["+i+"]", i
	case "map":
		coll, idxElem, idxRet = "mp", "mp["+i+"]", "len("+i+")"
	default:
		coll, idxElem, idxRet = "str", i+" + 97", i
	}
	val := v
	if s.coll == "string" {
		val = "int(" + v + ")"
	}
	switch s.form {
	case "iv":
		ret := idxRet + " + " + val
		return "for " + i + ", " + v + " := range " + coll + " {", val, ret, []string{i, v}
	case "v":
		return "for _, " + v + " := range " + coll + " {", val, val, []string{v}
	default:
		return "for " + i + " := range " + coll + " {", idxElem, idxRet, []string{i}
	}
}

func (s rrShape) params() (decl, args, setup string) {
	switch s.coll {
	case "slice":
		return "xs []int, x int", "xs, x", "\txs := []int{97, 98, 99}\n"
	case "map":
		return "mp map[string]int, x int", "mp, x", "\tmp := map[string]int{\"key\": 97}\n"
	default:
		return "str string, x int", "str, x", "\tstr := \"abc\"\n"
	}
}

func (s rrShape) template() string {
	decl, args, setup := s.params()
	var b strings.Builder
	if s.depth == 2 {
		// has() returns from inside ONE range loop of the same form
		h := s
		h.loops = 1
		head, elem, _, uses := h.rangeHead(9)
		fmt.Fprintf(&b, "func __P__has(%s) bool {\n\t%s\n\t\tif %s == x {\n\t\t\treturn true\n\t\t}\n", decl, head, elem)
		for _, u := range uses {
			fmt.Fprintf(&b, "\t\t_ = %s\n", u)
		}
		b.WriteString("\t}\n\treturn false\n}\n\n")
	}
	if s.void {
		fmt.Fprintf(&b, "func __P__find(%s) {\n", decl)
	} else {
		fmt.Fprintf(&b, "func __P__find(%s) int {\n", decl)
	}
	ind := "\t"
	var allUses [][]string
	var elem, retVar string
	for n := 1; n <= s.loops; n++ {
		var head string
		var uses []string
		head, elem, retVar, uses = s.rangeHead(n)
		b.WriteString(ind + head + "\n")
		allUses = append(allUses, uses)
		ind += "\t"
	}
	ret := "99"
	if s.ret == "var" {
		ret = retVar
	}
	cond := elem + " == x"
	if s.depth == 2 {
		cond = "__P__has(" + args + ")"
	}
	if s.void {
		fmt.Fprintf(&b, "%sif %s {\n%s\t__F__Printf(\"found %%d\\n\", %s)\n%s\treturn\n%s}\n", ind, cond, ind, ret, ind, ind)
	} else {
		fmt.Fprintf(&b, "%sif %s {\n%s\treturn %s\n%s}\n", ind, cond, ind, ret, ind)
	}
	for n := s.loops; n >= 1; n-- {
		for _, u := range allUses[n-1] {
			b.WriteString(ind + "_ = " + u + "\n")
		}
		ind = ind[:len(ind)-1]
		b.WriteString(ind + "}\n")
	}
	if s.void {
		b.WriteString("\t__F__Println(\"none\")\n}\n\n")
	} else {
		b.WriteString("\treturn -1\n}\n\n")
	}

	// the caller keeps iterating after a call that returned from inside the loops and after one that did not
	hit := "97"
	if s.when == "later" {
		hit = "98"
	}
	b.WriteString("__MAIN__\n" + setup)
	b.WriteString("\ttargets := []int{" + hit + ", 5, " + hit + ", 99}\n")
	if s.coll == "map" {
		b.WriteString("\t_ = targets[3]\n")
	}
	if s.caller == "range" {
		b.WriteString("\tfor n, x := range targets {\n")
	} else {
		b.WriteString("\tfor n := 0; n < len(targets); n++ {\n\t\tx := targets[n]\n")
	}
	if s.void {
		fmt.Fprintf(&b, "\t\t__P__find(%s)\n\t\t__F__Printf(\"%%d %%d\\n\", n, x)\n\t}\n\t__F__Println(\"done\")\n}\n", args)
	} else {
		fmt.Fprintf(&b, "\t\tr := __P__find(%s)\n\t\t__F__Printf(\"%%d %%d %%d\\n\", n, x, r)\n\t}\n\t__F__Println(\"done\")\n}\n", args)
	}
	return b.String()
}

func rangeReturnCells() []cell {
	var cs []cell
	add := func(s rrShape) {
		cs = append(cs, cell{key: s.key(), name: s.name(), prog: gen.FromTemplate(s.template(), true)})
	}
	for _, coll := range []string{"slice", "map", "string"} {
		for loops := 1; loops <= 3; loops++ {
			for _, form := range []string{"iv", "v", "i"} {
				for _, ret := range []string{"const", "var"} {
					for _, when := range []string{"first", "later"} {
						if coll == "map" && when == "later" {
							continue // one-element map: the iteration order must not matter
						}
						add(rrShape{coll, loops, form, ret, when, 1, "range", false})
					}
					add(rrShape{coll, loops, form, ret, "first", 2, "range", false})
					add(rrShape{coll, loops, form, ret, "first", 1, "range", true})
					add(rrShape{coll, loops, form, ret, "first", 2, "range", true})
				}
			}
			// neighbour: the same callee called from a three-clause loop
			for _, void := range []bool{false, true} {
				add(rrShape{coll, loops, "iv", "var", "first", 1, "for3", void})
				add(rrShape{coll, loops, "iv", "var", "first", 2, "for3", void})
			}
		}
	}
	return cs
}

// deferArgCells: defer func(<args of different types>) {...}(<values>) in a function that exits by panic().
func deferArgCells() []cell {
	type argset struct {
		params string
		verbs  string
		names  string
		values string
	}
	sets := []argset{
		{"a int, s string", "%d %s", "a, s", "n + 1, \"s\" + t"},
		{"s string, a int", "%s %d", "s, a", "t + \"z\", n * 2"},
		{"a int, s string, b bool", "%d %s %t", "a, s, b", "n, t, n > 1"},
		{"fl float64, a int8, s string, b bool", "%v %d %q %t", "fl, a, s, b", "2.5, int8(n), t, false"},
		{"u uint16, fl float32, s string", "%d %v %s", "u, fl, s", "uint16(n), float32(1.5), t + t"},
	}
	var cs []cell
	for i, as := range sets {
		nargs := strings.Count(as.params, ",") + 1
		for _, where := range []string{"same", "caller"} {
			var b strings.Builder
			rec := "\tdefer func() {\n\t\te := recover()\n\t\tif e != nil {\n\t\t\t__F__Printf(\"recovered %v\\n\", e)\n\t\t\tres = -1\n\t\t}\n\t}()\n"
			b.WriteString("func __P__f(n int, t string) (res int) {\n")
			if where == "same" {
				b.WriteString(rec)
			}
			fmt.Fprintf(&b, "\tdefer func(%s) {\n\t\t__F__Printf(\"deferred %s\\n\", %s)\n\t}(%s)\n", as.params, as.verbs, as.names, as.values)
			// the values are captured when the defer statement runs, not when the function unwinds
			b.WriteString("\tn = n + 100\n\tt = t + \"!\"\n")
			fmt.Fprintf(&b, "\tdefer func(%s) {\n\t\t__F__Printf(\"second %s\\n\", %s)\n\t}(%s)\n", as.params, as.verbs, as.names, as.values)
			b.WriteString("\tif n > 0 {\n\t\tpanic(\"boom\")\n\t}\n\treturn n\n}\n\n")
			if where == "caller" {
				b.WriteString("func __P__g(n int, t string) (res int) {\n" + rec + "\tres = __P__f(n, t)\n\t__F__Println(\"not reached\")\n\treturn res\n}\n\n")
				b.WriteString(tmplMain("\t__F__Printf(\"%d\\n\", __P__g(3, \"t\"))\n\t__F__Printf(\"%d\\n\", __P__g(7, \"u\"))\n"))
			} else {
				b.WriteString(tmplMain("\t__F__Printf(\"%d\\n\", __P__f(3, \"t\"))\n\t__F__Printf(\"%d\\n\", __P__f(7, \"u\"))\n"))
			}
			cs = append(cs, cell{key: fmt.Sprintf("defer-args:%dargs:recover-in-%s", nargs, where),
				name: fmt.Sprintf("defer func(%s){...}(...) (set %d), exit by panic, recovered in the %s function", as.params, i, where),
				prog: gen.FromTemplate(b.String(), true)})
		}
	}
	return cs
}

// structCopyCells: struct types nested BY VALUE 1..4 levels deep; a value is copied by :=, by =, by
// passing it as a parameter or by returning it; an innermost field is then written through one of the two
// values and read through both. Go's value semantics are the oracle (LANGUAGE.md: a struct assigned or
// passed is a copy; only a *T receiver / pointer shares).
func structCopyCells() []cell {
	var cs []cell
	for depth := 1; depth <= 4; depth++ {
		// type T1 struct{ N int; S string }; Tk struct{ In T(k-1); Tag int }
		var decl strings.Builder
		decl.WriteString("type __P__T1 struct {\n\tN int\n\tS string\n}\n\n")
		for k := 2; k <= depth; k++ {
			fmt.Fprintf(&decl, "type __P__T%d struct {\n\tIn __P__T%d\n\tTag int\n}\n\n", k, k-1)
		}
		lit := "__P__T1{N: 1, S: \"s\"}"
		path := ""
		for k := 2; k <= depth; k++ {
			lit = fmt.Sprintf("__P__T%d{In: %s, Tag: %d}", k, lit, k)
			path += ".In"
		}
		T := fmt.Sprintf("__P__T%d", depth)
		fmt.Fprintf(&decl, "func __P__id(v %s) %s {\n\treturn v\n}\n\nfunc __P__poke(v %s) int {\n\tv%s.N = 77\n\tv%s.S = \"poked\"\n\treturn v%s.N\n}\n\nfunc __P__make() %s {\n\tv := %s\n\treturn v\n}\n\n",
			T, T, T, path, path, path, T, lit)
		show := "\t__F__Printf(\"%d %s %d %s\\n\", a" + path + ".N, a" + path + ".S, b" + path + ".N, b" + path + ".S)\n"
		for _, kind := range []string{"define", "assign", "param", "return", "make-twice"} {
			for _, written := range []string{"orig", "copy"} {
				var b strings.Builder
				b.WriteString("\ta := " + lit + "\n")
				switch kind {
				case "define":
					b.WriteString("\tb := a\n")
				case "assign":
					b.WriteString("\tvar b " + T + "\n\tb = a\n")
				case "param":
					b.WriteString("\tb := a\n\t__F__Printf(\"%d\\n\", __P__poke(a))\n")
				case "return":
					b.WriteString("\tb := __P__id(a)\n")
				default:
					b.WriteString("\ta = __P__make()\n\tb := __P__make()\n")
				}
				b.WriteString(show)
				w := "a"
				if written == "copy" {
					w = "b"
				}
				fmt.Fprintf(&b, "\t%s%s.N = 42\n\t%s%s.S = \"w\"\n", w, path, w, path)
				b.WriteString(show)
				if depth >= 2 {
					// a whole inner struct assigned across, then written again
					fmt.Fprintf(&b, "\tb.In = a.In\n\ta%s.N = a%s.N + 1\n", path, path)
					b.WriteString(show)
				}
				cs = append(cs, cell{key: fmt.Sprintf("struct-copy:d%d:%s:write-%s", depth, kind, written),
					name: fmt.Sprintf("struct nested %d deep, copied by %s, innermost field written through the %s", depth, kind, written),
					prog: gen.FromTemplate(decl.String()+tmplMain(b.String()), true)})
			}
		}
	}
	return cs
}
