package lang

// C01 — Go-compatible programs print what Go prints.
//
// Events: (stdout, outcome) of one program under Ego (dynamic, relaxed, strict;
// optimizer 0 and a second run at optimizer 2) and under Go (one batch build per
// few hundred programs, each program run under recover()).
// Oracle: stdout equal; Go panicked <=> Ego ended with an error, with equal
// output before the abort; Go finished => Ego reports no error.
//
// Parts: "random" (generator stream, known-finding constructs kept out through
// the avoid set), "directed" (operator x width x statement-form table plus one
// probe per known finding, each reporting under its own narrow key).

import (
	"encoding/json"
	"fmt"
	"os"
	"sort"
	"strings"
	"testing"

	"github.com/tucats/ego/internal/verifh/egorun"
	"github.com/tucats/ego/internal/verifh/gen"
	"github.com/tucats/ego/internal/verifh/vh"
)

var c01Modes = []string{"dynamic", "relaxed", "strict"}

type c01Case struct {
	Kind string `json:"kind"` // "random" | "directed"
	Key  string `json:"key,omitempty"`
	Mode string `json:"mode"`
	Opt  int    `json:"opt"`
	Ego  string `json:"ego"`
	Go   string `json:"go"` // stand-alone Go rendering of the same program
}

func arena(t *testing.T) string {
	a := os.Getenv("VERIF_ARENA")
	if a == "" {
		a = t.TempDir()
	}
	return a
}

// c01Replay reruns the single case of a replay file.
func c01Replay(t *testing.T, r *vh.Report, raw json.RawMessage) {
	var c c01Case
	if err := json.Unmarshal(raw, &c); err != nil {
		t.Fatalf("replay case: %v", err)
	}
	p := gen.Program{Ego: c.Ego}
	// the stored Go text is a complete file; rebuild the body by taking the template route again is not
	// possible, so the single-program batch is reconstructed from the stored file directly
	res, err := gen.RunGoFile(arena(t), c.Go)
	if err != nil {
		t.Fatalf("go reference: %v", err)
	}
	e := runEgo(p.Ego, egorun.Config{Types: c.Mode, Opt: c.Opt})
	r.Eval(vh.Hash(c.Ego, c.Mode, c.Opt), true)
	r.Eval(vh.Hash(c.Ego, c.Mode, c.Opt, "replay"), true)
	if class, detail := judge(e, res); class != "" {
		key := c.Key
		if key == "" {
			key = "random:" + class
		}
		r.Violate(vh.Violation{Key: key, Desc: detail, Case: c, Expected: trunc(res.Out, 2000), Observed: trunc(e.Out, 2000) + " / err=" + e.Err})
	}
	_ = r.Write()
}

func TestC01Random(t *testing.T) {
	r := vh.New("C01", "random")
	r.Rule = "programs from verifh/gen (typed AST of the documented Go-compatible core, well-typed/terminating/deterministic by construction), half in the explicit-conversion flavour and half with untyped constants adapting; " +
		"distinct = distinct program text; non-trivial = at least 10 distinct language features used and non-empty Go output. Each program is run under dynamic/relaxed/strict at optimizer 0 and once more at optimizer 2."
	r.Assume("the Go toolchain (go1.26) is the reference semantics; the batch wrapper recovers panics per program")
	r.Assume("the abort report an unrecovered Ego panic() writes to stdout (panic: ... Call frames: ...) is the abort notice, not program output")
	if c := vh.ReplayCase(); c != nil {
		c01Replay(t, r, c)
		return
	}
	egorun.Init()
	known := vh.KnownKeys("C01")
	avoid := gen.KnownAvoid(known)
	rng := vh.Rand("c01-random")
	total := vh.N(600, 20000)
	batch := 300
	if vh.Tier() == "thorough" {
		batch = 500
	}
	cliEvery := 100 // 1 % of the programs go through the real binary as well
	featCount := map[string]int{}
	cliBudget := vh.N(6, 200)
	done := 0
	for done < total {
		n := batch
		if total-done < n {
			n = total - done
		}
		progs := make([]gen.Program, n)
		for i := range progs {
			progs[i] = gen.New(rng, gen.Options{Strict: (done+i)%2 == 0, Avoid: avoid})
		}
		gres, err := gen.RunGoBatch(arena(t), progs)
		r.Count("go.batches", 1)
		if err != nil {
			r.Inconcl("go batch: " + trunc(err.Error(), 300))
		}
		for i, p := range progs {
			idx := done + i
			g := gres[i]
			if g.BuildErr != "" {
				r.Count("generator.go_rejected", 1)
				r.Inconcl("generator produced a program Go rejects: " + trunc(g.BuildErr, 200))
				continue
			}
			if g.Missing {
				r.Count("go.missing", 1)
				continue
			}
			id := vh.Hash(p.Ego)
			nontrivial := len(p.Features) >= 10 && g.Out != ""
			if g.Panicked {
				r.Count("go.aborts", 1)
				if g.Runtime {
					r.Count("go.aborts.runtime_error", 1)
				}
			}
			for _, f := range p.Features {
				featCount[f]++
			}
			type run struct {
				mode string
				opt  int
			}
			runs := []run{{"dynamic", 0}, {"relaxed", 0}, {"strict", 0}, {c01Modes[idx%3], 2}}
			for _, rn := range runs {
				e := runEgo(p.Ego, egorun.Config{Types: rn.mode, Opt: rn.opt})
				r.Eval(id+rn.mode+itoa(rn.opt), nontrivial)
				r.Count("ego.runs."+rn.mode, 1)
				if e.aborted() {
					r.Count("ego.aborts", 1)
				}
				class, detail := judge(e, g)
				if class == "" {
					continue
				}
				key := "random:" + class
				if !p.StrictClean && rn.mode == "strict" {
					key = "random:untyped-const:strict:" + class
				}
				r.Violate(vh.Violation{Key: key, Desc: fmt.Sprintf("%s (mode %s, -o %d); features %v", detail, rn.mode, rn.opt, p.Features),
					Case:     c01Case{Kind: "random", Mode: rn.mode, Opt: rn.opt, Ego: p.Ego, Go: gen.GoSingle(p)},
					Expected: map[string]any{"stdout": trunc(g.Out, 1500), "panicked": g.Panicked, "panic": g.PanicMsg},
					Observed: map[string]any{"stdout": trunc(e.Out, 1500), "error": e.Err}})
				break // one report per program
			}
			if idx%cliEvery == 7 && cliBudget > 0 {
				cliBudget--
				mode := c01Modes[(idx/cliEvery)%3]
				out, failed, err := cliRun(p.Ego, mode, 0, "c01-"+itoa(idx))
				if err != nil {
					r.Inconcl("CLI cross-check could not run: " + err.Error())
				} else {
					r.Count("cli.crosschecks", 1)
					e := runEgo(p.Ego, egorun.Config{Types: mode, Opt: 0})
					if out != e.Out || failed != e.aborted() {
						r.Count("cli.differs_from_inprocess", 1)
						r.Inconcl(fmt.Sprintf("harness fidelity: `ego run` and the in-process runner disagree on program %d (%s): %s", idx, mode, firstDiff(out, e.Out)))
					}
					if class, detail := judge(egoRes{Out: out, Err: map[bool]string{true: "exit status != 0", false: ""}[failed]}, g); class != "" && !strings.HasPrefix(class, "ego-error") {
						r.Count("cli.differs_from_go", 1)
						_ = detail
					}
				}
			}
			if idx%97 == 3 {
				r.Sample(map[string]any{"features": p.Features, "strict_clean": p.StrictClean, "aborts": p.Aborts, "go_panicked": g.Panicked,
					"go_stdout_head": trunc(g.Out, 200), "ego_source_head": trunc(p.Ego, 400)})
			}
		}
		done += n
	}
	type fc struct {
		f string
		n int
	}
	var fcs []fc
	for f, n := range featCount {
		fcs = append(fcs, fc{f, n})
	}
	sort.Slice(fcs, func(i, j int) bool { return fcs[i].f < fcs[j].f })
	for _, x := range fcs {
		r.Count("feature."+x.f, int64(x.n))
	}
	r.Count("features.distinct", int64(len(fcs)))
	var av []string
	for k := range avoid {
		av = append(av, k)
	}
	sort.Strings(av)
	r.Note("avoid set (constructs of known findings kept out of the random stream; each has a directed probe): " + strings.Join(av, " "))
	if r.Evaluations == 0 {
		t.Fatal("observed nothing")
	}
	if err := r.Write(); err != nil {
		t.Fatal(err)
	}
}
