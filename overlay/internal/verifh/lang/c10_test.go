package lang

// C10 — try/catch and defer run exactly when documented.
//
// Programs are generated from an abstract syntax {Mark, Try, Defer, Panic,
// Recover, Raise, Call, Return, Loop with Break/Continue (also labeled)} and
// rendered to Ego with numbered markers. The oracle is the marker trace
// predicted by a small abstract machine that implements only the sentences of
// the property; for programs without try/Raise the Go rendering of the same
// text is a second, independent oracle (and also checks the machine itself).

import (
	"encoding/json"
	"fmt"
	"math/rand"
	"sort"
	"strings"
	"testing"

	"github.com/tucats/ego/internal/verifh/egorun"
	"github.com/tucats/ego/internal/verifh/gen"
	"github.com/tucats/ego/internal/verifh/vh"
)

type nkind int

const (
	nMark nkind = iota
	nTry
	nDefer
	nPanic
	nRecover // only inside a deferred body: if recover() != nil { body }
	nRaise
	nCall
	nReturn
	nLoop
	nBreak
	nContinue
	nWhen       // if <loop var> == n { body }
	nIf         // if true { body }: a plain nested block
	nForCond    // for true { body; break }: the body of a condition-only loop, run once
	nReturnCall // return f<n>() or return 1 + f<n>(): a return whose expression calls another generated function
)

type node struct {
	k     nkind
	n     int     // marker number / loop bound / compared value / callee / raise kind
	body  []*node // try body, defer body, loop body, when body, recover body
	catch []*node
	label string // loop label, or target of break/continue
	lv    string // loop variable (loop, when)
	d     int    // ReturnCall: how many "if true {" blocks it is wrapped in (0..2)
	named bool   // ReturnCall: the expression is 1 + f(); Defer: rendered as the named call "defer mark(<literal>)" instead of a closure; Return: a bare "return"
}

type cfn struct {
	body     []*node
	raising  bool // may end with an uncaught runtime error: has no defer
	panicky  bool // may end with an unrecovered panic
	hasTry   bool
	hasDefer bool // a defer statement was generated in this function (it may be pending at a later return)
	style    int  // how Defer is rendered in this function: 0 closures, 1 named calls only (no function literal in the body), 2 both
}

type cprog struct {
	fns     []*cfn         // fns[0] is main
	marks   map[int]string // marker -> context it was planted in
	nextM   int
	nextV   int
	usesTry bool
	intFns  bool // functions are rendered with an int result (needed by ReturnCall); only the ReturnCall table sets it:
	// value-returning functions bring the recorded C01 stack defects (return/labeled jump out of nested loops) into
	// the random stream, where they would drown everything else
	feats map[string]bool
}

// ---------------------------------------------------------------- generator

type c10gen struct {
	r     *rand.Rand
	p     *cprog
	avoid map[string]bool
	noTry bool // only constructs Go has too: the Go build is then a second oracle
}

func (g *c10gen) avoided(k string) bool { return g.avoid[k] }

func (g *c10gen) avoidedPrefix(p string) bool {
	for k := range g.avoid {
		if strings.HasPrefix(k, p) {
			return true
		}
	}
	return false
}

func (g *c10gen) mark(ctx string) *node {
	g.p.nextM++
	g.p.marks[g.p.nextM] = ctx
	return &node{k: nMark, n: g.p.nextM}
}

type c10ctx struct {
	fi       int // function index being generated
	f        *cfn
	inTry    int // nesting of try bodies (in this function)
	inCatch  int
	loops    []*node
	inDefer  bool
	depth    int
	mainBody bool
	where    string
}

// stmts generates a statement list. Calls go to functions with a higher index only.
func (g *c10gen) stmts(c c10ctx, n int) []*node {
	var out []*node
	for i := 0; i < n; i++ {
		out = append(out, g.stmt(c)...)
	}
	return out
}

func (g *c10gen) stmt(c c10ctx) []*node {
	p := g.p
	for tries := 0; tries < 8; tries++ {
		switch x := g.r.Intn(100); {
		case g.r.Intn(100) < 12 && c.depth < 4 && !c.inDefer:
			// a plain nested block: if true { ... } or the body of a condition-only loop
			bc := c
			bc.depth++
			if g.r.Intn(2) == 0 || c.inTry > 0 && g.avoided("try:error-after-for3-loop") {
				bc.where = "if-body"
				p.feats["if-block"] = true
				return []*node{{k: nIf, body: g.stmts(bc, 1+g.r.Intn(2))}}
			}
			bc.where = "forcond-body"
			bc.loops = nil // a break/continue written here would bind to this loop
			p.feats["forcond-block"] = true
			return []*node{{k: nForCond, body: g.stmts(bc, 1+g.r.Intn(2))}}
		case x < 22:
			return []*node{g.mark(c.where)}
		case x < 34 && c.depth < 5 && !c.inDefer && !g.noTry:
			// try / catch
			p.usesTry = true
			p.feats["try"] = true
			c.f.hasTry = true
			t := &node{k: nTry}
			bc := c
			bc.inTry++
			bc.depth++
			bc.where = "try-body"
			t.body = g.stmts(bc, 1+g.r.Intn(3))
			if g.r.Intn(100) < 65 {
				// a runtime error inside the try body: directly or through a raising callee
				if cal := g.callee(c, func(f *cfn) bool { return f.raising }); cal >= 0 && g.r.Intn(2) == 0 {
					t.body = append(t.body, &node{k: nCall, n: cal})
					p.feats["raise-in-callee"] = true
				} else {
					t.body = append(t.body, &node{k: nRaise, n: g.r.Intn(3)})
					p.feats["raise-direct"] = true
				}
				t.body = append(t.body, g.mark("after-raise-in-try"))
			}
			cc := c
			cc.inCatch++
			cc.depth++
			cc.where = "catch"
			t.catch = append([]*node{g.mark("catch")}, g.stmts(cc, g.r.Intn(2))...)
			return []*node{t, g.mark("after-try")}
		case x < 44 && !c.inDefer && !c.f.raising && !c.mainBody && c.depth < 4:
			// defer; the body may recover
			p.feats["defer"] = true
			c.f.hasDefer = true
			d := &node{k: nDefer}
			d.body = []*node{g.mark("defer-body")}
			if c.f.style == 1 || c.f.style == 2 && g.r.Intn(2) == 0 {
				// defer mark(<literal>): a named call with a literal argument (late evaluation cannot matter)
				d.named = true
				p.feats["defer-named"] = true
				p.feats["defer-named-in-"+c.where] = true
				return []*node{d}
			}
			if g.r.Intn(100) < 40 {
				p.feats["recover"] = true
				d.body = append(d.body, &node{k: nRecover, body: []*node{g.mark("recovered")}})
				d.body = append(d.body, g.mark("defer-body-after-recover"))
			}
			if len(c.loops) > 0 {
				p.feats["defer-in-loop"] = true
			}
			return []*node{d}
		case x < 50 && !c.inDefer && c.inTry == 0 && c.inCatch == 0 && (c.f.panicky || c.mainBody) && len(c.loops) <= 1:
			p.feats["panic"] = true
			// a conditional-free panic ends the block: plant a marker after it that must not be reached
			return []*node{{k: nPanic, n: p.nextM}, g.mark("after-panic")}
		case x < 56 && !c.inDefer && c.inTry == 0 && c.inCatch == 0 && (c.f.raising || c.mainBody) && !g.noTry:
			p.feats["raise-uncaught"] = true
			return []*node{{k: nRaise, n: g.r.Intn(3)}, g.mark("after-uncaught-raise")}
		case p.intFns && x < 60 && !c.inDefer && !c.mainBody && c.inTry == 0 && c.inCatch == 0 && len(c.loops) == 0 &&
			!(c.f.hasDefer && g.avoidedPrefix("returncall:F-defers")):
			// return f() / return 1 + f(): the callee runs (with its own defers, recover, panic) before this function's defers
			okc := func(f *cfn) bool {
				if f.raising {
					return c.f.raising
				}
				return !f.panicky || c.f.panicky
			}
			if cal := g.callee(c, okc); cal >= 0 {
				p.feats["return-call"] = true
				if c.f.hasDefer {
					p.feats["return-call-with-pending-defers"] = true
				}
				plus := g.r.Intn(2) == 0 && !g.avoidedPrefix("returncall:F-nodefers:plus:recover")
				return []*node{{k: nReturnCall, n: cal, d: g.r.Intn(3), named: plus}, g.mark("after-return")}
			}
		case x < 70:
			// call
			ok := func(f *cfn) bool {
				if c.inDefer {
					return !f.raising && !f.panicky && !f.hasTry
				}
				if f.panicky && (c.inTry > 0 || c.inCatch > 0) {
					return false
				}
				if f.raising && c.inTry == 0 {
					// an uncaught error leaves this function too: allowed only where nothing is pending
					return (c.f.raising || c.mainBody) && c.inCatch == 0
				}
				if f.panicky && !(c.f.panicky || c.mainBody) {
					return false
				}
				return true
			}
			if cal := g.callee(c, ok); cal >= 0 {
				p.feats["call"] = true
				return []*node{{k: nCall, n: cal}, g.mark("after-call")}
			}
		case x < 82 && c.depth < 4 && !c.inDefer && len(c.loops) < 2 && !(c.inTry > 0 && g.avoided("try:error-after-for3-loop")):
			// loop, possibly labeled with a labeled jump in a nested loop
			p.nextV++
			l := &node{k: nLoop, n: 2 + g.r.Intn(2), lv: fmt.Sprintf("i%d", p.nextV)}
			lc := c
			lc.depth++
			lc.loops = append(append([]*node{}, c.loops...), l)
			lc.where = "loop-body"
			p.feats["loop"] = true
			l.body = g.stmts(lc, 1+g.r.Intn(2))
			if g.r.Intn(100) < 30 && len(c.loops) == 0 && !(g.avoided("break-label:for3-outer") && g.avoided("continue-label:for3-outer")) {
				// labeled: inner loop with a labeled jump on a chosen iteration
				l.label = fmt.Sprintf("L%d", p.nextV)
				p.nextV++
				in := &node{k: nLoop, n: 2 + g.r.Intn(2), lv: fmt.Sprintf("i%d", p.nextV)}
				kw := nBreak
				if g.r.Intn(2) == 0 {
					kw = nContinue
				}
				if kw == nBreak && g.avoided("break-label:for3-outer") || kw == nContinue && g.avoided("continue-label:for3-outer") {
					kw = nBreak + nContinue - kw
				}
				p.feats[map[nkind]string{nBreak: "break-label", nContinue: "continue-label"}[kw]] = true
				in.body = []*node{g.mark("inner-loop"),
					{k: nWhen, lv: in.lv, n: g.r.Intn(in.n), body: []*node{{k: kw, label: l.label}}},
					g.mark("inner-loop-after-jump")}
				l.body = append(l.body, in, g.mark("after-inner-loop"))
			}
			return []*node{l, g.mark("after-loop")}
		case x < 90 && len(c.loops) > 0 && !c.inDefer && !(c.inTry > 0 && g.avoided("try:jump-out-of-try-body")):
			// break / continue of the innermost loop on a chosen iteration
			l := c.loops[len(c.loops)-1]
			kw := nBreak
			if g.r.Intn(2) == 0 {
				kw = nContinue
			}
			if c.inTry > 0 {
				p.feats["jump-out-of-try"] = true
			}
			p.feats[map[nkind]string{nBreak: "break", nContinue: "continue"}[kw]] = true
			return []*node{{k: nWhen, lv: l.lv, n: g.r.Intn(l.n), body: []*node{{k: kw}}}}
		case x < 96 && !c.inDefer && !c.mainBody && !(len(c.loops) >= 2 && g.avoided("return:in-nested-loop")):
			if c.inTry > 0 {
				p.feats["return-in-try"] = true
			}
			if len(c.loops) > 0 {
				p.feats["return-in-loop"] = true
				l := c.loops[len(c.loops)-1]
				return []*node{{k: nWhen, lv: l.lv, n: g.r.Intn(l.n), body: []*node{{k: nReturn}}}}
			}
			p.feats["return"] = true
			return []*node{{k: nReturn}, g.mark("after-return")}
		}
	}
	return []*node{g.mark(c.where)}
}

func (g *c10gen) callee(c c10ctx, ok func(*cfn) bool) int {
	var cs []int
	for j := c.fi + 1; j < len(g.p.fns); j++ {
		if g.p.fns[j] != nil && ok(g.p.fns[j]) {
			cs = append(cs, j)
		}
	}
	if len(cs) == 0 {
		return -1
	}
	return cs[g.r.Intn(len(cs))]
}

// onlyBlocks builds a function body made of nested blocks only (no statement at the top level but the
// blocks themselves), each of which registers at least one deferred call.
func (g *c10gen) onlyBlocks(c c10ctx) []*node {
	var out []*node
	n := 1 + g.r.Intn(3)
	for i := 0; i < n; i++ {
		bc := c
		bc.depth++
		d := func(where string) *node {
			bc.where = where
			x := &node{k: nDefer, named: c.f.style == 1 || g.r.Intn(2) == 0, body: []*node{g.mark("defer-body")}}
			g.p.feats["defer"] = true
			c.f.hasDefer = true
			if x.named {
				g.p.feats["defer-named"] = true
				g.p.feats["defer-named-in-"+where] = true
			}
			return x
		}
		switch k := g.r.Intn(4); {
		case k == 0:
			bc.where = "if-body"
			out = append(out, &node{k: nIf, body: append([]*node{d("if-body")}, g.stmts(bc, g.r.Intn(2))...)})
		case k == 1:
			bc.loops = nil
			bc.where = "forcond-body"
			out = append(out, &node{k: nForCond, body: append([]*node{d("forcond-body")}, g.stmts(bc, g.r.Intn(2))...)})
		case k == 2 && !g.noTry:
			g.p.usesTry = true
			g.p.feats["try"] = true
			c.f.hasTry = true
			t := &node{k: nTry, body: []*node{d("try-body"), g.mark("try-body")}, catch: []*node{g.mark("catch"), d("catch")}}
			if g.r.Intn(2) == 0 {
				t.body = append(t.body, &node{k: nRaise, n: g.r.Intn(3)}, g.mark("after-raise-in-try"))
				g.p.feats["raise-direct"] = true
			}
			out = append(out, t)
		default:
			g.p.nextV++
			l := &node{k: nLoop, n: 2, lv: fmt.Sprintf("i%d", g.p.nextV)}
			lc := bc
			lc.loops = append(append([]*node{}, c.loops...), l)
			lc.where = "loop-body"
			l.body = append([]*node{d("loop-body")}, g.stmts(lc, g.r.Intn(2))...)
			g.p.feats["loop"] = true
			g.p.feats["defer-in-loop"] = true
			out = append(out, l)
		}
	}
	return out
}

func genC10(r *rand.Rand, avoid map[string]bool, noTry bool) *cprog {
	p := &cprog{marks: map[int]string{}, feats: map[string]bool{}}
	g := &c10gen{r: r, p: p, avoid: avoid, noTry: noTry}
	nf := 1 + r.Intn(3)
	p.fns = make([]*cfn, nf+1)
	for i := nf; i >= 1; i-- {
		f := &cfn{}
		switch x := r.Intn(100); {
		case x < 25 && !noTry:
			f.raising = true
		case x < 55:
			f.panicky = true
		}
		p.fns[i] = f
		f.style = r.Intn(3)
		c := c10ctx{fi: i, f: f, where: "func-body"}
		if !f.raising && r.Intn(100) < 25 {
			// a body that consists of nothing but nested blocks holding the defers
			f.style = 1 + r.Intn(2)
			p.feats["only-blocks-body"] = true
			f.body = g.onlyBlocks(c)
		} else {
			f.body = append([]*node{g.mark("func-entry")}, g.stmts(c, 2+r.Intn(4))...)
			f.body = append(f.body, g.mark("func-end"))
		}
		if r.Intn(100) < 20 {
			p.feats["return-bare-at-end"] = true
			f.body = append(f.body, &node{k: nReturn, named: true})
		}
	}
	m := &cfn{}
	p.fns[0] = m
	c := c10ctx{fi: 0, f: m, mainBody: true, where: "main"}
	m.body = append(g.stmts(c, 2+r.Intn(4)), g.mark("main-end"))
	return p
}

// ---------------------------------------------------------------- abstract machine

type sigKind int

const (
	sNone sigKind = iota
	sBreak
	sContinue
	sReturn
	sPanic
	sRaise
)

type sig struct {
	k     sigKind
	label string
}

type machine struct {
	p         *cprog
	trace     []int
	panicking bool
	wart      bool // model the recorded defect "the function's defers run before the operand of return f() is evaluated"
	steps     int
	loopVal   map[string]int
}

type mframe struct{ defers [][]*node }

func (m *machine) block(ns []*node, fr *mframe) sig {
	for _, n := range ns {
		if s := m.exec(n, fr); s.k != sNone {
			return s
		}
	}
	return sig{}
}

func (m *machine) exec(n *node, fr *mframe) sig {
	m.steps++
	switch n.k {
	case nMark:
		m.trace = append(m.trace, n.n)
	case nDefer:
		// registered now, run exactly once when the function returns or unwinds, last registered first
		fr.defers = append(fr.defers, n.body)
	case nPanic:
		return sig{k: sPanic}
	case nRaise:
		return sig{k: sRaise}
	case nRecover:
		// recover() in a deferred call stops the panic
		if m.panicking {
			m.panicking = false
			return m.block(n.body, fr)
		}
	case nTry:
		s := m.block(n.body, fr)
		if s.k == sRaise || s.k == sPanic {
			// control transfers to the catch block exactly once; execution continues after the catch.
			// (LANGUAGE.md "Signaling Errors": a panic() is caught by try/catch like a runtime error; the
			// generator never puts a panic under a try, only the directed probe does.)
			return m.block(n.catch, fr)
		}
		return s
	case nCall:
		return m.call(n.n)
	case nReturn:
		return sig{k: sReturn}
	case nReturnCall:
		// the operand is evaluated first: the callee runs to completion (its deferred calls included);
		// a panic or error that leaves it keeps unwinding here, otherwise this function returns
		if m.wart {
			// the recorded defect, and nothing else: this function's pending defers run now (once, last first)
			for i := len(fr.defers) - 1; i >= 0; i-- {
				_ = m.block(fr.defers[i], fr)
			}
			fr.defers = nil
		}
		if s := m.call(n.n); s.k != sNone {
			return s
		}
		return sig{k: sReturn}
	case nBreak:
		return sig{k: sBreak, label: n.label}
	case nContinue:
		return sig{k: sContinue, label: n.label}
	case nWhen:
		if m.loopVal[n.lv] == n.n {
			return m.block(n.body, fr)
		}
	case nIf:
		return m.block(n.body, fr)
	case nForCond:
		// the body of "for true { ...; break }" runs once; an unlabeled break/continue inside it would be its own
		if s := m.block(n.body, fr); s.k != sNone && !(s.label == "" && (s.k == sBreak || s.k == sContinue)) {
			return s
		}
	case nLoop:
		for i := 0; i < n.n; i++ {
			m.loopVal[n.lv] = i
			s := m.block(n.body, fr)
			switch {
			case s.k == sBreak && (s.label == "" || s.label == n.label):
				return sig{}
			case s.k == sContinue && (s.label == "" || s.label == n.label):
				continue
			case s.k != sNone:
				return s
			}
		}
	}
	return sig{}
}

// call runs a function: its body, then its deferred calls in reverse registration order.
func (m *machine) call(fi int) sig {
	fr := &mframe{}
	s := m.block(m.p.fns[fi].body, fr)
	if s.k == sRaise {
		// an error leaves the function; by construction no deferred call is pending here
		return s
	}
	if s.k == sPanic {
		m.panicking = true
	}
	for i := len(fr.defers) - 1; i >= 0; i-- {
		_ = m.block(fr.defers[i], fr)
	}
	if s.k == sPanic {
		if m.panicking {
			return s // not recovered: keeps unwinding in the caller
		}
		return sig{} // recovered: the function returns to its caller
	}
	return sig{}
}

func predict(p *cprog) (trace []int, aborted bool) {
	m := &machine{p: p, loopVal: map[string]int{}}
	s := m.block(p.fns[0].body, &mframe{})
	return m.trace, s.k == sPanic || s.k == sRaise
}

// predictWart is predict with the recorded return-operand defect modelled (see machine.wart); everything else
// - the callee's defers exactly once and last first, its recover, continued unwinding - is as prescribed.
func predictWart(p *cprog) (trace []int, aborted bool) {
	m := &machine{p: p, loopVal: map[string]int{}, wart: true}
	s := m.block(p.fns[0].body, &mframe{})
	return m.trace, s.k == sPanic || s.k == sRaise
}

// returnCallKey names how a ReturnCall cell failed. A cell whose F has registered defers gets the known suffix
// "F-defers-before-operand" ONLY when the observed run equals the wart-variant prediction exactly; any other
// run is named after its first divergence from the wart variant, which no known line covers.
func returnCallKey(c c10Cell, key string, e egoRes) string {
	if !strings.HasPrefix(c.key, "returncall:F-defers:") {
		return c.key + ":" + key
	}
	ww, wa := predictWart(c.p)
	wk, _ := traceVerdict(c.p.marks, ww, wa, e)
	if wk == "" {
		return c.key + ":F-defers-before-operand"
	}
	return c.key + ":vs-wart:" + wk
}

// ---------------------------------------------------------------- rendering

func (p *cprog) render() string {
	var b strings.Builder
	retZero = ""
	if p.intFns {
		retZero = " 0"
	}
	b.WriteString("func __P__mark(n int) {\n\t__F__Printf(\"m %d\\n\", n)\n}\n\n")
	for i := len(p.fns) - 1; i >= 1; i-- {
		if p.intFns {
			fmt.Fprintf(&b, "func __P__f%d() int {\n", i)
			renderBlock(&b, p.fns[i].body, 1)
			b.WriteString("\treturn 0\n}\n\n")
		} else {
			fmt.Fprintf(&b, "func __P__f%d() {\n", i)
			renderBlock(&b, p.fns[i].body, 1)
			b.WriteString("}\n\n")
		}
	}
	b.WriteString("__MAIN__\n")
	renderBlock(&b, p.fns[0].body, 1)
	b.WriteString("}\n")
	return b.String()
}

// retZero is " 0" while a program whose functions return int is rendered, "" otherwise.
var retZero = ""

func renderBlock(b *strings.Builder, ns []*node, ind int) {
	t := strings.Repeat("\t", ind)
	for idx, n := range ns {
		switch n.k {
		case nMark:
			fmt.Fprintf(b, "%s__F__Printf(\"m %%d\\n\", %d)\n", t, n.n)
		case nTry:
			fmt.Fprintf(b, "%stry {\n", t)
			renderBlock(b, n.body, ind+1)
			fmt.Fprintf(b, "%s} catch {\n", t)
			renderBlock(b, n.catch, ind+1)
			fmt.Fprintf(b, "%s}\n", t)
		case nIf:
			fmt.Fprintf(b, "%sif true {\n", t)
			renderBlock(b, n.body, ind+1)
			fmt.Fprintf(b, "%s}\n", t)
		case nForCond:
			fmt.Fprintf(b, "%sfor true {\n", t)
			renderBlock(b, n.body, ind+1)
			fmt.Fprintf(b, "%s\tbreak\n%s}\n", t, t)
		case nDefer:
			if n.named {
				fmt.Fprintf(b, "%sdefer __P__mark(%d)\n", t, n.body[0].n)
				continue
			}
			fmt.Fprintf(b, "%sdefer func() {\n", t)
			renderBlock(b, n.body, ind+1)
			fmt.Fprintf(b, "%s}()\n", t)
		case nRecover:
			fmt.Fprintf(b, "%srv%d := recover()\n%sif rv%d != nil {\n", t, idx, t, idx)
			renderBlock(b, n.body, ind+1)
			fmt.Fprintf(b, "%s}\n", t)
		case nPanic:
			fmt.Fprintf(b, "%sif true {\n%s\tpanic(\"p%d\")\n%s}\n", t, t, n.n, t)
		case nRaise:
			switch n.n {
			case 0:
				fmt.Fprintf(b, "%sif true {\n%s\tzz := 0\n%s\t__F__Printf(\"x %%d\\n\", 10/zz)\n%s}\n", t, t, t, t)
			case 1:
				fmt.Fprintf(b, "%sif true {\n%s\tss := []int{1}\n%s\tkk := 3\n%s\t__F__Printf(\"x %%d\\n\", ss[kk])\n%s}\n", t, t, t, t, t)
			default:
				fmt.Fprintf(b, "%sif true {\n%s\t@error \"raised\"\n%s}\n", t, t, t)
			}
		case nCall:
			fmt.Fprintf(b, "%s__P__f%d()\n", t, n.n)
		case nReturn:
			if n.named {
				fmt.Fprintf(b, "%sreturn%s\n", t, retZero)
				continue
			}
			fmt.Fprintf(b, "%sif true {\n%s\treturn%s\n%s}\n", t, t, retZero, t)
		case nReturnCall:
			expr := fmt.Sprintf("__P__f%d()", n.n)
			if n.named {
				expr = "1 + " + expr
			}
			tt := t
			for k := 0; k < n.d; k++ {
				fmt.Fprintf(b, "%sif true {\n", tt)
				tt += "\t"
			}
			fmt.Fprintf(b, "%sreturn %s\n", tt, expr)
			for k := 0; k < n.d; k++ {
				tt = tt[:len(tt)-1]
				fmt.Fprintf(b, "%s}\n", tt)
			}
		case nBreak, nContinue:
			kw := map[nkind]string{nBreak: "break", nContinue: "continue"}[n.k]
			if n.label != "" {
				kw += " " + n.label
			}
			fmt.Fprintf(b, "%s%s\n", t, kw)
		case nWhen:
			fmt.Fprintf(b, "%sif %s == %d {\n", t, n.lv, n.n)
			renderBlock(b, n.body, ind+1)
			fmt.Fprintf(b, "%s}\n", t)
		case nLoop:
			if n.label != "" {
				fmt.Fprintf(b, "%s__F__Printf(\"l\\n\")\n%s:\n", t, n.label)
			}
			fmt.Fprintf(b, "%sfor %s := 0; %s < %d; %s++ {\n", t, n.lv, n.lv, n.n, n.lv)
			renderBlock(b, n.body, ind+1)
			fmt.Fprintf(b, "%s}\n", t)
		}
	}
}

// parseTrace extracts the marker numbers from program output; other lines ("l", "x ...") are reported.
func parseTrace(out string) (trace []int, other []string) {
	for _, ln := range strings.Split(out, "\n") {
		var n int
		if _, err := fmt.Sscanf(ln, "m %d", &n); err == nil && ln == fmt.Sprintf("m %d", n) {
			trace = append(trace, n)
		} else if ln != "" && ln != "l" {
			other = append(other, ln)
		}
	}
	return
}

type c10Case struct {
	Ego   string         `json:"ego"`
	Go    string         `json:"go,omitempty"`
	Opt   int            `json:"opt"`
	Want  []int          `json:"want"`
	Abort bool           `json:"abort"`
	Marks map[int]string `json:"marks,omitempty"`
}

// traceVerdict compares an observed run with the predicted trace; key is "" when they agree.
func traceVerdict(marks map[int]string, want []int, wantAbort bool, e egoRes) (key, detail string) {
	got, other := parseTrace(e.Out)
	if e.GoPanic != "" {
		return "interpreter-go-panic", firstLine(e.GoPanic)
	}
	if e.Budget {
		return "no-termination", "step budget exhausted"
	}
	ctx := func(i int, tr []int) string {
		if i < len(tr) {
			return marks[tr[i]]
		}
		return "end"
	}
	for i := 0; i < len(want) || i < len(got); i++ {
		var w, g = -1, -1
		if i < len(want) {
			w = want[i]
		}
		if i < len(got) {
			g = got[i]
		}
		if w != g {
			return "trace:want-" + ctx(i, want) + ":got-" + ctx(i, got),
				fmt.Sprintf("marker %d of the trace: predicted %d (%s), observed %d (%s); error=%q", i+1, w, ctx(i, want), g, ctx(i, got), e.Err)
		}
	}
	if len(other) > 0 {
		return "unexpected-output", strings.Join(other, " | ")
	}
	if wantAbort && !e.aborted() {
		return "abort:expected-error-missing", "the program must stop with an error (uncaught error or unrecovered panic)"
	}
	if !wantAbort && e.aborted() {
		return "abort:unexpected-error:" + errClass(e.Err), e.Err
	}
	return "", ""
}

// c10Probes are hand-built abstract programs, one per recorded finding; the
// expected trace comes from the abstract machine like for every other program.
func c10Probes() map[string]*cprog {
	mk := func(fns ...[]*node) *cprog {
		p := &cprog{marks: map[int]string{}, feats: map[string]bool{"probe": true}, usesTry: true}
		for _, b := range fns {
			p.fns = append(p.fns, &cfn{body: b})
		}
		return p
	}
	n := 0
	m := func() *node { n++; return &node{k: nMark, n: n} }
	when := func(lv string, v int, body ...*node) *node { return &node{k: nWhen, lv: lv, n: v, body: body} }
	out := map[string]*cprog{}
	out["try:error-after-for3-loop"] = mk([]*node{
		{k: nTry, body: []*node{{k: nLoop, n: 2, lv: "i1", body: []*node{m()}}, m(), {k: nRaise, n: 2}, m()}, catch: []*node{m()}}, m()})
	out["return:in-nested-loop"] = mk(
		[]*node{{k: nTry, body: []*node{{k: nCall, n: 1}, m(), {k: nRaise, n: 2}, m()}, catch: []*node{m()}}, m()},
		[]*node{m(), {k: nLoop, n: 2, lv: "i1", body: []*node{{k: nLoop, n: 2, lv: "i2", body: []*node{m(), when("i2", 0, &node{k: nReturn})}}, m()}}, m()})
	out["break-label:for3-outer"] = mk(
		[]*node{{k: nTry, body: []*node{{k: nCall, n: 1}, m(), {k: nRaise, n: 2}, m()}, catch: []*node{m()}}, m()},
		[]*node{m(), {k: nDefer, body: []*node{m()}}, {k: nLoop, n: 2, lv: "i1", label: "L1", body: []*node{
			{k: nLoop, n: 2, lv: "i2", body: []*node{m(), when("i2", 0, &node{k: nBreak, label: "L1"})}}, m()}}, m()})
	out["try:jump-out-of-try-body"] = mk(
		[]*node{{k: nTry, body: []*node{{k: nCall, n: 1}, m()}, catch: []*node{m()}}, m()},
		[]*node{m(), {k: nLoop, n: 2, lv: "i1", body: []*node{
			{k: nTry, body: []*node{when("i1", 0, &node{k: nContinue}), m()}, catch: []*node{m()}}, m()}},
			m(), {k: nRaise, n: 2}, m()})
	out["try:user-panic-not-caught"] = mk([]*node{
		{k: nTry, body: []*node{m(), {k: nPanic, n: 1}, m()}, catch: []*node{m()}}, m()})
	for _, p := range out {
		for i := 1; i <= n; i++ {
			p.marks[i] = "probe"
		}
	}
	return out
}

type c10Cell struct {
	key string
	p   *cprog
}

// c10DeferTable enumerates: Defer rendered as a closure or as the named call defer mark(<literal>) x
// where the two defers of the function sit (top level, if body, try body, catch body, body of a
// condition-only loop, body of a three-clause loop) x how the function ends (reaching its end, a bare
// return, a return one or two blocks deep, panic). For every placement but "top" the function body
// holds nothing but that block and the exit statement (no declaration, and for the named form no
// function literal).
func c10DeferTable() []c10Cell {
	var cells []c10Cell
	for _, style := range []string{"named", "closure"} {
		for _, place := range []string{"top", "if", "try", "catch", "forcond", "for3"} {
			for _, exit := range []string{"end", "return0", "return1", "return2", "panic"} {
				p := &cprog{marks: map[int]string{}, feats: map[string]bool{"table": true}}
				n := 0
				m := func(ctx string) *node { n++; p.marks[n] = ctx; return &node{k: nMark, n: n} }
				d := func() *node { return &node{k: nDefer, named: style == "named", body: []*node{m("defer-body")}} }
				inner := []*node{d(), m("block"), d()}
				var body []*node
				switch place {
				case "top":
					body = inner
				case "if":
					body = []*node{{k: nIf, body: inner}}
				case "try":
					p.usesTry = true
					body = []*node{{k: nTry, body: inner, catch: []*node{m("catch")}}}
				case "catch":
					p.usesTry = true
					body = []*node{{k: nTry, body: []*node{{k: nRaise, n: 2}, m("after-raise-in-try")}, catch: inner}}
				case "forcond":
					body = []*node{{k: nForCond, body: inner}}
				default:
					body = []*node{{k: nLoop, n: 2, lv: "i1", body: inner}}
				}
				switch exit {
				case "return0":
					body = append(body, &node{k: nReturn, named: true})
				case "return1":
					body = append(body, &node{k: nReturn}, m("after-return"))
				case "return2":
					body = append(body, &node{k: nIf, body: []*node{{k: nReturn}}}, m("after-return"))
				case "panic":
					body = append(body, &node{k: nPanic, n: 1}, m("after-panic"))
				}
				mainBody := []*node{{k: nCall, n: 1}, m("after-call")}
				p.fns = []*cfn{{body: mainBody}, {body: body}}
				cells = append(cells, c10Cell{key: "defer-table:" + style + ":" + place + ":" + exit, p: p})
			}
		}
	}
	return cells
}

// c10ReturnCallTable: F (with or without registered defers) exits through "return g()" / "return 1 + g()"
// written 0..2 blocks deep; g has two defers, one of which recovers (or none does); the panic is raised in
// g itself, one call below it, or two calls below it.
func c10ReturnCallTable() []c10Cell {
	var cells []c10Cell
	for _, fdef := range []bool{false, true} {
		for depth := 0; depth <= 2; depth++ {
			for _, plus := range []bool{false, true} {
				for level := 0; level <= 2; level++ {
					for _, rec := range []bool{true, false} {
						p := &cprog{marks: map[int]string{}, feats: map[string]bool{"table": true}, intFns: true}
						n := 0
						m := func(ctx string) *node { n++; p.marks[n] = ctx; return &node{k: nMark, n: n} }
						// f1 = F, f2 = g, f3 = h, f4 = k
						F := []*node{m("F-entry")}
						if fdef {
							F = append(F, &node{k: nDefer, body: []*node{m("F-defer-closure")}}, &node{k: nDefer, named: true, body: []*node{m("F-defer-named")}})
						}
						F = append(F, &node{k: nReturnCall, n: 2, d: depth, named: plus}, m("F-after-return"))
						gdef := &node{k: nDefer, body: []*node{m("g-defer")}}
						if rec {
							gdef.body = append(gdef.body, &node{k: nRecover, body: []*node{m("g-recovered")}}, m("g-defer-after-recover"))
						}
						below := func(lv int, callee int, who string) []*node {
							b := []*node{m(who + "-entry"), {k: nDefer, body: []*node{m(who + "-defer")}}}
							if level == lv {
								return append(b, &node{k: nPanic, n: lv}, m(who+"-after-panic"))
							}
							return append(b, &node{k: nCall, n: callee}, m(who+"-after-call"))
						}
						G := []*node{m("g-entry"), gdef, {k: nDefer, named: true, body: []*node{m("g-defer-named")}}}
						if level == 0 {
							G = append(G, &node{k: nPanic, n: 0}, m("g-after-panic"))
						} else {
							G = append(G, &node{k: nCall, n: 3}, m("g-after-call"))
						}
						p.fns = []*cfn{{body: []*node{{k: nCall, n: 1}, m("main-after-call")}}, {body: F}, {body: G}, {body: below(1, 4, "h")}, {body: below(2, 4, "k")}}
						// depth of the return and the level the panic starts at are in the witness, not in the key: the
						// recorded defects do not depend on them, and the way a cell fails is appended to the key anyway
						key := fmt.Sprintf("returncall:F-%s:%s:%s", map[bool]string{true: "defers", false: "nodefers"}[fdef],
							map[bool]string{true: "plus", false: "plain"}[plus], map[bool]string{true: "recover", false: "norecover"}[rec])
						p.feats[fmt.Sprintf("d%d-L%d", depth, level)] = true
						cells = append(cells, c10Cell{key: key, p: p})
					}
				}
			}
		}
	}
	return cells
}

func TestC10(t *testing.T) {
	r := vh.New("C10", "traces")
	r.Rule = "programs generated from the abstract syntax {Mark, Try/catch, Defer(+Recover), Panic, Raise (division by zero, index out of range, @error), Call, Return, Loop with break/continue on a chosen iteration, labeled jumps} nested to depth <= 5 over 2-5 functions; " +
		"distinct = distinct program text x optimizer level; non-trivial = the predicted trace has >= 6 markers and the program uses >= 4 of the construct kinds."
	r.Assume("the abstract machine (about 100 lines) states only the sentences of the property; for programs without try/Raise it is itself checked against the Go build of the same text")
	r.Assume("constructs whose documented meaning the property does not fix are not generated: a runtime error while a deferred call is pending, panic() under an active try, errors raised inside deferred or catch code")
	egorun.Init()
	egoBudget = 3_000_000 // a C10 program executes a few hundred statements
	defer func() { egoBudget = stepBudget }()
	if raw := vh.ReplayCase(); raw != nil {
		var c c10Case
		if err := json.Unmarshal(raw, &c); err != nil {
			t.Fatal(err)
		}
		e := runEgo(c.Ego, egorun.Config{Opt: c.Opt, Extensions: true})
		r.Eval("replay", true)
		r.Eval("replay2", true)
		if key, detail := traceVerdict(c.Marks, c.Want, c.Abort, e); key != "" {
			r.Violate(vh.Violation{Key: key, Desc: detail, Case: c, Expected: c.Want, Observed: e.Out})
		}
		_ = r.Write()
		return
	}
	avoid := vh.KnownKeys("C10")
	// directed probes: every recorded finding stays under test under its own key
	probes := c10Probes()
	var pkeys []string
	for k := range probes {
		pkeys = append(pkeys, k)
	}
	sort.Strings(pkeys)
	for _, k := range pkeys {
		p := probes[k]
		src := gen.FromTemplate(p.render(), true).Ego
		want, wantAbort := predict(p)
		r.Probe(k)
		for _, opt := range []int{0, 2} {
			e := runEgo(src, egorun.Config{Opt: opt, Extensions: true})
			r.Eval(vh.Hash(src, opt), true)
			r.Count("probes.runs", 1)
			if key, detail := traceVerdict(p.marks, want, wantAbort, e); key != "" {
				r.Violate(vh.Violation{Key: k, Desc: fmt.Sprintf("%s: %s (-o %d)", key, detail, opt),
					Case:     c10Case{Ego: src, Opt: opt, Want: want, Abort: wantAbort, Marks: p.marks},
					Expected: map[string]any{"trace": want, "abort": wantAbort}, Observed: map[string]any{"stdout": e.Out, "error": e.Err}})
				break
			}
		}
	}
	// the enumerated defer table (closure / named call x placement x kind of exit)
	table := append(c10DeferTable(), c10ReturnCallTable()...)
	tprogs := make([]gen.Program, len(table))
	for i, c := range table {
		tprogs[i] = gen.FromTemplate(c.p.render(), true)
		if c.p.usesTry {
			tprogs[i].Go = ""
		}
	}
	tres, terr := gen.RunGoBatch(arena(t), tprogs)
	if terr != nil {
		r.Inconcl("go batch (defer table): " + trunc(terr.Error(), 300))
	}
	for i, c := range table {
		want, wantAbort := predict(c.p)
		r.Probe(c.key)
		if tprogs[i].Go != "" && !tres[i].Missing && tres[i].BuildErr == "" {
			gt, _ := parseTrace(tres[i].Out)
			r.Count("go.oracle.runs", 1)
			if fmt.Sprint(gt) != fmt.Sprint(want) || tres[i].Panicked != wantAbort {
				r.Count("model.disagrees_with_go", 1)
				r.Inconcl(fmt.Sprintf("defer table %s: abstract machine and Go disagree: want %v abort=%v, go %v abort=%v", c.key, want, wantAbort, gt, tres[i].Panicked))
				continue
			}
			r.Count("go.oracle.agrees_with_model", 1)
		} else if tprogs[i].Go != "" {
			r.Inconcl("defer table " + c.key + ": no Go reference: " + trunc(tres[i].BuildErr, 200))
		}
		for _, opt := range []int{0, 2} {
			e := runEgo(tprogs[i].Ego, egorun.Config{Opt: opt, Extensions: true})
			r.Eval(vh.Hash(tprogs[i].Ego, opt), true)
			r.Count("table.runs", 1)
			if key, detail := traceVerdict(c.p.marks, want, wantAbort, e); key != "" {
				vkey := c.key
				if strings.HasPrefix(vkey, "returncall:") {
					// the way a cell fails is part of its key: a cell that is a recorded finding and then starts to
					// fail differently is a new violation
					vkey = returnCallKey(c, key, e)
				}
				r.Violate(vh.Violation{Key: vkey, Desc: fmt.Sprintf("%s: %s (-o %d)", key, detail, opt),
					Case:     c10Case{Ego: tprogs[i].Ego, Opt: opt, Want: want, Abort: wantAbort, Marks: c.p.marks},
					Expected: map[string]any{"trace": want, "abort": wantAbort}, Observed: map[string]any{"stdout": e.Out, "error": e.Err}})
				break
			}
		}
	}
	// self-test of the classification: a run in which g's own deferred calls are missing (or doubled) must not be
	// named like the recorded finding
	for _, c := range table {
		if !strings.HasPrefix(c.key, "returncall:F-defers:") {
			continue
		}
		ww, wa := predictWart(c.p)
		want, wantAbort := predict(c.p)
		synth := func(tr []int, abort bool) egoRes {
			var b strings.Builder
			for _, n := range tr {
				fmt.Fprintf(&b, "m %d\n", n)
			}
			e := egoRes{Out: b.String()}
			if abort {
				e.Err = "unhandled panic"
			}
			return e
		}
		exact := synth(ww, wa)
		k0, _ := traceVerdict(c.p.marks, want, wantAbort, exact)
		if k0 == "" || !strings.HasSuffix(returnCallKey(c, k0, exact), ":F-defers-before-operand") {
			t.Fatalf("oracle self-test: the wart trace of %s is not classified as the recorded finding", c.key)
		}
		var missing, doubled []int
		for _, n := range ww {
			ctx := c.p.marks[n]
			if strings.HasPrefix(ctx, "g-defer") || ctx == "g-recovered" {
				doubled = append(doubled, n, n)
				continue
			}
			missing = append(missing, n)
			doubled = append(doubled, n)
		}
		for _, tr := range [][]int{missing, doubled} {
			e := synth(tr, wa)
			k1, _ := traceVerdict(c.p.marks, want, wantAbort, e)
			if k := returnCallKey(c, k1, e); strings.HasSuffix(k, ":F-defers-before-operand") || !strings.Contains(k, ":vs-wart:") {
				t.Fatalf("oracle self-test: a trace without / with doubled g defer events got the known key %s", k)
			}
		}
		r.Count("oracle.selftests", 1)
	}
	rng := vh.Rand("c10")
	total := vh.N(2000, 60000)
	batch := 1000
	featCount := map[string]int{}
	for done := 0; done < total; done += batch {
		n := batch
		if total-done < n {
			n = total - done
		}
		progs := make([]*cprog, n)
		gos := make([]gen.Program, n)
		for i := range progs {
			for attempt := 0; ; attempt++ {
				progs[i] = genC10(rng, avoid, (done+i)%3 == 0)
				// three programs in four are wanted to run to the end (an abort cuts the trace short)
				if _, ab := predict(progs[i]); !ab || (done+i)%4 == 1 || attempt >= 6 {
					break
				}
			}
			gp := gen.FromTemplate(progs[i].render(), true)
			if progs[i].usesTry || progs[i].feats["raise-uncaught"] {
				gp.Go = "" // Ego-only constructs: the abstract machine is the only oracle
			}
			gos[i] = gp
		}
		gres, err := gen.RunGoBatch(arena(t), gos)
		r.Count("go.batches", 1)
		if err != nil {
			r.Inconcl("go batch: " + trunc(err.Error(), 300))
		}
		for i, p := range progs {
			want, wantAbort := predict(p)
			for f := range p.feats {
				featCount[f]++
			}
			nontrivial := len(want) >= 6 && len(p.feats) >= 4
			id := vh.Hash(gos[i].Ego)
			// second oracle: the Go build must agree with the abstract machine
			if gos[i].Go != "" {
				g := gres[i]
				switch {
				case g.BuildErr != "":
					r.Count("generator.go_rejected", 1)
					r.Inconcl("generator produced a program Go rejects: " + trunc(g.BuildErr, 200))
				case g.Missing:
					r.Count("go.missing", 1)
				default:
					r.Count("go.oracle.runs", 1)
					gt, _ := parseTrace(g.Out)
					if fmt.Sprint(gt) != fmt.Sprint(want) || g.Panicked != wantAbort {
						// the model and Go disagree: the model is wrong, not ego - never a verdict
						r.Count("model.disagrees_with_go", 1)
						r.Inconcl(fmt.Sprintf("abstract machine and Go disagree (model defect): want %v abort=%v, go %v abort=%v", want, wantAbort, gt, g.Panicked))
						continue
					}
					r.Count("go.oracle.agrees_with_model", 1)
				}
			}
			for _, opt := range []int{0, 2} {
				e := runEgo(gos[i].Ego, egorun.Config{Opt: opt, Extensions: true})
				r.Eval(id+itoa(opt), nontrivial)
				r.Count("ego.runs", 1)
				r.Count("markers.observed", int64(len(want)))
				if e.aborted() {
					r.Count("ego.aborts", 1)
				}
				key, detail := traceVerdict(p.marks, want, wantAbort, e)
				if key == "" {
					continue
				}
				var fs []string
				for f := range p.feats {
					fs = append(fs, f)
				}
				sort.Strings(fs)
				r.Violate(vh.Violation{Key: key, Desc: fmt.Sprintf("%s (-o %d); constructs %v", detail, opt, fs),
					Case:     c10Case{Ego: gos[i].Ego, Opt: opt, Want: want, Abort: wantAbort, Marks: p.marks},
					Expected: map[string]any{"trace": want, "abort": wantAbort}, Observed: map[string]any{"stdout": trunc(e.Out, 1500), "error": e.Err}})
				break
			}
			if (done+i)%331 == 5 {
				r.Sample(map[string]any{"ego": trunc(gos[i].Ego, 900), "predicted_trace": want, "abort": wantAbort, "go_oracle": gos[i].Go != ""})
			}
		}
	}
	for f, n := range featCount {
		r.Count("construct."+f, int64(n))
	}
	var av []string
	for k := range avoid {
		av = append(av, k)
	}
	sort.Strings(av)
	r.Note("avoid set: " + strings.Join(av, " "))
	if r.Evaluations == 0 {
		t.Fatal("observed nothing")
	}
	if err := r.Write(); err != nil {
		t.Fatal(err)
	}
}
