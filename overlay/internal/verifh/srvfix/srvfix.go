// Package srvfix builds the real ego REST server in-process for the /verif monitors:
// the server's own defaults, authentication service, DSN service and complete route
// table (through scratch-only exports of internal/commands), with an isolated $HOME,
// a lib/ directory copied from the scratch source tree, users written by the monitor
// (bcrypt cost 4, so password checks are cheap) and logging sent to a file.
// Requests are served through (*router.Router).ServeHTTP on httptest recorders.
package srvfix

import (
	"bytes"
	"encoding/base64"
	"encoding/json"
	"fmt"
	"net/http"
	"net/http/httptest"
	"os"
	"os/exec"
	"path/filepath"
	"runtime/debug"
	"strings"
	"sync"
	"time"

	"github.com/google/uuid"
	"golang.org/x/crypto/bcrypt"

	"github.com/tucats/ego/internal/cli/app"
	"github.com/tucats/ego/internal/cli/cli"
	"github.com/tucats/ego/internal/cli/settings"
	"github.com/tucats/ego/internal/cli/ui"
	"github.com/tucats/ego/internal/commands"
	"github.com/tucats/ego/internal/defs"
	"github.com/tucats/ego/internal/dsns"
	"github.com/tucats/ego/internal/language/symbols"
	"github.com/tucats/ego/internal/router"
	"github.com/tucats/ego/internal/server/auth"
)

// User is one account written to the user store before the server starts.
type User struct {
	Name        string
	Password    string
	Permissions []string
}

// Options configure Start.
type Options struct {
	Arena         string            // directory owned by the fixture (default $VERIF_ARENA/srv)
	Users         []User            // default: DefaultUsers()
	UserStore     string            // "file" (default) or "sqlite"
	DSNStore      string            // "" = same as users (as the server does), or "memory"
	PanicRecovery bool              // false: ego.server.panic.recovery=false so handler panics propagate to Do
	Services      map[string]string // extra service sources: "services/x/y.ego" -> text (under lib/)
	Settings      map[string]string // extra settings applied before the server defaults
	Loggers       []string          // logger names to activate (e.g. "SERVER","REST","SQL","AUTH")
	NoLib         bool              // do not copy lib/ (no service routes, no assets)
}

// Fixture is a started in-process server.
type Fixture struct {
	Router  *router.Router
	Arena   string
	Lib     string
	LogFile string
	Users   []User
	TokenKey string
}

var (
	startOnce sync.Once
	started   *Fixture
	startErr  error
)

// DefaultUsers: an administrator, a plain logon user, users with single permissions, and one without logon.
func DefaultUsers() []User {
	return []User{
		{"admin", "adminpw-" + "K9", []string{"ego.root", "ego.logon"}},
		{"alice", "alicepw-" + "Q3", []string{"ego.logon"}},
		{"bob", "bobpw-" + "Z7", []string{"ego.logon", "ego.table.read"}},
		{"carol", "carolpw-" + "M1", []string{"ego.logon", "ego.table.admin", "ego.sql"}},
		{"dave", "davepw-" + "T5", []string{"ego.logon", "ego.code.run"}},
		{"nologon", "nologonpw-" + "X2", []string{"ego.table.read"}},
	}
}

// HashPassword makes a cost-4 bcrypt hash (ValidatePassword accepts any cost).
func HashPassword(pw string) string {
	b, err := bcrypt.GenerateFromPassword([]byte(pw), bcrypt.MinCost)
	if err != nil {
		panic(err)
	}

	return string(b)
}

// Start builds the server once per process (ego's services are process-global).
func Start(o Options) (*Fixture, error) {
	startOnce.Do(func() { started, startErr = start(o) })

	return started, startErr
}

func start(o Options) (*Fixture, error) {
	if o.Arena == "" {
		base := os.Getenv("VERIF_ARENA")
		if base == "" {
			base, _ = os.MkdirTemp("", "verif-srv-")
		}

		o.Arena = filepath.Join(base, "srv")
	}

	if o.Users == nil {
		o.Users = DefaultUsers()
	}

	home := filepath.Join(o.Arena, "home")
	egoPath := filepath.Join(o.Arena, "egopath")
	lib := filepath.Join(egoPath, "lib")

	for _, d := range []string{filepath.Join(home, ".ego"), egoPath} {
		if err := os.MkdirAll(d, 0o700); err != nil {
			return nil, err
		}
	}

	os.Setenv("HOME", home)
	os.Setenv("EGO_PATH", egoPath)
	os.Unsetenv("EGO_REALM")

	// the same call main() makes before any command runs: selects the file persistence
	// layer under the isolated $HOME/.ego and loads the (empty) default profile
	if err := settings.Load("ego", "default"); err != nil {
		return nil, fmt.Errorf("settings load: %v", err)
	}

	f := &Fixture{Arena: o.Arena, Lib: lib, Users: o.Users, LogFile: filepath.Join(o.Arena, "server.log")}

	// lib/ from the scratch source tree (current working tree of the repository)
	if !o.NoLib {
		src := filepath.Join(os.Getenv("VERIF_EGO_SRC"), "lib")
		if _, err := os.Stat(src); err != nil {
			return nil, fmt.Errorf("VERIF_EGO_SRC/lib not found: %v", err)
		}

		if out, err := exec.Command("cp", "-r", src, lib).CombinedOutput(); err != nil {
			return nil, fmt.Errorf("copy lib: %v %s", err, out)
		}
	} else {
		_ = os.MkdirAll(lib, 0o700)
	}

	for rel, text := range o.Services {
		p := filepath.Join(lib, rel)
		_ = os.MkdirAll(filepath.Dir(p), 0o700)

		if err := os.WriteFile(p, []byte(text), 0o600); err != nil {
			return nil, err
		}
	}

	// logging to a file, JSON like the server
	settings.SetDefault(defs.LogFormatSetting, "json")
	ui.LogFormat = ui.JSONFormat

	if err := ui.OpenLogFile(f.LogFile, false); err != nil {
		return nil, err
	}

	for _, l := range o.Loggers {
		if id := ui.LoggerByName(l); id >= 0 {
			ui.Active(id, true)
		}
	}

	// settings
	f.TokenKey = strings.Repeat("5a", 64)
	settings.SetDefault(defs.EgoPathSetting, egoPath)
	settings.SetDefault(defs.EgoLibPathSetting, lib)
	settings.SetDefault(defs.ServerTokenKeySetting, f.TokenKey)
	settings.SetDefault(defs.InsecureServerSetting, "true")
	settings.SetDefault("ego.server.panic.recovery", fmt.Sprintf("%t", o.PanicRecovery))

	usersPath := filepath.Join(o.Arena, "users.json")
	userData := map[string]defs.User{}

	for _, u := range o.Users {
		userData[u.Name] = defs.User{Name: u.Name, ID: uuid.New(), Password: HashPassword(u.Password), Permissions: u.Permissions}
	}

	if o.UserStore == "sqlite" {
		usersPath = "sqlite3://" + filepath.Join(o.Arena, "users.db")
	} else {
		b, _ := json.MarshalIndent(userData, "", "  ")
		if err := os.WriteFile(usersPath, b, 0o600); err != nil {
			return nil, err
		}
	}

	settings.SetDefault(defs.LogonUserdataSetting, usersPath)

	for k, v := range o.Settings {
		settings.SetDefault(k, v)
	}

	c := &cli.Context{}

	symbols.SerializeTableAccess = true
	now := time.Now()
	router.StartTime = now.Format(time.UnixDate)
	router.ServerStartTime = &now

	if err := commands.VerifServerDefaults(c); err != nil {
		return nil, fmt.Errorf("server defaults: %v", err)
	}

	if err := app.LibraryInit(); err != nil {
		return nil, fmt.Errorf("library init: %v", err)
	}

	ui.Active(ui.ServerLogger, true)

	if err := auth.Initialize(c); err != nil {
		return nil, fmt.Errorf("auth init: %v", err)
	}

	if o.UserStore == "sqlite" {
		for _, u := range userData {
			if err := auth.AuthService.WriteUser(0, u); err != nil {
				return nil, fmt.Errorf("write user: %v", err)
			}
		}
	}

	if o.DSNStore == "memory" {
		if err := dsns.InitializeFromURL("memory"); err != nil {
			return nil, err
		}
	} else if err := dsns.Initialize(c); err != nil {
		return nil, fmt.Errorf("dsn init: %v", err)
	}

	r, err := commands.VerifRouter()
	if err != nil {
		return nil, fmt.Errorf("router: %v", err)
	}

	symbols.RootSymbolTable.SetAlways(defs.UserCodeRunningVariable, true)
	r.Insecure()

	f.Router = r

	return f, nil
}

// Response is what a request produced.
type Response struct {
	Status int
	Header http.Header
	Body   []byte
	Panic  string // recovered panic value + stack when the handler panicked ("" otherwise)
}

// Request describes one request.
type Request struct {
	Method string
	Path   string // path with query string
	Header map[string]string
	Body   []byte
}

// Do serves one request through the real router and recovers a handler panic.
func (f *Fixture) Do(rq Request) (resp Response) {
	defer func() {
		if r := recover(); r != nil {
			resp.Panic = fmt.Sprintf("%v\n%s", r, debug.Stack())
		}
	}()

	req, err := http.NewRequest(rq.Method, "http://localhost"+rq.Path, bytes.NewReader(rq.Body))
	if err != nil {
		// unparsable URL: build by hand so hostile paths still reach the router
		req = httptest.NewRequest("GET", "http://localhost/", bytes.NewReader(rq.Body))
		req.Method = rq.Method
		req.URL.Path = rq.Path
		req.RequestURI = rq.Path
	}

	req.RemoteAddr = "127.0.0.1:55555"
	req.RequestURI = rq.Path

	for k, v := range rq.Header {
		req.Header.Set(k, v)
	}

	w := httptest.NewRecorder()
	f.Router.ServeHTTP(w, req)

	resp.Status = w.Code
	resp.Header = w.Header()
	resp.Body = w.Body.Bytes()

	return resp
}

// Basic returns the Authorization header value for a user.
func Basic(user, pass string) string {
	return "Basic " + base64.StdEncoding.EncodeToString([]byte(user+":"+pass))
}

// Password returns the clear password of a fixture user.
func (f *Fixture) Password(name string) string {
	for _, u := range f.Users {
		if u.Name == name {
			return u.Password
		}
	}

	return ""
}

// Logon obtains a bearer token through the server's own logon endpoint.
func (f *Fixture) Logon(user string) (string, error) {
	r := f.Do(Request{Method: "POST", Path: "/services/admin/logon", Header: map[string]string{
		"Authorization": Basic(user, f.Password(user)), "Accept": "application/json"}})
	if r.Status != 200 {
		return "", fmt.Errorf("logon %s: status %d body %s panic %s", user, r.Status, r.Body, r.Panic)
	}

	var doc struct {
		Token string `json:"token"`
	}

	if err := json.Unmarshal(r.Body, &doc); err != nil || doc.Token == "" {
		return "", fmt.Errorf("logon %s: no token in %s", user, r.Body)
	}

	return doc.Token, nil
}
