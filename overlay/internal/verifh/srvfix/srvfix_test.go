package srvfix

import (
	"fmt"
	"os"
	"testing"
)

// TestSmoke starts the fixture and makes a few requests; used by the coordinator to
// validate the fixture itself.
func TestSmoke(t *testing.T) {
	if os.Getenv("VERIF_EGO_SRC") == "" {
		t.Skip("VERIF_EGO_SRC not set")
	}
	f, err := Start(Options{Loggers: []string{"REST", "AUTH"}})
	if err != nil {
		t.Fatal(err)
	}
	for _, rq := range []Request{
		{Method: "GET", Path: "/admin/heartbeat"},
		{Method: "GET", Path: "/services/admin/heartbeat"},
		{Method: "GET", Path: "/admin/users", Header: map[string]string{"Authorization": Basic("admin", f.Password("admin"))}},
		{Method: "GET", Path: "/admin/users", Header: map[string]string{"Authorization": Basic("alice", f.Password("alice"))}},
		{Method: "GET", Path: "/admin/users"},
		{Method: "GET", Path: "/assets/dashboard/dashboard.css", Header: map[string]string{"Range": "bytes=5"}},
	} {
		r := f.Do(rq)
		fmt.Printf("%s %s -> %d %d bytes panic=%.80q\n", rq.Method, rq.Path, r.Status, len(r.Body), r.Panic)
	}
	tok, err := f.Logon("alice")
	fmt.Printf("token %.20s... err=%v\n", tok, err)
	r := f.Do(Request{Method: "GET", Path: "/services/admin/whoami", Header: map[string]string{"Authorization": "Bearer " + tok}})
	fmt.Printf("whoami -> %d %s\n", r.Status, r.Body)
}
