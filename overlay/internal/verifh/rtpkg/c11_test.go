package rtpkg

// C11 — Runtime packages match the Go functions they wrap.
//
// For every function the runtime packages declare (the tables are read at run time), a row says which Go
// function it mirrors, how arguments are generated and how results are compared. The Ego side is the real
// interpreter: one snippet `r0, r1 := pkg.F(a0, a1)` per function, compiled once, re-run per argument
// vector with the arguments placed in the symbol table and the results read back from it.
// Oracle: the Go function's own results on the same arguments (NaN-aware, -0 distinguished, nil/empty
// collections identified, error <=> error). Vectors on which the Go function panics are out of scope.

import (
	"crypto/sha256"
	"encoding/json"
	"fmt"
	"math/rand"
	"os"
	"reflect"
	"sort"
	"strings"
	"testing"

	"github.com/tucats/ego/internal/language/data"
	"github.com/tucats/ego/internal/packages"
	"github.com/tucats/ego/internal/verifh/egorun"
	"github.com/tucats/ego/internal/verifh/vh"
)

type row struct {
	Name string // pkg.Func or pkg.Func/variant
	// Snippet is the Ego text; "" = `r0, .. := pkg.Func(a0, ..)` derived from Go's signature
	Snippet string
	NRet    int
	// Go is the reference: a func value called through reflection with the generated arguments
	Go   any
	Gens []gen // nil entries / nil slice = default by parameter type
	// Variadic tail count for variadic Go functions (filepath.Join): number of arguments to pass
	NArgs int
	// Post adjusts Go's results before comparison (e.g. drop a result Ego does not return)
	Post func(args []any, outs []any) []any
	// Check replaces the default comparison. It returns "" or (class, detail).
	Check func(args []any, goOuts []any, ego runResult) (string, string)
	// IgnoreErrValue: when both sides report an error the value results are not compared
	IgnoreErrValue bool
	Types          string // "dynamic" (default) or "strict"
	// Directed vectors evaluated before the PRNG ones (boundary cases that a small draw may miss)
	Directed [][]any
}

type c11Case struct {
	Fn   string   `json:"fn"`
	Args []string `json:"args"` // %#v of each argument (for people)
	Raw  []any    `json:"raw"`  // JSON form for replay where possible
	Seed string   `json:"stream"`
	Idx  int      `json:"index"` // position in the row's vector sequence (negative = directed vector)
	Run  int64    `json:"verif_seed"`
}

// randFor is vh.Rand for an explicit seed (a replay regenerates the vector sequence of the recorded run).
func randFor(seed int64, stream string) *rand.Rand {
	h := sha256.Sum256([]byte(fmt.Sprintf("%d/%s", seed, stream)))

	var s int64
	for i := 0; i < 8; i++ {
		s = s<<8 | int64(h[i])
	}

	return rand.New(rand.NewSource(s))
}

// callGo calls the reference with args; panics are reported, not propagated.
func callGo(fn any, args []any) (outs []any, panicked string) {
	defer func() {
		if r := recover(); r != nil {
			panicked = fmt.Sprint(r)
		}
	}()

	fv := reflect.ValueOf(fn)
	ft := fv.Type()
	in := make([]reflect.Value, len(args))

	for i, a := range args {
		var pt reflect.Type

		if ft.IsVariadic() && i >= ft.NumIn()-1 {
			pt = ft.In(ft.NumIn() - 1).Elem()
		} else {
			pt = ft.In(i)
		}

		if a == nil {
			in[i] = reflect.Zero(pt)
		} else {
			in[i] = reflect.ValueOf(a).Convert(pt)
		}
	}

	for _, o := range fv.Call(in) {
		outs = append(outs, o.Interface())
	}

	return outs, ""
}

func defaultSnippet(name string, nargs, nret int) string {
	var as, rs []string
	for i := 0; i < nargs; i++ {
		as = append(as, fmt.Sprintf("a%d", i))
	}

	for i := 0; i < nret; i++ {
		rs = append(rs, fmt.Sprintf("r%d", i))
	}

	call := name + "(" + strings.Join(as, ", ") + ")"
	if nret == 0 {
		return call
	}

	return strings.Join(rs, ", ") + " := " + call
}

// evalVector runs one argument vector through Go and Ego and classifies the outcome.
func evalVector(rw *row, sn *snippet, args []any) (class, detail string, goPanicked bool) {
	// Go first, on private copies of mutable arguments
	gargs := make([]any, len(args))
	for i, a := range args {
		gargs[i] = cloneArg(a)
	}

	outs, p := callGo(rw.Go, gargs)
	if p != "" {
		return "", "", true
	}

	if rw.Post != nil {
		outs = rw.Post(gargs, outs)
	}

	eargs := make([]any, len(args))
	for i, a := range args {
		eargs[i] = toEgo(cloneArg(a))
	}

	types := rw.Types
	if types == "" {
		types = "dynamic"
	}

	res := sn.run(eargs, types)

	if res.panic != "" {
		return "panic", "Go panic inside the interpreter: " + vh.Trunc(res.panic, 600), false
	}

	if rw.Check != nil {
		c, d := rw.Check(gargs, outs, res)

		return c, d, false
	}

	if res.err != "" {
		// the snippet assigns every result, so an error result arrives as a value; an abort is a mismatch
		for _, o := range outs {
			if e, ok := o.(error); ok && e != nil {
				return "", "", false // both failed (Ego by raising)
			}
		}

		return "ego-error", "Go returned " + showAll(outs) + " but the Ego call aborted: " + res.err, false
	}

	if len(res.rets) != len(outs) {
		return "arity", fmt.Sprintf("Go returns %d values, Ego produced %d", len(outs), len(res.rets)), false
	}

	goErr, egoErr := false, false

	for i := range outs {
		if _, ok := norm(outs[i]).(errMark); ok {
			goErr = true
		}

		if _, ok := norm(res.rets[i]).(errMark); ok {
			egoErr = true
		}
	}

	if goErr != egoErr {
		return "error-mismatch", fmt.Sprintf("Go results %s, Ego results %s", showAll(outs), showAll(res.rets)), false
	}

	if goErr && rw.IgnoreErrValue {
		return "", "", false
	}

	typeOnly := false

	for i := range outs {
		a, b := norm(outs[i]), norm(res.rets[i])

		eq, to := equalNorm(a, b)
		if !eq && !to {
			cl := "value"
			if goErr {
				cl = "value-on-error"
			}

			return cl, fmt.Sprintf("result %d: Go %s, Ego %s", i, show(a), show(b)), false
		}

		typeOnly = typeOnly || to
	}

	if typeOnly {
		return "type", fmt.Sprintf("same numbers, different types: Go %s, Ego %s", showTypes(outs), showTypes(res.rets)), false
	}

	return "", "", false
}

func cloneArg(a any) any {
	switch x := a.(type) {
	case []string:
		if x == nil {
			return []string(nil)
		}

		return append([]string{}, x...)
	case []int:
		return append([]int{}, x...)
	case []int32:
		return append([]int32{}, x...)
	case []int64:
		return append([]int64{}, x...)
	case []float64:
		return append([]float64{}, x...)
	case []float32:
		return append([]float32{}, x...)
	case []byte:
		return append([]byte{}, x...)
	}

	return a
}

func showAll(vs []any) string {
	parts := make([]string, len(vs))
	for i, v := range vs {
		parts[i] = show(norm(v))
	}

	return "(" + strings.Join(parts, ", ") + ")"
}

func showTypes(vs []any) string {
	parts := make([]string, len(vs))
	for i, v := range vs {
		parts[i] = fmt.Sprintf("%T", v)
	}

	return "(" + strings.Join(parts, ", ") + ")"
}

var c11Packages = []string{"strings", "strconv", "math", "cmplx", "sort", "filepath", "base64", "json", "time", "fmt"}

// declared lists the functions the runtime packages declare, from their own tables.
func declared() map[string]data.Function {
	out := map[string]data.Function{}

	for _, pn := range c11Packages {
		p := packages.Get(pn)
		if p == nil {
			continue
		}

		for _, k := range p.Keys() {
			v, _ := p.Get(k)
			if f, ok := v.(data.Function); ok {
				out[pn+"."+k] = f
			}
		}
	}

	return out
}

func TestC11(t *testing.T) {
	r := vh.New("C11", "mirror")
	r.Rule = "case = (runtime function, argument vector); vectors are PRNG draws from boundary pools (every integer width, ±0, NaN, ±Inf, subnormals, Unicode incl. invalid UTF-8, " +
		"combining marks, NUL, empty/nil collections) with arguments correlated (substrings, member runes); distinct by function + %#v of the vector; " +
		"non-trivial = the Go reference did not panic on it (a vector Go rejects by panicking is out of scope)"
	r.Assume("the Go standard library of the toolchain that built the harness is the reference")
	r.Assume("the snippet is compiled with compiler.CompileString (as the REPL/dashboard do) and run with bytecode.Context.Run; results are read from the symbol table")

	egorun.Init()
	egorun.Run("func main() {}", egorun.Config{})

	decl := declared()
	if len(decl) < 100 {
		t.Fatalf("only %d declared functions found", len(decl))
	}

	rows := allRows()
	byFn := map[string][]*row{}

	for i := range rows {
		base := strings.TrimSuffix(rows[i].Name, "@strict")
		if j := strings.Index(base, "/"); j >= 0 {
			base = base[:j]
		}

		byFn[base] = append(byFn[base], &rows[i])
	}

	// coverage report
	var covered, skipped, uncovered, stale []string

	for name := range decl {
		switch {
		case len(byFn[name]) > 0:
			covered = append(covered, name)
		case extensions[name] != "":
			skipped = append(skipped, name)
			r.Note("skipped " + name + ": " + extensions[name])
		default:
			uncovered = append(uncovered, name)
		}
	}

	for name := range byFn {
		if _, ok := decl[name]; !ok && !strings.Contains(name, "#") {
			stale = append(stale, name)
		}
	}

	sort.Strings(covered)
	sort.Strings(skipped)
	sort.Strings(uncovered)
	sort.Strings(stale)
	r.Count("functions.declared", int64(len(decl)))
	r.Count("functions.with_row", int64(len(covered)))
	r.Count("functions.skipped_documented_extension", int64(len(skipped)))
	r.Count("functions.uncovered", int64(len(uncovered)))
	r.Note("rows for: " + strings.Join(covered, " "))

	if len(uncovered) > 0 {
		r.Inconcl("declared functions with neither a row nor a documented reason to skip: " + strings.Join(uncovered, " "))
	}

	if len(stale) > 0 {
		r.Inconcl("rows for functions the packages no longer declare: " + strings.Join(stale, " "))
	}

	// replay
	var replay *c11Case

	if c := vh.ReplayCase(); c != nil {
		replay = &c11Case{}
		if err := json.Unmarshal(c, replay); err != nil {
			t.Fatal(err)
		}
	}

	n := vh.N(200, 20000)
	only := os.Getenv("C11_ONLY")
	violated := map[string]bool{}

	// thorough tier: every row a second time under strict type checking (same arguments, exact types)
	if vh.Tier() == "thorough" || os.Getenv("C11_STRICT") != "" || (replay != nil && strings.HasSuffix(replay.Fn, "@strict")) {
		base := len(rows)
		for i := 0; i < base; i++ {
			c := rows[i]
			c.Types = "strict"
			c.Name = rows[i].Name + "@strict"
			rows = append(rows, c)
		}
	}

	for i := range rows {
		rw := &rows[i]
		if only != "" && !strings.HasPrefix(rw.Name, only) {
			continue
		}

		if replay != nil && replay.Fn != rw.Name {
			continue
		}

		ft := reflect.TypeOf(rw.Go)
		nargs := ft.NumIn()

		if ft.IsVariadic() {
			nargs = ft.NumIn() - 1 + rw.NArgs
		}

		nret := rw.NRet
		if nret == 0 && rw.Snippet == "" {
			nret = ft.NumOut()
		}

		src := rw.Snippet
		if src == "" {
			src = defaultSnippet(strings.TrimSuffix(rw.Name, "@strict"), nargs, nret)
		}

		sn, err := compileSnippet(src, nargs, nret, rw.Types)
		if err != nil {
			r.Inconcl("snippet for " + rw.Name + " does not compile: " + err.Error() + " /// " + src)

			continue
		}

		gens := make([]gen, nargs)
		for a := 0; a < nargs; a++ {
			if a < len(rw.Gens) && rw.Gens[a] != nil {
				gens[a] = rw.Gens[a]

				continue
			}

			var pt reflect.Type

			if ft.IsVariadic() && a >= ft.NumIn()-1 {
				pt = ft.In(ft.NumIn() - 1).Elem()
			} else {
				pt = ft.In(a)
			}

			gens[a] = genFor(pt)
			if gens[a] == nil {
				r.Inconcl(fmt.Sprintf("no generator for parameter %d (%s) of %s", a, pt, rw.Name))
			}
		}

		if func() bool {
			for _, g := range gens {
				if g == nil {
					return true
				}
			}

			return false
		}() {
			continue
		}

		stream := "c11/" + rw.Name
		rng := vh.Rand(stream)

		if replay != nil && replay.Run != 0 {
			rng = randFor(replay.Run, stream)
		}
		count := n

		if nargs == 0 {
			count = 1
		}

		goPanics, evaluated := 0, 0
		first := map[string]bool{}

		for k := -len(rw.Directed); k < count; k++ {
			var args []any

			if k < 0 {
				args = append([]any{}, rw.Directed[len(rw.Directed)+k]...)
			} else {
				args = make([]any, nargs)
				for a := range args {
					args[a] = gens[a](rng, args[:a])
				}
			}

			if replay != nil && replay.Idx != k {
				continue
			}

			class, detail, gp := evalVector(rw, sn, args)
			id := rw.Name + "|" + fmt.Sprintf("%#v", args)

			r.Eval(id, !gp)

			if gp {
				goPanics++

				continue
			}

			evaluated++

			if class == "" {
				continue
			}

			fname, mode := strings.TrimSuffix(rw.Name, "@strict"), ""
			if fname != rw.Name {
				mode = "@strict"
			}

			key := fname + ":" + class
			if j := strings.Index(fname, "/"); j >= 0 {
				key = fname[:j] + ":" + class + ":" + fname[j+1:]
			}

			if mode != "" && violated[key] {
				// the same defect already shown under dynamic typing
				r.Count("strict.same_as_dynamic", 1)

				continue
			}

			violated[key] = true
			key += mode

			argText := make([]string, len(args))
			for a := range args {
				argText[a] = fmt.Sprintf("%#v", args[a])
			}

			if !first[key] {
				first[key] = true
			}

			r.Violate(vh.Violation{Key: key, Desc: rw.Name + "(" + strings.Join(argText, ", ") + "): " + detail,
				Case: c11Case{Fn: rw.Name, Args: argText, Seed: stream, Idx: k, Run: vh.Seed()}, Expected: "what the Go function returns", Observed: vh.Trunc(detail, 500)})
		}

		r.Count("vectors.evaluated", int64(evaluated))
		r.Count("vectors.go_panicked_out_of_scope", int64(goPanics))
		r.Count("rows.run", 1)

		if evaluated == 0 && count > 0 {
			r.Inconcl("every vector of " + rw.Name + " made the Go reference panic: nothing was compared")
		}

		if i%17 == 3 && count > 1 {
			args := make([]any, nargs)
			for a := range args {
				args[a] = gens[a](rng, args[:a])
			}

			r.Sample(map[string]any{"fn": rw.Name, "snippet": src, "example_args": fmt.Sprintf("%#v", args)})
		}
	}

	if r.Evaluations == 0 {
		t.Fatal("observed nothing")
	}

	if err := r.Write(); err != nil {
		t.Fatal(err)
	}
}
