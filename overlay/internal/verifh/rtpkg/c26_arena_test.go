package rtpkg

// C26 arena: a sandbox root, an "outside" tree of canaries next to it, and
// PRNG-chosen symlink layouts inside the root. Everything lives under one base
// directory so that no generated spelling can resolve above it.

import (
	"crypto/sha256"
	"encoding/hex"
	"fmt"
	"io/fs"
	"math/rand"
	"os"
	"path/filepath"
	"sort"
	"strings"
)

type layout struct {
	idx     int
	base    string // $ARENA/<part>/L<idx>/a/b  (two spare levels above root)
	root    string // real sandbox directory
	setting string // spelling of ego.runtime.sandbox.path (root, root/, via a link)
	outside string
	evil    string // sibling sharing the root's name as a string prefix
	home    string
	cwd     string // directory the program runs in (inside base)

	// link names relative to root
	lrel, labs, lfileJSON, lfileTxt, chain0, lnew, lnewdir, ldang, lin, loop string
	// composed links (two deep): a dangling link whose target runs through a directory link that leaves the root,
	// one under a link chain, links whose target has ".." after a directory link, links inside a linked directory
	lcompNew, lcompNewDir, lcompChainNew, ldd, lddNew, linner, linnerDir string
	lcompDD, lcompDDDir                                                  string // a link to another dangling link that leaves the root
	tmpdir                                                               string // $TMPDIR of the program: outside the root, inside the instance
	chainLen                                                             int
	links                                                                map[string]string // absolute link path -> target text (initial layout)
	linkOrder                                                            []string
	seed                                                                 int64
	top                                                                  string // L<idx>/<variant>
	vid                                                                  string // "A" or "B": which variant of the outside this instance holds
	noLinks                                                              bool   // build the root without any symbolic link
	pristineOut, pristineIn                                              map[string]string
	builds                                                               int
	dirty                                                                bool // the last run changed something (inside or outside the root)
}

// variant content ---------------------------------------------------------

type variant struct {
	id      string
	content []string // canary tokens that exist only inside outside files
	names   []string // untargeted outside entry names (never part of a spelling)
}

func tok(parts ...any) string {
	h := sha256.Sum256([]byte(fmt.Sprint(parts...)))

	return hex.EncodeToString(h[:])[:16]
}

func (l *layout) variant(id string) variant {
	v := variant{id: id}
	for i := 0; i < 8; i++ {
		v.content = append(v.content, "CNRY"+tok(l.seed, l.idx, id, "c", i))
	}

	for i := 0; i < 7; i++ {
		v.names = append(v.names, "un"+tok(l.seed, l.idx, id, "n", i)[:10])
	}

	return v
}

var wordPool = []string{"alpha", "data", "cfg", "notes", "lnk", "tmpl", "res", "img", "out", "build", "cache", "x1", "zeta", "report"}

// newLayout makes the instance of layout idx that holds variant vid of the outside. The two
// instances of one layout are generated from equal PRNG streams and differ only in the
// directory name L<idx>/<vid>, so a program for one is turned into the program for the other
// by replacing that prefix (same length).
func newLayout(arena string, idx int, rng *rand.Rand, seed int64, vid string) *layout {
	top := filepath.Join(arena, fmt.Sprintf("L%d", idx), vid)
	base := filepath.Join(top, "a", "b")
	l := &layout{idx: idx, base: base, root: filepath.Join(base, "root"), outside: filepath.Join(base, "outside"),
		evil: filepath.Join(base, "root-evil"), home: filepath.Join(top, "home"), seed: seed, top: top, vid: vid, tmpdir: filepath.Join(base, "tmpdir")}

	used := map[string]bool{}
	name := func(inSub bool) string {
		for {
			n := wordPool[rng.Intn(len(wordPool))] + fmt.Sprint(rng.Intn(90)+10)
			if inSub {
				n = "sub/" + n
			}

			if !used[n] {
				used[n] = true

				return n
			}
		}
	}
	pick := func() bool { return rng.Intn(3) == 0 }
	l.lrel, l.labs, l.lfileJSON, l.lfileTxt = name(pick()), name(pick()), name(pick()), name(pick())
	l.chain0, l.lnew, l.lnewdir, l.ldang, l.lin, l.loop = name(false), name(pick()), name(pick()), name(pick()), name(false), name(false)
	l.chainLen = 2 + rng.Intn(3)
	l.lcompNew, l.lcompNewDir, l.lcompChainNew, l.ldd, l.lddNew = name(pick()), name(pick()), name(false), name(pick()), name(pick())
	l.lcompDD, l.lcompDDDir = name(pick()), name(pick())
	l.linner, l.linnerDir = strings.TrimPrefix(name(true), "sub/"), strings.TrimPrefix(name(true), "sub/")

	switch idx % 3 {
	case 0:
		l.cwd = l.root
	case 1:
		l.cwd = filepath.Join(l.root, "sub")
	default:
		l.cwd = l.base
	}

	// root-configuration dimension: how ego.runtime.sandbox.path names the root
	//   0 plain real path; 1 a symbolic link to the root; 2 a path through a symbolically linked parent;
	//   further layouts add a trailing separator and a "/./" spelling
	switch idx % 5 {
	case 0:
		l.setting = l.root
	case 1:
		l.setting = filepath.Join(l.base, "rootlnk") // rootlnk -> root
	case 2:
		l.setting = filepath.Join(l.base, "parentlnk", "root") // parentlnk -> . (the directory holding the root)
	case 3:
		l.setting = l.root + "/"
	default:
		l.setting = l.base + "/./root"
	}

	// link table
	l.links = map[string]string{}
	add := func(rel, target string) {
		p := filepath.Join(l.root, rel)
		l.links[p] = target
		l.linkOrder = append(l.linkOrder, p)
	}
	relTo := func(linkRel, targetAbs string) string {
		r, _ := filepath.Rel(filepath.Dir(filepath.Join(l.root, linkRel)), targetAbs)

		return r
	}
	absOrRel := func(linkRel, targetAbs string) string {
		if rng.Intn(2) == 0 {
			return targetAbs
		}

		return relTo(linkRel, targetAbs)
	}

	add(l.lrel, relTo(l.lrel, l.outside))
	add(l.labs, l.outside)
	add(l.lfileJSON, absOrRel(l.lfileJSON, filepath.Join(l.outside, "secret.json")))
	add(l.lfileTxt, absOrRel(l.lfileTxt, filepath.Join(l.outside, "secret.txt")))
	// chain0 -> chain1 -> ... -> outside
	prev := l.chain0
	for i := 1; i < l.chainLen; i++ {
		next := fmt.Sprintf("%s_h%d", l.chain0, i)
		add(prev, next) // same directory (root), relative name
		prev = next
	}

	add(prev, absOrRel(prev, l.outside))
	add(l.lnew, absOrRel(l.lnew, filepath.Join(l.outside, "new.json")))
	add(l.lnewdir, absOrRel(l.lnewdir, filepath.Join(l.outside, "newdir")))
	add(l.ldang, "nowhere"+fmt.Sprint(rng.Intn(1000)))
	add(l.lin, "sub")
	add(l.loop, l.loop+"_b")
	add(l.loop+"_b", l.loop)

	// composed layouts: the target text goes THROUGH another link (purely textual relative paths inside the root)
	through := func(linkRel, rootRelTarget string) string {
		r, _ := filepath.Rel(filepath.Dir(filepath.Join(l.root, linkRel)), filepath.Join(l.root, rootRelTarget))

		return r
	}
	throughRaw := func(linkRel, viaLink, rest string) string { // keeps "<via>/../x" unreduced
		r, _ := filepath.Rel(filepath.Dir(filepath.Join(l.root, linkRel)), filepath.Join(l.root, viaLink))

		return r + "/" + rest
	}

	add(l.lcompNew, through(l.lcompNew, l.lrel+"/created.txt"))              // dangling; really outside/created.txt
	add(l.lcompNewDir, through(l.lcompNewDir, l.lrel+"/createddir"))         // dangling; really outside/createddir
	add(l.lcompChainNew, through(l.lcompChainNew, l.chain0+"/created2.txt")) // dangling under a chain
	add(l.ldd, throughRaw(l.ldd, l.lrel, "../top.txt"))                      // existing in variant A: <base>/top.txt
	add(l.lddNew, throughRaw(l.lddNew, l.lrel, "../created3.txt"))           // dangling: <base>/created3.txt
	add(l.lcompDD, through(l.lcompDD, l.lnew))                               // dangling -> dangling -> outside/new.json
	add(l.lcompDDDir, through(l.lcompDDDir, l.lnewdir))                      // dangling -> dangling -> outside/newdir
	add("sub/"+l.linner, "../../outside/secret.txt")                         // reached as <lin>/<linner>
	add("sub/"+l.linnerDir, l.outside)                                       // reached as <lin>/<linnerDir>/T

	if strings.HasSuffix(l.setting, "rootlnk") {
		l.links[filepath.Join(l.base, "rootlnk")] = "root"
	}

	if strings.Contains(l.setting, "/parentlnk/") {
		l.links[filepath.Join(l.base, "parentlnk")] = "."
	}

	return l
}

func must(err error) {
	if err != nil {
		panic("c26 arena: " + err.Error())
	}
}

func writeFile(p, content string) {
	must(os.MkdirAll(filepath.Dir(p), 0o755))
	must(os.WriteFile(p, []byte(content), 0o644))
}

// build (re)creates root, outside, root-evil and top.txt for the given variant.
// home is left alone. It refuses to touch anything that is not below base.
func (l *layout) build() {
	v := l.variant(l.vid)
	l.builds++

	if !strings.Contains(l.base, "/L") || len(l.base) < 12 {
		panic("c26 arena: suspicious base " + l.base)
	}

	for _, d := range []string{l.root, l.outside, l.evil, filepath.Join(l.base, "top.txt"), filepath.Join(l.base, "rootlnk"), filepath.Join(l.base, "parentlnk")} {
		// chmod back anything a previous case may have made unreadable
		_ = filepath.WalkDir(d, func(p string, de fs.DirEntry, err error) error {
			if err == nil && de.IsDir() {
				_ = os.Chmod(p, 0o755)
			}

			return nil
		})
		must(os.RemoveAll(d))
	}
	// stray entries a defect may have created directly in base or above are removed too
	for _, dir := range []string{l.base, filepath.Dir(l.base), l.top} {
		ents, _ := os.ReadDir(dir)
		for _, e := range ents {
			switch filepath.Join(dir, e.Name()) {
			case l.base, filepath.Dir(l.base), l.home:
			default:
				must(os.RemoveAll(filepath.Join(dir, e.Name())))
			}
		}
	}

	must(os.MkdirAll(filepath.Join(l.root, "sub"), 0o755))
	must(os.MkdirAll(filepath.Join(l.root, "emptyin"), 0o755))
	must(os.MkdirAll(l.home, 0o755))
	writeFile(filepath.Join(l.root, "in.json"), `{"in":1}`)
	writeFile(filepath.Join(l.root, "in.txt"), "inside-text\n")
	writeFile(filepath.Join(l.root, "sub", "deep.txt"), "deep-text\n")
	writeFile(filepath.Join(l.root, "sub", "deep.json"), `{"deep":2}`)
	writeFile(filepath.Join(l.root, "run.sh"), "#!/bin/sh\nexit 0\n")
	must(os.Chmod(filepath.Join(l.root, "run.sh"), 0o755))

	for _, p := range l.linkOrder {
		if !l.noLinks {
			must(os.Symlink(l.links[p], p))
		}
	}

	for _, n := range []string{"rootlnk", "parentlnk"} {
		if t, ok := l.links[filepath.Join(l.base, n)]; ok {
			must(os.Symlink(t, filepath.Join(l.base, n)))
		}
	}

	c, n := v.content, v.names
	must(os.MkdirAll(l.outside, 0o755))
	must(os.MkdirAll(l.evil, 0o755))

	// $TMPDIR and $HOME of the program are outside the root; both hold a canary. In $HOME only what the ego
	// process itself keeps there survives a rebuild.
	must(os.RemoveAll(l.tmpdir))
	must(os.MkdirAll(l.tmpdir, 0o755))
	writeFile(filepath.Join(l.tmpdir, n[4]+".tmp"), c[5]+"\n")

	if ents, err := os.ReadDir(l.home); err == nil {
		for _, e := range ents {
			if !homeOwnedByEgo(e.Name()) {
				must(os.RemoveAll(filepath.Join(l.home, e.Name())))
			}
		}
	}

	writeFile(filepath.Join(l.home, n[5]+".cfg"), c[4]+"\n")

	if v.id == "A" {
		writeFile(filepath.Join(l.outside, "secret.json"), `{"canary":"`+c[0]+`"}`)
		writeFile(filepath.Join(l.outside, "secret.txt"), c[1]+"\n")
		writeFile(filepath.Join(l.outside, "dir", "inner.json"), `{"canary":"`+c[2]+`"}`)
		writeFile(filepath.Join(l.outside, "dir", "inner.txt"), c[3]+"\n")
		writeFile(filepath.Join(l.outside, "dir", n[0]+".txt"), c[4]+"\n")
		writeFile(filepath.Join(l.outside, n[1]+".dat"), c[5]+"\n")
		must(os.MkdirAll(filepath.Join(l.outside, "emptydir"), 0o755))
		writeFile(filepath.Join(l.outside, "run.sh"), "#!/bin/sh\necho "+c[6]+" > \"$(dirname \"$0\")/pwned\"\n")
		must(os.Chmod(filepath.Join(l.outside, "run.sh"), 0o755))
		writeFile(filepath.Join(l.evil, "secret.json"), `{"canary":"`+c[6]+`"}`)
		writeFile(filepath.Join(l.evil, "secret.txt"), c[6]+"\n")
		writeFile(filepath.Join(l.base, "top.txt"), c[7]+"\n")
	} else {
		// same link targets, different facts: other content and sizes, some entries missing, others added
		writeFile(filepath.Join(l.outside, "secret.json"), `{"canary":"`+c[0]+`","pad":"xxxxxxxxxxxxxxxx"}`)
		writeFile(filepath.Join(l.outside, n[1]+".dat"), c[5]+c[5]+"\n")
		writeFile(filepath.Join(l.outside, n[2]+".txt"), c[1]+"\n")
		writeFile(filepath.Join(l.evil, n[3]+".txt"), c[6]+"\n")
	}
}

// snapshot of everything below base except the real root and home: names, kinds,
// modes, sizes, content hashes, link targets. mtimes are excluded.
func (l *layout) snapshot() (outside, inside map[string]string) {
	outside, inside = map[string]string{}, map[string]string{}
	top := l.top
	_ = filepath.WalkDir(top, func(p string, d fs.DirEntry, err error) error {
		out := outside
		if within(p, l.root) {
			out = inside
		}

		if err != nil {
			out[p] = "ERR " + err.Error()

			return nil
		}

		// $HOME is watched too, except for what the ego process itself maintains there
		if filepath.Dir(p) == l.home && homeOwnedByEgo(filepath.Base(p)) {
			if d.IsDir() {
				return filepath.SkipDir
			}

			return nil
		}

		info, err := os.Lstat(p)
		if err != nil {
			out[p] = "ERR " + err.Error()

			return nil
		}

		rel, _ := filepath.Rel(top, p)

		switch {
		case info.Mode()&os.ModeSymlink != 0:
			t, _ := os.Readlink(p)
			out[rel] = "L " + t
		case info.IsDir():
			out[rel] = fmt.Sprintf("D %o", info.Mode().Perm())
		default:
			b, _ := os.ReadFile(p)
			h := sha256.Sum256(b)
			out[rel] = fmt.Sprintf("F %o %d %s", info.Mode().Perm(), info.Size(), hex.EncodeToString(h[:8]))
		}

		return nil
	})

	return outside, inside
}

// homeOwnedByEgo: entries of $HOME written by the ego process itself (profile, system database, library, the
// harness's own program and trace files); everything else in $HOME is judged like any other outside location.
func homeOwnedByEgo(name string) bool {
	switch name {
	case ".ego", "ego-system.db", "ego-system.db-shm", "ego-system.db-wal", "lib":
		return true
	}

	return (strings.HasPrefix(name, "prog") && strings.HasSuffix(name, ".ego")) || (strings.HasPrefix(name, "trace") && strings.HasSuffix(name, ".log"))
}

// ensure brings the instance back to its pristine state if the previous case changed anything
// (observe() records that after every run, so no extra walk is needed here).
func (l *layout) ensure() {
	if l.pristineOut != nil && !l.dirty {
		return
	}

	l.build()
	l.pristineOut, l.pristineIn = l.snapshot()
	l.dirty = false
}

// observe takes the snapshot after a run, remembers whether anything (inside or outside the root)
// changed, and returns the differences outside the root.
func (l *layout) observe() []string {
	o, i := l.snapshot()
	d := snapDiff(l.pristineOut, o)
	l.dirty = len(d) > 0 || len(snapDiff(l.pristineIn, i)) > 0

	return d
}

func snapDiff(a, b map[string]string) []string {
	var d []string

	for k, v := range a {
		if w, ok := b[k]; !ok {
			d = append(d, "deleted "+k+" ("+v+")")
		} else if w != v {
			d = append(d, "changed "+k+": "+v+" -> "+w)
		}
	}

	for k, v := range b {
		if _, ok := a[k]; !ok {
			d = append(d, "created "+k+" ("+v+")")
		}
	}

	sort.Strings(d)

	return d
}

// leaked returns the canary tokens / untargeted names of v that occur in text.
func (v variant) leaked(text string) []string {
	var out []string

	for _, c := range v.content {
		if strings.Contains(text, c) {
			out = append(out, "content:"+c)
		}
	}

	for _, n := range v.names {
		if strings.Contains(text, n) {
			out = append(out, "name:"+n)
		}
	}

	return out
}

// within reports whether clean path p is dir or below it.
func within(p, dir string) bool {
	return p == dir || strings.HasPrefix(p, dir+string(filepath.Separator))
}

// safe checks that a spelling cannot resolve above the layout's top directory under any
// interpretation (relative to any directory of the arena, or absolute).
func (l *layout) safe(p string) bool {
	top := l.top

	if filepath.IsAbs(p) {
		return within(filepath.Clean(p), top)
	}

	for _, dir := range []string{l.root, filepath.Join(l.root, "sub"), l.base, l.outside, filepath.Join(l.outside, "dir")} {
		if !within(filepath.Clean(filepath.Join(dir, p)), top) {
			return false
		}
	}

	return true
}
