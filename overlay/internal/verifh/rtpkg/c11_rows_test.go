package rtpkg

// C11 table: which Go function each runtime function mirrors.

import (
	"math"
	"math/cmplx"
	"math/rand"
	"path/filepath"
	"strconv"
	"strings"
)

// extensions: declared functions that are documented Ego additions or have no Go counterpart with the
// same contract (docs/LANGUAGE.md package sections). They are listed, not tested against Go.
var extensions = map[string]string{
	"strings.Chars":        "Ego addition (array of characters)",
	"strings.Format":       "Ego addition (alias of fmt.Sprintf-style formatting)",
	"strings.Generate":     "Ego addition (random string)",
	"strings.Ints":         "Ego addition (array of code points)",
	"strings.Left":         "Ego addition",
	"strings.Right":        "Ego addition",
	"strings.Length":       "Ego addition (length in characters)",
	"strings.String":       "Ego addition (build a string from values)",
	"strings.Substitution": "Ego addition",
	"strings.Substring":    "Ego addition",
	"strings.Template":     "Ego addition (text/template front end with its own data model)",
	"strings.Tokenize":     "Ego addition (Ego tokenizer)",
	"strings.Truncate":     "Ego addition",
	"strings.URLPattern":   "Ego addition",
	"strings.NewReader":    "returns a native *strings.Reader object; only its Read method is exposed (no scalar result to compare)",
	"math.Max":             "documented as variadic over any numeric list (not Go's two-float64 function)",
	"math.Min":             "documented as variadic over any numeric list (not Go's two-float64 function)",
	"math.Sum":             "Ego addition",
	"math.Normalize":       "Ego addition",
	"math.Random":          "Ego addition (random number)",
	"json.Parse":           "Ego addition (jaxon query language)",
	"json.ReadFile":        "Ego addition (file access; see C26)",
	"json.WriteFile":       "Ego addition (file access; see C26)",
	"time.Now":             "reads the clock: no deterministic reference",
	"time.Since":           "reads the clock: no deterministic reference",
	"time.Sleep":           "no result",
	"time.ParseAny":        "Ego addition (layout guessing)",
	"fmt.Print":            "writes to the console (the formatting rule is exercised through fmt.Sprint)",
	"fmt.Println":          "writes to the console; Println's own collection formats are Ego-specific",
	"fmt.Printf":           "writes to the console (the formatting is exercised through fmt.Sprintf)",
	"fmt.Scan":             "Ego-specific scanning front end",
	"fmt.Sscanf":           "documented as a subset of Go's (four verbs, no widths)",
	"fmt.__Symbols":        "not a function",
}

var parseDict = []string{"0", "1", "-1", "+1", "00", "007", "42", "-0", "127", "128", "-128", "-129", "255", "256", "32767", "32768", "65535", "65536", "2147483647", "2147483648",
	"-2147483648", "-2147483649", "4294967295", "4294967296", "9223372036854775807", "9223372036854775808", "-9223372036854775808", "-9223372036854775809", "18446744073709551615",
	"18446744073709551616", "0x1F", "0X1f", "0b101", "0o17", "017", "1_000", "0x_1F", "1__0", "_1", "1_", "ff", "FF", "zz", "Z", "१२३", "１２３", "1e3", "1E3", "1.5", ".5", "5.", "1e400", "-1e400",
	"1e-400", "4.9e-324", "2.4e-324", "1.7976931348623157e308", "1.7976931348623159e308", "3.4028235e38", "3.4028236e38", "0x1p-2", "0x1.8p1", "0x1p1024", "inf", "Inf", "+Inf", "-inf", "infinity", "INFINITY",
	"nan", "NaN", "NAN", "-nan", "1i", "1+2i", "(1+2i)", "1-2i", "i", "+i", "1e3+1e-3i", "NaN+NaNi", "Inf-Infi", "(Inf+Infi)", "1 + 2i", "1+2", "1+2j",
	"true", "false", "T", "F", "TRUE", "False", "t", "f", "tRUE", "yes", "1.0", ""}

var unquoteDict = []string{`""`, `"a"`, `"a\nb"`, `"\x41"`, `"é"`, `"\U0001F600"`, `"\101"`, `"\'"`, `"\""`, `'a'`, `'\''`, `'\"'`, `'ab'`, "`raw`", "`a\\nb`", "`a`b`", `"a`, `a"`, `"\q"`, `"\xZZ"`, `"\ud800"`,
	`"\400"`, "\"a\nb\"", `'é'`, `''`, `"\x"`, `"é"`, "'\xff'", `"` + "\xff" + `"`}

// allRows returns every row. Native rows use Go's function of the same name as the reference and the
// default snippet/generators unless a domain has to be narrowed (sizes that would exhaust memory).
func allRows() []row {
	small := intRange(-3, 12)
	str := gen(genString)

	rows := []row{
		// ---- strings (native) ----
		{Name: "strings.Clone", Go: strings.Clone},
		{Name: "strings.Compare", Go: strings.Compare},
		{Name: "strings.Contains", Go: strings.Contains},
		{Name: "strings.ContainsAny", Go: strings.ContainsAny},
		{Name: "strings.ContainsRune", Go: strings.ContainsRune},
		{Name: "strings.Count", Go: strings.Count},
		{Name: "strings.Cut", Go: strings.Cut},
		{Name: "strings.CutPrefix", Go: strings.CutPrefix},
		{Name: "strings.CutSuffix", Go: strings.CutSuffix},
		{Name: "strings.EqualFold", Go: strings.EqualFold},
		{Name: "strings.Fields", Go: strings.Fields},
		{Name: "strings.HasPrefix", Go: strings.HasPrefix},
		{Name: "strings.HasSuffix", Go: strings.HasSuffix},
		{Name: "strings.Index", Go: strings.Index},
		{Name: "strings.IndexAny", Go: strings.IndexAny},
		{Name: "strings.IndexByte", Go: strings.IndexByte},
		{Name: "strings.IndexRune", Go: strings.IndexRune},
		{Name: "strings.Join", Go: strings.Join},
		{Name: "strings.LastIndex", Go: strings.LastIndex},
		{Name: "strings.LastIndexAny", Go: strings.LastIndexAny},
		{Name: "strings.LastIndexByte", Go: strings.LastIndexByte},
		{Name: "strings.Repeat", Go: strings.Repeat, Gens: []gen{nil, intRange(-1, 40)}},
		{Name: "strings.Replace", Go: strings.Replace, Gens: []gen{nil, nil, nil, small}},
		{Name: "strings.ReplaceAll", Go: strings.ReplaceAll},
		{Name: "strings.SplitAfter", Go: strings.SplitAfter},
		{Name: "strings.SplitAfterN", Go: strings.SplitAfterN, Gens: []gen{nil, nil, small}},
		{Name: "strings.SplitN", Go: strings.SplitN, Gens: []gen{nil, nil, small}},
		{Name: "strings.Title", Go: strings.Title}, //nolint:staticcheck // the runtime mirrors the deprecated function on purpose
		{Name: "strings.ToLower", Go: strings.ToLower},
		{Name: "strings.ToTitle", Go: strings.ToTitle},
		{Name: "strings.ToUpper", Go: strings.ToUpper},
		{Name: "strings.ToValidUTF8", Go: strings.ToValidUTF8},
		{Name: "strings.Trim", Go: strings.Trim},
		{Name: "strings.TrimLeft", Go: strings.TrimLeft},
		{Name: "strings.TrimPrefix", Go: strings.TrimPrefix},
		{Name: "strings.TrimRight", Go: strings.TrimRight},
		{Name: "strings.TrimSpace", Go: strings.TrimSpace},
		{Name: "strings.TrimSuffix", Go: strings.TrimSuffix},
		// strings.Split is a wrapper with an optional separator; docs: an empty text gives an empty array
		{Name: "strings.Split", Go: strings.Split, Gens: []gen{func(rng *rand.Rand, p []any) any {
			for {
				if s := genString(rng, p).(string); s != "" {
					return s
				}
			}
		}, str}},

		// ---- strconv (native) ----
		{Name: "strconv.Atoi", Go: strconv.Atoi, Gens: []gen{withDict(parseDict)}},
		{Name: "strconv.CanBackquote", Go: strconv.CanBackquote},
		{Name: "strconv.FormatBool", Go: strconv.FormatBool},
		{Name: "strconv.FormatComplex", Go: strconv.FormatComplex, Gens: []gen{nil, oneOf(byte('b'), byte('e'), byte('E'), byte('f'), byte('g'), byte('G'), byte('x'), byte('X'), byte('q')), intRange(-1, 25), oneOf(64, 128, 32, 0)}},
		{Name: "strconv.FormatFloat", Go: strconv.FormatFloat, Gens: []gen{nil, oneOf(byte('b'), byte('e'), byte('E'), byte('f'), byte('g'), byte('G'), byte('x'), byte('X'), byte('q'), byte(0)), intRange(-1, 25), oneOf(32, 64, 0, 16)}},
		{Name: "strconv.FormatInt", Go: strconv.FormatInt, Gens: []gen{nil, intRange(0, 38)}},
		{Name: "strconv.FormatUint", Go: strconv.FormatUint, Gens: []gen{nil, intRange(0, 38)}},
		{Name: "strconv.IsGraphic", Go: strconv.IsGraphic},
		{Name: "strconv.IsPrint", Go: strconv.IsPrint},
		{Name: "strconv.Itoa", Go: strconv.Itoa},
		{Name: "strconv.ParseBool", Go: strconv.ParseBool, Gens: []gen{withDict(parseDict)}},
		{Name: "strconv.ParseComplex", Go: strconv.ParseComplex, Gens: []gen{withDict(parseDict), oneOf(64, 128, 0, 32)}},
		{Name: "strconv.ParseFloat", Go: strconv.ParseFloat, Gens: []gen{withDict(parseDict), oneOf(32, 64, 0, 16)}},
		{Name: "strconv.ParseInt", Go: strconv.ParseInt, Gens: []gen{withDict(parseDict), oneOf(0, 2, 8, 10, 16, 36, 1, 37, -1), oneOf(0, 8, 16, 32, 64, 65, -1, 7)}},
		{Name: "strconv.ParseUint", Go: strconv.ParseUint, Gens: []gen{withDict(parseDict), oneOf(0, 2, 8, 10, 16, 36, 1, 37, -1), oneOf(0, 8, 16, 32, 64, 65, -1, 7)}},
		{Name: "strconv.Quote", Go: strconv.Quote},
		{Name: "strconv.QuoteRune", Go: strconv.QuoteRune},
		{Name: "strconv.QuoteRuneToASCII", Go: strconv.QuoteRuneToASCII},
		{Name: "strconv.QuoteRuneToGraphic", Go: strconv.QuoteRuneToGraphic},
		{Name: "strconv.QuoteToASCII", Go: strconv.QuoteToASCII},
		{Name: "strconv.QuoteToGraphic", Go: strconv.QuoteToGraphic},
		{Name: "strconv.Unquote", Go: strconv.Unquote, Gens: []gen{func(rng *rand.Rand, p []any) any {
			switch rng.Intn(3) {
			case 0:
				return unquoteDict[rng.Intn(len(unquoteDict))]
			case 1:
				return strconv.Quote(randString(rng))
			default:
				return genString(rng, p)
			}
		}}},

		// ---- math (native) ----
		{Name: "math.Abs", Go: math.Abs}, {Name: "math.Acos", Go: math.Acos}, {Name: "math.Acosh", Go: math.Acosh}, {Name: "math.Asin", Go: math.Asin},
		{Name: "math.Asinh", Go: math.Asinh}, {Name: "math.Atan", Go: math.Atan}, {Name: "math.Atanh", Go: math.Atanh}, {Name: "math.Cbrt", Go: math.Cbrt},
		{Name: "math.Ceil", Go: math.Ceil}, {Name: "math.Cos", Go: math.Cos}, {Name: "math.Cosh", Go: math.Cosh}, {Name: "math.Erf", Go: math.Erf},
		{Name: "math.Erfc", Go: math.Erfc}, {Name: "math.Erfcinv", Go: math.Erfcinv}, {Name: "math.Erfinv", Go: math.Erfinv}, {Name: "math.Exp2", Go: math.Exp2},
		{Name: "math.Expm1", Go: math.Expm1}, {Name: "math.Floor", Go: math.Floor}, {Name: "math.Gamma", Go: math.Gamma}, {Name: "math.Inf", Go: math.Inf},
		{Name: "math.IsInf", Go: math.IsInf, Gens: []gen{nil, oneOf(0, 1, -1, 5, -7)}}, {Name: "math.IsNaN", Go: math.IsNaN}, {Name: "math.Log", Go: math.Log},
		{Name: "math.Mod", Go: math.Mod}, {Name: "math.NaN", Go: math.NaN}, {Name: "math.Remainder", Go: math.Remainder}, {Name: "math.Round", Go: math.Round},
		{Name: "math.RoundToEven", Go: math.RoundToEven}, {Name: "math.Sin", Go: math.Sin}, {Name: "math.Sinh", Go: math.Sinh}, {Name: "math.Sqrt", Go: math.Sqrt},
		{Name: "math.Tan", Go: math.Tan}, {Name: "math.Tanh", Go: math.Tanh}, {Name: "math.Trunc", Go: math.Trunc},

		// ---- cmplx (native) ----
		{Name: "cmplx.Abs", Go: cmplx.Abs}, {Name: "cmplx.Conj", Go: cmplx.Conj}, {Name: "cmplx.Cos", Go: cmplx.Cos}, {Name: "cmplx.Exp", Go: cmplx.Exp},
		{Name: "cmplx.Inf", Go: cmplx.Inf}, {Name: "cmplx.IsInf", Go: cmplx.IsInf}, {Name: "cmplx.IsNaN", Go: cmplx.IsNaN}, {Name: "cmplx.Log", Go: cmplx.Log},
		{Name: "cmplx.Log10", Go: cmplx.Log10}, {Name: "cmplx.NaN", Go: cmplx.NaN}, {Name: "cmplx.Phase", Go: cmplx.Phase}, {Name: "cmplx.Polar", Go: cmplx.Polar},
		{Name: "cmplx.Pow", Go: cmplx.Pow}, {Name: "cmplx.Rect", Go: cmplx.Rect}, {Name: "cmplx.Sin", Go: cmplx.Sin}, {Name: "cmplx.Sqrt", Go: cmplx.Sqrt},
		{Name: "cmplx.Tan", Go: cmplx.Tan},

		// ---- filepath (native; the sandbox is off, so the path parameters pass through unchanged) ----
		{Name: "filepath.Abs", Go: filepath.Abs, Gens: []gen{genPath}},
		{Name: "filepath.Base", Go: filepath.Base, Gens: []gen{genPath}},
		{Name: "filepath.Clean", Go: filepath.Clean, Gens: []gen{genPath}},
		{Name: "filepath.Dir", Go: filepath.Dir, Gens: []gen{genPath}},
		{Name: "filepath.Ext", Go: filepath.Ext, Gens: []gen{genPath}},
		{Name: "filepath.Join/1", Go: filepath.Join, NArgs: 1, Snippet: "r0 := filepath.Join(a0)", NRet: 1, Gens: []gen{genPath}},
		{Name: "filepath.Join/2", Go: filepath.Join, NArgs: 2, Snippet: "r0 := filepath.Join(a0, a1)", NRet: 1, Gens: []gen{genPath, genPath}},
		{Name: "filepath.Join/3", Go: filepath.Join, NArgs: 3, Snippet: "r0 := filepath.Join(a0, a1, a2)", NRet: 1, Gens: []gen{genPath, genPath, genPath}},
		{Name: "filepath.Join/0", Go: filepath.Join, NArgs: 0, Snippet: "r0 := filepath.Join()", NRet: 1},
	}

	rows = append(rows, customRows()...)

	return rows
}

var pathParts = []string{"", ".", "..", "/", "//", "a", "b.txt", "c.tar.gz", ".hidden", "dir/", "/abs", "a/b", "../x", "./y", "a//b", "a/./b", "a/../b", "é", "sp ace", "...", "a.", ".a.", "\x00", "~"}

func genPath(rng *rand.Rand, _ []any) any {
	n := rng.Intn(5)

	var b strings.Builder

	if rng.Intn(4) == 0 {
		b.WriteString("/")
	}

	for i := 0; i < n; i++ {
		b.WriteString(pathParts[rng.Intn(len(pathParts))])

		if rng.Intn(3) > 0 {
			b.WriteString("/")
		}
	}

	return b.String()
}
