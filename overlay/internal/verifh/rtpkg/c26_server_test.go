package rtpkg

// C26 part "server": the same cells through the dashboard endpoint admin.RunCodeHandler
// (POST /admin/run) as a non-admin session, which runs the code with Sandboxed(true).
// The handler is called directly with an httptest recorder; no server fixture is needed.

import (
	"encoding/json"
	"fmt"
	"net/http"
	"net/http/httptest"
	"os"
	"path/filepath"
	"strings"
	"testing"

	"github.com/tucats/ego/internal/cli/settings"
	"github.com/tucats/ego/internal/defs"
	"github.com/tucats/ego/internal/router"
	"github.com/tucats/ego/internal/server/admin"
	"github.com/tucats/ego/internal/verifh/egorun"
	"github.com/tucats/ego/internal/verifh/vh"
)

var serverSeq int

// serverRunner posts prog to the run-code handler as a non-admin user.
func serverRunner(l *layout, prog string) (string, bool) {
	old, _ := os.Getwd()
	defer os.Chdir(old)

	if err := os.Chdir(l.cwd); err != nil {
		return "chdir: " + err.Error(), false
	}

	settings.SetDefault(defs.SandboxPathSetting, l.setting)

	defer restoreEnv("TMPDIR", "HOME")()
	os.Setenv("TMPDIR", l.tmpdir)
	os.Setenv("HOME", l.home)

	serverSeq++

	body, _ := json.Marshal(map[string]any{"code": prog + "\nmain()\n", "session": "6f1c1d5e-3c1b-4b8e-9d53-0a4f4a1e7c26"})
	req := httptest.NewRequest(http.MethodPost, "/admin/run", strings.NewReader(string(body)))
	rec := httptest.NewRecorder()
	sess := &router.Session{ID: serverSeq, User: "guest", Admin: false, Authenticated: true}

	status := admin.RunCodeHandler(sess, rec, req)

	var resp struct {
		Output string `json:"output"`
		Error  string `json:"error"`
	}

	_ = json.Unmarshal(rec.Body.Bytes(), &resp)
	out := resp.Output + "\nERR:" + resp.Error

	if status != http.StatusOK {
		out += fmt.Sprintf("\nSTATUS:%d %s", status, vh.Trunc(rec.Body.String(), 200))
	}

	if wd, err := os.Getwd(); err == nil {
		rr, _ := filepath.EvalSymlinks(l.root)
		if w2, err := filepath.EvalSymlinks(wd); err == nil && w2 != l.cwd && !within(w2, rr) {
			out += "\nCWD-ESCAPED:" + w2
		}
	}

	return out, status == http.StatusOK && !strings.Contains(resp.Error, "compile")
}

func TestC26Server(t *testing.T) {
	r := vh.New("C26", "server")
	r.Rule = "case = (function, spelling class, layout) sent as code to admin.RunCodeHandler with a non-admin session; distinct by that tuple; non-trivial = the spelling aims outside the root"
	r.Assume("the handler is called directly (no router, no authentication step); the session object says Admin=false")

	if c := vh.ReplayCase(); c != nil && !strings.Contains(string(c), `"runner": "server"`) && !strings.Contains(string(c), `"runner":"server"`) {
		r.Note("replay case belongs to another part")
		_ = r.Write()

		return
	}

	egorun.Init()
	egorun.Run("func main() {}", egorun.Config{})

	arena := arenaDir(t, "server")
	rng := vh.Rand("c26-server")
	sel, _ := enumerateFileFunctions()
	nLayouts := vh.N(1, 4)

	var layouts, plain []pair
	for i := 0; i < nLayouts; i++ {
		layouts = append(layouts, newPair(arena, i, "c26-layout", false))
		plain = append(plain, newPair(filepath.Join(arena, "plain"), i, "c26-layout", true))
	}

	if c := vh.ReplayCase(); c != nil {
		var rc c26Case
		if err := json.Unmarshal(c, &rc); err != nil {
			t.Fatal(err)
		}

		set := layouts
		if rc.NoLinks {
			set = plain
		}

		p := set[rc.Layout%len(set)]
		v := judge(p, serverRunner, strings.ReplaceAll(rc.Prog, "$TOP", p.a.top), false)
		r.Eval("replay", true)

		if len(v.reasons) > 0 {
			r.Violate(vh.Violation{Key: c26Key(rc.Fn, rc.Sp.Class, rc.Shape), Desc: strings.Join(v.reasons, " | "), Case: rc, Observed: vh.Trunc(v.outA, 600)})
		}

		_ = r.Write()

		return
	}

	okSeen := 0

	for _, e := range sel {
		for _, tpl := range templatesFor(e) {
			for li := range layouts {
				p := layouts[li]
				if tpl.CrashyWithLinks {
					p = plain[li]
				}

				for _, sp := range p.a.spellings(tpl.Kinds[0], rng, 0, tpl.TwoArg) {
					if tpl.CrashyWithLinks && isSymlinkClass(sp.Class) {
						continue
					}

					body := tpl.Body(q(sp.Path), "")
					if sp.Class == "split-arg" {
						body = tpl.Body(q(sp.Path), q(sp.Arg2))
					}

					prog := render(body, "direct")
					v := judge(p, serverRunner, prog, tpl.Unstable)
					id := fmt.Sprintf("%s|%s|%s|L%d", tpl.Name, sp.Class, strings.ReplaceAll(sp.Path, p.a.top, "$TOP"), li)

					r.Eval(id, !sp.Control)
					r.Count("requests", 2)

					if os.Getenv("C26_DEBUG") != "" && tpl.Name == "os.ReadFile" && sp.Control {
						fmt.Println("SERVER-OUT", v.outA)
					}

					if v.compileErr {
						r.Count("not_ok_responses", 1)

						if r.Counters["not_ok_responses"] <= 2 {
							r.Inconcl("handler did not run the program: " + vh.Trunc(v.outA, 300))
						}
					}

					if sp.Control && v.worked {
						okSeen++
						r.Count("controls.function_succeeded_inside", 1)
					}

					if len(v.reasons) == 0 {
						continue
					}

					cs := c26Case{Fn: tpl.Name, Kind: tpl.Kinds[0], Sp: sp, Layout: li, Shape: "direct", Prog: strings.ReplaceAll(prog, p.a.top, "$TOP"), Runner: "server", NoLinks: tpl.CrashyWithLinks}
					cs.Sp.Path = strings.ReplaceAll(sp.Path, p.a.top, "$TOP")
					r.Violate(vh.Violation{Key: c26Key(tpl.Name, sp.Class, "direct"), Desc: "via POST /admin/run as non-admin: " + strings.Join(v.reasons, " | "), Case: cs,
						Expected: "no effect on, and no information from, anything outside the sandbox root", Observed: vh.Trunc(v.outA, 400) + " /// variant B: " + vh.Trunc(v.outB, 300)})
				}
			}
		}
	}

	if okSeen == 0 {
		_ = r.Write()
		t.Fatal("observed nothing: no program ran successfully through the handler")
	}

	if err := r.Write(); err != nil {
		t.Fatal(err)
	}
}
