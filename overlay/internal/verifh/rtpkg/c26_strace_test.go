package rtpkg

// C26 part "strace": real `ego run --sandbox=true` processes under
// `strace -f -y -e trace=%file,fchdir`. Every path argument the process hands to the
// kernel after the program's first marker is resolved (working directory tracked through
// chdir/fchdir, directory file descriptors decoded by -y, symbolic links followed with a
// model of the layout that tracks unlink/rename) and judged against the arena:
// a path that lies in the arena but outside the sandbox root and outside the process's own
// HOME (configuration, library, source file) is a violation, attributed to the cell
// (function x spelling class) whose marker precedes it.
//
// Not a violation: lstat/readlink-style probes that do not follow the final component.
// They are how filepath.EvalSymlinks and os.Lstat walk a path; the sandbox helper has to
// look at a link to learn that it leaves the root. They are counted. Whether what they learn
// reaches the program is decided by the non-interference oracle of the in-process part.

import (
	"bufio"
	"bytes"
	"encoding/json"
	"fmt"
	"os"
	"os/exec"
	"path/filepath"
	"regexp"
	"strconv"
	"strings"
	"sync"
	"testing"
	"time"

	"github.com/tucats/ego/internal/verifh/egorun"
	"github.com/tucats/ego/internal/verifh/vh"
)

type sysEvent struct {
	pid  string
	name string
	args []string
	ret  string // text after ") = "
	raw  string
}

var (
	reLine    = regexp.MustCompile(`^(\d+)\s+(.*)$`)
	reCall    = regexp.MustCompile(`^([a-z_0-9]+)\((.*)$`)
	reResumed = regexp.MustCompile(`^<\.\.\. ([a-z_0-9]+) resumed>(.*)$`)
	reRet     = regexp.MustCompile(`\)\s+= `)
	reFD      = regexp.MustCompile(`^(?:-?\d+|AT_FDCWD)<(.*)>$`)
)

// parseStrace turns a strace -f -o log into events, joining unfinished/resumed pairs.
func parseStrace(log []byte) (evs []sysEvent, unparsed int) {
	pending := map[string]string{}
	sc := bufio.NewScanner(bytes.NewReader(log))
	sc.Buffer(make([]byte, 1<<20), 1<<24)

	for sc.Scan() {
		m := reLine.FindStringSubmatch(sc.Text())
		if m == nil {
			unparsed++

			if straceDebug {
				fmt.Println("UNPARSED-LINE", sc.Text())
			}

			continue
		}

		pid, rest := m[1], m[2]

		if strings.HasPrefix(rest, "+++") || strings.HasPrefix(rest, "---") {
			continue
		}

		if strings.HasSuffix(rest, "<unfinished ...>") {
			pending[pid] = strings.TrimSuffix(rest, "<unfinished ...>")

			continue
		}

		if r := reResumed.FindStringSubmatch(rest); r != nil {
			rest = pending[pid] + r[2]
			delete(pending, pid)
		}

		c := reCall.FindStringSubmatch(rest)
		if c == nil {
			unparsed++

			if straceDebug {
				fmt.Println("UNPARSED", rest)
			}

			continue
		}

		body := c[2]
		ret := ""

		if loc := reRet.FindAllStringIndex(body, -1); len(loc) > 0 {
			last := loc[len(loc)-1]
			ret = body[last[1]:]
			body = body[:last[0]]
		} else {
			unparsed++

			if straceDebug {
				fmt.Println("UNPARSED-NORET", rest)
			}

			continue
		}

		evs = append(evs, sysEvent{pid: pid, name: c[1], args: splitArgs(body), ret: ret, raw: rest})
	}

	return evs, unparsed
}

// splitArgs splits a syscall argument list at top-level commas.
func splitArgs(s string) []string {
	var (
		out   []string
		depth int
		inStr bool
		cur   strings.Builder
	)

	for i := 0; i < len(s); i++ {
		ch := s[i]

		switch {
		case inStr:
			cur.WriteByte(ch)

			if ch == '\\' && i+1 < len(s) {
				i++
				cur.WriteByte(s[i])
			} else if ch == '"' {
				inStr = false
			}
		case ch == '"':
			inStr = true

			cur.WriteByte(ch)
		case ch == '[' || ch == '{' || ch == '(':
			depth++

			cur.WriteByte(ch)
		case ch == ']' || ch == '}' || ch == ')':
			depth--

			cur.WriteByte(ch)
		case ch == ',' && depth == 0:
			out = append(out, strings.TrimSpace(cur.String()))
			cur.Reset()
		default:
			cur.WriteByte(ch)
		}
	}

	if cur.Len() > 0 {
		out = append(out, strings.TrimSpace(cur.String()))
	}

	return out
}

func unquote(a string) (string, bool) {
	a = strings.TrimSuffix(a, "...")
	if len(a) < 2 || a[0] != '"' {
		return "", false
	}

	if s, err := strconv.Unquote(a); err == nil {
		return s, true
	}

	return "", false
}

// pathSpec: pairs of (dirfd argument index or -1, path argument index)
var pathSpec = map[string][][2]int{
	"open": {{-1, 0}}, "creat": {{-1, 0}}, "stat": {{-1, 0}}, "lstat": {{-1, 0}}, "access": {{-1, 0}}, "chdir": {{-1, 0}},
	"mkdir": {{-1, 0}}, "rmdir": {{-1, 0}}, "unlink": {{-1, 0}}, "readlink": {{-1, 0}}, "chmod": {{-1, 0}}, "chown": {{-1, 0}},
	"lchown": {{-1, 0}}, "truncate": {{-1, 0}}, "execve": {{-1, 0}}, "utime": {{-1, 0}}, "utimes": {{-1, 0}}, "statfs": {{-1, 0}},
	"chroot": {{-1, 0}}, "mknod": {{-1, 0}}, "getxattr": {{-1, 0}}, "lgetxattr": {{-1, 0}}, "setxattr": {{-1, 0}}, "listxattr": {{-1, 0}},
	"rename": {{-1, 0}, {-1, 1}}, "link": {{-1, 0}, {-1, 1}}, "symlink": {{-1, 1}},
	"openat": {{0, 1}}, "openat2": {{0, 1}}, "newfstatat": {{0, 1}}, "fstatat64": {{0, 1}}, "statx": {{0, 1}}, "faccessat": {{0, 1}},
	"faccessat2": {{0, 1}}, "mkdirat": {{0, 1}}, "unlinkat": {{0, 1}}, "readlinkat": {{0, 1}}, "fchmodat": {{0, 1}}, "fchmodat2": {{0, 1}},
	"fchownat": {{0, 1}}, "utimensat": {{0, 1}}, "mknodat": {{0, 1}}, "execveat": {{0, 1}}, "name_to_handle_at": {{0, 1}},
	"renameat": {{0, 1}, {2, 3}}, "renameat2": {{0, 1}, {2, 3}}, "linkat": {{0, 1}, {2, 3}}, "symlinkat": {{1, 2}},
	"inotify_add_watch": {{-1, 1}},
}

// fsModel resolves paths the way the kernel would, knowing the symbolic links of the layout.
type fsModel struct {
	links map[string]string
	cwd   string
}

func (m *fsModel) resolve(p string, followLast bool) (string, bool) {
	if !filepath.IsAbs(p) {
		p = m.cwd + "/" + p
	}

	comps := strings.Split(p, "/")
	cur := "/"
	hops := 0

	for i := 0; i < len(comps); i++ {
		c := comps[i]

		switch c {
		case "", ".":
			continue
		case "..":
			cur = filepath.Dir(cur)

			continue
		}

		next := filepath.Join(cur, c)
		last := true

		for _, r := range comps[i+1:] {
			if r != "" && r != "." {
				last = false
			}
		}

		if t, ok := m.links[next]; ok && (!last || followLast) {
			hops++
			if hops > 40 {
				return "", false
			}

			rest := append(strings.Split(t, "/"), comps[i+1:]...)
			if filepath.IsAbs(t) {
				cur = "/"
			}

			comps = rest
			i = -1

			continue
		}

		cur = next
	}

	return cur, true
}

type straceFinding struct {
	cell    int
	syscall string
	path    string
	resolve string
	raw     string
}

// judgeTrace walks the events. It returns findings per cell (index by marker), the number of
// no-follow probes outside, events seen after the first marker, and notes.
var straceDebug = os.Getenv("C26_DEBUG") != ""

func judgeTrace(l *layout, evs []sysEvent, src string) (found []straceFinding, probes, judged, startupOutside, unknown, inArenaOK int) {
	m := &fsModel{links: map[string]string{}, cwd: l.cwd}
	for k, v := range l.links {
		m.links[k] = v
	}

	cell := -1
	realRoot := l.root

	// the configured sandbox path may itself be a link (or run through one): a no-follow syscall on a path that is
	// clamped to the root then names that link. It is the root, not something outside it -- unless the call removes or renames it.
	cfgRoot, _ := m.resolve(strings.TrimSuffix(l.setting, "/"), false)
	inArena := func(p string) bool { return within(p, l.top) }
	allowed := func(p string) bool { return within(p, realRoot) || within(p, l.home) || p == src }

	for _, e := range evs {
		ok := !strings.HasPrefix(e.ret, "-1")

		if e.name == "fchdir" {
			if len(e.args) > 0 && ok {
				if f := reFD.FindStringSubmatch(e.args[0]); f != nil {
					m.cwd = f[1]
				}
			}

			continue
		}

		spec, known := pathSpec[e.name]
		if !known {
			unknown++

			if straceDebug {
				fmt.Println("UNKNOWN-SYSCALL", e.raw)
			}

			continue
		}

		flags := strings.Join(e.args, ",")
		nofollowSyscall := map[string]bool{"lstat": true, "readlink": true, "readlinkat": true, "unlink": true, "unlinkat": true, "rmdir": true,
			"rename": true, "renameat": true, "renameat2": true, "mkdir": true, "mkdirat": true, "symlink": true, "symlinkat": true, "lchown": true,
			"lgetxattr": true, "link": true, "linkat": true, "mknod": true, "mknodat": true}[e.name]
		nofollow := nofollowSyscall || strings.Contains(flags, "AT_SYMLINK_NOFOLLOW") || strings.Contains(flags, "O_NOFOLLOW") ||
			(strings.Contains(flags, "O_CREAT") && strings.Contains(flags, "O_EXCL"))
		probe := e.name == "lstat" || e.name == "readlink" || e.name == "readlinkat" ||
			((e.name == "newfstatat" || e.name == "statx" || e.name == "fstatat64") && strings.Contains(flags, "AT_SYMLINK_NOFOLLOW"))

		for _, sp := range spec {
			if sp[1] >= len(e.args) {
				continue
			}

			p, isStr := unquote(e.args[sp[1]])
			if !isStr {
				continue
			}

			saveCwd := m.cwd

			if sp[0] >= 0 && sp[0] < len(e.args) {
				if f := reFD.FindStringSubmatch(e.args[sp[0]]); f != nil {
					m.cwd = f[1]
				}
			}

			if p == "" && strings.Contains(flags, "AT_EMPTY_PATH") {
				p = "."
			}

			res, rok := m.resolve(p, !nofollow)
			m.cwd = saveCwd

			// the kernel's own answer for a successful open
			if ok && (e.name == "openat" || e.name == "open" || e.name == "creat" || e.name == "openat2") {
				if f := reFD.FindStringSubmatch(strings.TrimSpace(e.ret)); f != nil {
					res, rok = strings.TrimSuffix(f[1], " (deleted)"), true
				}
			}

			if !rok {
				continue
			}

			// markers
			if base := filepath.Base(res); strings.HasPrefix(base, "zzMARK") && within(res, realRoot) {
				if n, err := strconv.Atoi(strings.TrimPrefix(base, "zzMARK")); err == nil {
					cell = n
				}

				continue
			}

			// keep the model in step with what the process removed
			if ok && (e.name == "unlink" || e.name == "unlinkat" || e.name == "rmdir" || strings.HasPrefix(e.name, "rename")) {
				delete(m.links, res)
			}

			if ok && e.name == "chdir" {
				m.cwd = res
			}

			destructive := strings.HasPrefix(e.name, "unlink") || strings.HasPrefix(e.name, "rename") || e.name == "rmdir" || strings.HasPrefix(e.name, "symlink") || strings.HasPrefix(e.name, "link")
			if res == cfgRoot && !destructive {
				res = realRoot
			}

			if !inArena(res) || allowed(res) {
				if cell >= 0 {
					judged++

					if inArena(res) {
						inArenaOK++
					}
				}

				continue
			}

			if cell < 0 {
				startupOutside++

				if straceDebug {
					fmt.Println("STARTUP-OUTSIDE", res, "<=", e.raw)
				}

				continue
			}

			judged++

			if probe {
				probes++

				continue
			}

			found = append(found, straceFinding{cell: cell, syscall: e.name, path: p, resolve: res, raw: e.raw})
		}
	}

	return found, probes, judged, startupOutside, unknown, inArenaOK
}

type straceCell struct {
	Fn    string   `json:"fn"`
	Kind  string   `json:"kind"`
	Sp    spelling `json:"spelling"`
	Body  string   `json:"body"`
	Class string   `json:"class"`
}

func straceProgram(cells []straceCell) string {
	var b strings.Builder

	b.WriteString("import (\"fmt\"; \"os\"; \"io\"; \"json\"; \"filepath\"; \"exec\"; \"sql\")\n")
	b.WriteString("func mark(i int) {\n s, e := os.Stat(fmt.Sprintf(\"zzMARK%d\", i))\n if e == nil { fmt.Println(s) }\n}\n")

	for i, c := range cells {
		fmt.Fprintf(&b, "func cell%d() {\n%s\n}\n", i, c.Body)
	}

	b.WriteString("func main() {\n")

	for i := range cells {
		fmt.Fprintf(&b, "mark(%d)\ntry {\ncell%d()\n} catch (e) {\nfmt.Println(\"E%d\", e)\n}\n", i, i, i)
	}

	fmt.Fprintf(&b, "mark(%d)\n}\n", len(cells))

	return b.String()
}

type tracedRun struct {
	err                                        string // harness-level failure (inconclusive)
	stdout                                     string
	evs                                        int
	unparsed, unknown, judged, probes, startup int
	inArenaOK                                  int
	markers                                    int
	found                                      map[int][]straceFinding
	changed, leaked                            []string
}

// runTraced runs prog (cells separated by markers) as a real sandboxed ego process under strace.
func runTraced(l *layout, bin *binRunner, prog, tag string) tracedRun {
	var tr tracedRun

	l.ensure()

	if err := bin.configure(l); err != nil {
		tr.err = "ego config failed: " + err.Error()

		return tr
	}

	src := filepath.Join(l.home, "prog"+tag+".ego")
	logp := filepath.Join(l.home, "trace"+tag+".log")
	must(os.WriteFile(src, []byte(prog), 0o644))

	defer os.Remove(src)
	defer os.Remove(logp)

	c := exec.Command("strace", "-f", "--seccomp-bpf", "-y", "-s", "512", "-e", "trace=%file,fchdir", "-o", logp, bin.bin, "run", "--sandbox=true", src)
	c.Env = bin.env(l)
	c.Dir = l.cwd

	var so bytes.Buffer

	c.Stdout, c.Stderr = &so, &so
	done := make(chan error, 1)

	if err := c.Start(); err != nil {
		tr.err = "strace start: " + err.Error()

		return tr
	}

	go func() { done <- c.Wait() }()

	select {
	case <-done:
	case <-time.After(300 * time.Second): // watchdog only
		_ = c.Process.Kill()
		tr.err = "strace run " + tag + " hit the watchdog"

		return tr
	}

	logb, err := os.ReadFile(logp)
	if err != nil {
		tr.err = "no strace log: " + err.Error()

		return tr
	}

	evs, unparsed := parseStrace(logb)
	found, probes, judged, startup, unknown, inOK := judgeTrace(l, evs, src)

	tr.stdout = so.String()
	tr.evs, tr.unparsed, tr.unknown, tr.judged, tr.probes, tr.startup, tr.inArenaOK = len(evs), unparsed, unknown, judged, probes, startup, inOK
	tr.changed = l.observe()
	tr.leaked = l.variant(l.vid).leaked(tr.stdout)
	tr.found = map[int][]straceFinding{}

	for _, f := range found {
		tr.found[f.cell] = append(tr.found[f.cell], f)
	}

	for _, e := range evs {
		if strings.Contains(e.raw, "zzMARK") {
			tr.markers++
		}
	}

	return tr
}

func straceViolation(l *layout, cl straceCell, fs []straceFinding) vh.Violation {
	var desc []string
	for _, f := range fs {
		desc = append(desc, fmt.Sprintf("%s(%q) -> %s", f.syscall, strings.ReplaceAll(f.path, l.top, "$TOP"), strings.ReplaceAll(f.resolve, l.top, "$TOP")))
	}

	if len(desc) > 6 {
		desc = append(desc[:6], fmt.Sprintf("... %d more", len(desc)-6))
	}

	cs := c26Case{Fn: cl.Fn, Kind: cl.Kind, Sp: cl.Sp, Layout: l.idx, Shape: "direct", Runner: "strace", Prog: strings.ReplaceAll(cl.Body, l.top, "$TOP")}
	cs.Sp.Path = strings.ReplaceAll(cl.Sp.Path, l.top, "$TOP")

	return vh.Violation{Key: c26Key(cl.Fn, cl.Class, "direct"), Desc: "kernel-level: the ego process passed a path outside the sandbox root to " + strings.Join(desc, "; "),
		Case: cs, Expected: "every path under $TOP resolves below $TOP/a/b/root or the process's HOME", Observed: strings.ReplaceAll(fs[0].raw, l.top, "$TOP")}
}

func TestC26Strace(t *testing.T) {
	r := vh.New("C26", "strace")
	r.Rule = "case = one real `ego run --sandbox=true` process under strace running several (function, spelling) cells separated by markers; " +
		"distinct by (function, class, spelling, layout); non-trivial = the spelling aims outside the root; judged = file-syscall path arguments after the first marker"
	r.Assume("strace -f -y reports every path-taking syscall of the process and decodes directory file descriptors correctly")
	r.Assume("no-follow metadata probes (lstat/readlink) on outside paths are the containment check looking at a link, not an access on behalf of the program")

	if c := vh.ReplayCase(); c != nil && !strings.Contains(string(c), `"runner": "strace"`) && !strings.Contains(string(c), `"runner":"strace"`) {
		r.Note("replay case belongs to another part")
		_ = r.Write()

		return
	}

	if _, err := exec.LookPath("strace"); err != nil {
		r.Inconcl("strace is not installed")
		_ = r.Write()
		t.Fatal("strace missing: observed nothing")
	}

	bin := newBinRunner()
	if bin == nil {
		r.Inconcl("no ego binary in $VERIF_BIN")
		_ = r.Write()
		t.Fatal("ego binary missing: observed nothing")
	}

	egorun.Init()
	// load the declaration tables
	egorun.Run("func main() {}", egorun.Config{})

	arena := arenaDir(t, "strace")
	mkLayouts := func(w int) []*layout {
		var ls []*layout
		for li := 0; li < 3; li++ {
			ls = append(ls, newLayout(filepath.Join(arena, fmt.Sprintf("w%d", w)), li, vh.Rand(fmt.Sprintf("c26-layout-L%d", li)), vh.Seed(), "A"))
		}

		return ls
	}

	if c := vh.ReplayCase(); c != nil {
		var rc c26Case
		if err := json.Unmarshal(c, &rc); err != nil {
			t.Fatal(err)
		}

		l := mkLayouts(0)[rc.Layout%3]
		cl := straceCell{Fn: rc.Fn, Kind: rc.Kind, Sp: rc.Sp, Class: rc.Sp.Class, Body: strings.ReplaceAll(rc.Prog, "$TOP", l.top)}
		cl.Sp.Path = strings.ReplaceAll(cl.Sp.Path, "$TOP", l.top)
		tr := runTraced(l, bin, straceProgram([]straceCell{cl}), "replay")
		r.Eval("replay", true)

		if tr.err != "" {
			r.Inconcl(tr.err)
		}

		if fs := tr.found[0]; len(fs) > 0 {
			r.Violate(straceViolation(l, cl, fs))
		}

		_ = r.Write()

		return
	}

	sel, _ := enumerateFileFunctions()

	var tpls []fnTemplate

	for _, e := range sel {
		tpls = append(tpls, templatesFor(e)...)
	}

	if len(tpls) < 10 {
		t.Fatalf("only %d templates", len(tpls))
	}

	nRuns := vh.N(40, 1000)
	nWorkers := 6
	cellsPerRun := 8
	known := vh.KnownKeys("C26")

	var (
		mu sync.Mutex
		wg sync.WaitGroup
	)

	jobs := make(chan int)

	worker := func(w int) {
		defer wg.Done()

		layouts := mkLayouts(w)

		for i := range jobs {
			rng := vh.Rand(fmt.Sprintf("c26-strace-%d", i))
			l := layouts[i%len(layouts)]

			var cells []straceCell

			for len(cells) < cellsPerRun {
				tp := tpls[rng.Intn(len(tpls))]
				kind := tp.Kinds[rng.Intn(len(tp.Kinds))]
				sps := l.spellings(kind, rng, 0, tp.TwoArg)
				sp := sps[rng.Intn(len(sps))]

				if tp.CrashyWithLinks && sp.Class != "split-arg" {
					continue // would kill the process (see the template) and with it the other cells
				}

				body := tp.Body(q(sp.Path), "")
				if sp.Class == "split-arg" {
					body = tp.Body(q(sp.Path), q(sp.Arg2))
				}

				cells = append(cells, straceCell{Fn: tp.Name, Kind: kind, Sp: sp, Body: body, Class: sp.Class})
			}

			prog := straceProgram(cells)
			tr := runTraced(l, bin, prog, fmt.Sprint(i))

			mu.Lock()

			if tr.err != "" {
				r.Inconcl(tr.err)
				mu.Unlock()

				continue
			}

			r.Count("processes", 1)
			r.Count("syscalls.parsed", int64(tr.evs))
			r.Count("syscalls.unparsed_lines", int64(tr.unparsed))
			r.Count("syscalls.unknown_name", int64(tr.unknown))
			r.Count("paths.judged_after_first_marker", int64(tr.judged))
			r.Count("paths.in_arena_inside_root_or_home", int64(tr.inArenaOK))
			r.Count("paths.nofollow_probes_outside", int64(tr.probes))
			r.Count("paths.startup_outside_root", int64(tr.startup))
			r.Count("markers.seen", int64(tr.markers))

			if crashed(tr.stdout) {
				r.Count("interpreter_crashes", 1)
				r.Inconcl(fmt.Sprintf("strace run %d: the ego process died with a Go fatal error (%s)", i, firstLine(tr.stdout, "fatal error:")))
			}

			if tr.markers < len(cells)+1 {
				r.Inconcl(fmt.Sprintf("strace run %d: only %d of %d markers reached the kernel (program output: %s)", i, tr.markers, len(cells)+1, vh.Trunc(tr.stdout, 300)))
			}

			nfound := 0

			for ci, cl := range cells {
				id := fmt.Sprintf("%s|%s|%s|%s|L%d", cl.Fn, cl.Class, strings.ReplaceAll(cl.Sp.Path, l.top, "$TOP"), cl.Sp.Arg2, l.idx)
				r.Eval(id, !cl.Sp.Control)
				r.Count("cells", 1)

				fs := tr.found[ci]
				if len(fs) == 0 {
					continue
				}

				nfound++

				v := straceViolation(l, cl, fs)
				if known[v.Key] {
					r.Count("known_cells_seen", 1)
				}

				r.Violate(v)
			}

			if nfound == 0 && (len(tr.changed) > 0 || len(tr.leaked) > 0) {
				r.Inconcl(fmt.Sprintf("strace run %d: outside changed (%v) or canary printed (%v) but no syscall was flagged — the path monitor missed an access", i, tr.changed, tr.leaked))
			}

			if len(tr.changed) > 0 {
				r.Count("runs.outside_modified", 1)
			}

			if len(tr.leaked) > 0 {
				r.Count("runs.canary_printed", 1)
			}

			if i == 0 {
				r.Sample(map[string]any{"program": vh.Trunc(strings.ReplaceAll(prog, l.top, "$TOP"), 1500), "syscalls": tr.evs, "judged": tr.judged})
			}

			mu.Unlock()
		}
	}

	for w := 0; w < nWorkers; w++ {
		wg.Add(1)

		go worker(w)
	}

	for i := 0; i < nRuns; i++ {
		jobs <- i
	}

	close(jobs)
	wg.Wait()

	if r.Counters["paths.judged_after_first_marker"] == 0 {
		_ = r.Write()
		t.Fatal("observed nothing: no path was judged")
	}

	if err := r.Write(); err != nil {
		t.Fatal(err)
	}
}
