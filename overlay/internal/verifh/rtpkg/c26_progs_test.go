package rtpkg

// C26 programs: one Ego program per (file-touching runtime function x path spelling).
// Functions are enumerated from the packages' own declaration tables at run time;
// a hand-written template says how to make the function disclose what it did
// (read back, list, stat, follow-up read after chdir, write after create...).
// A function found in the tables for which no template exists gets a generic call.

import (
	"fmt"
	"math/rand"
	"path/filepath"
	"regexp"
	"sort"
	"strconv"
	"strings"

	"github.com/tucats/ego/internal/language/data"
	"github.com/tucats/ego/internal/packages"
)

// target kinds: what the spelled path is meant to reach outside the root
const (
	kJSON   = "file-json" // outside/secret.json   (inside twin: in.json)
	kTxt    = "file-txt"  // outside/secret.txt    (in.txt)
	kDir    = "dir"       // outside/dir           (sub)
	kNew    = "new"       // outside/new.json, must not exist (newin.json)
	kNewDir = "newdir"    // outside/newdir        (newindir)
	kExe    = "exe"       // outside/run.sh        (run.sh)
)

var outsideName = map[string]string{kJSON: "secret.json", kTxt: "secret.txt", kDir: "dir", kNew: "new.json", kNewDir: "newdir", kExe: "run.sh"}
var insideName = map[string]string{kJSON: "in.json", kTxt: "in.txt", kDir: "sub", kNew: "newin.json", kNewDir: "newindir", kExe: "run.sh"}

type spelling struct {
	Class   string `json:"class"`
	Path    string `json:"path"`
	Arg2    string `json:"arg2,omitempty"` // split-arg class: the second string parameter
	Control bool   `json:"control"`        // stays inside the root by construction
}

// spellings returns the canonical spelling of every class that applies to kind,
// then PRNG variants until n are produced. Every returned path is safe().
func (l *layout) spellings(kind string, rng *rand.Rand, n int, twoArg bool) []spelling {
	T, I := outsideName[kind], insideName[kind]
	relOut, _ := filepath.Rel(l.root, l.outside) // "../outside"
	relEvil, _ := filepath.Rel(l.root, l.evil)
	cwdOut, _ := filepath.Rel(l.cwd, filepath.Join(l.outside, T))
	isDirKind := kind == kDir || kind == kNewDir
	// every separator doubled, except inside the instance prefix (which is rewritten for variant B and in the outputs)
	dbl := func(p string) string {
		if strings.HasPrefix(p, l.top) {
			return l.top + strings.ReplaceAll(strings.TrimPrefix(p, l.top), "/", "//")
		}

		return strings.ReplaceAll(p, "/", "//")
	}

	type cls struct {
		name    string
		control bool
		paths   []string
	}

	viaLin := map[string]string{kJSON: l.lin + "/deep.json", kTxt: l.lin + "/deep.txt", kNew: l.lin + "/newdeep.json",
		kNewDir: l.lin + "/newdeepdir", kExe: l.lin + "/../run.sh", kDir: l.lin}[kind]
	dotdot := []string{relOut + "/" + T, "sub/../" + relOut + "/" + T, "./" + relOut + "/" + T, "emptyin/../sub/../../outside/" + T, cwdOut}

	classes := []cls{
		{"relative", true, []string{I, "./" + I, "sub/../" + I, "emptyin/.././" + I}},
		{"absolute-inside", true, []string{filepath.Join(l.root, I), l.root + "/./" + I, l.root + "//" + I}},
		{"absolute-outside", false, []string{filepath.Join(l.outside, T), l.base + "/./outside/" + T}},
		{"relative-dotdot", false, dotdot},
		{"inside-dotdot-out", false, []string{l.root + "/../outside/" + T, l.root + "/sub/../../outside/" + T, l.root + "/./../outside/" + T}},
		{"repeated-sep", false, []string{"..//outside//" + T, dbl(filepath.Join(l.outside, T)), "/" + filepath.Join(l.outside, T), "..///outside/" + T}},
		{"trailing-sep", false, []string{relOut + "/" + T + "/", filepath.Join(l.outside, T) + "/", relOut + "/" + T + "/.", filepath.Join(l.outside, T) + "//"}},
		{"sibling-prefix", false, []string{filepath.Join(l.evil, T), relEvil + "/" + T, l.root + "-evil/" + T}},
		{"symlink-rel-dir", false, []string{l.lrel + "/" + T, "./" + l.lrel + "/" + T, l.lrel + "//" + T, filepath.Join(l.root, l.lrel, T)}},
		{"symlink-abs-dir", false, []string{l.labs + "/" + T, filepath.Join(l.root, l.labs, T), l.labs + "/./" + T}},
		{"symlink-chain", false, []string{l.chain0 + "/" + T, filepath.Join(l.root, l.chain0, T), l.chain0 + "/../outside/" + T}},
		{"symlink-inside", true, []string{viaLin}},
		{"symlink-dangling-inside", true, []string{l.ldang}},
		{"symlink-loop", true, []string{l.loop, l.loop + "/x"}},
		{"empty", true, []string{""}},
	}

	// absolute spellings under the RESOLVED root and under the CONFIGURED root (they differ when the sandbox path is,
	// or runs through, a symbolic link), plain and with an inside->outside link as a component
	cfg := strings.TrimSuffix(l.setting, "/")
	classes = append(classes,
		cls{"abs-configured-root", true, []string{cfg + "/" + I, cfg + "/sub/../" + I}},
		cls{"abs-resolved-root-via-link", false, []string{filepath.Join(l.root, l.lrel, T), filepath.Join(l.root, l.labs, T), filepath.Join(l.root, l.chain0, T), l.root + "/./" + l.lrel + "//" + T}},
		cls{"abs-configured-root-via-link", false, []string{cfg + "/" + l.lrel + "/" + T, cfg + "/" + l.labs + "/" + T, cfg + "/" + l.chain0 + "/" + T}},
		cls{"abs-configured-root-dotdot", false, []string{cfg + "/../outside/" + T, cfg + "/sub/../../outside/" + T}})

	// composed links
	classes = append(classes,
		cls{"dirlink-dotdot", false, []string{l.lrel + "/../outside/" + T, l.labs + "/../outside/" + T, filepath.Join(l.root, l.lrel) + "/../outside/" + T}},
		cls{"symlink-in-linked-dir", false, []string{l.lin + "/" + l.linnerDir + "/" + T, filepath.Join(l.root, l.lin, l.linnerDir, T)}})

	switch kind {
	case kTxt:
		classes = append(classes,
			cls{"symlink-dotdot-after-dirlink", false, []string{l.ldd, filepath.Join(l.root, l.ldd)}},
			cls{"symlink-file-in-linked-dir", false, []string{l.lin + "/" + l.linner}})
	case kNew:
		classes = append(classes,
			cls{"symlink-dangling-via-dirlink", false, []string{l.lcompNew, filepath.Join(l.root, l.lcompNew), "./" + l.lcompNew}},
			cls{"symlink-dangling-via-chain", false, []string{l.lcompChainNew, filepath.Join(l.root, l.lcompChainNew)}},
			cls{"symlink-dangling-via-dangling", false, []string{l.lcompDD, filepath.Join(l.root, l.lcompDD)}},
			cls{"symlink-dotdot-after-dirlink", false, []string{l.lddNew, filepath.Join(l.root, l.lddNew)}})
	case kNewDir:
		classes = append(classes,
			cls{"symlink-dangling-via-dirlink", false, []string{l.lcompNewDir, l.lcompNewDir + "/d1", filepath.Join(l.root, l.lcompNewDir)}},
			cls{"symlink-dangling-via-dangling", false, []string{l.lcompDDDir, l.lcompDDDir + "/d1"}})
	}

	switch kind {
	case kJSON:
		classes = append(classes, cls{"symlink-file", false, []string{l.lfileJSON, filepath.Join(l.root, l.lfileJSON), "./" + l.lfileJSON}})
	case kTxt:
		classes = append(classes, cls{"symlink-file", false, []string{l.lfileTxt, filepath.Join(l.root, l.lfileTxt), "./" + l.lfileTxt}})
	case kNew:
		classes = append(classes, cls{"symlink-dangling-out", false, []string{l.lnew, filepath.Join(l.root, l.lnew), l.lnewdir + "/x.json"}})
	case kNewDir:
		classes = append(classes, cls{"symlink-dangling-out", false, []string{l.lnewdir, l.lnewdir + "/d1", filepath.Join(l.root, l.lnewdir)}})
	}

	if isDirKind {
		// the parent of the root and the outside directory itself
		classes = append(classes, cls{"parent-dir", false, []string{"..", "../", l.base, l.root + "/..", "sub/../.."}})
		if kind == kDir {
			classes = append(classes, cls{"symlink-dir-itself", false, []string{l.lrel, l.labs, l.chain0, l.lrel + "/", filepath.Join(l.root, l.labs)}})
		}
	}

	var out []spelling

	emit := func(c cls, p string) {
		if !l.safe(p) {
			panic("c26: unsafe spelling " + p)
		}

		out = append(out, spelling{Class: c.name, Path: p, Control: c.control})
	}

	for _, c := range classes {
		emit(c, c.paths[0])

		if c.name == "relative-dotdot" && l.cwd != l.root {
			emit(c, cwdOut) // relative to the working directory as well as to the root
		}
	}

	if twoArg {
		// the path is split over the two string parameters at a PRNG position
		for _, full := range []string{"sub/../" + relOut + "/" + T, filepath.Join(l.outside, T)} {
			k := 2 // "su" + "b/../../outside/T": the first part names nothing that exists
			if full[0] == '/' {
				// not inside the instance prefix, which is rewritten for variant B
				k = len(l.top) + 1 + rng.Intn(len(full)-len(l.top)-1)
			}

			out = append(out, spelling{Class: "split-arg", Path: full[:k], Arg2: full[k:]})
		}
	}

	for len(out) < n {
		c := classes[rng.Intn(len(classes))]
		if len(c.paths) < 2 {
			if rng.Intn(4) != 0 {
				continue
			}
		}

		emit(c, c.paths[rng.Intn(len(c.paths))])
	}

	return out
}

// ---------------------------------------------------------------------------

type fnTemplate struct {
	Name   string   // pkg.Func or pkg.Func/variant
	Kinds  []string // target kinds to aim at
	TwoArg bool
	// body renders Ego statements; p is an Ego string literal, p2 the second one for split-arg ("" if unused)
	Body    func(p, p2 string) string
	Generic bool
	// Unstable: output contains run-dependent text, so the A/B comparison is skipped
	Unstable bool
	// CrashyWithLinks: see io.Expand
	CrashyWithLinks bool
}

func q(s string) string { return strconv.Quote(s) } // spellings are plain ASCII: Go and Ego quoting agree

var templates = map[string]fnTemplate{
	"os.ReadFile": {Kinds: []string{kTxt, kJSON}, Body: func(p, _ string) string {
		return `b, err := os.ReadFile(` + p + `); fmt.Println("R", string(b), err)`
	}},
	"os.WriteFile": {Kinds: []string{kNew, kTxt}, Body: func(p, _ string) string {
		return `err := os.WriteFile(` + p + `, "W-DATA", 0o644); fmt.Println("R", err)`
	}},
	"os.Open": {Kinds: []string{kTxt, kDir}, Body: func(p, _ string) string {
		return `f, err := os.Open(` + p + `); fmt.Println("R", err)
if err == nil { buf := make([]byte, 64); n, e2 := f.Read(buf); fmt.Println("D", n, string(buf), e2); f.Close() }`
	}},
	"os.Create": {Kinds: []string{kNew, kTxt}, Body: func(p, _ string) string {
		return `f, err := os.Create(` + p + `); fmt.Println("R", err)
if err == nil { n, e2 := f.WriteString("C-DATA"); fmt.Println("D", n, e2); f.Close() }`
	}},
	"os.CreateTemp": {Kinds: []string{kDir, kNewDir}, Body: func(p, _ string) string {
		return `f, err := os.CreateTemp(` + p + `, "tmp*.x"); fmt.Println("R", err == nil)
if err == nil { f.WriteString("T-DATA"); f.Close() }`
	}},
	"os.CreateTemp/empty-pattern": {Kinds: []string{kDir}, Body: func(p, _ string) string {
		return `f, err := os.CreateTemp(` + p + `, ""); fmt.Println("R", err == nil)
if err == nil { f.WriteString("T-DATA"); f.Close() }`
	}},
	"os.Mkdir": {Kinds: []string{kNewDir}, Body: func(p, _ string) string {
		return `err := os.Mkdir(` + p + `, 0o755); fmt.Println("R", err)`
	}},
	"os.MkdirAll": {Kinds: []string{kNewDir}, Body: func(p, _ string) string {
		return `err := os.MkdirAll(` + p + `, 0o755); fmt.Println("R", err)`
	}},
	"os.Chmod": {Kinds: []string{kTxt, kDir}, Body: func(p, _ string) string {
		return `err := os.Chmod(` + p + `, 0o700); fmt.Println("R", err)`
	}},
	"os.Chown": {Kinds: []string{kTxt}, Body: func(p, _ string) string {
		return `err := os.Chown(` + p + `, 0, 0); fmt.Println("R", err)`
	}},
	"os.Chdir": {Kinds: []string{kDir}, Body: func(p, _ string) string {
		return `err := os.Chdir(` + p + `); fmt.Println("R", err)
b, e2 := os.ReadFile("inner.txt"); fmt.Println("D", string(b), e2)
b, e2 = os.ReadFile("secret.txt"); fmt.Println("D", string(b), e2)`
	}},
	"os.Stat": {Kinds: []string{kTxt, kDir, kJSON}, Body: func(p, _ string) string {
		return `s, err := os.Stat(` + p + `); fmt.Println("R", err)
if err == nil { fmt.Println("D", s.Name, s.Size, s.Mode, s.IsDir) }`
	}},
	"os.Remove": {Kinds: []string{kTxt, kDir}, Body: func(p, _ string) string {
		return `err := os.Remove(` + p + `); fmt.Println("R", err)`
	}},
	"os.RemoveAll": {Kinds: []string{kDir, kTxt}, Body: func(p, _ string) string {
		return `err := os.RemoveAll(` + p + `); fmt.Println("R", err)`
	}},
	"io.Open/read": {Kinds: []string{kTxt}, TwoArg: false, Body: func(p, _ string) string {
		return `f, err := io.Open(` + p + `, "read"); fmt.Println("R", err)
if err == nil { s, e2 := f.ReadString(); fmt.Println("D", s, e2); f.Close() }`
	}},
	"io.Open/default": {Kinds: []string{kTxt}, Body: func(p, _ string) string {
		return `f, err := io.Open(` + p + `); fmt.Println("R", err)
if err == nil { s, e2 := f.ReadString(); fmt.Println("D", s, e2); f.Close() }`
	}},
	"io.Open/create": {Kinds: []string{kNew, kTxt}, Body: func(p, _ string) string {
		return `f, err := io.Open(` + p + `, "create"); fmt.Println("R", err)
if err == nil { n, e2 := f.WriteString("IO-DATA"); fmt.Println("D", n, e2); f.Close() }`
	}},
	"io.Open/append": {Kinds: []string{kTxt}, Body: func(p, _ string) string {
		return `f, err := io.Open(` + p + `, "append"); fmt.Println("R", err)
if err == nil { n, e2 := f.WriteString("IO-APPEND"); fmt.Println("D", n, e2); f.Close() }`
	}},
	"io.ReadDir": {Kinds: []string{kDir}, Body: func(p, _ string) string {
		return `d, err := io.ReadDir(` + p + `); fmt.Println("R", err)
for _, e := range d { fmt.Println("D", e.Name, e.IsDirectory, e.Mode, e.Size) }`
	}},
	// io.Expand walks directories recursively and sandboxes every path it visits again. A link inside the root
	// that leaves it is clamped back to the root, so the walk of the root never ends and the Go runtime kills
	// the process ("fatal error: stack overflow"). That is a crash, not an escape; it is reported, and the
	// function is exercised where it cannot happen (link-free root) or where it is contained (real process).
	"io.Expand": {Kinds: []string{kDir, kTxt}, TwoArg: true, CrashyWithLinks: true, Body: func(p, p2 string) string {
		if p2 != "" {
			return `r, err := io.Expand(` + p + `, ` + p2 + `); fmt.Println("R", r, err)`
		}

		return `r, err := io.Expand(` + p + `); fmt.Println("R", r, err)
r, err = io.Expand(` + p + `, ".txt"); fmt.Println("R", r, err)`
	}},
	"json.ReadFile": {Kinds: []string{kJSON}, Body: func(p, _ string) string {
		return `v, err := json.ReadFile(` + p + `); fmt.Println("R", v, err)`
	}},
	"json.WriteFile": {Kinds: []string{kNew, kJSON}, Body: func(p, _ string) string {
		return `err := json.WriteFile(` + p + `, map[string]int{"a": 1}); fmt.Println("R", err)`
	}},
	"filepath.Abs": {Kinds: []string{kTxt}, Body: func(p, _ string) string {
		return `a, err := filepath.Abs(` + p + `); fmt.Println("R", a, err)`
	}},
	"filepath.Base":  {Kinds: []string{kTxt}, Body: func(p, _ string) string { return `fmt.Println("R", filepath.Base(` + p + `))` }},
	"filepath.Clean": {Kinds: []string{kTxt}, Body: func(p, _ string) string { return `fmt.Println("R", filepath.Clean(` + p + `))` }},
	"filepath.Dir":   {Kinds: []string{kTxt}, Body: func(p, _ string) string { return `fmt.Println("R", filepath.Dir(` + p + `))` }},
	"filepath.Ext":   {Kinds: []string{kTxt}, Body: func(p, _ string) string { return `fmt.Println("R", filepath.Ext(` + p + `))` }},
	"filepath.Join": {Kinds: []string{kTxt}, TwoArg: true, Body: func(p, p2 string) string {
		if p2 != "" {
			return `fmt.Println("R", filepath.Join(` + p + `, ` + p2 + `))`
		}

		return `fmt.Println("R", filepath.Join(` + p + `, "x"), filepath.Join("x", ` + p + `))`
	}},
	"exec.LookPath": {Kinds: []string{kExe, kTxt}, Body: func(p, _ string) string {
		return `x, err := exec.LookPath(` + p + `); fmt.Println("R", x, err)`
	}},
	"exec.Command": {Kinds: []string{kExe}, Body: func(p, _ string) string {
		return `c := exec.Command(` + p + `); fmt.Println("R1")
err := c.Run(); fmt.Println("R", err)`
	}},
	"sql.Open": {Kinds: []string{kNew, kTxt}, Body: func(p, _ string) string {
		return `db, err := sql.Open("sqlite3", ` + p + `); fmt.Println("R", err)
if err == nil { n, e2 := db.Execute("create table if not exists t(a int)"); fmt.Println("D", n, e2); db.Close() }`
	}},
}

// functions taking strings that are not paths, with the reason they are not driven
var notPaths = map[string]string{
	"os.Getenv":          "environment variable name, not a path",
	"os.LookupEnv":       "environment variable name, not a path",
	"os.Setenv":          "environment mutation, not a path",
	"os.ExpandEnv":       "text expansion, not a path",
	"os.Expand":          "text expansion with a mapping function, not a path",
	"io.Prompt":          "reads the console; prompt text, not a path",
	"json.Parse":         "JSON text and query expression, not a path",
	"json.MarshalIndent": "prefix/indent strings, not a path",
	"json.Unmarshal":     "JSON data, not a path",
}

var pathParam = regexp.MustCompile(`(?i)(path|file|dir|folder)`)

type enumerated struct {
	Name      string
	Why       string // how it was selected
	StringPos []int
	Decl      *data.Declaration
}

// enumerateFileFunctions walks the declaration tables of every registered runtime
// package and selects: every function of os/io/json/filepath that has a string
// parameter; every function anywhere with a parameter flagged Sandboxed or a string
// parameter whose name looks like a path; plus sql.Open and exec.Command (paths inside
// a connection string / command name).
func enumerateFileFunctions() (sel []enumerated, skipped map[string]string) {
	skipped = map[string]string{}
	core := map[string]bool{"os": true, "io": true, "json": true, "filepath": true}

	names := packages.List()
	sort.Strings(names)

	for _, pn := range names {
		p := packages.Get(pn)
		if p == nil {
			continue
		}

		keys := p.Keys()
		sort.Strings(keys)

		for _, k := range keys {
			v, _ := p.Get(k)

			f, ok := v.(data.Function)
			if !ok || f.Declaration == nil {
				continue
			}

			full := pn + "." + k

			var pos []int

			why := ""

			for i, prm := range f.Declaration.Parameters {
				if prm.Type == nil || prm.Type.Kind() != data.StringKind {
					continue
				}

				pos = append(pos, i)

				if prm.Sandboxed {
					why = "parameter flagged Sandboxed"
				} else if why == "" && pathParam.MatchString(prm.Name) {
					why = "string parameter named " + prm.Name
				}
			}

			if len(pos) == 0 {
				continue
			}

			if why == "" && core[pn] {
				why = "string parameter in core file package"
			}

			if full == "sql.Open" || full == "exec.Command" {
				why = "path inside its string argument"
			}

			if why == "" {
				continue
			}

			if reason, no := notPaths[full]; no {
				skipped[full] = reason

				continue
			}

			sel = append(sel, enumerated{Name: full, Why: why, StringPos: pos, Decl: f.Declaration})
		}
	}

	return sel, skipped
}

// templatesFor returns the hand-written templates of a function (several for io.Open)
// or a generic one derived from the declaration.
func templatesFor(e enumerated) []fnTemplate {
	var out []fnTemplate

	for name, t := range templates {
		if name == e.Name || strings.HasPrefix(name, e.Name+"/") {
			t.Name = name
			out = append(out, t)
		}
	}

	sort.Slice(out, func(i, j int) bool { return out[i].Name < out[j].Name })

	if len(out) > 0 {
		return out
	}

	// generic: the spelling goes into the first string parameter, zero values elsewhere
	d := e.Decl
	args := make([]string, len(d.Parameters))

	for i, prm := range d.Parameters {
		switch prm.Type.Kind() {
		case data.StringKind:
			args[i] = `"x"`
		case data.IntKind, data.Int32Kind, data.Int64Kind, data.ByteKind, data.Float64Kind, data.Float32Kind:
			args[i] = "0"
			if strings.Contains(strings.ToLower(prm.Name), "mode") || strings.Contains(strings.ToLower(prm.Name), "perm") {
				args[i] = "0o644"
			}
		case data.BoolKind:
			args[i] = "false"
		case data.InterfaceKind:
			args[i] = `"x"`
		default:
			return nil // cannot be driven generically
		}
	}

	pkgFn := e.Name
	first := e.StringPos[0]
	nret := len(d.Returns)

	return []fnTemplate{{Name: e.Name, Kinds: []string{kTxt, kDir}, Generic: true, Unstable: true, Body: func(p, _ string) string {
		a := append([]string{}, args...)
		a[first] = p
		call := pkgFn + "(" + strings.Join(a, ", ") + ")"

		switch nret {
		case 0:
			return call + `; fmt.Println("R")`
		case 1:
			return `r0 := ` + call + `; fmt.Println("R", r0)`
		default:
			vars := make([]string, nret)
			for i := range vars {
				vars[i] = fmt.Sprintf("r%d", i)
			}

			return strings.Join(vars, ", ") + ` := ` + call + `; fmt.Println("R", ` + strings.Join(vars, ", ") + `)`
		}
	}}}
}

// call shapes: how the call is reached inside the program
var shapes = []string{"direct", "userfn", "goroutine", "defer", "try"}

func render(body, shape string) string {
	imports := "import (\"fmt\"; \"os\"; \"io\"; \"json\"; \"filepath\"; \"exec\"; \"sql\"; \"sync\")\n"

	switch shape {
	case "userfn":
		return imports + "func work() {\n" + body + "\n}\nfunc main() {\nwork()\n}\n"
	case "goroutine":
		// a runtime error inside a goroutine ends it without running its defers, so the body is guarded
		return imports + "func main() {\nvar wg sync.WaitGroup\nwg.Add(1)\ngo func() {\ntry {\n" + body + "\n} catch (e) {\nfmt.Println(\"caught\", e)\n}\nwg.Done()\n}()\nwg.Wait()\n}\n"
	case "defer":
		return imports + "func main() {\ndefer func() {\n" + body + "\n}()\n}\n"
	case "try":
		return imports + "func main() {\ntry {\n" + body + "\n} catch (e) {\nfmt.Println(\"caught\", e)\n}\n}\n"
	default:
		return imports + "func main() {\n" + body + "\n}\n"
	}
}
