package rtpkg

// C26 — Sandboxed programs stay inside the sandbox.
//
// Part "inproc": every enumerated file-touching runtime function x path-spelling class x
// symlink layout, run in-process exactly as `ego run --sandbox=true` does, against two
// variants (A, B) of the world outside the sandbox root.
//   oracle 1  snapshot of everything outside the root (names, kinds, modes, sizes, content
//             hashes, link targets) is identical before and after the run;
//   oracle 2  no canary content and no untargeted outside entry name appears in anything the
//             program printed or in its error;
//   oracle 2b non-interference: the program's output is the same for variants A and B of the
//             outside (so existence, size, mode and listing disclosures are observed as well);
//   oracle 4  the process's working directory is still inside the root after the run.
// Every violating (function, class) cell is re-run through the real `ego` binary before it is
// reported; a cell the binary does not reproduce is reported inconclusive, not violated.

import (
	"bytes"
	"encoding/json"
	"fmt"
	"os"
	"os/exec"
	"path/filepath"
	"sort"
	"strings"
	"sync"
	"testing"
	"time"

	"github.com/tucats/ego/internal/cli/settings"
	"github.com/tucats/ego/internal/defs"
	"github.com/tucats/ego/internal/verifh/egorun"
	"github.com/tucats/ego/internal/verifh/vh"
)

type c26Case struct {
	Fn      string   `json:"fn"`
	Kind    string   `json:"kind"`
	Sp      spelling `json:"spelling"`
	Layout  int      `json:"layout"`
	Shape   string   `json:"shape"`
	Prog    string   `json:"program"`
	Runner  string   `json:"runner"`
	NoLinks bool     `json:"no_links,omitempty"`
}

type runner func(l *layout, prog string) (out string, ok bool)

type verdict struct {
	reasons    []string
	outA       string
	outB       string
	worked     bool
	crash      bool
	compileErr bool
}

func arenaDir(t *testing.T, part string) string {
	a := os.Getenv("VERIF_ARENA")
	if a == "" {
		a = filepath.Join(os.TempDir(), "verif-arena-c26")
	}

	a = filepath.Join(a, "c26-"+part)
	_ = os.RemoveAll(a)

	if err := os.MkdirAll(a, 0o755); err != nil {
		t.Fatal(err)
	}

	if r, err := filepath.EvalSymlinks(a); err == nil {
		a = r
	}

	return a
}

var (
	inprocHung     bool
	inprocHungProg string
)

func restoreEnv(names ...string) func() {
	type saved struct {
		v  string
		ok bool
	}

	old := map[string]saved{}
	for _, n := range names {
		v, ok := os.LookupEnv(n)
		old[n] = saved{v, ok}
	}

	return func() {
		for n, s := range old {
			if s.ok {
				os.Setenv(n, s.v)
			} else {
				os.Unsetenv(n)
			}
		}
	}
}

// inprocRunner runs prog in this process as `ego run --sandbox=true` does.
func inprocRunner(l *layout, prog string) (string, bool) {
	old, _ := os.Getwd()
	defer os.Chdir(old)

	if err := os.Chdir(l.cwd); err != nil {
		return "chdir: " + err.Error(), false
	}

	settings.SetDefault(defs.SandboxPathSetting, l.setting)

	// the process environment points outside the root: fallbacks to $TMPDIR, $HOME or the working directory must not be used
	defer restoreEnv("TMPDIR", "HOME")()
	os.Setenv("TMPDIR", l.tmpdir)
	os.Setenv("HOME", l.home)

	if inprocHung {
		return "HUNG", false
	}

	// wall clock only as a watchdog: a run that does not return makes everything after it inconclusive
	ch := make(chan egorun.Result, 1)
	go func() { ch <- egorun.Run(prog, egorun.Config{Sandbox: 1, Extensions: true}) }()

	var res egorun.Result
	select {
	case res = <-ch:
	case <-time.After(90 * time.Second):
		inprocHung = true
		inprocHungProg = prog

		return "HUNG", false
	}

	out := res.Out + "\nERR:" + res.Err

	if res.Panic != "" {
		out += "\nPANIC:" + strings.SplitN(res.Panic, "\n", 2)[0]
	}

	if wd, err := os.Getwd(); err == nil {
		rr, _ := filepath.EvalSymlinks(l.root)
		if w2, err := filepath.EvalSymlinks(wd); err == nil && w2 != l.cwd && !within(w2, rr) {
			out += "\nCWD-ESCAPED:" + w2
		}
	}

	return out, !res.CompileErr
}

// pair is the two physical instances of one layout (variant A and B of the outside).
type pair struct{ a, b *layout }

func newPair(arena string, idx int, seedName string, noLinks bool) pair {
	mk := func(vid string) *layout {
		l := newLayout(arena, idx, vh.Rand(fmt.Sprintf("%s-L%d", seedName, idx)), vh.Seed(), vid)
		l.noLinks = noLinks

		return l
	}

	return pair{mk("A"), mk("B")}
}

func crashed(out string) bool {
	return strings.Contains(out, "fatal error:") || strings.Contains(out, "goroutine 1 [")
}

// judge runs one case against the A and B instances and applies the oracles. prog is written
// for instance A; the B program is the same text with the instance directory replaced.
func judge(p pair, run runner, prog string, unstable bool) verdict {
	var v verdict

	one := func(l *layout, text string) (string, bool, []string) {
		var reasons []string

		l.ensure()

		out, ok := run(l, text)

		if d := l.observe(); len(d) > 0 {
			reasons = append(reasons, "outside modified ("+l.vid+"): "+strings.Join(d, "; "))
		}

		if lk := l.variant(l.vid).leaked(out); len(lk) > 0 {
			reasons = append(reasons, "canary in output ("+l.vid+"): "+strings.Join(lk, ","))
		}

		if strings.Contains(out, "CWD-ESCAPED:") {
			reasons = append(reasons, "working directory left the root")
		}

		return strings.ReplaceAll(out, l.top, "$TOP"), ok, reasons
	}

	outA, okA, ra := one(p.a, prog)
	outB, okB, rb := one(p.b, strings.ReplaceAll(prog, p.a.top, p.b.top))

	v.reasons = ra
	if len(ra) == 0 {
		v.reasons = rb
	}

	if crashed(outA) || crashed(outB) {
		v.crash = true
	} else if !unstable && outA != outB {
		v.reasons = append(v.reasons, "output depends on the world outside the root (non-interference)")
	}

	v.outA, v.outB = outA, outB
	v.compileErr = !okA
	v.worked = okA && okB && (strings.Contains(outA, "<nil>") || strings.Contains(outA, "R true"))

	return v
}

func c26Key(fn, class, shape string) string {
	k := fn + ":" + class
	if shape != "direct" {
		k += "@" + shape
	}

	return k
}

// egoBin returns the real binary, configured per layout on first use.
type binRunner struct {
	bin        string
	configured map[string]bool
	runs       int
	mu         sync.Mutex
	profile    map[string]any // the first home's profile, reused for the others
}

func newBinRunner() *binRunner {
	b := filepath.Join(os.Getenv("VERIF_BIN"), "ego")
	if st, err := os.Stat(b); err != nil || !st.Mode().IsRegular() || os.Getenv("VERIF_BIN") == "" {
		if alt := os.Getenv("VERIF_EGO_BIN"); alt != "" {
			b = alt
		} else {
			return nil
		}
	}

	return &binRunner{bin: b, configured: map[string]bool{}}
}

func (b *binRunner) env(l *layout) []string {
	return []string{"HOME=" + l.home, "TMPDIR=" + l.tmpdir, "PATH=/usr/bin:/bin", "LANG=C", "EGO_LOCALE=en"}
}

func (b *binRunner) configure(l *layout) error {
	b.mu.Lock()
	defer b.mu.Unlock()

	if b.configured[l.top] {
		return nil
	}

	must(os.MkdirAll(l.home, 0o755))

	// The library directory is shared by every instance (it is outside every instance's top
	// directory, so it is never judged); only the first home pays for unpacking it.
	lib := os.Getenv("VERIF_ARENA")
	if lib == "" {
		lib = os.TempDir()
	}

	lib = filepath.Join(lib, "c26-egopath")
	prof := filepath.Join(l.home, ".ego", "default.profile")

	// after the first home, the profile is the first one's with the sandbox path replaced
	if b.profile != nil {
		items, _ := b.profile["items"].(map[string]any)
		if items != nil {
			items["ego.runtime.sandbox.path"] = l.setting

			if text, err := json.MarshalIndent(b.profile, "", "   "); err == nil {
				must(os.MkdirAll(filepath.Dir(prof), 0o700))
				must(os.WriteFile(prof, text, 0o700))

				b.configured[l.top] = true

				return nil
			}
		}
	}

	for _, kv := range []string{"ego.runtime.sandbox.path=" + l.setting, "ego.runtime.path=" + lib, "ego.compiler.extensions=true"} {
		c := exec.Command(b.bin, "config", "set", kv)
		c.Env = b.env(l)
		c.Dir = l.home

		if out, err := c.CombinedOutput(); err != nil {
			return fmt.Errorf("ego config set %s: %v: %s", kv, err, out)
		}
	}

	if text, err := os.ReadFile(prof); err == nil {
		var m map[string]any
		if json.Unmarshal(text, &m) == nil && m["items"] != nil {
			b.profile = m
		}
	}

	b.configured[l.top] = true

	return nil
}

func (b *binRunner) run(l *layout, prog string) (string, bool) {
	if err := b.configure(l); err != nil {
		return "CONFIG:" + err.Error(), false
	}

	src := filepath.Join(l.home, "prog.ego")
	must(os.WriteFile(src, []byte(prog), 0o644))

	c := exec.Command(b.bin, "run", "--sandbox=true", src)
	c.Env = b.env(l)
	c.Dir = l.cwd

	var so, se bytes.Buffer

	c.Stdout, c.Stderr = &so, &se
	done := make(chan error, 1)

	if err := c.Start(); err != nil {
		return "START:" + err.Error(), false
	}

	go func() { done <- c.Wait() }()

	select {
	case <-done:
	case <-time.After(120 * time.Second): // watchdog only
		_ = c.Process.Kill()

		return "fatal error: WATCHDOG (process killed after 120 s)", true
	}

	b.runs++

	return so.String() + "\nERR:" + se.String(), true
}

func isSymlinkClass(c string) bool { return strings.HasPrefix(c, "symlink-") }

func TestC26InProc(t *testing.T) {
	r := vh.New("C26", "inproc")
	r.Rule = "case = (runtime function enumerated from the package declaration tables, target kind, path-spelling class + concrete spelling, symlink layout, call shape); " +
		"distinct by that tuple; non-trivial = the spelling aims outside the sandbox root (controls that stay inside are evaluated but not counted)"
	r.Assume("an outside access that changes nothing on disk and returns nothing that differs between two variants of the outside is not observed by the in-process oracles (the strace part covers the syscall level)")
	r.Assume("TOCTOU races between the containment check and the file operation are not exercised (no concurrent mutation of the arena)")

	if c := vh.ReplayCase(); c != nil && (strings.Contains(string(c), `"runner": "server"`) || strings.Contains(string(c), `"runner": "strace"`)) {
		r.Note("replay case belongs to another part")
		_ = r.Write()

		return
	}

	egorun.Init()
	arena := arenaDir(t, "inproc")
	rng := vh.Rand("c26-inproc")
	nLayouts := vh.N(3, 10)
	nSpell := vh.N(12, 60)

	sel, skipped := enumerateFileFunctions()
	if len(sel) < 10 {
		// force the package tables to load, then retry
		egorun.Run("func main() {}", egorun.Config{})
		sel, skipped = enumerateFileFunctions()
	}

	if len(sel) < 10 {
		t.Fatalf("enumerated only %d file functions", len(sel))
	}

	var names []string
	for _, e := range sel {
		names = append(names, e.Name)
		r.Count("functions.enumerated", 1)
	}

	r.Note("enumerated from declaration tables: " + strings.Join(names, " "))

	for k, why := range skipped {
		r.Note("not driven: " + k + " — " + why)
		r.Count("functions.not_paths", 1)
	}

	bin := newBinRunner()
	if bin == nil {
		r.Inconcl("no ego binary in $VERIF_BIN: in-process findings cannot be confirmed against the CLI")
	}

	var layouts, plain []pair
	for i := 0; i < nLayouts; i++ {
		layouts = append(layouts, newPair(arena, i, "c26-layout", false))
		plain = append(plain, newPair(filepath.Join(arena, "plain"), i, "c26-layout", true))
	}

	// replay of one stored case
	if c := vh.ReplayCase(); c != nil {
		var rc c26Case
		if err := json.Unmarshal(c, &rc); err != nil {
			t.Fatal(err)
		}

		set := layouts
		if rc.NoLinks {
			set = plain
		}

		p := set[rc.Layout%len(set)]
		run := runner(inprocRunner)

		if rc.Runner == "binary" && bin != nil {
			run = bin.run
		}

		v := judge(p, run, strings.ReplaceAll(rc.Prog, "$TOP", p.a.top), false)
		r.Eval("replay", true)

		if len(v.reasons) > 0 {
			r.Violate(vh.Violation{Key: c26Key(rc.Fn, rc.Sp.Class, rc.Shape), Desc: strings.Join(v.reasons, " | "), Case: rc, Observed: vh.Trunc(v.outA, 600)})
		}

		_ = r.Write()

		return
	}

	reported := map[string]bool{}
	confirmed := map[string]bool{}
	knownKeys := vh.KnownKeys("C26")
	violatedDirect := map[string]bool{} // fn|class cells whose direct shape already violates

	type cell struct {
		p       pair
		tpl     fnTemplate
		kind    string
		sp      spelling
		viaBin  bool
		noLinks bool
	}

	evalCase := func(c cell, shape string) {
		l, tpl, sp := c.p.a, c.tpl, c.sp

		body := tpl.Body(q(sp.Path), "")
		if sp.Class == "split-arg" {
			body = tpl.Body(q(sp.Path), q(sp.Arg2))
		}

		prog := render(body, shape)
		cs := c26Case{Fn: tpl.Name, Kind: c.kind, Sp: sp, Layout: l.idx, Shape: shape, Prog: strings.ReplaceAll(prog, l.top, "$TOP"), Runner: "inproc", NoLinks: c.noLinks}
		cs.Sp.Path = strings.ReplaceAll(sp.Path, l.top, "$TOP")
		id := fmt.Sprintf("%s|%s|%s|%s|%s|L%d|%v|%s", tpl.Name, c.kind, sp.Class, cs.Sp.Path, sp.Arg2, l.idx, c.noLinks, shape)

		run := runner(inprocRunner)
		if c.viaBin {
			run, cs.Runner = bin.run, "binary"
			r.Count("runs.binary_primary", 2)
		} else {
			r.Count("runs.inproc", 2)
		}

		v := judge(c.p, run, prog, tpl.Unstable)

		r.Eval(id, !sp.Control)
		r.Count("class:"+sp.Class, 1)
		r.Count("shape:"+shape, 1)

		if strings.Contains(v.outA, "PANIC:") {
			r.Count("panics", 1)
		}

		if v.crash {
			r.Count("interpreter_crashes", 1)
			r.Inconcl("cell " + c26Key(tpl.Name, sp.Class, shape) + " (" + cs.Sp.Path + "): the ego process died with a Go fatal error instead of answering (" +
				firstLine(v.outA, "fatal error:") + "); not a sandbox escape, not evaluated")
		}

		if sp.Control && v.worked {
			r.Count("controls.function_succeeded_inside", 1)
			r.Count("worked:"+tpl.Name, 1)
		}

		if v.compileErr {
			r.Count("compile_errors", 1)

			if r.Counters["compile_errors"] <= 3 {
				r.Inconcl("generated program does not compile: " + vh.Trunc(v.outA, 200) + " /// " + vh.Trunc(prog, 400))
			}
		}

		if len(v.reasons) == 0 {
			return
		}

		key := c26Key(tpl.Name, sp.Class, shape)
		if shape == "direct" {
			violatedDirect[tpl.Name+"|"+sp.Class] = true
		}

		viol := vh.Violation{Key: key, Desc: strings.Join(v.reasons, " | "), Case: cs,
			Expected: "no effect on, and no information from, anything outside " + strings.ReplaceAll(l.root, l.top, "$TOP"),
			Observed: vh.Trunc(v.outA, 500) + " /// variant B: " + vh.Trunc(v.outB, 300)}

		// Confirm against the real binary: once per key in the thorough tier, once per function in the quick
		// tier (process start dominates the quick budget). Keys already listed as known findings were
		// confirmed when they were recorded.
		unit := key
		if vh.Tier() == "quick" {
			unit = tpl.Name
		}

		if bin != nil && !c.viaBin && !knownKeys[key] && !confirmed[unit] {
			vb := judge(c.p, bin.run, prog, tpl.Unstable)
			r.Count("runs.binary_confirm", 2)

			if len(vb.reasons) == 0 {
				r.Inconcl("in-process violation " + key + " not reproduced by the ego binary: " + viol.Desc)

				return
			}

			confirmed[unit] = true

			r.Count("confirmed_by_binary", 1)
			viol.Desc += " || confirmed with `ego run --sandbox=true`: " + strings.Join(vb.reasons, " | ")
		}

		reported[key] = true

		r.Violate(viol)
	}

	var cells []cell

	crashyNotRun := false

	for _, e := range sel {
		if only := os.Getenv("C26_ONLY"); only != "" && !strings.HasPrefix(e.Name, only) {
			continue // development aid: restrict to one function
		}

		tpls := templatesFor(e)
		if len(tpls) == 0 {
			r.Inconcl("enumerated function " + e.Name + " (" + e.Why + ") has parameters the generic template cannot build; it was not exercised")

			continue
		}

		for _, tpl := range tpls {
			if tpl.Generic {
				r.Count("functions.generic_template", 1)
				r.Note("generic template used for " + tpl.Name + " (" + e.Why + ")")
			} else {
				r.Count("functions.with_template", 1)
			}

			for li := range layouts {
				// the filepath functions only compute strings: one layout is enough in the quick tier
				if li > 0 && vh.Tier() == "quick" && strings.HasPrefix(tpl.Name, "filepath.") {
					continue
				}

				for ki, kind := range tpl.Kinds {
					n := nSpell
					if ki > 0 {
						n = 0 // canonical spellings only for the secondary target kinds

						if li > 0 && vh.Tier() == "quick" {
							continue
						}
					}

					if tpl.CrashyWithLinks {
						// see the template: the recursive walk never ends when the root holds a link that is clamped
						// back to the root, and the Go runtime then kills the process. It is exercised in the
						// link-free twin of the layout only.
						for _, sp := range plain[li].a.spellings(kind, rng, n, tpl.TwoArg) {
							if !isSymlinkClass(sp.Class) {
								cells = append(cells, cell{p: plain[li], tpl: tpl, kind: kind, sp: sp, noLinks: true})
							}
						}

						crashyNotRun = true

						continue
					}

					for _, sp := range layouts[li].a.spellings(kind, rng, n, tpl.TwoArg) {
						cells = append(cells, cell{p: layouts[li], tpl: tpl, kind: kind, sp: sp})
					}
				}
			}
		}
	}

	if crashyNotRun {
		r.Note("io.Expand x symlink classes are not exercised: with a link inside the root that is clamped back to the root (or points to an ancestor) the recursive walk " +
			"never ends and the Go runtime aborts the whole process (fatal error: stack overflow, after allocating a 1 GB stack). That is a crash of the host, not a sandbox escape; it is reported separately.")
	}

	for _, c := range cells {
		evalCase(c, "direct")
	}

	// other call shapes, only on cells whose direct call held (a cell that already violates is the same defect)
	nShape := vh.N(150, 3000)
	for i := 0; i < nShape && len(cells) > 0; i++ {
		c := cells[rng.Intn(len(cells))]
		if c.sp.Control || c.viaBin || violatedDirect[c.tpl.Name+"|"+c.sp.Class] {
			continue
		}

		evalCase(c, shapes[1+rng.Intn(len(shapes)-1)])
	}

	// every template must have been seen working on an inside path, otherwise it proves nothing
	var dead []string

	for _, e := range sel {
		for _, tpl := range templatesFor(e) {
			if r.Counters["worked:"+tpl.Name] == 0 && !tpl.Generic {
				dead = append(dead, tpl.Name)
			}
		}
	}

	sort.Strings(dead)

	if len(dead) > 0 {
		r.Note("functions never seen succeeding on an inside path (refused in sandbox mode, or string-only): " + strings.Join(dead, " "))
	}

	if inprocHung {
		r.Inconcl("an in-process run did not return within the 90 s watchdog; every later in-process case was skipped. Program: " + vh.Trunc(inprocHungProg, 600))
	}

	builds := 0
	for i := range layouts {
		builds += layouts[i].a.builds + layouts[i].b.builds + plain[i].a.builds + plain[i].b.builds
	}

	r.Count("arena.rebuilds", int64(builds))
	r.Sample(map[string]any{"layout0.links": relLinks(layouts[0].a), "cwd": layouts[0].a.cwd, "setting": layouts[0].a.setting})

	if len(cells) > 0 {
		c := cells[len(cells)/2]
		r.Sample(map[string]any{"fn": c.tpl.Name, "kind": c.kind, "spelling": c.sp, "layout": c.p.a.idx})
	}

	if r.Evaluations == 0 {
		t.Fatal("observed nothing")
	}

	if err := r.Write(); err != nil {
		t.Fatal(err)
	}
}

func relLinks(l *layout) map[string]string {
	m := map[string]string{}
	for k, v := range l.links {
		m[strings.TrimPrefix(k, l.base+"/")] = strings.ReplaceAll(v, l.top, "$TOP")
	}

	return m
}

func firstLine(s, marker string) string {
	i := strings.Index(s, marker)
	if i < 0 {
		return ""
	}

	s = s[i:]
	if j := strings.IndexByte(s, '\n'); j >= 0 {
		s = s[:j]
	}

	return s
}
