package rtpkg

// C11 argument generators and value comparison.

import (
	"fmt"
	"math"
	"math/rand"
	"reflect"
	"strings"
	"time"
	"unicode/utf8"

	"github.com/tucats/ego/internal/language/data"
)

// gen produces one argument; prev holds the arguments already generated for this vector so that
// related arguments (a substring of the text, a cutset made of its characters) are frequent.
type gen func(rng *rand.Rand, prev []any) any

var interestingRunes = []rune{0, 1, 9, 10, 13, 32, '"', '\'', '\\', '`', '%', '/', '.', 'a', 'Z', '0', 0x7f, 0x80, 0xa0, 0xe9, 0x130, 0x131, 0x17f, 0x1c5,
	0x300, 0x301, 0x0e01, 0x2028, 0x2029, 0x212a, 0x3000, 0xd7ff, 0xe000, 0xfeff, 0xfffd, 0xffff, 0x10000, 0x1f600, 0x10ffff}

var invalidUTF8 = []string{"\xff", "\xc0\xaf", "\xed\xa0\x80", "\xf4\x90\x80\x80", "\xe2\x82", "a\x80b", "\xf0\x9f\x98"}

var words = []string{"", "a", "ab", "abc", "chicken", "Hello, World", "  padded  ", "foo/bar/../baz", "x=y=z", "ΑΒΓαβγ", "straße", "ǅungla", "é", "한글", "日本語", "\t\n", "a\x00b",
	"İstanbul", "ſ", "K", "0", "-1", "3.14", "true", "NaN", "+Inf", "0x1F", "1e400", "9223372036854775807", "III", "MCMXCIV", "SGVsbG8=", "%d", "../..", "/", "//a//b//", "a.b.c", ".hidden", "a/b.tar.gz"}

func randString(rng *rand.Rand) string {
	switch rng.Intn(10) {
	case 0:
		return ""
	case 1, 2:
		return words[rng.Intn(len(words))]
	case 3:
		// with invalid UTF-8
		return words[rng.Intn(len(words))] + invalidUTF8[rng.Intn(len(invalidUTF8))] + words[rng.Intn(len(words))]
	default:
		n := rng.Intn(12)

		var b strings.Builder

		for i := 0; i < n; i++ {
			switch rng.Intn(4) {
			case 0:
				b.WriteRune(interestingRunes[rng.Intn(len(interestingRunes))])
			case 1:
				b.WriteByte(byte(' ' + rng.Intn(95)))
			case 2:
				b.WriteByte("abAB ,./=-_"[rng.Intn(11)])
			default:
				b.WriteRune(rune(rng.Intn(0x3000)))
			}
		}

		return b.String()
	}
}

// genString: unrelated text, or text derived from an earlier string argument.
func genString(rng *rand.Rand, prev []any) any {
	var base string

	for _, p := range prev {
		if s, ok := p.(string); ok && s != "" {
			base = s
		}
	}

	if base != "" && rng.Intn(5) < 3 {
		i := rng.Intn(len(base) + 1)
		j := i + rng.Intn(len(base)-i+1)

		switch rng.Intn(7) {
		case 0:
			return base[i:j] // substring, possibly cutting a rune
		case 1:
			return base[:j]
		case 2:
			return base[i:]
		case 3:
			return strings.ToUpper(base[i:j])
		case 4:
			// a single rune of it
			rs := []rune(base)

			return string(rs[rng.Intn(len(rs))])
		case 5:
			return base
		default:
			return base[i:j] + randString(rng)
		}
	}

	return randString(rng)
}

func withDict(dict []string) gen {
	return func(rng *rand.Rand, prev []any) any {
		if rng.Intn(3) > 0 {
			s := dict[rng.Intn(len(dict))]

			switch rng.Intn(8) {
			case 0:
				return " " + s
			case 1:
				return s + " "
			case 2:
				return "-" + s
			case 3:
				return "+" + s
			default:
				return s
			}
		}

		return genString(rng, prev)
	}
}

var boundaryInts = []int64{0, 1, -1, 2, -2, 7, 10, 16, 36, 37, 63, 64, 65, 100, 127, 128, -128, -129, 255, 256, 32767, 32768, -32768, -32769, 65535, 65536,
	2147483647, 2147483648, -2147483648, -2147483649, 4294967295, 4294967296, 1 << 53, 1<<53 + 1, math.MaxInt64, math.MinInt64, math.MaxInt64 - 1, math.MinInt64 + 1}

func randInt64(rng *rand.Rand) int64 {
	switch rng.Intn(4) {
	case 0:
		return boundaryInts[rng.Intn(len(boundaryInts))]
	case 1:
		return int64(rng.Intn(41) - 20)
	case 2:
		return rng.Int63n(1<<20) - 1<<19
	default:
		return int64(rng.Uint64())
	}
}

func genInt(rng *rand.Rand, _ []any) any    { return int(randInt64(rng)) }
func genInt64(rng *rand.Rand, _ []any) any  { return randInt64(rng) }
func genUint64(rng *rand.Rand, _ []any) any { return uint64(randInt64(rng)) }
func genBool(rng *rand.Rand, _ []any) any   { return rng.Intn(2) == 0 }

func genRune(rng *rand.Rand, prev []any) any {
	for _, p := range prev {
		if s, ok := p.(string); ok && s != "" && rng.Intn(2) == 0 {
			rs := []rune(s)

			return int32(rs[rng.Intn(len(rs))])
		}
	}

	switch rng.Intn(5) {
	case 0:
		return int32(interestingRunes[rng.Intn(len(interestingRunes))])
	case 1:
		return []int32{-1, 0xd800, 0xdfff, 0x110000, math.MaxInt32, math.MinInt32, utf8.RuneError}[rng.Intn(7)]
	case 2:
		return int32(' ' + rng.Intn(95))
	default:
		return int32(rng.Intn(0x11000))
	}
}

func genByte(rng *rand.Rand, prev []any) any {
	for _, p := range prev {
		if s, ok := p.(string); ok && s != "" && rng.Intn(2) == 0 {
			return s[rng.Intn(len(s))]
		}
	}

	return byte(rng.Intn(256))
}

var boundaryFloats = []float64{0, math.Copysign(0, -1), 1, -1, 0.5, -0.5, 1.5, 2.5, -2.5, math.NaN(), math.Inf(1), math.Inf(-1), math.SmallestNonzeroFloat64, -math.SmallestNonzeroFloat64,
	2.2250738585072014e-308, 1.1125369292536007e-308, math.MaxFloat64, -math.MaxFloat64, math.MaxFloat32, math.SmallestNonzeroFloat32, 1e-320, math.Pi, math.E, 1e15, 1e16, 1e21, 1e-7,
	float64(1 << 53), float64(1<<53) + 2, 0.1, 0.30000000000000004, 123456789.125, 709.78, 710, -745.2, 1e308, 4.9e-324}

func randFloat(rng *rand.Rand) float64 {
	switch rng.Intn(5) {
	case 0, 1:
		return boundaryFloats[rng.Intn(len(boundaryFloats))]
	case 2:
		return math.Float64frombits(rng.Uint64())
	case 3:
		return float64(rng.Intn(2001)-1000) / 8
	default:
		return (rng.Float64() - 0.5) * math.Pow(10, float64(rng.Intn(40)-20))
	}
}

func genFloat(rng *rand.Rand, _ []any) any { return randFloat(rng) }
func genComplex(rng *rand.Rand, _ []any) any {
	return complex(randFloat(rng), randFloat(rng))
}

func genStrings(rng *rand.Rand, _ []any) any {
	switch rng.Intn(6) {
	case 0:
		return []string(nil)
	case 1:
		return []string{}
	}

	n := rng.Intn(7)
	out := make([]string, n)

	for i := range out {
		out[i] = randString(rng)
	}

	return out
}

func intRange(lo, hi int) gen {
	return func(rng *rand.Rand, _ []any) any { return lo + rng.Intn(hi-lo+1) }
}

func oneOf(vals ...any) gen {
	return func(rng *rand.Rand, _ []any) any { return vals[rng.Intn(len(vals))] }
}

// genFor picks the default generator for a Go parameter type.
func genFor(t reflect.Type) gen {
	switch t.Kind() {
	case reflect.String:
		return genString
	case reflect.Int:
		return genInt
	case reflect.Int64:
		if t == reflect.TypeOf(time.Duration(0)) {
			return func(rng *rand.Rand, _ []any) any { return time.Duration(randInt64(rng)) }
		}

		return genInt64
	case reflect.Uint64:
		return genUint64
	case reflect.Int32:
		return genRune
	case reflect.Uint8:
		return genByte
	case reflect.Float64:
		return genFloat
	case reflect.Complex128:
		return genComplex
	case reflect.Bool:
		return genBool
	case reflect.Slice:
		if t.Elem().Kind() == reflect.String {
			return genStrings
		}
	}

	return nil
}

// toEgo converts a Go argument into the value an Ego program would hold.
func toEgo(v any) any {
	switch x := v.(type) {
	case []string:
		a := make([]any, len(x))
		for i, e := range x {
			a[i] = e
		}

		return data.NewArrayFromInterfaces(data.StringType, a...)
	case []int:
		a := make([]any, len(x))
		for i, e := range x {
			a[i] = e
		}

		return data.NewArrayFromInterfaces(data.IntType, a...)
	case []int32:
		a := make([]any, len(x))
		for i, e := range x {
			a[i] = e
		}

		return data.NewArrayFromInterfaces(data.Int32Type, a...)
	case []int64:
		a := make([]any, len(x))
		for i, e := range x {
			a[i] = e
		}

		return data.NewArrayFromInterfaces(data.Int64Type, a...)
	case []float64:
		a := make([]any, len(x))
		for i, e := range x {
			a[i] = e
		}

		return data.NewArrayFromInterfaces(data.Float64Type, a...)
	case []float32:
		a := make([]any, len(x))
		for i, e := range x {
			a[i] = e
		}

		return data.NewArrayFromInterfaces(data.Float32Type, a...)
	case []byte:
		return data.NewArray(data.ByteType, 0).Append(append([]byte{}, x...))
	case []any:
		a := make([]any, len(x))
		for i, e := range x {
			a[i] = toEgo(e)
		}

		return data.NewArrayFromInterfaces(data.InterfaceType, a...)
	case map[string]any:
		m := data.NewMap(data.StringType, data.InterfaceType)
		for k, e := range x {
			_, _ = m.Set(k, toEgo(e))
		}

		return m
	}

	return v
}

type errMark struct{}

// norm converts Ego and Go results into one comparable shape.
func norm(v any) any {
	switch x := v.(type) {
	case nil:
		return nil
	case error:
		if isNilValue(x) {
			return nil
		}

		return errMark{}
	case *data.Array:
		if x == nil {
			return []any{}
		}

		if x.Type().Kind() == data.ByteKind {
			return append([]byte{}, x.GetBytes()...)
		}

		out := make([]any, x.Len())
		for i := range out {
			e, _ := x.Get(i)
			out[i] = norm(e)
		}

		return out
	case *data.Map:
		out := map[string]any{}

		for _, k := range x.Keys() {
			e, _, _ := x.Get(k)
			out[fmt.Sprint(k)] = norm(e)
		}

		return out
	case *data.Struct:
		out := map[string]any{}

		for _, k := range x.FieldNames(false) {
			e, _ := x.Get(k)
			out[k] = norm(e)
		}

		return out
	case data.List:
		out := make([]any, x.Len())
		for i := range out {
			out[i] = norm(x.Get(i))
		}

		return out
	case time.Time:
		return "time:" + x.Format(time.RFC3339Nano) + "|" + x.Location().String()
	case *time.Location:
		if x == nil {
			return "loc:<nil>"
		}

		return "loc:" + x.String()
	case []byte:
		return append([]byte{}, x...)
	case string, bool, int, int8, int16, int32, int64, uint, uint8, uint16, uint32, uint64, float32, float64, complex64, complex128, time.Duration:
		return x
	}

	rv := reflect.ValueOf(v)
	switch rv.Kind() {
	case reflect.Slice, reflect.Array:
		out := make([]any, rv.Len())
		for i := range out {
			out[i] = norm(rv.Index(i).Interface())
		}

		return out
	case reflect.Map:
		out := map[string]any{}
		for _, k := range rv.MapKeys() {
			out[fmt.Sprint(k.Interface())] = norm(rv.MapIndex(k).Interface())
		}

		return out
	case reflect.Ptr, reflect.Interface:
		if rv.IsNil() {
			return nil
		}
	}

	return fmt.Sprintf("%T:%v", v, v)
}

func isNilValue(v any) bool {
	if v == nil {
		return true
	}

	rv := reflect.ValueOf(v)
	switch rv.Kind() {
	case reflect.Ptr, reflect.Map, reflect.Slice, reflect.Interface, reflect.Func, reflect.Chan:
		return rv.IsNil()
	}

	return false
}

func sameFloat(a, b float64) bool {
	if math.IsNaN(a) || math.IsNaN(b) {
		return math.IsNaN(a) && math.IsNaN(b)
	}

	return math.Float64bits(a) == math.Float64bits(b)
}

// equalNorm compares two normalized values; "type" reports a difference that is only in the
// Go type of an otherwise equal number.
func equalNorm(a, b any) (equal bool, typeOnly bool) {
	switch x := a.(type) {
	case float64:
		if y, ok := b.(float64); ok {
			return sameFloat(x, y), false
		}
	case float32:
		if y, ok := b.(float32); ok {
			return sameFloat(float64(x), float64(y)), false
		}
	case complex128:
		if y, ok := b.(complex128); ok {
			return sameFloat(real(x), real(y)) && sameFloat(imag(x), imag(y)), false
		}
	case []any:
		y, ok := b.([]any)
		if !ok || len(x) != len(y) {
			return false, false
		}

		to := false

		for i := range x {
			e, t := equalNorm(x[i], y[i])
			if !e && !t {
				return false, false
			}

			to = to || t
		}

		return !to, to
	case []byte:
		y, ok := b.([]byte)

		return ok && string(x) == string(y), false
	case map[string]any:
		y, ok := b.(map[string]any)
		if !ok || len(x) != len(y) {
			return false, false
		}

		for k, v := range x {
			w, ok := y[k]
			if !ok {
				return false, false
			}

			if e, _ := equalNorm(v, w); !e {
				return false, false
			}
		}

		return true, false
	}

	if reflect.DeepEqual(a, b) {
		return true, false
	}

	// same number, different integer type?
	if ia, ok := asInt(a); ok {
		if ib, ok := asInt(b); ok && ia == ib {
			return false, true
		}
	}

	return false, false
}

func asInt(v any) (string, bool) {
	switch x := v.(type) {
	case int, int8, int16, int32, int64, uint, uint8, uint16, uint32, uint64:
		return fmt.Sprint(x), true
	case time.Duration:
		return fmt.Sprint(int64(x)), true
	}

	return "", false
}

func show(v any) string {
	switch x := v.(type) {
	case string:
		return fmt.Sprintf("%q", x)
	case []byte:
		return fmt.Sprintf("[]byte(%q)", string(x))
	case float64:
		return fmt.Sprintf("float64(%v bits=%#x)", x, math.Float64bits(x))
	case []any:
		parts := make([]string, len(x))
		for i, e := range x {
			parts[i] = show(e)
		}

		return "[" + strings.Join(parts, ", ") + "]"
	case errMark:
		return "<error>"
	}

	return fmt.Sprintf("%T(%v)", v, v)
}
