package rtpkg

// C11 rows for the wrappers that are not native pass-throughs: sort, base64, json, time, fmt,
// Roman numerals, strings.Builder.

import (
	"encoding/base64"
	"encoding/json"
	"fmt"
	"math"
	"math/rand"
	"sort"
	"strconv"
	"strings"
	"time"
)

func genInts(rng *rand.Rand, _ []any) any {
	switch rng.Intn(8) {
	case 0:
		return []int(nil)
	case 1:
		return []int{}
	}

	// up to 60 elements with many equal keys: Go's sort changes algorithm at 12 elements
	n := rng.Intn(60)
	out := make([]int, n)

	for i := range out {
		if rng.Intn(5) == 0 {
			out[i] = int(boundaryInts[rng.Intn(len(boundaryInts))])
		} else {
			out[i] = rng.Intn(9) - 4 // many duplicates
		}
	}

	return out
}

func genInt32s(rng *rand.Rand, p []any) any {
	in := genInts(rng, p).([]int)
	out := make([]int32, len(in))

	for i, v := range in {
		out[i] = int32(v)
	}

	return out
}

func genInt64s(rng *rand.Rand, p []any) any {
	in := genInts(rng, p).([]int)
	out := make([]int64, len(in))

	for i, v := range in {
		out[i] = int64(v)
	}

	return out
}

func genFloat64s(rng *rand.Rand, _ []any) any {
	if rng.Intn(8) == 0 {
		return []float64{}
	}

	n := rng.Intn(60)
	out := make([]float64, n)

	for i := range out {
		if rng.Intn(4) == 0 {
			out[i] = boundaryFloats[rng.Intn(len(boundaryFloats))]
		} else {
			out[i] = float64(rng.Intn(9) - 4)
		}
	}

	return out
}

func genFloat32s(rng *rand.Rand, p []any) any {
	in := genFloat64s(rng, p).([]float64)
	out := make([]float32, len(in))

	for i, v := range in {
		out[i] = float32(v)
	}

	return out
}

func genBytes(rng *rand.Rand, _ []any) any {
	n := rng.Intn(60)
	out := make([]byte, n)

	for i := range out {
		if rng.Intn(3) == 0 {
			out[i] = byte(rng.Intn(256))
		} else {
			out[i] = byte(rng.Intn(5)) // many equal keys
		}
	}

	return out
}

func genStringsNonNil(rng *rand.Rand, p []any) any {
	s := genStrings(rng, p).([]string)
	if s == nil {
		return []string{}
	}

	// half of the time a long array drawn from few distinct words (equal keys, more than 12 elements)
	if rng.Intn(2) == 0 {
		n := 13 + rng.Intn(40)
		s = make([]string, n)

		for i := range s {
			s[i] = words[rng.Intn(8)]
		}
	}

	return s
}

// ---- enumerated domains (the same in both tiers) ----

// base64Pattern is a fixed byte pattern that visits every byte value; its prefixes of length 0..64 are enumerated.
func base64Pattern(n int) string {
	b := make([]byte, n)
	for i := range b {
		b[i] = byte(i*37 + 251)
	}

	return string(b)
}

func base64Directed(encode bool) [][]any {
	var out [][]any

	for n := 0; n <= 64; n++ {
		for _, fill := range []func(int) string{base64Pattern, func(k int) string { return strings.Repeat("\xff", k) }, func(k int) string { return strings.Repeat("\x00", k) }} {
			p := fill(n)
			if encode {
				out = append(out, []any{p})
			} else {
				out = append(out, []any{base64.StdEncoding.EncodeToString([]byte(p))})
			}
		}
	}

	return out
}

func romanDirected(f func(n int) any) [][]any {
	out := make([][]any, 0, 3999)
	for n := 1; n <= 3999; n++ {
		out = append(out, []any{f(n)})
	}

	return out
}

// intBoundaries: the values around every power-of-two boundary an integer conversion can trip over
func intBoundaries() []int64 {
	out := []int64{0, 1, -1, 2, -2, 9, 10, 11, 35, 36, 37, 99, 100, 101}
	for _, b := range []uint{7, 8, 15, 16, 31, 32, 53, 62} {
		v := int64(1) << b
		out = append(out, v-1, v, v+1, -v+1, -v, -v-1)
	}

	return append(out, math.MaxInt64, math.MaxInt64-1, math.MinInt64, math.MinInt64+1)
}

func baseDirected() [][]any {
	var out [][]any

	for base := 2; base <= 36; base++ {
		for _, v := range intBoundaries() {
			out = append(out, []any{v, base})
		}

		out = append(out, []any{int64(base), base}, []any{int64(base - 1), base}, []any{int64(-base), base}, []any{int64(base) * int64(base), base})
	}

	return out
}

func ubaseDirected() [][]any {
	var out [][]any

	for base := 2; base <= 36; base++ {
		for _, v := range intBoundaries() {
			out = append(out, []any{uint64(v), base})
		}
	}

	return out
}

func wrap1[T any](vals []T) [][]any {
	out := make([][]any, len(vals))
	for i, v := range vals {
		out[i] = []any{v}
	}

	return out
}

func intsOf[T int | int8 | int16 | int32 | int64 | uint8](lo, hi int64) []T {
	var out []T

	for _, v := range intBoundaries() {
		if v >= lo && v <= hi {
			out = append(out, T(v))
		}
	}

	return out
}

var floatBoundaries = []float64{0, math.Copysign(0, -1), 1, -1, 0.1, 0.5, 1e-7, 1e-6, 1e20, 1e21, 1e22, -1e21, 123456789.125, float64(1 << 53), float64(1<<53) + 2, math.MaxInt64, math.MaxFloat32,
	math.SmallestNonzeroFloat32, math.MaxFloat64, -math.MaxFloat64, math.SmallestNonzeroFloat64, 2.2250738585072014e-308, 1.7976931348623157e308, 5e-324, math.Pi, math.NaN(), math.Inf(1), math.Inf(-1)}

var stringBoundaries = []string{"", " ", "a", "\x00", "\t\n\r", "\"", "\\", "/", "<>&", "\u2028\u2029", "é", "😀", "\xff", "a\xc0\xafb", "\xed\xa0\x80", "\u007f", "\ufffd", "null", "true", "1", strings.Repeat("x", 300)}

func sortedCopy[T any](x []T, f func([]T)) []T {
	c := append([]T{}, x...)
	f(c)

	return c
}

// sort rows: Ego returns (array, error) and also sorts its argument in place; r2 observes the argument.
func sortRow[T any](name string, g gen, f func([]T)) row {
	return row{Name: name, Snippet: "r0, r1 := " + name + "(a0)\nr2 := a0", NRet: 3, Gens: []gen{g},
		Go: func(x []T) ([]T, error, []T) { c := sortedCopy(x, f); return c, nil, c }}
}

func taggedKeys(rng *rand.Rand, _ []any) any {
	// value = key*100 + tag; tags are unique per element so stability is observable
	// (up to 60 elements: Go's own unstable sort is an insertion sort, hence stable, below 13)
	n := rng.Intn(60)
	out := make([]int, n)

	for i := range out {
		out[i] = (rng.Intn(4))*100 + i
	}

	return out
}

var layouts = []string{time.ANSIC, time.UnixDate, time.RubyDate, time.RFC822, time.RFC822Z, time.RFC850, time.RFC1123, time.RFC1123Z, time.RFC3339, time.RFC3339Nano, time.Kitchen,
	time.Stamp, time.StampMilli, time.StampMicro, time.StampNano, time.DateTime, time.DateOnly, time.TimeOnly, "2006-01-02", "1/2/2006 15:04", "Jan _2 06 3:04PM", "Monday, January 2 2006 MST -07:00",
	"2006-01-02T15:04:05.000Z07:00", "02 Jan 06 15:04 -0700", "15h04m", "2006", "", "06-1-2 .000000 pm", "__2 002", "Z07:00:00 -07 MST"}

func genLayout(rng *rand.Rand, _ []any) any { return layouts[rng.Intn(len(layouts))] }

func genUnixSec(rng *rand.Rand, _ []any) any {
	switch rng.Intn(5) {
	case 0:
		return []int64{0, -1, 1, 951782400, 1709164800, 253402300799, 253402300800, -62135596800, -62135596801, 1 << 31, 1<<31 - 1, -(1 << 31)}[rng.Intn(12)]
	case 1:
		return rng.Int63n(4102444800) // 1970..2100
	default:
		return rng.Int63n(8e10) - 4e10
	}
}

func genNsec(rng *rand.Rand, _ []any) any {
	return []int64{0, 1, 999999999, 1000000000, -1, 500000000, 123456789, 120000000, 1e9 + 5}[rng.Intn(9)]
}

// a text that is often a valid rendering under the layout in prev[0]
func genTimeText(rng *rand.Rand, prev []any) any {
	layout, _ := prev[0].(string)
	t := time.Unix(genUnixSec(rng, nil).(int64), genNsec(rng, nil).(int64)).UTC()

	switch rng.Intn(6) {
	case 0:
		return randString(rng)
	case 1:
		return t.Format(layouts[rng.Intn(len(layouts))])
	case 2:
		s := t.Format(layout)
		if len(s) > 0 {
			i := rng.Intn(len(s))

			return s[:i] + string(rune('0'+rng.Intn(10))) + s[i+1:]
		}

		return s
	default:
		return t.Format(layout)
	}
}

var durationDict = []string{"0", "1s", "-1s", "+5s", "1h30m", "1.5h", "-2m3.5s", "1µs", "1us", "1μs", "100ns", ".5s", "5.s", "1h 30m", "9223372036854775807ns", "9223372036854775808ns",
	"2562047h47m16.854775807s", "2562047h47m16.854775808s", "-2562047h47m16.854775808s", "1e3s", "1", "s", "", "1m1m", "0.000000001s", "0.0000000001s", "1h1s1m", "3000000h", "1ms2us3ns", "-0", "+0s", "1.s", "..5s", "1sm", "  1s", "1S", "1H"}

type fmtKind struct {
	name  string
	verbs string
	g     gen
}

var fmtKinds = []fmtKind{
	{"int", "dboOxXcqUv", func(rng *rand.Rand, _ []any) any { return int(randInt64(rng)) }},
	{"int32", "dboOxXcqUv", func(rng *rand.Rand, p []any) any { return genRune(rng, p) }},
	{"int64", "dboOxXcqUv", genInt64},
	{"byte", "dboOxXcqUv", func(rng *rand.Rand, _ []any) any { return byte(rng.Intn(256)) }},
	{"float64", "eEfFgGbxXv", genFloat},
	{"float32", "eEfFgGbxXv", func(rng *rand.Rand, _ []any) any { return float32(randFloat(rng)) }},
	{"string", "sqxXv", func(rng *rand.Rand, _ []any) any { return randString(rng) }},
	{"bool", "tv", genBool},
	{"complex128", "eEfFgGv", genComplex},
}

func genFormat(verbs string) gen {
	return func(rng *rand.Rand, _ []any) any {
		var b strings.Builder

		if rng.Intn(4) == 0 {
			b.WriteString("<")
		}

		b.WriteByte('%')

		for _, f := range "+-# 0" {
			if rng.Intn(4) == 0 {
				b.WriteRune(f)
			}
		}

		switch rng.Intn(4) {
		case 0:
			b.WriteString(strconv.Itoa(rng.Intn(24)))
		}

		switch rng.Intn(4) {
		case 0:
			b.WriteString("." + strconv.Itoa(rng.Intn(12)))
		case 1:
			if rng.Intn(3) == 0 {
				b.WriteString(".")
			}
		}

		v := verbs[rng.Intn(len(verbs))]
		if rng.Intn(12) == 0 {
			v = "dsvxqtefgcUbo"[rng.Intn(13)] // a verb that may not fit the operand: Go prints %!v(type=value)
		}

		b.WriteByte(v)

		if rng.Intn(4) == 0 {
			b.WriteString("> %%")
		}

		// %#v is rewritten to %v by the runtime on purpose (print.go: "Go-syntax representation is unsupported")
		if f := b.String(); !(v == 'v' && strings.Contains(f, "#")) {
			return f
		}

		return strings.ReplaceAll(b.String(), "#", "")
	}
}

func fmtVerbOf(format string) string {
	i := strings.IndexByte(format, '%')
	for j := i + 1; j < len(format); j++ {
		c := format[j]
		if (c >= 'a' && c <= 'z') || (c >= 'A' && c <= 'Z') {
			hash := ""
			if strings.Contains(format[i:j], "#") {
				hash = "#"
			}

			return hash + string(c)
		}
	}

	return "?"
}

func genJSONValue(depth int) gen {
	return func(rng *rand.Rand, p []any) any {
		k := rng.Intn(9)
		if depth <= 0 && k >= 6 {
			k = rng.Intn(6)
		}

		switch k {
		case 0:
			return randString(rng)
		case 1:
			return int(randInt64(rng))
		case 2:
			return randFloat(rng)
		case 3:
			return rng.Intn(2) == 0
		case 4:
			return float64(rng.Intn(2000)-1000) / 4
		case 5:
			return words[rng.Intn(len(words))]
		case 6:
			n := rng.Intn(4)
			out := make([]any, n)

			for i := range out {
				out[i] = genJSONValue(depth-1)(rng, p)
			}

			return out
		case 7:
			n := rng.Intn(4)
			out := map[string]any{}

			for i := 0; i < n; i++ {
				out[words[1+rng.Intn(len(words)-1)]] = genJSONValue(depth-1)(rng, p)
			}

			return out
		default:
			return genStringsNonNil(rng, p)
		}
	}
}

var jsonTexts = []string{`null`, `true`, `1`, `-0`, `1.5e3`, `1e400`, `"a"`, `"é😀"`, `"\ud800"`, `[]`, `[1,"a",null,{"b":[true]}]`, `{}`, `{"a":1,"a":2}`, `{"a":{"b":{"c":[1,2,3]}}}`,
	`{"a":1,}`, `[1,2`, ``, ` `, `nul`, `{"a"}`, `01`, `1 2`, `"a\x"`, "\"a\nb\"", `{"é":"\t"}`, `[1.0,2.50,1e2]`, `9007199254740993`, `{"A":1,"a":2}`, "\xff", `"` + "\xff" + `"`, `[[[[[[[[1]]]]]]]]`, ` [ 1 , 2 ] `}

func customRows() []row {
	intsRows := []row{
		sortRow[int]("sort.Ints", genInts, sort.Ints),
		sortRow[string]("sort.Strings", genStringsNonNil, sort.Strings),
		sortRow[float64]("sort.Float64s", genFloat64s, sort.Float64s),
		sortRow[int32]("sort.Int32s", genInt32s, func(x []int32) { sort.Slice(x, func(i, j int) bool { return x[i] < x[j] }) }),
		sortRow[int64]("sort.Int64s", genInt64s, func(x []int64) { sort.Slice(x, func(i, j int) bool { return x[i] < x[j] }) }),
		sortRow[byte]("sort.Bytes", genBytes, func(x []byte) { sort.Slice(x, func(i, j int) bool { return x[i] < x[j] }) }),
		// float32: Go has no Float32s; the order sort.Float64s defines (NaN first) applied to float32 values
		sortRow[float32]("sort.Float32s", genFloat32s, func(x []float32) {
			sort.SliceStable(x, func(i, j int) bool { return x[i] < x[j] || (x[i] != x[i] && x[j] == x[j]) })
		}),
	}

	for i := range intsRows {
		if intsRows[i].Name == "sort.Float32s" || intsRows[i].Name == "sort.Float64s" {
			// equal keys (+0/-0, several NaN) may come out in either order from an unstable sort: compare as ordered permutations
			intsRows[i].Check = checkFloatSort
		}
	}

	for i := range intsRows {
		switch intsRows[i].Name {
		case "sort.Int32s":
			intsRows[i].Directed = [][]any{{[]int32{3, math.MinInt32, math.MaxInt32, -1}}}
		case "sort.Int64s":
			intsRows[i].Directed = [][]any{{[]int64{3, math.MinInt64, math.MaxInt64, -1}}}
		case "sort.Ints":
			long := make([]int, 100)
			for k := range long {
				long[k] = (k * 7) % 3
			}

			intsRows[i].Directed = [][]any{{[]int{3, math.MinInt64, math.MaxInt64, -1}}, {long}, {[]int{5, 4, 3, 2, 1, 0, 5, 4, 3, 2, 1, 0, 5}}}
		case "sort.Strings":
			long := make([]string, 64)
			for k := range long {
				long[k] = []string{"b", "a", "", "é"}[(k*5)%4]
			}

			intsRows[i].Directed = [][]any{{long}}
		case "sort.Float64s":
			intsRows[i].Directed = [][]any{{[]float64{1, math.NaN(), math.Inf(-1), math.Copysign(0, -1), 0}}}
		}
	}

	rows := append([]row{}, intsRows...)

	rows = append(rows,
		row{Name: "sort.Sort/int", Snippet: "r0, r1 := sort.Sort(a0)\nr2 := a0", NRet: 3, Gens: []gen{genInts},
			Go: func(x []int) ([]int, error, []int) { c := sortedCopy(x, sort.Ints); return c, nil, c }},
		row{Name: "sort.Sort/string", Snippet: "r0, r1 := sort.Sort(a0)\nr2 := a0", NRet: 3, Gens: []gen{genStringsNonNil},
			Go: func(x []string) ([]string, error, []string) { c := sortedCopy(x, sort.Strings); return c, nil, c }},
		row{Name: "sort.Sort/int32", Snippet: "r0, r1 := sort.Sort(a0)\nr2 := a0", NRet: 3, Gens: []gen{genInt32s}, Directed: [][]any{{[]int32{3, math.MinInt32, math.MaxInt32, -1}}},
			Go: func(x []int32) ([]int32, error, []int32) {
				c := sortedCopy(x, func(y []int32) { sort.Slice(y, func(i, j int) bool { return y[i] < y[j] }) })

				return c, nil, c
			}},
		row{Name: "sort.Stable/int32", Snippet: "r0, r1 := sort.Stable(a0)\nr2 := a0", NRet: 3, Gens: []gen{genInt32s}, Directed: [][]any{{[]int32{3, math.MinInt32, math.MaxInt32, -1}}},
			Go: func(x []int32) ([]int32, error, []int32) {
				c := sortedCopy(x, func(y []int32) { sort.Slice(y, func(i, j int) bool { return y[i] < y[j] }) })

				return c, nil, c
			}},
		row{Name: "sort.IsSorted/float64", Snippet: "r0, r1 := sort.IsSorted(a0)", NRet: 2, Go: func(x []float64) (bool, error) { return sort.Float64sAreSorted(x), nil }, Gens: []gen{genFloat64s},
			Directed: [][]any{{[]float64{1, math.NaN()}}, {[]float64{math.NaN(), 1}}, {[]float64{math.NaN(), math.NaN()}}}},
		row{Name: "sort.Stable/int", Snippet: "r0, r1 := sort.Stable(a0)\nr2 := a0", NRet: 3, Gens: []gen{genInts},
			Go: func(x []int) ([]int, error, []int) { c := sortedCopy(x, sort.Ints); return c, nil, c }},
		row{Name: "sort.Stable/string", Snippet: "r0, r1 := sort.Stable(a0)\nr2 := a0", NRet: 3, Gens: []gen{genStringsNonNil},
			Go: func(x []string) ([]string, error, []string) { c := sortedCopy(x, sort.Strings); return c, nil, c }},
		// Slice: key = value/100; unstable, so the oracle is "ordered by key and a permutation of the input"
		row{Name: "sort.Slice", Snippet: "r0, r1 := sort.Slice(a0, func(i int, j int) bool { return a0[i]/100 < a0[j]/100 })\nr2 := a0", NRet: 3, Gens: []gen{taggedKeys},
			Go: func(x []int) []int { return x }, Check: checkSlice(false)},
		row{Name: "sort.SliceStable", Snippet: "r0, r1 := sort.SliceStable(a0, func(i int, j int) bool { return a0[i]/100 < a0[j]/100 })\nr2 := a0", NRet: 3, Gens: []gen{taggedKeys},
			Go: func(x []int) []int { return x }, Check: checkSlice(true)},
		row{Name: "sort.Search", Snippet: "r0, r1 := sort.Search(len(a0), func(i int) bool { return a0[i] >= a1 })", NRet: 2,
			Gens: []gen{func(rng *rand.Rand, p []any) any { return sortedCopy(genInts(rng, p).([]int), sort.Ints) }, intRange(-6, 6)},
			Go: func(x []int, v int) (int, error) {
				return sort.Search(len(x), func(i int) bool { return x[i] >= v }), nil
			}},
		row{Name: "sort.SearchInts", Go: func(x []int, v int) (int, error) { return sort.SearchInts(x, v), nil }, Gens: []gen{genInts, intRange(-6, 6)}},
		row{Name: "sort.SearchFloat64s", Go: func(x []float64, v float64) (int, error) { return sort.SearchFloat64s(x, v), nil }, Gens: []gen{genFloat64s, nil}},
		row{Name: "sort.SearchStrings", Go: func(x []string, v string) (int, error) { return sort.SearchStrings(x, v), nil }, Gens: []gen{genStringsNonNil, nil}},
		row{Name: "sort.IntsAreSorted", Go: func(x []int) (bool, error) { return sort.IntsAreSorted(x), nil }, Gens: []gen{genMaybeSortedInts}},
		row{Name: "sort.Float64sAreSorted", Go: func(x []float64) (bool, error) { return sort.Float64sAreSorted(x), nil }, Gens: []gen{genFloat64s},
			Directed: [][]any{{[]float64{1, math.NaN()}}, {[]float64{math.NaN(), 1}}, {[]float64{math.Inf(-1), math.NaN()}}}},
		row{Name: "sort.StringsAreSorted", Go: func(x []string) (bool, error) { return sort.StringsAreSorted(x), nil }, Gens: []gen{genStringsNonNil}},
		row{Name: "sort.IsSorted/int", Snippet: "r0, r1 := sort.IsSorted(a0)", NRet: 2, Go: func(x []int) (bool, error) { return sort.IntsAreSorted(x), nil }, Gens: []gen{genMaybeSortedInts}},
		row{Name: "sort.IsSorted/string", Snippet: "r0, r1 := sort.IsSorted(a0)", NRet: 2, Go: func(x []string) (bool, error) { return sort.StringsAreSorted(x), nil }, Gens: []gen{genStringsNonNil}},

		// ---- base64 ----
		row{Name: "base64.Encode", Go: func(s string) string { return base64.StdEncoding.EncodeToString([]byte(s)) }, Directed: base64Directed(true)},
		row{Name: "base64.Decode", IgnoreErrValue: true, Go: func(s string) (string, error) { b, err := base64.StdEncoding.DecodeString(s); return string(b), err },
			Gens: []gen{func(rng *rand.Rand, p []any) any {
				s := base64.StdEncoding.EncodeToString([]byte(randString(rng)))

				switch rng.Intn(6) {
				case 0:
					return strings.TrimRight(s, "=")
				case 1:
					return s + "="
				case 2:
					return base64.URLEncoding.EncodeToString([]byte(randString(rng)))
				case 3:
					return genString(rng, p)
				case 4:
					return s[:len(s)/2] + "\n" + s[len(s)/2:]
				}

				return s
			}}},
		row{Name: "base64.Decode/roundtrip", Snippet: "e := base64.Encode(a0)\nr0, r1 := base64.Decode(e)", NRet: 2, Go: func(s string) (string, error) { return s, nil }, Directed: base64Directed(true)},
		row{Name: "base64.Decode/valid", Snippet: "r0, r1 := base64.Decode(a0)", NRet: 2, Directed: base64Directed(false),
			Go:   func(s string) (string, error) { b, err := base64.StdEncoding.DecodeString(s); return string(b), err },
			Gens: []gen{func(rng *rand.Rand, _ []any) any { return base64.StdEncoding.EncodeToString([]byte(randString(rng))) }}},

		// ---- Roman numerals: documented Ego additions; the documented round trip is checked ----
		// every n in 1..3999, in both tiers: Rtoi(Itor(n)) == n, and Itor(n) is the canonical numeral
		row{Name: "strconv.Itor/roundtrip", Snippet: "s, e := strconv.Itor(a0)\nr0, r1 := strconv.Rtoi(s)\nr2 := e\nr3 := s", NRet: 4, Gens: []gen{intRange(1, 3999)},
			Directed: romanDirected(func(n int) any { return n }),
			Go:       func(n int) (int, error, error, string) { return n, nil, nil, roman(n) }},
		// documented: case-insensitive, surrounding white space ignored
		row{Name: "strconv.Rtoi/lowercase-padded", Snippet: "r0, r1 := strconv.Rtoi(a0)", NRet: 2,
			Directed: romanDirected(func(n int) any { return " " + strings.ToLower(roman(n)) + "\t" }),
			Gens:     []gen{func(rng *rand.Rand, _ []any) any { return strings.ToLower(roman(1 + rng.Intn(3999))) }},
			Go: func(s string) (int, error) {
				return unroman(strings.ToUpper(strings.TrimSpace(s))), nil
			}},
		// documented: empty or all-blank text gives 0 and no error; text that is not a numeral gives an error
		row{Name: "strconv.Rtoi/edges", Snippet: "r0, r1 := strconv.Rtoi(a0)", NRet: 2, IgnoreErrValue: true,
			Directed: [][]any{{""}, {" "}, {"\t \n"}, {"ABC"}, {"12"}, {"M M"}, {"Z"}, {"-X"}},
			Gens:     []gen{oneOf("", "  ", "ABC", "X1", "Q", "1994", "mcmxciv!", "é")},
			Go: func(s string) (int, error) {
				if strings.TrimSpace(s) == "" {
					return 0, nil
				}

				return 0, fmt.Errorf("not a numeral")
			}},
		row{Name: "strconv.Rtoi/canonical", Snippet: "n, e := strconv.Rtoi(a0)\nr0, r1 := strconv.Itor(n)\nr2 := e", NRet: 3,
			Directed: romanDirected(func(n int) any { return roman(n) }),
			Gens:     []gen{func(rng *rand.Rand, _ []any) any { return roman(1 + rng.Intn(3999)) }},
			Go:       func(s string) (string, error, error) { return s, nil, nil }},
		row{Name: "strconv.Itor/range", Snippet: "r0, r1 := strconv.Itor(a0)", NRet: 2, IgnoreErrValue: true,
			Directed: [][]any{{0}, {4000}, {-1}, {1}, {3999}, {4001}, {math.MaxInt64}, {math.MinInt64}, {-3999}},
			Gens: []gen{func(rng *rand.Rand, _ []any) any {
				return []int{0, -1, 4000, 3999, 1, 4001, math.MaxInt64, math.MinInt64, 2024, 49, 944}[rng.Intn(11)]
			}},
			Go: func(n int) (string, error) {
				if n < 1 || n > 3999 {
					return "", fmt.Errorf("range")
				}

				return roman(n), nil
			}},

		// ---- integer <-> text in every base 2..36 at the width boundaries (enumerated, both tiers) ----
		row{Name: "strconv.FormatInt/roundtrip", Snippet: "s := strconv.FormatInt(a0, a1)\nr0, r1 := strconv.ParseInt(s, a1, 64)\nr2 := s\nr3, r4 := strconv.ParseInt(s, a1, 32)", NRet: 5, IgnoreErrValue: false,
			Directed: baseDirected(), Gens: []gen{genInt64, intRange(2, 36)},
			Go: func(v int64, base int) (int64, error, string, int64, error) {
				s := strconv.FormatInt(v, base)
				a, e := strconv.ParseInt(s, base, 64)
				b, e2 := strconv.ParseInt(s, base, 32)

				return a, e, s, b, e2
			}},
		row{Name: "strconv.FormatUint/roundtrip", Snippet: "s := strconv.FormatUint(a0, a1)\nr0, r1 := strconv.ParseUint(s, a1, 64)\nr2 := s\nr3, r4 := strconv.ParseUint(s, a1, 32)", NRet: 5,
			Directed: ubaseDirected(), Gens: []gen{genUint64, intRange(2, 36)},
			Go: func(v uint64, base int) (uint64, error, string, uint64, error) {
				s := strconv.FormatUint(v, base)
				a, e := strconv.ParseUint(s, base, 64)
				b, e2 := strconv.ParseUint(s, base, 32)

				return a, e, s, b, e2
			}},
		row{Name: "strconv.Itoa/roundtrip", Snippet: "s := strconv.Itoa(a0)\nr0, r1 := strconv.Atoi(s)\nr2 := s", NRet: 3,
			Directed: wrap1(intsOf[int](math.MinInt64, math.MaxInt64)), Gens: []gen{genInt},
			Go: func(v int) (int, error, string) {
				s := strconv.Itoa(v)
				a, e := strconv.Atoi(s)

				return a, e, s
			}},

		// ---- json Marshal then Unmarshal for every scalar kind at its boundaries (generic and typed destination) ----
		jsonScalarRow("int", "int", wrap1(intsOf[int](math.MinInt64, math.MaxInt64)), func(rng *rand.Rand, _ []any) any { return int(randInt64(rng)) },
			func(b []byte) (error, any) { var v int; e := json.Unmarshal(b, &v); return e, v }),
		jsonScalarRow("int32", "int32", wrap1(intsOf[int32](math.MinInt32, math.MaxInt32)), func(rng *rand.Rand, _ []any) any { return int32(randInt64(rng)) },
			func(b []byte) (error, any) { var v int32; e := json.Unmarshal(b, &v); return e, v }),
		jsonScalarRow("int64", "int64", wrap1(intsOf[int64](math.MinInt64, math.MaxInt64)), genInt64,
			func(b []byte) (error, any) { var v int64; e := json.Unmarshal(b, &v); return e, v }),
		jsonScalarRow("byte", "byte", wrap1(intsOf[uint8](0, 255)), func(rng *rand.Rand, _ []any) any { return byte(rng.Intn(256)) },
			func(b []byte) (error, any) { var v uint8; e := json.Unmarshal(b, &v); return e, v }),
		jsonScalarRow("int8", "int8", wrap1(intsOf[int8](math.MinInt8, math.MaxInt8)), func(rng *rand.Rand, _ []any) any { return int8(randInt64(rng)) },
			func(b []byte) (error, any) { var v int8; e := json.Unmarshal(b, &v); return e, v }),
		jsonScalarRow("int16", "int16", wrap1(intsOf[int16](math.MinInt16, math.MaxInt16)), func(rng *rand.Rand, _ []any) any { return int16(randInt64(rng)) },
			func(b []byte) (error, any) { var v int16; e := json.Unmarshal(b, &v); return e, v }),
		jsonScalarRow("float32", "float32", wrap1([]float32{0, 1, -1, 0.1, math.MaxFloat32, math.SmallestNonzeroFloat32, 16777216, 16777217, 1e-7, 1e21, float32(math.Inf(1)), float32(math.NaN())}),
			func(rng *rand.Rand, _ []any) any { return float32(randFloat(rng)) },
			func(b []byte) (error, any) { var v float32; e := json.Unmarshal(b, &v); return e, v }),
		jsonScalarRow("float64", "float64", wrap1(floatBoundaries), genFloat,
			func(b []byte) (error, any) { var v float64; e := json.Unmarshal(b, &v); return e, v }),
		jsonScalarRow("string", "string", wrap1(stringBoundaries), func(rng *rand.Rand, _ []any) any { return randString(rng) },
			func(b []byte) (error, any) { var v string; e := json.Unmarshal(b, &v); return e, v }),
		jsonScalarRow("bool", "bool", [][]any{{true}, {false}}, genBool,
			func(b []byte) (error, any) { var v bool; e := json.Unmarshal(b, &v); return e, v }),

		// ---- json ----
		row{Name: "json.Marshal", Go: func(v any) ([]byte, error) { return json.Marshal(v) }, Gens: []gen{genJSONValue(2)}, IgnoreErrValue: true,
			Directed: [][]any{{[]any{map[string]any{"tab\there": 1}}}, {[]any{map[string]any{"quo\"te": "v"}}}, {map[string]any{"back\\slash": []any{map[string]any{"\n": true}}}}, {[]any{map[string]any{"<&>": 1}}}}},
		row{Name: "json.MarshalIndent", Go: func(v any, p, i string) ([]byte, error) { return json.MarshalIndent(v, p, i) }, IgnoreErrValue: true,
			Gens:     []gen{genJSONValue(2), oneOf("", " ", "\t", ">>", "é"), oneOf("", "  ", "\t", "   ", "--")},
			Directed: [][]any{{[]any{map[string]any{"tab\there": 1}}, "", "  "}}},
		row{Name: "json.Unmarshal", Snippet: "var v interface{}\nr0 := json.Unmarshal(a0, &v)\nr1 := v", NRet: 2, IgnoreErrValue: true,
			Gens: []gen{func(rng *rand.Rand, p []any) any {
				if rng.Intn(2) == 0 {
					return []byte(jsonTexts[rng.Intn(len(jsonTexts))])
				}

				b, err := json.Marshal(genJSONValue(3)(rng, p))
				if err != nil {
					return []byte("null")
				}

				if rng.Intn(6) == 0 && len(b) > 1 {
					b = b[:rng.Intn(len(b))]
				}

				return b
			}},
			Go: func(b []byte) (error, any) {
				var v any

				err := json.Unmarshal(b, &v)

				return err, v
			}},
		row{Name: "json.Unmarshal/roundtrip", Snippet: "b, e := json.Marshal(a0)\nvar v interface{}\nr0 := json.Unmarshal(b, &v)\nr1 := v\nr2 := e", NRet: 3, Gens: []gen{genJSONValue(2)},
			Go: func(x any) (error, any, error) {
				b, e := json.Marshal(x)
				if e != nil {
					return fmt.Errorf("x"), nil, e
				}

				var v any

				err := json.Unmarshal(b, &v)

				return err, v, nil
			}, IgnoreErrValue: true},

		// ---- time ----
		row{Name: "time.Parse", Go: time.Parse, Gens: []gen{genLayout, genTimeText}, IgnoreErrValue: true},
		row{Name: "time.Unix", Go: time.Unix, Gens: []gen{genUnixSec, genNsec}},
		row{Name: "time.Unix/Format", Snippet: "t := time.Unix(a0, a1)\nr0 := t.Format(a2)\nr1 := t.String()\nr2 := t.Hour()\nr3, r4, r5 := t.Clock()", NRet: 6, Gens: []gen{genUnixSec, genNsec, genLayout},
			Go: func(s, ns int64, layout string) (string, string, int, int, int, int) {
				t := time.Unix(s, ns)
				h, m, sec := t.Clock()

				return t.Format(layout), t.String(), t.Hour(), h, m, sec
			}},
		row{Name: "time.Unix/Compare", Snippet: "t := time.Unix(a0, a1)\nu := time.Unix(a2, a3)\nr0 := t.Before(u)\nr1 := t.After(u)\nr2 := t.Equal(u)\nd := t.Sub(u)\nr3 := d.String()\nw := u.Add(d)\nr4 := w.Equal(t)", NRet: 5,
			Gens: []gen{genUnixSec, genNsec, genUnixSec, genNsec},
			Go: func(a, an, b, bn int64) (bool, bool, bool, string, bool) {
				t, u := time.Unix(a, an), time.Unix(b, bn)
				d := t.Sub(u)

				return t.Before(u), t.After(u), t.Equal(u), d.String(), u.Add(d).Equal(t)
			}},
		row{Name: "time.Date", Snippet: "t := time.Date(a0, time.Month(a1), a2, a3, a4, a5, a6, time.FixedZone(\"UTC\", 0))\nr0 := t.String()\nr1 := t.Format(a7)", NRet: 2,
			Gens: []gen{intRange(-50, 3100), intRange(-14, 27), intRange(-40, 70), intRange(-30, 50), intRange(-70, 130), intRange(-70, 130), oneOf(0, 1, 999999999, 1000000000, -1), genLayout},
			Go: func(y, mo, d, h, mi, s, ns int, layout string) (string, string) {
				t := time.Date(y, time.Month(mo), d, h, mi, s, ns, time.UTC)

				return t.String(), t.Format(layout)
			}},
		row{Name: "time.FixedZone", Snippet: "l := time.FixedZone(a0, a1)\nt := time.Date(2024, time.Month(7), 4, 8, 30, 0, 0, l)\nr0 := t.String()\nr1 := t.Format(a2)", NRet: 2,
			Gens: []gen{oneOf("EST", "", "UTC", "X Y", "é"), oneOf(0, -18000, 3600, 19800, 86399, -86399, 90000, 1, -1), genLayout},
			Go: func(name string, off int, layout string) (string, string) {
				t := time.Date(2024, 7, 4, 8, 30, 0, 0, time.FixedZone(name, off))

				return t.String(), t.Format(layout)
			}},
		row{Name: "time.LoadLocation", Go: time.LoadLocation, Gens: []gen{oneOf("UTC", "", "Local", "America/New_York", "Europe/Paris", "Asia/Kolkata", "Nope/Zone", "../etc/passwd", "utc", "EST")}, IgnoreErrValue: true},
		row{Name: "time.ParseDuration", Go: time.ParseDuration, Gens: []gen{func(rng *rand.Rand, p []any) any {
			if rng.Intn(3) == 0 {
				return time.Duration(randInt64(rng)).String()
			}

			return durationDict[rng.Intn(len(durationDict))]
		}}, Check: checkParseDuration},
		row{Name: "time.ParseDuration/methods", Snippet: "d, e := time.ParseDuration(a0)\nr0 := d.String()\nr1 := d.Hours()\nr2 := d.Minutes()\nr3 := d.Seconds()\nr4 := d.Milliseconds()\nr5 := d.Microseconds()\nr6 := d.Nanoseconds()", NRet: 7,
			Gens: []gen{func(rng *rand.Rand, _ []any) any { return time.Duration(randInt64(rng)).String() }},
			Go: func(s string) (string, float64, float64, float64, int64, int64, int64) {
				d, _ := time.ParseDuration(s)

				return d.String(), d.Hours(), d.Minutes(), d.Seconds(), d.Milliseconds(), d.Microseconds(), d.Nanoseconds()
			}},

		// ---- strings.Builder: the accumulated text and length (the documented return values of Write* differ from Go's on purpose) ----
		row{Name: "strings.Builder#methods", Snippet: "var b strings.Builder\nb.WriteString(a0)\nb.WriteByte(a1)\nb.WriteRune(a2)\nb.WriteString(a3)\nr0 := b.String()\nr1 := b.Len()", NRet: 2,
			Go: func(s string, c byte, r int32, s2 string) (string, int) {
				var b strings.Builder

				b.WriteString(s)
				b.WriteByte(c)
				b.WriteRune(r)
				b.WriteString(s2)

				return b.String(), b.Len()
			}},

		// ---- fmt.Sprint: documented to follow Go's spacing rule ----
		row{Name: "fmt.Sprint", Snippet: "r0 := fmt.Sprint(a0, a1, a2)", NRet: 1, Gens: []gen{genScalar, genScalar, genScalar}, Go: func(a, b, c any) string { return fmt.Sprint(a, b, c) }},
	)

	// ---- fmt.Sprintf: every scalar kind x verb x flag/width/precision combination ----
	for _, k := range fmtKinds {
		k := k
		rows = append(rows, row{Name: "fmt.Sprintf/" + k.name, Snippet: "r0 := fmt.Sprintf(a0, a1)", NRet: 1, Gens: []gen{genFormat(k.verbs), k.g},
			Go: func(f string, v any) string { return fmt.Sprintf(f, v) }, Check: checkSprintf})
	}

	rows = append(rows, row{Name: "fmt.Sprintf/args", Snippet: "r0 := fmt.Sprintf(a0, a1, a2, a3)", NRet: 1,
		Gens: []gen{oneOf("%d %s %v", "%[2]s %[1]d %[3]v", "%*d|%s|%v", "%d %d", "%d %s %v %d", "%[3]v %[3]v", "%[5]d", "%v %v %v", "%6.2f|%-8q|%t", "%s", "%!", "%", "100%%", "%z %d", "%[1]*[2]d"),
			func(rng *rand.Rand, _ []any) any { return rng.Intn(30) - 5 }, func(rng *rand.Rand, _ []any) any { return randString(rng) }, genScalar},
		Go: func(f string, a, b, c any) string { return fmt.Sprintf(f, a, b, c) }, Check: checkSprintf})

	return rows
}

// genScalar: strings, integers and booleans. Floating point values are left out on purpose: without a verb
// the text of a float is Ego's own default format (documented for Print/Println), not Go's.
func genScalar(rng *rand.Rand, p []any) any {
	switch rng.Intn(6) {
	case 0:
		return randString(rng)
	case 1:
		return int(randInt64(rng))
	case 2:
		return int64(randInt64(rng))
	case 3:
		return rng.Intn(2) == 0
	case 4:
		return words[rng.Intn(len(words))]
	default:
		return rng.Intn(100)
	}
}

func genMaybeSortedInts(rng *rand.Rand, p []any) any {
	x := genInts(rng, p).([]int)
	if rng.Intn(2) == 0 {
		sort.Ints(x)
	}

	return x
}

func roman(n int) string {
	vals := []int{1000, 900, 500, 400, 100, 90, 50, 40, 10, 9, 5, 4, 1}
	syms := []string{"M", "CM", "D", "CD", "C", "XC", "L", "XL", "X", "IX", "V", "IV", "I"}

	var b strings.Builder

	for i, v := range vals {
		for n >= v {
			b.WriteString(syms[i])
			n -= v
		}
	}

	return b.String()
}

// checkSlice: r0 and the argument (r2) are the same ordered permutation of the input; for the stable
// variant the order of equal keys is the input order (tags ascending within a key).
func checkSlice(stable bool) func(args []any, outs []any, ego runResult) (string, string) {
	return func(args []any, _ []any, ego runResult) (string, string) {
		in := args[0].([]int)

		if ego.err != "" {
			return "ego-error", "aborted: " + ego.err
		}

		if norm(ego.rets[1]) != nil {
			return "error-mismatch", "unexpected error result " + show(norm(ego.rets[1]))
		}

		for _, ri := range []int{0, 2} {
			got, ok := norm(ego.rets[ri]).([]any)
			if !ok || len(got) != len(in) {
				return "value", fmt.Sprintf("result %d is %s for input %v", ri, show(norm(ego.rets[ri])), in)
			}

			seen := map[int]int{}
			for _, v := range in {
				seen[v]++
			}

			prev := math.MinInt

			for i, e := range got {
				v, ok := e.(int)
				if !ok {
					return "type", fmt.Sprintf("element %d is %T", i, e)
				}

				seen[v]--

				key := v / 100
				if stable {
					key = v // tags ascend with the input position, so the full value must ascend
				}

				if key < prev {
					cl := "order"
					if stable {
						cl = "stability"
					}

					return cl, fmt.Sprintf("result %d %v is not ordered (stable=%v) for input %v", ri, got, stable, in)
				}

				prev = key
			}

			for v, c := range seen {
				if c != 0 {
					return "permutation", fmt.Sprintf("result %d %v is not a permutation of %v (element %d)", ri, got, in, v)
				}
			}
		}

		return "", ""
	}
}

func checkFloatSort(args []any, outs []any, ego runResult) (string, string) {
	if ego.err != "" {
		return "ego-error", "aborted: " + ego.err
	}

	want, _ := norm(outs[0]).([]any)

	for _, ri := range []int{0, 2} {
		got, ok := norm(ego.rets[ri]).([]any)
		if !ok || len(got) != len(want) {
			return "value", fmt.Sprintf("result %d: Go %s, Ego %s", ri, show(want), show(norm(ego.rets[ri])))
		}

		// compare position by position, treating -0 == +0 (equal keys of an unstable sort)
		for i := range want {
			a, b := toF(want[i]), toF(got[i])
			if !(a == b || (a != a && b != b)) {
				return "order", fmt.Sprintf("result %d: Go %s, Ego %s", ri, show(want), show(got))
			}
		}
	}

	return "", ""
}

func toF(v any) float64 {
	switch x := v.(type) {
	case float64:
		return x
	case float32:
		return float64(x)
	}

	return math.Inf(1)
}

// ParseDuration is documented as Go's syntax plus a day suffix and optional spaces: whatever Go accepts
// must be accepted with the same value; what Go rejects is not judged.
func checkParseDuration(args []any, outs []any, ego runResult) (string, string) {
	if outs[1] != nil {
		if e, ok := outs[1].(error); ok && e != nil {
			return "", ""
		}
	}

	if ego.err != "" {
		return "ego-error", "Go accepts it, the Ego call aborted: " + ego.err
	}

	if norm(ego.rets[1]) != nil {
		return "error-mismatch", fmt.Sprintf("Go parses %q as %v, Ego reports an error", args[0], outs[0])
	}

	want := int64(outs[0].(time.Duration))

	var got int64

	switch x := ego.rets[0].(type) {
	case time.Duration:
		got = int64(x)
	case int64:
		got = x
	case int:
		got = int64(x)
	default:
		return "type", fmt.Sprintf("result is %T", ego.rets[0])
	}

	if got != want {
		return "value", fmt.Sprintf("Go %d ns, Ego %d ns", want, got)
	}

	return "", ""
}

func checkSprintf(args []any, outs []any, ego runResult) (string, string) {
	verb := fmtVerbOf(args[0].(string))

	if ego.err != "" {
		return "ego-error:verb-" + verb, "aborted: " + ego.err
	}

	want := outs[0].(string)

	got, ok := ego.rets[0].(string)
	if !ok {
		return "type", fmt.Sprintf("result is %T", ego.rets[0])
	}

	if got != want {
		return "value:verb-" + verb, fmt.Sprintf("Go %q, Ego %q", want, got)
	}

	return "", ""
}

// jsonScalarRow: b := Marshal(x); Unmarshal(b) into a generic destination and into a destination of x's own type.
func jsonScalarRow(kind, egoType string, directed [][]any, g gen, typed func([]byte) (error, any)) row {
	return row{Name: "json.Unmarshal/scalar-" + kind,
		Snippet: "b, e := json.Marshal(a0)\nr0 := e\nr1 := string(b)\nvar g interface{}\nr2 := json.Unmarshal(b, &g)\nr3 := g\nvar t " + egoType + "\nr4 := json.Unmarshal(b, &t)\nr5 := t",
		NRet:    6, Directed: directed, Gens: []gen{g}, IgnoreErrValue: true,
		Go: func(x any) (error, string, error, any, error, any) {
			b, e := json.Marshal(x)
			if e != nil {
				return e, "", fmt.Errorf("x"), nil, fmt.Errorf("x"), nil
			}

			var gv any

			e2 := json.Unmarshal(b, &gv)
			e3, tv := typed(b)

			return nil, string(b), e2, gv, e3, tv
		}}
}

// unroman reads a canonical numeral (the harness's own reference; subtractive pairs only as roman() writes them).
func unroman(s string) int {
	vals := map[byte]int{'I': 1, 'V': 5, 'X': 10, 'L': 50, 'C': 100, 'D': 500, 'M': 1000}
	total := 0

	for i := 0; i < len(s); i++ {
		v := vals[s[i]]
		if i+1 < len(s) && vals[s[i+1]] > v {
			total -= v
		} else {
			total += v
		}
	}

	return total
}
