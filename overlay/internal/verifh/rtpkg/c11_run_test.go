package rtpkg

// C11 runner: compile one Ego snippet per function once, re-run it per argument vector with the
// arguments injected through the symbol table, read the results back from the symbol table.
// Modelled on verifh/egorun (which reproduces `ego run`): same symbol table set-up, same compiler
// options, same context options.

import (
	"fmt"
	"runtime/debug"
	"strings"
	"sync"

	"github.com/tucats/ego/internal/builtins"
	"github.com/tucats/ego/internal/cli/settings"
	"github.com/tucats/ego/internal/defs"
	"github.com/tucats/ego/internal/errors"
	"github.com/tucats/ego/internal/language/bytecode"
	"github.com/tucats/ego/internal/language/compiler"
	"github.com/tucats/ego/internal/language/data"
	"github.com/tucats/ego/internal/language/symbols"
	"github.com/tucats/ego/internal/language/tokenizer"
	"github.com/tucats/ego/internal/verifh/egorun"
)

type snippet struct {
	src   string
	b     *bytecode.ByteCode
	t     *tokenizer.Tokenizer
	st    *symbols.SymbolTable
	nargs int
	nret  int
}

var c11mu sync.Mutex

func typeLevelOf(s string) int {
	switch s {
	case "strict":
		return defs.StrictTypeEnforcement
	case "relaxed":
		return defs.RelaxedTypeEnforcement
	default:
		return defs.NoTypeEnforcement
	}
}

// compileSnippet compiles src (top-level statements using a0..a<nargs-1>, assigning r0..r<nret-1>).
func compileSnippet(src string, nargs, nret int, types string) (sn *snippet, err error) {
	egorun.Init()
	c11mu.Lock()
	defer c11mu.Unlock()

	defer func() {
		if r := recover(); r != nil {
			err = fmt.Errorf("compiler panic: %v", r)
		}
	}()

	egorun.Apply(egorun.Config{Types: types, Opt: 2, Extensions: true})

	st := symbols.NewSymbolTable("file c11.ego").Shared(true)
	st.SetGlobalSingleton()
	st.SetAlways(defs.CLIArgumentListVariable, data.NewArrayFromInterfaces(data.StringType))
	st.SetAlways(defs.TypeCheckingVariable, typeLevelOf(types))
	st.SetAlways(defs.ModeVariable, "run")
	builtins.AddBuiltins(st.Root())
	st.Root().SetAlways(defs.MainVariable, defs.Main)
	st.Root().SetAlways(defs.ExtensionsVariable, true)
	st.Root().SetAlways(defs.UserCodeRunningVariable, true)
	symbols.RootSymbolTable.SetAlways(defs.TypeCheckingVariable, typeLevelOf(types))

	comp := compiler.New("run").
		SetNormalization(settings.GetBool(defs.CaseNormalizedSetting)).
		SetExitEnabled(false).
		SetRoot(&symbols.RootSymbolTable).
		SetInteractive(false)

	_ = comp.AutoImport(true, st)

	// top-level statements are compiled the way the REPL and the dashboard compile them
	b, cerr := compiler.CompileString("c11", src, true)
	if !errors.Nil(cerr) {
		return nil, fmt.Errorf("compile: %v", cerr)
	}

	t := tokenizer.New(src, true)
	t.Close()

	return &snippet{src: src, b: b, t: t, st: st, nargs: nargs, nret: nret}, nil
}

type runResult struct {
	rets  []any
	err   string // Ego runtime error that aborted the snippet
	panic string
	out   string
}

// run executes the snippet with args bound to a0.. in a fresh child scope.
func (sn *snippet) run(args []any, types string) (res runResult) {
	c11mu.Lock()
	defer c11mu.Unlock()

	defer func() {
		if r := recover(); r != nil {
			res.panic = fmt.Sprintf("%v\n%s", r, firstFrames(string(debug.Stack()), 14))
		}
	}()

	child := symbols.NewChildSymbolTable("c11 run", sn.st)
	child.SetAlways(defs.TypeCheckingVariable, typeLevelOf(types))

	for i, a := range args {
		child.SetAlways(fmt.Sprintf("a%d", i), a)
	}

	ctx := bytecode.NewContext(child, sn.b).SetTokenizer(sn.t).SetFullSymbolScope(false).EnableConsoleOutput(false)

	err := ctx.Run()
	res.out = ctx.GetOutput()

	if errors.Equals(err, errors.ErrStop) {
		err = nil
	}

	if err != nil {
		res.err = err.Error()

		return res
	}

	for i := 0; i < sn.nret; i++ {
		v, ok := child.Get(fmt.Sprintf("r%d", i))
		if !ok {
			res.err = fmt.Sprintf("result r%d not set", i)

			return res
		}

		res.rets = append(res.rets, v)
	}

	return res
}

func firstFrames(stack string, n int) string {
	lines := strings.Split(stack, "\n")
	var keep []string

	for _, l := range lines {
		if strings.Contains(l, "tucats/ego/internal") && !strings.Contains(l, "verifh") {
			keep = append(keep, strings.TrimSpace(l))
		}

		if len(keep) >= n {
			break
		}
	}

	return strings.Join(keep, " | ")
}
