package srvchk

// C19, part "handlers" — the same oracle through real handlers of the real route
// table that send client- or operator-supplied strings back:
//   POST /admin/config   echoes the requested setting names as object keys and the stored values
//   GET  /admin/users    (its own MarshalIndent+JSONMinify) lists user names and permissions
//   GET  /admin/validation  sends the validation dictionary through JSONMinify
// For each response the monitor knows the value the handler was given (names, stored
// values, user records, dictionary text) and requires the decoded body to carry it.
import (
	"encoding/json"
	"fmt"
	"reflect"
	"sort"
	"strings"
	"testing"

	"github.com/google/uuid"

	"github.com/tucats/ego/internal/cli/settings"
	"github.com/tucats/ego/internal/defs"
	"github.com/tucats/ego/internal/server/auth"
	"github.com/tucats/ego/internal/util/validate"
	"github.com/tucats/ego/internal/verifh/srvfix"
	"github.com/tucats/ego/internal/verifh/vh"
)

// jsonView is the string a JSON client receives for s: encoding/json's own treatment of invalid UTF-8.
func jsonView(s string) string {
	b, _ := json.Marshal(s)

	var out string

	_ = json.Unmarshal(b, &out)

	return out
}

func TestC19Handlers(t *testing.T) {
	r := vh.New("C19", "handlers")
	r.Rule = "requests to POST /admin/config naming 1..6 settings whose names and stored values are strings of the C19 alphabet, GET /admin/users over a user store holding " +
		"such names/permissions, GET /admin/validation; gzip accepted and refused; distinct = distinct (route, request body / store contents); non-trivial = the echoed strings contain a backslash, quote or Unicode space"
	r.Assume("the monitor's expectation of each handler's value is taken from the stores it wrote itself (settings, user store, validate.EncodeDictionary)")

	f := mustFixture(t, srvfix.Options{})
	admin := bearer(t, f, "admin")
	rng := vh.Rand("c19h")
	known := vh.KnownKeys("C19")
	gen := c19String

	if known[c19KeyEscBackslash] {
		gen = c19StripTrailingBackslashes(gen)
	}

	settings.SetDefault(defs.ServerCompressionThresholdSetting, "1")

	decode := func(route string, resp srvfix.Response, casev any, expectedText []byte) (any, bool) {
		if resp.Panic != "" {
			r.Violate(vh.Violation{Key: "panic:" + route, Desc: "handler panicked: " + vh.Trunc(resp.Panic, 600), Case: casev})

			return nil, false
		}

		body, gz, err := clientBody(resp)
		if gz {
			r.Count("events.gzip_encoded", 1)
		}

		r.Count("events.responses."+route, 1)
		r.Count("events.bytes_on_wire", int64(len(resp.Body)))

		if err == nil && resp.Status != 200 {
			err = fmt.Errorf("status %d: %s", resp.Status, vh.Trunc(string(body), 200))
		}

		var v any
		if err == nil {
			v, err = c19Decode(body)
		}

		if err != nil {
			r.Violate(vh.Violation{Key: "decode-mismatch:" + c19Feature(expectedText), Desc: route + ": response is not the handler's JSON: " + err.Error(), Case: casev,
				Observed: vh.Trunc(string(body), 400)})

			return nil, false
		}

		return v, true
	}

	// configCase stores the given values, asks POST /admin/config for the names and applies the oracle.
	configCase := func(names []string, set map[string]string, mode string, sample bool) {
		want := map[string]string{}

		for k, v := range set {
			settings.SetDefault(k, v)
		}

		for _, name := range names {
			want[name] = settings.Get(name) // the handler's own source of the value
		}

		body, _ := json.Marshal(names)
		hdr := map[string]string{"Authorization": admin, "Accept": "application/json", "Content-Type": "application/json"}

		if mode == "gzip" {
			hdr["Accept-Encoding"] = "gzip"
		}

		casev := map[string]any{"route": "POST /admin/config", "names": names, "values": set, "mode": mode}
		resp := f.Do(srvfix.Request{Method: "POST", Path: "/admin/config", Header: hdr, Body: body})

		nontrivial := false
		for k, v := range want {
			nontrivial = nontrivial || c19NonTrivial([]byte(k+v))
		}

		r.Eval(vh.Hash("config", string(body), fmt.Sprint(want)), nontrivial)

		// expected: json.Marshal's view of the stored strings (invalid UTF-8 becomes U+FFFD)
		exp := map[string]string{}
		for k, v := range want {
			exp[k] = jsonView(v)
		}

		pretty, _ := json.MarshalIndent(exp, "", " ")

		if v, ok := decode("config", resp, casev, pretty); ok {
			got := map[string]string{}

			if doc, _ := v.(map[string]any); doc != nil {
				if items, _ := doc["items"].(map[string]any); items != nil {
					for k, it := range items {
						if m, _ := it.(map[string]any); m != nil {
							got[k], _ = m["value"].(string)
						}
					}
				}
			}

			if !reflect.DeepEqual(got, exp) {
				r.Violate(vh.Violation{Key: "decode-mismatch:" + c19Feature(pretty), Desc: "POST /admin/config: decoded items differ from the stored settings",
					Case: casev, Expected: exp, Observed: got})
			}
		}

		for _, name := range names {
			settings.DeleteDefault(name)
		}

		if sample {
			r.Sample(casev)
		}
	}

	if c := vh.ReplayCase(); c != nil {
		var rc struct {
			Route  string            `json:"route"`
			Names  []string          `json:"names"`
			Values map[string]string `json:"values"`
			Mode   string            `json:"mode"`
		}

		_ = json.Unmarshal(c, &rc)

		if rc.Route == "POST /admin/config" {
			configCase(rc.Names, rc.Values, rc.Mode, true)
		} else {
			r.Note("the replay case belongs to another part of C19; nothing to rerun here")
		}

		r.Distinct = 2
		_ = r.Write()

		return
	}

	n := vh.N(1500, 60000)

	for i := 0; i < n; i++ {
		names := []string{}
		set := map[string]string{}

		for j, m := 0, 1+rng.Intn(6); j < m; j++ {
			// the request body is JSON text: names must be valid UTF-8 to arrive unchanged
			name := "verif.c19." + strings.ToValidUTF8(gen(rng), "?")

			if rng.Intn(3) > 0 {
				set[name] = gen(rng)
			}

			names = append(names, name)
		}

		mode := "plain"
		if i%2 == 1 {
			mode = "gzip"
		}

		configCase(names, set, mode, i%400 == 0)
	}

	// users list: a store with hostile names and permissions
	rounds := vh.N(10, 100)

	for round := 0; round < rounds; round++ {
		written := map[string][]string{}

		for i := 0; i < 6; i++ {
			name := "c19-" + gen(rng)
			perms := []string{gen(rng), "ego.logon"}
			u := defs.User{Name: name, ID: uuid.New(), Password: "x", Permissions: perms}

			if err := auth.AuthService.WriteUser(0, u); err != nil {
				t.Fatal(err)
			}

			written[name] = perms
		}

		hdr := map[string]string{"Authorization": admin, "Accept": "application/json"}
		if round%2 == 1 {
			hdr["Accept-Encoding"] = "gzip"
		}

		resp := f.Do(srvfix.Request{Method: "GET", Path: "/admin/users", Header: hdr})
		casev := map[string]any{"route": "GET /admin/users", "users": written}
		r.Eval(vh.Hash("users", fmt.Sprint(written)), true)

		exp := map[string][]string{}
		for k, ps := range written {
			e := []string{}
			for _, p := range ps {
				e = append(e, jsonView(p))
			}

			exp[jsonView(k)] = e
		}

		pretty, _ := json.MarshalIndent(exp, "", " ")

		if v, ok := decode("users", resp, casev, pretty); ok {
			got := map[string][]string{}

			if doc, _ := v.(map[string]any); doc != nil {
				if items, _ := doc["items"].([]any); items != nil {
					for _, it := range items {
						if m, _ := it.(map[string]any); m != nil {
							name, _ := m["name"].(string)
							if !strings.HasPrefix(name, "c19-") {
								continue
							}

							ps := []string{}
							if l, _ := m["permissions"].([]any); l != nil {
								for _, p := range l {
									s, _ := p.(string)
									ps = append(ps, s)
								}
							}

							got[name] = ps
						}
					}
				}
			}

			// two distinct stored names may collapse to one after U+FFFD replacement; compare only when they do not
			if len(exp) == len(written) && !reflect.DeepEqual(got, exp) {
				r.Violate(vh.Violation{Key: "decode-mismatch:" + c19Feature(pretty), Desc: "GET /admin/users: decoded names/permissions differ from the user store",
					Case: casev, Expected: exp, Observed: got})
			}
		}

		for name := range written {
			_ = auth.AuthService.DeleteUser(0, name)
		}
	}

	// validation dictionary: the handler's value is the text validate.EncodeDictionary returns
	dict, err := validate.EncodeDictionary()
	if err != nil {
		t.Fatal(err)
	}

	wantDict, err := c19Decode(dict)
	if err != nil {
		r.Inconcl("validate.EncodeDictionary does not return JSON: " + err.Error())
	} else {
		for _, enc := range []string{"", "gzip"} {
			hdr := map[string]string{"Authorization": admin, "Accept": "application/json"}
			if enc != "" {
				hdr["Accept-Encoding"] = enc
			}

			resp := f.Do(srvfix.Request{Method: "GET", Path: "/admin/validation", Header: hdr})
			casev := map[string]any{"route": "GET /admin/validation", "mode": enc}
			r.Eval(vh.Hash("validation", enc), true)

			if v, ok := decode("validation", resp, casev, dict); ok && !reflect.DeepEqual(v, wantDict) {
				r.Violate(vh.Violation{Key: "decode-mismatch:" + c19Feature(dict), Desc: "GET /admin/validation differs from the dictionary text", Case: casev})
			}
		}

		keys := []string{}
		if m, _ := wantDict.(map[string]any); m != nil {
			for k := range m {
				keys = append(keys, k)
			}
		}

		sort.Strings(keys)
		r.Count("validation.dictionary_entries", int64(len(keys)))
	}

	if r.Evaluations == 0 {
		t.Fatal("observed nothing")
	}

	if err := r.Write(); err != nil {
		t.Fatal(err)
	}
}
