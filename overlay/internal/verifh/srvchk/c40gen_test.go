package srvchk

// Request generator shared by C40 (no request can crash a handler) and C44 (secrets):
// requests are derived from the server's real route table (router.VerifC40Routes).
import (
	"encoding/base64"
	"encoding/json"
	"fmt"
	"math/rand"
	"net/url"
	"sort"
	"strings"

	"github.com/tucats/validator"

	"github.com/tucats/ego/internal/router"
	"github.com/tucats/ego/internal/util/validate"
	"github.com/tucats/ego/internal/verifh/srvfix"
)

// handlers that stop the server, exit the process or open connections outward: never requested
var c40Excluded = []string{"router.DownHandler", "cluster.ClusterShutdownHandler", "tables.GenerateHandler"}

func c40IsExcluded(handler string) bool {
	for _, x := range c40Excluded {
		if strings.HasSuffix(handler, x) {
			return true
		}
	}

	return false
}

// c40Users: an administrator, one user per single permission, a plain logon user and one without logon.
func c40Users() []srvfix.User {
	us := []srvfix.User{
		{Name: "admin", Password: "adminpw-K9", Permissions: []string{"ego.root", "ego.logon"}},
		{Name: "alice", Password: "alicepw-Q3", Permissions: []string{"ego.logon"}},
		{Name: "nologon", Password: "nologonpw-X2", Permissions: []string{"ego.table.read"}},
		{Name: "victim", Password: "victimpw-V8", Permissions: []string{"ego.logon"}}, // target of bad-password requests (may get locked out)
	}

	for _, p := range []string{"ego.code", "ego.sql", "ego.table.read", "ego.table.write", "ego.table.update", "ego.table.delete", "ego.table.admin",
		"ego.dsn.admin", "ego.dsn.read", "ego.dsn.write", "ego.server.admin"} {
		us = append(us, srvfix.User{Name: "u-" + strings.ReplaceAll(strings.TrimPrefix(p, "ego."), ".", "-"), Password: "pw-" + p, Permissions: []string{"ego.logon", p}})
	}

	return us
}

type c40Req struct {
	Route  string            `json:"route"` // "METHOD endpoint" of the route the request was derived from
	Method string            `json:"method"`
	Path   string            `json:"path"`
	Header map[string]string `json:"header,omitempty"`
	Body   []byte            `json:"-"`
	BodyIs string            `json:"body"` // description of the body (the bytes are regenerated from seed/batch/index)
	User   string            `json:"user"`
	Tags   []string          `json:"tags"`
}

func (q c40Req) request() srvfix.Request {
	return srvfix.Request{Method: q.Method, Path: q.Path, Header: q.Header, Body: q.Body}
}

// c40Gen holds what the generator needs to know about the running server.
type c40Gen struct {
	routes []router.VerifC40Route
	auth   map[string]string // user -> Authorization header value (bearer)
	basic  map[string]string // user -> Basic header value
	dbPath string            // sqlite file usable in DSN bodies
}

var c40HostileSegments = []string{
	"", "%00", "..", "%2e%2e", "%2e%2e%2f%2e%2e", ".", "%20", "*", "-1", "0", "99999999999999999999", "null", "undefined", "%ff%fe", "a%2fb", "a/b", "%25", "'", "%22", "%27%3B%20DROP%20TABLE%20t1%3B--",
	"@sql", "@permissions", "@metadata", "@transaction", "@generate", "{{x}}", "%7B%7Bname%7D%7D", "t1;", "t1%00", "T1", "%F0%9F%98%80", "a%0Ab", "a%0D%0AX-Injected:%201", "%5C", "%5C..%5C", "~", "$HOME", "%24%7Bx%7D",
	"00000000-0000-0000-0000-000000000000", "not-a-uuid", "admin", "alice", "ghost", "c40db", "t1", "rows", "permissions", "begin", "commit", "rollback",
}

// values that are valid (lead the handler deeper) per path variable name
var c40ValidSegments = map[string][]string{
	"dsn":   {"c40db", "c40db", "c40db", "c40priv"},
	"table": {"t1", "t1", "t2", "missing"},
	"name":  {"alice", "victim", "c40db", "u-sql", "node1"},
	"id":    {"00000000-0000-0000-0000-000000000000", "abc"},
	"item":  {"dashboard/dashboard.css", "notfound.html", "test.asset.md", "dashboard/"},
}

func (g *c40Gen) path(rng *rand.Rand, endpoint string, hostile bool, tags *[]string) string {
	parts := strings.Split(endpoint, "/")

	for i, p := range parts {
		if !strings.HasPrefix(p, "{{") {
			continue
		}

		name := strings.TrimSuffix(strings.TrimSuffix(strings.TrimPrefix(p, "{{"), "}}"), "...")

		if hostile && rng.Intn(2) == 0 {
			v := c40HostileSegments[rng.Intn(len(c40HostileSegments))]
			if rng.Intn(40) == 0 {
				v = strings.Repeat("A", 1000+rng.Intn(9000))
			}

			parts[i] = v
			*tags = append(*tags, "pathvar:"+name+":hostile")
		} else {
			vs := c40ValidSegments[name]
			if len(vs) == 0 {
				vs = []string{"x"}
			}

			parts[i] = vs[rng.Intn(len(vs))]
		}
	}

	out := strings.Join(parts, "/")

	if hostile {
		switch rng.Intn(12) {
		case 0:
			out += "/"
			*tags = append(*tags, "path:trailing-slash")
		case 1:
			out = strings.Replace(out, "/", "//", 1+rng.Intn(2))
			*tags = append(*tags, "path:double-slash")
		case 2:
			out += "/extra/segment"
			*tags = append(*tags, "path:extra-segment")
		case 3:
			out = strings.ToUpper(out)
			*tags = append(*tags, "path:upper")
		}
	}

	return out
}

var c40ParamBad = map[string][]string{
	"int":         {"abc", "", "-1", "0", "1.5", "1e3", "99999999999999999999", "-9223372036854775808", "0x10", "%201", "1,2", "%00", "%D9%A3"},
	"bool":        {"maybe", "", "2", "-1", "TRUE", "yes", "null", "%00"},
	"string":      {"", "%00", "%ff", "'", "%22", "a%26b%3Dc", "%F0%9F%98%80", "..%2F..", "*", "%25s%25n", "%0d%0a"},
	"list":        {"", ",", ",,,", "a,,b", "%00", "a%2Cb", "*", "-", "a,a,a"},
	"duration":    {"", "abc", "-1s", "1", "1x", "99999999999h", "1d", "1h1", "%00", "1.5.5s", "0"},
	"flag":        {"", "x", "true"},
	"string|flag": {"", "x", "%00"},
	"any":         {"", "%00", "a=b", "'", "EQ(a,1)", "EQ(", "AND()", "%29%29%29", "EQ(id,1)", "EQ(name,%22x%22)", "NOT(EQ(id,1))", "CONTAINS(name,'x')", "(((((((((((((((((", "1 OR 1=1", "id;drop table t1"},
}

var c40ParamGood = map[string][]string{
	"int":         {"1", "5", "0", "100"},
	"bool":        {"true", "false"},
	"string":      {"alice", "t1", "x", "c40db", "POST", "/admin/users", "@user", "REST", "2000-01-01T00:00:00Z"},
	"list":        {"id", "id,name", "name", "REST,AUTH", "services"},
	"duration":    {"1s", "5m", "1h"},
	"flag":        {""},
	"string|flag": {"", "id"},
	"any":         {"EQ(id,1)", "LT(id,100)", "AND(EQ(id,1),EQ(name,%22x%22))"},
}

func (g *c40Gen) query(rng *rand.Rand, rt router.VerifC40Route, hostile bool, tags *[]string) string {
	names := []string{}
	for n := range rt.Parameters {
		names = append(names, n)
	}

	sort.Strings(names)

	q := []string{}

	for _, n := range names {
		kind := rt.Parameters[n]
		if rng.Intn(3) == 0 && !hostile {
			continue
		}

		if rng.Intn(3) == 0 {
			continue
		}

		good := c40ParamGood[kind]
		if good == nil {
			good = c40ParamGood["string"]
		}

		bad := c40ParamBad[kind]
		if bad == nil {
			bad = c40ParamBad["string"]
		}

		v := good[rng.Intn(len(good))]

		if hostile {
			switch rng.Intn(10) {
			case 0, 1, 2, 3:
				v = bad[rng.Intn(len(bad))]
				*tags = append(*tags, "param:"+n+":bad-"+kind)
			case 4: // duplicate
				q = append(q, n+"="+v)
				v = bad[rng.Intn(len(bad))]
				*tags = append(*tags, "param:"+n+":duplicate")
			case 5: // empty, no '='
				q = append(q, n)
				*tags = append(*tags, "param:"+n+":bare")

				continue
			case 6: // huge
				v = strings.Repeat("9", 2000+rng.Intn(60000))
				*tags = append(*tags, "param:"+n+":huge")
			case 7: // wrong case of the name
				n = strings.ToUpper(n)
				*tags = append(*tags, "param:"+n+":upper")
			}
		}

		q = append(q, n+"="+v)
	}

	if hostile && rng.Intn(6) == 0 {
		q = append(q, []string{"undeclared=1", "=", "&&", "%00=%00", "a[]=1&a[]=2", "limit=5", "start=-1", "user=admin", "filter=EQ(", "columns=*", strings.Repeat("p=1&", 500) + "p=1"}[rng.Intn(11)])
		*tags = append(*tags, "param:undeclared")
	}

	if len(q) == 0 {
		return ""
	}

	return "?" + strings.Join(q, "&")
}

func b64(s string) string { return base64.StdEncoding.EncodeToString([]byte(s)) }

func (g *c40Gen) headers(rng *rand.Rand, rt router.VerifC40Route, user string, hostile bool, tags *[]string) map[string]string {
	h := map[string]string{"Accept": "application/json"}

	if len(rt.AcceptMedia) > 0 && rng.Intn(2) == 0 {
		h["Accept"] = rt.AcceptMedia[rng.Intn(len(rt.AcceptMedia))]
	}

	switch {
	case user == "":
	case user == "victim-badpw":
		h["Authorization"] = "Basic " + b64("victim:wrong-"+fmt.Sprint(rng.Intn(1000)))
	case rng.Intn(200) == 0 && g.auth[user] != "":
		// bearer tokens are decrypted with argon2id on every request (about 64 MiB and 0.1 s each): used sparingly
		h["Authorization"] = g.auth[user]
	default:
		h["Authorization"] = g.basic[user]
	}

	if !hostile {
		return h
	}

	pick := func(name string, vals []string) {
		h[name] = vals[rng.Intn(len(vals))]
		*tags = append(*tags, "header:"+name)
	}

	// Range matters to the asset routes only: every second hostile-header request to them carries one
	if strings.Contains(rt.Endpoint, "/assets/") && rng.Intn(2) == 0 {
		n := rng.Int63n(3000)
		pick("Range", []string{fmt.Sprintf("bytes=%d", n), fmt.Sprintf("bytes=%d-", n), fmt.Sprintf("bytes=%d-%d", n, n+rng.Int63n(50)), fmt.Sprintf("bytes=%d-%d", n+5, n), "bytes=0-", "bytes=-5", "bytes=0-0,2-3", "bytes=x"})
	}

	for n := rng.Intn(3); n > 0; n-- {
		switch rng.Intn(9) {
		case 0:
			pick("Range", []string{"bytes=5", "bytes=-5", "bytes=5-", "bytes=999999999-", "bytes=7-3", "bytes=0-0", "bytes=0-9223372036854775807", "bytes=9223372036854775807-", "bytes=0-1,3-4", "items=0-5", "", "-", "bytes=", "bytes=a-b", "bytes=5--", "bytes=0--1"})
		case 1:
			pick("Accept", []string{"", "*/*;q=", "application/json;;;", ",,,", strings.Repeat(",", 10000), "text/html", "application/vnd.ego.nothing+json", "text", "TEXT/PLAIN", "application/json, text/html;q=0.9", "\t", "a/b/c", "*"})
		case 2:
			pick("Accept-Language", []string{"", "*", "fr-CA,fr;q=0.9,en;q=0.8", ";;q=", "en;q=abc", strings.Repeat("a-", 3000), "xxxxxxxxx", ",", "es", "fr;q=0", "en-", "-", "zh-Hant-TW;q=1.5", "q=1"})
		case 3:
			tok := strings.TrimPrefix(g.auth["admin"], "Bearer ")
			half := tok
			if len(half) > 10 {
				half = half[:len(half)/2]
			}

			flip := tok
			if len(flip) > 12 {
				flip = flip[:10] + "Z" + flip[11:]
			}

			pick("Authorization", []string{"", "Basic", "Basic ", "Basic !!!notbase64", "Basic " + b64("nocolon"), "Basic " + b64(":"), "Basic " + b64("admin:"), "Basic " + b64(":x"), "Basic " + b64("a:b:c"),
				"Bearer", "Bearer ", "Bearer x", "Bearer eyJhbGciOiJub25lIn0.e30.", "Bearer eyJ.a.b", "Bearer " + strings.Repeat("A", 100000), "Digest username=x", "bearer " + half, "Token x",
				"Basic " + b64("ghost:bad"), "Basic " + b64("nologon:nologonpw-X2"), "Basic " + b64("\x00:\x00"), "Bearer " + b64("{\"a\":1}"), "Bearer " + strings.Repeat("ab", 40), "Bearer ff454733" + strings.Repeat("00", 10),
				[]string{"Bearer x", "Bearer " + flip, "Bearer " + tok + " extra", "BEARER " + tok}[rng.Intn(4)*rng.Intn(2)*rng.Intn(2)]})
		case 4:
			pick("Content-Type", []string{"", "text/plain", "application/json; charset=", "multipart/form-data", "multipart/form-data; boundary=", "application/x-www-form-urlencoded", "application/json;;", "\t", "application/xml", "a"})
		case 5:
			pick("Content-Encoding", []string{"gzip", "deflate", "br", "identity,,", "", "GZIP", "gzip, gzip"})
		case 6:
			pick("Accept-Encoding", []string{"gzip", "gzip;q=0", "gzip;q=abc", "*;q=0", "", ";", "gzip;q=1;q=0", strings.Repeat("gzip,", 2000)})
		case 7:
			pick("If-None-Match", []string{"*", "\"\"", "W/", ",,,", "\"abc\""})
		case 8:
			h["X-Cluster-Node"] = []string{"", "node1", "node\t1", strings.Repeat("n", 5000)}[rng.Intn(4)]
			h["X-Cluster-Token"] = []string{"", "x", b64("x"), strings.Repeat("f", 64)}[rng.Intn(4)]
			*tags = append(*tags, "header:X-Cluster")
		}
	}

	return h
}

// c40Instance builds a JSON value that conforms to a validation item.
func c40Instance(rng *rand.Rand, it *validator.Item, depth int) any {
	if it == nil || depth > 6 {
		return map[string]any{}
	}

	if it.Alias != "" {
		if t := validate.Lookup(it.Alias); t != nil && t != it {
			return c40Instance(rng, t, depth+1)
		}

		if it.ItemType == validator.TypeInvalid {
			return map[string]any{}
		}
	}

	switch it.ItemType {
	case validator.TypeString:
		if len(it.Enums) > 0 {
			for _, e := range it.Enums {
				if e == "sqlite" {
					return e // never the provider that would open a network connection
				}
			}

			return it.Enums[rng.Intn(len(it.Enums))]
		}

		s := []string{"v", "alice", "t1", "c40db", "x y"}[rng.Intn(5)]
		for it.HasMinLength && len(s) < it.MinLength {
			s += "v"
		}

		return s
	case validator.TypeInt:
		if it.HasMinValue {
			if f, ok := toFloat(it.MinValue); ok {
				return int64(f)
			}
		}

		return rng.Intn(10)
	case validator.TypeFloat:
		return 1.5
	case validator.TypeBool:
		return rng.Intn(2) == 0
	case validator.TypeStruct:
		m := map[string]any{}

		for _, f := range it.Fields {
			if f == nil || f.Name == "" {
				continue
			}

			if f.Required || rng.Intn(3) > 0 {
				m[f.Name] = c40Instance(rng, f, depth+1)
			}
		}

		return m
	case validator.TypeArray:
		n := 1 + rng.Intn(2)
		if it.HasMinLength && n < it.MinLength {
			n = it.MinLength
		}

		a := []any{}
		for i := 0; i < n; i++ {
			a = append(a, c40Instance(rng, it.BaseType, depth+1))
		}

		return a
	case validator.TypePointer:
		return c40Instance(rng, it.BaseType, depth+1)
	case validator.TypeMap:
		k := "k"
		if len(it.Enums) > 0 {
			k = it.Enums[rng.Intn(len(it.Enums))]
		}

		return map[string]any{k: "v"}
	case validator.TypeUUID:
		return "00000000-0000-0000-0000-000000000000"
	case validator.TypeTime:
		return "2000-01-01T00:00:00Z"
	case validator.TypeDuration:
		return "1s"
	case validator.TypeList:
		return "a,b"
	default:
		return "x"
	}
}

func toFloat(v any) (float64, bool) {
	switch x := v.(type) {
	case int:
		return float64(x), true
	case int64:
		return float64(x), true
	case float64:
		return x, true
	}

	return 0, false
}

// domain bodies for routes without a validation spec: conforming (or nearly) payloads by endpoint
func (g *c40Gen) domainBody(rng *rand.Rand, rt router.VerifC40Route) any {
	ep := rt.Endpoint

	pick := func(vs ...any) any { return vs[rng.Intn(len(vs))] }

	switch {
	case strings.HasSuffix(ep, "/rows"):
		return pick(map[string]any{"id": 7, "name": "x"}, map[string]any{"rows": []any{map[string]any{"id": 8, "name": "y"}}, "count": 1},
			[]any{map[string]any{"id": 9, "name": "z"}}, map[string]any{"columns": []any{"id", "name"}, "rows": []any{[]any{10, "w"}}, "count": 1},
			map[string]any{"name": "only"}, map[string]any{"id": "not-int", "name": 5}, map[string]any{"nosuchcolumn": 1})
	case strings.HasSuffix(ep, "@sql"):
		return pick([]any{"select * from t1"}, "select 1", []any{"insert into t1(id,name) values(50,'q')", "select count(*) from t1"}, []any{"select * from nosuch"}, []any{"selec"}, []any{""}, []any{"select * from t1;", ";"},
			[]any{"select load_extension('x')"}, []any{"pragma table_info(t1)"}, []any{"update t1 set name='u' where id=1"})
	case strings.HasSuffix(ep, "@transaction"):
		return pick([]any{map[string]any{"operation": "insert", "table": "t1", "data": map[string]any{"id": 60, "name": "tx"}}},
			[]any{map[string]any{"operation": "select", "table": "t1", "filters": []any{"EQ(id,1)"}}, map[string]any{"operation": "update", "table": "t1", "data": map[string]any{"name": "{{name}}"}, "filters": []any{"EQ(id,1)"}}},
			[]any{map[string]any{"operation": "symbols", "data": map[string]any{"a": 1}}, map[string]any{"operation": "delete", "table": "t1", "filters": []any{"EQ(id,{{a}})"}}},
			[]any{map[string]any{"operation": "sql", "sql": "select 1"}}, []any{map[string]any{"operation": "drop", "table": "t2"}},
			[]any{map[string]any{"operation": "readrows", "table": "t1", "columns": []any{"id"}}}, []any{map[string]any{"operation": "select", "table": "t1", "errors": []any{map[string]any{"condition": "EQ(", "status": 400, "msg": "m"}}}})
	case strings.HasSuffix(ep, "/permissions") || strings.Contains(ep, "@permissions"):
		return pick([]any{"read", "-write"}, []any{"+read"}, []any{map[string]any{"dsn": "c40db", "user": "alice", "actions": []any{"+read", "-write"}}}, []any{}, []any{""}, []any{"admin"}, []any{"bogus"})
	case strings.Contains(ep, "/tables/{{table}}"):
		return pick([]any{map[string]any{"name": "id", "type": "int"}, map[string]any{"name": "name", "type": "string", "nullable": map[string]any{"specified": true, "value": true}}},
			[]any{map[string]any{"name": "", "type": "int"}}, []any{map[string]any{"name": "a", "type": "nosuchtype"}}, []any{}, []any{map[string]any{"name": "a", "type": "int", "size": -1, "unique": map[string]any{"specified": true, "value": true}}})
	case strings.HasSuffix(ep, "/admin/config"):
		if rt.Method == "PATCH" {
			return pick(map[string]any{"ego.log.retain": 3}, map[string]any{"ego.server.max.item.limit": "10"}, map[string]any{"ego.compiler.optimize": 1}, map[string]any{"ego.server.token.key": "x"}, map[string]any{"EGO.LOG.RETAIN": "x"})
		}

		return pick([]any{"ego.server.insecure"}, []any{"ego.logon.token", "ego.compiler.optimize"}, []any{}, []any{""})
	case strings.HasSuffix(ep, "/admin/run"):
		return pick(map[string]any{"code": "fmt.Println(1+2)"}, map[string]any{"code": "x := [1,2,3]\nfmt.Println(x[5])"}, map[string]any{"code": "func f(", "trace": true}, map[string]any{"code": ""},
			map[string]any{"code": "var p *int\nfmt.Println(*p)"}, map[string]any{"code": "panic(\"boom\")"}, map[string]any{"code": "a := 1/0"}, map[string]any{"code": "import \"nosuch\""},
			map[string]any{"code": "type T struct{ a int }\nvar t T\nfmt.Println(t.b)"}, map[string]any{"code": "@nosuchdirective"}, map[string]any{"code": "fmt.Println(", "session": "s1"}, map[string]any{"code": strings.Repeat("(", 3000)})
	case strings.HasSuffix(ep, "/admin/format") || strings.HasSuffix(ep, "/admin/ast"):
		return pick(map[string]any{"code": "func  main( ){fmt.Println( 1 )}"}, map[string]any{"code": "func f("}, map[string]any{"code": ""}, map[string]any{"code": "}}}}"}, map[string]any{"code": strings.Repeat("{", 2000)},
			map[string]any{"code": "x := `unterminated"}, map[string]any{"code": "/* unterminated"}, map[string]any{"code": "for i := range 5 { }"}, map[string]any{"code": "\x00"}, map[string]any{"code": "a := 'ab'"})
	case strings.HasSuffix(ep, "/admin/caches"):
		return pick(map[string]any{"serviceCountLimit": 5}, map[string]any{"serviceCountLimit": -1}, map[string]any{"assetSize": 100}, map[string]any{"serviceCountLimit": 1e20})
	case strings.HasPrefix(ep, "/admin/tokens"):
		return pick([]any{"abc"}, []any{}, []any{"00000000-0000-0000-0000-000000000000"}, []any{""}, []any{strings.Repeat("t", 5000)})
	case strings.Contains(ep, "/logon"):
		return pick(map[string]any{"username": "alice", "password": "alicepw-Q3"}, map[string]any{"username": "victim", "password": "bad"}, map[string]any{"username": "", "password": ""}, map[string]any{"username": "alice"},
			map[string]any{"username": "alice", "password": "alicepw-Q3", "expiration": "1h"}, map[string]any{"username": "alice", "password": "alicepw-Q3", "expiration": "forever"})
	case strings.Contains(ep, "webauthn"):
		return pick(map[string]any{"username": "alice"}, map[string]any{"id": "x", "rawId": "eA", "type": "public-key", "response": map[string]any{"clientDataJSON": "e30", "authenticatorData": "eA", "signature": "eA", "attestationObject": "eA"}},
			map[string]any{}, map[string]any{"challenge": "abc", "response": nil}, map[string]any{"id": "", "response": map[string]any{}})
	case strings.Contains(ep, "/cluster"):
		return pick(map[string]any{"class": "users"}, map[string]any{"class": "nosuch", "name": "x"}, map[string]any{"node_id": "n"}, map[string]any{})
	case strings.HasPrefix(ep, "/services/"):
		return pick(map[string]any{"a": 1}, "text", []any{1, 2}, map[string]any{"value": 35}, 12)
	}

	return pick(map[string]any{"a": 1}, []any{"a"}, "s", 1, nil)
}

// c40Mutate makes a non-conforming value out of a conforming one: one random node is replaced, removed or bloated.
func c40Mutate(rng *rand.Rand, v any, budget *int) any {
	hostile := func() any {
		switch rng.Intn(16) {
		case 0:
			return nil
		case 1:
			return ""
		case 2:
			return rng.Intn(2) == 0
		case 3:
			return []any{}
		case 4:
			return map[string]any{}
		case 5:
			return -1
		case 6:
			return 1e308
		case 7:
			return json.Number("99999999999999999999999999")
		case 8:
			return json.Number("-9223372036854775808")
		case 9:
			return strings.Repeat("x", 70000)
		case 10:
			return []any{[]any{[]any{map[string]any{"a": []any{nil}}}}}
		case 11:
			return c19String(rng)
		case 12:
			return map[string]any{"": "", " ": nil}
		case 13:
			return 0.1
		case 14:
			a := make([]any, 2000)
			for i := range a {
				a[i] = i
			}

			return a
		default:
			return "\x00\u202e'\"\\;--"
		}
	}

	if *budget <= 0 {
		return v
	}

	switch x := v.(type) {
	case map[string]any:
		keys := []string{}
		for k := range x {
			keys = append(keys, k)
		}

		sort.Strings(keys)

		out := map[string]any{}
		for _, k := range keys {
			out[k] = x[k]
		}

		switch r := rng.Intn(6); {
		case len(keys) == 0 || r == 0:
			*budget--
			out[[]string{"unknown", "", "Name", "__proto__", "$where", strings.Repeat("k", 5000)}[rng.Intn(6)]] = hostile()
		case r == 1:
			*budget--
			delete(out, keys[rng.Intn(len(keys))])
		case r == 2:
			*budget--
			out[keys[rng.Intn(len(keys))]] = hostile()
		default:
			k := keys[rng.Intn(len(keys))]
			out[k] = c40Mutate(rng, x[k], budget)
		}

		return out
	case []any:
		out := append([]any{}, x...)

		switch r := rng.Intn(6); {
		case len(out) == 0 || r == 0:
			*budget--
			out = append(out, hostile())
		case r == 1:
			*budget--
			out = out[:len(out)-1]
		case r == 2:
			*budget--
			out[rng.Intn(len(out))] = hostile()
		case r == 3:
			*budget--
			for i := 0; i < 300; i++ {
				out = append(out, x[0])
			}
		default:
			i := rng.Intn(len(out))
			out[i] = c40Mutate(rng, out[i], budget)
		}

		return out
	default:
		*budget--

		return hostile()
	}
}

var c40InvalidJSON = []string{"{", "[1,", "nul", "\x00", "{\"a\":}", "{\"a\":1,}", "[1 2]", "{'a':1}", "{\"a\":1}{\"b\":2}", "\xff\xfe", "{\"a\":\"\\u12\"}", "{\"a\":\"\\x\"}", "]", "}", ",", "{\"a\":1e}", "[\"\\", "tru", "-", "{\"a\" 1}",
	"\ufeff{\"a\":1}", "{\"a\":1}//c", "{\"a\":NaN}", "{\"\\ud800\":1}", "a=b&c=d", "<xml/>", "--boundary\r\nContent-Disposition: form-data; name=\"a\"\r\n\r\n1\r\n--boundary--"}

func (g *c40Gen) body(rng *rand.Rand, rt router.VerifC40Route, hostile bool, tags *[]string) ([]byte, string) {
	conforming := func() (any, string) {
		if len(rt.Validations) > 0 {
			key := rt.Validations[rng.Intn(len(rt.Validations))]
			if it := validate.Lookup(key); it != nil {
				v := c40Instance(rng, it, 0)
				g.tame(v)

				return v, "spec:" + key
			}
		}

		return g.domainBody(rng, rt), "domain"
	}

	enc := func(v any) []byte {
		b, _ := json.Marshal(v)

		return b
	}

	bodyMethods := rt.Method == "POST" || rt.Method == "PUT" || rt.Method == "PATCH"

	if !hostile {
		if !bodyMethods {
			return nil, "none"
		}

		v, src := conforming()

		return enc(v), "conforming(" + src + ")"
	}

	k := rng.Intn(100)
	if !bodyMethods && k >= 30 {
		k = rng.Intn(30) // GET/DELETE/HEAD: mostly no body, sometimes an unexpected one
		if k >= 8 {
			return nil, "none"
		}
	}

	switch {
	case k < 8:
		*tags = append(*tags, "body:none")

		return nil, "none"
	case k < 14:
		*tags = append(*tags, "body:empty")

		return []byte{}, "empty"
	case k < 30:
		*tags = append(*tags, "body:invalid-json")
		s := c40InvalidJSON[rng.Intn(len(c40InvalidJSON))]

		return []byte(s), "invalid-json:" + fmt.Sprintf("%.20q", s)
	case k < 44:
		*tags = append(*tags, "body:wrong-shape")
		v := []any{[]any{}, 1, "x", nil, map[string]any{"a": 1}, true, []any{nil}, []any{1, "a", nil, []any{}}, map[string]any{}, -0.5, []any{map[string]any{}}, json.Number("1e999"), []any{[]any{"a"}}}[rng.Intn(13)]

		return enc(v), "wrong-shape:" + string(enc(v))
	case k < 80:
		v, src := conforming()
		n := 1 + rng.Intn(3)
		b := enc(c40Mutate(rng, v, &n))
		*tags = append(*tags, "body:mutated")

		if rng.Intn(12) == 0 && len(b) > 2 && b[0] == '{' {
			b = append([]byte(`{"name":1,"name":"dup",`), b[1:]...) // duplicated key at text level
			if len(b) > 0 && b[len(b)-2] == ',' {
				b = append(b[:len(b)-2], '}')
			}

			*tags = append(*tags, "body:duplicate-key")
		}

		return b, "mutated(" + src + "):" + string(b[:min(len(b), 60)])
	case k < 86:
		v, src := conforming()

		return enc(v), "conforming(" + src + ")"
	case k < 93:
		depth := []int{100, 5000, 10001, 100000}[rng.Intn(4)]
		open, cl := "[", "]"

		if rng.Intn(2) == 0 {
			open, cl = `{"a":`, "}"
		}

		*tags = append(*tags, fmt.Sprintf("body:nested-%d", depth))

		return []byte(strings.Repeat(open, depth) + "1" + strings.Repeat(cl, depth)), fmt.Sprintf("nested:%s x %d", open, depth)
	case k < 96:
		*tags = append(*tags, "body:1MiB-string")
		v, _ := conforming()
		big := strings.Repeat("M", 1<<20)

		switch x := v.(type) {
		case map[string]any:
			keys := []string{}
			for k := range x {
				keys = append(keys, k)
			}

			sort.Strings(keys)

			if len(keys) > 0 {
				x[keys[rng.Intn(len(keys))]] = big
			} else {
				x["big"] = big
			}
		case []any:
			v = append(x, big)
		default:
			v = big
		}

		return enc(v), "1MiB-string"
	default:
		*tags = append(*tags, "body:form")

		return []byte("username=alice&password=x&code=" + url.QueryEscape("fmt.Println(1)")), "form-encoded"
	}
}

// tame rewrites values of a conforming instance that would make the server open a connection
// outward (a postgres DSN) and points sqlite databases into the arena.
func (g *c40Gen) tame(v any) {
	switch x := v.(type) {
	case map[string]any:
		if _, ok := x["provider"]; ok {
			x["provider"] = "sqlite"
			x["database"] = g.dbPath + ".extra"
			delete(x, "host")
		}

		for _, e := range x {
			g.tame(e)
		}
	case []any:
		for _, e := range x {
			g.tame(e)
		}
	}
}

var c40Methods = []string{"GET", "POST", "PUT", "PATCH", "DELETE", "HEAD", "OPTIONS", "UPDATE", "TRACE", "get", "PROPFIND", "M-SEARCH"}

// request builds request number idx of a batch. About one in eight requests is the well-formed baseline
// of its route (so that state exists and handlers run deep); the others are hostile in 1..4 dimensions.
func (g *c40Gen) request(rng *rand.Rand, users []string) c40Req {
	rt := g.routes[rng.Intn(len(g.routes))]
	for strings.HasSuffix(rt.Endpoint, "/admin/logon") && rng.Intn(10) != 0 {
		rt = g.routes[rng.Intn(len(g.routes))] // every successful logon is an argon2id token encryption (64 MiB): one tenth of the uniform share
	}

	tags := []string{}
	baseline := rng.Intn(8) == 0

	q := c40Req{Route: rt.Method + " " + rt.Endpoint, Method: rt.Method}
	if q.Method == "" || q.Method == "ANY" || q.Method == router.AnyMethod {
		q.Method = []string{"GET", "POST"}[rng.Intn(2)]
	}

	hp, hq, hh, hb := false, false, false, false

	if !baseline {
		for !(hp || hq || hh || hb) {
			hp, hq, hh, hb = rng.Intn(3) == 0, rng.Intn(3) == 0, rng.Intn(3) == 0, rng.Intn(2) == 0
		}

		if rng.Intn(10) == 0 {
			q.Method = c40Methods[rng.Intn(len(c40Methods))]
			tags = append(tags, "method:"+q.Method)
		}
	}

	// identity: mostly one that passes the route's gate, so that the handler itself runs
	switch r := rng.Intn(20); {
	case baseline || r < 9:
		q.User = "admin"
	case r < 16:
		q.User = users[rng.Intn(len(users))]
		tags = append(tags, "user:"+q.User)
	case r < 18:
		q.User = ""
		tags = append(tags, "user:anonymous")
	default:
		q.User = "victim-badpw"
		tags = append(tags, "user:bad-password")
	}

	q.Path = g.path(rng, rt.Endpoint, hp, &tags) + g.query(rng, rt, hq, &tags)
	q.Header = g.headers(rng, rt, q.User, hh, &tags)
	q.Body, q.BodyIs = g.body(rng, rt, hb, &tags)

	if q.Body != nil && q.Header["Content-Type"] == "" && rng.Intn(4) > 0 {
		q.Header["Content-Type"] = "application/json"
	}

	q.Tags = tags

	return q
}
