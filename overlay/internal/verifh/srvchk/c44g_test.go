package srvchk

// C44, part "userdata-guard" — the credentials database cannot be read by Ego code the server runs.
//
// The guard under test is runtime/sql's sql.Open (internal/runtime/sql/db.go openDatabase), the
// same function POST /admin/run and every service reach. It is driven IN-PROCESS here (egorun, no
// HTTP server): for each spelling of ego.server.userdata (settings.SetDefault per case) naming one
// real sqlite file that holds a credentials row with a canary hash, Ego programs call sql.Open
// with every spelling of the path to that same file and SELECT the credentials table.
// Oracle: for every (setting spelling x open spelling) that names the same file (compared by
// resolved file identity: os.SameFile) the open is refused and the canary hash never appears in
// the program's output. Controls: another sqlite file opens and returns its marker row.
import (
	"database/sql"
	"fmt"
	"os"
	"path/filepath"
	"strings"
	"testing"

	_ "modernc.org/sqlite"

	"github.com/tucats/ego/internal/cli/settings"
	"github.com/tucats/ego/internal/verifh/egorun"
	"github.com/tucats/ego/internal/verifh/vh"
)

func TestC44UserdataGuard(t *testing.T) {
	r := vh.New("C44", "userdata-guard")
	r.Rule = "spellings of ego.server.userdata (sqlite:// and sqlite3:// with a single relative element, with ./, with a directory part, absolute, bare name, absolute path without scheme, upper/mixed-case scheme) x " +
		"sql.Open driver (sqlite, sqlite3) x spellings of the path to the same file (bare, ./, dir/../, absolute, doubled slash, file: URI, ?query suffixes, upper-case name); distinct = distinct triple; non-trivial = all"
	r.Assume("the runtime guard is driven in-process through the interpreter (egorun) with settings.SetDefault per case, not through a started server: it is the same sql.Open the server's /admin/run and service endpoints execute")

	base := os.Getenv("VERIF_ARENA")
	if base == "" {
		base, _ = os.MkdirTemp("", "c44g-")
	}

	dir := filepath.Join(base, "c44g")
	if err := os.MkdirAll(filepath.Join(dir, "sub"), 0o755); err != nil {
		t.Fatal(err)
	}

	if err := os.Chdir(dir); err != nil {
		t.Fatal(err)
	}

	egorun.Init()

	rng := vh.Rand("c44g")
	canary := "$2a$04$" + c44Safe(rng, "Uh")
	marker := c44Safe(rng, "Ok")

	mk := func(name, secret string) {
		_ = os.Remove(name)

		db, err := sql.Open("sqlite", name)
		if err != nil {
			t.Fatal(err)
		}

		defer db.Close()

		for _, q := range []string{"create table credentials(name text, password text)", fmt.Sprintf("insert into credentials values('admin','%s')", secret)} {
			if _, err := db.Exec(q); err != nil {
				t.Fatal(err)
			}
		}
	}

	mk("canary-users.db", canary)
	mk("other.db", marker)

	abs := filepath.Join(dir, "canary-users.db")
	cred, err := os.Stat(abs)
	if err != nil {
		t.Fatal(err)
	}

	type sp struct{ class, text string }

	settingsSp := []sp{
		{"url-relative-single", "sqlite://canary-users.db"}, {"url3-relative-single", "sqlite3://canary-users.db"}, {"url-dot-relative", "sqlite://./canary-users.db"},
		{"url-dir-relative", "sqlite3://sub/../canary-users.db"}, {"url-absolute", "sqlite://" + abs}, {"url3-absolute", "sqlite3://" + abs},
		{"bare-name", "canary-users.db"}, {"absolute-path", abs}, {"url-upper-scheme", "SQLITE://canary-users.db"}, {"url-mixed-scheme", "Sqlite3://" + abs},
	}

	opens := []sp{
		{"bare", "canary-users.db"}, {"dot-slash", "./canary-users.db"}, {"dir-dotdot", "sub/../canary-users.db"}, {"absolute", abs}, {"double-slash", strings.Replace(abs, "/canary", "//canary", 1)},
		{"file-uri", "file:" + abs}, {"file-uri-relative", "file:canary-users.db"}, {"query-mode", abs + "?mode=ro"}, {"query-relative", "canary-users.db?_pragma=busy_timeout(100)"},
		{"file-uri-query", "file:" + abs + "?mode=ro"}, {"sqlite-url", "sqlite://" + abs}, {"sqlite-url-relative", "sqlite://canary-users.db"},
	}

	// which open spellings the driver itself resolves to the credentials file (file identity), measured with a plain database/sql open
	reaches := map[string]bool{}

	for _, o := range opens {
		if db, err := sql.Open("sqlite", o.text); err == nil {
			var got string
			if db.QueryRow("select password from credentials").Scan(&got) == nil && got == canary {
				reaches[o.class] = true
			}

			db.Close()
		}

		// an open spelling that made the driver create a new, different file is not the same file
		for _, stray := range []string{"sqlite:", "file:canary-users.db", "canary-users.db?_pragma=busy_timeout(100)", abs + "?mode=ro"} {
			if st, err := os.Stat(stray); err == nil && !os.SameFile(st, cred) && !st.IsDir() {
				_ = os.Remove(stray)
			}
		}
	}

	prog := func(driver, path string) string {
		return fmt.Sprintf("import \"sql\"\nimport \"fmt\"\nfunc main() {\n  db, err := sql.Open(%q, %q)\n  fmt.Println(\"OPENERR:\", err)\n  if err == nil {\n    r, e := db.QueryResult(\"select name, password from credentials\")\n    fmt.Println(\"ROWS:\", r, e)\n    db.Close()\n  }\n}\n", driver, path)
	}

	defer settings.DeleteDefault("ego.server.userdata")

	// control: reading a sqlite file that is not the credentials database works
	settings.SetDefault("ego.server.userdata", "sqlite://canary-users.db")

	ctl := egorun.Run(prog("sqlite", filepath.Join(dir, "other.db")), egorun.Config{})
	if !strings.Contains(ctl.Out, marker) {
		t.Fatalf("control: the marker row of other.db was not read: out=%q err=%q compile=%v panic=%q", ctl.Out, ctl.Err, ctl.CompileErr, ctl.Panic)
	}

	r.Count("control.other_database_read", 1)

	type pend struct {
		setting, open string
		v             vh.Violation
	}

	pending := []pend{}
	byOpen := map[string]map[string]bool{}

	for _, s := range settingsSp {
		settings.SetDefault("ego.server.userdata", s.text)

		for _, drv := range []string{"sqlite", "sqlite3"} {
			for _, o := range opens {
				res := egorun.Run(prog(drv, o.text), egorun.Config{})
				out := res.Out + res.Err + res.Panic
				same := reaches[o.class]
				r.Eval(vh.Hash(s.text, drv, o.text), true)
				r.Count("events.programs", 1)

				refused := !strings.Contains(res.Out, "OPENERR: <nil>") && strings.Contains(res.Out, "OPENERR:")

				switch {
				case refused:
					r.Count("events.open_refused", 1)
				case same:
					r.Count("events.open_allowed_same_file", 1)
				default:
					r.Count("events.open_allowed_other_file", 1)
				}

				casev := map[string]any{"userdata": s.text, "driver": drv, "open": o.text}
				leak := strings.Contains(out, canary) || strings.Contains(out, strings.TrimPrefix(canary, "$2a$04$"))

				if leak || (same && !refused) {
					sym := "not-refused"
					if leak {
						sym = "leak"
					}

					if byOpen[o.class+":"+sym] == nil {
						byOpen[o.class+":"+sym] = map[string]bool{}
					}

					byOpen[o.class+":"+sym][s.class] = true
				}

				if leak {
					pending = append(pending, pend{s.class, o.class + ":leak", vh.Violation{Desc: fmt.Sprintf("ego.server.userdata=%q; sql.Open(%q, %q) + SELECT returns the stored password hash", s.text, drv, o.text),
						Case: casev, Observed: vh.Trunc(out, 400)}})
				} else if same && !refused {
					pending = append(pending, pend{s.class, o.class + ":not-refused", vh.Violation{Desc: fmt.Sprintf("ego.server.userdata=%q; sql.Open(%q, %q) names the credentials file and is not refused", s.text, drv, o.text),
						Case: casev, Observed: vh.Trunc(out, 400)}})
				}

				if r.Evaluations%53 == 1 {
					r.Sample(map[string]any{"case": casev, "same_file": same, "refused": refused, "out": vh.Trunc(res.Out, 160)})
				}
			}
		}
	}

	// a defect of an open spelling that shows under every setting spelling is one finding, keyed by the open spelling;
	// otherwise the setting spelling is part of the key
	for _, p := range pending {
		v := p.v
		v.Key = "userdata-guard:" + p.open
		if len(byOpen[p.open]) < len(settingsSp) {
			v.Key = "userdata-guard:" + p.setting + ":" + p.open
		}

		r.Violate(v)
	}

	sameN := 0
	for _, v := range reaches {
		if v {
			sameN++
		}
	}

	r.Count("open_spellings.reaching_the_credentials_file", int64(sameN))

	if sameN < 4 || r.Counters["events.open_refused"] == 0 {
		t.Fatalf("observed too little: %d open spellings reach the file, %d refusals", sameN, r.Counters["events.open_refused"])
	}

	if err := r.Write(); err != nil {
		t.Fatal(err)
	}
}
