package srvchk

// C40 — No request can crash a handler.
//
// Monitor: the real route table served in-process with ego.server.panic.recovery=false, so a
// handler panic propagates to the harness' own recover() (value + stack). Child process model:
// the parent test re-executes this test binary (-test.run TestC40Worker) once per batch of
// requests; the worker writes every request to a progress file BEFORE it is served, so a Go
// fatal error (stack overflow, concurrent map write, out of memory) that kills the child is
// attributable to the request in flight.
// Oracle: zero panics, zero child deaths, no "server.panic.recovered" entry in the server log.
// Violations are deduplicated by panic site: key = panic:<top ego frame function>.
import (
	"bufio"
	"bytes"
	"encoding/json"
	"fmt"
	"net/url"
	"os"
	"os/exec"
	"path/filepath"
	"regexp"
	"runtime"
	"sort"
	"strconv"
	"strings"
	"sync"
	"syscall"
	"testing"
	"time"

	"github.com/tucats/ego/internal/cli/settings"
	"github.com/tucats/ego/internal/defs"
	"github.com/tucats/ego/internal/router"
	"github.com/tucats/ego/internal/server/auth"
	"github.com/tucats/ego/internal/verifh/srvfix"
	"github.com/tucats/ego/internal/verifh/vh"
)

type c40Panic struct {
	Site      string `json:"site"`
	Value     string `json:"value"`
	Stack     string `json:"stack"`
	Batch     int    `json:"batch"`
	Index     int    `json:"index"`
	Request   c40Req `json:"request"`
	Minimized c40Req `json:"minimized"`
	MinBody   string `json:"minimized_body"`
	Count     int    `json:"count"`
}

type c40Result struct {
	Batch        int              `json:"batch"`
	Requests     int              `json:"requests"`
	Distinct     int              `json:"distinct"`
	NonTrivial   int              `json:"nontrivial"`
	Status       map[string]int64 `json:"status"`
	Routes       map[string]int64 `json:"routes"`
	Tags         map[string]int64 `json:"tags"`
	Panics       []c40Panic       `json:"panics"`
	Inconclusive []string         `json:"inconclusive"`
	LogRecovered int              `json:"log_recovered"`
	RouteCount   int              `json:"route_count"`
	Excluded     []string         `json:"excluded"`
	SetupNotes   []string         `json:"setup_notes"`
	Skipped      int              `json:"skipped_unparsable"`
	Samples      []c40Req         `json:"samples"`
	Done         bool             `json:"done"`
}

var c40FrameRe = regexp.MustCompile(`(?m)^(github\.com/tucats/ego/[^\s(]+(?:\([^)]*\))?[^\s(]*)\(`)

// c40Site is the top-most ego (non-harness) function on the panicking stack, without line numbers.
func c40Site(stack string) string {
	// frames after the runtime's panic frame(s)
	if i := strings.LastIndex(stack, "\npanic("); i >= 0 {
		stack = stack[i:]
	}

	for _, m := range c40FrameRe.FindAllStringSubmatch(stack, -1) {
		fn := m[1]
		if strings.Contains(fn, "/verifh/") {
			continue
		}

		fn = strings.TrimPrefix(fn, "github.com/tucats/ego/")
		fn = strings.TrimPrefix(fn, "internal/")

		return fn
	}

	return "unknown"
}

type c40Worker struct {
	f     *srvfix.Fixture
	g     *c40Gen
	users []string
	notes []string
	hash  map[string]string // user -> password hash the monitor stored
	calls int
}

// restoreSettings undoes what a PATCH /admin/config request may have done to the settings the monitor depends on.
func restoreSettings() {
	settings.SetDefault("ego.server.panic.recovery", "false") // the monitor's own switch
	settings.SetDefault(defs.RuntimePanicsSetting, "false")   // server default: Ego panic() is an error, not a Go panic
	settings.SetDefault(defs.ChildServicesSetting, "false")   // never spawn child processes from the harness
	settings.SetDefault("ego.server.oauth.as.enabled", "false")
	settings.DeleteDefault("ego.server.authority")
	settings.DeleteDefault("ego.server.ai.endpoint")
	settings.DeleteDefault(defs.ServerMaxBodySizeSetting)
}

// ensureState (re)creates what hostile requests may have destroyed: users, tokens, the DSN and its tables.
func (w *c40Worker) ensureState(first bool) {
	f := w.f

	rewrite := func(u srvfix.User) {
		rec := userRecord(u)
		w.hash[u.Name] = rec.Password
		_ = auth.AuthService.WriteUser(0, rec)
	}

	for _, u := range f.Users {
		got, err := auth.AuthService.ReadUser(0, u.Name, true)
		if first && err == nil && w.hash[u.Name] == "" {
			w.hash[u.Name] = got.Password
		}

		if err != nil || got.Password != w.hash[u.Name] || !sameStrings(got.Permissions, u.Permissions) {
			rewrite(u)
		}
	}

	for _, u := range f.Users {
		router.RecordSuccess(u.Name) // clear a lockout caused by bad-password requests
		w.g.basic[u.Name] = srvfix.Basic(u.Name, u.Password)
	}

	// a bearer token for the administrator only (each validation is an argon2id derivation); re-checked now and then
	w.calls++

	for _, name := range []string{"admin"} {
		ok := w.g.auth[name] != "" && w.calls%200 != 0

		if !ok && w.g.auth[name] != "" {
			r := f.Do(srvfix.Request{Method: "GET", Path: "/services/admin/authenticate", Header: map[string]string{"Authorization": w.g.auth[name], "Accept": "application/json"}})
			ok = r.Status == 200
		}

		if !ok {
			if tok, err := f.Logon(name); err == nil {
				w.g.auth[name] = "Bearer " + tok
			} else if first {
				w.notes = append(w.notes, "logon "+name+": "+err.Error())
			}
		}
	}

	admin := map[string]string{"Authorization": w.g.basic["admin"], "Accept": "application/json", "Content-Type": "application/json"}

	for _, name := range []string{"c40db", "c40priv"} {
		r := f.Do(srvfix.Request{Method: "GET", Path: "/dsns/" + name, Header: admin})
		if r.Status != 200 {
			body, _ := json.Marshal(map[string]any{"name": name, "provider": "sqlite", "database": w.g.dbPath + "." + name, "restricted": name == "c40priv"})
			r = f.Do(srvfix.Request{Method: "POST", Path: "/dsns/", Header: admin, Body: body})

			if r.Status >= 300 && first {
				w.notes = append(w.notes, fmt.Sprintf("create dsn %s: %d %s", name, r.Status, vh.Trunc(string(r.Body), 200)))
			}
		}

		for _, tbl := range []string{"t1", "t2"} {
			r = f.Do(srvfix.Request{Method: "GET", Path: "/dsns/" + name + "/tables/" + tbl, Header: admin})
			if r.Status == 200 {
				continue
			}

			cols := `[{"name":"id","type":"int"},{"name":"name","type":"string"}]`
			r = f.Do(srvfix.Request{Method: "PUT", Path: "/dsns/" + name + "/tables/" + tbl, Header: admin, Body: []byte(cols)})

			if r.Status >= 300 && first {
				w.notes = append(w.notes, fmt.Sprintf("create table %s.%s: %d %s", name, tbl, r.Status, vh.Trunc(string(r.Body), 200)))
			}

			for i := 1; i <= 3; i++ {
				row := fmt.Sprintf(`{"id":%d,"name":"row%d"}`, i, i)
				f.Do(srvfix.Request{Method: "PUT", Path: "/dsns/" + name + "/tables/" + tbl + "/rows", Header: admin, Body: []byte(row)})
			}
		}
	}

	restoreSettings()
}

func sameStrings(a, b []string) bool {
	if len(a) != len(b) {
		return false
	}

	for i := range a {
		if a[i] != b[i] {
			return false
		}
	}

	return true
}

// serve runs one request under a watchdog. hung=true when the handler did not return in time.
func (w *c40Worker) serve(q c40Req) (resp srvfix.Response, hung bool) {
	done := make(chan srvfix.Response, 1)

	go func() { done <- w.f.Do(q.request()) }()

	select {
	case resp = <-done:
		return resp, false
	case <-time.After(300 * time.Second):
		return resp, true
	}
}

// minimize removes parts of a panicking request while it keeps panicking at the same site.
func (w *c40Worker) minimize(q c40Req, site string) c40Req {
	still := func(c c40Req) bool {
		r, hung := w.serve(c)
		restoreSettings()

		return !hung && r.Panic != "" && c40Site(r.Panic) == site
	}

	cur := q
	cur.Header = map[string]string{}

	for k, v := range q.Header {
		cur.Header[k] = v
	}

	for _, k := range sortedKeys(q.Header) {
		c := cur
		c.Header = map[string]string{}

		for k2, v2 := range cur.Header {
			if k2 != k {
				c.Header[k2] = v2
			}
		}

		if still(c) {
			cur = c
		}
	}

	// query parameters
	if i := strings.IndexByte(cur.Path, '?'); i >= 0 {
		base, params := cur.Path[:i], strings.Split(cur.Path[i+1:], "&")

		for j := 0; j < len(params); {
			rest := append(append([]string{}, params[:j]...), params[j+1:]...)
			c := cur
			c.Path = base

			if len(rest) > 0 {
				c.Path += "?" + strings.Join(rest, "&")
			}

			if still(c) {
				cur, params = c, rest
			} else {
				j++
			}
		}
	}

	for _, b := range [][]byte{nil, []byte("{}"), []byte("[]")} {
		if bytes.Equal(b, cur.Body) {
			break
		}

		c := cur
		c.Body = b

		if still(c) {
			cur = c

			break
		}
	}

	return cur
}

func sortedKeys(m map[string]string) []string {
	ks := []string{}
	for k := range m {
		ks = append(ks, k)
	}

	sort.Strings(ks)

	return ks
}

func userRecord(u srvfix.User) defs.User {
	return defs.User{Name: u.Name, ID: newUUID(), Password: srvfix.HashPassword(u.Password), Permissions: u.Permissions}
}

// TestC40Worker is the child side: it is only run by TestC40 (C40_DIR set).
func TestC40Worker(t *testing.T) {
	dir := os.Getenv("C40_DIR")
	if dir == "" {
		t.Skip("worker of TestC40")
	}

	batch, _ := strconv.Atoi(os.Getenv("C40_BATCH"))
	count, _ := strconv.Atoi(os.Getenv("C40_COUNT"))
	only := -1

	if s := os.Getenv("C40_ONLY"); s != "" {
		only, _ = strconv.Atoi(s) // replay: serve requests 0..only, report only the last
	}

	res := c40Result{Batch: batch, Status: map[string]int64{}, Routes: map[string]int64{}, Tags: map[string]int64{}}
	resPath := filepath.Join(dir, fmt.Sprintf("result-b%d.json", batch))

	flush := func() {
		b, _ := json.Marshal(res)
		_ = os.WriteFile(resPath+".tmp", b, 0o644)
		_ = os.Rename(resPath+".tmp", resPath)
	}

	arena := filepath.Join(dir, fmt.Sprintf("arena-b%d", batch))
	f := mustFixture(t, srvfix.Options{Arena: arena, Users: c40Users()})

	w := &c40Worker{f: f, hash: map[string]string{}, g: &c40Gen{auth: map[string]string{}, basic: map[string]string{}, dbPath: filepath.Join(arena, "c40.db")}}

	for _, u := range f.Users {
		if u.Name != "victim" && u.Name != "nologon" {
			w.users = append(w.users, u.Name)
		}
	}

	for _, rt := range f.Router.VerifC40Routes() {
		if c40IsExcluded(rt.Handler) {
			res.Excluded = append(res.Excluded, rt.Method+" "+rt.Endpoint+" ("+rt.Handler+")")

			continue
		}

		w.g.routes = append(w.g.routes, rt)
	}

	res.RouteCount = len(w.g.routes)
	if res.RouteCount < 40 {
		t.Fatalf("only %d routes enumerated", res.RouteCount)
	}

	w.ensureState(true)
	res.SetupNotes = w.notes

	prog, err := os.OpenFile(filepath.Join(dir, fmt.Sprintf("progress-b%d.jsonl", batch)), os.O_CREATE|os.O_WRONLY|os.O_TRUNC, 0o644)
	if err != nil {
		t.Fatal(err)
	}

	defer prog.Close()

	seen := map[string]struct{}{}
	sites := map[string]int{}

	for i := 0; i < count; i++ {
		if only >= 0 && i > only {
			break
		}

		rng := vh.Rand(fmt.Sprintf("c40/%d/%d", batch, i))
		q := w.g.request(rng, w.users)
		q.Path = strings.ReplaceAll(q.Path, " ", "%20")

		// a request target the Go HTTP server would refuse before any handler runs is not part of the property
		if _, err := url.ParseRequestURI(q.Path); err != nil {
			res.Skipped++

			continue
		}

		// never dispatch to a handler that stops the server or opens connections outward, whatever path led there
		if c40IsExcluded(f.Router.VerifC40Resolve(q.Method, c39SeenPath(q.Path))) {
			res.Skipped++

			continue
		}

		line, _ := json.Marshal(map[string]any{"batch": batch, "index": i, "request": q, "body_len": len(q.Body)})
		_, _ = prog.Write(append(line, '\n'))

		resp, hung := w.serve(q)
		restoreSettings()

		if hung {
			// leave the goroutine stacks for diagnosis
			buf := make([]byte, 4<<20)
			_ = os.WriteFile(filepath.Join(dir, fmt.Sprintf("hang-b%d.txt", batch)), buf[:runtime.Stack(buf, true)], 0o644)

			res.Inconclusive = append(res.Inconclusive, fmt.Sprintf("batch %d request %d (%s %s) did not return within the 300 s watchdog; batch abandoned", batch, i, q.Method, vh.Trunc(q.Path, 120)))

			break
		}

		res.Requests++
		res.Status[strconv.Itoa(resp.Status)]++
		res.Routes[q.Route]++

		for _, tg := range q.Tags {
			// counters by dimension only (the values would make thousands of keys)
			if j := strings.IndexByte(tg, ':'); j > 0 {
				tg = tg[:j] + ":" + strings.SplitN(tg[j+1:], ":", 2)[0]
				if strings.HasPrefix(tg, "param:") || strings.HasPrefix(tg, "pathvar:") || strings.HasPrefix(tg, "user:") {
					tg = tg[:j]
				}
			}

			res.Tags[tg]++
		}

		id := vh.Hash(q.Method, q.Path, fmt.Sprint(sortedKeys(q.Header)), q.BodyIs, q.User)
		if _, ok := seen[id]; !ok {
			seen[id] = struct{}{}
			res.Distinct++

			if len(q.Tags) > 0 {
				res.NonTrivial++
			}
		}

		if i%(count/3+1) == 1 && len(res.Samples) < 3 {
			s := q
			s.Path = vh.Trunc(s.Path, 200)

			for k, v := range s.Header {
				s.Header[k] = vh.Trunc(v, 80)
			}

			res.Samples = append(res.Samples, s)
		}

		if resp.Panic != "" && (only < 0 || i == only) {
			site := c40Site(resp.Panic)
			sites[site]++

			if sites[site] == 1 {
				p := c40Panic{Site: site, Value: vh.Trunc(strings.SplitN(resp.Panic, "\n", 2)[0], 300), Stack: vh.Trunc(resp.Panic, 3000), Batch: batch, Index: i, Request: q}
				p.Request.Path = vh.Trunc(p.Request.Path, 400)
				m := w.minimize(q, site)
				p.Minimized = m
				p.Minimized.Path = vh.Trunc(m.Path, 400)
				p.MinBody = vh.Trunc(string(m.Body), 400)

				for k, v := range p.Minimized.Header {
					p.Minimized.Header[k] = vh.Trunc(v, 200)
				}

				res.Panics = append(res.Panics, p)
			}

			for j := range res.Panics {
				if res.Panics[j].Site == site {
					res.Panics[j].Count = sites[site]
				}
			}

			flush()
		}

		if i%25 == 0 {
			flush() // partial counts survive a fatal error
		}

		// state repair: after a request that may have changed users, tokens, DSNs or tables, and periodically
		if i%50 == 49 || (resp.Status < 300 && (q.Method == "DELETE" || q.Method == "PATCH") && !strings.HasSuffix(q.Route, "/rows")) {
			w.ensureState(false)
		}
	}

	// second detector: the recovery handler's own log entry (fires only if recovery got switched on)
	if b, err := os.ReadFile(f.LogFile); err == nil {
		res.LogRecovered = bytes.Count(b, []byte("server.panic.recovered")) + bytes.Count(b, []byte("Recovered from panic"))
	}

	res.Done = true
	flush()
}

var c40FatalRe = regexp.MustCompile(`(?m)^(fatal error: .*|panic: .*|runtime: goroutine stack exceeds.*|signal: .*)$`)

func TestC40(t *testing.T) {
	r := vh.New("C40", "requests")
	r.Rule = "requests derived from every route of the real table (static, native admin, lib/services, redirects) except the three that stop the server or call out: one in eight is the route's well-formed baseline, " +
		"the others are hostile in 1..4 of {path variables / spelling, declared query parameters (wrong type, duplicate, bare, huge, undeclared), headers (Range, Accept, Accept-Language, Authorization, Content-Type, " +
		"Content-Encoding, Accept-Encoding, cluster), body (none, empty, invalid JSON, wrong shape, conforming instance of the route's validation spec mutated, nesting to 100 000, 1 MiB string, form), method}, as administrator, " +
		"as each single-permission user, anonymous and with a bad password; distinct = distinct (method, path, header names, body description, user); non-trivial = hostile in at least one dimension"
	r.Assume("in-process ServeHTTP on httptest recorders stands for the network path; request targets the Go HTTP server itself would refuse are not sent")

	if os.Getenv("VERIF_EGO_SRC") == "" {
		t.Fatal("VERIF_EGO_SRC not set (run through ./check)")
	}

	base := os.Getenv("VERIF_ARENA")
	if base == "" {
		base, _ = os.MkdirTemp("", "c40-")
	}

	dir := filepath.Join(base, "c40")
	if err := os.MkdirAll(dir, 0o755); err != nil {
		t.Fatal(err)
	}

	// quick: one round of 12 children x 500 requests (about 65 requests per route); the deep exploration is the thorough tier
	total := vh.N(6000, 1000000)
	per := 500

	if vh.Tier() == "thorough" {
		per = 2500
	}

	type job struct {
		batch, count, only int
		seed               int64
	}

	jobs := []job{}

	if c := vh.ReplayCase(); c != nil {
		var rc struct {
			Batch int   `json:"batch"`
			Index int   `json:"index"`
			Count int   `json:"count"`
			Seed  int64 `json:"seed"`
		}

		if err := json.Unmarshal(c, &rc); err != nil || rc.Count == 0 {
			t.Fatalf("replay case: %v %s", err, c)
		}

		if rc.Seed == 0 {
			rc.Seed = vh.Seed()
		}

		jobs = append(jobs, job{rc.Batch, rc.Count, rc.Index, rc.Seed})
	} else {
		for b, left := 0, total; left > 0; b, left = b+1, left-per {
			jobs = append(jobs, job{b, min(per, left), -1, vh.Seed()})
		}
	}

	self, err := os.Executable()
	if err != nil {
		t.Fatal(err)
	}

	parallel := runtime.NumCPU() - 2
	if parallel > 12 {
		parallel = 12
	}

	if parallel < 2 {
		parallel = 2
	}

	var (
		mu      sync.Mutex
		wg      sync.WaitGroup
		results []c40Result
		sem     = make(chan struct{}, parallel)
	)

	type death struct {
		batch     int
		last      string
		logTail   string
		reason    string
		timedOut  bool
		hadResult bool
	}

	deaths := []death{}

	for _, j := range jobs {
		wg.Add(1)
		sem <- struct{}{}

		go func(j job) {
			defer wg.Done()
			defer func() { <-sem }()

			// Pdeathsig (below) is delivered when the OS thread that started the child exits, so this
			// goroutine keeps its thread for as long as the child runs
			runtime.LockOSThread()

			logPath := filepath.Join(dir, fmt.Sprintf("child-b%d.log", j.batch))
			lf, _ := os.Create(logPath)
			cmd := exec.Command(self, "-test.run", "^TestC40Worker$", "-test.timeout", "0", "-test.count", "1")
			cmd.Env = append(os.Environ(), "C40_DIR="+dir, fmt.Sprintf("C40_BATCH=%d", j.batch), fmt.Sprintf("C40_COUNT=%d", j.count), "VERIF_OUT="+filepath.Join(dir, "ignored.json"), "GOTRACEBACK=all", fmt.Sprintf("VERIF_SEED=%d", j.seed))

			if j.only >= 0 {
				cmd.Env = append(cmd.Env, fmt.Sprintf("C40_ONLY=%d", j.only))
			}

			cmd.Stdout, cmd.Stderr = lf, lf
			cmd.Dir = dir
			cmd.SysProcAttr = &syscall.SysProcAttr{Pdeathsig: syscall.SIGKILL} // a worker never outlives the parent test

			timedOut := false
			timer := time.AfterFunc(time.Duration(900+2*j.count)*time.Second, func() { timedOut = true; _ = cmd.Process.Kill() })
			err := cmd.Run()
			timer.Stop()

			if err != nil {
				fmt.Fprintf(lf, "\n[parent] child ended: %v\n", err)
			}

			lf.Close()

			var res c40Result

			b, rerr := os.ReadFile(filepath.Join(dir, fmt.Sprintf("result-b%d.json", j.batch)))
			if rerr == nil {
				_ = json.Unmarshal(b, &res)
			}

			mu.Lock()
			defer mu.Unlock()

			if rerr == nil {
				results = append(results, res)
			}

			if err != nil || !res.Done {
				d := death{batch: j.batch, timedOut: timedOut, hadResult: rerr == nil}

				if lb, e := os.ReadFile(logPath); e == nil {
					if m := c40FatalRe.Find(lb); m != nil {
						d.reason = string(m)
					}

					if m := regexp.MustCompile(`(?m)^fatal error: .*$`).Find(lb); m != nil {
						d.reason = string(m)
					}

					if len(lb) > 6000 {
						lb = lb[:6000]
					}

					d.logTail = string(lb)
				}

				if pf, e := os.Open(filepath.Join(dir, fmt.Sprintf("progress-b%d.jsonl", j.batch))); e == nil {
					sc := bufio.NewScanner(pf)
					sc.Buffer(make([]byte, 1<<20), 64<<20)

					for sc.Scan() {
						d.last = sc.Text()
					}

					pf.Close()
				}

				deaths = append(deaths, d)
			}

			// the arena of a finished batch is not needed any more
			_ = os.RemoveAll(filepath.Join(dir, fmt.Sprintf("arena-b%d", j.batch)))
		}(j)
	}

	wg.Wait()

	sort.Slice(results, func(i, k int) bool { return results[i].Batch < results[k].Batch })

	bySite := map[string]*c40Panic{}

	for _, res := range results {
		r.Evaluations += int64(res.Requests)
		r.Distinct += int64(res.NonTrivial)
		r.Count("events.requests_served", int64(res.Requests))
		r.Count("events.children", 1)
		r.Count("skipped.not-deliverable-or-excluded", int64(res.Skipped))
		r.Max("routes.enumerated", int64(res.RouteCount))

		for k, v := range res.Status {
			r.Count("events.status."+k, v)
		}

		for k, v := range res.Tags {
			r.Count("dimension."+k, v)
		}

		for k, v := range res.Routes {
			r.Count("route."+k, v)
		}

		for _, s := range res.Samples {
			r.Sample(s)
		}

		for _, inc := range res.Inconclusive {
			r.Inconcl(inc)
		}

		if res.LogRecovered > 0 {
			r.Violate(vh.Violation{Key: "recovered:log-entry", Desc: fmt.Sprintf("batch %d: %d server.panic.recovered entries in the server log", res.Batch, res.LogRecovered), Case: map[string]any{"seed": vh.Seed(), "batch": res.Batch, "count": per, "index": per - 1}})
		}

		for i := range res.Panics {
			p := res.Panics[i]
			r.Count("panics.observed", int64(p.Count))

			if old, ok := bySite[p.Site]; ok {
				old.Count += p.Count

				continue
			}

			bySite[p.Site] = &p
		}

		if len(res.SetupNotes) > 0 && res.Batch == results[0].Batch {
			r.Note("state setup: " + strings.Join(res.SetupNotes, "; "))
		}

		if res.Batch == results[0].Batch && len(res.Excluded) > 0 {
			r.Note("excluded routes: " + strings.Join(res.Excluded, "; "))
		}
	}

	routesHit := 0
	for k := range r.Counters {
		if strings.HasPrefix(k, "route.") {
			routesHit++
		}
	}

	r.Count("routes.requested", int64(routesHit))

	sites := []string{}
	for s := range bySite {
		sites = append(sites, s)
	}

	sort.Strings(sites)

	for _, s := range sites {
		p := bySite[s]
		r.Violate(vh.Violation{Key: "panic:" + p.Site,
			Desc: fmt.Sprintf("%s %s as %q body %s -> handler panic %s (seen %d times; minimised: %s %s headers %v body %q)", p.Request.Method, vh.Trunc(p.Request.Path, 160), p.Request.User, vh.Trunc(p.Request.BodyIs, 80),
				p.Value, p.Count, p.Minimized.Method, vh.Trunc(p.Minimized.Path, 160), p.Minimized.Header, vh.Trunc(p.MinBody, 120)),
			Case:     map[string]any{"seed": vh.Seed(), "batch": p.Batch, "index": p.Index, "count": per, "request": p.Request, "minimized": p.Minimized, "minimized_body": p.MinBody},
			Observed: p.Stack})
	}

	for _, d := range deaths {
		if d.timedOut {
			r.Inconcl(fmt.Sprintf("child of batch %d killed by the watchdog (not a verdict); last request: %s", d.batch, vh.Trunc(d.last, 300)))

			continue
		}

		reason := d.reason
		if reason == "" {
			reason = "child exited without a result"
		}

		key := "fatal:" + strings.Map(func(c rune) rune {
			if c == ' ' || c == '\t' {
				return '-'
			}

			return c
		}, vh.Trunc(strings.TrimPrefix(reason, "fatal error: "), 60)) + ":" + strings.ReplaceAll(lastRoute(d.last), " ", "")

		if !d.hadResult {
			r.Evaluations += int64(lastIndex(d.last) + 1)
			r.Distinct += int64(lastIndex(d.last) + 1)
		}

		r.Violate(vh.Violation{Key: key, Desc: fmt.Sprintf("child process of batch %d died (%s); request in flight: %s", d.batch, reason, vh.Trunc(d.last, 600)),
			Case: map[string]any{"seed": vh.Seed(), "batch": d.batch, "count": per, "index": lastIndex(d.last), "last": vh.Trunc(d.last, 2000)}, Observed: d.logTail})
	}

	if r.Evaluations == 0 && len(deaths) == 0 {
		t.Fatal("observed nothing: no child served a request (see child logs in " + dir + ")")
	}

	if err := r.Write(); err != nil {
		t.Fatal(err)
	}
}

func lastRoute(line string) string {
	var d struct {
		Request struct {
			Route string `json:"route"`
		} `json:"request"`
	}

	_ = json.Unmarshal([]byte(line), &d)

	return d.Request.Route
}

func lastIndex(line string) int {
	var d struct {
		Index int `json:"index"`
	}

	_ = json.Unmarshal([]byte(line), &d)

	return d.Index
}
