package srvchk

// C39 — Static assets are served exactly and only from the asset root.
//
// Arena: known files under <lib>/assets/c39 (text, binary, .md, .js, .css, empty, one byte,
// 300 KiB, 6 MiB = too large for the cache), canary files outside the asset root (one in
// <lib>, one outside <lib>), symlinks inside the root pointing in and out.
// Events: status, headers and body of every GET/HEAD the real route table answers.
// Oracle (the monitor's own resolver names the file: lexical clean + symlink evaluation):
//   200  => the path names a regular file inside the root and the body is that file's bytes
//           after the documented transformation (handler's own Markdown renderer / minifier
//           applied to the known bytes); HEAD: empty body, Content-Length of that body
//   206  => a Range header was sent, Content-Range "bytes a-b/T" is well formed with
//           0<=a<=b<T, T = size of the file, body = file[a..b], and (a,b) is what a
//           well-formed request asked for
//   304  => If-None-Match carried the validator of the 200 body
//   >=400 => always acceptable (an error status of the server's own making)
//   anything else, any canary byte in body or headers, any panic => violation
import (
	"bytes"
	"crypto/sha256"
	"encoding/json"
	"fmt"
	"math/rand"
	"net/url"
	"os"
	"path/filepath"
	"regexp"
	"strconv"
	"strings"
	"testing"

	"github.com/tucats/ego/internal/cli/settings"
	"github.com/tucats/ego/internal/defs"
	"github.com/tucats/ego/internal/server/assets"
	"github.com/tucats/ego/internal/util/javascript"
	"github.com/tucats/ego/internal/verifh/srvfix"
	"github.com/tucats/ego/internal/verifh/vh"
)

type c39Arena struct {
	lib, root, realRoot string
	canaries            [][]byte
	known               []string // URL paths (canonical spelling) of known regular files
	outside             []string // URL-path suffixes that aim at canaries (before spelling games)
	content             map[string][]byte
	absCanary           string
}

func c39Build(t *testing.T, f *srvfix.Fixture, rng *rand.Rand) *c39Arena {
	a := &c39Arena{lib: f.Lib, root: filepath.Join(f.Lib, "assets"), content: map[string][]byte{}}

	must := func(err error) {
		if err != nil {
			t.Fatal(err)
		}
	}

	write := func(abs string, data []byte) {
		must(os.MkdirAll(filepath.Dir(abs), 0o755))
		must(os.WriteFile(abs, data, 0o644))
	}

	tag := fmt.Sprintf("%016x", rng.Uint64())
	can1 := []byte("CANARY-OUTSIDE-LIB-" + tag + "-do-not-serve\n")
	can2 := []byte("CANARY-INSIDE-LIB-" + tag + "-do-not-serve\n")
	a.canaries = [][]byte{[]byte("CANARY-OUTSIDE-LIB-" + tag), []byte("CANARY-INSIDE-LIB-" + tag)}
	outDir := filepath.Join(filepath.Dir(f.Lib), "outside")
	a.absCanary = filepath.Join(outDir, "canary.txt")
	write(a.absCanary, can1)
	write(filepath.Join(outDir, "canary.md"), can1)
	write(filepath.Join(f.Lib, "canary-lib.txt"), can2)
	write(filepath.Join(f.Lib, "assets-sibling", "canary.txt"), can2) // shares the "assets" name prefix

	bin := make([]byte, 256)
	for i := range bin {
		bin[i] = byte(i)
	}

	medium := make([]byte, 300*1024)
	rng.Read(medium)

	big := make([]byte, 6*1024*1024)
	rng.Read(big)

	files := map[string][]byte{
		"c39/plain.txt":           []byte("The quick brown fox jumps over the lazy dog.\nSecond line with  two spaces.\n\tTabbed third line.\n"),
		"c39/bin.dat":             bin,
		"c39/doc.md":              []byte("# Title\n\nSome *emphasis* and a [link](http://example.com/x?a=1&b=2).\n\n* one\n* two\n\n```\ncode <b> & more\n```\n\n## Second heading\nText directly after.\n"),
		"c39/app.js":              []byte("// leading comment\nfunction add(first, second) {\n    /* block comment */\n    var total = first + second;  // trailing\n    return total;\n}\nvar s = \"string with // not a comment\";\nconsole.log(add(1, 2), s);\n"),
		"c39/style.css":           []byte("/* comment */\nbody {\n    margin: 0 auto;\n    color: #ffffff;\n}\n\n.a > .b { content: \"x  y\"; }\n"),
		"c39/empty.txt":           {},
		"c39/one.txt":             []byte("Z"),
		"c39/medium.bin":          medium,
		"c39/big.bin":             big,
		"c39/sub/dir/nested.html": []byte("<html><body>nested</body></html>\n"),
		"c39/with space.txt":      []byte("name with a space\n"),
		"c39/a..b.txt":            []byte("dots in the name\n"),
		"c39/..hidden":            []byte("leading dots\n"),
		"c39/ü.txt":               []byte("non-ascii name\n"),
		"c39/page.json":           []byte("{\"a\": [1, 2, 3]}\n"),
	}

	for rel, data := range files {
		write(filepath.Join(a.root, rel), data)
		a.known = append(a.known, "/assets/"+rel)
	}

	must(os.MkdirAll(filepath.Join(a.root, "c39", "dir.txt"), 0o755))

	// symlinks: inside->inside (allowed), inside->outside (file and directory, both canary locations)
	link := func(target, name string) {
		must(os.Symlink(target, filepath.Join(a.root, "c39", name)))
	}

	link("plain.txt", "link-in.txt")
	link("sub/dir", "linkdir-in")
	link(a.absCanary, "link-out-abs.txt")
	link("../../../outside/canary.txt", "link-out-rel.txt")
	link("../../canary-lib.txt", "link-lib.txt")
	link("../../../outside", "linkdir-out")
	link("../../../outside/canary.md", "link-out.md")
	a.known = append(a.known, "/assets/c39/link-in.txt", "/assets/c39/linkdir-in/nested.html")

	// sorted for determinism (map iteration above)
	sortStrings(a.known)

	a.outside = []string{
		"/assets/../canary-lib.txt", "/assets/c39/../../canary-lib.txt", "/assets/../../outside/canary.txt", "/assets/c39/../../../outside/canary.txt",
		"/assets/../assets-sibling/canary.txt", "/assets-sibling/canary.txt", "/assets" + a.absCanary, "/assets/" + a.absCanary, "/assets/c39/" + a.absCanary,
		"/assets/c39/link-out-abs.txt", "/assets/c39/link-out-rel.txt", "/assets/c39/link-lib.txt", "/assets/c39/linkdir-out/canary.txt", "/assets/c39/link-out.md",
		"/assets/..", "/assets/../", "/assets/c39/..", "/assets/c39/sub/../../..", "/canary-lib.txt", "/assets/c39/dir.txt", "/assets/c39", "/assets/c39/", "/assets/", "/assets",
		"/assets/c39/missing.txt", "/assets/c39/plain.txt/x", "/assets/c39/plain.txt.md", "/assets/c39/plain.TXT", "/ASSETS/c39/plain.txt",
	}

	var err error

	a.realRoot, err = filepath.EvalSymlinks(a.root)
	must(err)

	return a
}

func sortStrings(s []string) {
	for i := 1; i < len(s); i++ {
		for j := i; j > 0 && s[j] < s[j-1]; j-- {
			s[j], s[j-1] = s[j-1], s[j]
		}
	}
}

// seenPath is the URL path the server sees for a raw request target (same parse as srvfix.Do).
func c39SeenPath(raw string) string {
	u, err := url.Parse("http://localhost" + raw)
	if err != nil {
		return raw
	}

	return u.Path
}

// resolve is the monitor's own naming of the file a URL path stands for.
// kind: "file" | "missing" | "dir" | "outside-lexical" | "outside-symlink"; via: true when a symlink was crossed.
func (a *c39Arena) resolve(seen string) (real string, kind string, via bool) {
	if strings.ContainsRune(seen, 0) {
		return "", "missing", false
	}

	target := filepath.Clean(filepath.Join(a.lib, seen))
	if !strings.HasPrefix(target, a.root+string(filepath.Separator)) {
		return "", "outside-lexical", false
	}

	real, err := filepath.EvalSymlinks(target)
	if err != nil {
		return "", "missing", false
	}

	via = real != a.realRoot+strings.TrimPrefix(target, a.root)

	if !strings.HasPrefix(real, a.realRoot+string(filepath.Separator)) {
		return real, "outside-symlink", via
	}

	st, err := os.Stat(real)
	if err != nil {
		return "", "missing", via
	}

	if st.IsDir() {
		return real, "dir", via
	}

	return real, "file", via
}

// shapeLength is the file length a Range header is classified against: the named file's, else that of
// whatever regular file the operating system finds for the joined path (a symlink target outside the root),
// else "infinite" (the shape is then the syntax of the header alone).
func (a *c39Arena) shapeLength(seen, kind string, raw []byte) int64 {
	if kind == "file" {
		return int64(len(raw))
	}

	if !strings.ContainsRune(seen, 0) {
		if st, err := os.Stat(filepath.Join(a.lib, seen)); err == nil && st.Mode().IsRegular() {
			return st.Size()
		}
	}

	return 1 << 62
}

func (a *c39Arena) bytesOf(real string) []byte {
	if b, ok := a.content[real]; ok {
		return b
	}

	b, err := os.ReadFile(real)
	if err != nil {
		return nil
	}

	a.content[real] = b

	return b
}

// transform is the documented representation of a full (200) response for the URL path.
func c39Transform(seen string, raw []byte, minify bool) []byte {
	out := raw

	if strings.HasSuffix(seen, ".js") && minify {
		out = javascript.Minify(append([]byte(nil), raw...), settings.GetBool(defs.JSShortVarNamesSetting))
	}

	if strings.HasSuffix(seen, ".css") && minify {
		out = javascript.MinifyCSS(append([]byte(nil), raw...))
	}

	if strings.HasSuffix(seen, ".md") {
		out = assets.VerifMdToHTML(out)
	}

	return out
}

var (
	c39Single     = regexp.MustCompile(`^bytes=([0-9]+)-([0-9]*)$`)
	c39NoDash     = regexp.MustCompile(`^bytes=[0-9]+$`)
	c39Suffix     = regexp.MustCompile(`^bytes=-[0-9]+$`)
	c39ContentRng = regexp.MustCompile(`^bytes ([0-9]+)-([0-9]+)/([0-9]+)$`)
)

// c39Shape classifies a Range header value against a file of length L.
func c39Shape(h string, present bool, length int64) (shape string, s, e int64, wellFormed bool) {
	if !present {
		return "none", 0, 0, false
	}

	switch {
	case h == "":
		return "empty", 0, 0, false
	case c39NoDash.MatchString(h):
		return "no-dash", 0, 0, false
	case c39Suffix.MatchString(h):
		return "suffix", 0, 0, false
	case strings.Contains(h, ","):
		return "multi", 0, 0, false
	}

	if m := c39Single.FindStringSubmatch(h); m != nil {
		s, err := strconv.ParseInt(m[1], 10, 64)
		if err != nil {
			return "overflow", 0, 0, false
		}

		open := m[2] == ""
		e := int64(-1)

		if !open {
			if e, err = strconv.ParseInt(m[2], 10, 64); err != nil {
				return "overflow", 0, 0, false
			}
		}

		switch {
		case !open && e < s:
			return "inverted", s, e, true
		case s >= length:
			return "start-beyond-eof", s, e, true
		case !open && e == int64(^uint64(0)>>1):
			return "end-maxint64", s, e, true
		case open:
			return "open", s, e, true
		case e >= length:
			return "end-beyond-eof", s, e, true
		case s == e:
			return "single-byte", s, e, true
		default:
			return "closed", s, e, true
		}
	}

	if strings.Contains(h, "=") && !strings.HasPrefix(h, "bytes=") {
		return "other-unit", 0, 0, false
	}

	return "garbage", 0, 0, false
}

// c39PathClass names the spelling feature of a raw request target (first that applies).
func c39PathClass(raw string, kind string, via bool) string {
	low := strings.ToLower(raw)
	path := raw

	if i := strings.IndexByte(path, '?'); i >= 0 {
		path = path[:i]
	}

	switch {
	case strings.Contains(low, "%00") || strings.ContainsRune(raw, 0):
		return "nul"
	case kind == "outside-symlink":
		return "symlink-out"
	case via:
		return "symlink-in"
	case strings.Contains(low, "%252e") || strings.Contains(low, "%252f"):
		return "double-encoded"
	case strings.Contains(low, "%2e%2e") || strings.Contains(low, ".%2e") || strings.Contains(low, "%2e."):
		return "encoded-dotdot"
	case strings.Contains(low, "%2f") || strings.Contains(low, "%5c"):
		return "encoded-slash"
	case strings.Contains(path, "/../") || strings.HasSuffix(path, "/.."):
		return "dotdot"
	case strings.Contains(path, "\\"):
		return "backslash"
	case strings.Contains(path, "//"):
		return "double-slash"
	case strings.Contains(path, "/./") || strings.HasSuffix(path, "/."):
		return "dot-segment"
	case strings.Contains(raw, "%"):
		return "percent-encoded"
	case strings.HasSuffix(path, "/"):
		return "trailing-slash"
	default:
		return "plain"
	}
}

type c39Req struct {
	Method string  `json:"method"`
	Path   string  `json:"path"` // raw request target
	Range  *string `json:"range,omitempty"`
	INM    string  `json:"if_none_match,omitempty"`
	Minify bool    `json:"minify"`
	Cached *bool   `json:"cached,omitempty"` // cache state to establish before the request (nil: leave as is)
}

type c39Finding struct {
	Symptom string
	Detail  string
}

// c39Run serves the request and applies the oracle. It returns the findings plus facts for the counters.
func (a *c39Arena) run(f *srvfix.Fixture, rq c39Req) (findings []c39Finding, status int, shape, class string, wasCached bool) {
	seen := c39SeenPath(rq.Path)
	real, kind, via := a.resolve(seen)
	class = c39PathClass(rq.Path, kind, via)

	var raw []byte
	if kind == "file" {
		raw = a.bytesOf(real)
	}

	rangeText := ""
	if rq.Range != nil {
		rangeText = *rq.Range
	}

	var s, e int64

	var wellFormed bool

	length := a.shapeLength(seen, kind, raw)

	shape, s, e, wellFormed = c39Shape(rangeText, rq.Range != nil, length)

	hdr := map[string]string{}
	if rq.Range != nil {
		hdr["Range"] = *rq.Range
	}

	if rq.INM != "" {
		hdr["If-None-Match"] = rq.INM
	}

	wasCached = assets.VerifIsCached(seen)
	resp := f.Do(srvfix.Request{Method: rq.Method, Path: rq.Path, Header: hdr})
	status = resp.Status

	add := func(sym, format string, args ...any) {
		findings = append(findings, c39Finding{sym, fmt.Sprintf(format, args...)})
	}

	if resp.Panic != "" {
		add("panic", "handler panicked: %s", vh.Trunc(resp.Panic, 500))

		return
	}

	servedOutside := (resp.Status == 200 || resp.Status == 206) && strings.HasPrefix(kind, "outside") // reported below as served-outside-root

	for _, c := range a.canaries {
		if servedOutside {
			break
		}

		if bytes.Contains(resp.Body, c) {
			add("leak", "response body (status %d) contains the canary %s", resp.Status, c)
		}

		for k, vs := range resp.Header {
			for _, v := range vs {
				if strings.Contains(v, string(c)) {
					add("leak", "response header %s contains the canary", k)
				}
			}
		}
	}

	full := []byte(nil)
	if kind == "file" {
		full = c39Transform(seen, raw, rq.Minify)
	}

	needFile := func() bool {
		switch kind {
		case "file":
			return true
		case "outside-lexical", "outside-symlink":
			add("served-outside-root", "status %d for a path that resolves outside the asset root (%s; real %q)", resp.Status, kind, real)
		default:
			add("served-missing", "status %d for a path that names no regular file under the asset root (%s)", resp.Status, kind)
		}

		return false
	}

	switch {
	case resp.Status == 200:
		if !needFile() {
			return
		}

		if rq.Method == "HEAD" {
			if len(resp.Body) != 0 {
				add("head-body", "HEAD response carries %d body bytes", len(resp.Body))
			}

			if cl := resp.Header.Get("Content-Length"); cl != strconv.Itoa(len(full)) {
				add("content-length", "HEAD Content-Length %q, the GET body has %d bytes", cl, len(full))
			}
		} else if !bytes.Equal(resp.Body, full) {
			add("body", "200 body (%d bytes, sha %x) differs from the file after the documented transformation (%d bytes, sha %x)",
				len(resp.Body), sha256.Sum256(resp.Body), len(full), sha256.Sum256(full))
		}

	case resp.Status == 206:
		if !needFile() {
			return
		}

		if rq.Range == nil {
			add("status-206", "206 without a Range header in the request")

			return
		}

		cr := resp.Header.Get("Content-Range")
		m := c39ContentRng.FindStringSubmatch(cr)

		if m == nil {
			add("content-range", "206 with Content-Range %q (Range %q, file length %d)", cr, rangeText, len(raw))

			return
		}

		ca, _ := strconv.ParseInt(m[1], 10, 64)
		cb, _ := strconv.ParseInt(m[2], 10, 64)
		ct, _ := strconv.ParseInt(m[3], 10, 64)

		// the range is over the file (documented: "return only a sub-range of a file"); a server that
		// ranges over the transformed representation instead is accepted as well
		var rep []byte

		switch ct {
		case int64(len(raw)):
			rep = raw
		case int64(len(full)):
			rep = full
		default:
			add("content-range", "Content-Range %q: total is neither the file size %d nor the representation size %d (Range %q)", cr, len(raw), len(full), rangeText)

			return
		}

		if ca > cb || cb >= ct {
			add("content-range", "Content-Range %q is not a range of a %d-byte file (Range %q)", cr, ct, rangeText)

			return
		}

		if wellFormed {
			wb := e
			if wb < 0 || wb >= ct {
				wb = ct - 1
			}

			if ca != s || cb != wb {
				add("content-range", "Range %q asks for %d-%d of %d, Content-Range says %q", rangeText, s, wb, ct, cr)
			}
		}

		want := rep[ca : cb+1]

		if rq.Method == "HEAD" {
			if len(resp.Body) != 0 {
				add("head-body", "HEAD response carries %d body bytes", len(resp.Body))
			}

			if cl := resp.Header.Get("Content-Length"); cl != strconv.Itoa(len(want)) {
				if strings.HasSuffix(seen, ".md") && cl == strconv.Itoa(len(assets.VerifMdToHTML(raw[ca:cb+1]))) {
					add("md-rendered-fragment", "HEAD 206 %q of a .md asset: Content-Length %s is the size of the HTML rendering of bytes %d-%d of the Markdown source", cr, cl, ca, cb)
				} else {
					add("content-length", "HEAD 206 Content-Length %q for range %q", cl, cr)
				}
			}
		} else {
			if !bytes.Equal(resp.Body, want) {
				if strings.HasSuffix(seen, ".md") && bytes.Equal(resp.Body, assets.VerifMdToHTML(raw[ca:cb+1])) {
					add("md-rendered-fragment", "206 %q of a .md asset: the body is the HTML rendering of bytes %d-%d of the Markdown source (%d bytes), which is neither that byte range of the file nor of the rendered page", cr, ca, cb, len(resp.Body))
				} else {
					add("body", "206 %q: body (%d bytes) is not that byte range of the file", cr, len(resp.Body))
				}
			}

			if cl := resp.Header.Get("Content-Length"); cl != "" && cl != strconv.Itoa(len(resp.Body)) {
				add("content-length", "206 Content-Length %q but %d body bytes", cl, len(resp.Body))
			}
		}

	case resp.Status == 304:
		if !needFile() {
			return
		}

		etag := fmt.Sprintf(`"%x"`, sha256.Sum256(full))
		if !strings.Contains(rq.INM, etag) {
			add("not-modified", "304 although If-None-Match %q does not name the current representation %s", rq.INM, etag)
		}

		if len(resp.Body) != 0 {
			add("not-modified", "304 with a body")
		}

	case resp.Status >= 400:
		// an error status of the server's own making: always acceptable

	default:
		add(fmt.Sprintf("status-%d", resp.Status), "unexpected status %d", resp.Status)
	}

	return
}

func c39Key(rq c39Req, shape, class string, fd c39Finding, cacheTag string) string {
	switch fd.Symptom {
	case "leak", "served-outside-root", "served-missing":
		return "path:" + class + ":" + fd.Symptom + cacheTag
	case "md-rendered-fragment":
		return "range:md:rendered-fragment" + cacheTag
	}

	if rq.Range != nil {
		return "range:" + shape + ":" + fd.Symptom + cacheTag
	}

	return "path:" + class + ":" + fd.Symptom + cacheTag
}

func strp(s string) *string { return &s }
func boolp(b bool) *bool    { return &b }

// c39Spell applies spelling games to a canonical URL path that keep (or are meant to keep) its meaning.
func c39Spell(rng *rand.Rand, p string) string {
	segs := strings.Split(strings.TrimPrefix(p, "/"), "/")

	for n := rng.Intn(4); n > 0; n-- {
		i := rng.Intn(len(segs))

		switch rng.Intn(9) {
		case 0: // doubled separator
			segs[i] = "/" + segs[i]
		case 1: // dot segment
			segs[i] = "./" + segs[i]
		case 2: // into a directory and back out
			segs[i] = segs[i] + "/../" + segs[i]
		case 3: // the same, encoded
			segs[i] = segs[i] + "/%2e%2e/" + segs[i]
		case 4: // encoded separator
			if i > 0 {
				segs[i-1] = segs[i-1] + "%2f" + segs[i]
				segs = append(segs[:i], segs[i+1:]...)
			}
		case 5: // percent-encode one character
			if s := segs[i]; len(s) > 0 {
				j := rng.Intn(len(s))
				segs[i] = s[:j] + fmt.Sprintf("%%%02X", s[j]) + s[j+1:]
			}
		case 6: // encoded dot in a dot segment
			segs[i] = "%2e/" + segs[i]
		case 7: // phantom sibling
			segs[i] = "zz/../" + segs[i]
		case 8: // mixed ".%2e"
			segs[i] = segs[i] + "/.%2E/" + segs[i]
		}
	}

	out := "/" + strings.Join(segs, "/")

	switch rng.Intn(14) {
	case 0:
		out += "%00"
	case 1:
		out += "%00.md"
	case 2:
		out += "?x=1&y=%2e%2e"
	case 3:
		out += "/"
	case 4:
		out += "/."
	case 5:
		out = "/" + out
	}

	return out
}

// c39Encode escapes the characters of a path that a request target cannot carry raw.
func c39Encode(p string) string {
	var b strings.Builder

	for i := 0; i < len(p); i++ {
		c := p[i]
		if c <= ' ' || c >= 0x7f || c == '#' {
			fmt.Fprintf(&b, "%%%02X", c)
		} else {
			b.WriteByte(c)
		}
	}

	return b.String()
}

func c39Range(rng *rand.Rand, length int64) *string {
	l := length
	if l < 2 {
		l = 2
	}

	a := rng.Int63n(l)
	b := a + rng.Int63n(l-a)

	switch rng.Intn(40) {
	case 0, 1, 2, 3, 4, 5, 6, 7, 8, 9, 10, 11:
		return nil
	case 12:
		return strp(fmt.Sprintf("bytes=%d", a))
	case 13:
		return strp(fmt.Sprintf("bytes=-%d", 1+rng.Int63n(l)))
	case 14, 15:
		return strp(fmt.Sprintf("bytes=%d-", a))
	case 16:
		return strp(fmt.Sprintf("bytes=%d-", length))
	case 17:
		return strp(fmt.Sprintf("bytes=%d-", length+1+rng.Int63n(1000)))
	case 18:
		return strp(fmt.Sprintf("bytes=%d-%d", length+rng.Int63n(10), length+10+rng.Int63n(10)))
	case 19:
		return strp(fmt.Sprintf("bytes=%d-%d", b+1, a))
	case 20:
		return strp("bytes=0-0")
	case 21, 22, 23, 24:
		return strp(fmt.Sprintf("bytes=%d-%d", a, b))
	case 25:
		return strp(fmt.Sprintf("bytes=%d-%d", a, length+rng.Int63n(100000)))
	case 26:
		return strp(fmt.Sprintf("bytes=%d-9223372036854775807", rng.Int63n(2)*a))
	case 27:
		return strp("bytes=9223372036854775807-")
	case 28:
		return strp([]string{"bytes=9223372036854775808-", "bytes=0-9223372036854775808", "bytes=99999999999999999999-", "bytes=0-18446744073709551616"}[rng.Intn(4)])
	case 29:
		return strp(fmt.Sprintf("bytes=0-%d,%d-%d", a, b, b+5))
	case 30:
		return strp([]string{"items=0-5", "chars=1-2", "none", "bytes 0-5", "seconds=1-2"}[rng.Intn(5)])
	case 31:
		return strp("")
	case 32:
		return strp([]string{"-", "bytes=", "bytes", "bytes=-", "bytes=--5", "bytes=5--", "=", "bytes=a-b", "bytes=1e3-", "bytes=0x10-", "bytes=+1-+2", "bytes= 1-2", "bytes=1 - 2", "BYTES=0-1", "bytes=0-1-2", "bytes=bytes=0-1", "bytes=-0", "bytes=00-01"}[rng.Intn(18)])
	case 33:
		return strp(fmt.Sprintf("bytes=%d-%d", length-1, length-1))
	case 34:
		return strp(fmt.Sprintf("bytes=%d-%d", length-1, length))
	case 35:
		return strp(fmt.Sprintf("bytes=0-%d", length-1))
	case 36:
		return strp(fmt.Sprintf("bytes=0-%d", length))
	default:
		return strp(fmt.Sprintf("bytes=%d-%d", a, b))
	}
}

func TestC39(t *testing.T) {
	r := vh.New("C39", "assets")
	r.Rule = "GET/HEAD requests through the real route table: target (known file | canary outside the root | symlink | directory | missing) x 0..3 spelling games (doubled separators, dot segments, " +
		"literal and %-encoded '..', %2f, NUL, query, trailing slash) x Range header drawn from 25 shapes relative to the file length x cache state x JS/CSS minification on/off; " +
		"distinct = distinct (method, target, Range, If-None-Match, cache state, minify); non-trivial = the spelling is not the canonical one or a Range header is present"
	r.Assume("the monitor's resolver (filepath.Clean + EvalSymlinks against <lib>/assets) defines which file a path names; the expected Markdown/minified bytes come from the handler's own renderer and minifier applied to the known file bytes")

	f := mustFixture(t, srvfix.Options{})
	rng := vh.Rand("c39")
	a := c39Build(t, f, vh.Rand("c39-arena"))
	known := vh.KnownKeys("C39")

	setMinify := func(on bool) {
		settings.SetDefault(defs.JSMinifySetting, strconv.FormatBool(on))
		assets.FlushAssetCache()
	}

	setCache := func(rq c39Req, want bool) {
		seen := c39SeenPath(rq.Path)
		if want == assets.VerifIsCached(seen) {
			return
		}

		if !want {
			assets.FlushAssetCache()

			return
		}

		f.Do(srvfix.Request{Method: "GET", Path: rq.Path}) // prime: a plain GET loads the asset into the cache
	}

	var lastMinify *bool

	evaluate := func(rq c39Req, origin string, sample bool) {
		if lastMinify == nil || *lastMinify != rq.Minify {
			setMinify(rq.Minify)
			lastMinify = boolp(rq.Minify)
		}

		if rq.Cached != nil {
			setCache(rq, *rq.Cached)
		}

		findings, status, shape, class, wasCached := a.run(f, rq)
		id, _ := json.Marshal(rq)
		r.Eval(vh.Hash(string(id), wasCached), class != "plain" || rq.Range != nil)
		r.Count("events.requests."+origin, 1)
		r.Count(fmt.Sprintf("events.status.%d", status), 1)
		r.Count("range-shape."+shape, 1)
		r.Count("path-class."+class, 1)
		r.Count("events.method."+rq.Method, 1)

		if wasCached {
			r.Count("events.served_with_cache_entry", 1)
		}

		if sample {
			r.Sample(map[string]any{"request": rq, "status": status, "shape": shape, "class": class, "cached": wasCached})
		}

		for _, fd := range findings {
			// does the verdict depend on the cache state? rerun in the other state
			cacheTag := ""

			if fd.Symptom != "panic" {
				other := rq
				other.Cached = boolp(!wasCached)
				setCache(other, !wasCached)

				f2, _, _, _, was2 := a.run(f, other)
				r.Count("events.reruns", 1)

				same := false
				for _, x := range f2 {
					same = same || x.Symptom == fd.Symptom
				}

				if !same && was2 != wasCached {
					cacheTag = map[bool]string{true: ":cached", false: ":uncached"}[wasCached]
				}
			}

			rq2 := rq
			rq2.Cached = boolp(wasCached)
			r.Violate(vh.Violation{Key: c39Key(rq, shape, class, fd, cacheTag),
				Desc:     fmt.Sprintf("%s %s Range=%s (shape %s, path class %s, cache entry present: %v, status %d): %s", rq.Method, rq.Path, rangeString(rq.Range), shape, class, wasCached, status, fd.Detail),
				Case:     rq2,
				Observed: fd.Detail})
		}
	}

	if c := vh.ReplayCase(); c != nil {
		var rq c39Req
		if err := json.Unmarshal(c, &rq); err != nil {
			t.Fatal(err)
		}

		evaluate(rq, "replay", true)
		r.Distinct = 2
		_ = r.Write()

		return
	}

	// avoid set: request families named by a known finding stay out of the random stream (their probes below keep them under test)
	avoided := func(rq c39Req) bool {
		if len(known) == 0 {
			return false
		}

		seen := c39SeenPath(rq.Path)
		real, kind, via := a.resolve(seen)
		class := c39PathClass(rq.Path, kind, via)
		var rawBytes []byte
		if kind == "file" {
			rawBytes = a.bytesOf(real)
		}

		length := a.shapeLength(seen, kind, rawBytes)

		rt := ""
		if rq.Range != nil {
			rt = *rq.Range
		}

		shape, _, _, _ := c39Shape(rt, rq.Range != nil, length)

		for k := range known {
			if strings.HasPrefix(k, "path:"+class+":") || (rq.Range != nil && strings.HasPrefix(k, "range:"+shape+":")) {
				return true
			}

			if k == "range:md:rendered-fragment" && rq.Range != nil && strings.HasSuffix(seen, ".md") {
				return true
			}
		}

		return false
	}

	// directed probes: the smallest member of every family the design names, in both cache states
	probes := []c39Req{}

	for _, m := range []string{"GET", "HEAD"} {
		for _, cached := range []bool{false, true} {
			for _, rg := range []string{"bytes=5", "bytes=-5", "bytes=5-", "bytes=95-", "bytes=96-", "bytes=200-", "bytes=200-300", "bytes=7-3", "bytes=0-0", "bytes=94-94", "bytes=0-94", "bytes=0-95",
				"bytes=0-9223372036854775807", "bytes=5-9223372036854775807", "bytes=9223372036854775807-", "bytes=99999999999999999999-", "bytes=0-1,3-4", "items=0-5", "", "-", "bytes=0-1-2"} {
				probes = append(probes, c39Req{Method: m, Path: "/assets/c39/plain.txt", Range: strp(rg), Cached: boolp(cached)})
			}

			for _, rg := range []string{"bytes=0-9", "bytes=10-", "bytes=0-9223372036854775807", "bytes=0-"} {
				probes = append(probes, c39Req{Method: m, Path: "/assets/c39/doc.md", Range: strp(rg), Cached: boolp(cached)})
				probes = append(probes, c39Req{Method: m, Path: "/assets/c39/app.js", Range: strp(rg), Cached: boolp(cached), Minify: true})
			}

			for _, p := range append(append([]string{}, a.known...), a.outside...) {
				probes = append(probes, c39Req{Method: m, Path: c39Encode(p), Cached: boolp(cached)})
				probes = append(probes, c39Req{Method: m, Path: c39Encode(p), Cached: boolp(cached), Minify: true})
			}

			for _, p := range a.outside {
				probes = append(probes, c39Req{Method: m, Path: c39Encode(p), Range: strp("bytes=0-"), Cached: boolp(cached)})
				probes = append(probes, c39Req{Method: m, Path: c39Encode(strings.ReplaceAll(p, "..", "%2e%2e")), Cached: boolp(cached)})
				probes = append(probes, c39Req{Method: m, Path: c39Encode(strings.ReplaceAll(p, "../", "..%2f")), Cached: boolp(cached)})
				probes = append(probes, c39Req{Method: m, Path: c39Encode(strings.ReplaceAll(p, "/", "//")), Cached: boolp(cached)})
			}
		}
	}

	for k := range known {
		r.Probe(k)
	}

	for _, p := range probes {
		evaluate(p, "directed", false)
	}

	// random stream
	n := vh.N(5000, 300000)
	minify := false

	for i, attempts := 0, 0; i < n && attempts < 4*n; attempts++ {
		minify = (i*4/n)%2 == 1 // four phases: off, on, off, on (a switch flushes the cache)

		var target string

		pick := rng.Intn(100)

		switch {
		case pick < 55:
			target = a.known[rng.Intn(len(a.known))]
			// the 6 MiB file is expensive to compare: keep it to about 1% of the stream
			for strings.HasSuffix(target, "big.bin") && rng.Intn(4) != 0 {
				target = a.known[rng.Intn(len(a.known))]
			}
		default:
			target = a.outside[rng.Intn(len(a.outside))]
		}

		raw := c39Encode(target)
		if rng.Intn(10) >= 4 {
			raw = c39Spell(rng, raw)
		}

		rq := c39Req{Method: "GET", Path: raw, Minify: minify}
		if rng.Intn(4) == 0 {
			rq.Method = "HEAD"
		}

		length := int64(100)
		if real, kind, _ := a.resolve(c39SeenPath(raw)); kind == "file" {
			length = int64(len(a.bytesOf(real)))
		}

		rq.Range = c39Range(rng, length)

		switch rng.Intn(6) {
		case 0:
			rq.Cached = boolp(false)
		case 1, 2:
			rq.Cached = boolp(true)
		}

		if rng.Intn(12) == 0 {
			if real, kind, _ := a.resolve(c39SeenPath(raw)); kind == "file" && rng.Intn(3) > 0 {
				rq.INM = fmt.Sprintf(`W/"x", "%x"`, sha256.Sum256(c39Transform(c39SeenPath(raw), a.bytesOf(real), minify)))
			} else {
				rq.INM = `"0000"`
			}
		}

		if avoided(rq) {
			r.Count("events.avoided_known", 1)

			continue
		}

		evaluate(rq, "random", i%(n/5+1) == 7)
		i++
	}

	if r.Counters["events.status.200"] == 0 || r.Counters["events.status.206"] == 0 {
		t.Fatal("observed no 200 or no 206 response: the arena is not being served")
	}

	if err := r.Write(); err != nil {
		t.Fatal(err)
	}
}

func rangeString(p *string) string {
	if p == nil {
		return "<none>"
	}

	return strconv.Quote(*p)
}
