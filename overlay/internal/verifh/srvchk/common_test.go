package srvchk

import (
	"bytes"
	"compress/gzip"
	"fmt"
	"io"
	"os"
	"testing"

	"github.com/google/uuid"

	"github.com/tucats/ego/internal/verifh/srvfix"
)

// mustFixture starts the shared in-process server (once per process).
func mustFixture(t *testing.T, o srvfix.Options) *srvfix.Fixture {
	t.Helper()

	if os.Getenv("VERIF_EGO_SRC") == "" {
		t.Fatal("VERIF_EGO_SRC not set (run through ./check)")
	}

	f, err := srvfix.Start(o)
	if err != nil {
		t.Fatalf("fixture: %v", err)
	}

	return f
}

// bearer returns the Authorization header of a fixture user (token through the real logon endpoint).
func bearer(t *testing.T, f *srvfix.Fixture, user string) string {
	t.Helper()

	tok, err := f.Logon(user)
	if err != nil {
		t.Fatalf("logon %s: %v", user, err)
	}

	return "Bearer " + tok
}

// clientBody is the body as a client sees it: gunzipped when Content-Encoding says gzip.
func clientBody(r srvfix.Response) ([]byte, bool, error) {
	switch enc := r.Header.Get("Content-Encoding"); enc {
	case "":
		return r.Body, false, nil
	case "gzip":
		zr, err := gzip.NewReader(bytes.NewReader(r.Body))
		if err != nil {
			return nil, true, fmt.Errorf("gzip header: %v", err)
		}

		out, err := io.ReadAll(zr)
		if err != nil {
			return nil, true, fmt.Errorf("gunzip: %v", err)
		}

		return out, true, nil
	default:
		return nil, false, fmt.Errorf("unexpected Content-Encoding %q", enc)
	}
}

func newUUID() uuid.UUID { return uuid.New() }
