package srvchk

// C44 — Stored secrets never appear in responses.
//
// Canaries (unique random strings containing characters that JSON, URLs and HTML escape) are
// planted as: user passwords (the clear value and the stored hash string read back from the
// user store), DSN passwords (created through the real POST /dsns handler; clear value and
// the stored ciphertext), ego.server.token.key, ego.logon.token, ego.logon.refresh.token,
// ego.server.default.credential, ego.server.userdata.key, ego.server.oauth.client.secret, the
// OAuth authorization server's client secret (clear + stored hash) and its EC signing key.
// Workload: every GET route of the real table with every declared parameter, POST /admin/config
// once per setting name and once with all names, log retrieval after auth failures, error
// paths whose input is itself a (non-stored) canary; as administrator and as other users; a
// second phase with the diagnostic loggers switched on.
// Oracle: no response body (gunzipped) or header contains a stored canary in raw, JSON-escaped,
// URL-encoded, base64 (any alignment), hex or reversed form. A canary that the request itself
// carried (the caller's own password in its Authorization header) is the caller's input, not a leak.
import (
	"bytes"
	"crypto/ecdsa"
	"crypto/elliptic"
	"crypto/rand"
	"crypto/x509"
	"encoding/base64"
	"encoding/hex"
	"encoding/json"
	"encoding/pem"
	"fmt"
	"html"
	mrand "math/rand"
	"net/url"
	"os"
	"path/filepath"
	"sort"
	"strings"
	"testing"

	"github.com/tucats/ego/internal/caches"
	"github.com/tucats/ego/internal/cli/settings"
	"github.com/tucats/ego/internal/cli/ui"
	"github.com/tucats/ego/internal/defs"
	"github.com/tucats/ego/internal/dsns"
	"github.com/tucats/ego/internal/router"
	"github.com/tucats/ego/internal/server/auth"
	"github.com/tucats/ego/internal/verifh/srvfix"
	"github.com/tucats/ego/internal/verifh/vh"
)

type c44Canary struct {
	Class   string
	Value   string
	needles [][]byte
}

type c44Set struct{ list []*c44Canary }

// forms returns every spelling of a secret the oracle looks for.
func c44Forms(v string) [][]byte {
	seen := map[string]bool{}
	out := [][]byte{}

	add := func(s string) {
		if len(s) >= 8 && !seen[s] {
			seen[s] = true
			out = append(out, []byte(s))
		}
	}

	add(v)

	j, _ := json.Marshal(v)
	add(string(j[1 : len(j)-1])) // JSON-escaped with HTML escaping (Go's default)

	var jb bytes.Buffer

	enc := json.NewEncoder(&jb)
	enc.SetEscapeHTML(false)
	_ = enc.Encode(v)
	add(strings.TrimSuffix(jb.String(), "\n")[1 : jb.Len()-2])

	add(url.QueryEscape(v))
	add(url.PathEscape(v))
	add(html.EscapeString(v))
	add(hex.EncodeToString([]byte(v)))
	add(strings.ToUpper(hex.EncodeToString([]byte(v))))

	r := []rune(v)
	for i, k := 0, len(r)-1; i < k; i, k = i+1, k-1 {
		r[i], r[k] = r[k], r[i]
	}

	add(string(r))

	// base64 at the three alignments: encode with 0..2 bytes of padding in front and drop the characters
	// the padding or the tail influence
	for _, e := range []*base64.Encoding{base64.StdEncoding, base64.URLEncoding} {
		for pad := 0; pad < 3; pad++ {
			s := e.EncodeToString(append(bytes.Repeat([]byte{'x'}, pad), v...))
			start := 0
			if pad > 0 {
				start = 4
			}

			end := len(s) - 4
			if start < end {
				add(s[start:end])
			}
		}
	}

	return out
}

func (s *c44Set) add(class, value string) {
	if value == "" {
		return
	}

	s.list = append(s.list, &c44Canary{Class: class, Value: value, needles: c44Forms(value)})
}

// scan returns the classes of stored secrets found in data.
func (s *c44Set) scan(data []byte) []*c44Canary {
	hits := []*c44Canary{}

	for _, c := range s.list {
		for _, n := range c.needles {
			if bytes.Contains(data, n) {
				hits = append(hits, c)

				break
			}
		}
	}

	return hits
}

// c44New makes a canary value: random, and with characters that the usual encodings change.
func c44New(rng *mrand.Rand, tag string) string {
	const al = "abcdefghijklmnopqrstuvwxyzABCDEFGHIJKLMNOPQRSTUVWXYZ0123456789"

	b := []byte("cY" + tag + "7")
	for i := 0; i < 14; i++ {
		b = append(b, al[rng.Intn(len(al))])
	}

	return string(b) + `/q+"z\ w&<`
}

func TestC44(t *testing.T) {
	r := vh.New("C44", "secrets")
	r.Rule = "requests: every GET/HEAD route of the real table x valid and canary-named path variables x (no parameter | each declared parameter with each well-formed value | all), POST /admin/config once per name in defs.ValidSettings, " +
		"once per planted name and once with all, logon and log retrieval after provoked authentication failures; as administrator, as every other user, anonymously; repeated with the diagnostic loggers on; " +
		"distinct = distinct (user, method, path, body); non-trivial = the response status is 2xx (a body that could carry data)"
	r.Assume("a canary carried by the request itself (own password in Authorization, own input in path or body) is not a stored-secret leak; tokens handed to a client at logon are not stored secrets")

	rng := vh.Rand("c44")
	set := &c44Set{}

	base := os.Getenv("VERIF_ARENA")
	if base == "" {
		base, _ = os.MkdirTemp("", "c44-")
	}

	arena := filepath.Join(base, "c44")
	oauthDir := filepath.Join(arena, "oauth")

	if err := os.MkdirAll(oauthDir, 0o700); err != nil {
		t.Fatal(err)
	}

	// users with canary passwords
	users := []srvfix.User{}
	for _, u := range c40Users() {
		u.Password = c44New(rng, "Pw")
		users = append(users, u)
	}

	// OAuth authorization server: a client with a secret and a signing key the monitor knows
	clientSecret := c44New(rng, "Oc")
	clientHash := srvfix.HashPassword(clientSecret)
	clients := []map[string]any{{"client_id": "c44client", "client_secret_hash": clientHash, "redirect_uris": []string{"http://localhost/cb"},
		"grant_types": []string{"authorization_code", "client_credentials", "refresh_token"}, "scopes": []string{"ego.logon"}}}
	cb, _ := json.Marshal(clients)

	if err := os.WriteFile(filepath.Join(oauthDir, "clients.json"), cb, 0o600); err != nil {
		t.Fatal(err)
	}

	key, err := ecdsa.GenerateKey(elliptic.P256(), rand.Reader)
	if err != nil {
		t.Fatal(err)
	}

	der, _ := x509.MarshalECPrivateKey(key)
	pemBytes := pem.EncodeToMemory(&pem.Block{Type: "EC PRIVATE KEY", Bytes: der})

	if err := os.WriteFile(filepath.Join(oauthDir, "key.pem"), pemBytes, 0o600); err != nil {
		t.Fatal(err)
	}

	// settings that hold secrets (the property's list and the tree's own RestrictedSettings of key material)
	secretSettings := map[string]string{
		defs.ServerTokenKeySetting:    c44New(rng, "Tk"),
		defs.LogonTokenSetting:        c44New(rng, "Lt"),
		defs.LogonRefreshTokenSetting: c44New(rng, "Rt"),
		defs.DefaultCredentialSetting: "c44default:" + c44New(rng, "Dc"),
		defs.OAuthClientSecretSetting: c44New(rng, "Os"),
	}

	startSettings := map[string]string{
		defs.OAuthASEnabledSetting:    "true",
		defs.OAuthASIssuerSetting:     "http://localhost",
		defs.OAuthASKeyFileSetting:    filepath.Join(oauthDir, "key.pem"),
		defs.OAuthASClientFileSetting: filepath.Join(oauthDir, "clients.json"),
	}

	for k, v := range secretSettings {
		if k != defs.DefaultCredentialSetting { // read by auth.Initialize to pick the superuser: stored after the start instead
			startSettings[k] = v
		}
	}

	// secrets reachable through Ego code the server runs: a generated service (installed before the start)
	// and programs for POST /admin/run open every stored DSN, open provider URLs that carry a password,
	// and read every secret setting through the runtime's profile functions
	probeDSNs := []string{"c40db", "c40priv", "c44pg", "c44pgx", "c44extra", "nosuch"}
	probeSettings := []string{}

	for k := range secretSettings {
		probeSettings = append(probeSettings, k)
	}

	probeSettings = append(probeSettings, defs.LogonUserdataKeySetting, "ego.server.token")
	sort.Strings(probeSettings)

	svcCanary := c44Safe(rng, "Sv")
	svcCanary2 := c44Safe(rng, "Sw")
	serviceURLs := []string{"postgres://svcuser:" + svcCanary + "@127.0.0.1:5432/db?sslmode=disable", "postgres://svcuser:p%2Fq" + svcCanary2 + "@127.0.0.1:5432/db"}
	set.add("service-embedded-dsn-password", svcCanary)
	set.add("service-embedded-dsn-password", svcCanary2)

	f := mustFixture(t, srvfix.Options{Arena: arena, Users: users, Settings: startSettings,
		Services: map[string]string{"services/c44/probe.ego": c44ProbeService(probeDSNs, probeSettings, serviceURLs)}})

	// set after start: the key that encrypts the user/DSN files on their next flush
	userdataKey := c44New(rng, "Uk")
	settings.SetDefault(defs.LogonUserdataKeySetting, userdataKey)
	secretSettings[defs.LogonUserdataKeySetting] = userdataKey
	settings.SetDefault(defs.DefaultCredentialSetting, secretSettings[defs.DefaultCredentialSetting])

	// every other setting whose NAME suggests a secret gets a marker too; an echo of those is counted, not judged
	// (their values are durations, flags and file names)
	named := map[string]string{}

	validNames := []string{}
	for name := range defs.ValidSettings {
		validNames = append(validNames, name)
	}

	sort.Strings(validNames)

	for _, name := range validNames {
		low := strings.ToLower(name)
		if _, isSecret := secretSettings[name]; isSecret {
			continue
		}

		if strings.Contains(low, "password") || strings.Contains(low, "secret") || strings.Contains(low, "key") || strings.Contains(low, "token") || strings.Contains(low, "credential") {
			if settings.Get(name) == "" {
				named[name] = c44New(rng, "Nm")
				settings.SetDefault(name, named[name])
			}
		}
	}

	// the name-suggests-a-secret markers must not change how the server works
	for _, k := range []string{defs.OAuthASKeyFileSetting, defs.OAuthASClientFileSetting, defs.PlaintextPasswordSetting, defs.ServerTokenExpirationSetting, defs.LogonTokenExpirationSetting,
		defs.OAuthASTokenExpirationSetting} {
		if v, ok := named[k]; ok && settings.Get(k) == v {
			settings.DeleteDefault(k)
			delete(named, k)
		}
	}

	controlSet := &c44Set{}
	controlValue := c44New(rng, "Ct")
	settings.SetDefault("ego.verif.c44.control", controlValue)
	controlSet.add("control", controlValue)

	sampleCtr := 0
	namedSet := &c44Set{}
	for k, v := range named {
		namedSet.add("setting-named-like-a-secret:"+k, v)
	}

	for k, v := range secretSettings {
		set.add("setting:"+k, v)

		if k == defs.DefaultCredentialSetting {
			set.add("setting:"+k, strings.SplitN(v, ":", 2)[1])
		}
	}

	for _, u := range users {
		set.add("user-password:"+u.Name, u.Password)

		if rec, err := auth.AuthService.ReadUser(0, u.Name, true); err == nil {
			set.add("user-password-hash:"+u.Name, rec.Password)
		} else {
			t.Fatalf("read user %s: %v", u.Name, err)
		}
	}

	set.add("oauth-client-secret", clientSecret)
	set.add("oauth-client-secret-hash", clientHash)
	set.add("oauth-signing-key", base64.StdEncoding.EncodeToString(der))
	set.add("oauth-signing-key", string(der))
	set.add("oauth-signing-key", base64.RawURLEncoding.EncodeToString(key.D.Bytes()))
	set.add("oauth-signing-key", hex.EncodeToString(key.D.Bytes()))
	set.add("oauth-signing-key", string(key.D.Bytes()))

	basic := map[string]string{}
	for _, u := range users {
		basic[u.Name] = srvfix.Basic(u.Name, u.Password)
	}

	adminHdr := func() map[string]string {
		return map[string]string{"Authorization": basic["admin"], "Accept": "application/json", "Content-Type": "application/json"}
	}

	// DSNs through the real handler, with canary passwords
	dsnPw := map[string]string{}

	for _, name := range []string{"c40db", "c40priv"} {
		dsnPw[name] = c44New(rng, "Dp")
		body, _ := json.Marshal(map[string]any{"name": name, "provider": "sqlite", "database": filepath.Join(arena, name+".db"), "user": "dbuser", "password": dsnPw[name], "restricted": name == "c40priv"})
		resp := f.Do(srvfix.Request{Method: "POST", Path: "/dsns/", Header: adminHdr(), Body: body})

		if resp.Status >= 300 || resp.Panic != "" {
			t.Fatalf("create DSN %s: %d %s %s", name, resp.Status, resp.Body, resp.Panic)
		}

		set.add("dsn-password:"+name, dsnPw[name])

		if d, err := dsns.DSNService.ReadDSN(0, "admin", name, true); err == nil && d.Password != "" && d.Password != defs.ElidedPassword {
			set.add("dsn-password-stored:"+name, d.Password)
		} else {
			r.Note(fmt.Sprintf("stored form of the DSN password of %s not readable from the service (%v)", name, err))
		}

		cols := `[{"name":"id","type":"int"},{"name":"name","type":"string"}]`
		f.Do(srvfix.Request{Method: "PUT", Path: "/dsns/" + name + "/tables/t1", Header: adminHdr(), Body: []byte(cols)})
		f.Do(srvfix.Request{Method: "PUT", Path: "/dsns/" + name + "/tables/t1/rows", Header: adminHdr(), Body: []byte(`{"id":1,"name":"row1"}`)})
	}

	// stored DSNs of a provider whose connection string carries the password (opening postgres is lazy and
	// the host is this machine: nothing leaves it). One password is legal in a URL as it stands, one is not.
	for name, pw := range map[string]string{"c44pg": c44Safe(rng, "Pg"), "c44pgx": c44New(rng, "Px")} {
		dsnPw[name] = pw
		body, _ := json.Marshal(map[string]any{"name": name, "provider": "postgres", "database": "pgdb", "host": "127.0.0.1", "port": 5432, "user": "pguser", "password": pw})
		resp := f.Do(srvfix.Request{Method: "POST", Path: "/dsns/", Header: adminHdr(), Body: body})

		if resp.Status >= 300 || resp.Panic != "" {
			t.Fatalf("create DSN %s: %d %s %s", name, resp.Status, resp.Body, resp.Panic)
		}

		set.add("dsn-password:"+name, pw)

		if d, err := dsns.DSNService.ReadDSN(0, "admin", name, true); err == nil && d.Password != "" && d.Password != defs.ElidedPassword {
			set.add("dsn-password-stored:"+name, d.Password)
		}
	}

	r.Count("canaries.planted", int64(len(set.list)))
	r.Count("canaries.name-only-markers", int64(len(namedSet.list)))

	classes := map[string]bool{}
	for _, c := range set.list {
		classes[strings.SplitN(c.Class, ":", 2)[0]] = true
	}

	r.Note("secret classes planted: " + strings.Join(sortedBoolKeys(classes), ", "))

	// input canaries: values that exist only in requests (error paths)
	inputCanary := "inpCnry" + fmt.Sprint(rng.Int63())

	phase := "default-loggers"
	phase1Keys := map[string]bool{}
	panicSites := map[string]bool{}

	type req struct {
		route  string
		user   string
		method string
		path   string
		header map[string]string
		body   []byte
	}

	doReq := func(q req) {
		hdr := map[string]string{"Accept": "application/json"}
		for k, v := range q.header {
			hdr[k] = v
		}

		if q.user != "" && hdr["Authorization"] == "" {
			hdr["Authorization"] = basic[q.user]
		}

		if q.body != nil && hdr["Content-Type"] == "" {
			hdr["Content-Type"] = "application/json"
		}

		if c40IsExcluded(f.Router.VerifC40Resolve(q.method, c39SeenPath(q.path))) {
			return
		}

		resp := f.Do(srvfix.Request{Method: q.method, Path: q.path, Header: hdr, Body: q.body})
		r.Eval(vh.Hash(q.user, q.method, q.path, string(q.body), phase), resp.Status >= 200 && resp.Status < 300)
		r.Count("events.requests."+phase, 1)
		r.Count(fmt.Sprintf("events.status.%d", resp.Status), 1)
		r.Count("events.response_bytes", int64(len(resp.Body)))

		casev := map[string]any{"route": q.route, "user": q.user, "method": q.method, "path": q.path, "body": string(q.body), "phase": phase}

		if resp.Panic != "" {
			r.Count("events.panics (C40's subject)", 1)

			if site := c40Site(resp.Panic); !panicSites[site] {
				panicSites[site] = true
				r.Note(fmt.Sprintf("handler panic at %s for %s %s as %q (reported by C40, not judged here)", site, q.method, vh.Trunc(q.path, 120), q.user))
			}

			return
		}

		body, _, err := clientBody(resp)
		if err != nil {
			body = resp.Body
		}

		if q.route == "POST /admin/run" {
			if bytes.Contains(body, []byte(`"output"`)) {
				r.Count("events.ego_programs_with_output", 1)
			}

			if bytes.Contains(body, []byte("Code sessions exceeded")) {
				r.Count("events.ego_programs_refused", 1)
			}
		}

		if os.Getenv("C44_DEBUG") != "" && (q.route == "POST /admin/run" || q.route == "GET /services/c44/probe") {
			fmt.Printf("DEBUG %s as %s -> %d %s\n", q.route, q.user, resp.Status, vh.Trunc(string(body), 700))
		}

		// what the request itself carried
		var sent bytes.Buffer

		sent.WriteString(q.path)
		sent.WriteByte('\n')

		if u, err := url.PathUnescape(q.path); err == nil {
			sent.WriteString(u)
		}

		sent.Write(q.body)

		for _, v := range hdr {
			sent.WriteString("\n" + v)

			if strings.HasPrefix(v, "Basic ") {
				if d, err := base64.StdEncoding.DecodeString(v[6:]); err == nil {
					sent.Write(d)
				}
			}
		}

		own := map[*c44Canary]bool{}
		for _, c := range set.scan(sent.Bytes()) {
			own[c] = true
		}

		var hay bytes.Buffer

		hay.Write(body)

		for k, vs := range resp.Header {
			for _, v := range vs {
				hay.WriteString("\n" + k + ": " + v)
			}
		}

		for _, c := range set.scan(hay.Bytes()) {
			if own[c] {
				r.Count("echo.of-own-input", 1)

				continue
			}

			// the class without the instance (user / DSN name) is the defect; settings keep their name
			class := c.Class
			if !strings.HasPrefix(class, "setting:") {
				class = strings.SplitN(class, ":", 2)[0]
			}

			// a leak that needs the diagnostic loggers to be on says so in its key; one that was already
			// seen with the default loggers keeps its key in the second phase
			key := "leak:" + strings.ReplaceAll(q.route, " ", "") + ":" + class
			if phase == "default-loggers" {
				phase1Keys[key] = true
			} else if !phase1Keys[key] {
				key += ":diagnostic-loggers"
			}

			where := "body"
			if len(set.scan(body)) == 0 {
				where = "headers"
			}

			r.Violate(vh.Violation{Key: key, Desc: fmt.Sprintf("%s %s as %q (%s): the response %s (status %d) contains the stored secret %s", q.method, vh.Trunc(q.path, 200), q.user, phase, where, resp.Status, c.Class),
				Case: casev, Observed: excerpt(hay.Bytes(), c)})
		}

		for range namedSet.scan(hay.Bytes()) {
			r.Count("echo.setting-named-like-a-secret (not judged)", 1)
		}

		// positive control: a canary stored in a setting that is NOT a secret must be seen by the same scanner
		if len(controlSet.scan(hay.Bytes())) > 0 {
			r.Count("control.canary_detected_in_responses", 1)
		}

		elided := bytes.Count(body, []byte(defs.ElidedPassword))
		r.Count("events.elision_placeholders_seen", int64(elided))

		if sampleCtr++; sampleCtr%500 == 3 || (elided > 3 && sampleCtr%40 == 0) {
			r.Sample(map[string]any{"route": q.route, "user": q.user, "path": vh.Trunc(q.path, 120), "status": resp.Status, "response_bytes": len(body), "elided_placeholders": elided, "phase": phase})
		}
	}

	routes := []router.VerifC40Route{}
	for _, rt := range f.Router.VerifC40Routes() {
		if !c40IsExcluded(rt.Handler) {
			routes = append(routes, rt)
		}
	}

	r.Count("routes.enumerated", int64(len(routes)))

	// path instances of an endpoint: every combination of valid values plus one canary-named instance
	var expand func(parts []string, i int, canary bool) []string

	expand = func(parts []string, i int, canary bool) []string {
		for ; i < len(parts); i++ {
			if strings.HasPrefix(parts[i], "{{") {
				break
			}
		}

		if i == len(parts) {
			return []string{strings.Join(parts, "/")}
		}

		name := strings.TrimSuffix(strings.TrimSuffix(strings.TrimPrefix(parts[i], "{{"), "}}"), "...")
		vals := uniq(c40ValidSegments[name])

		if len(vals) == 0 {
			vals = []string{"x"}
		}

		if canary {
			vals = []string{inputCanary}
		}

		out := []string{}

		for _, v := range vals {
			p := append([]string{}, parts...)
			p[i] = v
			out = append(out, expand(p, i+1, canary)...)
		}

		return out
	}

	sweep := func(user string, withParams, withAccept bool) {
		for _, rt := range routes {
			if rt.Method != "GET" && rt.Method != "HEAD" {
				continue
			}

			parts := strings.Split(rt.Endpoint, "/")
			paths := expand(parts, 0, false)

			if strings.Contains(rt.Endpoint, "{{") {
				paths = append(paths, expand(parts, 0, true)...)
			}

			names := []string{}
			for n := range rt.Parameters {
				names = append(names, n)
			}

			sort.Strings(names)

			for _, p := range paths {
				queries := []string{""}

				if withParams {
					all := []string{}

					for _, n := range names {
						good := c40ParamGood[rt.Parameters[n]]
						if good == nil {
							good = c40ParamGood["string"]
						}

						for _, v := range good {
							queries = append(queries, "?"+n+"="+v)
						}

						all = append(all, n+"="+good[0])
					}

					if len(all) > 1 {
						queries = append(queries, "?"+strings.Join(all, "&"))
					}
				}

				for _, q := range queries {
					doReq(req{route: rt.Method + " " + rt.Endpoint, user: user, method: rt.Method, path: p + q})

					if q == "" && withAccept {
						for _, acc := range []string{"text/plain", "*/*", "text/html"} {
							doReq(req{route: rt.Method + " " + rt.Endpoint, user: user, method: rt.Method, path: p, header: map[string]string{"Accept": acc}})
						}
					}
				}
			}
		}
	}

	configRequests := func(user string) {
		names := []string{}
		for n := range defs.ValidSettings {
			names = append(names, n)
		}

		for n := range secretSettings {
			names = append(names, n)
		}

		names = uniq(append(names, "ego.server.token", "no.such.setting", inputCanary))
		sort.Strings(names)

		for _, n := range names {
			b, _ := json.Marshal([]string{n})
			doReq(req{route: "POST /admin/config", user: user, method: "POST", path: "/admin/config", body: b})
			b, _ = json.Marshal([]string{strings.ToUpper(n)})
			doReq(req{route: "POST /admin/config", user: user, method: "POST", path: "/admin/config", body: b})
		}

		b, _ := json.Marshal(names)
		doReq(req{route: "POST /admin/config", user: user, method: "POST", path: "/admin/config", body: b})
		doReq(req{route: "POST /admin/config", user: user, method: "POST", path: "/admin/config", body: b, header: map[string]string{"Accept-Encoding": "gzip"}})
	}

	logRequests := func() {
		// provoke authentication failures and logons so that the server log has something to say about credentials
		for _, u := range []string{"alice", "victim", "u-sql"} {
			doReq(req{route: "GET /services/admin/authenticate", method: "GET", path: "/services/admin/authenticate", header: map[string]string{"Authorization": srvfix.Basic(u, "wrong-"+inputCanary)}})
			doReq(req{route: "POST /services/admin/logon", method: "POST", path: "/services/admin/logon", header: map[string]string{"Authorization": srvfix.Basic(u, "wrong-"+inputCanary)}})

			cred, _ := json.Marshal(map[string]string{"username": u, "password": f.Password(u)})
			doReq(req{route: "POST /services/admin/logon", method: "POST", path: "/services/admin/logon", body: cred})
			doReq(req{route: "POST /services/admin/logon", user: u, method: "POST", path: "/services/admin/logon"})
			router.RecordSuccess(u)
		}

		doReq(req{route: "GET /services/admin/authenticate", method: "GET", path: "/services/admin/authenticate", header: map[string]string{"Authorization": "Bearer " + hex.EncodeToString([]byte(inputCanary))}})

		// OAuth token endpoint with the client's real secret and with a wrong one
		for _, sec := range []string{clientSecret, "wrong-" + inputCanary} {
			form := "grant_type=client_credentials&client_id=c44client&client_secret=" + url.QueryEscape(sec) + "&scope=ego.logon"
			doReq(req{route: "POST /oauth2/token", method: "POST", path: "/oauth2/token", body: []byte(form), header: map[string]string{"Content-Type": "application/x-www-form-urlencoded"}})
		}

		for _, q := range []string{"", "?tail=5000", "?tail=5000&class=auth", "?tail=5000&class=server,rest,auth", "?session=1", "?msg=auth", "?archive=true", "?since=2000-01-01T00:00:00Z"} {
			for _, acc := range []string{"application/json", "text/plain"} {
				doReq(req{route: "GET /services/admin/log", user: "admin", method: "GET", path: "/services/admin/log" + q, header: map[string]string{"Accept": acc}})
				doReq(req{route: "GET /services/admin/log", user: "admin", method: "GET", path: "/services/admin/log" + q, header: map[string]string{"Accept": acc, "Accept-Encoding": "gzip"}})
			}
		}
	}

	// every secret setting under spellings a lenient lookup might normalise
	configSpellings := func(user string) {
		names := []string{}
		for n := range secretSettings {
			names = append(names, n)
		}

		names = append(names, "ego.server.token")
		sort.Strings(names)

		for _, n := range names {
			mixed := []rune(n)
			for i := range mixed {
				if i%2 == 0 {
					mixed[i] = []rune(strings.ToUpper(string(mixed[i])))[0]
				}
			}

			spellings := [][]string{
				{" " + n}, {n + " "}, {" " + n + " "}, {"\t" + n}, {n + "\t"}, {n + "\n"}, {"\n" + n}, {"\r\n" + n + "\r\n"}, {"\u00a0" + n}, {n + "\u00a0"}, {"\u2003" + n + "\u3000"}, {"\ufeff" + n},
				{strings.ToUpper(n)}, {string(mixed)}, {strings.Title(n)}, {n + "."}, {"." + n}, {n + ".."}, {strings.ReplaceAll(n, ".", "..")},
				{strings.ReplaceAll(n, ".", "%2E")}, {strings.ReplaceAll(n, ".", "%2e")}, {url.QueryEscape(n)}, {strings.Replace(n, "e", "%65", 1)}, {n + "%20"}, {n + "%00"}, {n + "\x00"}, {"\"" + n + "\""}, {"'" + n + "'"},
				{strings.ReplaceAll(n, ".", "_")}, {strings.ReplaceAll(n, ".", "-")}, {strings.ReplaceAll(n, ".", "/")}, {strings.TrimPrefix(n, "ego.")}, {"ego." + n}, {n + "=x"}, {n + ",ego.server.insecure"}, {n + ";"}, {"$" + n}, {"${" + n + "}"}, {"{{" + n + "}}"},
				{n, n}, {n, strings.ToUpper(n), " " + n}, {"ego.server.insecure", n, "ego.compiler.optimize"}, {"ego.server.insecure", " " + n + " ", "no.such.setting", strings.ToUpper(n)},
			}

			for _, list := range spellings {
				b, _ := json.Marshal(list)
				doReq(req{route: "POST /admin/config", user: user, method: "POST", path: "/admin/config", body: b})
				r.Count("events.config_name_spellings", 1)
			}
		}
	}

	// Ego programs run by the server on the caller's behalf, and the generated service
	programs := c44Programs(probeDSNs, probeSettings, append(append([]string{}, serviceURLs...), "postgres://runuser:"+c44Safe(rng, "Ru")+"@127.0.0.1:5432/db?sslmode=disable"))

	codeRequests := func(user string) {
		for _, code := range programs {
			b, _ := json.Marshal(map[string]any{"code": code})
			doReq(req{route: "POST /admin/run", user: user, method: "POST", path: "/admin/run", body: b})
			r.Count("events.ego_programs_run", 1)

			// every run without a session id opens a new code session (at most 20 are kept for an hour): drop them
			caches.Purge(caches.SymbolTableCache)
		}

		for _, acc := range []string{"application/json", "text/plain"} {
			doReq(req{route: "GET /services/c44/probe", user: user, method: "GET", path: "/services/c44/probe", header: map[string]string{"Accept": acc}})
			r.Count("events.ego_service_calls", 1)
		}

		for _, name := range []string{"c44pg", "c44pgx"} {
			for _, p := range []string{"/dsns/" + name, "/dsns/" + name + "/@permissions", "/dsns/" + name + "/tables/", "/dsns/" + name + "/@metadata"} {
				doReq(req{route: "GET /dsns/{{dsn}}/...(postgres)", user: user, method: "GET", path: p})
			}
		}
	}

	if c := vh.ReplayCase(); c != nil {
		var rc struct {
			Route, User, Method, Path, Body, Phase string
		}

		if err := json.Unmarshal(c, &rc); err != nil {
			t.Fatal(err)
		}

		if rc.Phase != "" && rc.Phase != "default-loggers" {
			for _, l := range []string{"AUTH", "REST", "USER", "TOKEN", "ROUTE", "APP", "INFO", "DB", "SQL", "TABLES", "SERVICES"} {
				if id := ui.LoggerByName(l); id >= 0 {
					ui.Active(id, true)
				}
			}

			phase = "diagnostic-loggers"
			logRequests()
		}

		var body []byte
		if rc.Body != "" {
			body = []byte(rc.Body)
		}

		doReq(req{route: rc.Route, user: rc.User, method: rc.Method, path: rc.Path, body: body})
		r.Distinct = 2
		_ = r.Write()

		return
	}

	thorough := vh.Tier() == "thorough"

	runPhase := func(first bool) {
		sweep("admin", first || thorough, first || thorough)
		configRequests("admin")
		codeRequests("admin")

		if first || thorough {
			configSpellings("admin")
			codeRequests("u-code")
		}

		logRequests()

		others := []string{"alice", "u-server-admin", ""}
		if thorough {
			others = nil

			for _, u := range users {
				if u.Name != "admin" && u.Name != "victim" {
					others = append(others, u.Name)
				}
			}

			others = append(others, "")
		}

		if first || thorough {
			for _, u := range others {
				sweep(u, thorough, thorough)
			}

			configRequests("u-server-admin")
		}
	}

	runPhase(true)

	for _, l := range []string{"AUTH", "REST", "USER", "TOKEN", "ROUTE", "APP", "INFO", "DB", "SQL", "TABLES", "SERVICES"} {
		if id := ui.LoggerByName(l); id >= 0 {
			ui.Active(id, true)
		}
	}

	phase = "diagnostic-loggers"

	// requests that legitimately carry secrets, so that a logger that prints payloads has them
	for _, name := range []string{"c44extra"} {
		pw := c44New(rng, "Dx")
		set.add("dsn-password:"+name, pw)

		body, _ := json.Marshal(map[string]any{"name": name, "provider": "sqlite", "database": filepath.Join(arena, name+".db"), "user": "dbuser", "password": pw})
		doReq(req{route: "POST /dsns/", user: "admin", method: "POST", path: "/dsns/", body: body})
	}

	newPw := c44New(rng, "Nu")
	set.add("user-password:c44new", newPw)

	ub, _ := json.Marshal(map[string]any{"name": "c44new", "password": newPw, "permissions": []string{"ego.logon"}})
	doReq(req{route: "POST /admin/users/", user: "admin", method: "POST", path: "/admin/users/", body: ub})

	if rec, err := auth.AuthService.ReadUser(0, "c44new", true); err == nil {
		set.add("user-password-hash:c44new", rec.Password)
	}

	runPhase(false)

	if r.Evaluations == 0 {
		t.Fatal("observed nothing")
	}

	if r.Counters["events.ego_programs_with_output"]*2 < r.Counters["events.ego_programs_run"] {
		r.Inconcl(fmt.Sprintf("only %d of %d Ego programs produced output", r.Counters["events.ego_programs_with_output"], r.Counters["events.ego_programs_run"]))
	}

	if r.Counters["control.canary_detected_in_responses"] == 0 {
		t.Fatal("the scanner did not see the control canary in any response: the monitor is blind")
	}

	if err := r.Write(); err != nil {
		t.Fatal(err)
	}
}

func excerpt(hay []byte, c *c44Canary) string {
	for _, n := range c.needles {
		if i := bytes.Index(hay, n); i >= 0 {
			a, b := i-120, i+len(n)+60
			if a < 0 {
				a = 0
			}

			if b > len(hay) {
				b = len(hay)
			}

			return fmt.Sprintf("...%s...", hay[a:b])
		}
	}

	return ""
}

func uniq(s []string) []string {
	seen := map[string]bool{}
	out := []string{}

	for _, x := range s {
		if !seen[x] {
			seen[x] = true
			out = append(out, x)
		}
	}

	return out
}

func sortedBoolKeys(m map[string]bool) []string {
	ks := []string{}
	for k := range m {
		ks = append(ks, k)
	}

	sort.Strings(ks)

	return ks
}

// c44Safe makes a canary that is legal inside a URL's userinfo (letters and digits only).
func c44Safe(rng *mrand.Rand, tag string) string {
	const al = "abcdefghijklmnopqrstuvwxyzABCDEFGHIJKLMNOPQRSTUVWXYZ0123456789"

	b := []byte("cS" + tag + "7")
	for i := 0; i < 20; i++ {
		b = append(b, al[rng.Intn(len(al))])
	}

	return string(b)
}

func c44Quote(list []string) string {
	q := []string{}
	for _, s := range list {
		q = append(q, fmt.Sprintf("%q", s))
	}

	return strings.Join(q, ", ")
}

// c44EgoHelpers is Ego source shared by the probe service and the programs sent to POST /admin/run:
// open a database and print the returned value every way the language offers; read a setting.
const c44EgoHelpers = `
func openAndShow(driver string, constr string) string {
    out := ""
    try {
        db, err := sql.Open(driver, constr)
        out = out + fmt.Sprintf("open %s err=%v\n", driver, err)
        if err == nil {
            out = out + fmt.Sprintf("v=%v\nplusv=%+v\nconstr=%s rowcount=%v mode=%v\n", db, db, db.Constr, db.Rowcount, db.StructMode)
            out = out + fmt.Sprintf("str=%s json=%s\n", string(db.Constr), json.Marshal(db.Constr))
            db.Close()
        }
    } catch (e) {
        out = out + fmt.Sprintf("caught %v\n", e)
    }
    return out
}

func setting(name string) string {
    out := ""
    try {
        v, e := profile.Get(name)
        out = fmt.Sprintf("setting %s=%v err=%v\n", name, v, e)
    } catch (e) {
        out = fmt.Sprintf("setting %s caught %v\n", name, e)
    }
    return out
}
`

// c44ProbeService is the generated service installed as lib/services/c44/probe.ego.
func c44ProbeService(dsnNames, settingNames []string, directURLs []string) string {
	return `@endpoint get path="/services/c44/probe" authenticated

import "http"
import "sql"
import "fmt"
import "json"
import "profile"
import "cipher"
` + c44EgoHelpers + `
func handler(req http.Request, w *http.ResponseWriter) {
    out := ""
    for _, n := range []string{` + c44Quote(dsnNames) + `} {
        out = out + openAndShow("dsn", n)
    }
    for _, u := range []string{` + c44Quote(directURLs) + `} {
        out = out + openAndShow("postgres", u)
    }
    for _, n := range []string{` + c44Quote(settingNames) + `} {
        out = out + setting(n)
    }
    out = out + fmt.Sprintf("config=%v\nkeys=%v\n", profile.Config(), profile.Keys())
    t := cipher.New(req.Username, "probe")
    out = out + fmt.Sprintf("token=%v extract=%v\n", t, cipher.Extract(t))
    out = out + fmt.Sprintf("user=%s perms=%v auth=%v headers=%v\n", req.Username, req.Permissions, req.Authentication, req.Headers)
    w.WriteHeader(200)
    w.Write(out)
}
`
}

// c44Programs are the programs sent to POST /admin/run: one per DSN, per direct URL and per setting (so a
// failure of one does not hide the others), plus the whole-configuration and token functions.
func c44Programs(dsnNames, settingNames []string, directURLs []string) []string {
	head := "import \"sql\"\nimport \"json\"\nimport \"profile\"\nimport \"cipher\"\n" + c44EgoHelpers
	out := []string{}

	for _, n := range dsnNames {
		out = append(out, head+fmt.Sprintf("fmt.Print(openAndShow(\"dsn\", %q))\n", n))
		out = append(out, fmt.Sprintf("import \"sql\"\ndb, err := sql.Open(\"dsn\", %q)\nfmt.Println(err)\nfmt.Println(db)\nfmt.Println(db.Constr)\nr, e := db.Query(\"select 1\")\nfmt.Println(r, e)\n", n))
	}

	for _, u := range directURLs {
		out = append(out, head+fmt.Sprintf("fmt.Print(openAndShow(\"postgres\", %q))\n", u))
	}

	for _, n := range settingNames {
		out = append(out, head+fmt.Sprintf("fmt.Print(setting(%q))\n", n))
	}

	out = append(out, "import \"profile\"\nfmt.Println(profile.Config())\nfmt.Println(profile.Keys())\n")
	out = append(out, "import \"profile\"\nc := profile.Config()\nfor k, v := range c {\n    fmt.Printf(\"%s=%s\\n\", k, v)\n}\n")
	out = append(out, "import \"cipher\"\nt := cipher.New(\"alice\", \"probe\")\nfmt.Println(t)\nfmt.Println(cipher.Extract(t))\nfmt.Println(cipher.Validate(t))\n")

	return out
}
