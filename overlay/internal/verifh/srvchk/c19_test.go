package srvchk

// C19 — REST JSON responses carry exactly the handler's data.
//
// Events: the bytes (and Content-Encoding header) util.WriteJSON puts on an
// httptest recorder for a generated JSON value, once with ResponseInfo.AcceptsGzip
// false and once with it true (compression threshold lowered so that gzip is really
// taken whenever it shrinks the body).
// Oracle: gunzip when Content-Encoding: gzip; json.Unmarshal(body) must succeed and
// be deeply equal to json.Unmarshal(json.Marshal(v)) (both decoded with UseNumber so
// number spellings are compared, too).
import (
	"bytes"
	"compress/gzip"
	"encoding/json"
	"fmt"
	"io"
	"math/rand"
	"net/http/httptest"
	"reflect"
	"strings"
	"sync"
	"sync/atomic"
	"testing"
	"unicode"

	"github.com/tucats/ego/internal/cli/settings"
	"github.com/tucats/ego/internal/defs"
	"github.com/tucats/ego/internal/util"
	"github.com/tucats/ego/internal/verifh/vh"
)

// c19Atoms is the alphabet strings are built from: weighted towards backslash,
// quote, whitespace of every Unicode class, control characters, sequences that look
// like JSON escapes and strings that look like JSON.
var c19Atoms = []string{
	`\`, `\`, `\`, `\`, `"`, `"`, `"`, " ", " ", "\t", "\n", "\r", "\v", "\f",
	"\u0085", "\u00a0", "\u00a0", "\u1680", "\u2000", "\u2001", "\u2002", "\u2003", "\u2004", "\u2005",
	"\u2006", "\u2007", "\u2008", "\u2009", "\u200a", "\u2028", "\u2029", "\u202f", "\u205f", "\u3000",
	"\ufeff", "\u200b", "\x00", "\x01", "\x07", "\x08", "\x1b", "\x1f", "\x7f",
	`\\"`, `\\\"`, `" `, `\"`, `\\`, `\\\\`, `\n`, `\t`, `\u0020`, `\u005c`, `\u0022`, `": "`, `", "`, `" : "`,
	`{"a": "b c"}`, `[1, 2, "x y"]`, `{ }`, `[ ]`, `null`, `true `, ` 1 `,
	"a", "Z", "0", "_", "\u00e9", "\u00df", "\u65e5\u672c", "\U0001F600", "\xff", "\xc3", "<", ">", "&", "/", "'", ":", ",", "{", "}", "[", "]",
}

func c19String(rng *rand.Rand) string {
	var b strings.Builder

	n := 0
	switch rng.Intn(10) {
	case 0:
		n = 0
	case 1, 2, 3:
		n = 1 + rng.Intn(2)
	case 4, 5, 6, 7:
		n = 2 + rng.Intn(5)
	default:
		n = 4 + rng.Intn(12)
	}

	for i := 0; i < n; i++ {
		b.WriteString(c19Atoms[rng.Intn(len(c19Atoms))])
	}

	return b.String()
}

// c19Value generates a JSON tree (map[string]any, []any, string, json.Number-free numbers, bool, nil).
func c19Value(rng *rand.Rand, depth int, gen func(*rand.Rand) string) any {
	k := rng.Intn(100)
	if depth <= 0 && k < 40 {
		k = 40 + rng.Intn(60)
	}

	switch {
	case k < 22:
		m := map[string]any{}
		for i, n := 0, rng.Intn(5); i < n; i++ {
			m[gen(rng)] = c19Value(rng, depth-1, gen)
		}

		return m
	case k < 40:
		a := []any{}
		for i, n := 0, rng.Intn(5); i < n; i++ {
			a = append(a, c19Value(rng, depth-1, gen))
		}

		return a
	case k < 82:
		return gen(rng)
	case k < 88:
		return rng.Int63n(2000001) - 1000000
	case k < 92:
		return float64(rng.Int63n(2000001)-1000000) / float64(int64(1)<<uint(rng.Intn(12)))
	case k < 94:
		return rng.NormFloat64() * 1e18
	case k < 97:
		return rng.Intn(2) == 0
	default:
		return nil
	}
}

// c19Decode decodes JSON text with UseNumber and requires that nothing follows the value.
func c19Decode(b []byte) (any, error) {
	var v any

	d := json.NewDecoder(bytes.NewReader(b))
	d.UseNumber()

	if err := d.Decode(&v); err != nil {
		return nil, err
	}

	if _, err := d.Token(); err != io.EOF {
		return nil, fmt.Errorf("trailing data after the JSON value")
	}

	return v, nil
}

// c19Body returns the body a client would see: gunzipped when the response says gzip.
func c19Body(rec *httptest.ResponseRecorder) (body []byte, gz bool, err error) {
	body = rec.Body.Bytes()

	switch enc := rec.Header().Get("Content-Encoding"); enc {
	case "":
		return body, false, nil
	case "gzip":
		zr, err := gzip.NewReader(bytes.NewReader(body))
		if err != nil {
			return nil, true, fmt.Errorf("gzip header: %v", err)
		}

		out, err := io.ReadAll(zr)
		if err != nil {
			return nil, true, fmt.Errorf("gunzip: %v", err)
		}

		return out, true, nil
	default:
		return nil, false, fmt.Errorf("unexpected Content-Encoding %q", enc)
	}
}

// c19Feature classifies the JSON text (as json.MarshalIndent wrote it) by the lexical
// feature that decides the whitespace stripper's path; it is the key of a finding.
// The scan is the monitor's own JSON string tokenizer (escape = backslash + next char).
func c19Feature(text []byte) string {
	in := false
	endsEscBackslash, rawSpaceInString, rawNonASCIISpace := false, false, false

	for i := 0; i < len(text); i++ {
		c := text[i]
		if !in {
			if c == '"' {
				in = true
			}

			continue
		}

		if c == '\\' {
			// an escape consumes the next byte; an escaped backslash directly before the closing quote?
			if i+2 < len(text) && text[i+1] == '\\' && text[i+2] == '"' {
				endsEscBackslash = true
			}

			i++

			continue
		}

		if c == '"' {
			in = false

			continue
		}

		if c == ' ' {
			rawSpaceInString = true
		}

		if c >= 0x80 {
			r, _ := decodeRune(text[i:])
			if unicode.IsSpace(r) {
				rawNonASCIISpace = true
			}
		}
	}

	switch {
	case endsEscBackslash:
		return "string-ends-with-escaped-backslash"
	case rawNonASCIISpace:
		return "non-ascii-space-in-string"
	case rawSpaceInString:
		return "space-in-string"
	default:
		return "unclassified"
	}
}

// c19NonTrivial: the marshalled text contains a backslash, a quote inside a string (always escaped, so a backslash) or a Unicode space inside a string.
func c19NonTrivial(ref []byte) bool {
	if bytes.IndexByte(ref, '\\') >= 0 {
		return true
	}

	for _, c := range string(ref) {
		if unicode.IsSpace(c) {
			return true // json.Marshal writes no whitespace between tokens, so this one is inside a string
		}
	}

	return false
}

func decodeRune(b []byte) (rune, int) {
	for _, r := range string(b[:min(len(b), 4)]) {
		return r, 0
	}

	return 0, 0
}

// c19Check passes one value through WriteJSON in one mode and applies the oracle.
// It returns "" when the response decodes to the handler's value, else a description.
func c19Check(v any, acceptGzip bool) (problem string, gz bool, wire int, feature string) {
	ref, err := json.Marshal(v)
	if err != nil {
		return "", false, 0, "" // not a JSON value; outside the property
	}

	want, err := c19Decode(ref)
	if err != nil {
		return "", false, 0, ""
	}

	rec := httptest.NewRecorder()
	pretty := util.WriteJSON(rec, util.ResponseInfo{SessionID: 1, AcceptsGzip: acceptGzip}, 200, v)
	feature = c19Feature(pretty)
	wire = rec.Body.Len()

	body, gz, err := c19Body(rec)
	if err != nil {
		return err.Error(), gz, wire, feature
	}

	if gz && !acceptGzip {
		return "gzip body sent to a client that did not accept it", gz, wire, feature
	}

	got, err := c19Decode(body)
	if err != nil {
		return "response body is not JSON: " + err.Error(), gz, wire, feature
	}

	if !reflect.DeepEqual(got, want) {
		g, _ := json.Marshal(got)

		return "decoded response differs from the handler's value: got " + vh.Trunc(string(g), 300), gz, wire, feature
	}

	return "", gz, wire, feature
}

// c19Shrink greedily reduces a failing value while it keeps failing.
func c19Shrink(v any, fails func(any) bool) any {
	for changed := true; changed; {
		changed = false

		for _, cand := range c19Smaller(v) {
			if fails(cand) {
				v, changed = cand, true

				break
			}
		}
	}

	return v
}

func c19Smaller(v any) []any {
	var out []any

	switch x := v.(type) {
	case map[string]any:
		for _, e := range x {
			out = append(out, e)
		}

		for k := range x {
			out = append(out, k)
		}

		for k := range x {
			m := map[string]any{}
			for k2, e2 := range x {
				if k2 != k {
					m[k2] = e2
				}
			}

			out = append(out, m)
		}

		for k, e := range x {
			for _, s := range c19Smaller(e) {
				m := map[string]any{}
				for k2, e2 := range x {
					m[k2] = e2
				}

				m[k] = s
				out = append(out, m)
			}

			for _, s := range c19Smaller(k) {
				m := map[string]any{}
				for k2, e2 := range x {
					if k2 != k {
						m[k2] = e2
					}
				}

				m[s.(string)] = e
				out = append(out, m)
			}
		}
	case []any:
		for _, e := range x {
			out = append(out, e)
		}

		for i := range x {
			a := append(append([]any{}, x[:i]...), x[i+1:]...)
			out = append(out, a)
		}

		for i, e := range x {
			for _, s := range c19Smaller(e) {
				a := append([]any{}, x...)
				a[i] = s
				out = append(out, a)
			}
		}
	case string:
		r := []rune(x)
		for i := range r {
			out = append(out, string(r[:i])+string(r[i+1:]))
		}

		for i, c := range r {
			if c != 'a' && c != '\\' && c != '"' && c != ' ' {
				out = append(out, string(r[:i])+"a"+string(r[i+1:]))
			}
		}
	case nil:
	default:
		out = append(out, nil)
	}

	return out
}

// c19StripTrailingBackslashes removes the construct of a *known* finding from the main stream.
func c19StripTrailingBackslashes(gen func(*rand.Rand) string) func(*rand.Rand) string {
	return func(rng *rand.Rand) string {
		return strings.TrimRight(gen(rng), `\`)
	}
}

const c19KeyEscBackslash = "decode-mismatch:string-ends-with-escaped-backslash"

func TestC19(t *testing.T) {
	r := vh.New("C19", "writer")
	r.Rule = "JSON trees (objects/arrays/strings/numbers/bool/null, depth<=4, some widened to >4 KiB) whose keys and strings are 0..15 atoms from an alphabet of " +
		"backslash, quote, every Unicode White_Space code point, controls, escape look-alikes and JSON look-alikes; each value is written twice (gzip refused / accepted); " +
		"distinct = distinct json.Marshal text; non-trivial = some string or key contains a backslash, a quote or a Unicode space"
	r.Assume("encoding/json (Marshal, Decoder) and compress/gzip of the Go standard library are the reference")

	// threshold low so that the gzip branch is really taken whenever gzip shrinks the body;
	// one eighth of the values run with the server default (4096) instead
	setThreshold := func(s string) {
		if s == "" {
			settings.DeleteDefault(defs.ServerCompressionThresholdSetting)
		} else {
			settings.SetDefault(defs.ServerCompressionThresholdSetting, s)
		}
	}

	defer setThreshold("")

	shrunk := map[string]int{}

	var (
		shrunkMu  sync.Mutex
		sampleCtr atomic.Int64
	)

	report := func(v any, problem string, mode string, feature string) {
		// the first witnesses of a class are minimised; later ones of the same class are only counted
		shrunkMu.Lock()
		shrunk[feature]++
		doShrink := shrunk[feature] <= 3
		shrunkMu.Unlock()

		min := v
		if doShrink {
			min = c19Shrink(v, func(c any) bool { p, _, _, _ := c19Check(c, mode == "gzip"); return p != "" })
		}

		mtxt, _ := json.Marshal(min)
		p2, _, _, f2 := c19Check(min, mode == "gzip")
		otxt, _ := json.Marshal(v)
		r.Violate(vh.Violation{Key: "decode-mismatch:" + f2,
			Desc:     fmt.Sprintf("util.WriteJSON (%s) of %s: %s", mode, vh.Trunc(string(mtxt), 200), p2),
			Case:     map[string]any{"json": string(mtxt), "mode": mode, "original": vh.Trunc(string(otxt), 2000), "original_problem": vh.Trunc(problem, 400), "original_feature": feature},
			Expected: "body decodes to " + vh.Trunc(string(mtxt), 300), Observed: p2})
	}

	one := func(v any, origin string) {
		ref, err := json.Marshal(v)
		if err != nil {
			r.Count("skipped.not-json", 1)

			return
		}

		nontrivial := c19NonTrivial(ref)
		r.Eval(vh.Hash(string(ref)), nontrivial)
		r.Count("values."+origin, 1)

		for _, mode := range []string{"plain", "gzip"} {
			problem, gz, wire, feature := c19Check(v, mode == "gzip")
			r.Count("events.writes."+mode, 1)
			r.Count("events.bytes_on_wire", int64(wire))
			r.Count("feature."+feature, 1)

			if gz {
				r.Count("events.gzip_encoded", 1)
			}

			if problem != "" {
				report(v, problem, mode, feature)
			}
		}

		if sampleCtr.Add(1)%4001 == 1 {
			r.Sample(map[string]any{"value": vh.Trunc(string(ref), 300), "origin": origin})
		}
	}

	if c := vh.ReplayCase(); c != nil {
		var rc struct {
			JSON string `json:"json"`
			Mode string `json:"mode"`
		}

		if err := json.Unmarshal(c, &rc); err != nil {
			t.Fatal(err)
		}

		v, err := c19Decode([]byte(rc.JSON))
		if err != nil {
			t.Fatal(err)
		}

		setThreshold("1")
		one(v, "replay")
		r.Distinct = 2
		_ = r.Write()

		return
	}

	gen := c19String
	known := vh.KnownKeys("C19")

	if known[c19KeyEscBackslash] {
		gen = c19StripTrailingBackslashes(gen)
		r.Note("known finding " + c19KeyEscBackslash + ": strings ending in a backslash are kept out of the main stream and tested by the directed probe only")
	}

	// directed probes: the smallest members of every family the design names
	r.Probe(c19KeyEscBackslash)
	setThreshold("1")

	for _, v := range []any{
		[]any{`\`, "a b"}, map[string]any{"a": `\`, "b": "c d"}, map[string]any{`k\`: "x y"}, []any{`\\`, " "},
		[]any{`\"`, "a b"}, []any{`"`, "a b"}, []any{`\\"`, "a b"}, []any{`\\\"`, "a b"}, []any{`" `, "a b"},
		[]any{" ", "a b"}, []any{`{"a": "b c"}`}, "a\tb\nc", []any{"   \u0085"},
	} {
		one(v, "directed")
	}

	// Two phases (the compression threshold is a process-global setting): 1/4 of the values with the
	// threshold at 1 byte (every gzip-accepting write really compresses; that costs a 600 KiB compressor state
	// per response), 3/4 with the server default (4096; the wide values pass it). Inside a phase 8 workers with their own PRNG
	// streams run concurrently (the worker count is fixed, so the case list depends on the seed only).
	n := vh.N(20000, 2000000)
	const workers = 8

	phase := func(name, threshold string, count int) {
		setThreshold(threshold)

		var wg sync.WaitGroup

		for w := 0; w < workers; w++ {
			wg.Add(1)

			go func(w int) {
				defer wg.Done()

				rng := vh.Rand(fmt.Sprintf("c19-%s-w%d", name, w))

				for i := w; i < count; i += workers {
					v := c19Value(rng, 1+rng.Intn(4), gen)

					origin := "tree"
					if (i/workers)%8 == 0 {
						// a wide array so that the body passes the default 4096-byte threshold and gzip shrinks it
						a := []any{}
						for j, m := 0, 40+rng.Intn(80); j < m; j++ {
							a = append(a, c19Value(rng, 2, gen))
						}

						v, origin = map[string]any{"rows": a, "count": len(a)}, "wide"
					}

					one(v, origin+"."+name)
				}
			}(w)
		}

		wg.Wait()
	}

	phase("threshold-1", "1", n/4)
	phase("threshold-default", "", n-n/4)

	if r.Counters["events.gzip_encoded"] == 0 {
		r.Inconcl("no response was gzip-encoded")
	}

	if r.Evaluations == 0 {
		t.Fatal("observed nothing")
	}

	if err := r.Write(); err != nil {
		t.Fatal(err)
	}
}
