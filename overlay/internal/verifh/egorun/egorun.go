// Package egorun runs Ego source text in-process the way `ego run <file>` does
// (internal/commands/run.go: RunAction -> run -> compileAndRun -> runCompiledCode),
// with the program's standard output captured. It lives in the scratch copy of
// the tree only (copied from /verif/overlay); it is never part of tucats/ego.
package egorun

import (
	"fmt"
	"os"
	"path/filepath"
	"runtime/debug"
	"strconv"
	"strings"
	"sync"

	"github.com/tucats/ego/internal/builtins"
	"github.com/tucats/ego/internal/cli/settings"
	"github.com/tucats/ego/internal/cli/ui"
	"github.com/tucats/ego/internal/defs"
	"github.com/tucats/ego/internal/errors"
	"github.com/tucats/ego/internal/language/bytecode"
	"github.com/tucats/ego/internal/language/compiler"
	"github.com/tucats/ego/internal/language/data"
	"github.com/tucats/ego/internal/language/debugger"
	"github.com/tucats/ego/internal/language/symbols"
	"github.com/tucats/ego/internal/language/tokenizer"
	"github.com/tucats/ego/internal/runtime/profile"
)

// Config is one interpreter configuration. Zero value = what a plain `ego run`
// of a fresh profile uses except that optimizer defaults are explicit here.
type Config struct {
	Types       string // "dynamic" (default), "relaxed", "strict"
	Opt         int    // optimizer level 0..3
	Registers   bool
	ConstFold   bool
	GlobalCache bool
	SymAlloc    int  // 0 = leave default
	Sandbox     int  // 0 unset, 1 on, -1 off
	Trace       bool // ctx.SetTrace(true)
	Debug       bool // run under debugger.Run with "continue"
	Fragment    bool // do not append @entrypoint main
	Extensions  bool
}

// Baseline is the reference configuration of C02.
func Baseline(types string) Config {
	return Config{Types: types, Opt: 0, Registers: false, ConstFold: false, GlobalCache: false, SymAlloc: 32}
}

func (c Config) String() string {
	return fmt.Sprintf("types=%s,o=%d,reg=%t,cf=%t,gc=%t,alloc=%d", c.typesOr(), c.Opt, c.Registers, c.ConstFold, c.GlobalCache, c.SymAlloc)
}

func (c Config) typesOr() string {
	if c.Types == "" {
		return "dynamic"
	}

	return c.Types
}

// Result of one execution.
type Result struct {
	Out        string // captured standard output of the program
	Err        string // "" or the text of the Ego error (compile or runtime)
	CompileErr bool
	Panic      string // recovered Go panic (value + stack); "" if none
}

// Outcome is a coarse class: ok / error / panic.
func (r Result) Outcome() string {
	switch {
	case r.Panic != "":
		return "panic"
	case r.Err != "":
		return "error"
	default:
		return "ok"
	}
}

var (
	initOnce sync.Once
	// Home is the isolated $HOME the harness process uses.
	Home string
	mu   sync.Mutex
)

// Init isolates $HOME, silences logging, and loads the profile defaults the
// same way prepareRuntime does. Safe to call many times.
func Init() {
	initOnce.Do(func() {
		home := os.Getenv("VERIF_HOME")
		if home == "" {
			home, _ = os.MkdirTemp("", "verif-home-")
		}

		Home = home
		_ = os.MkdirAll(filepath.Join(home, ".ego"), 0o700)
		os.Setenv("HOME", home)
		os.Setenv("EGO_PATH", home)

		// Library: the harness does not need lib/ unless a check asks for it.
		if lib := os.Getenv("VERIF_EGO_LIB"); lib != "" {
			settings.SetDefault(defs.EgoLibPathSetting, lib)
			settings.SetDefault(defs.EgoPathSetting, filepath.Dir(lib))
		} else {
			settings.SetDefault(defs.SuppressLibraryInitSetting, "true")
		}

		_ = profile.InitProfileDefaults(profile.RuntimeDefaults)
		symbols.SerializeTableAccess = false
	})
}

func typeLevel(s string) int {
	switch s {
	case "strict":
		return defs.StrictTypeEnforcement
	case "relaxed":
		return defs.RelaxedTypeEnforcement
	default:
		return defs.NoTypeEnforcement
	}
}

// Apply sets the process-global knobs for cfg. Callers must not run two
// configurations concurrently in one process.
func Apply(cfg Config) {
	settings.SetDefault(defs.OptimizerSetting, strconv.Itoa(cfg.Opt))

	reg, cf, gc := cfg.Registers, cfg.ConstFold, cfg.GlobalCache
	if cfg.Opt > 2 { // configureOptimizer: level 3 turns the three on
		reg, cf, gc = true, true, true
	}

	settings.SetDefault(defs.RegistersSetting, strconv.FormatBool(reg))
	settings.SetDefault(defs.ConstFoldSetting, strconv.FormatBool(cf))
	settings.SetDefault(defs.GlobalCacheSetting, strconv.FormatBool(gc))
	bytecode.GlobalCacheEnabled = gc

	if cfg.SymAlloc > 0 {
		symbols.SymbolAllocationSize = cfg.SymAlloc
		if symbols.SymbolAllocationSize < symbols.MinSymbolAllocationSize {
			symbols.SymbolAllocationSize = symbols.MinSymbolAllocationSize
		}
	}

	settings.SetDefault(defs.StaticTypesSetting, cfg.typesOr())
	settings.SetDefault(defs.ExtensionsEnabledSetting, strconv.FormatBool(cfg.Extensions))
}

// Run compiles and runs src as `ego run file.ego` would.
func Run(src string, cfg Config) (res Result) {
	Init()
	mu.Lock()
	defer mu.Unlock()

	return runLocked(src, cfg, nil)
}

// RunWith is Run with a callback that may add symbols before compilation.
func RunWith(src string, cfg Config, prep func(st *symbols.SymbolTable)) (res Result) {
	Init()
	mu.Lock()
	defer mu.Unlock()

	return runLocked(src, cfg, prep)
}

func runLocked(src string, cfg Config, prep func(st *symbols.SymbolTable)) (res Result) {
	defer func() {
		if r := recover(); r != nil {
			res.Panic = fmt.Sprintf("%v\n%s", r, debug.Stack())
		}
	}()

	Apply(cfg)
	compiler.DebugMode = cfg.Debug

	text := src
	if strings.HasPrefix(text, "#!") {
		if i := strings.Index(text, "\n"); i >= 0 {
			text = text[i:]
		} else {
			text = ""
		}
	}

	if !cfg.Fragment {
		text = text + "\n@entrypoint main"
	}

	// initializeSymbols
	st := symbols.NewSymbolTable("file verif.ego").Shared(true)
	st.SetGlobalSingleton()
	st.SetAlways(defs.CLIArgumentListVariable, data.NewArrayFromInterfaces(data.StringType))
	st.SetAlways(defs.TypeCheckingVariable, typeLevel(cfg.Types))
	st.SetAlways(defs.ModeVariable, "run")
	builtins.AddBuiltins(st.Root())
	st.Root().SetAlways(defs.MainVariable, defs.Main)
	st.Root().SetAlways(defs.ExtensionsVariable, cfg.Extensions)
	st.Root().SetAlways(defs.UserCodeRunningVariable, true)
	// the type-checking variable is read from the ROOT table by compiler.New
	symbols.RootSymbolTable.SetAlways(defs.TypeCheckingVariable, typeLevel(cfg.Types))

	comp := compiler.New("run").
		SetNormalization(settings.GetBool(defs.CaseNormalizedSetting)).
		SetExitEnabled(false).
		SetDebuggerActive(cfg.Debug).
		SetRoot(&symbols.RootSymbolTable).
		SetInteractive(false)

	_ = comp.AutoImport(true, st)

	if prep != nil {
		prep(st)
	}

	t := tokenizer.New(text, true)
	comp.Fragment(true)

	b, err := comp.Compile("main 'verif.ego'", t)
	if !errors.Nil(err) {
		res.Err = err.Error()
		res.CompileErr = true

		return res
	}

	if b == nil {
		return res
	}

	t.Close()

	ctx := bytecode.NewContext(st, b).
		SetDebug(cfg.Debug).
		SetTokenizer(t).
		SetFullSymbolScope(false).
		EnableConsoleOutput(false)

	if cfg.Sandbox != 0 {
		ctx.Sandboxed(cfg.Sandbox > 0)
	}

	if cfg.Trace {
		ctx.SetTrace(true)
	}

	if cfg.Debug {
		err = debugger.Run(ctx)
	} else {
		err = ctx.Run()
	}

	ctx.FlushProfileTimer()
	res.Out = ctx.GetOutput()

	if errors.Equals(err, errors.ErrStop) {
		err = nil
	}

	if err != nil {
		if e, ok := err.(*errors.Error); ok && e.Is(errors.ErrExit) {
			return res
		}

		res.Err = err.Error()
	}

	if err == nil {
		if _, cerr := comp.Close(); cerr != nil {
			res.Err = cerr.Error()
		}
	}

	return res
}

// Quiet turns every logger off and sends anything that still logs to a file.
func Quiet(logfile string) {
	if logfile != "" {
		_ = ui.OpenLogFile(logfile, false)
	}
}
