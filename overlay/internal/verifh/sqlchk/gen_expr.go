package sqlchk

import (
	"fmt"
	"strings"
)

// ---------------------------------------------------------------------------------------------
// literals
// ---------------------------------------------------------------------------------------------

var (
	intLits    = []string{"0", "1", "2", "7", "10", "20", "42", "100", "007", "9223372036854775807", "2147483648"}
	floatLits  = []string{"1.5", "0.25", ".5", "2.", "1e3", "2.5E-2", "1E+2", "3.0", "0.0", "1e0"}
	hexLits    = []string{"0x1F", "0X0a", "0xff"}
	strLits    = []string{"'alpha'", "'beta'", "'Delta'", "''", "'it''s'", "'a%'", "'%a%'", "'100%'", "'a_b'", "'x y'", "'MX'", "'''quoted'''", "'-- not a comment'", "'/* nor this */'", "'semi;colon'", "'ünï'", "'CANARY'"}
	multiLits  = []string{"'line1\nline2'", "'tab\there'"}
	blobLits   = []string{"x'0aFF'", "X'00'", "x''"}
	typeNames  = []string{"INTEGER", "TEXT", "REAL", "NUMERIC", "BLOB", "integer", "VARCHAR(10)", "DECIMAL(10,2)", "DOUBLE PRECISION", "CHARACTER VARYING(20)", "int", "Text"}
	collations = []string{"NOCASE", "BINARY", "RTRIM", "nocase"}
)

func (g *Gen) literal() string {
	switch g.n(14) {
	case 0, 1, 2, 3:
		return intLits[g.n(len(intLits))]
	case 4, 5:
		g.tag("lit-float")
		return floatLits[g.n(len(floatLits))]
	case 6:
		g.tag("lit-hex")
		return hexLits[g.n(len(hexLits))]
	case 7, 8, 9:
		g.tag("lit-string")
		if !g.Plain && g.p(0.1) {
			g.tag("lit-string-multiline")
			return multiLits[g.n(len(multiLits))]
		}

		return strLits[g.n(len(strLits))]
	case 10:
		if g.ok(FBlobOddChars) {
			g.tag(FBlobOddChars)
			return blobLits[g.n(len(blobLits))]
		}

		return "NULL"
	case 11:
		return g.pick("NULL", "null", "Null")
	case 12:
		g.tag("lit-bool")
		return g.pick("TRUE", "FALSE", "true", "false")
	default:
		if g.PG && !g.Plain && g.p(0.5) {
			g.tag("lit-estring")
			return g.pick(`E'a\nb'`, `e'q\'x'`, `E'back\\slash'`)
		}

		if !g.Plain && g.p(0.3) {
			g.tag("placeholder")
			g.noexec = true

			if g.PG {
				return g.pick("$1", "$2")
			}

			return g.pick("?", "?1", ":name", "@v", "?23")
		}

		return intLits[g.n(len(intLits))]
	}
}

func (g *Gen) atom(sc *scope) string {
	if sc != nil && len(sc.srcs) > 0 && g.p(0.55) {
		return g.column(sc)
	}

	return g.literal()
}

// ---------------------------------------------------------------------------------------------
// expressions
// ---------------------------------------------------------------------------------------------

var (
	cmpOps   = []string{"=", "==", "<>", "!=", "<", "<=", ">", ">="}
	arithOps = []string{"+", "-", "*", "/", "%"}
	bitOps   = []string{"&", "|", "<<", ">>"}
)

func (g *Gen) ws() string {
	if g.Plain || !g.Torture {
		return " "
	}

	switch g.n(12) {
	case 0:
		return "  "
	case 1:
		return "\n"
	case 2:
		return "\t"
	case 3:
		g.tag("comment-block")
		return " /* c */ "
	case 4:
		g.tag("comment-line")
		return " -- c\n"
	}

	return " "
}

// expr generates an expression of depth <= d over the columns visible in sc.
func (g *Gen) expr(sc *scope, d int) string {
	if d <= 0 {
		return g.atom(sc)
	}

	sub := func() string { return g.expr(sc, d-1-g.n(2)) }

	k := g.n(40)
	if g.Torture {
		k = g.n(46)
	}

	switch {
	case k < 5:
		return g.atom(sc)
	case k < 9: // comparison
		g.tag("op-compare")
		return sub() + g.ws() + cmpOps[g.n(len(cmpOps))] + g.ws() + sub()
	case k < 12:
		g.tag("op-arith")
		return sub() + g.ws() + arithOps[g.n(len(arithOps))] + g.ws() + sub()
	case k < 14:
		g.tag("op-logic")
		return sub() + g.ws() + g.pick("AND", "OR", "and", "or") + g.ws() + sub()
	case k == 14:
		g.tag("op-bit")
		return sub() + " " + bitOps[g.n(len(bitOps))] + " " + sub()
	case k == 15:
		g.tag("op-concat")
		return sub() + " || " + sub()
	case k == 16:
		g.tag("op-not")
		if g.p(0.6) || !g.ok(FNotOperand) {
			return "(" + g.pick("NOT ", "not ") + sub() + ")"
		}

		g.tag(FNotOperand)

		return g.pick("NOT ", "not ") + sub()
	case k == 17:
		return g.unary(sc, d)
	case k == 18:
		g.tag("is-null")
		form := g.pick("IS NULL", "IS NOT NULL", "ISNULL", "NOTNULL", "is null")

		if strings.HasSuffix(form, "NULL") && !strings.Contains(form, " ") {
			if !g.ok(FIsnullRelop) {
				return "(" + sub() + " " + form + ")"
			}

			g.tag(FIsnullRelop)
		}

		return sub() + " " + form
	case k == 19:
		g.tag("is")
		return sub() + " " + g.pick("IS", "IS NOT", "IS DISTINCT FROM", "IS NOT DISTINCT FROM") + " " + sub()
	case k == 20:
		g.tag("between")
		return sub() + g.pick(" BETWEEN ", " NOT BETWEEN ") + sub() + " AND " + sub()
	case k == 21:
		g.tag("in-list")
		n := g.n(4)
		items := make([]string, n)

		for i := range items {
			items[i] = sub()
		}

		return sub() + g.pick(" IN (", " NOT IN (") + strings.Join(items, ", ") + ")"
	case k == 22:
		g.tag("like")
		e := sub() + g.pick(" LIKE ", " NOT LIKE ", " GLOB ", " like ") + g.pick("'a%'", "'%a'", "'_e%'", "'100!%'", "'*a*'", sub())

		if g.p(0.4) {
			g.tag("like-escape")
			e += " ESCAPE " + g.pick("'!'", "'\\'", "'#'")
		}

		return e
	case k == 23:
		g.tag("collate")
		return sub() + " COLLATE " + g.identOrBare(collations[g.n(len(collations))])
	case k == 24, k == 25:
		return g.funcCall(sc, d)
	case k == 26:
		g.tag("cast")
		return g.pick("CAST(", "cast(", "CAST (") + sub() + " AS " + typeNames[g.n(len(typeNames))] + ")"
	case k == 27, k == 28:
		return g.caseExpr(sc, d)
	case k < 33:
		g.tag("paren")
		e := "(" + sub() + ")"

		if g.p(0.2) {
			g.tag("paren-nested")
			e = "(" + g.pick("", " ") + e + ")"
		}

		return e
	case k == 33:
		g.tag("row-value")
		return "(" + sub() + ", " + sub() + ") " + g.pick("=", "<", "<>", "IN") + " " + g.rowRHS(sc, d)
	case k == 34:
		if !g.Plain {
			g.tag("json-arrow")
			return g.pick(`'{"a":{"b":2}}'`, `'[1,2]'`) + g.pick(" -> ", " ->> ") + g.pick("'$.a'", "'a'", "0") + g.pick("", " ->> 'b'")
		}

		return g.atom(sc)
	case k < 40:
		return g.atom(sc)
	default: // torture only: precedence ladders and unary chains
		return g.ladder(sc, d)
	}
}

func (g *Gen) identOrBare(name string) string {
	if g.Plain || g.p(0.8) {
		return name
	}

	return `"` + name + `"`
}

func (g *Gen) rowRHS(sc *scope, d int) string {
	if g.p(0.5) {
		return "(" + g.expr(sc, d-1) + ", " + g.expr(sc, d-1) + ")"
	}

	return "(" + g.expr(sc, d-1) + ", " + g.literal() + ")"
}

func (g *Gen) unary(sc *scope, d int) string {
	g.tag("op-unary")
	ops := []string{"-", "+", "~", "- ", "+ "}
	n := 1

	if g.p(0.4) {
		n += g.n(3)
		g.tag("unary-chain")
	}

	var b strings.Builder

	last := byte(0)

	for i := 0; i < n; i++ {
		op := ops[g.n(len(ops))]
		if op[0] == '-' && last == '-' {
			// "- -x" and "--x": the second spelling is a comment in SQL, only the first is an expression
			if !g.ok(FUnaryMinusChain) {
				op = "+"
			} else {
				g.tag(FUnaryMinusChain)
				b.WriteByte(' ')
			}
		}

		b.WriteString(op)
		last = op[0]
	}

	operand := g.expr(sc, d-1)
	if last == '-' && strings.HasPrefix(operand, "-") {
		if !g.ok(FUnaryMinusChain) {
			operand = "(" + operand + ")"
		} else {
			g.tag(FUnaryMinusChain)
			operand = " " + operand
		}
	}

	return b.String() + operand
}

// ladder writes operators of different precedence side by side without parentheses.
func (g *Gen) ladder(sc *scope, d int) string {
	g.tag("precedence-ladder")

	levels := [][]string{
		{"OR"}, {"AND"}, {"=", "<>", "<", ">=", "IS", "IS NOT"}, {"&", "|", "<<"}, {"+", "-"}, {"*", "/", "%"}, {"||"},
	}
	n := 3 + g.n(4)

	var b strings.Builder

	b.WriteString(g.ladderAtom(sc, d))

	for i := 0; i < n; i++ {
		lv := levels[g.n(len(levels))]
		b.WriteString(" " + lv[g.n(len(lv))] + " ")
		b.WriteString(g.ladderAtom(sc, d))
	}

	return b.String()
}

func (g *Gen) ladderAtom(sc *scope, d int) string {
	switch g.n(16) {
	case 0:
		if g.ok(FNotOperand) {
			g.tag(FNotOperand)
			return "NOT " + g.atom(sc)
		}
	case 1:
		if g.ok(FUnaryMinusChain) || true {
			return g.pick("-", "+", "~") + g.atom(sc)
		}
	case 2:
		return "(" + g.expr(sc, d-2) + ")"
	case 3:
		return g.atom(sc) + " COLLATE NOCASE"
	}

	return g.atom(sc)
}

var scalarFuncs = []struct {
	name string
	args int
}{{"abs", 1}, {"length", 1}, {"lower", 1}, {"upper", 1}, {"typeof", 1}, {"coalesce", 2}, {"ifnull", 2}, {"nullif", 2}, {"substr", 3}, {"round", 1}, {"max", 2}, {"min", 2}, {"hex", 1}, {"quote", 1}, {"trim", 1}, {"instr", 2}, {"COALESCE", 3}, {"Abs", 1}}

func (g *Gen) funcCall(sc *scope, d int) string {
	g.tag("func")

	f := scalarFuncs[g.n(len(scalarFuncs))]
	args := make([]string, f.args)

	for i := range args {
		args[i] = g.expr(sc, d-1)
	}

	name := f.name
	if !g.Plain && g.ok(FQuotedFuncName) && g.p(0.03) {
		g.tag(FQuotedFuncName)
		name = `"` + name + `"`
	}

	return name + g.pick("(", "(", " (") + strings.Join(args, ", ") + ")"
}

func (g *Gen) aggCall(sc *scope, d int) string {
	g.tag("aggregate")

	var e string

	switch g.n(8) {
	case 0:
		e = g.pick("count(*)", "COUNT(*)", "count( * )")
	case 1:
		g.tag("agg-distinct")
		e = "count(DISTINCT " + g.expr(sc, d-1) + ")"
	case 2:
		e = "sum(" + g.expr(sc, d-1) + ")"
	case 3:
		e = "total(" + g.expr(sc, d-1) + ")"
	case 4:
		e = "min(" + g.expr(sc, d-1) + ")"
	case 5:
		e = "max(" + g.expr(sc, d-1) + ")"
	case 6:
		e = "group_concat(" + g.column(sc) + ", ',')"
	default:
		e = "avg(" + g.expr(sc, d-1) + ")"
	}

	if g.p(0.2) {
		g.tag("agg-filter")
		e += " FILTER (WHERE " + g.expr(sc, d-1) + ")"
	}

	return e
}

func (g *Gen) caseExpr(sc *scope, d int) string {
	g.tag("case")

	var b strings.Builder

	b.WriteString(g.pick("CASE", "case"))

	simple := g.p(0.4)
	if simple {
		g.tag("case-operand")
		b.WriteString(" " + g.expr(sc, d-1))
	}

	for i, n := 0, 1+g.n(3); i < n; i++ {
		b.WriteString(" WHEN " + g.expr(sc, d-1) + " THEN " + g.expr(sc, d-1))
	}

	if g.p(0.6) {
		b.WriteString(" ELSE " + g.expr(sc, d-1))
	}

	b.WriteString(" " + g.pick("END", "end"))

	return b.String()
}

// ---------------------------------------------------------------------------------------------
// subqueries: every subquery-capable clause goes through hole()
// ---------------------------------------------------------------------------------------------

// wantSub decides whether the clause gets a subquery and over which relation.
func (g *Gen) wantSub(clause string) (string, bool) {
	pos := "subquery-in-" + clause

	if g.focus != nil {
		if !g.focus.used && g.focus.Pos == pos {
			g.focus.used = true

			return g.focus.Table, true
		}

		return "", false
	}

	if g.budget > 0 && g.p(g.SubqP) {
		g.budget--

		return relations[g.n(len(relations))], true
	}

	return "", false
}

// subSelect is a one-column SELECT over rel. kind: scalar | list | exists.
func (g *Gen) subSelect(outer *scope, rel, pos, kind string) string {
	g.refs = append(g.refs, Ref{Table: rel, Pos: pos, Mode: "read"})
	if _, isView := viewOf[rel]; isView {
		g.tag("view-read")
	}

	alias := ""
	if g.p(0.4) {
		alias = fmt.Sprintf("s%d", g.n(9))
	}

	name := alias
	if name == "" {
		name = rel
	}

	inner := &scope{outer: outer}
	inner.add(name, relCols[rel])

	from := g.ident(rel)
	if g.Plain {
		from = rel
	}

	if alias != "" {
		from += g.pick(" AS ", " ") + alias
	}

	cols := relCols[rel]
	col := g.ident(name) + "." + g.ident(cols[g.n(len(cols))])

	var sel string

	switch kind {
	case "scalarcount":
		sel = "count(*)"
	case "exists":
		sel = g.pick("1", "*", col)
	case "scalar":
		sel = g.pick("max(", "min(", "count(") + col + ")"
		if g.p(0.3) {
			sel = col
		}
	default:
		sel = col
	}

	q := "SELECT " + sel + " FROM " + from

	if g.p(0.5) {
		q += " WHERE " + g.expr(inner, 1)
	}

	if kind == "scalar" && !strings.Contains(sel, "(") {
		q += " ORDER BY " + col + g.pick("", " DESC") + " LIMIT 1"
	}

	if kind == "list" && g.p(0.15) {
		g.tag("subquery-compound")
		q += g.pick(" UNION ", " UNION ALL ", " EXCEPT ", " INTERSECT ") + "SELECT " + g.literal()
	}

	return q
}

// NForms is the number of expression forms hole() can wrap a subquery in.
const NForms = 12

// hole returns an expression for the clause; when the clause is chosen to carry a subquery the
// subquery is placed in a randomly chosen expression form.
func (g *Gen) hole(sc *scope, clause string, d int) string {
	rel, ok := g.wantSub(clause)
	if !ok {
		return g.expr(sc, d)
	}

	pos := "subquery-in-" + clause
	lhs := g.atom(sc)
	form := g.n(NForms)
	if g.Form >= 0 {
		form = g.Form % NForms
	}

	switch form {
	case 0, 1:
		g.tag("form:scalar-compare")
		return lhs + " " + cmpOps[g.n(len(cmpOps))] + " (" + g.subSelect(sc, rel, pos, "scalar") + ")"
	case 2, 3:
		g.tag("form:in-subquery")
		return lhs + g.pick(" IN (", " NOT IN (") + g.subSelect(sc, rel, pos, "list") + ")"
	case 4, 5:
		g.tag("form:exists")
		return g.pick("EXISTS (", "NOT EXISTS (", "exists (") + g.subSelect(sc, rel, pos, "exists") + ")"
	case 6:
		g.tag("form:case-when")
		return "CASE WHEN EXISTS (" + g.subSelect(sc, rel, pos, "exists") + ") THEN " + lhs + " ELSE " + g.literal() + " END"
	case 7:
		g.tag("form:func-arg")
		return "coalesce((" + g.subSelect(sc, rel, pos, "scalar") + "), " + lhs + ")"
	case 8:
		g.tag("form:between")
		return lhs + " BETWEEN 0 AND (" + g.subSelect(sc, rel, pos, "scalar") + ")"
	case 9:
		g.tag("form:cast-unary")
		return "- CAST((" + g.subSelect(sc, rel, pos, "scalar") + ") AS INTEGER)"
	case 10:
		g.tag("form:in-list-item")
		return lhs + " IN (1, (" + g.subSelect(sc, rel, pos, "scalar") + "), 3)"
	default:
		g.tag("form:bare-scalar")
		return "(" + g.subSelect(sc, rel, pos, "scalar") + ")"
	}
}
