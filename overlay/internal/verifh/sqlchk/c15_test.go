package sqlchk

// C15 — SQL endpoints authorize every table the statement touches.
//
// Ground truth: EXPLAIN S on a checker connection with the same schema: tables read (OpenRead
// root pages -> names through sqlite_master), tables written (OpenWrite), schema change (write to
// sqlite_master / Destroy / CreateBtree in the main database).
// Monitor (grant differential): the caller is a non-administrator holding ego.sql on a restricted
// DSN. For each element e of the required set the real handlers tables.SQLTransaction (@sql) and
// scripting.Handler (sql task of @transaction) are called with every grant EXCEPT e: the request
// must not succeed (status 200) and the database must be unchanged. With the full set the request
// is sent once more for evidence only.
import (
	"bytes"
	"encoding/json"
	"fmt"
	"net/http"
	"net/http/httptest"
	"os"
	"path/filepath"
	"sort"
	"strings"
	"sync"
	"testing"

	"github.com/google/uuid"

	"github.com/tucats/ego/internal/cli/settings"
	"github.com/tucats/ego/internal/defs"
	"github.com/tucats/ego/internal/dsns"
	"github.com/tucats/ego/internal/resources"
	"github.com/tucats/ego/internal/router"
	"github.com/tucats/ego/internal/server/tables"
	"github.com/tucats/ego/internal/server/tables/scripting"
	"github.com/tucats/ego/internal/sqlparse"
	"github.com/tucats/ego/internal/verifh/vh"
)

const (
	c15DSN  = "d_restricted"
	c15User = "alice"
)

// grantable relations: the fixed schema plus the CTE name the generator uses (the extractor reports
// CTE names as tables, so the full-grant evidence run needs a record for it).
var c15Relations = []string{"t", "secret", "other", "v_secret", "v_t", "cte1"}

type flags struct{ Read, Write, Update, Delete bool }

var allFlags = flags{true, true, true, true}

type authCall struct {
	Table string   `json:"table"`
	Ops   []string `json:"ops"`
	OK    bool     `json:"ok"`
}

type c15 struct {
	t          *testing.T
	r          *vh.Report
	dbPath     string
	template   []byte
	base       string // logical snapshot of the template
	perms      *resources.ResHandle
	ids        map[string]string // relation -> record id
	cur        map[string]flags
	admin      bool
	checker    *Arena
	roots      map[int64]string // root page -> table name (indexes map to their table)
	sessions   int
	arena      string
	generation int
	cleanup    func()

	mu    sync.Mutex
	calls []authCall
}

func (c *c15) setup() {
	t := c.t

	arena := os.Getenv("VERIF_ARENA")
	if arena == "" {
		arena = t.TempDir()
	}

	arena = filepath.Join(arena, "c15")

	// Every request makes the server open the target database in WAL mode, commit and close it, and
	// every grant change is a committed write to the system database: thousands of fsyncs. On a
	// memory file system they cost nothing, so the files go to /dev/shm when it is there (own
	// directory, removed at the end); $VERIF_ARENA otherwise.
	if st, err := os.Stat("/dev/shm"); err == nil && st.IsDir() && os.Getenv("VERIF_C15_DISK") == "" {
		if d, err := os.MkdirTemp("/dev/shm", "verif-c15-"); err == nil {
			arena = d
			c.cleanup = func() { _ = os.RemoveAll(d) }

			c.r.Note("database files on /dev/shm (fsync cost); set VERIF_C15_DISK=1 to keep them under $VERIF_ARENA")
		}
	}

	if err := os.MkdirAll(arena, 0o700); err != nil {
		t.Fatal(err)
	}

	home := os.Getenv("VERIF_HOME")
	if home == "" {
		home = filepath.Join(arena, "home")
	}

	_ = os.MkdirAll(filepath.Join(home, ".ego"), 0o700)
	os.Setenv("HOME", home)
	os.Setenv("EGO_PATH", arena)

	if err := settings.Load("ego", "default"); err != nil {
		t.Fatalf("settings: %v", err)
	}

	// the system database that holds table_perms (the permission subsystem is only active when the
	// user-data setting is a database URL)
	sys := "sqlite3://" + filepath.Join(arena, "sys.db")
	settings.SetDefault(defs.LogonUserdataSetting, sys)
	settings.SetDefault(defs.EgoPathSetting, arena)

	// target database: built once, kept as a template in WAL mode (the mode the server switches to)
	c.arena = arena
	tpl := filepath.Join(arena, "template.db")

	a, err := OpenArena(tpl, true)
	if err != nil {
		t.Fatal(err)
	}

	if _, err := a.conn.ExecContext(a.ctx, "PRAGMA journal_mode=WAL"); err != nil {
		t.Fatal(err)
	}

	c.base = a.Snapshot()
	a.Close()

	if c.template, err = os.ReadFile(tpl); err != nil {
		t.Fatal(err)
	}

	// checker connection: same schema, never modified
	if c.checker, err = OpenArena(":memory:", true); err != nil {
		t.Fatal(err)
	}

	if c.checker.Snapshot() != c.base {
		t.Fatal("checker schema differs from the target database")
	}

	c.roots = map[int64]string{}

	rows, err := c.checker.conn.QueryContext(c.checker.ctx, "SELECT rootpage, tbl_name FROM sqlite_master WHERE rootpage > 0")
	if err != nil {
		t.Fatal(err)
	}

	for rows.Next() {
		var (
			p int64
			n string
		)

		_ = rows.Scan(&p, &n)
		c.roots[p] = n
	}

	rows.Close()

	// DSN service in memory, one restricted DSN on the target file
	if err := dsns.InitializeFromURL("memory"); err != nil {
		t.Fatal(err)
	}

	c.restore()

	if err := dsns.DSNService.GrantDSN(0, c15User, c15DSN, dsns.DSNReadAction+dsns.DSNWriteAction, true); err != nil {
		t.Fatal(err)
	}

	// permission records through the same resource store the server reads
	constr := "sqlite://" + filepath.Join(arena, "sys.db")

	if c.perms, err = resources.Open(tables.PermissionsObject{}, "table_perms", constr); err != nil {
		t.Fatal(err)
	}

	if err := c.perms.CreateIf(); err != nil {
		t.Fatal(err)
	}

	c.ids, c.cur = map[string]string{}, map[string]flags{}

	for _, rel := range c15Relations {
		id := uuid.NewString()
		c.ids[rel] = id
		c.cur[rel] = allFlags

		if err := c.perms.Insert(&tables.PermissionsObject{ID: id, User: c15User, DSN: c15DSN, Table: rel, Read: true, Write: true, Update: true, Delete: true}); err != nil {
			t.Fatalf("insert permission: %v", err)
		}
	}

	// record the checks the transaction path really makes
	orig := scripting.AuthorizedFunc
	scripting.AuthorizedFunc = func(s *router.Session, user, table string, ops ...string) bool {
		ok := orig(s, user, table, ops...)
		c.mu.Lock()
		c.calls = append(c.calls, authCall{Table: table, Ops: append([]string{}, ops...), OK: ok})
		c.mu.Unlock()

		return ok
	}
}

// grant makes the stored grants equal to want (relations not named get everything) and sets the
// DSN-administrator grant.
func (c *c15) grant(want map[string]flags, admin bool) {
	for _, rel := range c15Relations {
		f, ok := want[rel]
		if !ok {
			f = allFlags
		}

		if c.cur[rel] == f {
			continue
		}

		obj := &tables.PermissionsObject{ID: c.ids[rel], User: c15User, DSN: c15DSN, Table: rel, Read: f.Read, Write: f.Write, Update: f.Update, Delete: f.Delete}
		if err := c.perms.Update(obj, c.perms.Equals("id", c.ids[rel])); err != nil {
			c.t.Fatalf("update permission: %v", err)
		}

		c.cur[rel] = f
		c.r.Count("grants.record_updates", 1)
	}

	if admin != c.admin {
		if err := dsns.DSNService.GrantDSN(0, c15User, c15DSN, dsns.DSNAdminAction, admin); err != nil {
			c.t.Fatal(err)
		}

		c.admin = admin
	}
}

// restore gives the DSN a fresh copy of the template under a NEW file name. The file is never
// rewritten in place: a request can leave a server-side handle open (INSERT OR ROLLBACK that hits a
// conflict ends the SQLite transaction, Database.Rollback then fails, Database.Close skips the
// handle), and SQLite shares WAL state between connections of one process to the same inode.
func (c *c15) restore() {
	old := c.dbPath
	c.generation++
	c.dbPath = filepath.Join(c.arena, fmt.Sprintf("target-%d.db", c.generation))

	if err := os.WriteFile(c.dbPath, c.template, 0o600); err != nil {
		c.t.Fatal(err)
	}

	d := dsns.NewDSN(c15DSN, "sqlite3", c.dbPath, "", "", "", 0, true, false)
	if err := dsns.DSNService.WriteDSN(0, "admin", *d); err != nil {
		c.t.Fatal(err)
	}

	if old != "" && old != c.dbPath {
		for _, suffix := range []string{"", "-wal", "-shm", "-journal"} {
			_ = os.Remove(old + suffix)
		}
	}

	c.r.Count("arena.restores", 1)
}

// changed reports whether the target database differs from the template (logical snapshot; the
// byte comparison is only a fast path for "nothing happened").
func (c *c15) changed() (bool, string) {
	if _, err := os.Stat(c.dbPath + "-wal"); err != nil {
		if b, err := os.ReadFile(c.dbPath); err == nil && bytes.Equal(b, c.template) {
			c.r.Count("snapshots.bytes_identical", 1)

			return false, ""
		}
	}

	a, err := OpenArena(c.dbPath, false)
	if err != nil {
		return true, "cannot open: " + err.Error()
	}

	snap := a.Snapshot()
	a.Close()
	c.r.Count("snapshots.logical", 1)

	if snap != c.base {
		return true, firstDiffLine(c.base, snap)
	}

	return false, ""
}

type response struct {
	Status int    `json:"status"`
	Body   string `json:"body"`
	Calls  []authCall
}

func (c *c15) session() *router.Session {
	c.sessions++

	return &router.Session{
		ID: c.sessions, User: c15User, Admin: false, Authenticated: true,
		Permissions: []string{defs.LogonPermission, defs.SQLPermission},
		URLParts:    map[string]any{"dsn": c15DSN},
		Parameters:  map[string][]string{},
		Language:    "en", AcceptsJSON: true,
	}
}

// send calls the real handler. endpoint: "sql" (@sql) or "tx" (sql task of @transaction).
func (c *c15) send(endpoint, sqlText string) response {
	var (
		body []byte
		path string
		h    func(*router.Session, http.ResponseWriter, *http.Request) int
	)

	if endpoint == "sql" {
		body, _ = json.Marshal(sqlText)
		path, h = "/dsns/"+c15DSN+"/tables/@sql", tables.SQLTransaction
	} else {
		body, _ = json.Marshal([]defs.TXOperation{{Opcode: "sql", SQL: sqlText}})
		path, h = "/dsns/"+c15DSN+"/tables/@transaction", scripting.Handler
	}

	req := httptest.NewRequest(http.MethodPost, path, bytes.NewReader(body))
	req.Header.Set("Content-Type", "application/json")

	w := httptest.NewRecorder()

	c.mu.Lock()
	c.calls = nil
	c.mu.Unlock()

	status := h(c.session(), w, req)
	if w.Code != status && status != http.StatusOK {
		c.r.Count("handler.status_mismatch", 1)
	}

	c.r.Count("requests."+endpoint, 1)

	if os.Getenv("VERIF_C15_TRACE") != "" {
		fmt.Fprintf(os.Stderr, "TRACE %s %d %q %s\n", endpoint, status, sqlText, strings.ReplaceAll(vh.Trunc(w.Body.String(), 300), "\n", " "))
	}

	return response{Status: status, Body: vh.Trunc(w.Body.String(), 600), Calls: c.calls}
}

type truth struct {
	R, W   []string
	D      bool
	Kind   string
	Target string
}

// groundTruth reads EXPLAIN S.
func (c *c15) groundTruth(st Stmt) (truth, error) {
	ops, err := c.checker.Explain(st.SQL)
	if err != nil {
		return truth{}, err
	}

	tr := truth{Kind: st.Kind, Target: st.Target}
	r, w := map[string]bool{}, map[string]bool{}

	for _, op := range ops {
		switch op.Opcode {
		case "OpenRead", "OpenWrite":
			if op.P3 != 0 || op.P5&0x10 != 0 { // temp database, or root page taken from a register (a new b-tree)
				continue
			}

			if op.P2 == 1 {
				if op.Opcode == "OpenWrite" {
					tr.D = true
				}

				continue
			}

			name, ok := c.roots[op.P2]
			if !ok {
				continue
			}

			if op.Opcode == "OpenRead" {
				r[name] = true
			} else {
				w[name] = true
			}
		case "Destroy", "Clear":
			if op.Opcode == "Destroy" && op.P3 == 0 {
				tr.D = true
			}
		case "CreateBtree":
			if op.P1 == 0 {
				tr.D = true
			}
		case "DropTable", "DropIndex", "DropTrigger":
			if op.P1 == 0 {
				tr.D = true
			}
		}
	}

	for k := range r {
		tr.R = append(tr.R, k)
	}

	for k := range w {
		tr.W = append(tr.W, k)
	}

	sort.Strings(tr.R)
	sort.Strings(tr.W)

	return tr, nil
}

// element of the required set
type element struct {
	What  string `json:"what"`  // read | write | update | delete | dsn-admin
	Table string `json:"table"` // "" for dsn-admin
}

func (e element) String() string {
	if e.Table == "" {
		return e.What
	}

	return e.What + ":" + e.Table
}

// required derives the required set from the ground truth. Reads of the statement's own target
// (an UPDATE's WHERE scan, an index build, a column drop rewriting rows) count only when the
// statement also names that table in a reading position of its own.
func required(st Stmt, tr truth) []element {
	var out []element

	explicitRead := map[string]bool{}

	for _, ref := range st.Refs {
		if ref.Mode == "read" {
			explicitRead[ref.Table] = true

			if b, ok := viewOf[ref.Table]; ok {
				explicitRead[b] = true
			}
		}
	}

	for _, tbl := range tr.R {
		if tbl == st.Target && !explicitRead[tbl] {
			continue
		}

		if tr.D && tbl == st.Target {
			continue
		}

		out = append(out, element{"read", tbl})
	}

	if tr.D {
		return append(out, element{"dsn-admin", ""})
	}

	for _, tbl := range tr.W {
		switch st.Kind {
		case "insert":
			out = append(out, element{"write", tbl})
		case "update":
			out = append(out, element{"update", tbl})
		case "delete":
			out = append(out, element{"delete", tbl})
		}
	}

	return out
}

// without returns the grant set that holds everything except e.
func grantsWithout(e element) (map[string]flags, bool) {
	g := map[string]flags{}
	admin := true

	switch e.What {
	case "dsn-admin":
		admin = false
	default:
		f := allFlags

		switch e.What {
		case "read":
			f.Read = false
		case "write":
			f.Write = false
		case "update":
			f.Update = false
		case "delete":
			f.Delete = false
		}

		g[e.Table] = f
	}

	return g, admin
}

// keyFor names the missing check by the syntactic position of the unchecked table.
func keyFor(st Stmt, e element) string {
	if e.What == "dsn-admin" {
		return "unchecked-schema:" + st.Kind
	}

	var direct, through []string

	for _, ref := range st.Refs {
		if e.What == "read" && ref.Mode != "read" {
			continue
		}

		if e.What != "read" && ref.Mode != "write" {
			continue
		}

		if ref.Table == e.Table {
			direct = append(direct, ref.Pos)
		} else if viewOf[ref.Table] == e.Table {
			through = append(through, ref.Pos)
		}
	}

	pos := direct
	if len(pos) == 0 && len(through) > 0 {
		pos = []string{"view-read-through"}
	}

	if len(pos) == 0 {
		pos = []string{"unlisted-reference"}
	}

	sort.Strings(pos)
	pos = uniq(pos)

	return "unchecked-" + e.What + ":" + strings.Join(pos, "+")
}

func uniq(xs []string) []string {
	out := xs[:0]

	for i, x := range xs {
		if i == 0 || x != xs[i-1] {
			out = append(out, x)
		}
	}

	return out
}

type c15Case struct {
	Stmt     Stmt    `json:"stmt"`
	Endpoint string  `json:"endpoint"`
	Missing  element `json:"missing"`
}

// one statement through the whole differential
func (c *c15) differential(st Stmt, origin string) {
	r := c.r

	tr, err := c.groundTruth(st)
	if err != nil {
		r.Eval(vh.Hash(st.SQL), false)
		r.Count("truth.sqlite_rejects."+ErrClass(err.Error()), 1)

		return
	}

	req := required(st, tr)
	r.Count("truth.statements", 1)
	r.Count("truth.kind."+st.Kind, 1)

	if tr.D {
		r.Count("truth.schema_change", 1)
	}

	if len(req) == 0 {
		r.Count("truth.nothing_required", 1)
	}

	var extracted []string

	if p, err := sqlparse.New(st.SQL, sqlparse.SQLite); err != nil {
		r.Count("parser.rejected", 1)
	} else {
		r.Count("parser.accepted", 1)

		for _, u := range p.Tables() {
			extracted = append(extracted, u.Usage.String()+":"+u.Name)
		}
	}

	nontrivial := false

	for _, ep := range []string{"sql", "tx"} {
		// evidence run with the full grant set
		c.grant(nil, true)
		full := c.send(ep, st.SQL)
		r.Count(fmt.Sprintf("full.%s.%d", ep, full.Status), 1)

		if ch, _ := c.changed(); ch {
			c.restore()
			r.Count("full.changed_database", 1)
		}

		if full.Status == http.StatusOK && len(req) > 0 {
			nontrivial = true
		}

		if full.Status == http.StatusForbidden {
			r.Count("overstrict.full_set_refused."+ep, 1)
		}

		for _, e := range req {
			g, admin := grantsWithout(e)
			c.grant(g, admin)

			resp := c.send(ep, st.SQL)
			r.Count("differential.requests", 1)
			r.Count(fmt.Sprintf("differential.%s.status.%d", ep, resp.Status), 1)

			for _, ref := range st.Refs {
				if ref.Table == e.Table || viewOf[ref.Table] == e.Table {
					r.Count("differential.position."+ref.Pos, 1)
				}
			}

			if ep == "tx" {
				for _, call := range resp.Calls {
					r.Count("hook.AuthorizedFunc.calls", 1)

					if !call.OK {
						r.Count("hook.AuthorizedFunc.denied", 1)
					}
				}
			}

			ch, diff := c.changed()
			if ch {
				c.restore()
			}

			if resp.Status == http.StatusOK || ch {
				key := keyFor(st, e)
				desc := fmt.Sprintf("%s endpoint: with every grant except %s the statement was not refused (status %d, database changed=%v); EXPLAIN: reads %v writes %v schema-change %v; tables the extractor reported: %v",
					ep, e, resp.Status, ch, tr.R, tr.W, tr.D, extracted)
				r.Violate(vh.Violation{Key: key, Desc: desc, Case: c15Case{Stmt: st, Endpoint: ep, Missing: e},
					Expected: "refused (4xx) and database unchanged", Observed: map[string]any{"status": resp.Status, "body": resp.Body, "snapshot_diff": diff, "authorized_calls": resp.Calls, "full_set_status": full.Status}})
			} else if resp.Status == http.StatusForbidden {
				r.Count("differential.refused_403", 1)
			} else {
				r.Count("differential.not_executed_other_status", 1)
			}
		}
	}

	r.Eval(vh.Hash(st.SQL), nontrivial)

	if nontrivial && origin == "random" && len(r.Samples) < 4 && len(req) > 1 {
		r.Sample(map[string]any{"sql": vh.Trunc(st.SQL, 300), "reads": tr.R, "writes": tr.W, "schema_change": tr.D, "required": fmt.Sprint(req), "extractor": extracted})
	}
}

// focus positions: every place a relation can be named
var c15ReadPositions = []string{
	"from", "join", "from-comma", "from-subquery", "cte-body", "compound-right",
	"subquery-in-select-list", "subquery-in-where", "subquery-in-join-on", "subquery-in-group-by", "subquery-in-having", "subquery-in-order-by", "subquery-in-limit",
	"insert-select-source", "subquery-in-insert-values", "subquery-in-upsert-set", "subquery-in-upsert-where", "subquery-in-insert-returning",
	"subquery-in-update-set", "subquery-in-update-set-tuple", "update-from", "subquery-in-update-where", "subquery-in-update-returning",
	"subquery-in-delete-where", "subquery-in-delete-returning",
	"create-table-as-select", "create-view-body",
}

func (c *c15) focusStmt(g *Gen, pos, rel string) (Stmt, bool) {
	f := &Focus{Table: rel, Pos: pos}

	var st Stmt

	switch {
	case strings.Contains(pos, "insert") || strings.Contains(pos, "upsert"):
		st = g.Insert(f)
	case strings.Contains(pos, "update"):
		st = g.Update(f)
	case strings.Contains(pos, "delete"):
		st = g.Delete(f)
	case pos == "create-table-as-select":
		st = g.CreateTable(f)
	case pos == "create-view-body":
		st = g.CreateView(f)
	default:
		st = g.Select(f)
	}

	return st, f.used
}

func TestC15(t *testing.T) {
	r := vh.New("C15", "grant-differential")
	r.Rule = "SQLite-dialect statements from the grammar-driven generator: one directed statement per (reference position x relation) plus PRNG statements of every kind; " +
		"each is sent to @sql and to the sql task of @transaction once per element of its EXPLAIN-derived required set with that single grant removed; " +
		"plus WITH clauses whose CTE name collides with a stored table/view (top level, nested subqueries, recursive, INSERT…SELECT/UPDATE/DELETE) with references inside and outside the CTE scope; " +
		"plus multi-statement payloads (JSON array to @sql, several sql tasks to @transaction): every ordered pair of different verbs on one table, the same with an unrelated statement in between, and PRNG batches of 2-4 statements over 1-2 tables, required set per statement, whole batch must be refused and nothing applied; " +
		"distinct = distinct statement text; non-trivial = the statement executes (200) under the full grant set and requires at least one grant"
	r.Assume("SQLite EXPLAIN (OpenRead/OpenWrite root pages, writes to sqlite_master, Destroy, CreateBtree) on a checker connection with the same schema is the ground truth of what a statement touches")
	r.Assume("reads of a statement's own target table (UPDATE/DELETE WHERE scan, index build, column rewrite) are not counted as requiring the read grant unless the statement also names the table in a reading position")
	r.Assume("handlers are called directly with a constructed authenticated non-admin *router.Session (Permissions = ego.logon, ego.sql); the route-level ego.sql gate is not on this path")
	r.Note("PostgreSQL-dialect statements cannot be executed here (no server): out of reach for this monitor")
	r.Note("@sql path: tables.Authorized is called directly (no hook point); the extractor's Tables() output is attached to each violation as evidence; @transaction path: scripting.AuthorizedFunc is wrapped and its calls are recorded")

	c := &c15{t: t, r: r}
	c.setup()

	defer func() {
		c.checker.Close()
		c.perms.Close()

		if c.cleanup != nil {
			c.cleanup()
		}
	}()

	if raw := vh.ReplayCase(); raw != nil {
		var bc c15BatchCase
		if err := json.Unmarshal(raw, &bc); err == nil && len(bc.Batch) > 0 {
			c.batchDifferential(bc.Batch, "replay")
			r.Distinct = 2
			_ = r.Write()

			return
		}

		var cs c15Case
		if err := json.Unmarshal(raw, &cs); err != nil {
			t.Fatal(err)
		}

		c.differential(cs.Stmt, "replay")
		r.Distinct = 2
		_ = r.Write()

		return
	}

	known := vh.KnownKeys("C15")
	avoidPos := map[string]bool{}

	for k := range known {
		if i := strings.Index(k, ":"); i >= 0 {
			for _, p := range strings.Split(k[i+1:], "+") {
				avoidPos[p] = true
			}
		}
	}

	g := NewGen(vh.Rand("c15"))
	g.Plain = true
	g.SubqP = 0.3

	// 1. directed: every position x {secret, other, v_secret}; these are the probes of the known findings too
	for _, pos := range c15ReadPositions {
		for _, rel := range []string{"secret", "other", "v_secret"} {
			st, used := c.focusStmt(g, pos, rel)
			if !used {
				r.Count("directed.position_not_reached."+pos, 1)

				continue
			}

			r.Probe(pos + "/" + rel)
			r.Count("directed.statements", 1)
			c.differential(st, "directed")
		}
	}

	// every expression form a subquery can sit in, in two clauses
	for form := 0; form < NForms; form++ {
		for _, pos := range []string{"subquery-in-where", "subquery-in-delete-where"} {
			g.Form = form
			st, used := c.focusStmt(g, pos, "secret")
			g.Form = -1

			if used {
				r.Count("directed.statements", 1)
				r.Count("directed.forms", 1)
				c.differential(st, "directed")
			}
		}
	}

	for _, rel := range []string{"t", "other", "secret"} {
		for _, mk := range []func(*Focus) Stmt{g.DropIndex, g.CreateIndex, g.DropTable, g.AlterTable, g.DropView} {
			st := mk(&Focus{Table: rel, Pos: "ddl"})
			r.Count("directed.statements", 1)
			c.differential(st, "directed")
		}

		for _, tgt := range []string{"insert-target", "update-target", "delete-target"} {
			st, _ := c.focusStmt(g, tgt, rel)
			r.Count("directed.statements", 1)
			c.differential(st, "directed")
		}
	}

	// 1b. CTE names that collide with stored tables, referenced inside and outside the CTE's scope
	c.cteCollisions()

	// 2. multi-statement payloads (verb-order table + PRNG batches)
	c.batches(g, vh.N(40, 3000))

	// 3. random stream; statements that use a position named by a known finding are left to the directed part
	n := vh.N(400, 20000) - int(r.Counters["directed.statements"])
	skipped := 0

	for i := 0; i < n; i++ {
		st := g.Any()
		if st.Kind == "txn" {
			continue
		}

		if i%10 == 9 {
			st = cteRandom(g)
			r.Count("cte.random", 1)
		}

		avoid := false

		for _, ref := range st.Refs {
			if avoidPos[ref.Pos] {
				avoid = true
			}

			if _, isView := viewOf[ref.Table]; isView && avoidPos["view-read-through"] && ref.Mode == "read" {
				avoid = true
			}
		}

		if avoidPos[st.Kind] {
			avoid = true
		}

		if avoid {
			skipped++
			i--

			if skipped > 50*n {
				break
			}

			continue
		}

		c.differential(st, "random")
	}

	r.Count("random.skipped_known_constructs", int64(skipped))

	if r.Counters["differential.requests"] == 0 || r.Counters["differential.refused_403"] == 0 {
		_ = r.Write()
		t.Fatal("observed nothing")
	}

	if err := r.Write(); err != nil {
		t.Fatal(err)
	}
}
