package sqlchk

import (
	"fmt"
	"strings"
)

// target chooses the relation a DML statement writes.
func (g *Gen) target(pos string) string {
	rel := "t"

	if g.focus != nil {
		if !g.focus.used && g.focus.Pos == pos {
			g.focus.used = true
			rel = g.focus.Table
		}
	} else {
		rel = []string{"t", "t", "t", "other", "secret"}[g.n(5)]
	}

	g.refs = append(g.refs, Ref{Table: rel, Pos: pos, Mode: "write"})

	return rel
}

// valueFor gives a literal that fits column col of the fixed schema loosely (SQLite is dynamically typed).
func (g *Gen) valueFor(col string) string {
	switch col {
	case "id":
		return fmt.Sprint(100 + g.n(50))
	case "b":
		return g.pick("'new'", "'alpha'", "'n"+fmt.Sprint(g.n(100))+"'", "NULL", "'it''s'")
	default:
		return g.literal()
	}
}

func (g *Gen) returning(sc *scope, kind string) string {
	if !g.chance("subquery-in-"+kind+"-returning", 0.2) {
		return ""
	}

	g.tag("returning")

	if g.focus == nil && g.p(0.3) {
		return " RETURNING *"
	}

	e := g.hole(sc, kind+"-returning", 1)
	if g.p(0.4) {
		e += " AS " + g.decl(g.newName("r"))
	}

	return " RETURNING " + g.ident(sc.srcs[0].cols[0]) + ", " + e
}

// Insert generates an INSERT statement.
func (g *Gen) Insert(f *Focus) Stmt {
	g.begin(f)

	rel := g.target("insert-target")
	cols := relCols[rel]
	sc := &scope{}
	sc.add(rel, cols)

	var b strings.Builder

	b.WriteString(g.pick("INSERT", "insert", "INSERT"))

	if !g.PG && g.p(0.2) {
		g.tag("insert-or")
		b.WriteString(" OR " + g.pick("REPLACE", "IGNORE", "ABORT", "FAIL", "ROLLBACK"))
	}

	b.WriteString(" INTO " + g.relName(rel))

	if !g.Plain && g.p(0.08) {
		g.tag("insert-alias")
		b.WriteString(" AS tgt")
		sc.srcs[0].alias = "tgt"
	}

	// column list: id + a few others
	n := 2 + g.n(len(cols)-1)
	use := cols[:n]

	if rel == "t" && n > 3 {
		use = cols[:3]
		n = 3
	}

	explicit := g.p(0.75) || n < len(cols)
	if explicit {
		names := make([]string, n)
		for i, c := range use {
			names[i] = g.ident(c)
		}

		b.WriteString(" (" + strings.Join(names, ", ") + ")")
	}

	switch {
	case g.chance("insert-select-source", 0.3):
		g.tag("insert-select")

		src := g.tableAt("insert-select-source")
		c := relCols[src]
		inner := &scope{}
		inner.add(src, c)

		list := make([]string, n)
		for i := range list {
			if i == 0 {
				list[i] = g.ident(c[0]) + " + " + fmt.Sprint(1000+g.n(1000))
			} else {
				list[i] = g.ident(c[i%len(c)])
			}
		}

		b.WriteString(" SELECT " + strings.Join(list, ", ") + " FROM " + g.relName(src))
		b.WriteString(" WHERE " + g.pick("true", "1", g.expr(inner, 1)))
	case g.focus == nil && !explicit && g.p(0.1):
		g.tag("insert-default-values")
		b.WriteString(" DEFAULT VALUES")
	default:
		rows := 1 + g.n(2)
		if g.focus != nil {
			rows = 1
		}

		var rs []string

		for r := 0; r < rows; r++ {
			vals := make([]string, n)
			for i, c := range use {
				vals[i] = g.valueFor(c)
				if i == 1 {
					vals[i] = g.hole(&scope{}, "insert-values", 1)
				}
			}

			if r > 0 {
				vals[0] = fmt.Sprint(200 + g.n(50))
			}

			rs = append(rs, "("+strings.Join(vals, ", ")+")")
		}

		if rows > 1 {
			g.tag("insert-multirow")
		}

		b.WriteString(g.pick(" VALUES ", " values ") + strings.Join(rs, ", "))
	}

	if g.chance("subquery-in-upsert-set", 0.25) || g.focusAt("subquery-in-upsert-where") {
		g.tag("upsert")

		tgt := "(" + g.ident("id") + ")"
		if rel == "t" && g.p(0.3) {
			tgt = "(b)"
		}

		if g.ok(FUpsertExprTarget) && g.focus == nil && g.p(0.1) {
			g.tag(FUpsertExprTarget)
			tgt = g.pick("(b COLLATE NOCASE)", "(lower(b))", "(id, a)")
		}

		if g.focus == nil && g.p(0.3) {
			b.WriteString(" ON CONFLICT " + g.pick(tgt+" ", "") + "DO NOTHING")
		} else {
			ex := &scope{}
			ex.add(sc.srcs[0].alias, cols)
			ex.add("excluded", cols)
			b.WriteString(" ON CONFLICT " + tgt + " DO UPDATE SET " + g.ident("a") + " = " + g.hole(ex, "upsert-set", 1))

			if g.chance("subquery-in-upsert-where", 0.3) {
				b.WriteString(" WHERE " + g.hole(ex, "upsert-where", 1))
			}
		}
	}

	b.WriteString(g.returning(sc, "insert"))

	return g.finish("insert", rel, b.String())
}

// Update generates an UPDATE statement.
func (g *Gen) Update(f *Focus) Stmt {
	g.begin(f)

	rel := g.target("update-target")
	cols := relCols[rel]
	sc := &scope{}
	name := rel

	var b strings.Builder

	b.WriteString(g.pick("UPDATE", "update", "UPDATE"))

	if !g.PG && g.p(0.12) {
		g.tag("update-or")
		b.WriteString(" OR " + g.pick("REPLACE", "IGNORE", "ABORT", "FAIL", "ROLLBACK"))
	}

	b.WriteString(" " + g.relName(rel))

	if g.p(0.2) {
		g.tag("update-alias")
		name = "u1"
		b.WriteString(g.pick(" AS ", " ") + name)
	}

	sc.add(name, cols)

	// FROM makes more sources visible to SET and WHERE
	fromText := ""

	if g.chance("update-from", 0.15) {
		g.tag("update-from")

		src := g.tableAt("update-from")
		sc.add("f1", relCols[src])
		fromText = " FROM " + g.relName(src) + " AS f1"
	}

	b.WriteString(g.pick(" SET ", " set "))

	settable := without(cols, "id")
	if g.Plain && rel == "t" {
		// t.b is UNIQUE: setting it to one value in every row fails at run time, which hides whether
		// the statement was authorized
		settable = without(settable, "b")
	}
	nset := 1 + g.n(2)

	var sets []string

	if g.chance("subquery-in-update-set-tuple", 0.08) {
		g.tag("update-set-tuple")

		if rel2, ok := g.wantSub("update-set-tuple"); ok {
			g.refs = append(g.refs, Ref{Table: rel2, Pos: "subquery-in-update-set-tuple", Mode: "read"})
			c := relCols[rel2]
			sets = append(sets, "("+g.ident(settable[0])+", "+g.ident(settable[1])+") = (SELECT "+g.ident(c[1])+", "+g.ident(c[2])+" FROM "+g.relName(rel2)+" ORDER BY 1 LIMIT 1)")
		} else {
			sets = append(sets, "("+g.ident(settable[0])+", "+g.ident(settable[1])+") = ("+g.expr(sc, 1)+", "+g.expr(sc, 1)+")")
		}
	} else {
		// distinct columns (the same column twice is legal in SQLite but says nothing new)
		start := g.n(len(settable))
		if nset > len(settable) {
			nset = len(settable)
		}

		for i := 0; i < nset; i++ {
			sets = append(sets, g.ident(settable[(start+i)%len(settable)])+" = "+g.hole(sc, "update-set", 2))
		}
	}

	b.WriteString(strings.Join(sets, ", "))
	b.WriteString(fromText)

	if g.chance("subquery-in-update-where", 0.8) {
		b.WriteString(" WHERE " + g.hole(sc, "update-where", 2))
	}

	b.WriteString(g.returning(&scope{srcs: sc.srcs[:1]}, "update"))

	return g.finish("update", rel, b.String())
}

// Delete generates a DELETE statement.
func (g *Gen) Delete(f *Focus) Stmt {
	g.begin(f)

	rel := g.target("delete-target")
	sc := &scope{}
	name := rel

	var b strings.Builder

	b.WriteString(g.pick("DELETE FROM ", "delete from ", "DELETE FROM ") + g.relName(rel))

	if g.p(0.15) {
		g.tag("delete-alias")
		name = "d1"
		b.WriteString(g.pick(" AS ", " ") + name)
	}

	sc.add(name, relCols[rel])

	if g.PG && g.p(0.3) {
		g.tag("delete-using")

		src := g.tableAt("delete-using")
		sc.add("g1", relCols[src])
		b.WriteString(" USING " + g.relName(src) + " AS g1")
	}

	if g.chance("subquery-in-delete-where", 0.9) {
		b.WriteString(" WHERE " + g.hole(sc, "delete-where", 2))
	}

	b.WriteString(g.returning(&scope{srcs: sc.srcs[:1]}, "delete"))

	return g.finish("delete", rel, b.String())
}
