package sqlchk

// C15, CTE name collisions: a WITH clause (top level or inside a nested subquery, plain or
// recursive, in SELECT / INSERT…SELECT / UPDATE / DELETE) whose CTE name is the name of a stored
// table or view, with references to that name inside the CTE's scope (the CTE) and outside it
// (the stored table). EXPLAIN knows the real resolution; the authorizer must not mistake the
// out-of-scope reference for the CTE.
import "fmt"

const (
	posOutside = "cte-shadowed-name-outside-scope" // stored table referenced where a same-named CTE is NOT in scope
	posOwnBody = "cte-body-reads-same-named-table" // non-recursive CTE whose body reads the stored table of its own name
)

// cteShapes builds one statement per shape for the colliding name n (a stored relation with
// columns id, a) — or, when fresh is set, a fresh CTE name next to the stored relation n.
func cteShapes(n string, fresh bool, k int) []Stmt {
	c := n // CTE name
	if fresh {
		c = "cte1"
	}

	rd := func(pos string) Ref { return Ref{Table: n, Pos: pos, Mode: "read"} }
	in := Ref{Table: c, Pos: "cte-ref", Mode: "cte"}
	tw := func(pos string) Ref { return Ref{Table: "t", Pos: pos, Mode: "write"} }
	sel := func(sql string, refs ...Ref) Stmt { return Stmt{SQL: sql, Kind: "select", Refs: refs} }

	out := []Stmt{
		// the coordinator's witness: outer reference is the stored table, inner one the CTE
		sel(fmt.Sprintf("SELECT id, a FROM %s WHERE id IN (WITH %s AS (SELECT %d AS id) SELECT id FROM %s)", n, c, 1+k%3, c), rd(posOutside), in),
		sel(fmt.Sprintf("SELECT (WITH %s AS (SELECT %d AS id) SELECT max(id) FROM %s) AS m, a FROM %s", c, 2+k, c, n), in, rd(posOutside)),
		sel(fmt.Sprintf("SELECT id FROM t WHERE EXISTS (WITH %s AS (SELECT 1 AS id) SELECT 1 FROM %s) AND a IN (SELECT a FROM %s)", c, c, n), Ref{Table: "t", Pos: "from", Mode: "read"}, in, rd(posOutside)),
		sel(fmt.Sprintf("SELECT q.id FROM (WITH %s AS (SELECT %d AS id) SELECT id FROM %s) AS q JOIN %s ON %s.id = q.id", c, 1+k%3, c, n, n), in, rd(posOutside)),
		sel(fmt.Sprintf("SELECT id FROM t WHERE a = (SELECT max(a) FROM %s) OR id IN (WITH %s (id) AS (SELECT 2) SELECT id FROM %s)", n, c, c), Ref{Table: "t", Pos: "from", Mode: "read"}, rd(posOutside), in),
		sel(fmt.Sprintf("SELECT CASE WHEN id IN (WITH %s AS (SELECT 1 AS id) SELECT id FROM %s) THEN (SELECT count(*) FROM %s) ELSE 0 END FROM t", c, c, n), Ref{Table: "t", Pos: "from", Mode: "read"}, in, rd(posOutside)),
		// two levels: the name is a CTE in one nested scope and the stored table in a deeper sibling
		sel(fmt.Sprintf("SELECT id FROM t WHERE id IN (SELECT id FROM (WITH %s AS (SELECT 1 AS id) SELECT id FROM %s) AS x) AND id IN (SELECT id FROM (SELECT id FROM %s) AS y)", c, c, n), Ref{Table: "t", Pos: "from", Mode: "read"}, in, rd(posOutside)),
		// top level, every reference in scope: the stored table is not read at all (evidence only)
		sel(fmt.Sprintf("WITH %s AS (SELECT 1 AS id, 2 AS a) SELECT id, a FROM %s", c, c), in),
		// recursive forms
		sel(fmt.Sprintf("WITH RECURSIVE %s (id) AS (SELECT 1 UNION ALL SELECT id + 1 FROM %s WHERE id < 3) SELECT id FROM %s", c, c, c), in),
		sel(fmt.Sprintf("SELECT a FROM %s WHERE id IN (WITH RECURSIVE %s (id) AS (SELECT 1 UNION ALL SELECT id + 1 FROM %s WHERE id < 3) SELECT id FROM %s)", n, c, c, c), rd(posOutside), in),
		sel(fmt.Sprintf("WITH RECURSIVE cte1 (id) AS (SELECT min(id) FROM %s UNION ALL SELECT id + 1 FROM cte1 WHERE id < 3) SELECT id FROM cte1", n), rd("cte-body"), Ref{Table: "cte1", Pos: "cte-ref", Mode: "cte"}),
		// DML
		{SQL: fmt.Sprintf("INSERT INTO t (id, a) SELECT id + %d, a FROM %s WHERE id IN (WITH %s AS (SELECT 1 AS id) SELECT id FROM %s)", 700+10*k, n, c, c), Kind: "insert", Target: "t",
			Refs: []Ref{tw("insert-target"), rd(posOutside), in}},
		{SQL: fmt.Sprintf("INSERT INTO t (id, a) WITH %s AS (SELECT %d AS id, 5 AS a) SELECT id, a + (SELECT count(*) FROM t) FROM %s", c, 800+k, c), Kind: "insert", Target: "t",
			Refs: []Ref{tw("insert-target"), in, {Table: "t", Pos: "subquery-in-select-list", Mode: "read"}}},
		{SQL: fmt.Sprintf("UPDATE t SET a = (WITH %s AS (SELECT 5 AS a) SELECT a FROM %s) WHERE id IN (SELECT id FROM %s)", c, c, n), Kind: "update", Target: "t",
			Refs: []Ref{tw("update-target"), in, rd(posOutside)}},
		{SQL: fmt.Sprintf("UPDATE t SET a = (SELECT max(a) FROM %s) WHERE id IN (WITH %s AS (SELECT 1 AS id) SELECT id FROM %s)", n, c, c), Kind: "update", Target: "t",
			Refs: []Ref{tw("update-target"), rd(posOutside), in}},
		{SQL: fmt.Sprintf("DELETE FROM t WHERE id IN (WITH %s AS (SELECT 1 AS id) SELECT id FROM %s) AND a IN (SELECT a FROM %s)", c, c, n), Kind: "delete", Target: "t",
			Refs: []Ref{tw("delete-target"), in, rd(posOutside)}},
	}

	if !fresh {
		// a non-recursive CTE is not in scope inside its own body: the body reads the stored table
		out = append(out,
			sel(fmt.Sprintf("WITH %s AS (SELECT id, a FROM %s WHERE id > %d) SELECT id FROM %s", n, n, k%2, n), rd(posOwnBody), in),
			sel(fmt.Sprintf("SELECT id FROM t WHERE a IN (WITH %s AS (SELECT a FROM %s) SELECT a FROM %s)", n, n, n), Ref{Table: "t", Pos: "from", Mode: "read"}, rd(posOwnBody), in))
	}

	if n == "t" {
		// shapes that also use t as the other table would make the outer reference ambiguous for keys; keep the SELECT-only ones
		keep := out[:0]

		for _, st := range out {
			if st.Kind == "select" {
				keep = append(keep, st)
			}
		}

		out = keep
	}

	return out
}

// cteCollisions runs every shape for every colliding name (and for a fresh CTE name).
func (c *c15) cteCollisions() {
	k := 0

	for _, n := range []string{"secret", "other", "v_secret", "t"} {
		for _, fresh := range []bool{false, true} {
			if fresh && n != "secret" {
				continue
			}

			for _, st := range cteShapes(n, fresh, k) {
				k++

				c.r.Count("cte.directed", 1)

				if !fresh {
					c.r.Count("cte.directed.colliding_name."+n, 1)
				}

				c.r.Probe("cte-collision/" + n)
				c.differential(st, "directed")
			}
		}
	}
}

// cteRandom is one PRNG-chosen collision statement for the random stream.
func cteRandom(g *Gen) Stmt {
	n := []string{"secret", "other", "secret", "t"}[g.n(4)]
	shapes := cteShapes(n, g.p(0.2) && n == "secret", 3+g.n(40))

	return shapes[g.n(len(shapes))]
}
