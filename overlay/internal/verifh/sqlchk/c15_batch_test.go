package sqlchk

// C15, multi-statement payloads: a JSON array of statements sent to @sql, and a @transaction script
// with several sql tasks. The required grant set is computed PER STATEMENT (EXPLAIN of each on the
// checker connection; batches hold only DML and SELECT over the fixed base tables, so the schema every
// statement sees is the checker's). For each (statement i, required grant e) the whole batch is sent
// with every grant except e: it must not succeed and NOTHING of any statement may be applied.
import (
	"bytes"
	"encoding/json"
	"fmt"
	"net/http"
	"net/http/httptest"
	"os"
	"sort"
	"strings"

	"github.com/tucats/ego/internal/defs"
	"github.com/tucats/ego/internal/router"
	"github.com/tucats/ego/internal/server/tables"
	"github.com/tucats/ego/internal/server/tables/scripting"
	"github.com/tucats/ego/internal/verifh/vh"
)

// sendBatch calls the real handler with a multi-statement payload.
func (c *c15) sendBatch(endpoint string, sqls []string) response {
	var (
		body []byte
		path string
		h    func(*router.Session, http.ResponseWriter, *http.Request) int
	)

	if endpoint == "sql" {
		body, _ = json.Marshal(sqls)
		path, h = "/dsns/"+c15DSN+"/tables/@sql", tables.SQLTransaction
	} else {
		tasks := make([]defs.TXOperation, len(sqls))
		for i, s := range sqls {
			tasks[i] = defs.TXOperation{Opcode: "sql", SQL: s}
		}

		body, _ = json.Marshal(tasks)
		path, h = "/dsns/"+c15DSN+"/tables/@transaction", scripting.Handler
	}

	req := httptest.NewRequest(http.MethodPost, path, bytes.NewReader(body))
	req.Header.Set("Content-Type", "application/json")

	w := httptest.NewRecorder()

	c.mu.Lock()
	c.calls = nil
	c.mu.Unlock()

	status := h(c.session(), w, req)
	c.r.Count("batch.requests."+endpoint, 1)

	if os.Getenv("VERIF_C15_TRACE") != "" {
		fmt.Fprintf(os.Stderr, "TRACE batch %s %d %q %s\n", endpoint, status, sqls, strings.ReplaceAll(vh.Trunc(w.Body.String(), 300), "\n", " "))
	}

	return response{Status: status, Body: vh.Trunc(w.Body.String(), 600), Calls: c.calls}
}

type c15BatchCase struct {
	Batch    []Stmt  `json:"batch"`
	Endpoint string  `json:"endpoint"`
	Index    int     `json:"index"` // statement whose grant was removed
	Missing  element `json:"missing"`
}

// touches lists the base tables a statement names (views resolved).
func touches(st Stmt) map[string]bool {
	out := map[string]bool{}

	for _, ref := range st.Refs {
		if ref.Mode == "cte" || ref.Mode == "ddl" {
			continue
		}

		tbl := ref.Table
		if b, ok := viewOf[tbl]; ok {
			tbl = b
		}

		out[tbl] = true
	}

	return out
}

// batchKey names a missing check inside a batch: the single-statement key of statement i plus the
// kinds of the EARLIER statements that touch the same table (what could have "pre-authorized" it).
func batchKey(batch []Stmt, i int, e element) string {
	var earlier []string

	for j := 0; j < i; j++ {
		if e.Table == "" || touches(batch[j])[e.Table] {
			earlier = append(earlier, batch[j].Kind)
		}
	}

	sort.Strings(earlier)
	earlier = uniq(earlier)

	ctx := "first-on-table"
	if len(earlier) > 0 {
		ctx = "after-" + strings.Join(earlier, "+")
	}

	return "batch:" + keyFor(batch[i], e) + ":" + ctx
}

func (c *c15) batchDifferential(batch []Stmt, origin string) {
	r := c.r
	sqls := make([]string, len(batch))
	reqs := make([][]element, len(batch))
	truths := make([]truth, len(batch))
	id := ""
	total := 0

	for i, st := range batch {
		sqls[i] = st.SQL
		id += st.SQL + "\x00"

		tr, err := c.groundTruth(st)
		if err != nil {
			r.Eval(vh.Hash("batch", id), false)
			r.Count("batch.sqlite_rejects_member", 1)

			return
		}

		truths[i] = tr
		reqs[i] = required(st, tr)
		total += len(reqs[i])
	}

	r.Count("batch.batches", 1)
	r.Count(fmt.Sprintf("batch.size.%d", len(batch)), 1)
	r.Count("batch.statements", int64(len(batch)))

	// @sql accepts a SELECT only as the last statement (400 otherwise, whatever the grants)
	endpoints := []string{"sql", "tx"}

	for i, st := range batch {
		if st.Kind == "select" && i < len(batch)-1 {
			endpoints = []string{"tx"}
		}
	}

	nontrivial := false

	for _, ep := range endpoints {
		c.grant(nil, true)
		full := c.sendBatch(ep, sqls)
		r.Count(fmt.Sprintf("batch.full.%s.%d", ep, full.Status), 1)

		if ch, _ := c.changed(); ch {
			c.restore()
		}

		if full.Status == http.StatusOK && total > 0 {
			nontrivial = true
		}

		// the same grant can be required by several statements; send each (i, e) once per distinct e
		// but remember every statement index it belongs to (the LAST one gives the key: that is the
		// statement an order-dependent shortcut would let through)
		seen := map[element]int{}
		var order []element

		for i := range batch {
			for _, e := range reqs[i] {
				if _, ok := seen[e]; !ok {
					order = append(order, e)
				}

				seen[e] = i
			}
		}

		for _, e := range order {
			i := seen[e]
			g, admin := grantsWithout(e)
			c.grant(g, admin)

			resp := c.sendBatch(ep, sqls)
			r.Count("batch.differential.requests", 1)
			r.Count(fmt.Sprintf("batch.differential.%s.status.%d", ep, resp.Status), 1)
			r.Count(fmt.Sprintf("batch.differential.index.%d", i), 1)

			if ep == "tx" {
				r.Count("hook.AuthorizedFunc.calls", int64(len(resp.Calls)))
			}

			ch, diff := c.changed()
			if ch {
				c.restore()
			}

			if resp.Status == http.StatusOK || ch {
				desc := fmt.Sprintf("%s endpoint, batch of %d: with every grant except %s (required by statement %d: EXPLAIN reads %v writes %v) the batch was not refused as a whole (status %d, database changed=%v)",
					ep, len(batch), e, i+1, truths[i].R, truths[i].W, resp.Status, ch)
				r.Violate(vh.Violation{Key: batchKey(batch, i, e), Desc: desc, Case: c15BatchCase{Batch: batch, Endpoint: ep, Index: i, Missing: e},
					Expected: "refused (4xx) and no statement of the batch applied", Observed: map[string]any{"status": resp.Status, "body": resp.Body, "snapshot_diff": diff, "authorized_calls": resp.Calls, "full_set_status": full.Status}})
			} else if resp.Status == http.StatusForbidden {
				r.Count("batch.differential.refused_403", 1)
			} else {
				r.Count("batch.differential.not_executed_other_status", 1)
			}
		}
	}

	r.Eval(vh.Hash("batch", id), nontrivial)

	if nontrivial && origin == "random" && r.Counters["batch.sampled"] < 2 {
		r.Count("batch.sampled", 1)
		r.Sample(map[string]any{"batch": sqls, "required_per_statement": fmt.Sprint(reqs)})
	}
}

// member builds one simple statement of the given verb aimed at table tbl (other references, if any, go to t).
func (c *c15) member(g *Gen, verb, tbl string, n int) Stmt {
	var st Stmt

	switch verb {
	case "insert":
		// fixed, collision-free rows so the full-grant run executes
		cols := map[string]string{"t": "(id, a, b)", "other": "(id, a, b)", "secret": "(id, a, canary)"}[tbl]
		st = Stmt{SQL: fmt.Sprintf("INSERT INTO %s %s VALUES (%d, %d, 'batch-%d')", tbl, cols, 500+n, n, n), Kind: "insert", Target: tbl,
			Refs: []Ref{{Table: tbl, Pos: "insert-target", Mode: "write"}}}
	case "update":
		st = Stmt{SQL: fmt.Sprintf("UPDATE %s SET a = a + %d WHERE id >= %d", tbl, 1+n, n%3), Kind: "update", Target: tbl,
			Refs: []Ref{{Table: tbl, Pos: "update-target", Mode: "write"}}}
	case "delete":
		st = Stmt{SQL: fmt.Sprintf("DELETE FROM %s WHERE id = %d", tbl, 1+n%3), Kind: "delete", Target: tbl,
			Refs: []Ref{{Table: tbl, Pos: "delete-target", Mode: "write"}}}
	case "select":
		st = Stmt{SQL: fmt.Sprintf("SELECT id, a FROM %s WHERE id > %d", tbl, n%2), Kind: "select",
			Refs: []Ref{{Table: tbl, Pos: "from", Mode: "read"}}}
	case "insert-select":
		src := map[string]string{"t": "other", "other": "secret", "secret": "other"}[tbl]
		third := map[string]string{"t": "b", "other": "b", "secret": "canary"}[tbl]
		st = Stmt{SQL: fmt.Sprintf("INSERT INTO %s (id, a, %s) SELECT id + %d, a, 'copy-' || id FROM %s", tbl, third, 600+10*n, src), Kind: "insert", Target: tbl,
			Refs: []Ref{{Table: tbl, Pos: "insert-target", Mode: "write"}, {Table: src, Pos: "insert-select-source", Mode: "read"}}}
	case "generated":
		// a statement from the grammar-driven generator aimed at tbl
		switch g.n(3) {
		case 0:
			st = g.Update(&Focus{Table: tbl, Pos: "update-target"})
		case 1:
			st = g.Delete(&Focus{Table: tbl, Pos: "delete-target"})
		default:
			st = g.Select(&Focus{Table: tbl, Pos: "from"})
		}
	}

	return st
}

var batchVerbs = []string{"insert", "update", "delete", "select"}

// batches runs the directed verb-order table and n PRNG batches.
func (c *c15) batches(g *Gen, n int) {
	r := c.r
	seq := 0

	// directed: every ordered pair of different verbs on the same table (both orders by construction),
	// then the same pairs with an unrelated statement in between
	for _, tbl := range []string{"t", "other"} {
		for _, v1 := range batchVerbs {
			for _, v2 := range batchVerbs {
				if v1 == v2 {
					continue
				}

				seq++
				c.batchDifferential([]Stmt{c.member(g, v1, tbl, seq), c.member(g, v2, tbl, seq+1)}, "directed")
				r.Count("batch.directed", 1)
			}
		}
	}

	for _, v1 := range batchVerbs {
		for _, v2 := range batchVerbs {
			if v1 == v2 {
				continue
			}

			seq += 3
			c.batchDifferential([]Stmt{c.member(g, v1, "t", seq), c.member(g, "insert-select", "secret", seq+1), c.member(g, v2, "t", seq+2)}, "directed")
			r.Count("batch.directed", 1)
		}
	}

	// PRNG batches: 2-4 statements over 1-2 tables
	for i := 0; i < n; i++ {
		size := 2 + g.n(3)
		tbls := []string{baseTables[g.n(3)]}

		if g.p(0.5) {
			tbls = append(tbls, baseTables[g.n(3)])
		}

		batch := make([]Stmt, size)

		for k := range batch {
			seq++

			verb := []string{"insert", "update", "delete", "select", "insert-select", "generated"}[g.n(6)]
			if k < size-1 && g.p(0.7) && verb == "select" {
				verb = "update" // keep most batches acceptable to @sql (SELECT last only)
			}

			batch[k] = c.member(g, verb, tbls[g.n(len(tbls))], seq)
		}

		c.batchDifferential(batch, "random")
		r.Count("batch.random", 1)
	}
}
