package sqlchk

import (
	"fmt"
	"math/rand"
	"sort"
	"strings"
)

// ---------------------------------------------------------------------------------------------
// Fixed schema shared by C15 and C16.
// ---------------------------------------------------------------------------------------------

// SchemaSQL creates the fixed arena: the addressed table t, sibling tables secret and other with
// canary rows, two views and three indexes.
var SchemaSQL = []string{
	`CREATE TABLE t (id INTEGER PRIMARY KEY, a INTEGER, b TEXT, c REAL, "Mixed Case" TEXT, "q""uote" INTEGER)`,
	`CREATE TABLE secret (id INTEGER PRIMARY KEY, a INTEGER, canary TEXT)`,
	`CREATE TABLE other (id INTEGER PRIMARY KEY, a INTEGER, b TEXT, tag TEXT)`,
	`CREATE INDEX t_a_idx ON t (a)`,
	`CREATE UNIQUE INDEX t_b_u ON t (b)`,
	`CREATE INDEX other_tag_idx ON other (tag)`,
	`CREATE VIEW v_secret AS SELECT id, a, canary FROM secret`,
	`CREATE VIEW v_t AS SELECT id, a, b FROM t WHERE a IS NOT NULL`,
	`INSERT INTO t VALUES (1, 10, 'alpha', 1.5, 'Mx', 7), (2, 20, 'beta', -2.25, NULL, 0), (3, NULL, 'gamma', 0.0, 'it''s', -1),
	   (4, 20, 'Delta', 1e3, '100%', 9), (5, -5, NULL, NULL, 'a_b', NULL), (6, 0, 'zeta', 3.0, '', 42), (7, 7, 'x y', 0.5, 'MX', 7)`,
	`INSERT INTO secret VALUES (1, 10, 'CANARY-SECRET-1'), (2, 20, 'CANARY-SECRET-2'), (3, 30, 'CANARY-SECRET-3')`,
	`INSERT INTO other VALUES (1, 10, 'alpha', 'CANARY-OTHER-1'), (2, 21, 'beta', 'CANARY-OTHER-2'), (3, NULL, 'omega', 'CANARY-OTHER-3'), (4, 20, NULL, 'CANARY-OTHER-4')`,
}

// Relations of the fixed schema (name -> columns). Views are relations too.
var relCols = map[string][]string{
	"t":        {"id", "a", "b", "c", "Mixed Case", `q"uote`},
	"secret":   {"id", "a", "canary"},
	"other":    {"id", "a", "b", "tag"},
	"v_secret": {"id", "a", "canary"},
	"v_t":      {"id", "a", "b"},
}

var (
	baseTables = []string{"t", "secret", "other"}
	relations  = []string{"t", "secret", "other", "v_secret", "v_t", "t", "t"}
	viewOf     = map[string]string{"v_secret": "secret", "v_t": "t"}
)

// Features are the generator's switchable constructs: each can be kept out of the random stream
// (avoid set = keys of known findings) and each has a directed probe in Probes().
const (
	FUnaryMinusChain  = "unary-minus-chain"    // - - x prints as --x
	FQuotedKeyword    = "quoted-ident-keyword" // "from" printed bare
	FJoinParen        = "join-paren"           // a JOIN (b JOIN c) parentheses not kept
	FUpsertExprTarget = "upsert-expr-target"   // ON CONFLICT (expr / col COLLATE x)
	FFKQuotedTable    = "fk-quoted-table"      // REFERENCES "my tab"
	FDQString         = "dq-string-fallback"   // "abc" that names no column (SQLite reads a string)
	FQuotedFuncName   = "quoted-func-name"     // "my fn"(x)
	FBlobOddChars     = "blob-literal"         // x'..'
	FIsnullRelop      = "isnull-postfix-relop" // x ISNULL < y is printed x IS NULL < y, which SQLite groups as x IS (NULL < y)
	FNotOperand       = "not-operand"          // a * NOT b: the parser reads NOT as a column name
)

// Ref is one relation reference in a generated statement and the syntactic position it is in.
type Ref struct {
	Table string `json:"table"`
	Pos   string `json:"pos"`
	Mode  string `json:"mode"` // read | write | ddl
}

// Stmt is one generated statement with what the generator knows about it.
type Stmt struct {
	SQL    string   `json:"sql"`
	Kind   string   `json:"kind"`
	Refs   []Ref    `json:"refs,omitempty"`
	Tags   []string `json:"tags,omitempty"`
	NoExec bool     `json:"noexec,omitempty"` // has bind parameters / is transaction control
	Target string   `json:"target,omitempty"` // relation a DML/DDL statement is aimed at
	PG     bool     `json:"pg,omitempty"`
}

// Focus asks for one reference to Table in position Pos and no other reference to a relation
// other than t (C15 directed cases).
type Focus struct {
	Table string
	Pos   string
	used  bool
}

// Gen is the grammar-driven generator.
type Gen struct {
	R       *rand.Rand
	Avoid   map[string]bool // feature names never emitted
	Torture bool            // expression torture (C16)
	PG      bool            // PostgreSQL flavoured constructs
	Plain   bool            // C15: plain identifiers, single-line literals, no bind parameters
	SubqP   float64         // probability of filling a subquery-capable position (random mode)
	Form    int             // expression form a subquery is wrapped in by hole(); < 0 = PRNG choice
	focus   *Focus
	tags    map[string]bool
	refs    []Ref
	noexec  bool
	seq     int
	budget  int // remaining subqueries for this statement

	lastCols  int    // result columns of the last selectCore (-1: star)
	lastAgg   bool   // last selectCore was aggregated
	lastScope *scope // scope of the last selectCore
}

func NewGen(r *rand.Rand) *Gen {
	return &Gen{R: r, Avoid: map[string]bool{}, SubqP: 0.18, Form: -1}
}

func (g *Gen) tag(s string)     { g.tags[s] = true }
func (g *Gen) p(x float64) bool { return g.R.Float64() < x }
func (g *Gen) n(k int) int      { return g.R.Intn(k) }
func (g *Gen) pick(xs ...string) string {
	return xs[g.R.Intn(len(xs))]
}

func (g *Gen) ok(feature string) bool { return !g.Avoid[feature] }

func (g *Gen) begin(f *Focus) {
	g.tags = map[string]bool{}
	g.refs = nil
	g.noexec = false
	g.focus = f
	g.budget = 3
	g.seq++
}

func (g *Gen) finish(kind, target, sql string) Stmt {
	tags := make([]string, 0, len(g.tags))
	for k := range g.tags {
		tags = append(tags, k)
	}

	sort.Strings(tags)

	return Stmt{SQL: sql, Kind: kind, Refs: g.refs, Tags: tags, NoExec: g.noexec, Target: target, PG: g.PG}
}

// ---------------------------------------------------------------------------------------------
// identifiers
// ---------------------------------------------------------------------------------------------

func isSimple(name string) bool {
	for i, r := range name {
		if !(r == '_' || (r >= 'a' && r <= 'z') || (r >= 'A' && r <= 'Z') || (i > 0 && r >= '0' && r <= '9')) {
			return false
		}
	}

	return name != ""
}

// ident renders an existing name in one of the spellings SQLite accepts.
func (g *Gen) ident(name string) string {
	simple := isSimple(name)

	if g.Plain {
		if simple {
			return name
		}

		return `"` + strings.ReplaceAll(name, `"`, `""`) + `"`
	}

	switch k := g.n(10); {
	case k < 6 && simple:
		return name
	case k == 6 && simple && !g.PG:
		g.tag("ident-upper")
		return strings.ToUpper(name)
	case k == 7 && !strings.ContainsAny(name, "]") && !g.PG:
		g.tag("ident-bracket")
		return "[" + name + "]"
	case k == 8 && !g.PG:
		g.tag("ident-backtick")
		return "`" + strings.ReplaceAll(name, "`", "``") + "`"
	default:
		g.tag("ident-dquote")
		return `"` + strings.ReplaceAll(name, `"`, `""`) + `"`
	}
}

var keywordNames = []string{"from", "select", "order", "null", "true", "group", "where", "as", "Table", "INDEX", "not", "case", "end", "on", "limit"}

// newName is a fresh alias / column / object name; some need quoting.
func (g *Gen) newName(prefix string) string {
	g.seq++

	if g.Plain {
		return fmt.Sprintf("%s%d", prefix, g.seq%97)
	}

	switch g.n(12) {
	case 0:
		g.tag("name-space")
		return fmt.Sprintf("%s %d", prefix, g.seq%97)
	case 1:
		g.tag("name-embedded-quote")
		return fmt.Sprintf(`%s"%d`, prefix, g.seq%97)
	case 2:
		g.tag("name-mixed-case")
		return fmt.Sprintf("%s%dX", strings.ToUpper(prefix[:1])+prefix[1:], g.seq%97)
	case 3:
		if g.ok(FQuotedKeyword) {
			g.tag(FQuotedKeyword)
			return keywordNames[g.n(len(keywordNames))]
		}
	case 4:
		g.tag("name-unicode")
		return fmt.Sprintf("%sé%d", prefix, g.seq%97)
	case 5:
		g.tag("name-dollar")
		return fmt.Sprintf("%s$%d", prefix, g.seq%97)
	case 6:
		g.tag("name-leading-digit")
		return fmt.Sprintf("%d%s", g.seq%97, prefix)
	}

	return fmt.Sprintf("%s%d", prefix, g.seq%97)
}

// decl renders a NEW name (always a spelling that reads back as exactly that name).
func (g *Gen) decl(name string) string {
	if isSimple(name) && !isKeywordName(name) && g.p(0.8) {
		return name
	}

	if !g.PG && !g.Plain && !strings.ContainsAny(name, "]") && g.p(0.15) {
		g.tag("ident-bracket")
		return "[" + name + "]"
	}

	if !g.PG && !g.Plain && g.p(0.1) {
		g.tag("ident-backtick")
		return "`" + strings.ReplaceAll(name, "`", "``") + "`"
	}

	return `"` + strings.ReplaceAll(name, `"`, `""`) + `"`
}

func isKeywordName(s string) bool {
	l := strings.ToLower(s)
	for _, k := range keywordNames {
		if strings.ToLower(k) == l {
			return true
		}
	}

	return false
}

// ---------------------------------------------------------------------------------------------
// scopes
// ---------------------------------------------------------------------------------------------

type source struct {
	alias string // name to qualify with ("" = unqualifiable, e.g. USING-merged)
	cols  []string
}

type scope struct {
	srcs  []source
	outer *scope
}

func (sc *scope) add(alias string, cols []string) { sc.srcs = append(sc.srcs, source{alias, cols}) }

// column picks a column reference resolvable in sc (sometimes from an outer scope: correlation).
func (g *Gen) column(sc *scope) string {
	s := sc
	if s != nil && s.outer != nil && len(s.outer.srcs) > 0 && g.p(0.15) {
		s = s.outer
		g.tag("correlated-ref")
	}

	if s == nil || len(s.srcs) == 0 {
		return g.literal()
	}

	src := s.srcs[g.n(len(s.srcs))]
	col := src.cols[g.n(len(src.cols))]
	// always qualify when more than one source is visible (ambiguity would make SQLite reject it)
	multi := len(s.srcs) > 1 || s != sc || (sc.outer != nil && len(sc.outer.srcs) > 0)
	if src.alias != "" && (multi || g.p(0.3)) {
		return g.ident(src.alias) + "." + g.ident(col)
	}

	return g.ident(col)
}
