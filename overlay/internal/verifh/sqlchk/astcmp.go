// Package sqlchk holds the /verif monitors for the SQL properties C15 (SQL endpoints
// authorize every table a statement touches) and C16 (SQL reformatting preserves
// statements), and the grammar-driven statement generator both share.
package sqlchk

import (
	"fmt"
	"reflect"

	"github.com/tucats/ego/internal/sqlparse/ast"
)

var (
	baseNodeType  = reflect.TypeOf(ast.BaseNode{})
	parenExprType = reflect.TypeOf(&ast.ParenExpr{})
)

// ZeroSpans sets every embedded ast.BaseNode reachable from v to its zero value, so that two
// trees can be compared with reflect.DeepEqual irrespective of where their text was laid out.
// It returns the number of spans cleared (evidence that positions were really present).
func ZeroSpans(root any) int {
	n := 0
	seen := map[uintptr]bool{}

	var walk func(v reflect.Value)

	walk = func(v reflect.Value) {
		switch v.Kind() {
		case reflect.Interface:
			if !v.IsNil() {
				walk(v.Elem())
			}
		case reflect.Ptr:
			if v.IsNil() {
				return
			}

			if seen[v.Pointer()] {
				return
			}

			seen[v.Pointer()] = true

			walk(v.Elem())
		case reflect.Struct:
			if v.Type() == baseNodeType {
				if v.CanSet() {
					if !v.IsZero() {
						n++
					}

					v.Set(reflect.Zero(baseNodeType))
				}

				return
			}

			for i := 0; i < v.NumField(); i++ {
				walk(v.Field(i))
			}
		case reflect.Slice:
			for i := 0; i < v.Len(); i++ {
				walk(v.Index(i))
			}
		}
	}

	walk(reflect.ValueOf(root))

	return n
}

// Diff is the first structural difference between two syntax trees.
type Diff struct {
	Path   string // field path from the root, e.g. SelectStmt.Select.SelectCore.Where.BinaryExpr(OR).X
	Site   string // compact, seed-stable description used in keys, e.g. BinaryExpr(OR).X:UnaryExpr!=BinaryExpr
	A, B   string // what each side holds there
	Differ bool
}

func nodeLabel(v reflect.Value) string {
	if !v.IsValid() {
		return "nil"
	}

	for v.Kind() == reflect.Interface || v.Kind() == reflect.Ptr {
		if v.IsNil() {
			return "nil"
		}

		v = v.Elem()
	}

	name := v.Type().Name()

	if v.Kind() == reflect.Struct {
		if f := v.FieldByName("Op"); f.IsValid() && f.Kind() == reflect.String {
			return name + "(" + f.String() + ")"
		}

		if f := v.FieldByName("JoinType"); f.IsValid() && f.Kind() == reflect.String {
			return name + "(" + f.String() + ")"
		}
	}

	return name
}

// CompareTrees reports the first difference between a and b, ignoring BaseNode spans. With
// stripParens every *ast.ParenExpr on either side is replaced by its operand before comparing.
func CompareTrees(a, b any, stripParens bool) Diff {
	var d Diff

	var cmp func(x, y reflect.Value, path, parent string) bool

	unwrap := func(v reflect.Value) reflect.Value {
		for stripParens && v.IsValid() && v.Kind() == reflect.Interface && !v.IsNil() && v.Elem().Type() == parenExprType {
			v = v.Elem().Elem().FieldByName("X")
		}

		return v
	}

	fail := func(path, site, a, b string) bool {
		d = Diff{Path: path, Site: site, A: a, B: b, Differ: true}

		return false
	}

	cmp = func(x, y reflect.Value, path, parent string) bool {
		x, y = unwrap(x), unwrap(y)

		if x.Kind() == reflect.Interface || x.Kind() == reflect.Ptr {
			if x.IsNil() || y.IsNil() {
				if x.IsNil() && y.IsNil() {
					return true
				}

				return fail(path, parent+":"+nodeLabel(x)+"!="+nodeLabel(y), nodeLabel(x), nodeLabel(y))
			}

			if x.Kind() == reflect.Interface {
				if x.Elem().Type() != y.Elem().Type() {
					return fail(path, parent+":"+nodeLabel(x)+"!="+nodeLabel(y), nodeLabel(x), nodeLabel(y))
				}
			}

			return cmp(x.Elem(), y.Elem(), path, parent)
		}

		switch x.Kind() {
		case reflect.Struct:
			if x.Type() == baseNodeType {
				return true
			}

			label := nodeLabel(x)
			// label with the operator of the ORIGINAL side so that keys name what was written
			for i := 0; i < x.NumField(); i++ {
				f := x.Type().Field(i)
				if !cmp(x.Field(i), y.Field(i), path+"."+label+"."+f.Name, label+"."+f.Name) {
					return false
				}
			}

			return true
		case reflect.Slice:
			if x.IsNil() != y.IsNil() {
				// reflect.DeepEqual distinguishes a nil slice from an empty one; so does this walk
				return fail(path, parent+":nil-vs-empty", fmt.Sprintf("nil=%v len=%d", x.IsNil(), x.Len()), fmt.Sprintf("nil=%v len=%d", y.IsNil(), y.Len()))
			}

			if x.Len() != y.Len() {
				return fail(path, fmt.Sprintf("%s:len", parent), fmt.Sprint(x.Len()), fmt.Sprint(y.Len()))
			}

			for i := 0; i < x.Len(); i++ {
				if !cmp(x.Index(i), y.Index(i), fmt.Sprintf("%s[%d]", path, i), parent) {
					return false
				}
			}

			return true
		default:
			if !reflect.DeepEqual(x.Interface(), y.Interface()) {
				return fail(path, parent, fmt.Sprintf("%v", x.Interface()), fmt.Sprintf("%v", y.Interface()))
			}

			return true
		}
	}

	cmp(reflect.ValueOf(&a).Elem(), reflect.ValueOf(&b).Elem(), "", "root")

	return d
}
