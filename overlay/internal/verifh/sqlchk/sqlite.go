package sqlchk

import (
	"context"
	"database/sql"
	"encoding/hex"
	"fmt"
	"regexp"
	"sort"
	"strconv"
	"strings"

	_ "modernc.org/sqlite" // driver "sqlite" (the one the server uses)
)

// Arena is one SQLite database holding the fixed schema, used through a single connection.
type Arena struct {
	db   *sql.DB
	conn *sql.Conn
	ctx  context.Context
}

// OpenArena opens dsn (":memory:" or a file path) and, when create is set, builds the fixed schema.
func OpenArena(dsn string, create bool) (*Arena, error) {
	db, err := sql.Open("sqlite", dsn)
	if err != nil {
		return nil, err
	}

	db.SetMaxOpenConns(1)

	ctx := context.Background()

	conn, err := db.Conn(ctx)
	if err != nil {
		db.Close()

		return nil, err
	}

	a := &Arena{db: db, conn: conn, ctx: ctx}

	if create {
		for _, s := range SchemaSQL {
			if _, err := conn.ExecContext(ctx, s); err != nil {
				a.Close()

				return nil, fmt.Errorf("schema: %v: %s", err, s)
			}
		}
	}

	return a, nil
}

func (a *Arena) Close() {
	if a.conn != nil {
		a.conn.Close()
	}

	if a.db != nil {
		a.db.Close()
	}
}

// fieldSep separates the canonical values of a row (strings are quoted, so it can not occur inside one).
const fieldSep = "\x1f"

// Outcome is what executing one statement did.
type Outcome struct {
	Err      string   `json:"err,omitempty"`
	ErrClass string   `json:"err_class,omitempty"`
	NCols    int      `json:"ncols"`
	Rows     []string `json:"rows"` // canonical text of each row, in the order returned
	Snapshot string   `json:"-"`
}

func canonValue(v any) string {
	switch x := v.(type) {
	case nil:
		return "n"
	case int64:
		return "i:" + strconv.FormatInt(x, 10)
	case float64:
		return "f:" + strconv.FormatFloat(x, 'g', -1, 64)
	case string:
		return "s:" + strconv.Quote(x)
	case []byte:
		return "b:" + hex.EncodeToString(x)
	case bool:
		return fmt.Sprintf("B:%v", x)
	default:
		return fmt.Sprintf("%T:%v", v, v)
	}
}

var (
	reQuoted = regexp.MustCompile(`"[^"]*"|'[^']*'|` + "`[^`]*`")
	reNum    = regexp.MustCompile(`[0-9]+`)
)

// ErrClass reduces a SQLite error message to its kind (no identifiers, no positions).
func ErrClass(msg string) string {
	if msg == "" {
		return ""
	}

	l := strings.ToLower(msg)

	switch {
	case strings.Contains(l, "syntax error"), strings.Contains(l, "incomplete input"), strings.Contains(l, "unrecognized token"):
		return "syntax"
	case strings.Contains(l, "no such column"):
		return "no-such-column"
	case strings.Contains(l, "no such table"):
		return "no-such-table"
	case strings.Contains(l, "no such function"):
		return "no-such-function"
	case strings.Contains(l, "no such index"):
		return "no-such-index"
	case strings.Contains(l, "no such view"):
		return "no-such-view"
	case strings.Contains(l, "no such collation"):
		return "no-such-collation"
	case strings.Contains(l, "already exists"):
		return "already-exists"
	case strings.Contains(l, "constraint failed"):
		return "constraint"
	case strings.Contains(l, "ambiguous column"):
		return "ambiguous-column"
	case strings.Contains(l, "datatype mismatch"):
		return "datatype-mismatch"
	case strings.Contains(l, "integer overflow"):
		return "integer-overflow"
	case strings.Contains(l, "malformed json"), strings.Contains(l, "json"):
		return "json"
	case strings.Contains(l, "row value misused"):
		return "row-value-misused"
	case strings.Contains(l, "misuse of aggregate"):
		return "aggregate-misuse"
	}

	l = reQuoted.ReplaceAllString(l, "Q")
	l = reNum.ReplaceAllString(l, "N")
	parts := strings.Split(l, ":")

	if len(parts) > 2 {
		parts = parts[:2]
	}

	return strings.TrimSpace(strings.Join(parts, ":"))
}

// exec runs one statement on the arena's connection and collects its rows.
func (a *Arena) exec(text string) Outcome {
	var o Outcome

	rows, err := a.conn.QueryContext(a.ctx, text)
	if err != nil {
		o.Err = err.Error()
		o.ErrClass = ErrClass(o.Err)

		return o
	}

	defer rows.Close()

	cols, _ := rows.Columns()
	o.NCols = len(cols)

	for rows.Next() {
		vals := make([]any, len(cols))
		ptrs := make([]any, len(cols))

		for i := range vals {
			ptrs[i] = &vals[i]
		}

		if err := rows.Scan(ptrs...); err != nil {
			o.Err = "scan: " + err.Error()
			o.ErrClass = "scan"

			return o
		}

		parts := make([]string, len(vals))
		for i, v := range vals {
			parts[i] = canonValue(v)
		}

		o.Rows = append(o.Rows, strings.Join(parts, fieldSep))
	}

	if err := rows.Err(); err != nil {
		o.Err = err.Error()
		o.ErrClass = ErrClass(o.Err)
	}

	return o
}

// RunIsolated executes text inside a savepoint, takes a snapshot of the database as the statement
// left it, and rolls the savepoint back so the arena is as before. ok=false means the arena
// could not be restored that way (e.g. the statement rolled the transaction back) and must be rebuilt.
//
// base is the snapshot of the arena as it is now; when SQLite's own change counters (total_changes(),
// main and temp schema_version) did not move, the statement changed nothing and base is reused.
func (a *Arena) RunIsolated(text, base string) (o Outcome, ok bool) {
	if _, err := a.conn.ExecContext(a.ctx, "SAVEPOINT verif_sp"); err != nil {
		return Outcome{Err: "savepoint: " + err.Error(), ErrClass: "harness"}, false
	}

	before := a.marker()
	o = a.exec(text)

	if base != "" && before != "" && a.marker() == before {
		o.Snapshot = base
	} else {
		o.Snapshot = a.Snapshot()
	}

	if _, err := a.conn.ExecContext(a.ctx, "ROLLBACK TO verif_sp"); err != nil {
		return o, false
	}

	if _, err := a.conn.ExecContext(a.ctx, "RELEASE verif_sp"); err != nil {
		return o, false
	}

	return o, true
}

// marker reads SQLite's change counters.
func (a *Arena) marker() string {
	var (
		tc, sv, tv int64
	)

	if err := a.conn.QueryRowContext(a.ctx, "SELECT total_changes()").Scan(&tc); err != nil {
		return ""
	}

	if err := a.conn.QueryRowContext(a.ctx, "PRAGMA main.schema_version").Scan(&sv); err != nil {
		return ""
	}

	if err := a.conn.QueryRowContext(a.ctx, "PRAGMA temp.schema_version").Scan(&tv); err != nil {
		return ""
	}

	return fmt.Sprintf("%d/%d/%d", tc, sv, tv)
}

func qid(s string) string { return `"` + strings.ReplaceAll(s, `"`, `""`) + `"` }

func (a *Arena) queryAll(q string) ([]string, error) {
	o := a.exec(q)
	if o.Err != "" {
		return nil, fmt.Errorf("%s", o.ErrClass)
	}

	return o.Rows, nil
}

// Snapshot is a logical dump: every object of sqlite_master and sqlite_temp_master (type, name,
// table), each table's column / index / foreign-key structure from PRAGMAs, and every table's and
// view's rows (sorted). The CREATE text SQLite stores is left out on purpose: it keeps the
// statement's spelling, which reformatting legitimately changes.
func (a *Arena) Snapshot() string {
	var b strings.Builder

	for _, sch := range []string{"main", "temp"} {
		master := "sqlite_master"
		if sch == "temp" {
			master = "sqlite_temp_master"
		}

		objs := a.exec("SELECT type, name, tbl_name FROM " + sch + "." + master + " ORDER BY type, name")
		if objs.Err != "" {
			fmt.Fprintf(&b, "%s: ERROR %s\n", sch, objs.ErrClass)

			continue
		}

		for _, line := range objs.Rows {
			fmt.Fprintf(&b, "%s %s\n", sch, line)
		}

		names := a.exec("SELECT type, name FROM " + sch + "." + master + " WHERE type IN ('table','view') ORDER BY name")

		for _, line := range names.Rows {
			parts := strings.SplitN(line, fieldSep, 2)
			typ, _ := strconv.Unquote(strings.TrimPrefix(parts[0], "s:"))
			name, _ := strconv.Unquote(strings.TrimPrefix(parts[1], "s:"))

			if typ == "table" {
				// declared types and default texts keep the statement's spelling; compare them modulo
				// letter case (types) and white space outside string literals
				cols := a.exec("SELECT cid, name, type, \"notnull\", dflt_value, pk, hidden FROM " + sch + ".pragma_table_xinfo(" + sqlStr(name) + ") ORDER BY cid")
				for i, line := range cols.Rows {
					cols.Rows[i] = normDeclLine(line)
				}

				fmt.Fprintf(&b, " %s %s table_xinfo: %v %s\n", sch, name, cols.Rows, cols.ErrClass)

				for _, pragma := range []string{"index_list", "foreign_key_list"} {
					rows, err := a.queryAll("PRAGMA " + sch + "." + pragma + "(" + qid(name) + ")")
					sort.Strings(rows)
					fmt.Fprintf(&b, " %s %s %s: %v %v\n", sch, name, pragma, rows, err)
				}

				ixs := a.exec("SELECT name FROM " + sch + "." + master + " WHERE type='index' AND tbl_name=" + sqlStr(name) + " ORDER BY name")
				for _, il := range ixs.Rows {
					in, _ := strconv.Unquote(strings.TrimPrefix(il, "s:"))
					rows, err := a.queryAll("PRAGMA " + sch + ".index_xinfo(" + qid(in) + ")")
					fmt.Fprintf(&b, "  index %s: %v %v\n", in, rows, err)
				}
			}

			data, err := a.queryAll("SELECT * FROM " + sch + "." + qid(name))
			sort.Strings(data)
			fmt.Fprintf(&b, " %s %s rows(%d): %v %v\n", sch, name, len(data), data, err)
		}
	}

	return b.String()
}

// normDeclLine normalises the type (field 2) and default text (field 4) of a canonical table_xinfo row.
func normDeclLine(line string) string {
	f := strings.Split(line, fieldSep)
	if len(f) != 7 {
		return line
	}

	if t, err := strconv.Unquote(strings.TrimPrefix(f[2], "s:")); err == nil {
		f[2] = "s:" + strconv.Quote(strings.ToUpper(strings.NewReplacer(`"`, "", "`", "", "[", "", "]", "").Replace(squeeze(t))))
	}

	if t, err := strconv.Unquote(strings.TrimPrefix(f[4], "s:")); err == nil && strings.HasPrefix(f[4], "s:") {
		f[4] = "s:" + strconv.Quote(squeeze(t))
	}

	return strings.Join(f, fieldSep)
}

// squeeze removes white space outside single-quoted literals.
func squeeze(s string) string {
	var b strings.Builder

	inq := false

	for _, r := range s {
		if r == '\'' {
			inq = !inq
		}

		if !inq && (r == ' ' || r == '\t' || r == '\n' || r == '\r') {
			continue
		}

		b.WriteRune(r)
	}

	return b.String()
}

func sqlStr(s string) string { return "'" + strings.ReplaceAll(s, "'", "''") + "'" }

// Explain returns the rows of EXPLAIN text as (opcode, p1, p2, p3, p4, p5).
type Op struct {
	Opcode string
	P1     int64
	P2     int64
	P3     int64
	P4     string
	P5     int64
}

func (a *Arena) Explain(text string) ([]Op, error) {
	rows, err := a.conn.QueryContext(a.ctx, "EXPLAIN "+text)
	if err != nil {
		return nil, err
	}

	defer rows.Close()

	var ops []Op

	for rows.Next() {
		var (
			addr           int64
			op             Op
			p4, p5, commnt any
		)

		if err := rows.Scan(&addr, &op.Opcode, &op.P1, &op.P2, &op.P3, &p4, &p5, &commnt); err != nil {
			return nil, err
		}

		op.P4 = fmt.Sprint(p4)

		switch v := p5.(type) {
		case int64:
			op.P5 = v
		case string:
			op.P5, _ = strconv.ParseInt(v, 10, 64)
		case []byte:
			op.P5, _ = strconv.ParseInt(string(v), 10, 64)
		}

		ops = append(ops, op)
	}

	return ops, rows.Err()
}
