package sqlchk

// Probe is a directed minimal statement for one generator feature. Every C16 run executes all of
// them; a feature named by a known finding is kept out of the random stream and stays under test here.
type Probe struct {
	Feature string
	SQL     string
}

// Probes lists the directed cases (SQLite dialect).
func Probes() []Probe {
	return []Probe{
		{FUnaryMinusChain, `SELECT - -1`},
		{FUnaryMinusChain, `SELECT id, - - a FROM t ORDER BY id`},
		{FUnaryMinusChain, `SELECT 5 - - -2`},
		{FQuotedKeyword, `SELECT a AS "from" FROM t`},
		{FQuotedKeyword, `SELECT 1 AS "select", 2 AS "null"`},
		{FQuotedKeyword, `SELECT "order".a FROM t AS "order"`},
		{FQuotedKeyword, `CREATE TABLE "table" ("index" INTEGER, "where" TEXT)`},
		{FJoinParen, `SELECT t.id, secret.id, other.id FROM t LEFT JOIN (secret CROSS JOIN other) ON t.id = secret.id`},
		{FJoinParen, `SELECT count(*) FROM t JOIN (secret JOIN other ON secret.id = other.id) ON t.id = secret.id`},
		{FUpsertExprTarget, `INSERT INTO t (id, b) VALUES (90, 'ALPHA') ON CONFLICT (b COLLATE NOCASE) DO NOTHING`},
		{FUpsertExprTarget, `INSERT INTO t (id, b) VALUES (1, 'q') ON CONFLICT (lower(b)) DO NOTHING`},
		{FFKQuotedTable, `CREATE TABLE fk1 (a INTEGER REFERENCES "my tab" (id))`},
		{FFKQuotedTable, `CREATE TABLE fk2 (a INTEGER, FOREIGN KEY (a) REFERENCES "my tab" (id))`},
		{FDQString, `SELECT "nosuch" FROM t`},
		{FQuotedFuncName, `SELECT "my fn"(1)`},
		{FQuotedFuncName, `SELECT "abs"(-1)`},
		{FBlobOddChars, `SELECT x'0aFF', X'', x'00'`},
		{FNotOperand, `SELECT id * NOT "a" FROM t`},
		{FNotOperand, `SELECT id FROM t WHERE 1 + NOT a`},
		{"quoted-type-name", `CREATE TABLE qt (a "my type", b "Text")`},
		{FIsnullRelop, `SELECT id, a ISNULL < 1 FROM t ORDER BY id`},
		{FIsnullRelop, `SELECT id, a NOTNULL >= 1, b ISNULL > 0 FROM t ORDER BY id`},
		{"quoted-collation", `SELECT b FROM t ORDER BY b COLLATE "nocase"`},
		{"name-dollar", `SELECT a AS a$b FROM t`},
		{"name-embedded-quote", `SELECT "q""uote" AS "x""y" FROM t`},
		{"name-empty", `SELECT a AS "" FROM t`},
		{"string-quotes", `SELECT 'it''s', '''', '-- x', '/* y */', 'a;b'`},
		{"string-multiline", "SELECT 'line1\nline2', 'tab\there'"},
		{"numeric-forms", `SELECT 007, .5, 2., 1e3, 2.5E-2, 1E+2, 0x1F, 0X0a, 9223372036854775807`},
		{"limit-comma", `SELECT id FROM t ORDER BY id LIMIT 1, 3`},
		{"isnull-postfix", `SELECT id, a ISNULL, a NOTNULL, b IS NOT NULL FROM t`},
		{"is-distinct", `SELECT 1 IS DISTINCT FROM NULL, 1 IS NOT DISTINCT FROM 1, NULL IS NULL, 2 IS NOT 3`},
		{"like-escape", `SELECT "Mixed Case" FROM t WHERE "Mixed Case" LIKE '100!%' ESCAPE '!' OR b NOT LIKE 'A%' OR b GLOB '*a'`},
		{"between", `SELECT id FROM t WHERE a NOT BETWEEN 1 AND 10 AND id BETWEEN 1 AND 6 OR c BETWEEN 0 AND 1 + 1`},
		{"cast-types", `SELECT CAST(a AS TEXT), CAST(b AS INTEGER), CAST(c AS VARCHAR(10)), CAST(c AS DECIMAL(10,2)), CAST(a AS DOUBLE PRECISION) FROM t`},
		{"case-forms", `SELECT CASE a WHEN 10 THEN 'x' WHEN 20 THEN 'y' ELSE 'z' END, CASE WHEN a > 5 THEN 1 END FROM t`},
		{"collate-postfix", `SELECT b FROM t WHERE b COLLATE NOCASE = 'DELTA' OR b = 'ALPHA' COLLATE NOCASE`},
		{"nested-parens", `SELECT (((1))), ((1 + 2)) * 3, (1 + (2 * (3 - 4)))`},
		{"row-values", `SELECT id FROM t WHERE (a, b) = (10, 'alpha') OR (id, a) IN (SELECT id, a FROM secret)`},
		{"json-arrows", `SELECT '{"a":{"b":2}}' -> '$.a' ->> 'b', '[1,2]' ->> 1`},
		{"in-empty", `SELECT id FROM t WHERE a IN () OR a NOT IN ()`},
		{"agg-filter-distinct", `SELECT count(DISTINCT a), sum(a) FILTER (WHERE a > 0), count(*) FROM t`},
		{"cte-compound", `WITH c1 (x, y) AS (SELECT id, a FROM t), c2 AS (SELECT id FROM secret) SELECT x FROM c1 UNION SELECT id FROM c2 EXCEPT SELECT 2 ORDER BY 1 DESC LIMIT 5 OFFSET 1`},
		{"recursive-cte", `WITH RECURSIVE n (i) AS (SELECT 1 UNION ALL SELECT i + 1 FROM n WHERE i < 5) SELECT i FROM n`},
		{"join-forms", `SELECT t.id, o.tag FROM t LEFT OUTER JOIN other AS o USING (id) NATURAL JOIN secret CROSS JOIN v_t WHERE t.id < 3`},
		{"indexed-by", `SELECT a FROM t INDEXED BY t_a_idx WHERE a = 20`},
		{"order-nulls", `SELECT a FROM t ORDER BY a DESC NULLS LAST, b COLLATE NOCASE ASC NULLS FIRST`},
		{"upsert", `INSERT INTO t (id, a) VALUES (1, 5) ON CONFLICT (id) DO UPDATE SET a = excluded.a + t.a WHERE t.a < 100 RETURNING id, a`},
		{"insert-or-replace", `INSERT OR REPLACE INTO t (id, a, b) VALUES (1, 0, 'r'), (99, 1, 's')`},
		{"insert-default-values", `INSERT INTO other DEFAULT VALUES`},
		{"update-from", `UPDATE t SET a = f.a, b = f.canary FROM secret AS f WHERE f.id = t.id RETURNING *`},
		{"update-tuple", `UPDATE t SET (a, c) = (SELECT a, id FROM secret WHERE secret.id = t.id) WHERE id < 3`},
		{"delete-returning", `DELETE FROM other AS o WHERE o.id IN (SELECT id FROM secret) RETURNING o.tag AS gone`},
		{"create-table-full", `CREATE TABLE IF NOT EXISTS ct (id INTEGER CONSTRAINT pk PRIMARY KEY DESC ON CONFLICT REPLACE, n TEXT NOT NULL ON CONFLICT IGNORE DEFAULT 'x' COLLATE NOCASE, u INT UNIQUE, k REAL CHECK (k > 0) DEFAULT (1 + 2), g INTEGER GENERATED ALWAYS AS (u * 2) STORED, h AS (u + 1), r INTEGER REFERENCES t (id) ON DELETE CASCADE ON UPDATE SET NULL DEFERRABLE INITIALLY DEFERRED, CONSTRAINT uq UNIQUE (n, u DESC), CHECK (u <> k), FOREIGN KEY (r) REFERENCES other (id))`},
		{"create-table-without-rowid", `CREATE TABLE wr (a TEXT, b INTEGER, PRIMARY KEY (a, b)) WITHOUT ROWID`},
		{"create-table-as", `CREATE TEMP TABLE cta AS SELECT id AS i, canary AS c FROM secret WHERE id > 1`},
		{"default-negative", `CREATE TABLE dn (a INTEGER DEFAULT -1, b REAL DEFAULT +2.5, c TEXT DEFAULT NULL, d DEFAULT TRUE)`},
		{"constraint-named-default", `CREATE TABLE nd (a INTEGER CONSTRAINT dflt DEFAULT 5 CONSTRAINT nn NOT NULL)`},
		{"alter-forms", `ALTER TABLE other ADD COLUMN extra TEXT DEFAULT 'e' COLLATE NOCASE`},
		{"alter-rename-column", `ALTER TABLE other RENAME tag TO "Tag 2"`},
		{"alter-rename-table", `ALTER TABLE other RENAME TO "other 2"`},
		{"alter-drop-column", `ALTER TABLE secret DROP canary`},
		{"create-index-partial", `CREATE UNIQUE INDEX IF NOT EXISTS "ix 1" ON other (tag COLLATE NOCASE DESC, lower(b)) WHERE a IS NOT NULL`},
		{"drop-forms", `DROP INDEX IF EXISTS main.t_a_idx`},
		{"create-view-cols", `CREATE VIEW IF NOT EXISTS nv1 (p, "q r") AS SELECT id, a + 1 FROM t WHERE a > 0`},
		{"drop-view", `DROP VIEW IF EXISTS v_secret`},
		{"comments", "SELECT /* one */ id -- two\nFROM t /* three */ WHERE id = 1;"},
		{"schema-qualified", `SELECT main.t.a, main.t."Mixed Case" FROM main.t`},
		{"star-forms", `SELECT t.*, o.* FROM t JOIN other o ON o.id = t.id`},
		{"exists-forms", `SELECT id FROM t WHERE EXISTS (SELECT 1 FROM secret WHERE secret.a = t.a) AND NOT EXISTS (SELECT 1 FROM other WHERE other.a = t.a)`},
		{"not-forms", `SELECT NOT a IS NULL, NOT a = 10, NOT a BETWEEN 1 AND 15, NOT a IN (10), NOT b LIKE 'a%', NOT NOT a FROM t`},
		{"unary-forms", `SELECT -a, +a, ~a, -(-a), - +a, ~-a, -~a, + +a FROM t`},
	}
}

// binary operators for the enumerated precedence table, with their spelling.
var precOps = []string{"OR", "AND", "=", "==", "<>", "!=", "<", "<=", ">", ">=", "IS", "IS NOT", "&", "|", "<<", ">>", "+", "-", "*", "/", "%", "||"}

// unary / postfix forms crossed with every binary operator.
var precPrefix = []string{"NOT", "-", "+", "~"}
