package sqlchk

// C16 — SQL reformatting preserves statements.
//
// Events: p := sqlparse.New(S); F := p.Format(); p2 := sqlparse.New(F); p2.Format(); execution of S
// and of F on two identical SQLite databases (inside a savepoint that is rolled back afterwards).
// Oracle: New(F) succeeds; the trees are reflect.DeepEqual once every ast.BaseNode span is zeroed
// (a difference made only of ParenExpr wrappers is its own class); Format(F) == F; for SQLite-dialect
// statements that SQLite does not reject as syntax, S and F give the same rows (ordered when the
// statement has a top-level ORDER BY, as a multiset otherwise) or the same error class, and leave
// identical logical snapshots.
import (
	"encoding/json"
	"fmt"
	"reflect"
	"regexp"
	"sort"
	"strings"
	"testing"

	"github.com/tucats/ego/internal/sqlparse"
	"github.com/tucats/ego/internal/sqlparse/ast"
	"github.com/tucats/ego/internal/verifh/vh"
)

type c16Case struct {
	SQL     string `json:"sql"`
	Dialect string `json:"dialect"` // sqlite | postgres
	Origin  string `json:"origin"`  // probe | precedence | random | replay
	Label   string `json:"label,omitempty"`
	Kind    string `json:"kind,omitempty"`
	NoExec  bool   `json:"noexec,omitempty"`
}

type c16 struct {
	r        *vh.Report
	s, f     *Arena
	base     string
	failFeat map[string]bool // features whose probe failed in this run
	t        *testing.T
}

func (c *c16) arenas() {
	if c.s != nil {
		c.s.Close()
	}

	if c.f != nil {
		c.f.Close()
	}

	var err error

	if c.s, err = OpenArena(":memory:", true); err != nil {
		c.t.Fatal(err)
	}

	if c.f, err = OpenArena(":memory:", true); err != nil {
		c.t.Fatal(err)
	}

	c.base = c.s.Snapshot()
	if c.f.Snapshot() != c.base {
		c.t.Fatal("the two arenas differ after creation")
	}

	c.r.Count("arena.rebuilds", 1)
}

var (
	reExpected = regexp.MustCompile(`, expected (.*)$`)
	reSpace    = regexp.MustCompile(`[^A-Za-z0-9_!=<>().:|&+*/%~-]+`)
)

func keyPart(s string) string {
	s = reSpace.ReplaceAllString(strings.TrimSpace(s), "_")
	if len(s) > 80 {
		s = s[:80]
	}

	return s
}

func hasTopOrderBy(st ast.Statement) bool {
	if s, ok := st.(*ast.SelectStmt); ok {
		return len(s.OrderBy) > 0
	}

	return false
}

func multiset(rows []string) []string {
	out := append([]string{}, rows...)
	sort.Strings(out)

	return out
}

// check runs every C16 oracle on one statement. label is the feature / cell name used in keys
// ("" = derive one from the observed difference). tags are the generator's construct tags.
func (c *c16) check(cs c16Case, tags []string) {
	r := c.r
	dialect := sqlparse.SQLite

	if cs.Dialect == "postgres" {
		dialect = sqlparse.PostgreSQL
	}

	p, err := sqlparse.New(cs.SQL, dialect)
	if err != nil {
		r.Eval(vh.Hash(cs.Dialect, cs.SQL), false)
		r.Count("parser.rejected."+cs.Dialect, 1)

		return
	}

	r.Eval(vh.Hash(cs.Dialect, cs.SQL), true)
	r.Count("parser.accepted."+cs.Dialect, 1)
	r.Count("kind."+p.StatementKind().String(), 1)

	label := cs.Label
	if label == "" {
		for _, t := range tags {
			if c.failFeat[t] {
				label = t

				break
			}
		}
	}

	violate := func(class, fallback, desc string, exp, obs any) {
		l := label
		if l == "" {
			l = fallback
		}

		r.Violate(vh.Violation{Key: class + ":" + keyPart(l), Desc: desc, Case: cs, Expected: exp, Observed: obs})

		if cs.Origin == "probe" {
			c.failFeat[cs.Label] = true
		}
	}

	kind := strings.ReplaceAll(strings.ToLower(p.StatementKind().String()), " ", "-")
	F := p.Format()

	// 1. F parses
	p2, err := sqlparse.New(F, dialect)
	r.Count("events.reparse", 1)

	parseOK := true

	if err != nil {
		parseOK = false
		fb := kind

		if m := reExpected.FindStringSubmatch(err.Error()); m != nil {
			fb += ":expected-" + m[1]
		}

		violate("reparse-fail", fb, fmt.Sprintf("Format() output is rejected by the parser: %v", err), "New(Format(S)) succeeds", map[string]any{"formatted": F, "error": err.Error()})
	} else {
		// 2. same tree modulo spans
		a, b := p.Statement(), p2.Statement()
		n := ZeroSpans(a) + ZeroSpans(b)
		r.Count("events.spans_zeroed", int64(n))
		r.Count("events.tree_compare", 1)

		if !reflect.DeepEqual(a, b) {
			parseOK = false
			d := CompareTrees(a, b, false)

			if !d.Differ {
				d = Diff{Site: "deepequal-only", Path: "?"}
			}

			if ds := CompareTrees(a, b, true); !ds.Differ {
				violate("paren-only", d.Site, fmt.Sprintf("re-parsed tree differs only by ParenExpr wrappers at %s", d.Path), d.A, map[string]any{"formatted": F, "got": d.B})
			} else {
				violate("tree", d.Site, fmt.Sprintf("re-parsed tree differs at %s: %s vs %s", d.Path, d.A, d.B), d.A, map[string]any{"formatted": F, "got": d.B, "path": d.Path})
			}
		}

		// 3. idempotence
		r.Count("events.reformat", 1)

		if F2 := p2.Format(); F2 != F {
			parseOK = false

			violate("not-idempotent", kind, "Format(Format(S)) != Format(S)", F, F2)
		}
	}

	// 4. execution (SQLite dialect only)
	if cs.Dialect != "sqlite" || cs.NoExec || p.StatementKind() >= sqlparse.StmtBegin {
		r.Count("exec.skipped."+cs.Dialect, 1)

		return
	}

	os, ok1 := c.s.RunIsolated(cs.SQL, c.base)
	of, ok2 := c.f.RunIsolated(F, c.base)
	r.Count("events.exec_pairs", 1)

	defer func() {
		if !ok1 || !ok2 {
			c.arenas()
		}
	}()

	if os.ErrClass == "harness" || of.ErrClass == "harness" {
		r.Inconcl("savepoint could not be opened: " + os.Err + of.Err)

		return
	}

	if os.ErrClass == "syntax" {
		// SQLite itself rejects S: outside the execution oracle
		r.Count("exec.sqlite_rejects_S", 1)

		return
	}

	if !parseOK {
		// already reported through the tree oracle; the execution difference is the same defect
		r.Count("exec.after_parse_violation", 1)

		return
	}

	obs := map[string]any{"formatted": F, "S": os, "F": of}

	switch {
	case os.Err == "" && of.Err != "":
		violate("exec-diff", "ok-vs-"+of.ErrClass+":"+kind, "S executes, Format(S) fails: "+of.Err, "same outcome", obs)
	case os.Err != "" && of.Err == "":
		violate("exec-diff", os.ErrClass+"-vs-ok:"+kind, "S fails ("+os.Err+"), Format(S) executes", "same outcome", obs)
	case os.Err != "" && os.ErrClass != of.ErrClass:
		violate("exec-diff", "error-class:"+kind, "different error class: "+os.Err+" / "+of.Err, os.ErrClass, obs)
	case os.Err != "":
		r.Count("exec.same_error."+os.ErrClass, 1)
	case os.NCols != of.NCols:
		violate("exec-diff", "ncols:"+kind, "different number of result columns", os.NCols, obs)
	default:
		ordered := hasTopOrderBy(p.Statement())
		rs, rf := os.Rows, of.Rows

		if !ordered {
			rs, rf = multiset(rs), multiset(rf)
		}

		if !reflect.DeepEqual(rs, rf) {
			what := "rows"
			if ordered && reflect.DeepEqual(multiset(rs), multiset(rf)) {
				what = "row-order"
			}

			violate("exec-diff", what+":"+kind, "different result set", rs, obs)
		} else {
			r.Count("exec.same_rows", 1)

			if len(rs) > 0 {
				r.Count("exec.same_rows_nonempty", 1)
			}
		}
	}

	if os.Snapshot != of.Snapshot {
		violate("exec-diff", "snapshot:"+kind, "databases differ after S and Format(S)", firstDiffLine(os.Snapshot, of.Snapshot), obs)
	} else if os.Snapshot != c.base {
		r.Count("exec.same_changed_snapshot", 1)
	}
}

func firstDiffLine(a, b string) string {
	la, lb := strings.Split(a, "\n"), strings.Split(b, "\n")
	for i := 0; i < len(la) && i < len(lb); i++ {
		if la[i] != lb[i] {
			return vh.Trunc(la[i], 300) + "  <>  " + vh.Trunc(lb[i], 300)
		}
	}

	return fmt.Sprintf("%d vs %d lines", len(la), len(lb))
}

func TestC16(t *testing.T) {
	r := vh.New("C16", "reformat")
	r.Rule = "statements from the grammar-driven generator (SELECT/INSERT/UPDATE/DELETE/DDL/txn over the fixed schema, expression torture on) in the SQLite and PostgreSQL flavours, " +
		"one directed probe per generator feature, and the enumerated operator-precedence table; distinct = distinct statement text per dialect; non-trivial = accepted by sqlparse.New"
	r.Assume("modernc SQLite is the execution reference; the snapshot compares object lists, PRAGMA table_xinfo/index_list/index_xinfo/foreign_key_list and all rows, not the CREATE text SQLite stores")
	r.Assume("CHECK / generated-column / partial-index expressions inside stored DDL are covered by the tree oracle only")
	r.Note("PostgreSQL-dialect statements get the parse / tree / idempotence oracles only (no PostgreSQL server here); in particular the printer's always-quote rule for PostgreSQL (a bare Foo is printed \"Foo\", which PostgreSQL folds differently) is out of reach")

	c := &c16{r: r, failFeat: map[string]bool{}, t: t}
	c.arenas()

	defer func() { c.s.Close(); c.f.Close() }()

	if raw := vh.ReplayCase(); raw != nil {
		var cs c16Case
		if err := json.Unmarshal(raw, &cs); err != nil {
			t.Fatal(err)
		}

		cs.Origin = "replay"
		c.check(cs, nil)
		r.Distinct = 2
		_ = r.Write()

		return
	}

	known := vh.KnownKeys("C16")
	avoid := map[string]bool{}

	for k := range known {
		if i := strings.Index(k, ":"); i >= 0 {
			avoid[k[i+1:]] = true
		}
	}

	// 1. directed probes
	for _, pr := range Probes() {
		r.Probe(pr.Feature)
		c.check(c16Case{SQL: pr.SQL, Dialect: "sqlite", Origin: "probe", Label: pr.Feature}, nil)
		c.check(c16Case{SQL: pr.SQL, Dialect: "postgres", Origin: "probe", Label: pr.Feature}, nil)
		r.Count("probes", 1)
	}

	// features whose probes failed but are not (yet) listed as known are kept out of the random stream
	// too: the probe already reports them, and they would otherwise mask other failures there
	for f := range c.failFeat {
		avoid[f] = true
	}

	// 2. enumerated precedence table
	vals := []string{"5", "3", "2"}
	for _, o1 := range precOps {
		for _, o2 := range precOps {
			cell := "binary-precedence:" + strings.ReplaceAll(o1, " ", "_") + "-then-" + strings.ReplaceAll(o2, " ", "_")
			for _, shape := range []string{"%s %s %s %s %s", "(%s %s %s) %s %s", "%s %s (%s %s %s)"} {
				c.check(c16Case{SQL: "SELECT " + fmt.Sprintf(shape, vals[0], o1, vals[1], o2, vals[2]), Dialect: "sqlite", Origin: "precedence", Label: cell}, nil)
				r.Count("precedence.cells", 1)
			}
		}

		for _, u := range precPrefix {
			cell := "unary-precedence:" + u + "-over-" + strings.ReplaceAll(o1, " ", "_")
			for _, shape := range []string{"%s 5 %s 3", "%s (5 %s 3)", "(%s 5) %s 3", "5 %[2]s %[1]s 3"} {
				sql := "SELECT " + fmt.Sprintf(shape, u, o1)
				c.check(c16Case{SQL: sql, Dialect: "sqlite", Origin: "precedence", Label: cell}, nil)
				r.Count("precedence.cells", 1)
			}
		}

		for _, post := range []string{"IS NULL", "NOT BETWEEN 1 AND 4", "IN (3, 5)", "LIKE '5%'", "COLLATE NOCASE", "ISNULL", "NOT IN (1)"} {
			cell := "postfix-precedence:" + strings.ReplaceAll(o1, " ", "_") + "-with-" + strings.ReplaceAll(post, " ", "_")
			for _, shape := range []string{"5 %s 3 %s", "(5 %s 3) %s", "NOT 5 %s 3 %s"} {
				c.check(c16Case{SQL: "SELECT " + fmt.Sprintf(shape, o1, post), Dialect: "sqlite", Origin: "precedence", Label: cell}, nil)
				r.Count("precedence.cells", 1)
			}
		}
	}

	// 3. random stream
	n := vh.N(3000, 200000)
	g := NewGen(vh.Rand("c16-sqlite"))
	g.Avoid = avoid
	g.Torture = true
	gp := NewGen(vh.Rand("c16-postgres"))
	gp.Avoid = avoid
	gp.Torture = true
	gp.PG = true

	for i := 0; i < n; i++ {
		var (
			st Stmt
			d  = "sqlite"
		)

		if i%5 == 4 {
			st, d = gp.Any(), "postgres"
		} else {
			st = g.Any()
		}

		for _, tg := range st.Tags {
			r.Count("construct."+tg, 1)
		}

		before := len(r.Violations)
		c.check(c16Case{SQL: st.SQL, Dialect: d, Origin: "random", Kind: st.Kind, NoExec: st.NoExec}, st.Tags)

		if len(r.Violations) == before && r.Counters["parser.accepted."+d] > 0 && i%(n/6+1) == 7 {
			if p, err := sqlparse.New(st.SQL, sqlparse.SQLite); err == nil {
				r.Sample(map[string]any{"dialect": d, "sql": vh.Trunc(st.SQL, 400), "formatted": vh.Trunc(p.Format(), 400)})
			}
		}
	}

	if r.Counters["events.exec_pairs"] == 0 || r.Counters["events.tree_compare"] == 0 {
		_ = r.Write()
		t.Fatal("observed nothing")
	}

	if err := r.Write(); err != nil {
		t.Fatal(err)
	}
}
