package sqlchk

import (
	"fmt"
	"strings"
)

func (g *Gen) ddlRef(rel, pos string) {
	g.refs = append(g.refs, Ref{Table: rel, Pos: pos, Mode: "ddl"})
}

var conflictActs = []string{"ROLLBACK", "ABORT", "FAIL", "IGNORE", "REPLACE"}

func (g *Gen) onConflictOpt() string {
	if !g.PG && g.p(0.15) {
		g.tag("constraint-on-conflict")
		return " ON CONFLICT " + conflictActs[g.n(len(conflictActs))]
	}

	return ""
}

func (g *Gen) constraintName() string {
	if g.p(0.2) {
		g.tag("constraint-name")
		return "CONSTRAINT " + g.decl(g.newName("k")) + " "
	}

	return ""
}

func (g *Gen) refClause() string {
	g.tag("foreign-key")

	tbl := g.pick("t", "other", "secret")
	if g.ok(FFKQuotedTable) && !g.Plain && g.p(0.1) {
		g.tag(FFKQuotedTable)
		tbl = `"no such tab"`
	}

	s := "REFERENCES " + tbl + g.pick("", " (id)", "(id)")

	if g.p(0.4) {
		s += " ON DELETE " + g.pick("CASCADE", "RESTRICT", "SET NULL", "SET DEFAULT", "NO ACTION")
	}

	if g.p(0.3) {
		s += " ON UPDATE " + g.pick("CASCADE", "RESTRICT", "SET NULL", "NO ACTION")
	}

	if g.p(0.2) {
		s += g.pick(" DEFERRABLE", " NOT DEFERRABLE", " DEFERRABLE INITIALLY DEFERRED", " DEFERRABLE INITIALLY IMMEDIATE")
	}

	return s
}

// columnDef renders a column definition for CREATE TABLE / ADD COLUMN. own are the columns
// defined so far (CHECK / generated expressions may use them).
func (g *Gen) columnDef(name string, own []string, first, addColumn bool) string {
	s := g.decl(name)

	if g.p(0.9) {
		s += " " + typeNames[g.n(len(typeNames))]
	}

	sc := &scope{}
	sc.add("", append(append([]string{}, own...), name))

	if first && !addColumn && g.p(0.6) {
		g.tag("column-primary-key")
		s += " " + g.constraintName() + "PRIMARY KEY" + g.pick("", "", " ASC", " DESC") + g.onConflictOpt()

		return s
	}

	for i, n := 0, g.n(3); i < n; i++ {
		switch g.n(7) {
		case 0:
			if !addColumn || true {
				g.tag("column-default")
				s += " DEFAULT " + g.pick("0", "-1", "+2", "'d'", "NULL", "TRUE", "1.5", "(1 + 2)", "('a' || 'b')", "X'00'", "''")
			}
		case 1:
			if !addColumn {
				g.tag("column-not-null")
				s += " " + g.constraintName() + "NOT NULL" + g.onConflictOpt()
			}
		case 2:
			if !addColumn {
				g.tag("column-unique")
				s += " " + g.constraintName() + "UNIQUE" + g.onConflictOpt()
			}
		case 3:
			g.tag("column-check")
			s += " " + g.constraintName() + "CHECK (" + g.expr(sc, 2) + ")"
		case 4:
			g.tag("column-collate")
			s += " COLLATE " + collations[g.n(len(collations))]
		case 5:
			s += " " + g.constraintName() + g.refClause()
		case 6:
			if len(own) > 0 && !strings.Contains(s, "DEFAULT") && !strings.Contains(s, "GENERATED") && !strings.Contains(s, " AS (") {
				g.tag("column-generated")
				own2 := &scope{}
				own2.add("", own)
				s += g.pick(" GENERATED ALWAYS AS (", " AS (") + g.expr(own2, 1) + ")" + g.pick("", " VIRTUAL", " STORED")

				if addColumn {
					s = strings.TrimSuffix(s, " STORED")
				}

				return s
			}
		}
	}

	return s
}

func (g *Gen) CreateTable(f *Focus) Stmt {
	g.begin(f)

	name := g.newName("nt")
	if g.Plain {
		name = fmt.Sprintf("nt%d", 1+g.n(3))
	}

	g.ddlRef(name, "create-table")

	var b strings.Builder

	b.WriteString(g.pick("CREATE ", "create ", "CREATE "))

	temp := !g.Plain && g.p(0.1)
	if temp {
		g.tag("temp")
		b.WriteString(g.pick("TEMP ", "TEMPORARY "))
	}

	b.WriteString(g.pick("TABLE ", "table "))

	if g.p(0.2) {
		b.WriteString("IF NOT EXISTS ")
	}

	b.WriteString(g.decl(name))

	if g.chance("create-table-as-select", 0.2) {
		g.tag("create-table-as")
		b.WriteString(" AS " + g.selectAs("create-table-as-select"))

		return g.finish("create-table", name, b.String())
	}

	ncol := 1 + g.n(4)
	cols := make([]string, 0, ncol)
	defs := make([]string, 0, ncol+2)

	for i := 0; i < ncol; i++ {
		c := fmt.Sprintf("k%d", i)
		if !g.Plain && g.p(0.15) {
			c = g.newName("k")
		}

		defs = append(defs, g.columnDef(c, cols, i == 0, false))
		cols = append(cols, c)
	}

	hasPK := strings.Contains(defs[0], "PRIMARY KEY")
	sc := &scope{}
	sc.add("", cols)

	for i, n := 0, g.n(3); i < n; i++ {
		switch g.n(4) {
		case 0:
			if !hasPK {
				hasPK = true

				g.tag("table-primary-key")
				defs = append(defs, g.constraintName()+"PRIMARY KEY ("+g.indexCols(cols, false)+")"+g.onConflictOpt())
			}
		case 1:
			g.tag("table-unique")
			defs = append(defs, g.constraintName()+"UNIQUE ("+g.indexCols(cols, false)+")"+g.onConflictOpt())
		case 2:
			g.tag("table-check")
			defs = append(defs, g.constraintName()+"CHECK ("+g.expr(sc, 2)+")")
		case 3:
			defs = append(defs, g.constraintName()+"FOREIGN KEY ("+g.decl(cols[0])+") "+g.refClause())
		}
	}

	b.WriteString(" (" + strings.Join(defs, ", ") + ")")

	if hasPK && !g.PG && g.p(0.15) && !strings.Contains(defs[0], "DESC") {
		g.tag("without-rowid")
		b.WriteString(" WITHOUT ROWID")
	}

	return g.finish("create-table", name, b.String())
}

// selectAs is a SELECT whose result columns are all named (CREATE TABLE AS / CREATE VIEW).
func (g *Gen) selectAs(pos string) string {
	if g.focus != nil {
		rel := g.tableAt(pos)
		c := relCols[rel]

		return "SELECT " + c[0] + " AS c0, " + c[1] + " AS c1, " + c[2] + " AS c2 FROM " + rel
	}

	return g.selectBody(nil, 1+g.n(3), true, true)
}

func (g *Gen) indexCols(cols []string, allowExpr bool) string {
	n := 1 + g.n(2)
	if n > len(cols) {
		n = len(cols)
	}

	start := g.n(len(cols))
	out := make([]string, 0, n)
	seen := map[string]bool{}

	for i := 0; i < n; i++ {
		c := cols[(start+i)%len(cols)]
		if seen[c] {
			continue
		}

		seen[c] = true
		s := g.ident(c)

		if allowExpr && g.p(0.1) {
			g.tag("index-expr")
			s = "lower(" + s + ")"
		}

		if g.p(0.2) {
			g.tag("index-collate")
			s += " COLLATE " + collations[g.n(len(collations))]
		}

		s += g.pick("", "", " ASC", " DESC")
		out = append(out, s)
	}

	return strings.Join(out, ", ")
}

func (g *Gen) DropTable(f *Focus) Stmt {
	g.begin(f)

	name := g.pick("other", "secret", "t", "nosuch")
	if g.focus != nil {
		name = g.focus.Table
		g.focus.used = true
	}

	g.ddlRef(name, "drop-table")

	s := g.pick("DROP TABLE ", "drop table ")
	if g.p(0.3) || name == "nosuch" {
		s += "IF EXISTS "
	}

	s += g.relName(name)

	if g.PG && g.p(0.4) {
		s += g.pick(" CASCADE", " RESTRICT")
	}

	return g.finish("drop-table", name, s)
}

func (g *Gen) AlterTable(f *Focus) Stmt {
	g.begin(f)

	rel := g.pick("t", "other", "secret")
	if g.focus != nil {
		rel = g.focus.Table
		g.focus.used = true
	}

	cols := relCols[rel]
	s := g.pick("ALTER TABLE ", "alter table ") + g.relName(rel) + " "
	pos := ""

	switch k := g.n(4); {
	case k == 0 || (g.focus != nil && g.focus.Pos == "alter-add-column"):
		pos = "alter-add-column"
		s += g.pick("ADD COLUMN ", "ADD ", "add column ") + g.columnDef(g.newName("z"), cols, false, true)
	case k == 1 || (g.focus != nil && g.focus.Pos == "alter-drop-column"):
		pos = "alter-drop-column"
		// last column: not indexed, not used by a view
		s += g.pick("DROP COLUMN ", "DROP ") + g.ident(cols[len(cols)-1])
	case k == 2 || (g.focus != nil && g.focus.Pos == "alter-rename-column"):
		pos = "alter-rename-column"
		s += g.pick("RENAME COLUMN ", "RENAME ") + g.ident(cols[len(cols)-1]) + " TO " + g.decl(g.newName("rc"))
	default:
		pos = "alter-rename-table"
		s += "RENAME TO " + g.decl(g.newName("rt"))
	}

	g.ddlRef(rel, pos)

	return g.finish("alter-table", rel, s)
}

func (g *Gen) CreateIndex(f *Focus) Stmt {
	g.begin(f)

	rel := g.pick("t", "other", "secret")
	if g.focus != nil {
		rel = g.focus.Table
		g.focus.used = true
	}

	g.ddlRef(rel, "create-index")

	name := g.newName("ix")
	s := g.pick("CREATE ", "create ")

	if g.p(0.2) {
		g.tag("unique-index")
		s += "UNIQUE "
	}

	s += g.pick("INDEX ", "index ")
	if g.p(0.2) {
		s += "IF NOT EXISTS "
	}

	tbl := g.ident(rel)
	if g.Plain {
		tbl = rel
	}

	s += g.decl(name) + " ON " + tbl + g.pick(" (", "(") + g.indexCols(relCols[rel], !g.PG) + ")"

	if g.p(0.25) {
		g.tag("partial-index")

		sc := &scope{}
		sc.add("", relCols[rel])
		s += " WHERE " + g.ident(relCols[rel][1]) + " " + g.pick("IS NOT NULL", "> 0", "<> 'x'", "BETWEEN 1 AND 20", "IN (1, 2, 3)")
	}

	return g.finish("create-index", rel, s)
}

func (g *Gen) DropIndex(f *Focus) Stmt {
	g.begin(f)

	name := g.pick("t_a_idx", "other_tag_idx", "t_b_u", "nosuch_idx")
	owner := map[string]string{"t_a_idx": "t", "other_tag_idx": "other", "t_b_u": "t", "nosuch_idx": ""}[name]

	if g.focus != nil {
		name, owner = "other_tag_idx", "other"
		if g.focus.Table == "t" {
			name, owner = "t_a_idx", "t"
		}

		g.focus.used = true
	}

	if owner != "" {
		g.ddlRef(owner, "drop-index")
	}

	s := g.pick("DROP INDEX ", "drop index ")
	if g.p(0.3) || owner == "" {
		s += "IF EXISTS "
	}

	if !g.Plain && !g.PG && g.p(0.2) {
		s += "main."
	}

	s += g.ident(name)

	return g.finish("drop-index", owner, s)
}

func (g *Gen) CreateView(f *Focus) Stmt {
	g.begin(f)

	name := g.newName("nv")
	g.ddlRef(name, "create-view")

	s := g.pick("CREATE ", "create ")

	if g.PG && g.p(0.3) {
		g.tag("or-replace")
		s += "OR REPLACE "
	}

	if !g.Plain && g.p(0.15) {
		g.tag("temp")
		s += g.pick("TEMP ", "TEMPORARY ")
	}

	s += g.pick("VIEW ", "view ")
	if !g.PG && g.p(0.2) {
		s += "IF NOT EXISTS "
	}

	s += g.decl(name)

	body := g.selectAs("create-view-body")
	if g.focus == nil && g.p(0.25) && g.lastCols > 0 && !strings.Contains(body, "UNION") && !strings.Contains(body, "EXCEPT") && !strings.Contains(body, "INTERSECT") && !strings.Contains(strings.ToUpper(body), "UNION ALL") {
		g.tag("view-columns")

		names := make([]string, g.lastCols)
		for i := range names {
			names[i] = g.decl(fmt.Sprintf("vc%d", i))
		}

		s += " (" + strings.Join(names, ", ") + ")"
	}

	s += g.pick(" AS ", " as ") + body

	return g.finish("create-view", name, s)
}

func (g *Gen) DropView(f *Focus) Stmt {
	g.begin(f)

	name := g.pick("v_secret", "v_t", "nosuch_v")
	if g.focus != nil {
		name = "v_secret"
		g.focus.used = true
	}

	g.ddlRef(name, "drop-view")

	s := g.pick("DROP VIEW ", "drop view ")
	if g.p(0.3) || name == "nosuch_v" {
		s += "IF EXISTS "
	}

	s += g.ident(name)

	if g.PG && g.p(0.4) {
		s += g.pick(" CASCADE", " RESTRICT")
	}

	return g.finish("drop-view", name, s)
}

func (g *Gen) Txn() Stmt {
	g.begin(nil)
	g.noexec = true
	s := g.pick("BEGIN", "BEGIN TRANSACTION", "BEGIN DEFERRED", "BEGIN IMMEDIATE TRANSACTION", "BEGIN EXCLUSIVE", "begin work", "COMMIT", "COMMIT TRANSACTION", "END", "END TRANSACTION",
		"ROLLBACK", "ROLLBACK TRANSACTION", "ROLLBACK TO sp1", "ROLLBACK TO SAVEPOINT sp1", "rollback transaction to savepoint \"sp 1\"", "SAVEPOINT sp1", "SAVEPOINT \"sp 1\"", "RELEASE sp1", "RELEASE SAVEPOINT sp1", "savepoint [from]")

	return g.finish("txn", "", s)
}

// Any generates one statement of a randomly chosen kind.
func (g *Gen) Any() Stmt {
	var st Stmt

	switch k := g.n(100); {
	case k < 40:
		st = g.Select(nil)
	case k < 52:
		st = g.Insert(nil)
	case k < 64:
		st = g.Update(nil)
	case k < 72:
		st = g.Delete(nil)
	case k < 80:
		st = g.CreateTable(nil)
	case k < 83:
		st = g.DropTable(nil)
	case k < 88:
		st = g.AlterTable(nil)
	case k < 92:
		st = g.CreateIndex(nil)
	case k < 94:
		st = g.DropIndex(nil)
	case k < 97:
		st = g.CreateView(nil)
	case k < 99:
		st = g.DropView(nil)
	default:
		st = g.Txn()
	}

	if !g.Plain && g.p(0.1) {
		st.SQL += g.pick(";", " ;", ";\n")
	}

	return st
}
