package sqlchk

import (
	"fmt"
	"strings"
)

// tableAt chooses the relation for a table-reference position and records the reference.
func (g *Gen) tableAt(pos string) string {
	rel := "t"

	if g.focus != nil {
		if !g.focus.used && g.focus.Pos == pos {
			g.focus.used = true
			rel = g.focus.Table
		}
	} else {
		rel = relations[g.n(len(relations))]
	}

	g.refs = append(g.refs, Ref{Table: rel, Pos: pos, Mode: "read"})
	if _, isView := viewOf[rel]; isView {
		g.tag("view-read")
	}

	return rel
}

func (g *Gen) focusAt(pos string) bool {
	return g.focus != nil && !g.focus.used && g.focus.Pos == pos
}

// chance is p in random mode and "is this the focus position" in focus mode.
func (g *Gen) chance(pos string, p float64) bool {
	if g.focus != nil {
		return g.focusAt(pos)
	}

	return g.p(p)
}

func (g *Gen) relName(rel string) string {
	if g.Plain {
		return rel
	}

	if g.p(0.1) && !g.PG {
		g.tag("schema-qualified")
		return "main." + g.ident(rel)
	}

	return g.ident(rel)
}

// fromItem renders one table-or-subquery and adds it to sc.
func (g *Gen) fromItem(sc *scope, pos string, n int) string {
	if g.chance("from-subquery", 0.12) {
		rel := g.tableAt("from-subquery")
		alias := fmt.Sprintf("q%d", n)
		inner := &scope{}
		inner.add(rel, relCols[rel])
		g.tag("from-subquery")

		cols := relCols[rel]
		q := "(SELECT " + g.pick("*", g.ident(cols[0])+", "+g.ident(cols[1])+", "+g.ident(cols[2])) + " FROM " + g.relName(rel)

		if g.p(0.4) {
			q += " WHERE " + g.expr(inner, 1)
		}

		q += ")" + g.pick(" AS ", " ") + alias

		if strings.Contains(q, "SELECT *") {
			sc.add(alias, relCols[rel])
		} else {
			sc.add(alias, cols[:3])
		}

		return q
	}

	rel := g.tableAt(pos)
	alias := ""

	if g.p(0.5) || sc.has(rel) {
		alias = fmt.Sprintf("%s%d", rel[:1], n)
	}

	s := g.relName(rel)

	if alias != "" {
		g.tag("table-alias")
		s += g.pick(" AS ", " ") + alias
		sc.add(alias, relCols[rel])
	} else {
		sc.add(rel, relCols[rel])
	}

	if rel == "t" && !g.Plain && !g.PG && g.p(0.06) {
		g.tag("indexed-by")
		s += g.pick(" INDEXED BY t_a_idx", " NOT INDEXED")
	}

	return s
}

func (sc *scope) has(name string) bool {
	for _, s := range sc.srcs {
		if s.alias == name {
			return true
		}
	}

	return false
}

var joinKinds = []string{"JOIN", "INNER JOIN", "LEFT JOIN", "LEFT OUTER JOIN", "CROSS JOIN", "join", "RIGHT JOIN", "FULL OUTER JOIN"}

// from renders a FROM list and returns the scope it makes visible.
func (g *Gen) from(outer *scope) (string, *scope) {
	sc := &scope{outer: outer}

	var b strings.Builder

	b.WriteString(g.fromItem(sc, "from", 0))

	n := 0
	if g.focus == nil {
		n = []int{0, 0, 0, 1, 1, 2}[g.n(6)]
	} else if g.focusAt("join") || g.focusAt("subquery-in-join-on") || g.focusAt("join-paren") || g.focusAt("from-comma") {
		n = 1
	}

	for i := 1; i <= n; i++ {
		if g.chance("from-comma", 0.15) {
			b.WriteString(", " + g.fromItem(sc, "from-comma", i))
			g.tag("from-comma")

			continue
		}

		if g.ok(FJoinParen) && g.chance("join-paren", 0.05) {
			// a JOIN (b JOIN c ON ...) ON ...
			g.tag(FJoinParen)
			l := g.fromItem(sc, "join-paren", i)
			r := g.fromItem(sc, "join-paren", i+10)
			b.WriteString(" " + g.pick("LEFT JOIN", "JOIN") + " (" + l + g.pick(" CROSS JOIN ", " JOIN ") + r + ") ON " + g.expr(sc, 1))

			continue
		}

		kind := joinKinds[g.n(len(joinKinds))]
		if g.focus != nil {
			kind = g.pick("JOIN", "LEFT JOIN", "INNER JOIN")
		}
		before := len(sc.srcs)
		item := g.fromItem(sc, "join", i)
		b.WriteString(" " + kind + " " + item)
		g.tag("join")

		switch {
		case strings.HasPrefix(strings.ToUpper(kind), "CROSS"):
		case g.focus == nil && g.p(0.2) && before == 1:
			// USING (id): both sides have id; the merged column can not be qualified afterwards,
			// so keep qualified references to the other columns only
			g.tag("join-using")
			b.WriteString(" USING (" + g.ident("id") + ")")

			for k := range sc.srcs {
				sc.srcs[k].cols = without(sc.srcs[k].cols, "id")
			}
		default:
			b.WriteString(" ON " + g.hole(sc, "join-on", 1))
		}
	}

	return b.String(), sc
}

func without(xs []string, x string) []string {
	out := make([]string, 0, len(xs))

	for _, v := range xs {
		if v != x {
			out = append(out, v)
		}
	}

	return out
}

// selectBody renders a complete SELECT (no trailing semicolon). cols>0 forces that many result
// columns, each aliased when named is set (needed for CREATE TABLE AS / CREATE VIEW).
func (g *Gen) selectBody(outer *scope, cols int, named bool, top bool) string {
	var b strings.Builder

	cteScope := []source{}

	if top && g.chance("cte-body", 0.12) {
		g.tag("cte")

		rel := g.tableAt("cte-body")
		name := "cte1"
		c := relCols[rel]
		b.WriteString(g.pick("WITH ", "with ", "WITH RECURSIVE ") + name)

		if g.p(0.5) {
			g.tag("cte-columns")
			b.WriteString(" (x, y)")
			cteScope = append(cteScope, source{name, []string{"x", "y"}})
			b.WriteString(" AS (SELECT " + g.ident(c[0]) + ", " + g.ident(c[1]) + " FROM " + g.relName(rel) + ") ")
		} else {
			cteScope = append(cteScope, source{name, []string{c[0], c[1]}})
			b.WriteString(" AS (SELECT " + g.ident(c[0]) + ", " + g.ident(c[1]) + " FROM " + g.relName(rel) + ") ")
		}
	}

	b.WriteString(g.selectCore(outer, cols, named, cteScope))

	if cols == 0 {
		cols = g.lastCols
	}

	if cols > 0 && g.chance("compound-right", 0.12) {
		g.tag("compound")

		for i, n := 0, 1+g.n(2); i < n; i++ {
			rel := g.tableAt("compound-right")
			c := relCols[rel]
			list := make([]string, cols)

			for k := range list {
				list[k] = g.ident(c[k%len(c)])
			}

			b.WriteString(" " + g.pick("UNION", "UNION ALL", "EXCEPT", "INTERSECT", "union all") + " SELECT " + strings.Join(list, ", ") + " FROM " + g.relName(rel))

			if g.focus != nil {
				break
			}
		}

		if g.p(0.5) {
			b.WriteString(" ORDER BY 1" + g.pick("", " DESC", " ASC"))
			g.tag("order-by")
		}

		return b.String()
	}

	if g.chance("subquery-in-order-by", 0.4) || (g.focus == nil && g.p(0.2)) {
		g.tag("order-by")

		terms := []string{}

		for i, n := 0, 1+g.n(2); i < n; i++ {
			var t string
			if g.lastAgg {
				t = fmt.Sprint(1 + g.n(cols))
			} else {
				// an ORDER BY term without a column is read by SQLite as a result-column number
				// after its own constant folding; keep a column in every term
				t = g.column(&scope{srcs: g.lastScope.srcs})
				if g.focus != nil || g.p(0.5) {
					t += " " + g.pick("+", "-", "||", "*") + " (" + g.hole(g.lastScope, "order-by", 1) + ")"
				}
			}

			if g.p(0.2) && !g.lastAgg {
				t += " COLLATE NOCASE"
			}

			t += g.pick("", "", " ASC", " DESC", " desc")

			if g.p(0.15) {
				g.tag("nulls-order")
				t += g.pick(" NULLS FIRST", " NULLS LAST")
			}

			terms = append(terms, t)
		}

		b.WriteString(" ORDER BY " + strings.Join(terms, ", "))
	}

	if g.chance("subquery-in-limit", 0.25) {
		g.tag("limit")

		if rel, ok := g.wantSub("limit"); ok {
			b.WriteString(" LIMIT (" + g.subSelect(nil, rel, "subquery-in-limit", "scalarcount") + ")")
		} else {
			switch g.n(3) {
			case 0:
				b.WriteString(" LIMIT " + g.pick("1", "3", "100"))
			case 1:
				b.WriteString(" LIMIT " + g.pick("2", "5") + " OFFSET " + g.pick("0", "1", "2"))
			default:
				g.tag("limit-comma")
				b.WriteString(" LIMIT " + g.pick("0", "1") + ", " + g.pick("2", "4"))
			}
		}
	}

	return b.String()
}

// selectCore renders SELECT ... FROM ... WHERE ... GROUP BY ... HAVING.
func (g *Gen) selectCore(outer *scope, cols int, named bool, ctes []source) string {
	var b strings.Builder

	fromText, sc := g.from(outer)

	for _, c := range ctes {
		if g.p(0.7) {
			fromText += g.pick(" JOIN ", ", ") + c.alias
			sc.add(c.alias, c.cols)
			g.refs = append(g.refs, Ref{Table: c.alias, Pos: "cte-ref", Mode: "cte"})
		}
	}

	agg := g.focus == nil && g.p(0.2) || g.focusAt("subquery-in-having") || g.focusAt("subquery-in-group-by")
	g.lastAgg = agg
	g.lastScope = sc

	b.WriteString(g.pick("SELECT", "select", "SELECT") + " ")

	if g.p(0.1) {
		g.tag("distinct")
		b.WriteString(g.pick("DISTINCT ", "ALL "))
	}

	n := cols
	if n == 0 {
		n = 1 + g.n(3)
	}

	g.lastCols = n

	list := make([]string, n)

	var groupCol string

	if agg {
		groupCol = g.column(&scope{srcs: sc.srcs})
	}

	for i := range list {
		var e string

		switch {
		case agg && i == 0:
			e = groupCol
		case agg:
			e = g.aggCall(sc, 1)
		case g.focus == nil && cols == 0 && n == 1 && g.p(0.15):
			g.tag("star")
			e = "*"

			if len(sc.srcs) > 0 && sc.srcs[0].alias != "" && g.p(0.4) {
				e = g.ident(sc.srcs[0].alias) + ".*"
			}

			g.lastCols = -1
		default:
			e = g.hole(sc, "select-list", 1+g.n(2))
		}

		if e != "*" && !strings.HasSuffix(e, ".*") && (named || g.p(0.3)) {
			name := fmt.Sprintf("c%d", i)
			if !named {
				name = g.newName("c")
			}

			e += g.pick(" AS ", " AS ", " as ") + g.decl(name)
			g.tag("alias")
		}

		list[i] = e
	}

	b.WriteString(strings.Join(list, ", "))
	b.WriteString(" FROM " + fromText)

	if g.chance("subquery-in-where", 0.7) {
		b.WriteString(" WHERE " + g.hole(sc, "where", 2))
	}

	if agg {
		g.tag("group-by")
		b.WriteString(" GROUP BY " + groupCol)

		if g.focusAt("subquery-in-group-by") || (g.focus == nil && g.p(0.1)) {
			b.WriteString(", " + g.column(&scope{srcs: sc.srcs}) + " + (" + g.hole(sc, "group-by", 1) + ")")
		}

		if g.chance("subquery-in-having", 0.5) {
			g.tag("having")

			if rel, ok := g.wantSub("having"); ok {
				b.WriteString(" HAVING count(*) " + g.pick(">", "<=", "<>") + " (" + g.subSelect(sc, rel, "subquery-in-having", "scalar") + ")")
			} else {
				b.WriteString(" HAVING " + g.aggCall(sc, 1) + " " + cmpOps[g.n(len(cmpOps))] + " " + g.literal())
			}
		}
	}

	return b.String()
}

// Select generates a SELECT statement.
func (g *Gen) Select(f *Focus) Stmt {
	g.begin(f)
	sql := g.selectBody(nil, 0, false, true)

	return g.finish("select", "", sql)
}
