package crash

// Two more families of generated programs for C07.
//
//  1. Composite literals with the wrong shape for user-declared types: too many /
//     too few / no values, mixed positional and named, duplicate and unknown field
//     names, nested literals with wrong arity, array literals longer than a declared
//     size, map literals with duplicate or missing keys/values.
//  2. Concurrency crash shapes with real goroutines: close of a channel a sender is
//     parked on, double close, send after close, receive racing close, negative
//     WaitGroup counter, Unlock of an unlocked mutex (also from another goroutine),
//     a goroutine that panics while main waits, @wait with goroutines blocked forever.
//
// Every one of them must end as an Ego error, program output or a timeout.

import (
	"fmt"
	"math/rand"
	"strings"
)

const shapePrelude = `import "fmt"

type Point struct {
 x int
 y int
}

type Line struct {
 a Point
 b Point
}

type Named struct {
 name string
 tags []string
 m map[string]int
}

func take(p Point) int {
 return p.x
}

func main() {
`

// shapeStatements are the directed composite-literal shapes (each becomes one program).
var shapeStatements = []string{
	// positional struct literals: arity
	"p := Point{1, 2, 3}\n fmt.Println(p)",
	"p := Point{1}\n fmt.Println(p)",
	"p := Point{}\n fmt.Println(p)",
	"p := Point{1, 2, 3, 4, 5, 6, 7, 8}\n fmt.Println(p)",
	"p := Point{1, 2,}\n fmt.Println(p)",
	"p := Point{,}\n fmt.Println(p)",
	"p := Point{1, 2}{3}\n fmt.Println(p)",
	// mixed positional / named, duplicates, unknown
	"p := Point{x: 1, 2}\n fmt.Println(p)",
	"p := Point{1, y: 2}\n fmt.Println(p)",
	"p := Point{x: 1, x: 2}\n fmt.Println(p)",
	"p := Point{x: 1, y: 2, x: 3}\n fmt.Println(p)",
	"p := Point{z: 1}\n fmt.Println(p)",
	"p := Point{x: 1, y: 2, z: 3}\n fmt.Println(p)",
	"p := Point{x: \"s\", y: nil}\n fmt.Println(p)",
	"p := Point{x: Point{1, 2}}\n fmt.Println(p)",
	"p := Point{x:}\n fmt.Println(p)",
	"p := Point{: 1}\n fmt.Println(p)",
	"p := Point{1: 2}\n fmt.Println(p)",
	"p := Point{\"x\": 1}\n fmt.Println(p)",
	"p := Point{x: 1, y}\n fmt.Println(p)",
	// wrong value kinds positionally
	"p := Point{\"a\", \"b\"}\n fmt.Println(p)",
	"p := Point{[]int{1}, map[string]int{}}\n fmt.Println(p)",
	"p := Point{nil, nil, nil}\n fmt.Println(p)",
	"p := Point{int, string}\n fmt.Println(p)",
	// pointers and derefs of literals
	"p := &Point{1, 2, 3}\n fmt.Println(p)",
	"p := &Point{z: 1}\n fmt.Println(p.z)",
	"p := *Point{1, 2}\n fmt.Println(p)",
	// nested structs
	"l := Line{Point{1, 2, 3}, Point{}}\n fmt.Println(l)",
	"l := Line{Point{1, 2}, Point{3, 4}, Point{5, 6}}\n fmt.Println(l)",
	"l := Line{{1, 2}, {3, 4}, {5, 6}}\n fmt.Println(l)",
	"l := Line{a: {1, 2, 3}}\n fmt.Println(l)",
	"l := Line{a: Point{1}, b: {x: 1, x: 2}}\n fmt.Println(l)",
	"l := Line{a: 1, b: 2}\n fmt.Println(l)",
	"l := Line{Point{1, 2}}\n fmt.Println(l.b.y)",
	"l := Line{a: Line{}}\n fmt.Println(l)",
	"l := Line{a: {a: {a: {1}}}}\n fmt.Println(l)",
	// struct with slice and map fields
	"n := Named{\"n\", []string{\"a\"}, map[string]int{\"a\": 1}, 4}\n fmt.Println(n)",
	"n := Named{\"n\"}\n fmt.Println(n.tags[0], n.m[\"a\"])",
	"n := Named{tags: {1, 2}}\n fmt.Println(n)",
	"n := Named{m: {\"a\"}}\n fmt.Println(n)",
	"n := Named{m: {\"a\": 1, \"a\": 2}}\n fmt.Println(n)",
	"n := Named{name: Point{1, 2}}\n fmt.Println(n)",
	"n := Named{tags: []string{\"a\"}, tags: []string{\"b\"}}\n fmt.Println(n)",
	"n := Named{\"n\", 1, 2}\n fmt.Println(n)",
	// arrays of structs, maps of structs
	"a := []Point{{1, 2, 3}}\n fmt.Println(a)",
	"a := []Point{{1}, {x: 1, x: 2}, {}}\n fmt.Println(a)",
	"a := []Point{1, 2}\n fmt.Println(a)",
	"a := []Point{{1, 2}, 3}\n fmt.Println(a)",
	"a := []Point{Line{}}\n fmt.Println(a)",
	"a := []*Point{{1, 2, 3}}\n fmt.Println(a)",
	"m := map[string]Point{\"a\": {1, 2, 3}}\n fmt.Println(m)",
	"m := map[string]Point{\"a\": {1, 2}, \"a\": {3, 4}}\n fmt.Println(m)",
	"m := map[Point]int{{1, 2}: 1, {1, 2, 3}: 2}\n fmt.Println(m)",
	// map literals: duplicate / missing keys and values
	"m := map[string]int{\"a\": 1, \"a\": 2}\n fmt.Println(m)",
	"m := map[int]string{1: \"x\", 1: \"y\", 1: \"z\"}\n fmt.Println(m)",
	"m := map[string]int{\"a\"}\n fmt.Println(m)",
	"m := map[string]int{\"a\":}\n fmt.Println(m)",
	"m := map[string]int{: 1}\n fmt.Println(m)",
	"m := map[string]int{\"a\": 1, 2}\n fmt.Println(m)",
	"m := map[string]int{1, 2, 3}\n fmt.Println(m)",
	"m := map[string]int{\"a\": 1: 2}\n fmt.Println(m)",
	"m := map[string]int{nil: 1}\n fmt.Println(m)",
	"m := map[string]int{\"a\": nil}\n fmt.Println(m)",
	"m := map[string]map[string]int{\"a\": {\"b\"}}\n fmt.Println(m)",
	"m := map[string][]int{\"a\": {1, 2}, \"a\": 3}\n fmt.Println(m)",
	"m := map[]int{}\n fmt.Println(m)",
	"m := map[string]{\"a\": 1}\n fmt.Println(m)",
	// arrays with a declared size
	"a := [2]int{1, 2, 3}\n fmt.Println(a)",
	"var a [2]int = [2]int{1, 2, 3}\n fmt.Println(a)",
	"var a [2]int\n a = []int{1, 2, 3}\n fmt.Println(a)",
	"a := [0]int{1}\n fmt.Println(a)",
	"a := [-1]int{}\n fmt.Println(a)",
	"a := [2]Point{{1, 2}, {3, 4}, {5, 6}}\n fmt.Println(a)",
	"a := [...]int{1, 2}\n fmt.Println(a)",
	"a := [2][2]int{{1, 2, 3}, {4}}\n fmt.Println(a)",
	"a := [9223372036854775807]int{1}\n fmt.Println(len(a))",
	"a := [\"x\"]int{1}\n fmt.Println(a)",
	"a := [3]int{5: 1}\n fmt.Println(a)",
	"a := []int{5: 1}\n fmt.Println(a)",
	"a := []int{1: 2, 1: 3}\n fmt.Println(a)",
	"a := []int{-1: 2}\n fmt.Println(a)",
	"type Fixed [2]int\n f := Fixed{1, 2, 3}\n fmt.Println(f)",
	"type Fixed []int\n f := Fixed{}\n f[2] = 1\n fmt.Println(f)",
	"type Fixed []int\n var f Fixed = []string{\"a\"}\n fmt.Println(f)",
	// nested array literals with the wrong depth
	"a := [][]int{{1}, {2, 3}, 4}\n fmt.Println(a)",
	"a := [][]int{1}\n fmt.Println(a)",
	"a := []int{{1}}\n fmt.Println(a)",
	"a := [][][]int{{{1}}, {2}}\n fmt.Println(a)",
	"a := []int{1, \"a\", nil, 2.5, {3}}\n fmt.Println(a)",
	// anonymous structs
	"s := struct{ a int }{1, 2}\n fmt.Println(s)",
	"s := struct{ a int }{b: 1}\n fmt.Println(s)",
	"s := {a: 1, a: 2}\n fmt.Println(s)",
	"s := {a: 1, 2}\n fmt.Println(s)",
	"s := {1, 2}\n fmt.Println(s)",
	"s := {a: {b: {c: }}}\n fmt.Println(s)",
	// use sites
	"fmt.Println(take(Point{1, 2, 3}))",
	"fmt.Println(take({1, 2, 3}))",
	"fmt.Println(take(Point{}))",
	"fmt.Println(take(Line{}))",
	"fmt.Println(Point{1, 2, 3}.x)",
	"fmt.Println(Point{1, 2}.z)",
	"fmt.Println(Point{1, 2}.x.y)",
	"fmt.Println([]Point{{1, 2}}[1].x)",
	"fmt.Println(Point([]int{1, 2, 3}))",
	"fmt.Println(Point(1, 2, 3))",
	"fmt.Println(Point{1, 2} == Point{1, 2, 3})",
	"p := Point{1, 2}\n p = Point{1, 2, 3}\n fmt.Println(p)",
	"p := Point{1, 2}\n p.z = 3\n fmt.Println(p)",
	"p := Point{1, 2}\n p = Line{}\n fmt.Println(p)",
	"var p Point = {1, 2, 3}\n fmt.Println(p)",
	"var p Point = Line{}\n fmt.Println(p)",
	"var p *Point = &Line{}\n fmt.Println(p)",
	"for i, v := range Point{1, 2, 3} {\n  fmt.Println(i, v)\n }",
	"type Q struct {\n  a int\n  a int\n }\n q := Q{1, 2}\n fmt.Println(q)",
	"type R struct {\n }\n r := R{1}\n fmt.Println(r)",
	"type S struct {\n  p Point\n  s S\n }\n s := S{{1, 2}, {{3, 4}, {}}}\n fmt.Println(s)",
	"type U []Point\n u := U{{1, 2, 3}, {4}}\n fmt.Println(u)",
	"type V map[string]Point\n v := V{\"a\": {1, 2, 3}, \"a\": {}}\n fmt.Println(v)",
}

func shapeProgram(stmt string) string {
	return shapePrelude + " " + stmt + "\n}\n"
}

// shapeRandom builds a literal of random (mostly wrong) shape for one of the declared types.
func shapeRandom(rng *rand.Rand) (string, string) {
	type tdesc struct {
		name   string
		fields []string
	}

	types := []tdesc{{"Point", []string{"x", "y"}}, {"Line", []string{"a", "b"}}, {"Named", []string{"name", "tags", "m"}}}

	var lit func(depth int) string

	scalar := func() string {
		return []string{"1", "-2", "\"s\"", "nil", "true", "2.5", "int", "[]int{1}", "map[string]int{\"k\": 1}", "Point{1, 2}", "&Point{}", "take", "fmt"}[rng.Intn(13)]
	}

	lit = func(depth int) string {
		t := types[rng.Intn(len(types))]
		n := rng.Intn(len(t.fields) + 3)

		var parts []string

		for i := 0; i < n; i++ {
			val := scalar()
			if depth < 3 && rng.Intn(3) == 0 {
				val = lit(depth + 1)
			}

			switch rng.Intn(5) {
			case 0, 1: // positional
				parts = append(parts, val)
			case 2: // named, known (possibly duplicate)
				parts = append(parts, t.fields[rng.Intn(len(t.fields))]+": "+val)
			case 3: // named, unknown
				parts = append(parts, []string{"z", "X", "_", "len", "x.y", "0"}[rng.Intn(6)]+": "+val)
			default: // element of a brace-only literal
				parts = append(parts, "{"+val+"}")
			}
		}

		prefix := t.name
		switch rng.Intn(8) {
		case 0:
			prefix = ""
		case 1:
			prefix = "&" + t.name
		case 2:
			prefix = "[]" + t.name
		case 3:
			prefix = "map[string]" + t.name
		case 4:
			prefix = fmt.Sprintf("[%d]%s", rng.Intn(3), t.name)
		}

		return prefix + "{" + strings.Join(parts, ", ") + "}"
	}

	stmt := "v := " + lit(0) + "\n fmt.Println(v)"

	return shapeProgram(stmt), "shape:random"
}

// ---------------------------------------------------------------- concurrency

const concPrelude = `import "fmt"
import "sync"
import "time"

func nap(ms string) {
 d, _ := time.ParseDuration(ms)
 time.Sleep(d)
}

`

// concPrograms are the directed concurrency crash shapes. CAP is replaced by a channel capacity, N by a count.
var concPrograms = []struct{ name, body string }{
	{"close-while-sender-parked", `func sender(c chan, done chan) {
 c <- 1
 c <- 2
 c <- 3
 done <- true
}
func main() {
 c := make(chan, CAP)
 done := make(chan, 1)
 go sender(c, done)
 nap("30ms")
 close(c)
 nap("30ms")
 fmt.Println("closed")
}
`},
	{"close-while-many-senders-parked", `func sender(c chan, v int) {
 c <- v
}
func main() {
 c := make(chan, CAP)
 for k := 0; k < N; k = k + 1 {
  go sender(c, k)
 }
 nap("30ms")
 close(c)
 nap("30ms")
 fmt.Println("closed")
}
`},
	{"double-close", `func main() {
 c := make(chan, CAP)
 close(c)
 close(c)
 fmt.Println("twice")
}
`},
	{"double-close-from-goroutines", `func closer(c chan, wg *sync.WaitGroup) {
 close(c)
 wg.Done()
}
func main() {
 c := make(chan, CAP)
 var wg sync.WaitGroup
 wg.Add(N)
 for k := 0; k < N; k = k + 1 {
  go closer(c, &wg)
 }
 wg.Wait()
 fmt.Println("closed")
}
`},
	{"send-after-close", `func main() {
 c := make(chan, CAP)
 close(c)
 c <- 1
 fmt.Println("sent")
}
`},
	{"send-after-close-from-goroutine", `func sender(c chan, done chan) {
 nap("20ms")
 c <- 1
 done <- true
}
func main() {
 c := make(chan, CAP)
 done := make(chan, 1)
 go sender(c, done)
 close(c)
 nap("60ms")
 fmt.Println("main done")
}
`},
	{"receive-racing-close", `func closer(c chan) {
 close(c)
}
func main() {
 for k := 0; k < N; k = k + 1 {
  c := make(chan, CAP)
  go closer(c)
  x := <-c
  fmt.Println(x)
 }
}
`},
	{"receive-from-closed", `func main() {
 c := make(chan, CAP)
 close(c)
 x := <-c
 y := <-c
 fmt.Println(x, y)
}
`},
	{"range-over-channel-closed-late", `func producer(c chan) {
 for k := 0; k < N; k = k + 1 {
  c <- k
 }
 close(c)
 c <- 99
}
func main() {
 c := make(chan, CAP)
 go producer(c)
 for v := range c {
  fmt.Println(v)
 }
 nap("20ms")
}
`},
	{"close-nil-channel", `func main() {
 var c chan
 close(c)
 fmt.Println("x")
}
`},
	{"send-on-nil-channel-in-goroutine", `func sender(c chan) {
 c <- 1
}
func main() {
 var c chan
 go sender(c)
 nap("30ms")
 fmt.Println("x")
}
`},
	{"close-non-channel", `func main() {
 x := 1
 close(x)
 close(fmt)
 close(nil)
}
`},
	{"waitgroup-negative", `func main() {
 var wg sync.WaitGroup
 wg.Done()
 fmt.Println("done")
}
`},
	{"waitgroup-negative-add", `func main() {
 var wg sync.WaitGroup
 wg.Add(1)
 wg.Add(-N)
 wg.Wait()
 fmt.Println("done")
}
`},
	{"waitgroup-negative-in-goroutines", `func w(wg *sync.WaitGroup) {
 wg.Done()
 wg.Done()
}
func main() {
 var wg sync.WaitGroup
 wg.Add(N)
 for k := 0; k < N; k = k + 1 {
  go w(&wg)
 }
 wg.Wait()
 nap("30ms")
 fmt.Println("done")
}
`},
	{"waitgroup-add-during-wait", `func w(wg *sync.WaitGroup) {
 wg.Add(1)
 wg.Done()
 wg.Done()
}
func main() {
 var wg sync.WaitGroup
 wg.Add(1)
 go w(&wg)
 wg.Wait()
 wg.Add(1)
 go w(&wg)
 wg.Wait()
 fmt.Println("done")
}
`},
	{"unlock-unlocked", `func main() {
 var mu sync.Mutex
 mu.Unlock()
 fmt.Println("unlocked")
}
`},
	{"unlock-twice", `func main() {
 var mu sync.Mutex
 mu.Lock()
 mu.Unlock()
 mu.Unlock()
 fmt.Println("unlocked")
}
`},
	{"unlock-from-other-goroutine", `func u(mu *sync.Mutex, done chan) {
 mu.Unlock()
 mu.Unlock()
 done <- true
}
func main() {
 var mu sync.Mutex
 done := make(chan, 1)
 mu.Lock()
 go u(&mu, done)
 x := <-done
 fmt.Println(x)
}
`},
	{"unlock-unlocked-in-goroutines", `func u(mu *sync.Mutex, wg *sync.WaitGroup) {
 mu.Unlock()
 wg.Done()
}
func main() {
 var mu sync.Mutex
 var wg sync.WaitGroup
 wg.Add(N)
 for k := 0; k < N; k = k + 1 {
  go u(&mu, &wg)
 }
 wg.Wait()
 fmt.Println("done")
}
`},
	{"mutex-copied-and-unlocked", `func main() {
 var mu sync.Mutex
 mu.Lock()
 m2 := mu
 m2.Unlock()
 m2.Unlock()
 mu.Unlock()
 fmt.Println("done")
}
`},
	{"rwmutex-misuse", `func main() {
 var mu sync.RWMutex
 mu.RUnlock()
 mu.Unlock()
 fmt.Println("done")
}
`},
	{"goroutine-panics-while-main-waits", `func bad(wg *sync.WaitGroup) {
 panic("boom in goroutine")
 wg.Done()
}
func main() {
 var wg sync.WaitGroup
 wg.Add(1)
 go bad(&wg)
 nap("40ms")
 fmt.Println("main still here")
}
`},
	{"goroutine-panics-main-blocked", `func bad(c chan) {
 panic("boom")
}
func main() {
 c := make(chan, CAP)
 go bad(c)
 x := <-c
 fmt.Println(x)
}
`},
	{"goroutine-runtime-error-main-blocked", `func bad(c chan) {
 a := []int{1}
 j := 5
 c <- a[j]
}
func main() {
 c := make(chan, CAP)
 for k := 0; k < N; k = k + 1 {
  go bad(c)
 }
 x := <-c
 fmt.Println(x)
}
`},
	{"goroutine-nil-deref-and-type-crash", `func bad(p *int, c chan) {
 c <- *p + int
}
func main() {
 c := make(chan, 1)
 var p *int
 go bad(p, c)
 nap("30ms")
 fmt.Println("x")
}
`},
	{"closure-goroutines-panic", `func main() {
 c := make(chan, N)
 for k := 0; k < N; k = k + 1 {
  go func(v int, cc chan) {
   if v % 2 == 0 {
    panic("even")
   }
   cc <- v
  }(k, c)
 }
 nap("40ms")
 fmt.Println("done", c)
}
`},
	{"wait-directive-blocked-forever", `func stuck(c chan) {
 x := <-c
 fmt.Println(x)
}
func main() {
 c := make(chan, CAP)
 for k := 0; k < N; k = k + 1 {
  go stuck(c)
 }
 @wait
 fmt.Println("never")
}
`},
	{"wait-directive-after-panic", `func bad() {
 panic("x")
}
func main() {
 go bad()
 go bad()
 @wait
 fmt.Println("after wait")
}
`},
	{"wait-directive-no-goroutines", `func main() {
 @wait
 @wait
 fmt.Println("ok")
}
`},
	{"deadlock-all-asleep", `func main() {
 c := make(chan, 0)
 c <- 1
 fmt.Println("never")
}
`},
	{"mutex-deadlock-two-goroutines", `func l(a *sync.Mutex, b *sync.Mutex, wg *sync.WaitGroup) {
 a.Lock()
 nap("10ms")
 b.Lock()
 b.Unlock()
 a.Unlock()
 wg.Done()
}
func main() {
 var m1 sync.Mutex
 var m2 sync.Mutex
 var wg sync.WaitGroup
 wg.Add(2)
 go l(&m1, &m2, &wg)
 go l(&m2, &m1, &wg)
 wg.Wait()
}
`},
	{"go-non-function", `func main() {
 x := 1
 go x()
 nap("10ms")
 fmt.Println("a")
}
`},
	{"go-nil-function", `func main() {
 var f func()
 go f()
 go nil()
 nap("10ms")
 fmt.Println("a")
}
`},
	{"go-package-and-literal", `func main() {
 go fmt
 go func() {}
 nap("10ms")
}
`},
	{"go-with-wrong-args", `func w(a int, b string) {
 fmt.Println(a, b)
}
func main() {
 go w()
 go w(1, 2, 3)
 go w("a", 1)
 nap("20ms")
}
`},
	{"channel-of-channels-closed", `func main() {
 cc := make(chan, 1)
 c := make(chan, 1)
 cc <- c
 close(c)
 d := <-cc
 close(d)
 d <- 1
}
`},
	{"make-chan-bad-size", `func main() {
 a := make(chan, -1)
 b := make(chan, "x")
 c := make(chan, 9223372036854775807)
 fmt.Println(a, b, c)
}
`},
	{"shared-map-written-by-goroutines", `func w(m map[string]int, k int, wg *sync.WaitGroup) {
 for j := 0; j < 200; j = j + 1 {
  m[fmt.Sprintf("k%d", j)] = k
 }
 wg.Done()
}
func main() {
 m := map[string]int{}
 var wg sync.WaitGroup
 wg.Add(N)
 for k := 0; k < N; k = k + 1 {
  go w(m, k, &wg)
 }
 wg.Wait()
 fmt.Println(len(m))
}
`},
	{"shared-array-appended-by-goroutines", `func w(a *[]int, k int, wg *sync.WaitGroup) {
 for j := 0; j < 200; j = j + 1 {
  *a = append(*a, k)
 }
 wg.Done()
}
func main() {
 a := []int{}
 var wg sync.WaitGroup
 wg.Add(N)
 for k := 0; k < N; k = k + 1 {
  go w(&a, k, &wg)
 }
 wg.Wait()
 fmt.Println(len(a) > 0)
}
`},
}

func concProgram(i int, capacity, n int) string {
	b := concPrograms[i].body
	b = strings.ReplaceAll(b, "CAP", fmt.Sprint(capacity))
	b = strings.ReplaceAll(b, "N;", fmt.Sprint(n)+";")
	b = strings.ReplaceAll(b, "(N)", "("+fmt.Sprint(n)+")")
	b = strings.ReplaceAll(b, "-N)", "-"+fmt.Sprint(n)+")")
	b = strings.ReplaceAll(b, ", N)", ", "+fmt.Sprint(n)+")")

	return concPrelude + b
}

func concRandom(rng *rand.Rand) (string, string) {
	i := rng.Intn(len(concPrograms))

	return concProgram(i, rng.Intn(3), 1+rng.Intn(6)), "conc:" + concPrograms[i].name
}
