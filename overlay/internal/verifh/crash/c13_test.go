package crash

// C13 — `ego test` isolates each test.
//
// Generated test files (3–12 @test blocks of known kinds) are run through the
// REAL `ego test <file>` process. Events: the "TEST: <name> ... (PASS|FAIL)" status
// lines, the "Error: at <where>(line N)" lines, and the exit status. Oracle
// (docs/internals/TESTING.md, "@test"): every block before the first @fail is
// reported exactly once, in file order, with the outcome known by construction;
// the process exits 0 iff every block passes; the "Completed a total of N tests, F failed" line counts every prescribed test.

import (
	"context"
	"encoding/json"
	"fmt"
	"math/rand"
	"os"
	"os/exec"
	"path/filepath"
	"regexp"
	"sort"
	"strconv"
	"strings"
	"sync"
	"testing"
	"time"

	"github.com/tucats/ego/internal/verifh/vh"
)

type c13Block struct {
	Name    string `json:"name"`
	Kind    string `json:"kind"`    // pass | assert | runtime | infunc | nocompile | opentry | fail
	Variant string `json:"variant"` // template inside the kind
	Expect  string `json:"expect"`  // PASS | FAIL | STOP
	Brace   int    `json:"brace"`   // net '{' minus '}' of the block's text (0 = balanced)
	First   int    `json:"first"`   // first and last line (1-based) of the block in the file
	Last    int    `json:"last"`
	Fn      string `json:"fn,omitempty"` // name of a function the error is raised in
}

type c13File struct {
	Blocks []c13Block `json:"blocks"`
	Text   string     `json:"text"`
}

// variants per kind: body lines (inside the test's own braces unless raw).
type c13Variant struct {
	kind, name string
	expect     string
	brace      int
	raw        bool   // lines replace the whole "{ ... }" body
	pre        bool   // uses the file-scope declarations of the preamble (fsv_<salt> ...), which c13Build then emits
	needs      string // name of a variant that must appear LATER in the file (appended by c13Build if missing)
	lines      func(i int) []string
}

func c13Variants() []c13Variant {
	v := func(kind, name, expect string, brace int, lines func(i int) []string) c13Variant {
		return c13Variant{kind: kind, name: name, expect: expect, brace: brace, lines: lines}
	}

	return []c13Variant{
		v("pass", "assert", "PASS", 0, func(i int) []string { return []string{"x := 1", "@assert x == 1"} }),
		v("pass", "loop", "PASS", 0, func(i int) []string {
			return []string{"s := 0", "for k := 0; k < 5; k = k + 1 {", "    s = s + k", "}", "@assert s == 10"}
		}),
		v("pass", "output", "PASS", 0, func(i int) []string { return []string{fmt.Sprintf("fmt.Println(\"out-%d\")", i), "@assert true"} }),
		v("pass", "caught", "PASS", 0, func(i int) []string {
			return []string{"ok := false", "try {", "    a := []int{1}", "    j := 3", "    a[j] = 2", "} catch (e) {", "    ok = (e != nil)", "}", "@assert ok"}
		}),
		v("pass", "func", "PASS", 0, func(i int) []string {
			return []string{fmt.Sprintf("func fn_%d(a int) int {", i), "    return a + 1", "}", fmt.Sprintf("@assert fn_%d(1) == 2", i)}
		}),
		v("pass", "return-in-try", "PASS", 0, func(i int) []string {
			return []string{"z := 1", "try {", "    if z == 1 {", "        return", "    }", "} catch (e) {", "    fmt.Println(e)", "}"}
		}),

		v("assert", "plain", "FAIL", 0, func(i int) []string { return []string{"x := 1", "@assert x == 2"} }),
		v("assert", "nested", "FAIL", 0, func(i int) []string {
			return []string{"x := 1", "if x == 1 {", "    for k := 0; k < 3; k = k + 1 {", "        @assert k < 1", "    }", "}"}
		}),
		v("assert", "after-output", "FAIL", 0, func(i int) []string { return []string{fmt.Sprintf("fmt.Println(\"out-%d\")", i), "@assert 1 == 2"} }),

		v("runtime", "index", "FAIL", 0, func(i int) []string { return []string{"a := []int{1, 2}", "j := 5", "b := a[j]", "fmt.Println(b)"} }),
		v("runtime", "divzero", "FAIL", 0, func(i int) []string { return []string{"a := 0", "b := 10 / a", "fmt.Println(b)"} }),
		v("runtime", "error-directive", "FAIL", 0, func(i int) []string { return []string{fmt.Sprintf("@error \"custom-%d\"", i)} }),
		v("runtime", "in-loop", "FAIL", 0, func(i int) []string {
			return []string{"a := []int{1, 2, 3}", "for k := 0; k < 10; k = k + 1 {", "    a[k] = k", "}"}
		}),

		v("infunc", "named", "FAIL", 0, func(i int) []string {
			return []string{fmt.Sprintf("func fn_%d(a []int, j int) int {", i), "    return a[j]", "}", fmt.Sprintf("v := fn_%d([]int{1}, 4)", i), "fmt.Println(v)"}
		}),
		v("infunc", "two-deep", "FAIL", 0, func(i int) []string {
			return []string{fmt.Sprintf("func fn_%d(d int) int {", i), "    z := 0", "    return d / z", "}",
				fmt.Sprintf("func fo_%d(d int) int {", i), fmt.Sprintf("    return fn_%d(d) + 1", i), "}", fmt.Sprintf("v := fo_%d(3)", i), "fmt.Println(v)"}
		}),
		v("infunc", "closure", "FAIL", 0, func(i int) []string {
			return []string{"f := func(a []int) int {", "    j := 9", "    return a[j]", "}", "v := f([]int{1})", "fmt.Println(v)"}
		}),

		v("nocompile", "double-assign", "FAIL", 0, func(i int) []string { return []string{"x := := 3"} }),
		v("nocompile", "unknown-stmt", "FAIL", 0, func(i int) []string { return []string{"pring \"this is a typo\""} }),
		v("nocompile", "unclosed-paren", "FAIL", 0, func(i int) []string { return []string{"y := (1 + 2", "@assert y == 3"} }),
		v("nocompile", "stray-else", "FAIL", 0, func(i int) []string { return []string{"else {", "}"} }),
		v("nocompile", "missing-operand", "FAIL", 0, func(i int) []string { return []string{"y := 1 +", "@assert y == 1"} }),
		v("nocompile", "bad-for", "FAIL", 0, func(i int) []string { return []string{"for ; ; ; {", "}"} }),
		// unbalanced braces: these could swallow the next @test
		v("nocompile", "missing-close-brace", "FAIL", +1, func(i int) []string { return []string{"x := 3", "if x == 3 {", "    x = 4", "@assert x == 4"} }),
		v("nocompile", "unclosed-func-literal", "FAIL", +1, func(i int) []string { return []string{"f := func( {", "@assert f == nil"} }),
		v("nocompile", "extra-close-brace", "FAIL", -1, func(i int) []string { return []string{"y := 2", "}", "@assert y == 2"} }),
		v("nocompile", "missing-open-brace", "FAIL", -1, func(i int) []string { return []string{"x := 1", "if x == 1", "    x = 2 }", "@assert x == 2"} }),

		// file-scope declarations whose ONLY uses are inside a test that does not compile (the uses come before the syntax error)
		{kind: "nocompile", name: "uses-filescope-then-syntax-error", expect: "FAIL", pre: true, lines: func(i int) []string {
			n := i / 100
			return []string{fmt.Sprintf("q := fsv_%d + fsw_%d + fsc_%d + fsf_%d(1)", n, n, n, n), fmt.Sprintf("r := fst_%d{a: q}", n), "fmt.Println(q, r)", "x := := 3"}
		}},
		{kind: "nocompile", name: "uses-filescope-then-unknown-stmt", expect: "FAIL", pre: true, lines: func(i int) []string {
			n := i / 100
			return []string{fmt.Sprintf("@assert fsf_%d(fsv_%d) == 11", n, n), fmt.Sprintf("fsw_%d = fsc_%d", n, n), fmt.Sprintf("r := fst_%d{a: 1}", n), "fmt.Println(r)", "pring \"typo after the uses\""}
		}},
		// a test that declares a type / func / const and then fails to compile; a LATER test declares the same names
		{kind: "nocompile", name: "declares-then-syntax-error", expect: "FAIL", needs: "redeclares-same-names", lines: func(i int) []string {
			return []string{"type dupT struct {", "    a int", "}", "func dupF(a int) int {", "    return a", "}", "const dupC = 3", "y := dupF(dupC)", "fmt.Println(y, dupT{a: 1})", "pring \"typo after the declarations\""}
		}},
		{kind: "pass", name: "redeclares-same-names", expect: "PASS", lines: func(i int) []string {
			return []string{"type dupT struct {", "    b string", "}", "func dupF(a int) int {", "    return a * 2", "}", "const dupC = 4", "v := dupT{b: \"x\"}", "@assert dupF(dupC) == 8", "@assert v.b == \"x\""}
		}},

		// the GENERIC panic error raised while it is catchable: bare @error, throw errors.New("panic"), argument-count failures
		v("runtime", "bare-error-directive", "FAIL", 0, func(i int) []string { return []string{"x := 1", "fmt.Println(x)", "@error"} }),
		v("runtime", "throw-panic-key", "FAIL", 0, func(i int) []string { return []string{"throw errors.New(\"panic\")"} }),
		v("runtime", "throw-panic-key-from-func-result", "FAIL", 0, func(i int) []string {
			return []string{fmt.Sprintf("func fn_%d() error {", i), "    return errors.New(\"panic\")", "}", fmt.Sprintf("throw fn_%d()", i)}
		}),
		v("runtime", "builtin-argcount", "FAIL", 0, func(i int) []string {
			return []string{"s := \"abc\"", "n := strings.ToUpper(s, s, s)", "fmt.Println(n)"}
		}),
		v("runtime", "builtin-argcount-none", "FAIL", 0, func(i int) []string { return []string{"n := strings.Repeat()", "fmt.Println(n)"} }),
		v("infunc", "bare-error-in-func", "FAIL", 0, func(i int) []string {
			return []string{fmt.Sprintf("func fn_%d(a int) int {", i), "    if a > 0 {", "        @error", "    }", "    return a", "}", fmt.Sprintf("v := fn_%d(3)", i), "fmt.Println(v)"}
		}),
		v("infunc", "argcount-in-func", "FAIL", 0, func(i int) []string {
			return []string{fmt.Sprintf("func fn_%d(a int, b int) int {", i), "    return a + b", "}", fmt.Sprintf("v := fn_%d(1)", i), "fmt.Println(v)"}
		}),
		v("opentry", "bare-error-in-try-rethrown-bare", "FAIL", 0, func(i int) []string {
			return []string{"try {", "    @error", "} catch (e) {", "    fmt.Println(e)", "    @error", "}"}
		}),
		v("opentry", "throw-panic-key-in-nested-try", "FAIL", 0, func(i int) []string {
			return []string{"try {", "    try {", "        throw errors.New(\"panic\")", "    } catch (e1) {", "        fmt.Println(e1)", "        throw e1", "    }", "} catch (e2) {", "    fmt.Println(e2)", "    @error", "}"}
		}),
		v("pass", "bare-error-caught-by-user-try", "PASS", 0, func(i int) []string {
			return []string{"ok := false", "try {", "    @error", "} catch (e) {", "    ok = (e != nil)", "}", "@assert ok"}
		}),
		v("pass", "throw-panic-key-caught-by-user-try", "PASS", 0, func(i int) []string {
			return []string{"ok := false", "try {", "    throw errors.New(\"panic\")", "} catch (e) {", "    ok = (e != nil)", "}", "@assert ok"}
		}),

		v("opentry", "error-in-catch", "FAIL", 0, func(i int) []string {
			return []string{"try {", "    z := 1", "    @assert z == 2", "} catch (e) {", "    k := []int{1}", "    q := 7", "    fmt.Println(e, k[q])", "}"}
		}),
		v("opentry", "nested-inner-catch", "FAIL", 0, func(i int) []string {
			return []string{"try {", "    try {", fmt.Sprintf("        @error \"inner-%d\"", i), "    } catch (e1) {", "        @assert e1 == nil", "    }", "} catch (e2) {", "    fmt.Println(e2)", "    @assert false", "}"}
		}),
		v("opentry", "fail-in-func-in-try-rethrown", "FAIL", 0, func(i int) []string {
			return []string{fmt.Sprintf("func fn_%d() int {", i), "    a := []int{1}", "    j := 2", "    return a[j]", "}", "try {", fmt.Sprintf("    fmt.Println(fn_%d())", i), "} catch (e) {",
				fmt.Sprintf("    @error \"rethrown-%d \" + e.Error()", i), "}"}
		}),

		v("fail", "fail", "STOP", 0, func(i int) []string { return []string{fmt.Sprintf("@fail \"stop-%d\"", i)} }),
		v("fail", "fail-in-try", "STOP", 0, func(i int) []string {
			return []string{"try {", fmt.Sprintf("    @fail \"stop-in-try-%d\"", i), "} catch (e) {", "    fmt.Println(e)", "}"}
		}),
	}
}

func swallowKey(brace int) string {
	if brace > 0 {
		return "swallowed-after:unclosed-brace"
	}

	return "swallowed-after:extra-close-brace"
}

// c13Generate builds one file. avoid lists violation keys of known findings whose
// constructs stay out of the main stream.
func c13Generate(rng *rand.Rand, avoid map[string]bool, vars []c13Variant) c13File {
	n := 3 + rng.Intn(10)

	// kind weights: every file gets a mix; @fail is rare and never first
	kinds := []string{"pass", "pass", "pass", "assert", "assert", "runtime", "runtime", "infunc", "nocompile", "nocompile", "nocompile", "opentry", "fail"}
	byKind := map[string][]c13Variant{}

	for _, v := range vars {
		if v.brace != 0 && avoid[swallowKey(v.brace)] {
			continue
		}

		byKind[v.kind] = append(byKind[v.kind], v)
	}

	var chosen []c13Variant

	for i := 0; i < n; i++ {
		k := kinds[rng.Intn(len(kinds))]
		if k == "fail" && (i < 2 || rng.Intn(3) > 0) {
			k = "pass"
		}

		l := byKind[k]
		chosen = append(chosen, l[rng.Intn(len(l))])
	}

	return c13Build(chosen, rng.Intn(1000))
}

func c13Build(chosen []c13Variant, salt int) c13File {
	var (
		f     c13File
		lines []string
	)

	// a variant that needs a later partner gets it appended if the PRNG did not put one after it
	for i := 0; i < len(chosen); i++ {
		if chosen[i].needs == "" {
			continue
		}

		found := false

		for _, w := range chosen[i+1:] {
			if w.name == chosen[i].needs {
				found = true
			}
		}

		if !found {
			for _, w := range c13Variants() {
				if w.name == chosen[i].needs {
					chosen = append(append([]c13Variant{}, chosen...), w)
				}
			}
		}
	}

	// file-scope preamble (before the first @test) when some block uses it; its only uses are in non-compiling tests
	for _, v := range chosen {
		if v.pre {
			n := salt
			lines = append(lines, fmt.Sprintf("fsv_%d := 10", n), fmt.Sprintf("var fsw_%d int = 2", n), fmt.Sprintf("const fsc_%d = 7", n),
				fmt.Sprintf("type fst_%d struct {", n), "    a int", "}", fmt.Sprintf("func fsf_%d(a int) int {", n), "    return a + 1", "}", "")

			break
		}
	}

	for i, v := range chosen {
		name := fmt.Sprintf("b%02d_%s_%s_%d", i, v.kind, strings.ReplaceAll(v.name, "-", ""), salt)
		if len(name) > 46 {
			name = name[:46]
		}

		b := c13Block{Name: name, Kind: v.kind, Variant: v.name, Expect: v.expect, Brace: v.brace, First: len(lines) + 1}
		uid := salt*100 + i
		body := v.lines(uid)

		for _, l := range body {
			if strings.HasPrefix(l, "func fn_") {
				b.Fn = fmt.Sprintf("fn_%d", uid)
			}
		}

		lines = append(lines, fmt.Sprintf("@test %q", name), "{")
		for _, l := range body {
			lines = append(lines, "    "+l)
		}

		lines = append(lines, "}")
		b.Last = len(lines)
		lines = append(lines, "")
		f.Blocks = append(f.Blocks, b)
	}

	f.Text = strings.Join(lines, "\n") + "\n"

	return f
}

var (
	reStatus  = regexp.MustCompile(`^TEST: (\S+)\s+\((PASS|FAIL)\)`)
	reErrAt   = regexp.MustCompile(`^\s*Error: at ([^\s(]+)\(line (\d+)(?::\d+)?\)`)
	reErrAny  = regexp.MustCompile(`^\s*Error: `)
	reSummary = regexp.MustCompile(`(?m)^TEST: Completed(?: a total of (\d+))? tests(?:, (\d+) failed)?`)
)

type c13Event struct {
	Kind string // status | error
	Name string // test name (status) or location (error)
	Res  string // PASS/FAIL
	Line int
	Text string
}

type c13Run struct {
	Stdout, Stderr string
	Exit           int
	TimedOut       bool
}

func c13Exec(ego, dir, file string) c13Run {
	ctx, cancel := context.WithTimeout(context.Background(), time.Duration(envInt("VERIF_C13_WATCHDOG_S", 300))*time.Second)
	defer cancel()

	cmd := exec.CommandContext(ctx, ego, "test", file)
	cmd.Dir = dir
	cmd.Env = append(filterEnv(os.Environ(), "HOME", "EGO_PATH", "GOTRACEBACK"), "HOME="+os.Getenv("VERIF_HOME"), "GOTRACEBACK=single")
	cmd.WaitDelay = 3 * time.Second

	var out, errb strings.Builder

	cmd.Stdout, cmd.Stderr = &out, &errb
	err := cmd.Run()

	r := c13Run{Stdout: out.String(), Stderr: errb.String(), TimedOut: ctx.Err() != nil}
	if err != nil {
		r.Exit = -1
		if cmd.ProcessState != nil {
			r.Exit = cmd.ProcessState.ExitCode()
		}
	}

	return r
}

type c13Finding struct {
	Key, Desc string
	Block     *c13Block
}

// c13Judge applies the oracle to one run.
func c13Judge(f *c13File, run c13Run) (findings []c13Finding, nStatus, nErr int) {
	add := func(key, desc string, b *c13Block) {
		findings = append(findings, c13Finding{Key: key, Desc: desc, Block: b})
	}

	if k := fatalKey(run.Stderr + "\n" + run.Stdout); k != "" {
		add("go-crash:"+strings.TrimPrefix(strings.TrimPrefix(k, "panic:"), "fatal:"), "ego test died with a Go crash: "+k, nil)

		return
	}

	var events []c13Event

	for _, ln := range strings.Split(run.Stdout, "\n") {
		if m := reStatus.FindStringSubmatch(ln); m != nil {
			events = append(events, c13Event{Kind: "status", Name: m[1], Res: m[2], Text: ln})
			nStatus++
		} else if m := reErrAt.FindStringSubmatch(ln); m != nil {
			n, _ := strconv.Atoi(m[2])
			events = append(events, c13Event{Kind: "error", Name: m[1], Line: n, Text: ln})
			nErr++
		} else if reErrAny.MatchString(ln) {
			events = append(events, c13Event{Kind: "error", Name: "?", Text: ln})
			nErr++
		}
	}

	// blocks that must be reported: all before the first @fail
	stop := len(f.Blocks)

	for i, b := range f.Blocks {
		if b.Expect == "STOP" {
			stop = i

			break
		}
	}

	byName := map[string]int{}
	for i := range f.Blocks {
		byName[f.Blocks[i].Name] = i
	}

	statusAt := make([][]int, len(f.Blocks)) // event indexes of status lines per block
	errAt := make([][]int, len(f.Blocks))    // event indexes of error lines attributable to the block

	for ei, e := range events {
		switch e.Kind {
		case "status":
			if bi, ok := byName[e.Name]; ok {
				statusAt[bi] = append(statusAt[bi], ei)
			} else {
				add("unexpected-status-line", "status line for a test that is not in the file: "+e.Text, nil)
			}
		case "error":
			for bi := range f.Blocks {
				b := &f.Blocks[bi]
				if (e.Line >= b.First && e.Line <= b.Last) || (b.Fn != "" && (e.Name == b.Fn || e.Name == "fo_"+strings.TrimPrefix(b.Fn, "fn_"))) {
					errAt[bi] = append(errAt[bi], ei)

					break
				}
			}
		}
	}

	lastPos := -1
	swallower := -1 // index of the unbalanced block that explains the current run of missing blocks

	for bi := 0; bi < stop; bi++ {
		b := &f.Blocks[bi]

		switch len(statusAt[bi]) {
		case 1:
			ei := statusAt[bi][0]
			if events[ei].Res != b.Expect {
				add(fmt.Sprintf("wrong-outcome:%s:%s", b.Kind, events[ei].Res), fmt.Sprintf("block %s (%s/%s) reported %s, expected %s", b.Name, b.Kind, b.Variant, events[ei].Res, b.Expect), b)
			}

			if ei < lastPos {
				add("order", fmt.Sprintf("block %s reported before an earlier block", b.Name), b)
			}

			lastPos = ei
			swallower = -1
		case 0:
			switch {
			case len(errAt[bi]) > 0 && b.Expect == "FAIL" && b.Kind != "nocompile":
				// the error of this block was printed at its place, but the "(FAIL)" status line is missing
				ei := errAt[bi][0]
				if ei < lastPos {
					add("order", fmt.Sprintf("error line of block %s printed before an earlier block's report", b.Name), b)
				}

				lastPos = ei
				swallower = -1

				add("status-line-missing:runtime-fail", fmt.Sprintf("block %s (%s/%s) failed at run time: its error line is printed (%q) but no \"TEST: %s ... (FAIL)\" status line", b.Name, b.Kind, b.Variant, strings.TrimSpace(events[ei].Text), b.Name), b)
			default:
				// not reported at all: explained by an earlier unbalanced block?
				if swallower < 0 {
					for j := bi - 1; j >= 0; j-- {
						if len(statusAt[j]) > 0 || len(errAt[j]) > 0 {
							if f.Blocks[j].Brace != 0 {
								swallower = j
							}

							break
						}
					}
				}

				if swallower >= 0 {
					s := &f.Blocks[swallower]
					add(swallowKey(s.Brace), fmt.Sprintf("block %s (%s/%s, expected %s) was never reported: it follows block %s (%s) whose braces do not balance", b.Name, b.Kind, b.Variant, b.Expect, s.Name, s.Variant), b)
				} else {
					add("not-reported:"+b.Kind, fmt.Sprintf("block %s (%s/%s, expected %s) was never reported", b.Name, b.Kind, b.Variant, b.Expect), b)
				}
			}
		default:
			add("duplicate:"+b.Kind, fmt.Sprintf("block %s reported %d times", b.Name, len(statusAt[bi])), b)
			lastPos = statusAt[bi][len(statusAt[bi])-1]
			swallower = -1
		}
	}

	// summary line: "TEST: Completed a total of N tests, F failed in ..." must count every prescribed test.
	// Only claimed when every block's outcome is prescribed and reachable: no @fail block and no unbalanced-brace block.
	prescribed := true
	wantN, wantF := 0, 0

	for _, b := range f.Blocks {
		if b.Expect == "STOP" || b.Brace != 0 {
			prescribed = false
		}

		wantN++

		if b.Expect == "FAIL" {
			wantF++
		}
	}

	if prescribed {
		if m := reSummary.FindStringSubmatch(run.Stdout); m == nil {
			add("summary:missing", "no \"TEST: Completed ...\" summary line", nil)
		} else {
			gotN, gotF := 0, 0
			if m[1] != "" {
				gotN, _ = strconv.Atoi(m[1])
			}

			if m[2] != "" {
				gotF, _ = strconv.Atoi(m[2])
			}

			if gotN != wantN {
				add("summary:total-mismatch", fmt.Sprintf("summary counts %d tests, the file has %d @test blocks", gotN, wantN), nil)
			}

			if gotF != wantF {
				add("summary:failed-mismatch", fmt.Sprintf("summary counts %d failed tests, %d blocks fail by construction", gotF, wantF), nil)
			}
		}
	}

	// exit status
	wantFail := false
	for _, b := range f.Blocks {
		if b.Expect != "PASS" {
			wantFail = true
		}
	}

	if wantFail && run.Exit == 0 {
		add("exit-status:zero-with-failures", "ego test exited 0 although the file contains a failing test", nil)
	}

	if !wantFail && run.Exit != 0 {
		add("exit-status:nonzero-all-pass", fmt.Sprintf("ego test exited %d although every test passes", run.Exit), nil)
	}

	return findings, nStatus, nErr
}

func TestC13(t *testing.T) {
	r := vh.New("C13", "isolation")
	r.Rule = "files of 3-12 @test blocks drawn by PRNG from 48 templates of 7 kinds (incl. the generic panic error raised while catchable: bare @error in the body / in a called function / in a user try, throw errors.New(`panic`), argument-count failures) (some files start with file-scope var/const/type/func declarations whose only uses are inside tests that do not compile; some tests declare a type/func/const before their syntax error and a later test declares the same names) (pass, assert, runtime, infunc, nocompile, opentry, fail) run by the real `ego test`; " +
		"distinct = distinct sequence of (kind, variant); non-trivial = at least one failing block followed by at least one more block before any @fail."
	r.Assume("TESTING.md: each @test up to the next @test is compiled and guarded independently; a failure prints a (FAIL) status line followed by the error; only @fail stops the run")
	r.Assume("the outcome of each template alone is what its construction says; this is checked by running every template in a file of its own (calibration)")

	defer func() { _ = r.Write() }()

	ego := filepath.Join(os.Getenv("VERIF_BIN"), "ego")
	if _, err := os.Stat(ego); err != nil {
		t.Fatalf("no ego binary at %s", ego)
	}

	arena := os.Getenv("VERIF_ARENA")
	if arena == "" {
		arena, _ = os.MkdirTemp("", "c13-arena-")
	}

	dir := filepath.Join(arena, "c13")
	_ = os.RemoveAll(dir)

	if err := os.MkdirAll(dir, 0o755); err != nil {
		t.Fatal(err)
	}

	vars := c13Variants()
	known := vh.KnownKeys("C13")

	var mu sync.Mutex

	sampled := 0

	evaluate := func(id string, f *c13File, origin string) {
		file := filepath.Join(dir, id+".ego")
		if err := os.WriteFile(file, []byte(f.Text), 0o644); err != nil {
			t.Error(err)

			return
		}

		run := c13Exec(ego, dir, file)

		mu.Lock()
		defer mu.Unlock()

		if run.TimedOut {
			r.Inconcl("ego test " + id + " exceeded the per-process watchdog (not a verdict)")
			r.Count("processes.watchdog", 1)

			return
		}

		findings, nStatus, nErr := c13Judge(f, run)

		var seq []string

		nontrivial := false
		sawFail := false

		for _, b := range f.Blocks {
			seq = append(seq, b.Kind+"/"+b.Variant)

			if b.Expect == "STOP" {
				break
			}

			if sawFail {
				nontrivial = true
			}

			if b.Expect == "FAIL" {
				sawFail = true
			}

			r.Count("blocks."+b.Kind, 1)
		}

		r.Eval(strings.Join(seq, ","), nontrivial)
		r.Count("events.status_lines", int64(nStatus))
		r.Count("events.error_lines", int64(nErr))
		r.Count("processes", 1)
		r.Count("origin."+origin, 1)

		if len(findings) == 0 {
			r.Count("files.conforming", 1)
			_ = os.Remove(file)
		}

		for _, fd := range findings {
			r.Violate(vh.Violation{Key: fd.Key, Desc: fd.Desc + " [" + origin + "]", Case: f, Expected: "every block before the first @fail reported once, in order, with its outcome; exit status non-zero iff something fails",
				Observed: map[string]any{"stdout": vh.Trunc(run.Stdout, 3000), "stderr": vh.Trunc(run.Stderr, 600), "exit": run.Exit}})
		}

		if sampled < 4 && origin == "random" && len(f.Blocks) >= 4 {
			sampled++

			r.Sample(map[string]any{"blocks": seq, "stdout": vh.Trunc(run.Stdout, 1200), "exit": run.Exit, "findings": len(findings)})
		}
	}

	if c := vh.ReplayCase(); c != nil {
		var f c13File
		if json.Unmarshal(c, &f) != nil {
			t.Fatal("bad replay case")
		}

		evaluate("replay", &f, "replay")
		r.Distinct = 2

		return
	}

	type job struct {
		id, origin string
		f          c13File
	}

	var jobs []job

	// 1. calibration: every template alone (followed by one passing block, so that isolation is observable)
	byName := map[string]c13Variant{}
	for _, v := range vars {
		byName[v.kind+"/"+v.name] = v
	}

	pass := byName["pass/assert"]

	for i, v := range vars {
		jobs = append(jobs, job{fmt.Sprintf("cal-%02d", i), "calibration", c13Build([]c13Variant{v, pass}, 500+i)})
	}

	// 2. directed probes for the known findings (their constructs are kept out of the random stream)
	probeNames := []string{}

	for _, v := range vars {
		if v.brace != 0 {
			jobs = append(jobs, job{"probe-" + v.name, "probe", c13Build([]c13Variant{pass, v, pass, byName["assert/plain"], byName["pass/loop"]}, 700+len(jobs))})
			probeNames = append(probeNames, swallowKey(v.brace))
		}
	}

	jobs = append(jobs, job{"probe-filescope-used-only-by-broken-tests", "probe", c13Build([]c13Variant{pass, byName["nocompile/uses-filescope-then-syntax-error"], byName["pass/loop"], byName["nocompile/uses-filescope-then-unknown-stmt"], byName["assert/plain"], pass}, 778)})
	jobs = append(jobs, job{"probe-redeclare-after-broken-test", "probe", c13Build([]c13Variant{pass, byName["nocompile/declares-then-syntax-error"], byName["runtime/index"], byName["pass/redeclares-same-names"], byName["nocompile/declares-then-syntax-error"], byName["pass/redeclares-same-names"], pass}, 779)})
	gp := []string{"runtime/bare-error-directive", "runtime/throw-panic-key", "runtime/builtin-argcount", "infunc/bare-error-in-func", "opentry/bare-error-in-try-rethrown-bare", "runtime/throw-panic-key-from-func-result", "infunc/argcount-in-func", "opentry/throw-panic-key-in-nested-try", "runtime/builtin-argcount-none"}
	for gi, g := range gp {
		first := []c13Variant{byName[g], pass, byName["assert/plain"], byName["pass/loop"]}
		middle := []c13Variant{pass, byName["assert/plain"], byName[g], byName["pass/loop"], byName["runtime/index"], pass}
		last := []c13Variant{pass, byName["pass/loop"], byName["assert/plain"], byName[g]}
		jobs = append(jobs, job{fmt.Sprintf("probe-generic-panic-%d-first", gi), "probe", c13Build(first, 800+gi*3)},
			job{fmt.Sprintf("probe-generic-panic-%d-middle", gi), "probe", c13Build(middle, 801+gi*3)},
			job{fmt.Sprintf("probe-generic-panic-%d-last", gi), "probe", c13Build(last, 802+gi*3)})
	}

	jobs = append(jobs, job{"probe-runtime-status", "probe", c13Build([]c13Variant{pass, byName["assert/plain"], byName["runtime/index"], byName["infunc/named"], byName["opentry/error-in-catch"], pass}, 777)})
	probeNames = append(probeNames, "status-line-missing:runtime-fail")

	sort.Strings(probeNames)

	for i, k := range probeNames {
		if i == 0 || probeNames[i-1] != k {
			r.Probe(k)
		}
	}

	// 3. the random stream
	rng := vh.Rand("c13")
	n := vh.N(150, 5000)

	for i := 0; i < n; i++ {
		jobs = append(jobs, job{fmt.Sprintf("f%05d", i), "random", c13Generate(rng, known, vars)})
	}

	sem := make(chan struct{}, 12)

	var wg sync.WaitGroup

	for i := range jobs {
		wg.Add(1)

		sem <- struct{}{}

		go func(j *job) {
			defer wg.Done()
			defer func() { <-sem }()

			evaluate(j.id, &j.f, j.origin)
		}(&jobs[i])
	}

	wg.Wait()

	if wd := r.Counters["processes.watchdog"]; wd > r.Counters["processes"] {
		t.Fatalf("more `ego test` processes hit the watchdog (%d) than finished (%d): the machine is too loaded for a verdict", wd, r.Counters["processes"])
	}

	if r.Counters["events.status_lines"] == 0 {
		t.Fatal("observed nothing: no TEST status line in any run")
	}
}
