package crash

// Generated programs for C07: syntactically plausible statements whose operands are
// deliberately of the wrong kind (a type where a value is expected, a package or a
// function as an operand, nil, mismatched collections ...). They reach the VM's
// type switches, which token-level mutation of valid programs reaches only rarely.

import (
	"fmt"
	"math/rand"
	"strings"
)

var illAtoms = []string{
	// literals
	"1", "0", "-7", "3.5", "\"s\"", "\"\"", "'c'", "true", "false", "nil", "9223372036854775807", "1e308", "0x7f",
	// type values
	"int", "int8", "uint64", "float64", "string", "bool", "byte", "error", "any", "[]int", "[]string", "map[string]int", "*int", "chan", "P", "*P", "interface{}", "struct{}", "func()",
	// packages and functions as values
	"fmt", "sync", "fmt.Println", "strings.ToUpper", "math.Pi", "math.Sqrt", "len", "make", "append", "panic", "main", "fn", "os.Args",
	// composite literals
	"[]int{1, 2, 3}", "[]int{}", "[]string{\"a\", \"b\"}", "[]any{1, \"a\", nil}", "[][]int{{1}, {2, 3}}", "map[string]int{\"a\": 1}", "map[string]int{}", "map[int]string{1: \"x\"}",
	"{a: 1, b: \"x\"}", "P{x: 1, y: \"q\"}", "&P{x: 2}", "P{}", "[]P{{x: 1}}", "map[string]P{}",
	// variables of each kind
	"i", "u8", "f", "s", "b", "a", "m", "st", "pp", "ip", "fv", "ev", "ch", "tv", "nv", "iface", "wg", "mu", "tm", "by", "aa", "c64",
	// calls and conversions
	"int8(5)", "uint64(1)", "byte(255)", "float32(1.5)", "string(65)", "[]byte(\"hi\")", "errors.New(\"e\")", "time.Now()", "fn(1)", "fv(2)", "new(int)", "make([]int, 3)", "make(map[string]int)", "make(chan, 1)",
	"func(q int) int { return q }", "func() {}", "&i", "*ip", "a[0]", "m[\"a\"]", "st.x", "pp.x", "len(a)", "s[0]", "s[0:1]", "a[1:]", "typeof(i)", "reflect.TypeOf(a)", "complex64(1)", "-i", "!b", "i + 1", "s + \"x\"",
}

var illBinOps = []string{"+", "-", "*", "/", "%", "&", "|", "^", "<<", ">>", "&^", "==", "!=", "<", "<=", ">", ">=", "&&", "||"}

var illTemplates = []string{
	"r := A OP B\n fmt.Println(r)",
	"r := A OP B OP C\n fmt.Println(r)",
	"r := -A\n fmt.Println(r)",
	"r := !A\n fmt.Println(r)",
	"r := ^A\n fmt.Println(r)",
	"r := *A\n fmt.Println(r)",
	"r := &A\n fmt.Println(r)",
	"r := A[B]\n fmt.Println(r)",
	"r := A[B:C]\n fmt.Println(r)",
	"r := A[B:]\n fmt.Println(r)",
	"r := A[:B]\n fmt.Println(r)",
	"r := A[B][C]\n fmt.Println(r)",
	"r := A.x\n fmt.Println(r)",
	"r := A.x.y\n fmt.Println(r)",
	"r := A.String()\n fmt.Println(r)",
	"r := A(B)\n fmt.Println(r)",
	"r := A(B, C)\n fmt.Println(r)",
	"r := A()\n fmt.Println(r)",
	"A(B)",
	"A[B] = C",
	"A.x = B",
	"A = B",
	"*A = B",
	"A++",
	"A--",
	"A += B",
	"A -= B",
	"A *= B",
	"A /= B",
	"A, B = C, A",
	"for k, v := range A {\n  fmt.Println(k, v)\n }",
	"for k := range A {\n  fmt.Println(k)\n }",
	"for A {\n  break\n }",
	"for k := A; k < B; k = k + 1 {\n  fmt.Println(k)\n  break\n }",
	"if A {\n  fmt.Println(1)\n }",
	"if A OP B {\n  fmt.Println(1)\n } else {\n  fmt.Println(2)\n }",
	"switch A {\n case B:\n  fmt.Println(1)\n case C:\n  fmt.Println(2)\n default:\n  fmt.Println(3)\n }",
	"switch {\n case A:\n  fmt.Println(1)\n }",
	"r := len(A)\n fmt.Println(r)",
	"r := cap(A)\n fmt.Println(r)",
	"r := append(A, B)\n fmt.Println(r)",
	"r := append(A, B...)\n fmt.Println(r)",
	"delete(A, B)",
	"r := copy(A, B)\n fmt.Println(r)",
	"r := min(A, B)\n fmt.Println(r)",
	"r := max(A, B, C)\n fmt.Println(r)",
	"r := A.(B)\n fmt.Println(r)",
	"r, ok := A.(B)\n fmt.Println(r, ok)",
	"r, ok := A[B]\n fmt.Println(r, ok)",
	"r := int(A)\n fmt.Println(r)",
	"r := string(A)\n fmt.Println(r)",
	"r := float64(A)\n fmt.Println(r)",
	"r := bool(A)\n fmt.Println(r)",
	"r := []int(A)\n fmt.Println(r)",
	"r := []byte(A)\n fmt.Println(r)",
	"r := P(A)\n fmt.Println(r)",
	"r := A{}\n fmt.Println(r)",
	"r := A{x: B}\n fmt.Println(r)",
	"r := A{B, C}\n fmt.Println(r)",
	"r := []A{B}\n fmt.Println(r)",
	"r := map[A]B{}\n fmt.Println(r)",
	"r := map[string]A{\"k\": B}\n fmt.Println(r)",
	"var r A = B\n fmt.Println(r)",
	"var r A\n fmt.Println(r)",
	"var r []A\n fmt.Println(r)",
	"var r map[A]B\n fmt.Println(r)",
	"r := new(A)\n fmt.Println(r)",
	"r := make(A, B)\n fmt.Println(r)",
	"r := make(A)\n fmt.Println(r)",
	"r := make([]A, B)\n fmt.Println(r)",
	"A <- B",
	"go A(B)",
	"defer A(B)",
	"defer A",
	"return A",
	"panic(A)",
	"r := fmt.Sprintf(A, B)\n fmt.Println(r)",
	"r := fmt.Sprintf(\"%d %s %v %q %x %5.2f %t\", A, B, C, A, B, C, A)\n fmt.Println(r)",
	"r := fmt.Sprint(A, B)\n fmt.Println(r)",
	"fmt.Printf(\"%v %T\\n\", A, A)",
	"r := strings.Repeat(A, B)\n fmt.Println(r)",
	"r := strings.Split(A, B)\n fmt.Println(r)",
	"r := strings.Join(A, B)\n fmt.Println(r)",
	"r := strings.Index(A, B)\n fmt.Println(r)",
	"r := strconv.Itoa(A)\n fmt.Println(r)",
	"r, e2 := strconv.Atoi(A)\n fmt.Println(r, e2)",
	"r := math.Sqrt(A)\n fmt.Println(r)",
	"r := math.Max(A, B)\n fmt.Println(r)",
	"sort.Ints(A)",
	"sort.Strings(A)",
	"sort.Slice(A, B)",
	"sort.Slice(A, func(x int, y int) bool { return A[x] OP B })",
	"r, e2 := json.Marshal(A)\n fmt.Println(string(r), e2)",
	"e2 := json.Unmarshal(A, B)\n fmt.Println(e2)",
	"r := reflect.TypeOf(A)\n fmt.Println(r)",
	"r := reflect.DeepEqual(A, B)\n fmt.Println(r)",
	"r := typeof(A)\n fmt.Println(r)",
	"r := errors.New(A)\n fmt.Println(r)",
	"r := A.Error()\n fmt.Println(r)",
	"r := time.Duration(A)\n fmt.Println(r)",
	"r := A.Add(B)\n fmt.Println(r)",
	"A.Lock()\n A.Unlock()",
	"A.Unlock()",
	"A.Done()",
	"A.Add(B)",
	"close(A)",
	"r := A == B\n fmt.Println(r)",
	"r := A < B\n fmt.Println(r)",
	"func (q A) Str() string { return \"x\" }",
	"type T2 A\n var r T2 = B\n fmt.Println(r)",
	"type T3 struct {\n  f A\n }\n r := T3{f: B}\n fmt.Println(r)",
	"type T4 []A\n r := T4{B}\n fmt.Println(r)",
	"const k = A\n fmt.Println(k)",
	"const k A = B\n fmt.Println(k)",
	"r := func(q A) B { return C }\n fmt.Println(r)",
	"r := func(q A) A { return q }(B)\n fmt.Println(r)",
	"r := os.Getenv(A)\n fmt.Println(r)",
	"r := index(A, B)\n fmt.Println(r)",
	"r := members(A)\n fmt.Println(r)",
	"r := sum(A, B)\n fmt.Println(r)",
	"r := unwrap(A, B)\n fmt.Println(r)",
	"print A",
	"print A, B",
	"@error A",
	"r := A ? B : C\n fmt.Println(r)",
	"try {\n  r := A OP B\n  fmt.Println(r)\n } catch (e9) {\n  fmt.Println(e9 OP A)\n }",
	"r := uuid.Parse(A)\n fmt.Println(r)",
	"r := base64.Encode(A)\n fmt.Println(r)",
	"r := filepath.Join(A, B)\n fmt.Println(r)",
	"r := strings.Template(A, B)\n fmt.Println(r)",
	"r := strings.Format(A, B)\n fmt.Println(r)",
	"r := cipher.Hash(A)\n fmt.Println(r)",
	"r := A.Format(B)\n fmt.Println(r)",
	"r := A.Sub(B)\n fmt.Println(r)",
}

const illPrelude = `import "fmt"
import "strings"
import "strconv"
import "math"
import "sort"
import "sync"
import "time"
import "errors"
import "json"
import "os"
import "reflect"
import "uuid"
import "base64"
import "filepath"
import "cipher"

type P struct {
 x int
 y string
}

func fn(q int) int {
 return q + 1
}

func main() {
 i := 42
 u8 := uint8(200)
 f := 2.5
 s := "hello"
 b := true
 a := []int{10, 20, 30}
 m := map[string]int{"a": 1, "b": 2}
 st := P{x: 1, y: "p"}
 pp := &st
 ip := &i
 fv := func(q int) int { return q * 2 }
 ev := errors.New("ev")
 ch := make(chan, 2)
 tv := int
 var nv any
 var iface any = 7
 var wg sync.WaitGroup
 var mu sync.Mutex
 tm := time.Now()
 by := []byte("xyz")
 aa := [][]int{{1, 2}, {3}}
 c64 := complex64(2)
`

func illtyped(rng *rand.Rand) (src, kind string) {
	atom := func() string { return illAtoms[rng.Intn(len(illAtoms))] }

	var body []string

	var kinds []string

	n := 1
	if rng.Intn(4) == 0 {
		n = 2 + rng.Intn(2)
	}

	for k := 0; k < n; k++ {
		ti := rng.Intn(len(illTemplates))
		t := illTemplates[ti]
		kinds = append(kinds, fmt.Sprint(ti))

		var sb strings.Builder

		for j := 0; j < len(t); j++ {
			switch {
			case strings.HasPrefix(t[j:], "OP") && (j == 0 || t[j-1] == ' ') && j+2 < len(t) && t[j+2] == ' ':
				sb.WriteString(illBinOps[rng.Intn(len(illBinOps))])

				j++
			case (t[j] == 'A' || t[j] == 'B' || t[j] == 'C') && (j == 0 || !isAlnum(t[j-1]) && t[j-1] != '"' && t[j-1] != '%') && (j+1 == len(t) || !isAlnum(t[j+1])):
				sb.WriteString(atom())
			default:
				sb.WriteByte(t[j])
			}
		}

		s := sb.String()
		if n > 1 {
			s = strings.ReplaceAll(s, "r :=", fmt.Sprintf("r%d :=", k))
			s = strings.ReplaceAll(s, "fmt.Println(r", fmt.Sprintf("fmt.Println(r%d", k))
			s = strings.ReplaceAll(s, "r, ", fmt.Sprintf("r%d, ", k))
			s = strings.ReplaceAll(s, "var r ", fmt.Sprintf("var r%d ", k))
		}

		body = append(body, " "+s)
	}

	// keep every prelude variable "used" so that the unused-variable check does not hide the statement
	use := " fmt.Sprint(i, u8, f, s, b, a, m, st, pp, ip, fv, ev, ch, tv, nv, iface, tm, by, aa, c64)\n wg.Add(0)\n mu.Lock()\n mu.Unlock()\n"

	return illPrelude + use + strings.Join(body, "\n") + "\n}\n", "illtyped:" + strings.Join(kinds, "+")
}
