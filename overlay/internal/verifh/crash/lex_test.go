package crash

// A small lexical splitter for Go-like source plus the token-level mutation
// operators of C07. It is deliberately independent of ego's own tokenizer (the
// code under test): the splitter only has to cut text into pieces whose
// concatenation is the original text, so that a mutated piece list can be turned
// back into bytes.

import (
	"math/rand"
	"strings"
	"unicode"
	"unicode/utf8"
)

type tokClass int

const (
	clsSpace tokClass = iota // white space and comments (trivia)
	clsIdent
	clsKeyword
	clsNumber
	clsString
	clsOp
	clsBracket
	clsDirective // '@'
	nClasses
)

var classNames = [...]string{"space", "ident", "keyword", "number", "string", "op", "bracket", "directive"}

type tok struct {
	s   string
	cls tokClass
}

var keywords = map[string]bool{}

func init() {
	for _, k := range strings.Fields(`break case chan const continue default defer else fallthrough for func go goto if import
		interface map package range return select struct switch type var try catch print call exit nil true false
		int int8 int16 int32 int64 uint uint8 uint16 uint32 uint64 float32 float64 string bool byte rune any error
		make len append new panic recover delete close copy test assert fail error pass global template main
		entrypoint extensions compile capture sandbox optimizer localization log status json text authenticated`) {
		keywords[k] = true
	}
}

var multiOps = []string{"<<=", ">>=", "&^=", "...", "&&", "||", "<-", "++", "--", "==", "!=", "<=", ">=", ":=", "+=", "-=", "*=", "/=", "%=", "&=", "|=", "^=", "<<", ">>", "&^", "->"}

// lex cuts src into tokens; the concatenation of all tok.s is src.
func lex(src string) []tok {
	var out []tok

	i := 0
	for i < len(src) {
		c := src[i]

		switch {
		case c == ' ' || c == '\t' || c == '\n' || c == '\r':
			j := i
			for j < len(src) && (src[j] == ' ' || src[j] == '\t' || src[j] == '\n' || src[j] == '\r') {
				j++
			}

			out = append(out, tok{src[i:j], clsSpace})
			i = j
		case c == '/' && i+1 < len(src) && src[i+1] == '/':
			j := strings.IndexByte(src[i:], '\n')
			if j < 0 {
				j = len(src) - i
			}

			out = append(out, tok{src[i : i+j], clsSpace})
			i += j
		case c == '/' && i+1 < len(src) && src[i+1] == '*':
			j := strings.Index(src[i+2:], "*/")
			if j < 0 {
				j = len(src) - i
			} else {
				j += 4
			}

			out = append(out, tok{src[i : i+j], clsSpace})
			i += j
		case c == '"' || c == '\'':
			j := i + 1
			for j < len(src) && src[j] != c && src[j] != '\n' {
				if src[j] == '\\' && j+1 < len(src) {
					j++
				}

				j++
			}

			if j < len(src) && src[j] == c {
				j++
			}

			out = append(out, tok{src[i:j], clsString})
			i = j
		case c == '`':
			j := strings.IndexByte(src[i+1:], '`')
			if j < 0 {
				j = len(src) - i
			} else {
				j += 2
			}

			out = append(out, tok{src[i : i+j], clsString})
			i += j
		case c >= '0' && c <= '9':
			j := i
			for j < len(src) && (isAlnum(src[j]) || src[j] == '.' || src[j] == '_' ||
				((src[j] == '+' || src[j] == '-') && j > i && (src[j-1] == 'e' || src[j-1] == 'E') && !strings.HasPrefix(src[i:], "0x"))) {
				j++
			}

			out = append(out, tok{src[i:j], clsNumber})
			i = j
		case c == '_' || c >= 0x80 || unicode.IsLetter(rune(c)):
			j := i
			for j < len(src) {
				r, n := utf8.DecodeRuneInString(src[j:])
				if r == '_' || unicode.IsLetter(r) || unicode.IsDigit(r) || (r == utf8.RuneError && n == 1 && false) {
					j += n

					continue
				}

				break
			}

			if j == i { // a lone non-letter high byte
				_, n := utf8.DecodeRuneInString(src[i:])
				out = append(out, tok{src[i : i+n], clsOp})
				i += n

				break
			}

			w := src[i:j]
			if keywords[w] {
				out = append(out, tok{w, clsKeyword})
			} else {
				out = append(out, tok{w, clsIdent})
			}

			i = j
		case c == '@':
			out = append(out, tok{"@", clsDirective})
			i++
		case strings.IndexByte("(){}[]", c) >= 0:
			out = append(out, tok{src[i : i+1], clsBracket})
			i++
		default:
			matched := false

			for _, op := range multiOps {
				if strings.HasPrefix(src[i:], op) {
					out = append(out, tok{op, clsOp})
					i += len(op)
					matched = true

					break
				}
			}

			if !matched {
				out = append(out, tok{src[i : i+1], clsOp})
				i++
			}
		}
	}

	return out
}

func isAlnum(b byte) bool {
	return (b >= '0' && b <= '9') || (b >= 'a' && b <= 'z') || (b >= 'A' && b <= 'Z')
}

func join(ts []tok) string {
	var b strings.Builder
	for _, t := range ts {
		b.WriteString(t.s)
	}

	return b.String()
}

// significant returns the indexes of non-trivia tokens.
func significant(ts []tok) []int {
	idx := make([]int, 0, len(ts))

	for i, t := range ts {
		if t.cls != clsSpace {
			idx = append(idx, i)
		}
	}

	return idx
}

// pool holds token spellings by class, harvested from the corpus, plus hostile extras.
type pool struct {
	byClass [nClasses][]string
	seen    [nClasses]map[string]bool
}

func newPool() *pool {
	p := &pool{}
	for i := range p.seen {
		p.seen[i] = map[string]bool{}
	}

	extras := map[tokClass][]string{
		clsNumber: {"0", "1", "-1", "9223372036854775807", "9223372036854775808", "18446744073709551616", "99999999999999999999999999999999",
			"1e308", "1e309", "1e-400", "0x", "0x7fffffffffffffff", "0xffffffffffffffffff", "0b", "0b102", "0o8", "1_000", "1__0", "_1", "1.", ".5", "1..2", "1e", "1e+",
			"0.0000000000000000000000000000000000000000000001", "00", "08", "1i", "2147483648", "256", "65536", "4294967296", "1.7976931348623157e308"},
		clsString: {`""`, `"\"`, `"`, "`", "``", `'`, `''`, `'ab'`, `'\''`, `"\x"`, `"\xZZ"`, `"\u12"`, `"\U00110000"`, `"\400"`, `"%"`, `"%!"`, `"%d%s%v%q%x"`, `"%*d"`, `"%[9]d"`, `"%-1000000d"`,
			`"\n"`, "\"\x00\"", "\"\xff\xfe\"", `"{{.}}"`, `"{{"`, `"[1,2"`, `"{\"a\":"`, `"../../../etc/passwd"`, `"/dev/zero"`, `""""`},
		clsOp:      {"+", "-", "*", "/", "%", "&", "|", "^", "!", "=", "<", ">", ".", ",", ";", ":", "?", "#", "$", "~", "\\", ":=", "==", "!=", "<=", ">=", "&&", "||", "<-", "++", "--", "...", "+=", "-=", "*=", "/=", "<<", ">>", "&^", "->", "=>", "::", "<<=", ">>="},
		clsBracket: {"(", ")", "{", "}", "[", "]"},
		clsKeyword: {"break", "case", "chan", "const", "continue", "default", "defer", "else", "fallthrough", "for", "func", "go", "goto", "if", "import", "interface", "map",
			"package", "range", "return", "select", "struct", "switch", "type", "var", "try", "catch", "print", "call", "exit", "nil", "true", "false", "int", "int8", "int16", "int32", "int64",
			"uint", "uint8", "uint16", "uint32", "uint64", "float32", "float64", "string", "bool", "byte", "rune", "any", "error", "make", "len", "append", "new", "panic", "recover", "delete",
			"close", "copy", "min", "max", "typeof", "sizeof", "index", "members", "sum", "cap", "clear", "unwrap", "defined", "reflect"},
		clsIdent:     {"_", "x", "main", "T", "fmt", "os", "strings", "math", "sort", "json", "time", "sync", "errors", "Println", "Printf", "Sprintf", "String", "Error", "this", "self", "__x", "é", "名", "_testcount", "__exec", "__sandbox", "_"},
		clsDirective: {"@"},
	}

	for c, list := range extras {
		for _, s := range list {
			p.add(tok{s, c})
		}
	}

	return p
}

func (p *pool) add(t tok) {
	if t.cls == clsSpace || len(t.s) > 200 {
		return
	}

	if !p.seen[t.cls][t.s] {
		p.seen[t.cls][t.s] = true
		p.byClass[t.cls] = append(p.byClass[t.cls], t.s)
	}
}

func (p *pool) pick(rng *rand.Rand, c tokClass) tok {
	l := p.byClass[c]
	if len(l) == 0 {
		return tok{"x", clsIdent}
	}

	return tok{l[rng.Intn(len(l))], c}
}

func (p *pool) pickOther(rng *rand.Rand, not tokClass) tok {
	for {
		c := tokClass(1 + rng.Intn(int(nClasses)-1))
		if c != not {
			return p.pick(rng, c)
		}
	}
}

var mutationOps = []string{"delete", "dup", "swap", "splice", "replace-same", "replace-other", "unbalance", "truncate", "nul", "badutf8", "insert", "delete-range", "dup-range"}

var badUTF8 = []string{"\xff", "\xfe\xff", "\xc0\xaf", "\xe2\x82", "\xf0\x9f\x98", "\xed\xa0\x80", "\xf4\x90\x80\x80", "\x80", "\xc3", "\xef\xbb\xbf"}

// mutate applies one named operator to ts (never modifies the argument's backing
// array) and returns the new source text. other is a token list of another file
// (for splice). The result may equal the input when the operator had no target.
func mutate(rng *rand.Rand, op string, ts []tok, other []tok, p *pool) string {
	sig := significant(ts)
	if len(sig) == 0 {
		return join(ts) + p.pickOther(rng, clsSpace).s
	}

	cp := make([]tok, len(ts))
	copy(cp, ts)

	at := func() int { return sig[rng.Intn(len(sig))] }

	switch op {
	case "delete":
		i := at()
		cp = append(cp[:i:i], cp[i+1:]...)
	case "delete-range":
		a := rng.Intn(len(sig))
		b := a + 1 + rng.Intn(8)
		if b > len(sig) {
			b = len(sig)
		}

		i, j := sig[a], sig[b-1]+1
		cp = append(cp[:i:i], cp[j:]...)
	case "dup":
		i := at()
		cp = append(cp[:i+1:i+1], append([]tok{{" ", clsSpace}, ts[i]}, ts[i+1:]...)...)
	case "dup-range":
		a := rng.Intn(len(sig))
		b := a + 1 + rng.Intn(12)
		if b > len(sig) {
			b = len(sig)
		}

		i, j := sig[a], sig[b-1]+1
		seg := append([]tok{}, ts[i:j]...)
		n := 1 + rng.Intn(3)

		var ins []tok
		for k := 0; k < n; k++ {
			ins = append(ins, tok{" ", clsSpace})
			ins = append(ins, seg...)
		}

		cp = append(cp[:j:j], append(ins, ts[j:]...)...)
	case "swap":
		i, j := at(), at()
		if rng.Intn(2) == 0 && len(sig) > 1 { // adjacent
			k := rng.Intn(len(sig) - 1)
			i, j = sig[k], sig[k+1]
		}

		cp[i], cp[j] = cp[j], cp[i]
	case "splice":
		osig := significant(other)
		if len(osig) == 0 {
			return mutate(rng, "dup-range", ts, other, p)
		}

		a := rng.Intn(len(osig))
		b := a + 1 + rng.Intn(20)
		if b > len(osig) {
			b = len(osig)
		}

		seg := append([]tok{{" ", clsSpace}}, other[osig[a]:osig[b-1]+1]...)
		seg = append(seg, tok{" ", clsSpace})
		i := at()
		j := i

		if rng.Intn(2) == 0 { // replace a range instead of pure insertion
			k := rng.Intn(len(sig))
			e := k + rng.Intn(10)
			if e >= len(sig) {
				e = len(sig) - 1
			}

			i, j = sig[k], sig[e]+1
		}

		cp = append(cp[:i:i], append(seg, ts[j:]...)...)
	case "replace-same":
		i := at()
		cp[i] = p.pick(rng, cp[i].cls)
	case "replace-other":
		i := at()
		cp[i] = p.pickOther(rng, cp[i].cls)
	case "insert":
		i := at()
		t := p.pickOther(rng, clsSpace)
		cp = append(cp[:i:i], append([]tok{t, {" ", clsSpace}}, ts[i:]...)...)
	case "unbalance":
		var br []int

		for _, i := range sig {
			if ts[i].cls == clsBracket {
				br = append(br, i)
			}
		}

		if len(br) > 0 && rng.Intn(3) > 0 {
			i := br[rng.Intn(len(br))]
			switch rng.Intn(3) {
			case 0:
				cp = append(cp[:i:i], cp[i+1:]...)
			case 1:
				cp = append(cp[:i+1:i+1], append([]tok{ts[i]}, ts[i+1:]...)...)
			default:
				cp[i] = p.pick(rng, clsBracket)
			}
		} else {
			i := at()
			cp = append(cp[:i:i], append([]tok{p.pick(rng, clsBracket)}, ts[i:]...)...)
		}
	case "truncate":
		s := join(ts)
		if len(s) < 2 {
			return s
		}
		// prefer cutting inside a token
		i := at()
		off := 0

		for k := 0; k < i; k++ {
			off += len(ts[k].s)
		}

		if len(ts[i].s) > 1 {
			off += 1 + rng.Intn(len(ts[i].s)-1)
		}

		if off <= 0 || off >= len(s) {
			off = 1 + rng.Intn(len(s)-1)
		}

		return s[:off]
	case "nul", "badutf8":
		ins := "\x00"
		if op == "badutf8" {
			ins = badUTF8[rng.Intn(len(badUTF8))]
		}

		i := at()

		switch rng.Intn(3) {
		case 0: // inside the token
			s := cp[i].s
			k := rng.Intn(len(s) + 1)
			cp[i] = tok{s[:k] + ins + s[k:], cp[i].cls}
		case 1: // as its own token
			cp = append(cp[:i:i], append([]tok{{ins, clsOp}}, ts[i:]...)...)
		default: // in a string literal if there is one
			for _, k := range sig {
				if ts[k].cls == clsString && len(ts[k].s) >= 2 {
					cp[k] = tok{ts[k].s[:1] + ins + ts[k].s[1:], clsString}

					break
				}
			}

			if join(cp) == join(ts) {
				cp[i] = tok{cp[i].s + ins, cp[i].cls}
			}
		}
	}

	return join(cp)
}

// deepNest builds a pathological nesting input of the given kind and depth.
var nestKinds = []string{"parens", "blocks", "unary-minus", "unary-not", "binary-chain", "index", "call", "func-literal", "array-literal", "struct-literal",
	"else-if", "type-slices", "type-pointers", "type-maps", "member-chain", "args", "string-concat", "if-nest", "for-nest", "address-of", "deref", "switch-nest", "try-nest",
	"paren-open-only", "brace-open-only", "bracket-open-only", "close-only", "map-literal", "interface-nest", "struct-type-nest", "conv-chain", "logical-chain", "ternaryish", "slices-of-slices-expr", "compare-chain"}

func deepNest(kind string, n int) string {
	rep := strings.Repeat

	switch kind {
	case "parens":
		return "func main() {\n x := " + rep("(", n) + "1" + rep(")", n) + "\n fmt.Println(x)\n}\n"
	case "blocks":
		return "func main() {\n" + rep("{", n) + " x := 1; fmt.Println(x) " + rep("}", n) + "\n}\n"
	case "unary-minus":
		return "func main() {\n x := " + rep("- ", n) + "1\n fmt.Println(x)\n}\n"
	case "unary-not":
		return "func main() {\n x := " + rep("!", n) + "true\n fmt.Println(x)\n}\n"
	case "binary-chain":
		return "func main() {\n x := 1" + rep(" + 1", n) + "\n fmt.Println(x)\n}\n"
	case "logical-chain":
		return "func main() {\n x := true" + rep(" && true", n) + "\n fmt.Println(x)\n}\n"
	case "compare-chain":
		return "func main() {\n x := 1" + rep(" < 2", n) + "\n fmt.Println(x)\n}\n"
	case "index":
		return "func main() {\n a := []int{0}\n x := " + rep("a[", n) + "0" + rep("]", n) + "\n fmt.Println(x)\n}\n"
	case "call":
		return "func f(x int) int { return x }\nfunc main() {\n x := " + rep("f(", n) + "0" + rep(")", n) + "\n fmt.Println(x)\n}\n"
	case "conv-chain":
		return "func main() {\n x := " + rep("int(", n) + "0" + rep(")", n) + "\n fmt.Println(x)\n}\n"
	case "func-literal":
		return "func main() {\n f := " + rep("func() any { return ", n) + "1" + rep(" }", n) + "\n fmt.Println(f)\n}\n"
	case "array-literal":
		return "func main() {\n x := " + rep("[]any{", n) + "1" + rep("}", n) + "\n fmt.Println(len(x))\n}\n"
	case "map-literal":
		return "func main() {\n x := " + rep("map[string]any{\"a\":", n) + "1" + rep("}", n) + "\n fmt.Println(len(x))\n}\n"
	case "struct-literal":
		return "func main() {\n x := " + rep("{a:", n) + "1" + rep("}", n) + "\n fmt.Println(x)\n}\n"
	case "else-if":
		return "func main() {\n x := 1\n if x == 0 { x = 1 }" + rep(" else if x == 0 { x = 2 }", n) + "\n fmt.Println(x)\n}\n"
	case "if-nest":
		return "func main() {\n x := 1\n" + rep("if x == 1 {", n) + " x = 2 " + rep("}", n) + "\n fmt.Println(x)\n}\n"
	case "for-nest":
		return "func main() {\n x := 1\n" + rep("for i := 0; i < 1; i++ {", n) + " x = 2 " + rep("}", n) + "\n fmt.Println(x)\n}\n"
	case "switch-nest":
		return "func main() {\n x := 1\n" + rep("switch x { case 1: ", n) + " x = 2 " + rep("}", n) + "\n fmt.Println(x)\n}\n"
	case "try-nest":
		return "func main() {\n x := 1\n" + rep("try {", n) + " x = 2 " + rep("} catch { x = 3 }", n) + "\n fmt.Println(x)\n}\n"
	case "type-slices":
		return "func main() {\n var x " + rep("[]", n) + "int\n fmt.Println(x)\n}\n"
	case "type-pointers":
		return "func main() {\n var x " + rep("*", n) + "int\n fmt.Println(x)\n}\n"
	case "type-maps":
		return "func main() {\n var x " + rep("map[string]", n) + "int\n fmt.Println(x)\n}\n"
	case "interface-nest":
		return "type T " + rep("interface{ F() ", n) + "int" + rep(" }", n) + "\nfunc main() {}\n"
	case "struct-type-nest":
		return "type T " + rep("struct{ a ", n) + "int" + rep(" }", n) + "\nfunc main() {}\n"
	case "member-chain":
		return "func main() {\n x := {a:1}\n y := x" + rep(".a", n) + "\n fmt.Println(y)\n}\n"
	case "args":
		return "func main() {\n fmt.Println(1" + rep(",1", n) + ")\n}\n"
	case "string-concat":
		return "func main() {\n x := \"a\"" + rep(" + \"b\"", n) + "\n fmt.Println(len(x))\n}\n"
	case "address-of":
		return "func main() {\n y := 1\n x := " + rep("&", n) + "y\n fmt.Println(x)\n}\n"
	case "deref":
		return "func main() {\n y := 1\n p := &y\n x := " + rep("*", n) + "p\n fmt.Println(x)\n}\n"
	case "paren-open-only":
		return "func main() {\n x := " + rep("(", n) + "\n}\n"
	case "brace-open-only":
		return "func main() {\n" + rep("{", n)
	case "bracket-open-only":
		return "func main() {\n x := " + rep("[", n) + "\n}\n"
	case "close-only":
		return "func main() {\n x := 1 " + rep(")", n) + rep("}", n) + rep("]", n) + "\n}\n"
	case "ternaryish":
		return "func main() {\n x := " + rep("1 ? ", n) + "1" + rep(" : 1", n) + "\n fmt.Println(x)\n}\n"
	case "slices-of-slices-expr":
		return "func main() {\n a := []int{1,2,3}\n x := a" + rep("[0:]", n) + "\n fmt.Println(x)\n}\n"
	}

	return rep("(", n)
}
