package crash

// Generated CONSTANT EXPRESSIONS for C07, aimed at the compile-time constant folder /
// peephole optimizer: every arithmetic, bitwise, shift and comparison operator between
// constants of every numeric kind (typed consts, rune literals, products that are
// zero, huge values), in particular division and modulo by zero-valued constants.
// They only mean something when the optimizer is on, so each is run at explicit
// optimizer configurations (see constConfigs).

import (
	"fmt"
	"math/rand"
)

const constPrelude = `import "fmt"

const zi int = 0
const z8 int8 = 0
const z16 int16 = 0
const z32 int32 = 0
const z64 int64 = 0
const zu8 uint8 = 0
const zu32 uint32 = 0
const zu64 uint64 = 0
const zb byte = 0
const zf32 float32 = 0.0
const zf64 float64 = 0.0
const zr = '\x00'
const uz = 0
const ufz = 0.0
const one int64 = 1
const neg int = -1
const big int64 = 9223372036854775807
const small int64 = -9223372036854775808
const ubig uint64 = 18446744073709551615
const m8 int8 = 127
const n8 int8 = -128
const hf float64 = 1.7976931348623157e308
const str = "ab"
const tr = true

func main() {
`

var constOps = []string{"+", "-", "*", "/", "%", "&", "|", "^", "<<", ">>", "&^", "==", "!=", "<", "<=", ">", ">=", "&&", "||"}

// right-hand operands: zero of every kind first (division / modulo / shift targets), then extremes
var constRHS = []string{"0", "zi", "z8", "z16", "z32", "z64", "zu8", "zu32", "zu64", "zb", "zf32", "zf64", "zr", "'\\x00'", "uz", "ufz", "0.0", "(0 * 5000000000)", "(zi * 7)", "(1 - 1)", "(big - big)", "int64(0)", "int8(0)", "float64(0)",
	"-1", "neg", "64", "65", "1000", "-64", "big", "small", "ubig", "m8", "n8", "hf", "1e308", "9223372036854775807", "9223372036854775808", "(big + 1)", "(m8 + m8)", "str", "\"\"", "tr", "nil", "'a'", "3", "2.5"}

var constLHS = []string{"10", "10.0", "1.0", "one", "big", "small", "m8", "n8", "ubig", "'a'", "zi", "zf64", "-1", "hf", "str", "tr", "uz", "(big * big)", "(m8 * m8)", "(1 << 62)", "5000000000"}

// constProgram renders one program whose only interesting statement is a constant expression.
func constProgram(lhs, op, rhs string, form int) string {
	e := lhs + " " + op + " " + rhs

	switch form % 5 {
	case 0:
		return constPrelude + " x := " + e + "\n fmt.Println(x)\n}\n"
	case 1:
		return constPrelude + " const k = " + e + "\n fmt.Println(k)\n}\n"
	case 2:
		return constPrelude + " fmt.Println(" + e + ")\n}\n"
	case 3:
		return constPrelude + " var x int64 = " + e + "\n if " + e + " == 0 {\n  x = 1\n }\n fmt.Println(x)\n}\n"
	default:
		return constPrelude + " a := []int{1, 2, 3}\n fmt.Println(a[" + e + "])\n}\n"
	}
}

type constCase struct {
	src  string
	desc string
}

// constDirected enumerates the folder-relevant cells: every operator x every right operand for a few left
// operands, plus unary forms and nested products. Division, modulo and shifts get every left operand.
func constDirected() []constCase {
	var out []constCase

	n := 0

	for _, op := range constOps {
		lhsList := constLHS[:2]
		if op == "/" || op == "%" || op == "<<" || op == ">>" || op == "*" {
			lhsList = constLHS[:4]
		}

		for li, lhs := range lhsList {
			for ri, rhs := range constRHS {
				// thin the full cross product for the operators that are not division-like: every third cell
				if len(lhsList) == 2 && (li+ri)%3 != 0 && ri > 23 {
					continue
				}

				// x ^ <huge> is a legitimate endless multiplication loop in the VM: keep one such cell only
				if op == "^" && ri >= 24 && rhs != "1000" && rhs != "-1" && rhs != "3" {
					continue
				}

				// string repetition by a huge count only burns memory and time
				if op == "*" && (lhs == "str" || rhs == "str") && ri >= 24 && rhs != "3" && rhs != "-1" {
					continue
				}

				n++
				out = append(out, constCase{constProgram(lhs, op, rhs, n), fmt.Sprintf("const:%s:%s:%s", lhs, op, rhs)})
			}
		}
	}

	for _, e := range []string{"-small", "-n8", "- - -big", "!tr", "!0", "^big", "^ubig", "-ubig", "-str", "-(0.0)", "1 / 0", "1 % 0", "1.0 / 0.0", "0.0 / 0.0", "10 / (0 * 5000000000)", "10 % '\\x00'",
		"10 / zr", "10 / (zi * zi)", "10 % (z8 + z8)", "(10 / 1) / (5 - 5)", "1 << 64 >> 64", "1 << -1", "1 >> -1", "1 << big", "1 << 9223372036854775808", "big * big * big", "m8 * m8 * m8", "n8 / neg", "small / neg", "small % neg",
		"small * neg", "n8 * neg", "int8(m8 + 1)", "uint8(300)", "int(hf)", "int64(1e300)", "uint64(-1)", "byte(256) / zb", "str * 3", "3 * str", "str * -1", "str + 1", "str - str", "str / str", "str % 2", "tr + tr", "tr / tr",
		"'a' / '\\x00'", "'a' % zr", "'a' << 100", "1.5 % 1", "1.5 << 2", "2 ^ 10", "2.0 ^ 10000", "0 ^ -1", "zi ^ neg", "10 / zf32", "10 % zf64", "10.5 / uz", "ubig + 1", "ubig * ubig", "zu64 - 1", "zu8 - 1", "1 / (1 / 2)", "1 % (1 / 2)",
		"(1 / 2) * 5000000000 / ((1 / 2) * 3)", "100 / (big / big - 1)", "len(str) / (len(str) - 2)", "10 / len(\"\")", "10 % len(\"\")"} {
		out = append(out, constCase{constPrelude + " x := " + e + "\n fmt.Println(x)\n}\n", "const:expr:" + e})
		out = append(out, constCase{constPrelude + " const k = " + e + "\n fmt.Println(k)\n}\n", "const:constdecl:" + e})
		out = append(out, constCase{constPrelude + " for i := 0; i < 3; i = i + 1 {\n  fmt.Println(i + " + e + ")\n }\n}\n", "const:loop:" + e})
	}

	return out
}

// constConfigs are the optimizer configurations a directed constant program is run at: {opt, registers, constfold}.
var constConfigs = [][3]int{{1, 0, 1}, {2, 0, 1}, {3, 1, 1}, {2, 1, 0}, {0, 0, 1}}

func constRandom(rng *rand.Rand) (string, string) {
	pick := func(l []string) string { return l[rng.Intn(len(l))] }

	atom := func() string {
		if rng.Intn(2) == 0 {
			return pick(constRHS)
		}

		return pick(constLHS)
	}

	var expr func(d int) string

	expr = func(d int) string {
		if d > 2 || rng.Intn(3) == 0 {
			return atom()
		}

		return "(" + expr(d+1) + " " + pick(constOps) + " " + expr(d+1) + ")"
	}

	e := expr(0) + " " + pick([]string{"/", "%", "<<", ">>", "*", "/", "%"}) + " " + expr(1)

	return constProgram(e, pick(constOps), atom(), rng.Intn(5)), "const:random"
}
