package crash

// In-process execution of one input in one of five modes, always sandboxed,
// always under the H1 logical step budget, always under recover():
//
//	run       = `ego run file.ego`             (egorun.Run, main entry point)
//	fragment  = piped stdin without a main()   (egorun.Run, Fragment)
//	test      = `ego test file.ego`            (mirror of commands.TestAction)
//	server    = POST /admin/run, editor mode   (admin.RunCodeHandler, non-admin session)
//	console   = POST /admin/run, console mode  (persistent symbol table)

import (
	"bytes"
	"encoding/json"
	"fmt"
	"net/http/httptest"
	"os"
	"regexp"
	"runtime/debug"
	"strconv"
	"strings"
	"sync/atomic"

	"github.com/tucats/ego/internal/caches"
	"github.com/tucats/ego/internal/cli/settings"
	"github.com/tucats/ego/internal/cli/ui"
	"github.com/tucats/ego/internal/defs"
	"github.com/tucats/ego/internal/errors"
	"github.com/tucats/ego/internal/language/bytecode"
	"github.com/tucats/ego/internal/language/compiler"
	"github.com/tucats/ego/internal/language/symbols"
	"github.com/tucats/ego/internal/language/tokenizer"
	"github.com/tucats/ego/internal/router"
	"github.com/tucats/ego/internal/server/admin"
	"github.com/tucats/ego/internal/verifh/egorun"
)

const stepBudget = 2_000_000

var modes = []string{"run", "fragment", "test", "server", "console"}

// outcome of one in-process execution.
type outcome struct {
	Class string `json:"class"` // ok | error | compile-error | budget | panic
	Err   string `json:"err,omitempty"`
	Panic string `json:"panic,omitempty"` // value + stack
	Out   string `json:"-"`
}

var sandboxDir string

// runExtensions turns language extensions on for run/fragment mode (the CLI default is off).
var runExtensions bool

// interpreter configuration of the current input (C07 rotates it across inputs): optimizer level 0..3,
// registers and constant folding on/off. Process-global in ego, so it is applied before every run.
var (
	curOpt int
	curReg bool
	curCF  bool
)

func curConfig(mode string) egorun.Config {
	return egorun.Config{Sandbox: 1, Opt: curOpt, Registers: curReg, ConstFold: curCF, Fragment: mode == "fragment", Extensions: runExtensions}
}

// initRunner prepares the process-global interpreter state once.
func initRunner(sandbox string) {
	egorun.Init()

	sandboxDir = sandbox
	_ = os.MkdirAll(sandbox, 0o755)
	settings.SetDefault(defs.SandboxPathSetting, sandbox)
	settings.SetDefault(defs.ExecPermittedSetting, "false")
	ui.QuietMode = true
}

func armBudget() int64 {
	hits := bytecode.VerifBudgetHits.Load()
	bytecode.VerifStepLimit.Store(atomic.LoadInt64(&bytecode.InstructionsExecuted) + stepBudget)

	return hits
}

// runInput executes src in the given mode. It never lets a Go panic escape
// (a Go fatal error cannot be caught; that is what the child-process model is for).
func runInput(mode, src string) (o outcome) {
	hits := armBudget()

	defer func() {
		if r := recover(); r != nil {
			o.Class = "panic"
			o.Panic = fmt.Sprintf("%v\n%s", r, debug.Stack())
		}

		if o.Class != "panic" && bytecode.VerifBudgetHits.Load() > hits {
			o.Class = "budget"
		}
		// always restore the sandbox root: test-mode code may have changed it
		settings.SetDefault(defs.SandboxPathSetting, sandboxDir)
	}()

	switch mode {
	case "run", "fragment":
		r := egorun.Run(src, curConfig(mode))
		o.Out, o.Err, o.Panic = r.Out, r.Err, r.Panic

		switch {
		case r.Panic != "":
			o.Class = "panic"
		case r.CompileErr:
			o.Class = "compile-error"
		case r.Err != "":
			o.Class = "error"
		default:
			o.Class = "ok"
		}
	case "test":
		egorun.Apply(curConfig(mode))
		o = runTestMode(src)
	case "server", "console":
		egorun.Apply(curConfig(mode))
		o = runServerMode(src, mode == "console")
	default:
		o.Class = "error"
		o.Err = "unknown mode " + mode
	}

	return o
}

// runTestMode mirrors internal/commands/test.go TestAction for one file with --sandbox=true.
func runTestMode(src string) (o outcome) {
	oldDeep := settings.Get(defs.RuntimeDeepScopeSetting)

	defer func() {
		settings.SetDefault(defs.RuntimeDeepScopeSetting, oldDeep)
		settings.SetDefault(defs.ExtensionsEnabledSetting, defs.False)
		symbols.RootSymbolTable.SetAlways(defs.ExtensionsVariable, false)
	}()

	settings.SetDefault(defs.OptimizerSetting, strconv.Itoa(curOpt))
	settings.SetDefault(defs.ExtensionsEnabledSetting, defs.True)
	symbols.RootSymbolTable.SetAlways(defs.ExtensionsVariable, true)
	symbols.RootSymbolTable.SetAlways("_testcount", 0)
	symbols.RootSymbolTable.SetAlways("_testfailcount", 0)
	settings.SetDefault(defs.RuntimeDeepScopeSetting, "true")

	symbolTable := symbols.NewSymbolTable("Unit Tests").Shared(true)
	symbolTable.SetAlways(defs.ModeVariable, "test")
	symbolTable.SetAlways(defs.TypeCheckingVariable, defs.NoTypeEnforcement)

	t := tokenizer.New(src, true)

	comp := compiler.New("verif.ego").SetTestMode(true)
	compiler.AddStandard(symbolTable)
	_ = comp.AutoImport(true, symbolTable)

	for _, packageName := range compiler.GetAutoImportedPackages() {
		comp.DefineGlobalSymbol(packageName)
	}

	comp.SetInteractive(true)

	b, err := comp.Compile("verif.ego", t)
	if err != nil {
		o.Class = "compile-error"
		o.Err = err.Error()

		return o
	}

	ctx := bytecode.NewContext(symbolTable, b)
	ctx.EnableConsoleOutput(false)
	ctx.Sandboxed(true)

	err = ctx.Run()
	if errors.Equals(err, errors.ErrStop) {
		err = nil
	}

	o.Out = ctx.GetOutput()
	o.Class = "ok"

	if err != nil {
		o.Class = "error"
		o.Err = err.Error()
	}

	return o
}

const (
	editorSession  = "11111111-1111-4111-8111-111111111111"
	consoleSession = "22222222-2222-4222-8222-222222222222"
)

var serverRequests int

// runServerMode pushes src through admin.RunCodeHandler as a non-admin user
// (=> sandboxed), the way POST /admin/run reaches it, without the router's
// per-request recover().
func runServerMode(src string, console bool) (o outcome) {
	serverRequests++
	if serverRequests%200 == 0 { // keep the console table from growing without bound
		caches.Purge(caches.SymbolTableCache)
	}

	req := map[string]any{"code": src, "console": console, "session": editorSession}
	if console {
		req["session"] = consoleSession
	}

	body, _ := json.Marshal(req) // invalid UTF-8 becomes U+FFFD, exactly as a JSON client would have to send it
	r := httptest.NewRequest("POST", "/admin/run", bytes.NewReader(body))
	w := httptest.NewRecorder()
	s := &router.Session{ID: 1000 + serverRequests, User: "verif", Admin: false, Language: "en"}

	status := admin.RunCodeHandler(s, w, r)

	var resp struct {
		Output string `json:"output"`
		Error  string `json:"error"`
	}

	_ = json.Unmarshal(w.Body.Bytes(), &resp)
	o.Out = resp.Output

	switch {
	case status != 200:
		o.Class = "error"
		o.Err = fmt.Sprintf("HTTP %d %s", status, strings.TrimSpace(w.Body.String()))
	case resp.Error != "":
		o.Class = "error"
		o.Err = resp.Error
	default:
		o.Class = "ok"
	}

	return o
}

var (
	reArgs     = regexp.MustCompile(`\(.*$`)
	reGoexit   = regexp.MustCompile(`^(runtime|testing|net/http|reflect)\.`)
	reTypeArgs = regexp.MustCompile(`\[\.\.\.\]`)
)

// frameFuncs extracts the function names of a Go stack dump (one goroutine), in order.
func frameFuncs(stack string) []string {
	var out []string

	for _, ln := range strings.Split(stack, "\n") {
		if ln == "" || ln[0] == '\t' || ln[0] == ' ' || strings.HasPrefix(ln, "goroutine ") {
			continue
		}

		if !strings.Contains(ln, "(") && !strings.HasPrefix(ln, "created by ") {
			continue
		}

		if strings.HasPrefix(ln, "created by ") {
			ln = strings.TrimPrefix(ln, "created by ")
			if i := strings.Index(ln, " in goroutine"); i > 0 {
				ln = ln[:i]
			}

			out = append(out, "created-by:"+ln)

			continue
		}

		// strip the argument list: last "(" that starts the args
		if i := strings.LastIndex(ln, "("); i > 0 {
			ln = ln[:i]
		}

		out = append(out, reTypeArgs.ReplaceAllString(ln, ""))
	}

	return out
}

func shortFunc(f string) string {
	f = strings.TrimPrefix(f, "github.com/tucats/ego/internal/")
	f = strings.TrimPrefix(f, "github.com/tucats/ego/")

	// keep the last path element + function
	if i := strings.LastIndex(f, "/"); i >= 0 {
		f = f[i+1:]
	}

	return f
}

var debugSeq int

// runDebugSession starts a dashboard debug session (POST /admin/run with debug=true), which parks a goroutine
// waiting for debugger commands. abandon=true: the client never comes back and the session is evicted from the
// cache (caches.Delete fires the same eviction hook as expiry); abandon=false: the client sends "continue" and the
// program runs to its end.
func runDebugSession(src string, abandon bool) (o outcome) {
	debugSeq++
	id := fmt.Sprintf("33333333-3333-4333-8333-%012d", debugSeq)

	post := func(req map[string]any) (int, map[string]any) {
		body, _ := json.Marshal(req)
		r := httptest.NewRequest("POST", "/admin/run", bytes.NewReader(body))
		w := httptest.NewRecorder()
		s := &router.Session{ID: 9000 + debugSeq, User: "verif", Admin: false, Language: "en"}
		status := admin.RunCodeHandler(s, w, r)

		var resp map[string]any

		_ = json.Unmarshal(w.Body.Bytes(), &resp)

		return status, resp
	}

	status, resp := post(map[string]any{"code": src, "debug": true, "session": id})
	o.Class = fmt.Sprintf("http-%d", status)

	if e, _ := resp["error"].(string); e != "" {
		o.Err = e
	}

	if waiting, _ := resp["debugWaiting"].(bool); !waiting {
		o.Class += "-not-waiting"
	}

	if abandon {
		if caches.Delete(caches.DebugSessionCache, id) {
			o.Class += "-evicted"
		}

		return o
	}

	for i := 0; i < 5; i++ {
		_, resp = post(map[string]any{"debug": true, "debugInput": "continue", "session": id})
		if waiting, _ := resp["debugWaiting"].(bool); !waiting {
			o.Class += "-finished"

			break
		}
	}

	caches.Delete(caches.DebugSessionCache, id)

	return o
}

// crashSite returns the top ego frame (outside the harness) of a stack, and the
// standard-library function the panic came through, if any.
func crashSite(stack string) (site, via string) {
	fs := frameFuncs(stack)
	started := false

	for _, f := range fs {
		if strings.HasPrefix(f, "created-by:") {
			continue
		}

		if strings.HasPrefix(f, "panic") || strings.HasPrefix(f, "runtime.") || strings.HasPrefix(f, "runtime/debug.") {
			if strings.HasPrefix(f, "panic") || strings.Contains(f, "sigpanic") || strings.Contains(f, "gopanic") || strings.Contains(f, "panicmem") || strings.Contains(f, "goPanic") || strings.Contains(f, "panicIndex") || strings.Contains(f, "panicdivide") || strings.Contains(f, "panicSlice") || strings.Contains(f, "newstack") || strings.Contains(f, "throw") {
				started = true
			}

			continue
		}

		if !started && strings.Contains(f, "/verifh/") {
			continue // the recover() closure that took the stack
		}

		if strings.Contains(f, "github.com/tucats/ego/") && !strings.Contains(f, "/verifh/") {
			return shortFunc(f), via
		}

		if via == "" && !strings.Contains(f, "/verifh/") {
			via = shortFunc(f)
		}
	}

	return "unknown", via
}

// panicKey is the violation key of a recovered Go panic.
func panicKey(stack string) string {
	site, via := crashSite(stack)
	k := "panic:" + site

	if via != "" {
		k += ":via:" + via
	}

	return strings.ReplaceAll(k, " ", "")
}

var (
	reCrashHead = regexp.MustCompile(`(?m)^(panic: |fatal error: )(.*)$`)
	reGoStack   = regexp.MustCompile(`(?m)^(goroutine \d+ (gp=\S+ m=\S+ (mp=\S+ )?)?\[[^\]]+\]:|runtime stack:)$`)
)

// goCrash finds the first genuine Go crash report in text: a "panic: ..." or
// "fatal error: ..." line that is followed within a few lines by a Go stack
// header ("goroutine N [running]:" / "runtime stack:"). An Ego program's own
// unhandled panic() also prints a line "panic: <message>" (followed by
// "Call frames:"), which is program output, not a crash of the host.
// Returns kind ("panic" | "fatal"), the message, and the text from the header on; kind "" if none.
func goCrash(text string) (kind, msg, rest string) {
	for _, m := range reCrashHead.FindAllStringSubmatchIndex(text, -1) {
		tail := text[m[1]:]

		window := tail
		if len(window) > 1200 {
			window = window[:1200]
		}

		// the stack header must come within the next 8 lines
		lines := strings.SplitN(window, "\n", 10)
		if len(lines) > 9 {
			lines = lines[:9]
		}

		if !reGoStack.MatchString(strings.Join(lines, "\n")) {
			continue
		}

		kind = "panic"
		if text[m[2]:m[3]] == "fatal error: " {
			kind = "fatal"
		}

		return kind, text[m[4]:m[5]], text[m[0]:]
	}

	return "", "", ""
}

// fatalKey classifies the stderr of a dead child (or of the real ego binary):
// "" if it shows no Go crash.
func fatalKey(stderr string) string {
	kind, msg, rest := goCrash(stderr)

	switch kind {
	case "fatal":
		class := "other"

		switch {
		case strings.Contains(msg, "stack overflow"):
			class = "stack-overflow"
		case strings.Contains(msg, "concurrent map"):
			class = "concurrent-map"
		case strings.Contains(msg, "out of memory") || strings.Contains(msg, "cannot allocate"):
			class = "out-of-memory"
		case strings.Contains(msg, "all goroutines are asleep"):
			class = "deadlock"
		case strings.Contains(msg, "unlock of unlocked") || strings.Contains(msg, "RUnlock"):
			class = "bad-unlock"
		}

		return "fatal:" + class + ":" + fatalSite(rest, class)
	case "panic":
		// the first goroutine block after the panic line is the panicking one
		site, via := crashSite("panic()\n" + firstGoroutine(rest))
		k := "panic:" + site

		if via != "" {
			k += ":via:" + via
		}

		return strings.ReplaceAll(k, " ", "")
	}

	return ""
}

func firstGoroutine(s string) string {
	i := strings.Index(s, "goroutine ")
	if i < 0 {
		return s
	}

	s = s[i:]
	if j := strings.Index(s, "\n\n"); j > 0 {
		s = s[:j]
	}

	return s
}

// fatalSite names the function a fatal error is about: for a stack overflow the
// most frequent ego frame among the first 100 frames (the recursion), otherwise the top ego frame.
func fatalSite(rest, kind string) string {
	g := firstGoroutine(rest)
	fs := frameFuncs(g)

	if kind == "stack-overflow" {
		cnt := map[string]int{}
		best, bestN := "unknown", 0

		for i, f := range fs {
			if i > 120 {
				break
			}

			if strings.Contains(f, "github.com/tucats/ego/") && !strings.Contains(f, "/verifh/") {
				cnt[f]++
				if cnt[f] > bestN || (cnt[f] == bestN && f < best) {
					best, bestN = f, cnt[f]
				}
			}
		}

		// several functions of one recursion cycle have the same count: take the alphabetically first for stability
		for f, n := range cnt {
			if n == bestN && shortFunc(f) < shortFunc(best) {
				best = f
			}
		}

		return shortFunc(best)
	}

	for _, f := range fs {
		if strings.Contains(f, "github.com/tucats/ego/") && !strings.Contains(f, "/verifh/") {
			return shortFunc(f)
		}
	}

	return "unknown"
}
