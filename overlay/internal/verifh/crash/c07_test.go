package crash

// C07 — No source text crashes the host process.
//
// Process model: TestC07 is the PARENT. It generates inputs (deterministically
// from VERIF_SEED), writes each batch to $VERIF_ARENA/c07/..., and re-executes
// this very test binary with -test.run ^TestC07Worker$ as a CHILD. The child logs
// "B <i> <name>" to a progress file BEFORE it runs an input and "E <i> <class> <key>"
// after. A recovered Go panic, a Go `fatal error`, or the child dying while an
// input is current is a violation; Ego errors, step-budget stops and watchdog
// timeouts are not.

import (
	"bufio"
	"context"
	"encoding/base64"
	"encoding/json"
	"fmt"
	"math/rand"
	"os"
	"os/exec"
	"path/filepath"
	"runtime"
	"sort"
	"strconv"
	"strings"
	"sync"
	"syscall"
	"testing"
	"time"

	"github.com/tucats/ego/internal/verifh/vh"
)

type c07Input struct {
	Name   string `json:"name"`
	Mode   string `json:"mode"`
	Origin string `json:"origin"`          // seed file or generator
	Op     string `json:"op"`              // mutation operator(s)
	WdMs   int    `json:"wd_ms,omitempty"` // per-input watchdog override (deep nesting takes long to compile)
	Opt    int    `json:"opt"`             // interpreter configuration of this input: optimizer level 0..3,
	Reg    bool   `json:"reg"`             // registers,
	CF     bool   `json:"cf"`              // constant folding
	cfgSet bool
	src    string
	base   bool // unmutated corpus file
}

type c07Case struct {
	Mode   string `json:"mode"`
	Origin string `json:"origin,omitempty"`
	Op     string `json:"op,omitempty"`
	Opt    int    `json:"opt"`
	Reg    bool   `json:"reg"`
	CF     bool   `json:"cf"`
	SrcB64 string `json:"src_b64"`
	Src    string `json:"src_preview,omitempty"`
}

func caseOf(in *c07Input) c07Case {
	return c07Case{Mode: in.Mode, Origin: in.Origin, Op: in.Op, Opt: in.Opt, Reg: in.Reg, CF: in.CF, SrcB64: base64.StdEncoding.EncodeToString([]byte(in.src)), Src: vh.Trunc(strings.ToValidUTF8(in.src, "�"), 600)}
}

// ---------------------------------------------------------------- child

func envInt(name string, def int) int {
	if s := os.Getenv(name); s != "" {
		if n, err := strconv.Atoi(s); err == nil {
			return n
		}
	}

	return def
}

// TestC07Worker is the child: it only does something when VERIF_C07_BATCH names a batch directory.
func TestC07Worker(t *testing.T) {
	dir := os.Getenv("VERIF_C07_BATCH")
	if dir == "" {
		t.Skip("child of TestC07 only")
	}

	// A mutated program may ask for absurd amounts of memory: make that a Go
	// fatal error in this child instead of an OOM-killer event on the machine.
	lim := uint64(envInt("VERIF_C07_AS_GB", 12)) << 30
	_ = syscall.Setrlimit(syscall.RLIMIT_AS, &syscall.Rlimit{Cur: lim, Max: lim})

	start := envInt("VERIF_C07_START", 0)
	watchdog := time.Duration(envInt("VERIF_C07_WATCHDOG_MS", 5000)) * time.Millisecond

	var index []c07Input

	b, err := os.ReadFile(filepath.Join(dir, "index.json"))
	if err != nil || json.Unmarshal(b, &index) != nil {
		t.Fatalf("bad batch index: %v", err)
	}

	sandbox := filepath.Join(dir, "sandbox")
	initRunner(sandbox)
	_ = os.Chdir(sandbox)

	// Warm-up, not timed: the first execution in each mode pays one-time costs (auto-import of the runtime
	// packages, type initialisation). On a loaded machine that alone can exceed the per-input watchdog, and a
	// child that dies on its first input would make its successor pay the same cost again.
	for _, m := range modes {
		w := "import \"fmt\"\nfunc main() {\n fmt.Println(1)\n}\n"
		if m == "test" {
			w = "@test \"warm\"\n{\n @assert true\n}\n"
		}

		_ = runInput(m, w)
	}

	prog, err := os.OpenFile(filepath.Join(dir, "progress.log"), os.O_APPEND|os.O_CREATE|os.O_WRONLY, 0o644)
	if err != nil {
		t.Fatal(err)
	}

	for i := start; i < len(index); i++ {
		in := index[i]

		src, err := os.ReadFile(filepath.Join(dir, in.Name+".in"))
		if err != nil {
			t.Fatal(err)
		}

		fmt.Fprintf(prog, "B %d %s\n", i, in.Name)

		curOpt, curReg, curCF = in.Opt, in.Reg, in.CF

		done := make(chan outcome, 1)

		go func() { done <- runInput(in.Mode, string(src)) }()

		wd := watchdog
		if in.WdMs > 0 {
			wd = time.Duration(in.WdMs) * time.Millisecond
		}

		timer := time.NewTimer(wd)

		select {
		case o := <-done:
			timer.Stop()

			key := "-"
			if o.Class == "panic" {
				key = panicKey(o.Panic)
				_ = os.WriteFile(filepath.Join(dir, in.Name+".panic"), []byte(o.Panic), 0o644)
			}

			fmt.Fprintf(prog, "E %d %s %s\n", i, o.Class, key)
		case <-timer.C:
			// The input blocks (channel receive, sleep, lock) or loops outside the VM. The goroutine
			// cannot be stopped and may hold interpreter locks, so this child ends here; the parent
			// starts a new one on the remaining inputs. Watchdog = not a verdict.
			buf := make([]byte, 1<<20)
			buf = buf[:runtime.Stack(buf, true)]
			_ = os.WriteFile(filepath.Join(dir, in.Name+".timeout"), buf, 0o644)

			phase := "run"
			if strings.Contains(string(buf), "compiler.(*Compiler).Compile") {
				phase = "compile"
			}

			fmt.Fprintf(prog, "E %d timeout %s\n", i, phase)
			os.Exit(3)
		}
	}

	fmt.Fprintf(prog, "DONE\n")
}

// ---------------------------------------------------------------- parent: corpus and generators

type seedFile struct {
	path string
	text string
	toks []tok
	mode string // natural mode
}

func loadCorpus(t *testing.T) ([]seedFile, *pool) {
	root := os.Getenv("VERIF_EGO_SRC")
	if root == "" {
		t.Fatal("VERIF_EGO_SRC not set")
	}

	var seeds []seedFile

	p := newPool()

	for _, sub := range []string{"tests", "lib/packages", "examples", "lib/services"} {
		_ = filepath.Walk(filepath.Join(root, sub), func(path string, info os.FileInfo, err error) error {
			if err != nil || info.IsDir() || !strings.HasSuffix(path, ".ego") || info.Size() > 60_000 {
				return nil
			}

			b, err := os.ReadFile(path)
			if err != nil {
				return nil
			}

			rel, _ := filepath.Rel(root, path)
			s := seedFile{path: rel, text: string(b), toks: lex(string(b)), mode: "run"}

			if strings.Contains(s.text, "@test") {
				s.mode = "test"
			}

			for _, tk := range s.toks {
				p.add(tk)
			}

			seeds = append(seeds, s)

			return nil
		})
	}

	sort.Slice(seeds, func(i, j int) bool { return seeds[i].path < seeds[j].path })

	if len(seeds) < 50 {
		t.Fatalf("corpus too small: %d files under %s", len(seeds), root)
	}

	return seeds, p
}

// safeMode keeps the host safe: test mode can lift the sandbox with the @sandbox
// directive, so any text that mentions it is not run in test mode.
func safeMode(mode, src string) string {
	if mode == "test" && strings.Contains(src, "sandbox") {
		return "run"
	}

	return mode
}

func pickMode(rng *rand.Rand, natural string) string {
	x := rng.Intn(100)

	switch natural {
	case "test":
		switch {
		case x < 70:
			return "test"
		case x < 80:
			return "server"
		case x < 86:
			return "console"
		case x < 93:
			return "fragment"
		default:
			return "run"
		}
	default:
		switch {
		case x < 55:
			return "run"
		case x < 72:
			return "server"
		case x < 82:
			return "console"
		case x < 92:
			return "fragment"
		default:
			return "test"
		}
	}
}

type generator struct {
	rng    *rand.Rand
	seeds  []seedFile
	pool   *pool
	extra  []seedFile // generated programs (verifh/gen) when available
	nestNs []int
}

func (g *generator) randomBytes() (string, string) {
	rng := g.rng
	n := 1 + rng.Intn(400)

	switch rng.Intn(4) {
	case 0: // raw bytes
		b := make([]byte, n)
		rng.Read(b)

		return string(b), "bytes"
	case 1: // printable ASCII
		b := make([]byte, n)
		for i := range b {
			b[i] = byte(32 + rng.Intn(95))
			if rng.Intn(30) == 0 {
				b[i] = '\n'
			}
		}

		return string(b), "ascii"
	case 2: // punctuation heavy
		const punct = "(){}[]<>=+-*/%&|^!~.,;:@#$?\\\"'` \n\t0123456789abcXYZ_"

		b := make([]byte, n)
		for i := range b {
			b[i] = punct[rng.Intn(len(punct))]
		}

		return string(b), "punct"
	default: // token soup from the pool
		var sb strings.Builder

		k := 1 + rng.Intn(120)
		for i := 0; i < k; i++ {
			sb.WriteString(g.pool.pickOther(rng, clsSpace).s)

			if rng.Intn(8) == 0 {
				sb.WriteByte('\n')
			} else if rng.Intn(4) > 0 {
				sb.WriteByte(' ')
			}
		}

		return sb.String(), "token-soup"
	}
}

// next produces one input.
func (g *generator) next() *c07Input {
	rng := g.rng
	x := rng.Intn(1000)

	switch os.Getenv("VERIF_C07_ONLY") { // experiments only
	case "illtyped":
		x = 100 + x%200
	case "nest":
		x = 70 + x%15
	case "random":
		x = x % 70
	case "shape":
		x = 330 + x%70
	case "conc":
		x = 400 + x%20
	case "const":
		x = 420 + x%60
	case "mutation":
		x = 480 + x%520
	}

	switch {
	case x < 70:
		s, kind := g.randomBytes()
		in := &c07Input{Origin: "random:" + kind, Op: "random", src: s}

		if rng.Intn(3) == 0 { // inside a function body, so that the statement parser sees it
			in.src = "func main() {\n" + s + "\n}\n"
			in.Origin += ":in-main"
		}

		in.Mode = modes[rng.Intn(len(modes))]

		return in
	case x < 85:
		if rng.Intn(4) > 0 { // deep nesting is slow to compile: keep it to ~0.4 % of the stream (every shape also has a directed probe)
			return g.next()
		}

		kind := nestKinds[rng.Intn(len(nestKinds))]
		n := g.nestNs[rng.Intn(len(g.nestNs))]
		n = n/2 + rng.Intn(n/2+1)
		in := &c07Input{Origin: fmt.Sprintf("nest:%s:%d", kind, n), Op: "nest", src: deepNest(kind, n), WdMs: 30000}
		in.Mode = []string{"run", "run", "server", "test", "fragment"}[rng.Intn(5)]

		if in.Mode == "test" {
			in.src = "@test \"nest\"\n{\n" + strings.Replace(strings.Replace(in.src, "func main() {", "{", 1), "fmt.Println", "_ = fmt.Sprint", -1) + "\n}\n"
		}

		return in
	}

	if x < 330 {
		src, kind := illtyped(rng)
		in := &c07Input{Origin: "generated:illtyped", Op: kind, src: src}

		switch y := rng.Intn(100); {
		case y < 45:
			in.Mode = "run"
		case y < 65:
			in.Mode = "test"
			in.src = strings.Replace(src, "func main() {", "@test \"illtyped\"\n{", 1)
		case y < 85:
			in.Mode = "server"
			in.src = src + "main()\n"
		case y < 90:
			in.Mode = "console"
			in.src = src + "main()\n"
		default:
			in.Mode = "fragment"
			in.src = src + "main()\n"
		}

		return in
	}

	if x < 400 {
		src, kind := shapeRandom(rng)
		in := &c07Input{Origin: "generated:shape", Op: kind, src: src, Mode: "run"}

		switch y := rng.Intn(10); {
		case y < 2:
			in.Mode = "test"
			in.src = strings.Replace(src, "func main() {", "@test \"shape\"\n{", 1)
		case y < 4:
			in.Mode = "server"
			in.src = src + "main()\n"
		}

		return in
	}

	if x < 420 {
		src, kind := concRandom(rng)
		in := &c07Input{Origin: "generated:conc", Op: kind, src: src, Mode: "run", WdMs: 3000}

		if rng.Intn(4) == 0 {
			in.Mode = "server"
			in.src = src + "main()\n"
		}

		return in
	}

	if x < 480 {
		src, kind := constRandom(rng)
		o := 1 + rng.Intn(3)

		return &c07Input{Origin: "generated:const", Op: kind, src: src, Mode: []string{"run", "run", "run", "fragment"}[rng.Intn(4)], Opt: o, Reg: o == 3 || rng.Intn(2) == 0, CF: o == 3 || rng.Intn(4) > 0, cfgSet: true}
	}

	pool := g.seeds
	if len(g.extra) > 0 && rng.Intn(4) == 0 {
		pool = g.extra
	}

	sf := &pool[rng.Intn(len(pool))]
	other := &g.seeds[rng.Intn(len(g.seeds))]

	nops := 1
	if rng.Intn(100) < 40 {
		nops = 2 + rng.Intn(5)
	}

	text := sf.text
	toks := sf.toks

	var ops []string

	for k := 0; k < nops; k++ {
		op := mutationOps[rng.Intn(len(mutationOps))]
		ops = append(ops, op)
		text = mutate(rng, op, toks, other.toks, g.pool)

		if k+1 < nops {
			toks = lex(text)
		}
	}

	return &c07Input{Origin: sf.path, Op: strings.Join(ops, "+"), src: text, Mode: pickMode(rng, sf.mode)}
}

// ---------------------------------------------------------------- parent: running batches

type c07Result struct {
	in     *c07Input
	class  string // ok error compile-error budget panic timeout died-fatal died-other watchdog not-run
	key    string
	detail string
}

type batchRunner struct {
	t        *testing.T
	r        *vh.Report
	root     string
	watchdog int // ms per input in the child
	mu       sync.Mutex
	children int64
}

func tailFile(path string, n int) string {
	b, err := os.ReadFile(path)
	if err != nil {
		return ""
	}

	if len(b) > n {
		b = b[len(b)-n:]
	}

	return string(b)
}

// headOfCrash returns the part of a child log that starts at the Go crash report.
func headOfCrash(path string, n int) string {
	b, err := os.ReadFile(path)
	if err != nil {
		return ""
	}

	s := string(b)
	i := -1

	if kind, _, rest := goCrash(s); kind != "" {
		i = len(s) - len(rest)
	}

	if i < 0 {
		i = 0
		if len(s) > n {
			i = len(s) - n
		}
	}

	s = s[i:]
	if len(s) > n {
		s = s[:n]
	}

	return s
}

// runBatch writes the inputs to dir and drives children over them until every input has a result.
func (br *batchRunner) runBatch(dir string, inputs []*c07Input) []c07Result {
	t := br.t

	if err := os.MkdirAll(filepath.Join(dir, "sandbox"), 0o755); err != nil {
		t.Fatal(err)
	}

	idx := make([]c07Input, len(inputs))
	for i, in := range inputs {
		if !in.cfgSet { // rotate the interpreter configuration across inputs: 4 optimizer levels x registers x constant folding
			in.Opt, in.Reg, in.CF, in.cfgSet = i%4, (i/4)%2 == 1, (i/8)%2 == 1, true
		}

		idx[i] = *in
		if err := os.WriteFile(filepath.Join(dir, in.Name+".in"), []byte(in.src), 0o644); err != nil {
			t.Fatal(err)
		}
	}

	b, _ := json.Marshal(idx)
	if err := os.WriteFile(filepath.Join(dir, "index.json"), b, 0o644); err != nil {
		t.Fatal(err)
	}

	res := make([]c07Result, len(inputs))
	for i := range res {
		res[i] = c07Result{in: inputs[i], class: "not-run"}
	}

	progPath := filepath.Join(dir, "progress.log")
	start := 0
	stuck := 0

	for gen := 0; start < len(inputs); gen++ {
		logPath := filepath.Join(dir, fmt.Sprintf("child-%d.log", gen))
		remaining := len(inputs) - start
		// watchdog for the whole child: generous, and it must cover the per-input watchdogs of slow (deep nesting) inputs
		budget := time.Duration(120+remaining)*time.Second + time.Duration(br.watchdog)*time.Millisecond*2

		for _, in := range inputs[start:] {
			if in.WdMs > 0 {
				budget += time.Duration(in.WdMs) * time.Millisecond
			}
		}

		ctx, cancel := context.WithTimeout(context.Background(), budget)
		cmd := exec.CommandContext(ctx, selfExe(), "-test.run", "^TestC07Worker$", "-test.timeout", "0", "-test.count", "1")
		cmd.Env = append(filterEnv(os.Environ(), "VERIF_OUT", "VERIF_REPLAY", "GOTRACEBACK", "GOMAXPROCS"),
			"GOMAXPROCS=4",
			"VERIF_C07_BATCH="+dir, "VERIF_C07_START="+strconv.Itoa(start), "VERIF_C07_WATCHDOG_MS="+strconv.Itoa(br.watchdog), "GOTRACEBACK=single")
		cmd.Dir = dir

		lf, _ := os.Create(logPath)
		cmd.Stdout, cmd.Stderr = lf, lf
		cmd.Stdin = nil
		cmd.WaitDelay = 5 * time.Second

		err := cmd.Run()
		lf.Close()

		killedByUs := ctx.Err() != nil
		cancel()

		br.mu.Lock()
		br.children++
		br.mu.Unlock()

		// read the progress so far
		lastB := -1
		doneSeen := false

		if f, e := os.Open(progPath); e == nil {
			sc := bufio.NewScanner(f)
			sc.Buffer(make([]byte, 1<<20), 1<<20)

			for sc.Scan() {
				fs := strings.Fields(sc.Text())
				if len(fs) == 1 && fs[0] == "DONE" {
					doneSeen = true

					continue
				}

				if len(fs) < 3 {
					continue
				}

				i, e := strconv.Atoi(fs[1])
				if e != nil || i < 0 || i >= len(res) {
					continue
				}

				switch fs[0] {
				case "B":
					if i > lastB {
						lastB = i
					}

					if res[i].class == "not-run" {
						res[i].class = "started"
					}
				case "E":
					res[i].class = fs[2]
					if len(fs) > 3 {
						res[i].key = fs[3]
					}
				}
			}

			f.Close()
		}

		exitCode := -1
		if cmd.ProcessState != nil {
			exitCode = cmd.ProcessState.ExitCode()
		}

		if err == nil && doneSeen {
			break
		}

		if lastB < start {
			// the child never reached an input: harness trouble, not a verdict
			stuck++
			if stuck >= 2 {
				br.r.Inconcl(fmt.Sprintf("child could not start on batch %s at %d (exit %d, %v): %s", filepath.Base(dir), start, exitCode, err, vh.Trunc(tailFile(logPath, 600), 600)))

				break
			}

			continue
		}

		cur := &res[lastB]

		switch {
		case cur.class == "timeout":
			// clean watchdog exit (code 3)
		case cur.class != "started":
			// the child finished input lastB and then died between inputs (e.g. a left-over goroutine panicked)
			log := headOfCrash(logPath, 6000)
			if k := fatalKey(log); k != "" && !killedByUs {
				res = append(res, c07Result{in: cur.in, class: "died-fatal", key: k, detail: "child died AFTER finishing this input (a goroutine it left behind?)\n" + log})
			} else if !killedByUs {
				br.r.Inconcl(fmt.Sprintf("child exited with code %d between inputs after %s: %s", exitCode, cur.in.Name, vh.Trunc(tailFile(logPath, 300), 300)))
			}
		case killedByUs:
			cur.class = "watchdog"
		default:
			log := headOfCrash(logPath, 8000)
			if k := fatalKey(log); k != "" {
				cur.class, cur.key, cur.detail = "died-fatal", k, log
			} else {
				cur.class, cur.detail = "died-other", fmt.Sprintf("exit code %d; log tail: %s", exitCode, tailFile(logPath, 1500))
			}
		}

		start = lastB + 1
	}

	return res
}

func selfExe() string {
	if p, err := os.Executable(); err == nil {
		return p
	}

	p, _ := filepath.Abs(os.Args[0])

	return p
}

func filterEnv(env []string, drop ...string) []string {
	out := env[:0:0]

outer:
	for _, e := range env {
		for _, d := range drop {
			if strings.HasPrefix(e, d+"=") {
				continue outer
			}
		}

		out = append(out, e)
	}

	return out
}

// cliRun pushes one input through the real ego binary; returns (crashKey, description).
func cliRun(ego, dir string, in *c07Input, idx int) (string, string) {
	work := filepath.Join(dir, "cli")
	_ = os.MkdirAll(work, 0o755)

	file := filepath.Join(work, fmt.Sprintf("cli-%d.ego", idx))
	_ = os.WriteFile(file, []byte(in.src), 0o644)

	ctx, cancel := context.WithTimeout(context.Background(), time.Duration(envInt("VERIF_C07_CLI_TIMEOUT_S", 90))*time.Second)
	defer cancel()

	var cmd *exec.Cmd

	how := ""

	switch in.Mode {
	case "test":
		cmd = exec.CommandContext(ctx, ego, "test", "--sandbox=true", file)
		how = "ego test --sandbox=true <file>"
	case "run":
		cmd = exec.CommandContext(ctx, ego, "run", "--sandbox=true", "--optimize", strconv.Itoa(in.Opt), file)
		how = "ego run --sandbox=true <file>"
	default: // fragment / server / console: the REPL path, source piped on stdin
		cmd = exec.CommandContext(ctx, ego, "run", "--sandbox=true", "--optimize", strconv.Itoa(in.Opt))
		cmd.Stdin = strings.NewReader(in.src)
		how = "ego run --sandbox=true < file"
	}

	cmd.Dir = work
	cmd.Env = append(filterEnv(os.Environ(), "HOME", "EGO_PATH", "GOTRACEBACK"), "HOME="+os.Getenv("VERIF_HOME"), "GOTRACEBACK=single")
	cmd.WaitDelay = 3 * time.Second

	var errb, outb strings.Builder

	cmd.Stdout, cmd.Stderr = &outb, &errb
	err := cmd.Run()

	if ctx.Err() != nil {
		return "", how + ": timeout (not judged)"
	}

	text := errb.String() + "\n" + outb.String()
	if k := fatalKey(text); k != "" {
		return k, how + ": CRASHED, " + k
	}

	code := 0
	if err != nil && cmd.ProcessState != nil {
		code = cmd.ProcessState.ExitCode()
	}

	return "", fmt.Sprintf("%s: no Go crash (exit %d)", how, code)
}

// c07Probes are minimal failing inputs of the findings recorded in known_findings.d/C07.txt;
// every run executes them, so a finding stays under test whatever the random stream does.
var c07Probes = []struct{ key, mode, src string }{
	{"panic:bytecode.addByteCode", "run", "import \"fmt\"\nfunc main() {\n x := 1 + int\n fmt.Println(x)\n}\n"},
	{"panic:bytecode.subtractByteCode", "run", "import \"fmt\"\nfunc main() {\n x := 1.5 - float64\n fmt.Println(x)\n}\n"},
	{"panic:bytecode.multiplyByteCode", "run", "import \"fmt\"\nfunc main() {\n x := 2 * []int{1, 2}\n fmt.Println(x)\n}\n"},
	{"panic:bytecode.divideByteCode", "run", "import \"fmt\"\nfunc main() {\n x := 1 / int\n fmt.Println(x)\n}\n"},
	{"panic:bytecode.moduloByteCode", "run", "import \"fmt\"\nfunc main() {\n x := 7 % int\n fmt.Println(x)\n}\n"},
	{"panic:bytecode.greaterThanByteCode", "run", "import \"fmt\"\nfunc main() {\n fmt.Println(1 > float64)\n}\n"},
	{"panic:bytecode.greaterThanOrEqualByteCode", "run", "import \"fmt\"\nfunc main() {\n fmt.Println(1 >= float64)\n}\n"},
	{"panic:bytecode.lessThanByteCode", "run", "import \"fmt\"\nfunc main() {\n fmt.Println(1 < float64)\n}\n"},
	{"panic:bytecode.lessThanOrEqualByteCode", "run", "import \"fmt\"\nfunc main() {\n fmt.Println(1 <= float64)\n}\n"},
	{"panic:data.TypeOf", "test", "@test \"probe\"\n{\n x := T.assert.foo\n fmt.Println(x)\n}\n"},
	{"panic:math.minimum", "run", "import \"fmt\"\nimport \"math\"\nfunc main() {\n fmt.Println(math.Min())\n}\n"},
	{"panic:math.maximum", "run", "import \"fmt\"\nimport \"math\"\nfunc main() {\n fmt.Println(math.Max())\n}\n"},
	{"panic:math.sum", "run", "import \"fmt\"\nimport \"math\"\nfunc main() {\n fmt.Println(math.Sum())\n}\n"},
	{"panic:compiler.(*Compiler).testDirective", "test", "@test \"\"\n{\n @assert true\n}\n"},
	{"panic:data.(*Array).Make", "run", "import \"fmt\"\nfunc main() {\n a := make([]string{\"a\"}, 9223372036854775807)\n fmt.Println(len(a))\n}\n"},
	{"panic:builtins.Make", "run", "import \"fmt\"\nfunc main() {\n a := make([]int, 9223372036854775807)\n fmt.Println(len(a))\n}\n"},
	{"fatal:out-of-memory:builtins.Make", "run", "import \"fmt\"\nfunc main() {\n a := make([]int, 1099511627776)\n fmt.Println(len(a))\n}\n"},
	{"panic:bytecode.exponentByteCode", "run", "import \"fmt\"\nfunc main() {\n fmt.Println(2.5 ^ 2)\n}\n"},
}

func TestC07(t *testing.T) {
	r := vh.New("C07", "crash")
	r.Rule = "inputs = token-level mutations (13 operators, 1-6 per input) of every .ego file under tests/, lib/packages, lib/services, examples and of programs from the shared generator verifh/gen (a quarter of the mutants), plus raw random bytes / ASCII / punctuation / token soup, " +
		"plus 35 deep-nesting shapes, plus generated ill-typed statements (130 statement templates x 150 operand atoms: types, packages, functions, nil, collections where values are expected), composite literals of the wrong shape for declared struct/array/map types (120 directed + random), 40 concurrency crash shapes with real goroutines (close under a parked sender, double close, send after close, negative WaitGroup, foreign Unlock, panicking goroutines, @wait on blocked goroutines); constant expressions aimed at the compile-time folder (every operator x zero/extreme constants of every numeric kind, division/modulo/shift by zero-valued typed consts, overflowing products, string*int; directed at 5 optimizer configurations + random); each is run in one of 5 modes (run, fragment=piped stdin, test, server=admin.RunCodeHandler editor, console) and the interpreter configuration rotates across inputs (optimizer level 0..3 x registers x constant folding). " +
		"distinct = distinct (mode, bytes); non-trivial = not byte-identical to an unmutated corpus file and non-empty."
	r.Assume("the harness child (egorun / TestAction mirror / direct RunCodeHandler call) reaches the same compiler and VM code as the ego binary; every violation witness is re-run through the real binary and the result recorded")
	r.Assume("a watchdog timeout (input still running after the per-input real-time limit) is not a verdict")

	defer func() { _ = r.Write() }()

	arena := os.Getenv("VERIF_ARENA")
	if arena == "" {
		arena, _ = os.MkdirTemp("", "c07-arena-")
	}

	root := filepath.Join(arena, "c07")
	_ = os.RemoveAll(root)

	if err := os.MkdirAll(root, 0o755); err != nil {
		t.Fatal(err)
	}

	ego := filepath.Join(os.Getenv("VERIF_BIN"), "ego")
	if _, err := os.Stat(ego); err != nil {
		ego = ""

		r.Inconcl("no ego binary in $VERIF_BIN: REPL-path sample and CLI confirmation of witnesses skipped")
	}

	seeds, pl := loadCorpus(t)
	r.Count("corpus.files", int64(len(seeds)))

	br := &batchRunner{t: t, r: r, root: root, watchdog: envInt("VERIF_C07_WATCHDOG_MS", 4000)}

	var (
		resMu     sync.Mutex
		cliCount  = map[string]int{}
		slowSeeds = map[string]bool{}
		cliIdx    int
		sampled   int
	)

	record := func(dir string, results []c07Result) {
		resMu.Lock()
		defer resMu.Unlock()

		for i := range results {
			res := &results[i]
			in := res.in
			id := vh.Hash(in.Mode, in.src)

			if res.class == "died-fatal" && strings.HasPrefix(res.detail, "child died AFTER") {
				// extra record for a between-inputs death; the input itself was already counted
			} else {
				r.Eval(id, !in.base && len(in.src) > 0)
				r.Count("outcome."+res.class, 1)
				r.Count("mode."+in.Mode, 1)
				r.Count(fmt.Sprintf("config.o%d.reg=%t.cf=%t", in.Opt, in.Reg, in.CF), 1)

				switch {
				case strings.HasPrefix(in.Origin, "generated:gen"):
					r.Count("seed.verifh-gen", 1)
				case strings.HasPrefix(in.Origin, "generated:illtyped"):
					r.Count("seed.illtyped", 1)
				case strings.HasPrefix(in.Origin, "generated:const"):
					r.Count("seed.const", 1)
				case strings.HasPrefix(in.Origin, "generated:shape"):
					r.Count("seed.shape", 1)
				case strings.HasPrefix(in.Origin, "generated:conc"):
					r.Count("seed.conc", 1)
				case strings.HasPrefix(in.Origin, "random:"):
					r.Count("seed.random", 1)
				case strings.HasPrefix(in.Origin, "nest:"):
					r.Count("seed.nest", 1)
				case strings.HasPrefix(in.Origin, "probe:"):
					r.Count("seed.probe", 1)
				default:
					r.Count("seed.corpus", 1)
				}

				if strings.HasPrefix(in.Op, "illtyped:") {
					r.Count("op.illtyped", 1)
				} else if strings.HasPrefix(in.Op, "const:") {
					r.Count("op.const", 1)
				} else if strings.HasPrefix(in.Op, "shape:") || strings.HasPrefix(in.Op, "conc:") {
					r.Count("op."+in.Op, 1)
				} else {
					for _, op := range strings.Split(in.Op, "+") {
						r.Count("op."+op, 1)
					}
				}
			}

			switch res.class {
			case "panic", "died-fatal":
				stack := res.detail
				if res.class == "panic" {
					b, _ := os.ReadFile(filepath.Join(dir, in.Name+".panic"))
					stack = string(b)
				}

				key := res.key
				if key == "" || key == "-" {
					key = "panic:unknown"
				}

				desc := fmt.Sprintf("%s in mode %s on a %s of %s", map[string]string{"panic": "recovered Go panic", "died-fatal": "child process died with a Go crash"}[res.class], in.Mode, in.Op, in.Origin)

				if ego != "" && cliCount[key] < 2 {
					cliCount[key]++
					cliIdx++
					k, how := cliRun(ego, root, in, cliIdx)
					r.Count("cli.witness_reruns", 1)

					if k != "" {
						r.Count("cli.witness_crashed", 1)
					}

					desc += "; real binary: " + how
				}

				first := strings.SplitN(stack, "\n", 2)[0]
				r.Violate(vh.Violation{Key: key, Desc: desc + "; " + vh.Trunc(first, 200), Case: caseOf(in), Expected: "program output, an Ego error, or a timeout", Observed: vh.Trunc(stack, 3000)})
			case "died-other":
				r.Inconcl(fmt.Sprintf("child exited on input %s (mode %s, %s of %s) without a Go crash report: %s", in.Name, in.Mode, in.Op, in.Origin, vh.Trunc(res.detail, 400)))
			case "watchdog":
				r.Inconcl(fmt.Sprintf("batch watchdog killed the child on %s (mode %s, %s of %s)", in.Name, in.Mode, in.Op, in.Origin))
			case "timeout":
				r.Count("timeout.phase."+res.key, 1)

				if in.base {
					slowSeeds[in.Origin] = true
				}
			case "budget":
				if in.base {
					slowSeeds[in.Origin] = true
				}
			case "not-run", "started":
				r.Count("not-evaluated", 1)
			}

			if sampled < 6 && res.class != "not-run" && (r.Evaluations%977 == 3 || res.class == "budget" && sampled < 2) {
				sampled++

				r.Sample(map[string]any{"mode": in.Mode, "origin": in.Origin, "op": in.Op, "outcome": res.class, "src": vh.Trunc(strings.ToValidUTF8(in.src, "�"), 300)})
			}
		}
	}

	// ---- replay of a single stored case
	if c := vh.ReplayCase(); c != nil {
		var rc c07Case
		if json.Unmarshal(c, &rc) != nil {
			t.Fatal("bad replay case")
		}

		src, _ := base64.StdEncoding.DecodeString(rc.SrcB64)
		in := &c07Input{Name: "replay-0", Mode: rc.Mode, Origin: rc.Origin, Op: rc.Op, src: string(src), Opt: rc.Opt, Reg: rc.Reg, CF: rc.CF, cfgSet: true}
		dir := filepath.Join(root, "replay")
		record(dir, br.runBatch(dir, []*c07Input{in}))
		r.Distinct = 2

		return
	}

	total := vh.N(5000, 300000)
	workers := 12

	if n := runtime.NumCPU() * 3 / 4; n < workers {
		workers = n
	}

	if workers < 1 {
		workers = 1
	}

	batchSize := 400
	nestNs := []int{50, 500, 3000}

	if vh.Tier() == "thorough" {
		nestNs = []int{50, 500, 3000, 12000}
		batchSize = 1500
	}

	// ---- batch 0: the unmutated corpus in its natural mode (shows the harness runs real programs)
	{
		var ins []*c07Input
		for i := range seeds {
			s := &seeds[i]
			ins = append(ins, &c07Input{Name: fmt.Sprintf("base-%04d", i), Mode: safeMode(s.mode, s.text), Origin: s.path, Op: "none", src: s.text, base: true})
		}

		// and directed deep-nesting probes at the documented depth 10^4 for every shape
		// directed deep-nesting probes: depth 10^4 for the shapes the design names (parentheses, blocks, unary and
		// binary chains) and, in the thorough tier, for every shape; the others run at 2*10^3 in the quick tier
		named := map[string]bool{"parens": true, "blocks": true, "unary-minus": true, "unary-not": true, "binary-chain": true, "paren-open-only": true, "brace-open-only": true, "close-only": true}

		for i, k := range nestKinds {
			depth, wd := 10000, 120000
			if !named[k] && vh.Tier() != "thorough" {
				depth, wd = 2000, 60000
			}

			ins = append(ins, &c07Input{Name: fmt.Sprintf("nest-%02d", i), Mode: "run", Origin: fmt.Sprintf("nest:%s:%d", k, depth), Op: "nest", src: deepNest(k, depth), WdMs: wd})
		}

		// directed composite-literal shapes (each in run mode and in one more mode) and concurrency crash shapes
		for i, st := range shapeStatements {
			src := shapeProgram(st)
			ins = append(ins, &c07Input{Name: fmt.Sprintf("shape-%03d", i), Mode: "run", Origin: "generated:shape", Op: "shape:directed", src: src})

			switch i % 3 {
			case 0:
				ins = append(ins, &c07Input{Name: fmt.Sprintf("shape-%03d-t", i), Mode: "test", Origin: "generated:shape", Op: "shape:directed", src: strings.Replace(src, "func main() {", "@test \"shape\"\n{", 1)})
			case 1:
				ins = append(ins, &c07Input{Name: fmt.Sprintf("shape-%03d-s", i), Mode: "server", Origin: "generated:shape", Op: "shape:directed", src: src + "main()\n"})
			}
		}

		for i := range concPrograms {
			for j, pr := range [][2]int{{0, 2}, {1, 3}} {
				ins = append(ins, &c07Input{Name: fmt.Sprintf("conc-%02d-%d", i, j), Mode: "run", Origin: "generated:conc", Op: "conc:" + concPrograms[i].name, src: concProgram(i, pr[0], pr[1]), WdMs: 3000})
			}
		}

		// directed constant expressions for the compile-time folder, at explicit optimizer configurations
		nConst := 0

		for i, cc := range constDirected() {
			cfgs := [][3]int{constConfigs[i%len(constConfigs)]}
			if (strings.Contains(cc.desc, ":/:") || strings.Contains(cc.desc, ":%:")) && i%2 == 0 || strings.HasPrefix(cc.desc, "const:expr:") {
				cfgs = constConfigs[:4] // division and modulo shapes: the four optimizing configurations
			}

			for j, cf := range cfgs {
				ins = append(ins, &c07Input{Name: fmt.Sprintf("const-%04d-%d", i, j), Mode: "run", Origin: "generated:const", Op: cc.desc, src: cc.src, Opt: cf[0], Reg: cf[1] == 1, CF: cf[2] == 1, cfgSet: true})
				nConst++
			}
		}

		r.Count("const.directed_runs", int64(nConst))

		for i, p := range c07Probes {
			ins = append(ins, &c07Input{Name: fmt.Sprintf("probe-%02d", i), Mode: p.mode, Origin: "probe:" + p.key, Op: "probe", src: p.src})
			r.Probe(p.key)
		}

		if vh.Tier() == "thorough" {
			for i, k := range nestKinds {
				ins = append(ins, &c07Input{Name: fmt.Sprintf("nestL-%02d", i), Mode: "run", Origin: "nest:" + k + ":100000", Op: "nest", src: deepNest(k, 100000), WdMs: 240000})
			}
		}

		var wg sync.WaitGroup

		// round-robin, so that the slow inputs (deep nesting) are spread over all workers
		parts := make([][]*c07Input, workers)
		for i, in := range ins {
			parts[i%workers] = append(parts[i%workers], in)
		}

		for w := 0; w < workers; w++ {
			if len(parts[w]) == 0 {
				continue
			}

			wg.Add(1)

			go func(w int, part []*c07Input) {
				defer wg.Done()

				dir := filepath.Join(root, fmt.Sprintf("base-w%d", w))
				record(dir, br.runBatch(dir, part))
			}(w, parts[w])
		}

		wg.Wait()
	}

	// seeds whose unmutated run hits the watchdog or the step budget (bcrypt loops, swarm.ego ...) are not used as
	// mutation seeds: almost every mutant would only burn the watchdog again
	{
		slow := map[string]bool{}

		resMu.Lock()
		for o := range slowSeeds {
			slow[o] = true
		}
		resMu.Unlock()

		kept := seeds[:0:0]

		for _, s := range seeds {
			if !slow[s.path] {
				kept = append(kept, s)
			}
		}

		r.Count("corpus.seeds_excluded_slow", int64(len(seeds)-len(kept)))
		seeds = kept
	}

	baseOK := r.Counters["outcome.ok"]
	r.Count("baseline.corpus_ok", baseOK)

	// ---- main stream
	remaining := total - (int(r.Evaluations) - int(r.Counters["const.directed_runs"]))
	if remaining < 0 {
		remaining = 0
	}

	per := (remaining + workers - 1) / workers

	var (
		wg       sync.WaitGroup
		replMu   sync.Mutex
		replList []*c07Input
	)

	for w := 0; w < workers; w++ {
		wg.Add(1)

		go func(w int) {
			defer wg.Done()

			g := &generator{rng: vh.Rand(fmt.Sprintf("c07/w%d", w)), seeds: seeds, pool: pl, nestNs: nestNs, extra: generatedSeeds(w)}

			for done, bn := 0, 0; done < per; bn++ {
				n := batchSize
				if per-done < n {
					n = per - done
				}

				ins := make([]*c07Input, n)
				for i := range ins {
					in := g.next()
					in.Mode = safeMode(in.Mode, in.src)
					in.Name = fmt.Sprintf("w%d-b%d-%04d", w, bn, i)
					ins[i] = in

					if g.rng.Intn(100) == 0 {
						replMu.Lock()
						replList = append(replList, in)
						replMu.Unlock()
					}
				}

				dir := filepath.Join(root, fmt.Sprintf("w%d-b%d", w, bn))
				results := br.runBatch(dir, ins)
				record(dir, results)

				// keep only the files of inputs that matter
				keep := false

				for _, res := range results {
					if res.class == "panic" || res.class == "died-fatal" || res.class == "died-other" || (res.class == "timeout" && os.Getenv("VERIF_C07_KEEP_TIMEOUTS") != "") {
						keep = true
					}
				}

				if !keep {
					_ = os.RemoveAll(dir)
				}

				done += n
			}
		}(w)
	}

	wg.Wait()

	// ---- REPL path: ~1 % of the inputs as real `ego run` processes with piped stdin
	if ego != "" {
		sort.Slice(replList, func(i, j int) bool { return replList[i].Name < replList[j].Name })

		sem := make(chan struct{}, 12)

		var rw sync.WaitGroup

		for i, in := range replList {
			rw.Add(1)

			sem <- struct{}{}

			go func(i int, in *c07Input) {
				defer rw.Done()
				defer func() { <-sem }()

				cp := *in
				cp.Mode = "fragment" // piped stdin
				k, how := cliRun(ego, root, &cp, 100000+i)
				r.Count("repl.processes", 1)

				if strings.Contains(how, "timeout") {
					r.Count("repl.timeouts", 1)
				}

				if k != "" {
					r.Count("repl.crashes", 1)
					r.Violate(vh.Violation{Key: k, Desc: "real `ego run --sandbox=true` with the source piped on stdin crashed (" + in.Op + " of " + in.Origin + "): " + how,
						Case: caseOf(&cp), Expected: "program output, an Ego error, or a timeout", Observed: how})
				}
			}(i, in)
		}

		rw.Wait()
	}

	r.Count("children.spawned", br.children)
	r.Note(fmt.Sprintf("step budget per input %d VM instructions (hook H1); per-input watchdog %d ms; sandbox on for every run", stepBudget, br.watchdog))

	if r.Evaluations == 0 || baseOK == 0 {
		t.Fatalf("observed nothing (evaluations=%d, corpus programs that ran ok=%d)", r.Evaluations, baseOK)
	}
}
