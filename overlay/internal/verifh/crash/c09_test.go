package crash

// C09 — Finished executions leave nothing running.
//
// Three-checkpoint goroutine-profile protocol (DESIGN.md "### C09"): one process
// runs a warm-up round of N executions (this starts every lazily started
// process-wide worker), settles, takes checkpoint A; runs the same mix again,
// settles, takes B; again, takes C (thorough: five checkpoints). A goroutine
// creation site is a violation iff its live count grows strictly at every step.

import (
	"fmt"
	"net/http/httptest"
	"os"
	"path/filepath"
	"runtime"
	"sort"
	"strings"
	"testing"
	"time"

	"github.com/tucats/ego/internal/caches"
	"github.com/tucats/ego/internal/router"
	"github.com/tucats/ego/internal/server/services"
	"github.com/tucats/ego/internal/verifh/vh"
)

// goroutineSites returns live goroutines grouped by creation site ("created by f"),
// or for goroutines without a creator, by "root:<top function>".
func goroutineSites() (map[string]int, map[string]string, int) {
	buf := make([]byte, 4<<20)

	for {
		n := runtime.Stack(buf, true)
		if n < len(buf) {
			buf = buf[:n]

			break
		}

		buf = make([]byte, 2*len(buf))
	}

	sites := map[string]int{}
	example := map[string]string{}
	total := 0

	for _, g := range strings.Split(string(buf), "\n\n") {
		g = strings.TrimSpace(g)
		if !strings.HasPrefix(g, "goroutine ") {
			continue
		}

		total++
		fs := frameFuncs(g)
		site := ""
		top := ""

		for _, f := range fs {
			if strings.HasPrefix(f, "created-by:") {
				site = strings.TrimPrefix(f, "created-by:")
			} else if top == "" {
				top = f
			}
		}

		if site == "" {
			site = "root:" + top
		}

		// the first ego frame tells what the goroutine is doing (evidence only)
		doing := top

		for _, f := range fs {
			if strings.Contains(f, "github.com/tucats/ego/") && !strings.HasPrefix(f, "created-by:") {
				doing = f

				break
			}
		}

		site = shortSite(site)
		sites[site]++

		if _, ok := example[site]; !ok {
			example[site] = shortSite(doing)
		}
	}

	return sites, example, total
}

func shortSite(f string) string {
	f = strings.TrimPrefix(f, "github.com/tucats/ego/internal/")

	return strings.ReplaceAll(f, " ", "")
}

// settle waits until the goroutine count has stopped changing. Returns false if
// patience ran out (inconclusive, not a verdict).
func settle(patience time.Duration) bool {
	deadline := time.Now().Add(patience)
	stable := 0
	last := -1

	for stable < 12 {
		runtime.Gosched()
		time.Sleep(3 * time.Millisecond)

		n := runtime.NumGoroutine()
		if n == last {
			stable++
		} else {
			stable = 0
			last = n
		}

		if time.Now().After(deadline) {
			return false
		}
	}

	return true
}

type c09Exec struct {
	kind   string
	mode   string // run | test | server | console | service
	src    func(i int) string
	expect string                       // substring expected in class+err (shows the execution ended the intended way)
	svc    func(i int) (string, string) // service: (endpoint path, file)
}

// sqlProg renders a program that opens its own SQLite database file, seeds a table, runs body and ends.
func sqlProg(dbDir string, i int, afterOpen, body string) string {
	return fmt.Sprintf("import \"fmt\"\nimport \"sql\"\nfunc main() {\n dbFile := %q\n db, err := sql.Open(\"sqlite\", dbFile)\n if err != nil {\n  fmt.Println(\"open failed\", err)\n  return\n }\n%s _, e0 := db.Execute(\"DROP TABLE IF EXISTS t\")\n _, e1 := db.Execute(\"CREATE TABLE t (id INTEGER PRIMARY KEY, v TEXT)\")\n _, e2 := db.Execute(\"INSERT INTO t VALUES (1, 'a')\")\n fmt.Println(e0, e1, e2)\n%s}\n",
		fmt.Sprintf("%s/c09-%d.db", dbDir, i%7), afterOpen, body)
}

// c09NoClose are programs that open a database and end WITHOUT calling Close(). The property text neither clearly
// lets them off nor convicts them, so they run in a separate, purely observational phase: counts are recorded, no verdict.
func c09NoClose(dbDir string) []c09Exec {
	return []c09Exec{
		{kind: "sql-never-closed-normal-end", mode: "run", src: func(i int) string {
			return sqlProg(dbDir, i, "", " fmt.Println(\"no close\")\n")
		}},
		{kind: "sql-never-closed-tx-behind-back-error-end", mode: "run", src: func(i int) string {
			return sqlProg(dbDir, i, "", " fmt.Println(db.Begin())\n _, e3 := db.Execute(\"COMMIT\")\n fmt.Println(e3)\n a := []int{1}\n j := 4\n fmt.Println(a[j])\n")
		}},
		{kind: "sql-never-closed-panic-end", mode: "run", src: func(i int) string {
			return sqlProg(dbDir, i, "", " fmt.Println(db.Begin())\n panic(\"no close\")\n")
		}},
	}
}

func c09Mix(srcRoot string, dbDir string) []c09Exec {
	main := func(body string) string {
		return "import \"fmt\"\nimport \"sort\"\nimport \"sync\"\nimport \"os\"\nimport \"strings\"\n" + body
	}

	return []c09Exec{
		{kind: "normal", mode: "run", expect: "ok", src: func(i int) string {
			return main(fmt.Sprintf("func main() {\n s := 0\n for k := 0; k < %d; k = k + 1 { s = s + k }\n fmt.Println(s)\n}\n", 10+i%50))
		}},
		{kind: "ego-error", mode: "run", expect: "error", src: func(i int) string {
			return main(fmt.Sprintf("func main() {\n a := []int{1,2}\n j := %d\n fmt.Println(a[j])\n}\n", 5+i%7))
		}},
		{kind: "ego-error-in-call", mode: "run", expect: "error", src: func(i int) string {
			return main(fmt.Sprintf("func f(d int) int {\n z := 0\n return d / z\n}\nfunc main() {\n fmt.Println(f(%d))\n}\n", i))
		}},
		{kind: "panic", mode: "run", expect: "", src: func(i int) string {
			return main(fmt.Sprintf("func main() {\n fmt.Println(\"before\")\n panic(\"boom-%d\")\n}\n", i))
		}},
		{kind: "panic-in-call-with-defer", mode: "run", expect: "", src: func(i int) string {
			return main(fmt.Sprintf("func g() {\n defer func() { fmt.Println(\"deferred\") }()\n panic(\"deep-%d\")\n}\nfunc main() {\n g()\n}\n", i))
		}},
		{kind: "recovered-panic", mode: "run", expect: "ok", src: func(i int) string {
			return main("func g() (r string) {\n defer func() {\n  if x := recover(); x != nil { r = \"recovered\" }\n }()\n panic(\"p\")\n}\nfunc main() {\n fmt.Println(g())\n}\n")
		}},
		{kind: "at-fail", mode: "run", expect: "", src: func(i int) string {
			return main(fmt.Sprintf("func main() {\n fmt.Println(\"x\")\n @fail \"failed-%d\"\n}\n", i))
		}},
		{kind: "compile-error", mode: "run", expect: "compile-error", src: func(i int) string {
			return main("func main() {\n x := := 1\n}\n")
		}},
		{kind: "os-exit", mode: "run", expect: "", src: func(i int) string {
			return main(fmt.Sprintf("func main() {\n os.Exit(%d)\n}\n", i%3))
		}},
		{kind: "try-catch", mode: "run", expect: "ok", src: func(i int) string {
			return main("func main() {\n try {\n  a := []int{1}\n  j := 4\n  a[j] = 1\n } catch (e) {\n  fmt.Println(\"caught\", e)\n }\n}\n")
		}},
		{kind: "goroutines-waitgroup", mode: "run", expect: "ok", src: func(i int) string {
			return main(fmt.Sprintf("func worker(id int, wg *sync.WaitGroup, mu *sync.Mutex, total *int) {\n mu.Lock()\n *total = *total + id\n mu.Unlock()\n wg.Done()\n}\n"+
				"func main() {\n var wg sync.WaitGroup\n var mu sync.Mutex\n total := 0\n n := %d\n wg.Add(n)\n for k := 0; k < n; k = k + 1 {\n  go worker(k, &wg, &mu, &total)\n }\n wg.Wait()\n fmt.Println(total)\n}\n", 2+i%5))
		}},
		{kind: "goroutine-closures-channel", mode: "run", expect: "ok", src: func(i int) string {
			return main(fmt.Sprintf("func main() {\n n := %d\n ch := make(chan, n)\n for k := 0; k < n; k = k + 1 {\n  go func(v int, c chan) {\n   c <- v * 2\n  }(k, ch)\n }\n s := 0\n for k := 0; k < n; k = k + 1 {\n  x := <-ch\n  s = s + x\n }\n fmt.Println(s)\n}\n", 2+i%4))
		}},
		{kind: "goroutine-that-errors", mode: "run", expect: "", src: func(i int) string {
			// the goroutine signals completion BEFORE it raises its error (an error inside an Ego goroutine does
			// not run its deferred calls, so "defer wg.Done()" would leave main blocked: the program's own doing)
			return main("func bad(wg *sync.WaitGroup) {\n wg.Done()\n a := []int{1}\n j := 3\n a[j] = 2\n}\nfunc main() {\n var wg sync.WaitGroup\n wg.Add(1)\n go bad(&wg)\n wg.Wait()\n fmt.Println(\"joined\")\n}\n")
		}},
		{kind: "sort-slice-ok", mode: "run", expect: "ok", src: func(i int) string {
			return main(fmt.Sprintf("func main() {\n a := []int{}\n for k := 0; k < %d; k = k + 1 { a = append(a, (k * 7919) %% 101) }\n sort.Slice(a, func(x int, y int) bool { return a[x] < a[y] })\n fmt.Println(a[0])\n}\n", 20+i%30))
		}},
		{kind: "sort-slice-comparator-errors", mode: "run", expect: "", src: func(i int) string {
			return main("func main() {\n a := []int{5,3,9,1,7,2,8}\n n := 0\n try {\n sort.Slice(a, func(x int, y int) bool {\n  n = n + 1\n  if n > 3 {\n   b := []int{1}\n   j := 9\n   return b[j] > 0\n  }\n  return a[x] < a[y]\n })\n } catch (e) {\n  fmt.Println(\"sort failed\", e)\n }\n fmt.Println(n)\n}\n")
		}},
		{kind: "sort-slice-comparator-errors-uncaught", mode: "run", expect: "", src: func(i int) string {
			return main("func main() {\n a := []int{5,3,9,1,7,2,8}\n sort.Slice(a, func(x int, y int) bool {\n  z := 0\n  return (a[x] / z) < a[y]\n })\n fmt.Println(a)\n}\n")
		}},
		{kind: "string-method-from-fmt", mode: "run", expect: "ok", src: func(i int) string {
			return main(fmt.Sprintf("type Pt struct {\n x int\n y int\n}\nfunc (p Pt) String() string {\n return fmt.Sprintf(\"<%%d,%%d>\", p.x, p.y)\n}\nfunc main() {\n for k := 0; k < %d; k = k + 1 {\n  p := Pt{x: k, y: k + 1}\n  fmt.Println(p)\n  s := fmt.Sprintf(\"%%v\", p)\n  fmt.Println(len(s))\n }\n}\n", 2+i%4))
		}},
		{kind: "string-method-errors", mode: "run", expect: "", src: func(i int) string {
			return main("type Bad struct {\n x int\n}\nfunc (p Bad) String() string {\n z := 0\n return fmt.Sprintf(\"%d\", p.x / z)\n}\nfunc main() {\n b := Bad{x: 1}\n fmt.Println(b)\n fmt.Println(\"after\")\n}\n")
		}},
		{kind: "test-file-pass-and-fail", mode: "test", expect: "ok", src: func(i int) string {
			// the bytecode Timer opcode (timer.go) is only emitted for @test blocks
			return fmt.Sprintf("@test \"c09 a %d\"\n{\n x := 1\n @assert x == 1\n}\n@test \"c09 b %d\"\n{\n x := 1\n @assert x == 2\n}\n@test \"c09 c %d\"\n{\n a := []int{1}\n j := 3\n fmt.Println(a[j])\n}\n", i, i, i)
		}},
		{kind: "test-file-at-fail", mode: "test", expect: "", src: func(i int) string {
			return fmt.Sprintf("@test \"c09 d %d\"\n{\n @assert true\n}\n@test \"c09 e %d\"\n{\n @fail \"stop\"\n}\n", i, i)
		}},
		{kind: "server-run-ok", mode: "server", expect: "ok", src: func(i int) string {
			return fmt.Sprintf("fmt.Println(\"hello %d\")\n", i)
		}},
		{kind: "server-run-error", mode: "server", expect: "error", src: func(i int) string {
			return "a := []int{1}\nj := 3\nfmt.Println(a[j])\n"
		}},
		{kind: "server-console", mode: "console", expect: "", src: func(i int) string {
			return fmt.Sprintf("v%d := %d\nfmt.Println(v%d)\n", i, i, i)
		}},
		{kind: "server-run-goroutine", mode: "server", expect: "", src: func(i int) string {
			// channels, not a WaitGroup: a *sync.WaitGroup handed to `go` from dashboard code is Done() on a copy and Wait() never returns (the program blocks itself)
			return fmt.Sprintf("func runit() {\n n := %d\n ch := make(chan, n)\n for k := 0; k < n; k = k + 1 {\n  go func(v int, c chan) {\n   c <- v * 2\n  }(k, ch)\n }\n s := 0\n for k := 0; k < n; k = k + 1 {\n  x := <-ch\n  s = s + x\n }\n fmt.Println(s)\n}\nrunit()\n", 2+i%3)
		}},
		{kind: "debug-session-abandoned-then-evicted", mode: "debug-abandon", expect: "evicted", src: func(i int) string {
			return fmt.Sprintf("x := %d\nfmt.Println(x)\ny := x + 1\nfmt.Println(y)\n", i)
		}},
		{kind: "debug-session-continued-to-end", mode: "debug-continue", expect: "finished", src: func(i int) string {
			return fmt.Sprintf("x := %d\nfmt.Println(x)\n", i)
		}},
		// ---- sql runtime package: every one of these programs calls Close() on what it opened
		{kind: "sql-open-use-close", mode: "run", expect: "ok", src: func(i int) string {
			return sqlProg(dbDir, i, "", " rows, e3 := db.QueryResult(\"SELECT id, v FROM t\")\n fmt.Println(len(rows), e3)\n fmt.Println(db.Close())\n")
		}},
		{kind: "sql-close-twice", mode: "run", expect: "", src: func(i int) string {
			return sqlProg(dbDir, i, "", " fmt.Println(db.Close())\n fmt.Println(db.Close())\n")
		}},
		{kind: "sql-tx-commit-close", mode: "run", expect: "", src: func(i int) string {
			return sqlProg(dbDir, i, "", " fmt.Println(db.Begin())\n _, e3 := db.Execute(\"INSERT INTO t VALUES (2, 'b')\")\n ec := db.Commit()\n fmt.Println(e3, ec)\n fmt.Println(db.Close())\n")
		}},
		{kind: "sql-tx-rollback-close", mode: "run", expect: "", src: func(i int) string {
			return sqlProg(dbDir, i, "", " fmt.Println(db.Begin())\n _, e3 := db.Execute(\"INSERT INTO t VALUES (2, 'b')\")\n er := db.Rollback()\n fmt.Println(e3, er)\n fmt.Println(db.Close())\n")
		}},
		{kind: "sql-tx-open-at-close", mode: "run", expect: "", src: func(i int) string {
			return sqlProg(dbDir, i, "", " fmt.Println(db.Begin())\n _, e3 := db.Execute(\"INSERT INTO t VALUES (2, 'b')\")\n fmt.Println(e3)\n fmt.Println(db.Close())\n")
		}},
		{kind: "sql-tx-raw-commit-behind-back", mode: "run", expect: "", src: func(i int) string {
			return sqlProg(dbDir, i, "", " fmt.Println(db.Begin())\n _, e3 := db.Execute(\"INSERT INTO t VALUES (2, 'b')\")\n _, e4 := db.Execute(\"COMMIT\")\n fmt.Println(e3, e4)\n fmt.Println(db.Commit())\n fmt.Println(db.Close())\n fmt.Println(db.Close())\n")
		}},
		{kind: "sql-tx-raw-rollback-behind-back", mode: "run", expect: "", src: func(i int) string {
			return sqlProg(dbDir, i, "", " fmt.Println(db.Begin())\n _, e3 := db.Execute(\"ROLLBACK\")\n fmt.Println(e3)\n fmt.Println(db.Rollback())\n fmt.Println(db.Close())\n")
		}},
		{kind: "sql-tx-insert-or-rollback-conflict", mode: "run", expect: "", src: func(i int) string {
			return sqlProg(dbDir, i, "", " fmt.Println(db.Begin())\n _, e3 := db.Execute(\"INSERT OR ROLLBACK INTO t VALUES (1, 'dup')\")\n fmt.Println(e3)\n _, e4 := db.Execute(\"INSERT INTO t VALUES (3, 'c')\")\n ec := db.Commit()\n fmt.Println(e4, ec)\n fmt.Println(db.Close())\n")
		}},
		{kind: "sql-cursor-left-open-then-close", mode: "run", expect: "", src: func(i int) string {
			return sqlProg(dbDir, i, "", " rows, e3 := db.Query(\"SELECT id, v FROM t\")\n more := rows.Next()\n fmt.Println(e3, more)\n fmt.Println(db.Close())\n")
		}},
		{kind: "sql-close-then-ego-error", mode: "run", expect: "error", src: func(i int) string {
			return sqlProg(dbDir, i, "", " fmt.Println(db.Begin())\n _, e3 := db.Execute(\"COMMIT\")\n ecl := db.Close()\n fmt.Println(e3, ecl)\n a := []int{1}\n j := 4\n fmt.Println(a[j])\n")
		}},
		{kind: "sql-close-then-panic", mode: "run", expect: "", src: func(i int) string {
			return sqlProg(dbDir, i, "", " fmt.Println(db.Begin())\n _, e3 := db.Execute(\"INSERT OR ROLLBACK INTO t VALUES (1, 'dup')\")\n ecl := db.Close()\n fmt.Println(e3, ecl)\n panic(\"after close\")\n")
		}},
		{kind: "sql-begin-then-deferred-close-and-panic", mode: "run", expect: "", src: func(i int) string {
			return sqlProg(dbDir, i, "", " fmt.Println(db.Begin())\n defer db.Close()\n panic(\"with deferred close\")\n")
		}},
		{kind: "sql-deferred-closure-close-and-panic", mode: "run", expect: "", src: func(i int) string {
			return sqlProg(dbDir, i, " defer func() { db.Close() }()\n", " fmt.Println(db.Begin())\n panic(\"with deferred close\")\n")
		}},
		{kind: "sql-deferred-close-normal-end", mode: "run", expect: "", src: func(i int) string {
			return sqlProg(dbDir, i, " defer db.Close()\n", " _, e3 := db.Execute(\"INSERT INTO t VALUES (5, 'e')\")\n fmt.Println(e3)\n")
		}},
		{kind: "sql-open-fails", mode: "run", expect: "", src: func(i int) string {
			return "import \"fmt\"\nimport \"sql\"\nfunc main() {\n db, err := sql.Open(\"mysql\", \"/nonexistent/x.db\")\n fmt.Println(db, err)\n d2, e2 := sql.Open(\"sqlite\", \"/nonexistent-dir/sub/x.db\")\n fmt.Println(e2)\n if d2 != nil {\n  _, e3 := d2.Execute(\"CREATE TABLE t (id INTEGER)\")\n  ecl := d2.Close()\n fmt.Println(e3, ecl)\n }\n}\n"
		}},
		{kind: "rest-client-connection-refused", mode: "run", expect: "", src: func(i int) string {
			return "import \"fmt\"\nimport \"rest\"\nfunc main() {\n conn := rest.New(\"\").Base(\"http://127.0.0.1:1\").Media(\"application/json\")\n r, err := conn.Get(\"nothing/here\")\n fmt.Println(r, err)\n}\n"
		}},
		{kind: "service-hello", mode: "service", expect: "200", svc: func(i int) (string, string) {
			return "/services/hello", filepath.Join(srcRoot, "lib/services/hello.ego")
		}},
		{kind: "service-runtime-error", mode: "service", expect: "", svc: func(i int) (string, string) {
			return "/services/bogus-runtime", filepath.Join(srcRoot, "lib/services/bogus-runtime.ego")
		}},
		{kind: "service-compile-error", mode: "service", expect: "", svc: func(i int) (string, string) {
			return "/services/bogus-compile", filepath.Join(srcRoot, "lib/services/bogus-compile.ego")
		}},
		{kind: "service-factor", mode: "service", expect: "200", svc: func(i int) (string, string) {
			return fmt.Sprintf("/services/factor/%d", 12+i), filepath.Join(srcRoot, "lib/services/factor.ego")
		}},
	}
}

var c09ServiceSeq int

// runService pushes one request through services.ServiceHandler in-process.
func runService(path, file string) (o outcome) {
	defer func() {
		if r := recover(); r != nil {
			o.Class = "panic"
			o.Panic = fmt.Sprint(r)
		}
	}()

	c09ServiceSeq++

	endpoint := path
	parts := map[string]any{}

	if strings.HasPrefix(path, "/services/factor/") {
		endpoint = "/services/factor"
		parts["value"] = strings.TrimPrefix(path, "/services/factor/")
		parts["services"] = true
		parts["factor"] = true
	}

	r := httptest.NewRequest("GET", path, nil)
	w := httptest.NewRecorder()
	s := &router.Session{ID: 5000 + c09ServiceSeq, Path: endpoint, Filename: file, URLParts: parts, URL: r.URL, User: "verif", Language: "en", Parameters: map[string][]string{}}

	status := services.ServiceHandler(s, w, r)
	o.Class = fmt.Sprintf("http-%d", status)
	o.Out = w.Body.String()

	return o
}

func TestC09(t *testing.T) {
	r := vh.New("C09", "goroutines")
	r.Rule = "one round = N executions cycling through 46 kinds of execution (normal end, Ego error, unrecovered panic(), @fail, compile error, os.Exit, goroutines joined by WaitGroup/channels, " +
		"sort.Slice comparators incl. erroring ones, String() methods called from fmt incl. erroring ones, @test files (Timer opcode), admin.RunCodeHandler editor/console, dashboard debug sessions abandoned-then-evicted and continued to the end, the sql runtime package on SQLite files (open/use/close, close twice, transactions committed, rolled back, left open, or ended behind the back of database/sql by a raw COMMIT/ROLLBACK or an INSERT OR ROLLBACK conflict, a cursor left open, always followed by Close(); ending normally, by Ego error, by panic, with a deferred Close), a rest client against a refused port, services.ServiceHandler) with varying parameters; " +
		"distinct = distinct (kind, source); non-trivial = the execution really compiled and ran Ego code."
	r.Assume("goroutines are attributed to the function named in the 'created by' line of runtime.Stack(all)")
	r.Assume("every program of the mix joins the goroutines it starts, so any goroutine alive at a checkpoint was started by the interpreter, not left running by the program")

	defer func() { _ = r.Write() }()

	arena := os.Getenv("VERIF_ARENA")
	if arena == "" {
		arena, _ = os.MkdirTemp("", "c09-arena-")
	}

	srcRoot := os.Getenv("VERIF_EGO_SRC")
	if srcRoot != "" && os.Getenv("VERIF_EGO_LIB") == "" {
		// the sample services import library packages (lib/packages/math ...): give the interpreter the tree's lib/
		os.Setenv("VERIF_EGO_LIB", filepath.Join(srcRoot, "lib"))
	}

	sandbox := filepath.Join(arena, "c09", "sandbox")
	initRunner(sandbox)
	runExtensions = true // try/catch is a language extension
	_ = os.Chdir(sandbox)

	dbDir := filepath.Join(arena, "c09", "sandbox")
	mix := c09Mix(srcRoot, dbDir)

	// which service kinds work without the full server fixture is decided by a dry run
	serviceOK := map[string]bool{}

	n := vh.N(200, 2000)
	checkpoints := 3

	if vh.Tier() == "thorough" {
		checkpoints = 5
	}

	type snap struct {
		sites   map[string]int
		example map[string]string
		total   int
	}

	round := func(label string, count bool) {
		for i := 0; i < n; i++ {
			e := &mix[i%len(mix)]

			var (
				o   outcome
				src string
			)

			switch e.mode {
			case "service":
				if srcRoot == "" {
					continue
				}

				p, f := e.svc(i)
				src = p
				o = runService(p, f)

				if label == "warm-up" && strings.Contains(o.Class, e.expect) && o.Class != "panic" {
					serviceOK[e.kind] = true
				}
			default:
				src = e.src(i)
				done := make(chan outcome, 1)

				go func() {
					switch e.mode {
					case "debug-abandon":
						done <- runDebugSession(src, true)
					case "debug-continue":
						done <- runDebugSession(src, false)
					default:
						done <- runInput(e.mode, src)
					}
				}()

				select {
				case o = <-done:
				case <-time.After(120 * time.Second):
					_ = r.Write()
					t.Fatalf("execution kind %s did not finish within the 120 s watchdog; the goroutine census would be meaningless (harness error, not a verdict)", e.kind)
				}
			}

			if count {
				r.Eval(vh.Hash(e.kind, src), o.Class != "compile-error" || e.kind == "compile-error")
				r.Count("exec."+e.kind+"."+o.Class, 1)
			}

			if o.Class == "panic" {
				// a Go panic is C07's business; here it only means this kind did not run as intended
				r.Inconcl(fmt.Sprintf("execution kind %s ended in a recovered Go panic: %s", e.kind, vh.Trunc(o.Panic, 300)))
			}

			if e.expect != "" && !strings.Contains(o.Class, e.expect) && label == "warm-up" && i < len(mix) {
				r.Note(fmt.Sprintf("kind %s ended as %q (%s), intended %q", e.kind, o.Class, vh.Trunc(o.Err, 200), e.expect))
			}

			if i%97 == 0 {
				// console/editor sessions are capped at 20 and live in a cache: purge as an operator would
				caches.Purge(caches.SymbolTableCache)
			}
		}
	}

	take := func(label string) (snap, bool) {
		ok := settle(10 * time.Second)
		s, ex, total := goroutineSites()
		r.Count("goroutines."+label, int64(total))
		r.Count("sites."+label, int64(len(s)))

		return snap{s, ex, total}, ok
	}

	base, _ := take("before")

	round("warm-up", true)

	var snaps []snap

	settled := true

	for c := 0; c < checkpoints; c++ {
		label := string(rune('A' + c))

		if c > 0 {
			round(label, true)
		}

		s, ok := take(label)
		if !ok {
			settled = false

			r.Inconcl("goroutine count did not settle within the patience limit before checkpoint " + label + " (not a verdict)")
		}

		snaps = append(snaps, s)
	}

	// oracle
	allSites := map[string]bool{}
	for _, s := range snaps {
		for k := range s.sites {
			allSites[k] = true
		}
	}

	var names []string
	for k := range allSites {
		names = append(names, k)
	}

	sort.Strings(names)

	table := map[string][]int{}

	for _, site := range names {
		counts := make([]int, len(snaps))
		growing := true

		for i, s := range snaps {
			counts[i] = s.sites[site]
			if i > 0 && counts[i] <= counts[i-1] {
				growing = false
			}
		}

		table[site] = counts
		r.Count("observed.site_checks", 1)

		if growing && settled {
			doing := ""

			for _, s := range snaps {
				if d, ok := s.example[site]; ok {
					doing = d
				}
			}

			r.Violate(vh.Violation{Key: "leak:" + site, Desc: fmt.Sprintf("goroutines created by %s grow at every checkpoint %v (a live one is in %s); each interval is %d executions of the same mix", site, counts, doing, n),
				Case: map[string]any{"site": site, "n": n, "checkpoints": checkpoints}, Expected: "no creation site grows in every interval", Observed: counts})
		} else if growing {
			r.Inconcl(fmt.Sprintf("site %s grew %v but the process had not settled", site, counts))
		}
	}

	r.Sample(map[string]any{"goroutines_before_any_execution": base.total, "live_goroutines_by_creation_site_at_checkpoints": table})

	// Directed probe of a recorded finding, kept out of the mix so that the mix can still convict any OTHER leak at the
	// same creation site: "defer db.Close()" written BEFORE db.Begin() closes a receiver snapshot that knows no transaction.
	{
		const site = "database/sql.(*DB).beginDC"

		r.Probe("leak:" + site + ":deferred-close-before-begin")

		var counts []int

		for round := 0; round < 3; round++ {
			for i := 0; i < 5; i++ {
				_ = runInput("run", sqlProg(dbDir, i, " defer db.Close()\n", " fmt.Println(db.Begin())\n fmt.Println(\"ends normally with the transaction open\")\n"))
			}

			settle(5 * time.Second)

			m, _, _ := goroutineSites()
			counts = append(counts, m[site])
		}

		if counts[0] < counts[1] && counts[1] < counts[2] {
			r.Violate(vh.Violation{Key: "leak:" + site + ":deferred-close-before-begin",
				Desc:     fmt.Sprintf("a program that runs `defer db.Close()` and then db.Begin() and ends (so Close() IS called) leaves one database/sql transaction goroutine (Tx.awaitDone) per execution: %v after 3 x 5 executions", counts),
				Case:     map[string]any{"program": sqlProg(dbDir, 0, " defer db.Close()\n", " fmt.Println(db.Begin())\n")},
				Expected: "Close() leaves nothing running", Observed: counts})
		}
	}

	// Observation only (no verdict): programs that open a database and end without ever calling Close().
	{
		nc := c09NoClose(dbDir)
		obs := map[string][]int{}
		before, _, _ := goroutineSites()

		for round := 0; round < 2; round++ {
			for i := 0; i < 30; i++ {
				e := &nc[i%len(nc)]
				o := runInput(e.mode, e.src(i))
				r.Count("observed-only."+e.kind+"."+o.Class, 1)
			}

			settle(5 * time.Second)

			after, _, _ := goroutineSites()
			for site, n := range after {
				if n != before[site] {
					obs[site] = append(obs[site], n-before[site])
				}
			}
		}

		r.Note(fmt.Sprintf("observation, no claim: after 2 x 30 programs that sql.Open and end WITHOUT Close() (normal end, Ego error, panic), live goroutines per creation site changed by %v relative to the last checkpoint", obs))
	}

	var okKinds []string
	for k := range serviceOK {
		okKinds = append(okKinds, k)
	}

	sort.Strings(okKinds)
	r.Note("service kinds that answered as intended through services.ServiceHandler without a server fixture: " + strings.Join(okKinds, ","))
	r.Note(fmt.Sprintf("N=%d executions per interval, %d checkpoints after one warm-up round", n, checkpoints))

	if r.Evaluations == 0 || len(snaps) < 3 {
		t.Fatal("observed nothing")
	}
}
