package crash

// generatedSeeds returns generated programs to mutate in addition to the corpus.
// The shared generator package (verifh/gen) did not exist when this check was
// written; the corpus (321 files) is the seed set.
func generatedSeeds(worker int) []seedFile { return nil }
