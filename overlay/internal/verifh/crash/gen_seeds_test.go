package crash

import (
	"fmt"

	"github.com/tucats/ego/internal/verifh/gen"
	"github.com/tucats/ego/internal/verifh/vh"
)

// generatedSeeds returns well-typed, terminating programs from the shared
// generator (verifh/gen) as additional mutation seeds: a quarter of the
// token-level mutants of each worker are mutants of these instead of corpus files.
func generatedSeeds(worker int) []seedFile {
	rng := vh.Rand(fmt.Sprintf("c07/gen/w%d", worker))

	var out []seedFile

	for i := 0; i < 60; i++ {
		p := gen.New(rng, gen.Options{EgoOnly: i%2 == 0, Strict: i%3 == 0, MaxStmts: 30})
		if p.Ego == "" {
			continue
		}

		out = append(out, seedFile{path: fmt.Sprintf("generated:%s:w%d-%d", gen.Version, worker, i), text: p.Ego, toks: lex(p.Ego), mode: "run"})
	}

	return out
}
