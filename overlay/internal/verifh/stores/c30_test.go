package stores

// C30 — The resource store behaves like a keyed record set (part "model").
//
// Events: every call of the real internal/resources API (Open, SetPrimaryKey,
// CreateIf, Insert, Read, ReadOne, Update, UpdateOne, Delete, DeleteOne, Sort,
// Close) on a SQLite database, with its returned records / error, followed by
// an unfiltered Read of the whole table.
// Oracle: an in-memory slice of records filtered by the same predicate. The
// model states only what the property states: records are keyed by the primary
// key column, a filter list is a conjunction, a nil filter is "no constraint"
// (the package and its users document that), a filter naming a column that is
// not a field of the record type selects nothing (an error is equally fine).
import (
	"encoding/json"
	"fmt"
	"math/rand"
	"os"
	"path/filepath"
	"reflect"
	"runtime"
	"sort"
	"strings"
	"sync"
	"sync/atomic"
	"testing"

	"github.com/google/uuid"
	"github.com/tucats/ego/internal/resources"
	"github.com/tucats/ego/internal/verifh/vh"
)

// c30Rec is the record type of the histories: string, int, bool, uuid, []string
// (stored as JSON), json.RawMessage, with json tags that differ from the field
// names (the store ignores tags; real record types such as tables.PermissionsObject
// have them, and a filter naming the tag is a filter on an unknown column).
type c30Rec struct {
	Key   string          `json:"key_name"`
	ID    uuid.UUID       `json:"uid"`
	Count int             `json:"n"`
	Flag  bool            `json:"flag_perm"`
	Group string          `json:"group_name"`
	Tags  []string        `json:"tag_list"`
	Raw   json.RawMessage `json:"raw_doc,omitempty"`
}

var c30Fields = []string{"Key", "ID", "Count", "Flag", "Group", "Tags", "Raw"}

// c30Val is a typed filter value (JSON-able so a history can be printed).
type c30Val struct {
	T string `json:"t"` // s, i, b, u
	S string `json:"s,omitempty"`
	I int    `json:"i,omitempty"`
	B bool   `json:"b,omitempty"`
}

func (v c30Val) any() any {
	switch v.T {
	case "i":
		return v.I
	case "b":
		return v.B
	case "u":
		return uuid.MustParse(v.S)
	}

	return v.S
}

func (v c30Val) String() string {
	switch v.T {
	case "i":
		return fmt.Sprint(v.I)
	case "b":
		return fmt.Sprint(v.B)
	case "u":
		return "uuid(" + v.S + ")"
	}

	return fmt.Sprintf("%q", v.S)
}

// c30Filter is one element of a filter list. Nil means the caller passes a nil
// *Filter (as tokens.List and tables.ReadAllPermissions do).
type c30Filter struct {
	Nil bool   `json:"nil,omitempty"`
	Col string `json:"col,omitempty"` // as spelled by the caller
	Op  string `json:"op,omitempty"`  // = <> < >
	Val c30Val `json:"val"`
}

func (f c30Filter) String() string {
	if f.Nil {
		return "nil"
	}

	return fmt.Sprintf("%s%s%s", f.Col, f.Op, f.Val)
}

// field resolves the caller's column spelling the way the property reads it:
// case-insensitively against the field names of the record type.
func c30Field(col string) string {
	for _, f := range c30Fields {
		if strings.EqualFold(f, col) {
			return f
		}
	}

	return ""
}

// stored gives the comparable form of a field: what a table of typed columns holds.
func c30Stored(r c30Rec, field string) any {
	switch field {
	case "Key":
		return r.Key
	case "ID":
		return r.ID.String()
	case "Count":
		return r.Count
	case "Flag":
		return r.Flag
	case "Group":
		return r.Group
	case "Tags":
		b, _ := json.Marshal(r.Tags)

		return string(b)
	case "Raw":
		return string(r.Raw)
	}

	return nil
}

func c30Cmp(a, b any) (int, bool) {
	switch x := a.(type) {
	case string:
		y, ok := b.(string)
		if !ok {
			return 0, false
		}

		return strings.Compare(x, y), true
	case int:
		y, ok := b.(int)
		if !ok {
			return 0, false
		}

		switch {
		case x < y:
			return -1, true
		case x > y:
			return 1, true
		}

		return 0, true
	case bool:
		y, ok := b.(bool)
		if !ok {
			return 0, false
		}

		xi, yi := 0, 0
		if x {
			xi = 1
		}

		if y {
			yi = 1
		}

		return xi - yi, true
	}

	return 0, false
}

// c30Match: does the record satisfy the filter list? invalid reports a filter on a
// column the record type does not have.
func c30Match(r c30Rec, fs []c30Filter) bool {
	for _, f := range fs {
		if f.Nil {
			continue
		}

		field := c30Field(f.Col)
		if field == "" {
			return false
		}

		val := f.Val.any()
		if u, ok := val.(uuid.UUID); ok {
			val = u.String()
		}

		c, ok := c30Cmp(c30Stored(r, field), val)
		if !ok {
			return false
		}

		switch f.Op {
		case "=":
			if c != 0 {
				return false
			}
		case "<>":
			if c == 0 {
				return false
			}
		case "<":
			if c >= 0 {
				return false
			}
		case ">":
			if c <= 0 {
				return false
			}
		}
	}

	return true
}

func c30HasUnknown(fs []c30Filter) bool {
	for _, f := range fs {
		if !f.Nil && c30Field(f.Col) == "" {
			return true
		}
	}

	return false
}

// nil filter followed (later in the list) by a real one.
func c30NilBeforeFilter(fs []c30Filter) bool {
	if len(fs) == 0 || !fs[0].Nil {
		return false
	}

	for _, f := range fs[1:] {
		if !f.Nil {
			return true
		}
	}

	return false
}

type c30Step struct {
	Op      string      `json:"op"`
	Rec     *c30Rec     `json:"rec,omitempty"`
	Key     string      `json:"key,omitempty"`
	Filters []c30Filter `json:"filters,omitempty"`
	Sort    []string    `json:"sort,omitempty"`
}

func (s c30Step) String() string {
	var b strings.Builder

	b.WriteString(s.Op)

	if s.Rec != nil {
		fmt.Fprintf(&b, " rec=%s", c30RecString(*s.Rec))
	}

	if s.Op == "read-one" || s.Op == "delete-one" {
		fmt.Fprintf(&b, " key=%q", s.Key)
	}

	if s.Filters != nil {
		parts := []string{}
		for _, f := range s.Filters {
			parts = append(parts, f.String())
		}

		fmt.Fprintf(&b, " filters=[%s]", strings.Join(parts, " AND "))
	}

	if s.Sort != nil {
		fmt.Fprintf(&b, " sort=%v", s.Sort)
	}

	return b.String()
}

func c30RecString(r c30Rec) string {
	tags := "nil"
	if r.Tags != nil {
		b, _ := json.Marshal(r.Tags)
		tags = string(b)
	}

	return fmt.Sprintf("{%q %s %d %v %q %s %q}", r.Key, r.ID.String()[:8], r.Count, r.Flag, r.Group, tags, string(r.Raw))
}

// canonical text of a record for multiset comparison (nil and empty RawMessage are
// the same stored text; nil and empty Tags are different JSON: null vs []).
func c30Canon(r c30Rec) string {
	return c30RecString(r)
}

func c30CanonSet(rows []c30Rec) []string {
	out := make([]string, 0, len(rows))
	for _, r := range rows {
		out = append(out, c30Canon(r))
	}

	sort.Strings(out)

	return out
}

// ---------------------------------------------------------------- generator

type c30Gen struct {
	rng   *rand.Rand
	avoid map[string]bool
	uuids []uuid.UUID
}

var (
	c30Keys   = []string{"k0", "k1", "k2", "k3", "k4", "k5", "K0", "O'Brien", "Ключ", "a b", "", `q"uote`}
	c30Counts = []int{-3, 0, 1, 2, 2, 5, 7, 1 << 40}
	c30Groups = []string{"g1", "g2", "G1", "", "g1", "it's"}
	c30Tags   = [][]string{nil, {}, {"a"}, {"a", "b"}, {`x"y`, "é"}}
	c30Raws   = []string{"", "{}", `{"a":1}`, "[1,2]", `"s"`}
	// spellings that are not a column of c30Rec: absent names, the json tag of a real
	// field, padded / quoted / injected spellings.
	c30Unknown = []string{"nosuch", "name", "key_name", "group_name", "n", "", "count ", " key", `key"`, `count" or 1=1 --`, "keys", "rowid"}
)

func (g *c30Gen) rec() c30Rec {
	r := c30Rec{
		Key:   c30Keys[g.rng.Intn(len(c30Keys))],
		ID:    g.uuids[g.rng.Intn(len(g.uuids))],
		Count: c30Counts[g.rng.Intn(len(c30Counts))],
		Flag:  g.rng.Intn(2) == 0,
		Group: c30Groups[g.rng.Intn(len(c30Groups))],
	}

	if t := c30Tags[g.rng.Intn(len(c30Tags))]; t != nil {
		r.Tags = append([]string{}, t...)
	}

	if s := c30Raws[g.rng.Intn(len(c30Raws))]; s != "" || g.rng.Intn(2) == 0 {
		r.Raw = json.RawMessage(s)
	}

	return r
}

func c30Spell(rng *rand.Rand, field string) string {
	switch rng.Intn(4) {
	case 0:
		return field
	case 1:
		return strings.ToLower(field)
	case 2:
		return strings.ToUpper(field)
	}

	b := []byte(field)
	for i := range b {
		if rng.Intn(2) == 0 {
			b[i] = []byte(strings.ToUpper(string(b[i])))[0]
		} else {
			b[i] = []byte(strings.ToLower(string(b[i])))[0]
		}
	}

	return string(b)
}

func (g *c30Gen) valueFor(field string) c30Val {
	switch field {
	case "Key":
		return c30Val{T: "s", S: c30Keys[g.rng.Intn(len(c30Keys))]}
	case "ID":
		u := g.uuids[g.rng.Intn(len(g.uuids))]
		if g.rng.Intn(2) == 0 {
			return c30Val{T: "s", S: u.String()}
		}

		return c30Val{T: "u", S: u.String()}
	case "Count":
		return c30Val{T: "i", I: c30Counts[g.rng.Intn(len(c30Counts))]}
	case "Flag":
		return c30Val{T: "b", B: g.rng.Intn(2) == 0}
	case "Group":
		return c30Val{T: "s", S: c30Groups[g.rng.Intn(len(c30Groups))]}
	case "Tags":
		b, _ := json.Marshal(c30Tags[g.rng.Intn(len(c30Tags))])

		return c30Val{T: "s", S: string(b)}
	}

	return c30Val{T: "s", S: c30Raws[g.rng.Intn(len(c30Raws))]}
}

func (g *c30Gen) filter() c30Filter {
	ops := []string{"=", "=", "=", "<>", "<", ">"}
	f := c30Filter{Op: ops[g.rng.Intn(len(ops))]}

	if !g.avoid["filter-ignored:unknown-column"] && g.rng.Intn(6) == 0 {
		f.Col = c30Unknown[g.rng.Intn(len(c30Unknown))]
		f.Val = g.valueFor(c30Fields[g.rng.Intn(len(c30Fields))])

		return f
	}

	// weight the scalar columns
	fields := []string{"Key", "Key", "Count", "Count", "Flag", "Group", "Group", "ID", "Tags", "Raw"}
	field := fields[g.rng.Intn(len(fields))]
	f.Col = c30Spell(g.rng, field)
	f.Val = g.valueFor(field)

	return f
}

func (g *c30Gen) filters(allowEmpty bool) []c30Filter {
	n := []int{0, 1, 1, 1, 2, 2, 3}[g.rng.Intn(7)]
	if n == 0 && !allowEmpty {
		n = 1
	}

	out := []c30Filter{}
	for i := 0; i < n; i++ {
		out = append(out, g.filter())
	}

	// nil filters, as the real callers pass them
	if g.rng.Intn(5) == 0 {
		pos := g.rng.Intn(len(out) + 1)
		out = append(out[:pos], append([]c30Filter{{Nil: true}}, out[pos:]...)...)
	}

	if g.avoid["filter-list:nil-before-filter"] && c30NilBeforeFilter(out) {
		// move the nil entries to the end: same predicate, the known construct is not emitted
		kept, nils := []c30Filter{}, []c30Filter{}
		for _, f := range out {
			if f.Nil {
				nils = append(nils, f)
			} else {
				kept = append(kept, f)
			}
		}

		out = append(kept, nils...)
	}

	return out
}

func (g *c30Gen) step(canReopen bool, current []c30Rec) c30Step {
	pickKey := func() string {
		if len(current) > 0 && g.rng.Intn(3) > 0 {
			return current[g.rng.Intn(len(current))].Key
		}

		return c30Keys[g.rng.Intn(len(c30Keys))]
	}

	for {
		switch g.rng.Intn(20) {
		case 0:
			return c30Step{Op: "create-if"}
		case 1, 2, 3, 4, 5:
			r := g.rec()

			return c30Step{Op: "insert", Rec: &r}
		case 6, 7, 8, 9:
			s := c30Step{Op: "read", Filters: g.filters(true)}
			if g.rng.Intn(3) == 0 {
				cols := []string{"Key", "count", "GROUP", "flag", "nosuch"}
				if g.avoid["sort:reserved-word-column"] {
					cols = []string{"Key", "count", "flag", "nosuch"}
				}

				s.Sort = []string{cols[g.rng.Intn(len(cols))]}
				if g.rng.Intn(2) == 0 {
					s.Sort = append(s.Sort, "key")
				}
			}

			return s
		case 10, 11:
			return c30Step{Op: "read-one", Key: pickKey()}
		case 12, 13:
			r := g.rec()

			return c30Step{Op: "update", Rec: &r, Filters: g.filters(g.rng.Intn(8) == 0)}
		case 14, 15:
			r := g.rec()
			r.Key = pickKey()

			return c30Step{Op: "update-one", Rec: &r}
		case 16:
			return c30Step{Op: "delete", Filters: g.filters(g.rng.Intn(8) == 0)}
		case 17, 18:
			return c30Step{Op: "delete-one", Key: pickKey()}
		case 19:
			if canReopen {
				return c30Step{Op: "reopen"}
			}
		}
	}
}

// ---------------------------------------------------------------- driver of the real store

type c30Store struct {
	h          *resources.ResHandle
	conn       string
	explicitPK bool
}

func (s *c30Store) open() error {
	h, err := resources.Open(c30Rec{}, "c30recs", s.conn)
	if err != nil {
		return err
	}

	s.h = h
	if s.explicitPK {
		h.SetPrimaryKey("Key")
	}

	return h.CreateIf()
}

func (s *c30Store) filters(fs []c30Filter) []*resources.Filter {
	out := []*resources.Filter{}

	for _, f := range fs {
		if f.Nil {
			out = append(out, nil)

			continue
		}

		var rf *resources.Filter

		switch f.Op {
		case "=":
			rf = s.h.Equals(f.Col, f.Val.any())
		case "<>":
			rf = s.h.NotEquals(f.Col, f.Val.any())
		case "<":
			rf = s.h.LessThan(f.Col, f.Val.any())
		case ">":
			rf = s.h.GreaterThan(f.Col, f.Val.any())
		}

		out = append(out, rf)
	}

	return out
}

func c30Recs(items []any) ([]c30Rec, error) {
	out := []c30Rec{}

	for _, it := range items {
		p, ok := it.(*c30Rec)
		if !ok || p == nil {
			return nil, fmt.Errorf("Read returned %T, want *c30Rec", it)
		}

		out = append(out, *p)
	}

	return out, nil
}

// c30Outcome of one history.
type c30Outcome struct {
	trace      []string
	violated   bool
	nontrivial bool
}

type c30Case struct {
	Kind       string   `json:"kind"`
	HSeed      int64    `json:"hseed"`
	Steps      int      `json:"steps"`
	Backend    string   `json:"backend"`
	ExplicitPK bool     `json:"explicit_pk"`
	Avoid      []string `json:"avoid"`
	Trace      []string `json:"trace,omitempty"`
}

var c30Counter atomic.Int64

// c30History generates and runs one history against a fresh database.
func c30History(r *vh.Report, c c30Case) c30Outcome {
	avoid := map[string]bool{}
	for _, k := range c.Avoid {
		avoid[k] = true
	}

	rng := rand.New(rand.NewSource(c.HSeed))
	g := &c30Gen{rng: rng, avoid: avoid}

	for i := 0; i < 4; i++ {
		var b [16]byte

		rng.Read(b[:])
		u, _ := uuid.FromBytes(b[:])
		g.uuids = append(g.uuids, u)
	}

	id := c30Counter.Add(1)
	st := &c30Store{explicitPK: c.ExplicitPK}

	if c.Backend == "file" {
		dir := filepath.Join(arena(), "c30")
		_ = os.MkdirAll(dir, 0o700)
		path := filepath.Join(dir, fmt.Sprintf("h%d-%d.db", os.Getpid(), id))
		st.conn = "sqlite://" + path

		defer func() {
			for _, sfx := range []string{"", "-wal", "-shm"} {
				_ = os.Remove(path + sfx)
			}
		}()
	} else {
		st.conn = fmt.Sprintf("sqlite://file:c30mem%d_%d?mode=memory&cache=shared", os.Getpid(), id)
	}

	out := c30Outcome{}
	model := []c30Rec{}
	reopened := false

	if err := st.open(); err != nil {
		r.Inconcl("c30: cannot open " + st.conn + ": " + err.Error())

		return out
	}

	defer func() {
		if st.h != nil {
			_ = st.h.Close()
		}
	}()

	// set per step: the filter list has a nil entry before a real filter and no unknown column
	stepNilFirst := false
	stepOp := ""

	violate := func(key, desc string, exp, obs any) {
		// Whatever a statement built from such a list does wrong (syntax error for
		// Read/Delete, an UPDATE without WHERE whose last SET expression swallows the
		// condition, and the key conflicts that follow) is one defect of the WHERE builder.
		// Only those two symptoms are filed under its key; any other mismatch of such a step
		// keeps its own key.
		if stepNilFirst && (stepOp == "update" || strings.Contains(desc, "syntax error")) &&
			(strings.HasPrefix(key, "read-mismatch:") || strings.HasPrefix(key, "error-mismatch:") || strings.HasPrefix(key, "update:")) {
			key = "filter-list:nil-before-filter"
		}

		cc := c
		cc.Trace = append([]string{}, out.trace...)
		r.Violate(vh.Violation{Key: key, Desc: desc, Case: cc, Expected: exp, Observed: obs})
		out.violated = true
	}

	keyOf := func(k string) int {
		for i, m := range model {
			if m.Key == k {
				return i
			}
		}

		return -1
	}

	sawProperSubset, sawMutation := false, false

	for i := 0; i < c.Steps && !out.violated; i++ {
		step := g.step(c.Backend == "file", model)
		if step.Op == "reopen" && !c.ExplicitPK && avoid["primary-key:lost-after-reopen"] {
			continue
		}

		out.trace = append(out.trace, fmt.Sprintf("%02d %s", i, step.String()))
		r.Count("op."+step.Op, 1)

		st.h.Begin()

		unknown := c30HasUnknown(step.Filters)
		nilFirst := c30NilBeforeFilter(step.Filters)
		stepNilFirst = nilFirst && !unknown
		stepOp = step.Op

		for _, f := range step.Filters {
			switch {
			case f.Nil:
				r.Count("filter.nil", 1)
			case c30Field(f.Col) == "":
				r.Count("filter.unknown-column", 1)
			default:
				if c30Field(f.Col) != f.Col {
					r.Count("filter.wrong-case-column", 1)
				}

				r.Count("filter.op."+f.Op, 1)
			}
		}

		errKey := func(op string) string { return "error-mismatch:" + op }

		switch step.Op {
		case "create-if":
			if err := st.h.CreateIf(); err != nil {
				violate("error-mismatch:create-if", "CreateIf on an existing table failed: "+err.Error(), "nil", err.Error())
			}

		case "reopen":
			if err := st.h.Close(); err != nil {
				violate("error-mismatch:close", "Close failed: "+err.Error(), "nil", err.Error())

				break
			}

			st.h = nil
			if err := st.open(); err != nil {
				violate("error-mismatch:reopen", "Open+CreateIf of the existing database failed: "+err.Error(), "nil", err.Error())

				break
			}

			reopened = true

		case "insert":
			err := st.h.Insert(*step.Rec)
			dup := keyOf(step.Rec.Key) >= 0

			switch {
			case dup && err == nil:
				violate("insert:duplicate-key-accepted", fmt.Sprintf("Insert of a second record with primary key %q succeeded", step.Rec.Key), "error", "nil")
			case !dup && err != nil:
				violate("error-mismatch:insert", "Insert of a new key failed: "+err.Error(), "nil", err.Error())
			case !dup:
				model = append(model, *step.Rec)
				sawMutation = true
			}

		case "read":
			st.h.Sort(step.Sort...)

			items, err := st.h.Read(st.filters(step.Filters)...)
			st.h.Sort()

			want := []c30Rec{}
			for _, m := range model {
				if c30Match(m, step.Filters) {
					want = append(want, m)
				}
			}

			if err != nil {
				switch {
				case unknown:
					r.Count("unknown-column.rejected-with-error", 1)
				case len(step.Sort) > 0 && !nilFirst && c30SortReserved(step.Sort):
					violate("sort:reserved-word-column", "Read with Sort on column \"group\" failed: "+err.Error(), c30CanonSet(want), err.Error())
				default:
					violate(errKey("read"), "Read failed: "+err.Error(), c30CanonSet(want), err.Error())
				}

				break
			}

			got, cerr := c30Recs(items)
			if cerr != nil {
				violate("read-mismatch:read", cerr.Error(), "records", cerr.Error())

				break
			}

			r.Count("rows.compared", int64(len(got)))

			if unknown {
				if len(got) > 0 {
					violate("filter-ignored:unknown-column", fmt.Sprintf("Read with a filter on a column the record type does not have returned %d of %d records and no error", len(got), len(model)),
						"error or no records", c30CanonSet(got))
				} else {
					r.Count("unknown-column.empty-result", 1)
				}

				break
			}

			if !reflect.DeepEqual(c30CanonSet(got), c30CanonSet(want)) {
				violate("read-mismatch:read", "Read returned a different record set than the model", c30CanonSet(want), c30CanonSet(got))

				break
			}

			if len(want) > 0 && len(want) < len(model) {
				sawProperSubset = true
				r.Count("reads.proper-subset", 1)
			}

			if len(step.Sort) > 0 {
				if msg := c30CheckOrder(got, step.Sort); msg != "" {
					violate("read-mismatch:sort-order", msg, "ordered by "+strings.Join(step.Sort, ","), c30Project(got, step.Sort))
				}

				r.Count("reads.sorted", 1)
			}

		case "read-one":
			item, err := st.h.ReadOne(step.Key)
			idx := keyOf(step.Key)

			switch {
			case idx < 0 && err == nil:
				violate("read-mismatch:read-one", fmt.Sprintf("ReadOne(%q) returned a record for an absent key", step.Key), "not found", fmt.Sprint(item))
			case idx >= 0 && err != nil:
				key := "read-mismatch:read-one"
				if reopened && !c.ExplicitPK {
					key = "primary-key:lost-after-reopen"
				}

				violate(key, fmt.Sprintf("ReadOne(%q) failed for a stored key: %v", step.Key, err), c30Canon(model[idx]), err.Error())
			case idx >= 0:
				p, ok := item.(*c30Rec)
				if !ok || c30Canon(*p) != c30Canon(model[idx]) {
					violate("read-mismatch:read-one", fmt.Sprintf("ReadOne(%q) returned a different record", step.Key), c30Canon(model[idx]), fmt.Sprint(item))
				}

				r.Count("read-one.hit", 1)
			default:
				r.Count("read-one.miss", 1)
			}

		case "update":
			err := st.h.Update(*step.Rec, st.filters(step.Filters)...)

			next := []c30Rec{}
			changed := 0

			for _, m := range model {
				if c30Match(m, step.Filters) {
					next = append(next, *step.Rec)
					changed++
				} else {
					next = append(next, m)
				}
			}

			conflict := c30DupKeys(next)

			switch {
			case unknown:
				if err != nil {
					r.Count("unknown-column.rejected-with-error", 1)
				}
				// state must be unchanged: checked by the read-back below
			case conflict && err == nil:
				violate("update:duplicate-key-accepted", "Update produced two records with one primary key without an error", "error", "nil")
			case conflict:
				r.Count("update.key-conflict-rejected", 1)
			case err != nil:
				violate(errKey("update"), "Update failed: "+err.Error(), "nil", err.Error())
			default:
				model = next

				if changed > 0 {
					sawMutation = true

					r.Count("update.rows", int64(changed))
				}
			}

		case "update-one":
			err := st.h.UpdateOne(*step.Rec)
			idx := keyOf(step.Rec.Key)

			// the package documents "if the object is not found an error is reported"; the
			// property only speaks about records, so only the state is judged for an absent key.
			switch {
			case idx >= 0 && err != nil:
				key := "error-mismatch:update-one"
				if reopened && !c.ExplicitPK {
					key = "primary-key:lost-after-reopen"
				}

				violate(key, fmt.Sprintf("UpdateOne of stored key %q failed: %v", step.Rec.Key, err), "nil", err.Error())
			case idx >= 0:
				model[idx] = *step.Rec
				sawMutation = true

				r.Count("update-one.hit", 1)
			default:
				r.Count("update-one.miss", 1)
			}

		case "delete":
			n, err := st.h.Delete(st.filters(step.Filters)...)

			next := []c30Rec{}
			for _, m := range model {
				if !c30Match(m, step.Filters) {
					next = append(next, m)
				}
			}

			switch {
			case unknown:
				if err != nil {
					r.Count("unknown-column.rejected-with-error", 1)
				}
			case err != nil:
				violate(errKey("delete"), "Delete failed: "+err.Error(), "nil", err.Error())
			default:
				if int(n) != len(model)-len(next) {
					violate("read-mismatch:delete-count", fmt.Sprintf("Delete reported %d rows, the model removes %d", n, len(model)-len(next)), len(model)-len(next), n)
				}

				if len(next) != len(model) {
					sawMutation = true

					r.Count("delete.rows", int64(len(model)-len(next)))
				}

				model = next
			}

		case "delete-one":
			err := st.h.DeleteOne(step.Key)
			idx := keyOf(step.Key)

			switch {
			case idx >= 0 && err != nil:
				key := "error-mismatch:delete-one"
				if reopened && !c.ExplicitPK {
					key = "primary-key:lost-after-reopen"
				}

				violate(key, fmt.Sprintf("DeleteOne(%q) failed for a stored key: %v", step.Key, err), "nil", err.Error())
			case idx < 0 && err == nil:
				violate("error-mismatch:delete-one", fmt.Sprintf("DeleteOne(%q) reported success for an absent key", step.Key), "not found", "nil")
			case idx >= 0:
				model = append(model[:idx:idx], model[idx+1:]...)
				sawMutation = true

				r.Count("delete-one.hit", 1)
			default:
				r.Count("delete-one.miss", 1)
			}
		}

		if out.violated {
			break
		}

		// state after the step: the whole table equals the model
		st.h.Begin()

		items, err := st.h.Read()
		if err != nil {
			violate("read-mismatch:"+step.Op, "unfiltered Read after the step failed: "+err.Error(), c30CanonSet(model), err.Error())

			break
		}

		got, cerr := c30Recs(items)
		if cerr != nil {
			violate("read-mismatch:"+step.Op, cerr.Error(), "records", cerr.Error())

			break
		}

		r.Count("state.readbacks", 1)

		if !reflect.DeepEqual(c30CanonSet(got), c30CanonSet(model)) {
			key := "read-mismatch:" + step.Op
			desc := "table contents after " + step.Op + " differ from the model"

			if unknown && (step.Op == "update" || step.Op == "delete") {
				key = "filter-ignored:unknown-column"
				desc = step.Op + " with a filter on a column the record type does not have changed records"
			}

			violate(key, desc, c30CanonSet(model), c30CanonSet(got))
		}

		r.Max("table.max-rows", int64(len(model)))
	}

	out.nontrivial = sawProperSubset && sawMutation

	return out
}

func c30SortReserved(names []string) bool {
	for _, n := range names {
		if strings.EqualFold(n, "group") {
			return true
		}
	}

	return false
}

func c30DupKeys(rows []c30Rec) bool {
	seen := map[string]bool{}
	for _, r := range rows {
		if seen[r.Key] {
			return true
		}

		seen[r.Key] = true
	}

	return false
}

func c30Project(rows []c30Rec, names []string) [][]any {
	out := [][]any{}

	for _, r := range rows {
		p := []any{}

		for _, n := range names {
			if f := c30Field(n); f != "" {
				p = append(p, c30Stored(r, f))
			}
		}

		out = append(out, p)
	}

	return out
}

// c30CheckOrder: rows are non-decreasing in the lexicographic order of the sort columns.
func c30CheckOrder(rows []c30Rec, names []string) string {
	proj := c30Project(rows, names)
	for i := 1; i < len(proj); i++ {
		for j := range proj[i] {
			c, _ := c30Cmp(proj[i-1][j], proj[i][j])
			if c < 0 {
				break
			}

			if c > 0 {
				return fmt.Sprintf("row %d sorts before row %d on %v", i, i-1, names)
			}
		}
	}

	return ""
}

func arena() string {
	if a := os.Getenv("VERIF_ARENA"); a != "" {
		return a
	}

	return os.TempDir()
}

func workers() int {
	w := runtime.GOMAXPROCS(0)
	if w > 8 {
		w = 8
	}

	if w < 1 {
		w = 1
	}

	return w
}

func avoidList(prop string) []string {
	out := []string{}
	for k := range vh.KnownKeys(prop) {
		out = append(out, k)
	}

	sort.Strings(out)

	return out
}

// c30Probes are the directed minimal histories of the constructs the generator can be
// told to avoid. They run on every invocation and report the same keys.
func c30Probes(r *vh.Report) {
	mk := func() (*c30Store, func()) {
		st := &c30Store{explicitPK: true, conn: fmt.Sprintf("sqlite://file:c30probe%d_%d?mode=memory&cache=shared", os.Getpid(), c30Counter.Add(1))}

		if err := st.open(); err != nil {
			r.Inconcl("c30 probe: open failed: " + err.Error())

			return nil, func() {}
		}

		for i, k := range []string{"a", "b", "c"} {
			_ = st.h.Begin().Insert(c30Rec{Key: k, Count: i, Group: "g"})
		}

		return st, func() { _ = st.h.Close() }
	}

	// 1. unknown column, each operation
	r.Probe("filter-ignored:unknown-column")

	if st, done := mk(); st != nil {
		st.h.Begin()
		items, err := st.h.Read(st.h.Equals("name", "a"))
		r.Eval("probe:unknown:read", true)

		if err == nil && len(items) > 0 {
			r.Violate(vh.Violation{Key: "filter-ignored:unknown-column", Desc: fmt.Sprintf("Read(h.Equals(\"name\",\"a\")) on a record type without a Name field returned all %d records and no error", len(items)),
				Case: map[string]any{"kind": "probe", "probe": "unknown:read"}, Expected: "error or no records", Observed: len(items)})
		}

		st.h.Begin()
		err = st.h.Update(c30Rec{Key: "z", Count: 99}, st.h.Equals("key_name", "a"))
		left, _ := st.h.Begin().Read()
		recs, _ := c30Recs(left)
		r.Eval("probe:unknown:update", true)

		if err == nil && !reflect.DeepEqual(c30CanonSet(recs), c30CanonSet([]c30Rec{{Key: "a", Group: "g"}, {Key: "b", Count: 1, Group: "g"}, {Key: "c", Count: 2, Group: "g"}})) {
			r.Violate(vh.Violation{Key: "filter-ignored:unknown-column", Desc: "Update(rec, h.Equals(\"key_name\",\"a\")) changed records although the column does not exist",
				Case: map[string]any{"kind": "probe", "probe": "unknown:update"}, Expected: "error or unchanged table", Observed: c30CanonSet(recs)})
		}

		st.h.Begin()
		n, err := st.h.Delete(st.h.GreaterThan("nosuch", 0))
		r.Eval("probe:unknown:delete", true)

		if err == nil && n > 0 {
			r.Violate(vh.Violation{Key: "filter-ignored:unknown-column", Desc: fmt.Sprintf("Delete(h.GreaterThan(\"nosuch\",0)) deleted %d records", n),
				Case: map[string]any{"kind": "probe", "probe": "unknown:delete"}, Expected: "error or 0 rows", Observed: n})
		}

		done()
	}

	// 2. nil filter before a real filter
	r.Probe("filter-list:nil-before-filter")

	if st, done := mk(); st != nil {
		st.h.Begin()
		items, err := st.h.Read(nil, st.h.Equals("key", "a"))
		r.Eval("probe:nil-first:read", true)

		if err != nil || len(items) != 1 {
			r.Violate(vh.Violation{Key: "filter-list:nil-before-filter", Desc: fmt.Sprintf("Read(nil, h.Equals(\"key\",\"a\")): %d records, err=%v; Read(h.Equals(\"key\",\"a\"), nil) and Read(nil) are accepted", len(items), err),
				Case: map[string]any{"kind": "probe", "probe": "nil-first:read"}, Expected: "1 record", Observed: fmt.Sprintf("%d records, err=%v", len(items), err)})
		}

		done()
	}

	// 3. default primary key after reopening an existing table
	r.Probe("primary-key:lost-after-reopen")

	{
		dir := filepath.Join(arena(), "c30")
		_ = os.MkdirAll(dir, 0o700)
		path := filepath.Join(dir, fmt.Sprintf("probe%d-%d.db", os.Getpid(), c30Counter.Add(1)))
		st := &c30Store{conn: "sqlite://" + path}

		if err := st.open(); err == nil {
			_ = st.h.Begin().Insert(c30Rec{Key: "a", Count: 1})
			_, err1 := st.h.ReadOne("a")
			_ = st.h.Close()

			if err := st.open(); err == nil {
				_, err2 := st.h.ReadOne("a")
				r.Eval("probe:default-pk:reopen", true)

				if err1 == nil && err2 != nil {
					r.Violate(vh.Violation{Key: "primary-key:lost-after-reopen", Desc: "Open+CreateIf+Insert+ReadOne(\"a\") works; after Close and Open+CreateIf on the same database ReadOne(\"a\") fails: " + err2.Error(),
						Case: map[string]any{"kind": "probe", "probe": "default-pk:reopen"}, Expected: "the stored record", Observed: err2.Error()})
				}

				_ = st.h.Close()
			}
		} else {
			r.Inconcl("c30 probe: open file db failed: " + err.Error())
		}

		for _, sfx := range []string{"", "-wal", "-shm"} {
			_ = os.Remove(path + sfx)
		}
	}

	// 4. Sort on a column whose name is an SQL keyword
	r.Probe("sort:reserved-word-column")

	if st, done := mk(); st != nil {
		st.h.Begin().Sort("Group")
		items, err := st.h.Read()
		st.h.Sort()
		r.Eval("probe:sort:group", true)

		if err != nil || len(items) != 3 {
			r.Violate(vh.Violation{Key: "sort:reserved-word-column", Desc: fmt.Sprintf("Sort(\"Group\").Read(): %d records, err=%v (filters on the same column work)", len(items), err),
				Case: map[string]any{"kind": "probe", "probe": "sort:group"}, Expected: "3 records", Observed: fmt.Sprintf("%d records, err=%v", len(items), err)})
		}

		done()
	}
}

func TestC30Model(t *testing.T) {
	r := vh.New("C30", "model")
	r.Rule = "a case is one PRNG history of 30 steps (create-if, insert, read with =,<>,<,> conjunctions / nil filters / wrong-case and unknown columns / Sort, read-one, update, update-one, delete, delete-one, close+reopen) " +
		"on a fresh SQLite database (file in the arena or shared-cache memory); distinct = distinct operation trace; non-trivial = the history changed records and at least one filtered Read returned a non-empty proper subset of the table"
	r.Assume("the monitor's slice model (conjunction of typed comparisons; nil filter = no constraint; unknown column = selects nothing) is what 'a simple in-memory table' means")
	r.Assume("modernc SQLite executes the generated SQL correctly (BINARY collation on TEXT equals Go string order)")

	if raw := vh.ReplayCase(); raw != nil {
		var c c30Case
		if err := json.Unmarshal(raw, &c); err != nil {
			t.Fatal(err)
		}

		if c.Kind != "probe" && c.Kind != "history" {
			// a case of the other part of this check
			r.Distinct += 2
			_ = r.Write()

			return
		}

		if c.Kind == "probe" {
			c30Probes(r)
		} else {
			c.Trace = nil
			out := c30History(r, c)
			r.Eval(vh.Hash(out.trace), true)
			t.Log(strings.Join(out.trace, "\n"))
		}

		r.Distinct += 2
		_ = r.Write()

		return
	}

	avoid := avoidList("C30")
	if len(avoid) > 0 {
		r.Note("constructs kept out of the random stream because they are listed known findings (each still runs as a directed probe): " + strings.Join(avoid, ", "))
	}

	c30Probes(r)

	seeds := vh.Rand("c30-histories")
	n := vh.N(300, 20000)
	fileEvery := 6

	if vh.Tier() == "thorough" {
		fileEvery = 20
	}

	// histories are independent (own database, own handle): run them on a few workers
	jobs := make(chan int)
	cases := make([]c30Case, n)

	for i := range cases {
		cases[i] = c30Case{Kind: "history", HSeed: seeds.Int63()&0x7fffffffffff + 1, Steps: 30, Avoid: avoid, Backend: "memory", ExplicitPK: i%3 != 0}
		// a database file costs an fsync per write (~10x a shared-cache memory database);
		// it is what close+reopen needs, so a fixed fraction of the histories uses one
		if i%fileEvery == 0 {
			cases[i].Backend = "file"
		}
	}

	var wg sync.WaitGroup

	for w := 0; w < workers(); w++ {
		wg.Add(1)

		go func() {
			defer wg.Done()

			for i := range jobs {
				c := cases[i]
				out := c30History(r, c)
				r.Eval(vh.Hash(out.trace), out.nontrivial)
				r.Count("histories."+c.Backend, 1)

				if i%97 == 3 && !out.violated {
					tr := out.trace
					if len(tr) > 8 {
						tr = tr[:8]
					}

					r.Sample(map[string]any{"hseed": c.HSeed, "backend": c.Backend, "first_steps": tr})
				}
			}
		}()
	}

	for i := range cases {
		jobs <- i
	}

	close(jobs)
	wg.Wait()

	if r.Counters["state.readbacks"] == 0 {
		t.Fatal("observed nothing")
	}

	if err := r.Write(); err != nil {
		t.Fatal(err)
	}
}
