package stores

// C30, part "users" — the same record-set oracle pointed at the three real users of
// the resource store, through their public functions only:
//
//   - tokens blacklist   (tokens.SetDatabasePath/Blacklist/Delete/IsBlacklisted/IsIDBlacklisted/Flush/List)
//   - DSN service        (dsns.NewDatabaseService: WriteDSN/ReadDSN/DeleteDSN/ListDSNS/GrantDSN/AuthDSN/Permissions/RevokeAllDSN)
//   - table permissions  (tables.GrantPermissions/ReadTablePermissions/ReadAllPermissions/DeletePermissions/
//     DeletePermissionsByDSN/Authorized)
//
// Each gets PRNG histories and a few-line model (a map keyed the way the user keys its
// records); every answer of a public function is compared with the model's answer.
import (
	"bytes"
	"encoding/json"
	"fmt"
	"math/rand"
	"net/http"
	"net/http/httptest"
	"net/url"
	"os"
	"path/filepath"
	"reflect"
	"sort"
	"strings"
	"testing"
	"time"

	"github.com/google/uuid"
	"github.com/tucats/ego/internal/caches"
	"github.com/tucats/ego/internal/cli/settings"
	"github.com/tucats/ego/internal/defs"
	"github.com/tucats/ego/internal/dsns"
	"github.com/tucats/ego/internal/language/tokens"
	"github.com/tucats/ego/internal/router"
	"github.com/tucats/ego/internal/server/tables"
	"github.com/tucats/ego/internal/verifh/vh"
)

type c30UCase struct {
	Kind  string   `json:"kind"` // blacklist, dsns, tableperms, users-probe
	HSeed int64    `json:"hseed"`
	Steps int      `json:"steps"`
	File  bool     `json:"file"`
	Avoid []string `json:"avoid"`
	Trace []string `json:"trace,omitempty"`
}

type c30Tracer struct {
	r        *vh.Report
	c        c30UCase
	trace    []string
	violated bool
}

func (t *c30Tracer) step(format string, a ...any) {
	t.trace = append(t.trace, fmt.Sprintf("%02d ", len(t.trace))+fmt.Sprintf(format, a...))
}

func (t *c30Tracer) violate(key, desc string, exp, obs any) {
	cc := t.c
	cc.Trace = append([]string{}, t.trace...)
	t.r.Violate(vh.Violation{Key: key, Desc: desc, Case: cc, Expected: exp, Observed: obs})
	t.violated = true
}

func sortedKeys[V any](m map[string]V) []string {
	out := make([]string, 0, len(m))
	for k := range m {
		out = append(out, k)
	}

	sort.Strings(out)

	return out
}

// ------------------------------------------------------------------ token blacklist

var c30BlacklistOpen bool

func c30BlacklistPath() string {
	return "sqlite://" + filepath.Join(arena(), "c30", fmt.Sprintf("blacklist-%d.db", os.Getpid()))
}

func c30BlacklistHistory(r *vh.Report, c c30UCase) *c30Tracer {
	t := &c30Tracer{r: r, c: c}
	rng := rand.New(rand.NewSource(c.HSeed))

	if !c30BlacklistOpen {
		_ = os.MkdirAll(filepath.Join(arena(), "c30"), 0o700)

		if err := tokens.SetDatabasePath(c30BlacklistPath()); err != nil {
			r.Inconcl("blacklist: SetDatabasePath failed: " + err.Error())

			return t
		}

		c30BlacklistOpen = true
	}

	// every history starts from an empty list; Flush is itself a public function under test
	if _, err := tokens.Flush(); err != nil {
		t.violate("users:blacklist:flush", "Flush failed: "+err.Error(), "nil", err.Error())

		return t
	}

	ids := []uuid.UUID{}

	for i := 0; i < 5; i++ {
		var b [16]byte

		rng.Read(b[:])
		u, _ := uuid.FromBytes(b[:])
		ids = append(ids, u)
	}

	names := []string{"alice", "bob", "Alice"}
	model := map[string]bool{}

	for i := 0; i < c.Steps && !t.violated; i++ {
		id := ids[rng.Intn(len(ids))]
		ids0 := id.String()

		switch op := rng.Intn(12); op {
		case 0, 1, 2:
			t.step("Blacklist(%s)", ids0[:8])
			err := tokens.Blacklist(ids0)
			r.Count("blacklist.op.blacklist", 1)

			if !model[ids0] && err != nil {
				t.violate("users:blacklist:insert", "Blacklist of a new id failed: "+err.Error(), "nil", err.Error())
			}

			model[ids0] = true

		case 3, 4:
			t.step("Delete(%s)", ids0[:8])
			err := tokens.Delete(ids0)
			r.Count("blacklist.op.delete", 1)

			if (err == nil) != model[ids0] {
				t.violate("users:blacklist:delete", fmt.Sprintf("Delete(%s) err=%v, listed=%v", ids0[:8], err, model[ids0]), model[ids0], fmt.Sprint(err))
			}

			delete(model, ids0)

		case 5, 6, 7:
			t.step("IsIDBlacklisted(%s)", ids0[:8])
			got, err := tokens.IsIDBlacklisted(ids0)
			r.Count("blacklist.op.is-id", 1)

			if err != nil || got != model[ids0] {
				t.violate("users:blacklist:lookup", fmt.Sprintf("IsIDBlacklisted(%s) = %v, %v", ids0[:8], got, err), model[ids0], got)
			}

		case 8, 9:
			name := names[rng.Intn(len(names))]
			t.step("IsBlacklisted(token %s of %s)", ids0[:8], name)
			tok := tokens.Token{Name: name, TokenID: id, Created: time.Date(2024, 1, 2, 3, 4, 0, 0, time.UTC), Expires: time.Date(2034, 1, 2, 3, 4, 0, 0, time.UTC)}
			got, err := tokens.IsBlacklisted(tok)
			r.Count("blacklist.op.is-token", 1)

			if err != nil || got != model[ids0] {
				t.violate("users:blacklist:lookup", fmt.Sprintf("IsBlacklisted(%s) = %v, %v", ids0[:8], got, err), model[ids0], got)
			}

		case 10:
			if rng.Intn(3) == 0 {
				t.step("Flush()")
				n, err := tokens.Flush()
				r.Count("blacklist.op.flush", 1)

				if err != nil || n != len(model) {
					t.violate("users:blacklist:flush", fmt.Sprintf("Flush() = %d, %v", n, err), len(model), n)
				}

				model = map[string]bool{}
			}

		case 11:
			if c.File && rng.Intn(3) == 0 {
				t.step("Close(); SetDatabasePath(same)")
				tokens.Close()
				r.Count("blacklist.op.reopen", 1)

				if err := tokens.SetDatabasePath(c30BlacklistPath()); err != nil {
					t.violate("users:blacklist:reopen", "SetDatabasePath on the existing database failed: "+err.Error(), "nil", err.Error())
				}
			}
		}

		if t.violated {
			break
		}

		// the list equals the model after every step
		items, err := tokens.List()
		if err != nil {
			t.violate("users:blacklist:list", "List failed: "+err.Error(), sortedKeys(model), err.Error())

			break
		}

		got := []string{}

		for _, it := range items {
			if !it.Active {
				t.violate("users:blacklist:list", "List returned an inactive entry "+it.ID, "active", "inactive")
			}

			got = append(got, it.ID)
		}

		sort.Strings(got)
		r.Count("blacklist.list-compared", 1)

		if !reflect.DeepEqual(got, sortedKeys(model)) {
			t.violate("users:blacklist:list", "List differs from the model", sortedKeys(model), got)
		}
	}

	return t
}

// ------------------------------------------------------------------ DSN service

type c30DSNAPI interface {
	AuthDSN(session int, user, dsn string, action dsns.DSNAction) bool
	ReadDSN(session int, user, name string, doNotLog bool) (defs.DSN, error)
	WriteDSN(session int, user string, dataSourceName defs.DSN) error
	DeleteDSN(session int, user, name string) error
	ListDSNS(session int, user string) (map[string]defs.DSN, error)
	GrantDSN(session int, user, name string, action dsns.DSNAction, grant bool) error
	Permissions(session int, user, name string) (map[string]dsns.DSNAction, error)
	RevokeAllDSN(session int, name string) error
	Close() error
}

var c30DSNCounter int

func c30DSNNoID(d defs.DSN) defs.DSN {
	d.ID = ""

	return d
}

func c30DSNHistory(r *vh.Report, c c30UCase) *c30Tracer {
	t := &c30Tracer{r: r, c: c}
	rng := rand.New(rand.NewSource(c.HSeed))
	c30DSNCounter++

	conn := fmt.Sprintf("sqlite://file:c30dsn%d_%d?mode=memory&cache=shared", os.Getpid(), c30DSNCounter)

	if c.File {
		_ = os.MkdirAll(filepath.Join(arena(), "c30"), 0o700)
		path := filepath.Join(arena(), "c30", fmt.Sprintf("dsn-%d-%d.db", os.Getpid(), c30DSNCounter))
		conn = "sqlite://" + path

		defer func() {
			for _, sfx := range []string{"", "-wal", "-shm"} {
				_ = os.Remove(path + sfx)
			}
		}()
	}

	caches.Purge(caches.DSNCache) // a new database is a new server process: nothing cached

	open := func() c30DSNAPI {
		svc, err := dsns.NewDatabaseService(conn)
		if err != nil || svc == nil {
			r.Inconcl(fmt.Sprintf("dsns: NewDatabaseService(%s) failed: %v", conn, err))

			return nil
		}

		return svc
	}

	svc := open()
	if svc == nil {
		return t
	}

	defer func() { _ = svc.Close() }()

	type authKey struct{ user, dsn string }

	model := map[string]defs.DSN{}
	auth := map[authKey]dsns.DSNAction{}
	names := []string{"db1", "DB1", "sales d'q"} // few names: delete + re-create of one name must be frequent
	users := []string{"alice", "bob", "Alice"}
	actions := []dsns.DSNAction{dsns.DSNReadAction, dsns.DSNWriteAction, dsns.DSNAdminAction, dsns.DSNReadAction | dsns.DSNWriteAction}

	for i := 0; i < c.Steps && !t.violated; i++ {
		name := names[rng.Intn(len(names))]
		user := users[rng.Intn(len(users))]

		switch op := rng.Intn(17); op {
		case 0, 1, 2, 3:
			d := defs.DSN{Name: name, Provider: "sqlite", Database: fmt.Sprintf("/tmp/x%d.db", rng.Intn(3)), Host: []string{"", "localhost", "h'1"}[rng.Intn(3)],
				Port: []int{0, 5432, 1}[rng.Intn(3)], Username: []string{"", "u"}[rng.Intn(2)], Password: []string{"", "cipher"}[rng.Intn(2)],
				Schema: []string{"", "public"}[rng.Intn(2)], Secured: rng.Intn(2) == 0, Restricted: rng.Intn(3) == 0, RowId: rng.Intn(2) == 0}

			if old, ok := model[name]; ok {
				d.ID = old.ID // the caller updates the record it read
			}

			t.step("WriteDSN(%+v)", d)
			err := svc.WriteDSN(0, "admin", d)
			r.Count("dsns.op.write", 1)

			if err != nil {
				t.violate("users:dsns:write", "WriteDSN failed: "+err.Error(), "nil", err.Error())

				break
			}

			if _, ok := model[name]; !ok {
				d.ID = "<assigned>"
			}

			model[name] = d

		case 4, 5, 6:
			t.step("ReadDSN(%q)", name)
			got, err := svc.ReadDSN(0, user, name, true)
			want, ok := model[name]
			r.Count("dsns.op.read", 1)

			switch {
			case ok && err != nil:
				t.violate("users:dsns:read", fmt.Sprintf("ReadDSN(%q) failed for a stored DSN: %v", name, err), c30DSNNoID(want), err.Error())
			case !ok && err == nil:
				t.violate("users:dsns:read", fmt.Sprintf("ReadDSN(%q) returned a DSN that was never written / was deleted", name), "error", got)
			case ok:
				if got != want {
					t.violate("users:dsns:read", fmt.Sprintf("ReadDSN(%q) differs from what was written", name), want, got)
				}
			}

		case 7, 16:
			t.step("DeleteDSN(%q)", name)
			err := svc.DeleteDSN(0, user, name)
			_, ok := model[name]
			r.Count("dsns.op.delete", 1)

			if ok != (err == nil) {
				t.violate("users:dsns:delete", fmt.Sprintf("DeleteDSN(%q) err=%v, stored=%v", name, err, ok), ok, fmt.Sprint(err))
			}

			delete(model, name)

			for k := range auth {
				if k.dsn == name {
					delete(auth, k)
				}
			}

		case 8, 9, 10:
			action := actions[rng.Intn(len(actions))]
			grant := rng.Intn(3) > 0
			t.step("GrantDSN(%q, %q, %d, grant=%v)", user, name, action, grant)
			err := svc.GrantDSN(0, user, name, action, grant)
			d, ok := model[name]
			r.Count("dsns.op.grant", 1)

			if ok != (err == nil) {
				t.violate("users:dsns:grant", fmt.Sprintf("GrantDSN on %q err=%v, stored=%v", name, err, ok), ok, fmt.Sprint(err))

				break
			}

			if ok {
				d.Restricted = true
				model[name] = d
				k := authKey{user, name}

				if grant {
					auth[k] |= action
				} else {
					auth[k] &^= action
				}
			}

		case 11, 12, 13:
			action := actions[rng.Intn(3)]
			t.step("AuthDSN(%q, %q, %d)", user, name, action)
			got := svc.AuthDSN(0, user, name, action)
			d, ok := model[name]
			want := ok && (!d.Restricted || auth[authKey{user, name}]&action != 0)
			r.Count("dsns.op.auth", 1)

			if got != want {
				t.violate("users:dsns:auth", fmt.Sprintf("AuthDSN(%q,%q,%d) = %v", user, name, action, got), want, got)
			}

		case 14:
			if rng.Intn(2) == 0 {
				t.step("RevokeAllDSN(%q)", name)
				r.Count("dsns.op.revoke-all", 1)

				if err := svc.RevokeAllDSN(0, name); err != nil {
					t.violate("users:dsns:revoke-all", "RevokeAllDSN failed: "+err.Error(), "nil", err.Error())
				}

				for k := range auth {
					if k.dsn == name {
						delete(auth, k)
					}
				}
			} else {
				t.step("(DSN cache expires)")
				caches.Purge(caches.DSNCache)
			}

		case 15:
			if c.File {
				t.step("Close(); NewDatabaseService(same)")
				r.Count("dsns.op.reopen", 1)

				if err := svc.Close(); err != nil {
					t.violate("users:dsns:reopen", "Close failed: "+err.Error(), "nil", err.Error())

					break
				}

				caches.Purge(caches.DSNCache)

				if svc = open(); svc == nil {
					return t
				}
			}
		}

		if t.violated {
			break
		}

		// state after the step: the list and every DSN's permission map equal the model
		list, err := svc.ListDSNS(0, "admin")
		if err != nil {
			t.violate("users:dsns:list", "ListDSNS failed: "+err.Error(), sortedKeys(model), err.Error())

			break
		}

		r.Count("dsns.list-compared", 1)

		if !reflect.DeepEqual(sortedKeys(list), sortedKeys(model)) {
			t.violate("users:dsns:list", "ListDSNS names differ from the model", sortedKeys(model), sortedKeys(list))

			break
		}

		for n, want := range model {
			got := list[n]
			got.Password, want.Password = "", ""

			if want.ID == "<assigned>" {
				if _, perr := uuid.Parse(got.ID); perr != nil {
					t.violate("users:dsns:write", "a new DSN has no generated id", "uuid", got.ID)
				}

				want.ID = got.ID
				m := model[n]
				m.ID = got.ID
				model[n] = m
			}

			if got != want {
				t.violate("users:dsns:list", fmt.Sprintf("ListDSNS[%q] differs from what was written", n), want, got)
			}

			perms, err := svc.Permissions(0, "admin", n)
			if err != nil {
				t.violate("users:dsns:permissions", "Permissions failed: "+err.Error(), "nil", err.Error())

				continue
			}

			wantP := map[string]dsns.DSNAction{}

			if want.Restricted {
				for k, a := range auth {
					if k.dsn == n && a != 0 {
						wantP[k.user] = a
					}
				}
			}

			gotP := map[string]dsns.DSNAction{}

			for u, a := range perms {
				if a != 0 {
					gotP[u] = a
				}
			}

			r.Count("dsns.permissions-compared", 1)

			if !reflect.DeepEqual(gotP, wantP) {
				t.violate("users:dsns:permissions", fmt.Sprintf("Permissions(%q) differ from the grants made", n), wantP, gotP)
			}
		}
	}

	return t
}

// ------------------------------------------------------------------ table permissions

type c30PermKey struct{ user, dsn, table string }

type c30PermFlags struct{ admin, read, write, update, del bool }

func (f c30PermFlags) list(withAdmin bool) []string {
	out := []string{}
	if f.admin && withAdmin {
		out = append(out, defs.TableAdminPermission)
	}

	if f.read {
		out = append(out, defs.TableReadPermission)
	}

	if f.write {
		out = append(out, defs.TableWritePermission)
	}

	if f.update {
		out = append(out, defs.TableUpdatePermission)
	}

	if f.del {
		out = append(out, defs.TableDeletePermission)
	}

	sort.Strings(out)

	return out
}

var (
	c30PermsReady   bool
	c30PermsCounter int
	c30PermsDSNs    c30DSNAPI
)

func c30PermsSetup(r *vh.Report) bool {
	if c30PermsReady {
		return true
	}

	_ = os.MkdirAll(filepath.Join(arena(), "c30"), 0o700)
	settings.SetDefault(defs.LogonUserdataSetting, "sqlite://"+filepath.Join(arena(), "c30", fmt.Sprintf("perms-%d.db", os.Getpid())))

	svc, err := dsns.NewDatabaseService(fmt.Sprintf("sqlite://file:c30permdsn%d?mode=memory&cache=shared", os.Getpid()))
	if err != nil {
		r.Inconcl("tableperms: cannot create the DSN service: " + err.Error())

		return false
	}

	dsns.DSNService = svc
	c30PermsDSNs = svc
	c30PermsReady = true

	return true
}

func c30Session(user string, admin bool, dsn, table string, params map[string][]string) *router.Session {
	c30PermsCounter++

	return &router.Session{ID: 9000 + c30PermsCounter, User: user, Admin: admin, Language: "en",
		URLParts: map[string]any{"dsn": dsn, "table": table}, Parameters: params}
}

func c30Req(method, path string, q url.Values, body []byte) *http.Request {
	u := path
	if len(q) > 0 {
		u += "?" + q.Encode()
	}

	return httptest.NewRequest(method, u, bytes.NewReader(body))
}

// c30PermsView converts an AllPermissionResponse body into key -> sorted non-admin permissions.
func c30PermsView(body []byte, prefix string) (map[c30PermKey][]string, error) {
	var resp defs.AllPermissionResponse
	if err := json.Unmarshal(body, &resp); err != nil {
		return nil, fmt.Errorf("%v in %s", err, vh.Trunc(string(body), 200))
	}

	out := map[c30PermKey][]string{}

	for _, p := range resp.Permissions {
		if !strings.HasPrefix(p.DSNName, prefix) {
			continue
		}

		perms := []string{}

		for _, s := range p.Permissions {
			if s != defs.TableAdminPermission {
				perms = append(perms, s)
			}
		}

		sort.Strings(perms)

		k := c30PermKey{p.User, p.DSNName, p.Table}
		if _, dup := out[k]; dup {
			return nil, fmt.Errorf("two records for %v", k)
		}

		out[k] = perms
	}

	return out, nil
}

func c30PermsHistory(r *vh.Report, c c30UCase) *c30Tracer {
	t := &c30Tracer{r: r, c: c}
	rng := rand.New(rand.NewSource(c.HSeed))

	if !c30PermsSetup(r) {
		return t
	}

	avoid := map[string]bool{}
	for _, k := range c.Avoid {
		avoid[k] = true
	}

	// DSN names unique to this history: the permissions table is one per process
	prefix := fmt.Sprintf("h%x_", c.HSeed&0xffffff)
	dsnNames := []string{prefix + "r1", prefix + "r2", prefix + "open", prefix + "missing"}

	for _, n := range dsnNames[:3] {
		if err := c30PermsDSNs.WriteDSN(0, "admin", defs.DSN{Name: n, Provider: "sqlite", Database: "/tmp/none.db", Restricted: n != prefix+"open"}); err != nil {
			r.Inconcl("tableperms: WriteDSN failed: " + err.Error())

			return t
		}
	}

	tablesN := []string{"t1", "t2", "T1"}
	users := []string{"alice", "bob", "Alice", "dave smith"}
	model := map[c30PermKey]c30PermFlags{}
	permNames := []string{defs.TableReadPermission, defs.TableWritePermission, defs.TableUpdatePermission, defs.TableDeletePermission, defs.TableAdminPermission}

	view := func(dsn, table, user string, withAdmin bool) map[c30PermKey][]string {
		out := map[c30PermKey][]string{}

		for k, f := range model {
			if (dsn == "" || k.dsn == dsn) && (table == "" || k.table == table) && (user == "" || k.user == user) {
				out[k] = f.list(withAdmin)
			}
		}

		return out
	}

	for i := 0; i < c.Steps && !t.violated; i++ {
		dsn := dsnNames[rng.Intn(3)]
		table := tablesN[rng.Intn(len(tablesN))]
		user := users[rng.Intn(len(users))]

		switch op := rng.Intn(16); op {
		case 0, 1, 2, 3, 4:
			// grant / revoke a few distinct permissions
			body := []string{}
			f := model[c30PermKey{user, dsn, table}]

			for _, p := range rng.Perm(len(permNames))[:1+rng.Intn(3)] {
				set := rng.Intn(3) > 0
				sign := []string{"", "+"}[rng.Intn(2)]

				if !set {
					sign = "-"
				}

				name := permNames[p]
				if rng.Intn(4) == 0 {
					name = strings.ToUpper(name)
				}

				body = append(body, sign+name)

				switch permNames[p] {
				case defs.TableReadPermission:
					f.read = set
				case defs.TableWritePermission:
					f.write = set
				case defs.TableUpdatePermission:
					f.update = set
				case defs.TableDeletePermission:
					f.del = set
				case defs.TableAdminPermission:
					f.admin = set
				}
			}

			b, _ := json.Marshal(body)
			t.step("GrantPermissions(user=%q dsn=%s table=%s %s)", user, dsn, table, b)
			w := httptest.NewRecorder()
			s := c30Session("root", true, dsn, table, map[string][]string{"user": {user}})
			status := tables.GrantPermissions(s, w, c30Req("PUT", "/dsns/"+dsn+"/tables/"+table+"/permissions", url.Values{"user": {user}}, b))
			r.Count("tableperms.op.grant", 1)

			if status != http.StatusOK {
				t.violate("users:tableperms:grant", fmt.Sprintf("GrantPermissions returned %d: %s", status, vh.Trunc(w.Body.String(), 200)), 200, status)

				break
			}

			model[c30PermKey{user, dsn, table}] = f

			var po defs.PermissionObject
			if err := json.Unmarshal(w.Body.Bytes(), &po); err != nil {
				t.violate("users:tableperms:grant", "unreadable response: "+err.Error(), "json", vh.Trunc(w.Body.String(), 200))

				break
			}

			got := append([]string{}, po.Permissions...)
			sort.Strings(got)

			if !reflect.DeepEqual(got, f.list(true)) {
				t.violate("users:tableperms:grant", "the permissions reported after the grant differ from the model", f.list(true), got)
			}

		case 5, 6:
			t.step("ReadTablePermissions(dsn=%s table=%s)", dsn, table)
			w := httptest.NewRecorder()
			status := tables.ReadTablePermissions(c30Session("root", true, dsn, table, nil), w, c30Req("GET", "/dsns/"+dsn+"/tables/"+table+"/permissions", nil, nil))
			r.Count("tableperms.op.read-table", 1)

			got, err := c30PermsView(w.Body.Bytes(), prefix)
			want := view(dsn, table, "", false)

			for k, v := range view(dsn, table, "", true) { // records without any permission are not listed
				if len(v) == 0 {
					delete(want, k)
				}
			}

			if status != http.StatusOK || err != nil || !reflect.DeepEqual(fmt.Sprint(got), fmt.Sprint(want)) {
				t.violate("users:tableperms:read-table", fmt.Sprintf("ReadTablePermissions status %d err %v", status, err), fmt.Sprint(want), fmt.Sprint(got))
			}

		case 7, 8, 9:
			// read all: by dsn or @all, with or without ?user=
			d, u := dsn, ""
			if rng.Intn(3) == 0 {
				d = "@all"
			}

			if rng.Intn(2) == 0 {
				u = user
			}

			if d == "@all" && u != "" && avoid["filter-list:nil-before-filter"] {
				u = ""
			}

			q := url.Values{}
			if u != "" {
				q.Set("user", u)
			}

			t.step("ReadAllPermissions(dsn=%s user=%q)", d, u)
			w := httptest.NewRecorder()
			status := tables.ReadAllPermissions(c30Session("root", true, d, "", nil), w, c30Req("GET", "/dsns/"+d+"/tables/@permissions", q, nil))
			r.Count("tableperms.op.read-all", 1)

			md := d
			if md == "@all" {
				md = ""
			}

			want := view(md, "", u, false)
			got, err := c30PermsView(w.Body.Bytes(), prefix)

			if status != http.StatusOK || err != nil || !reflect.DeepEqual(fmt.Sprint(got), fmt.Sprint(want)) {
				key := "users:tableperms:read-all"
				if d == "@all" && u != "" && status == http.StatusInternalServerError {
					key = "filter-list:nil-before-filter"
				}

				t.violate(key, fmt.Sprintf("ReadAllPermissions(dsn=%s user=%q) status %d err %v body %s", d, u, status, err, vh.Trunc(w.Body.String(), 160)), fmt.Sprint(want), fmt.Sprint(got))
			}

		case 10, 11:
			// delete by dsn (or @all) + table, optionally one user
			d, u := dsn, ""
			if rng.Intn(4) == 0 && !avoid["filter-list:nil-before-filter"] {
				d = "@all"
			}

			if rng.Intn(2) == 0 {
				u = user
			}

			q := url.Values{}
			if u != "" {
				q.Set("user", u)
			}

			t.step("DeletePermissions(dsn=%s table=%s user=%q)", d, table, u)
			w := httptest.NewRecorder()
			status := tables.DeletePermissions(c30Session("root", true, d, table, nil), w, c30Req("DELETE", "/dsns/"+d+"/tables/"+table+"/permissions", q, nil))
			r.Count("tableperms.op.delete", 1)

			if status != http.StatusOK {
				key := "users:tableperms:delete"
				if d == "@all" && status == http.StatusInternalServerError {
					key = "filter-list:nil-before-filter"
				}

				t.violate(key, fmt.Sprintf("DeletePermissions(dsn=%s table=%s user=%q) returned %d: %s", d, table, u, status, vh.Trunc(w.Body.String(), 160)), 200, status)

				break
			}

			for k := range model {
				if (d == "@all" || k.dsn == d) && k.table == table && (u == "" || k.user == u) {
					delete(model, k)
				}
			}

		case 12:
			if rng.Intn(2) == 0 {
				t.step("DeletePermissionsByDSN(%s)", dsn)
				n, err := tables.DeletePermissionsByDSN(0, dsn)
				want := len(view(dsn, "", "", true))
				r.Count("tableperms.op.delete-by-dsn", 1)

				if err != nil || n != want {
					t.violate("users:tableperms:delete-by-dsn", fmt.Sprintf("DeletePermissionsByDSN(%s) = %d, %v", dsn, n, err), want, n)
				}

				for k := range model {
					if k.dsn == dsn {
						delete(model, k)
					}
				}
			}

		default:
			// Authorized: a non-admin session asks for operations on dsn.table
			d := dsnNames[rng.Intn(len(dsnNames))]

			if len(model) > 0 && rng.Intn(2) == 0 { // ask about a stored grant half of the time
				ks := []c30PermKey{}
				for k := range model {
					ks = append(ks, k)
				}

				sort.Slice(ks, func(i, j int) bool { return fmt.Sprint(ks[i]) < fmt.Sprint(ks[j]) })
				k := ks[rng.Intn(len(ks))]
				user, d, table = k.user, k.dsn, k.table
			}

			ops := []string{}

			for _, p := range rng.Perm(len(permNames))[:1+rng.Intn(2)] {
				ops = append(ops, permNames[p])
			}

			t.step("Authorized(user=%q, %s.%s, %v)", user, d, table, ops)
			got := tables.Authorized(c30Session(user, false, d, table, nil), user, d+"."+table, ops...)
			r.Count("tableperms.op.authorized", 1)

			var want bool

			switch d {
			case prefix + "missing":
				want = false
			case prefix + "open":
				want = true
			default:
				f, ok := model[c30PermKey{user, d, table}]
				want = ok

				for _, o := range ops {
					switch o {
					case defs.TableReadPermission:
						want = want && (f.read || f.admin)
					case defs.TableWritePermission:
						want = want && (f.write || f.admin)
					case defs.TableUpdatePermission:
						want = want && (f.update || f.admin)
					case defs.TableDeletePermission:
						want = want && (f.del || f.admin)
					case defs.TableAdminPermission:
						want = want && f.admin
					}
				}

				if want {
					r.Count("tableperms.authorized.granted", 1)
				}
			}

			if got != want {
				t.violate("users:tableperms:authorized", fmt.Sprintf("Authorized(%q, %s.%s, %v) = %v; stored grant %+v", user, d, table, ops, got, model[c30PermKey{user, d, table}]), want, got)
			}
		}

		if t.violated {
			break
		}

		// state after the step: all records of this history's DSNs
		for _, d := range dsnNames[:3] {
			w := httptest.NewRecorder()
			status := tables.ReadAllPermissions(c30Session("root", true, d, "", nil), w, c30Req("GET", "/dsns/"+d+"/tables/@permissions", nil, nil))
			got, err := c30PermsView(w.Body.Bytes(), prefix)
			want := view(d, "", "", false)
			r.Count("tableperms.state-compared", 1)

			if status != http.StatusOK || err != nil || !reflect.DeepEqual(fmt.Sprint(got), fmt.Sprint(want)) {
				t.violate("users:tableperms:state", fmt.Sprintf("records of dsn %s after the step differ from the model (status %d, err %v)", d, status, err), fmt.Sprint(want), fmt.Sprint(got))

				break
			}
		}
	}

	// leave nothing behind for the next history's "@all" reads
	for _, d := range dsnNames[:3] {
		_, _ = tables.DeletePermissionsByDSN(0, d)
		_ = c30PermsDSNs.DeleteDSN(0, "admin", d)
	}

	return t
}

// directed probes of the known constructs through the real users
func c30UserProbes(r *vh.Report) {
	if !c30PermsSetup(r) {
		return
	}

	r.Probe("filter-list:nil-before-filter")

	dsn := fmt.Sprintf("probe%d", os.Getpid())
	_ = c30PermsDSNs.WriteDSN(0, "admin", defs.DSN{Name: dsn, Provider: "sqlite", Database: "/tmp/none.db", Restricted: true})

	w := httptest.NewRecorder()
	st := tables.GrantPermissions(c30Session("root", true, dsn, "t1", map[string][]string{"user": {"alice"}}), w,
		c30Req("PUT", "/dsns/"+dsn+"/tables/t1/permissions", url.Values{"user": {"alice"}}, []byte(`["`+defs.TableReadPermission+`"]`)))

	if st != http.StatusOK {
		r.Inconcl(fmt.Sprintf("tableperms probe: grant returned %d", st))

		return
	}

	w = httptest.NewRecorder()
	st = tables.ReadAllPermissions(c30Session("root", true, "@all", "", nil), w, c30Req("GET", "/dsns/@all/tables/@permissions", url.Values{"user": {"alice"}}, nil))
	got, _ := c30PermsView(w.Body.Bytes(), dsn)
	r.Eval("probe:users:read-all:@all+user", true)

	if st != http.StatusOK || len(got) != 1 {
		r.Violate(vh.Violation{Key: "filter-list:nil-before-filter", Desc: fmt.Sprintf("tables.ReadAllPermissions for dsn @all with ?user=alice (one grant stored) returned status %d: %s", st, vh.Trunc(w.Body.String(), 200)),
			Case: c30UCase{Kind: "users-probe"}, Expected: "200 with alice's grant", Observed: st})
	}

	w = httptest.NewRecorder()
	st = tables.DeletePermissions(c30Session("root", true, "@all", "t1", nil), w, c30Req("DELETE", "/dsns/@all/tables/t1/permissions", nil, nil))
	r.Eval("probe:users:delete:@all", true)

	if st != http.StatusOK {
		r.Violate(vh.Violation{Key: "filter-list:nil-before-filter", Desc: fmt.Sprintf("tables.DeletePermissions for dsn @all, table t1 returned status %d: %s", st, vh.Trunc(w.Body.String(), 200)),
			Case: c30UCase{Kind: "users-probe"}, Expected: 200, Observed: st})
	}

	_, _ = tables.DeletePermissionsByDSN(0, dsn)
	_ = c30PermsDSNs.DeleteDSN(0, "admin", dsn)
}

func TestC30Users(t *testing.T) {
	r := vh.New("C30", "users")
	r.Rule = "a case is one PRNG history of 30 public-function calls against one real user of the resource store (token blacklist, DSN service, table permissions), " +
		"each answer compared with a map model and the full listing compared after every step; distinct = distinct call trace; non-trivial = every history (all contain writes, lookups and deletions)"
	r.Assume("the caches in front of the stores (BlacklistCache, DSNCache) are emptied when a history starts on a new database, as a new server process would start")
	r.Assume("the audit fields of a blacklist entry (User, Last, Created) are not part of the record-set property and are not compared")

	run := func(c c30UCase) *c30Tracer {
		switch c.Kind {
		case "blacklist":
			return c30BlacklistHistory(r, c)
		case "dsns":
			return c30DSNHistory(r, c)
		default:
			return c30PermsHistory(r, c)
		}
	}

	if raw := vh.ReplayCase(); raw != nil {
		var c c30UCase
		if err := json.Unmarshal(raw, &c); err != nil {
			t.Fatal(err)
		}

		if c.Kind != "users-probe" && c.Kind != "blacklist" && c.Kind != "dsns" && c.Kind != "tableperms" {
			// a case of the other part of this check
			r.Distinct += 2
			_ = r.Write()

			return
		}

		if c.Kind == "users-probe" {
			c30UserProbes(r)
		} else {
			c.Trace = nil
			tr := run(c)
			r.Eval(vh.Hash(tr.trace), true)
			t.Log(strings.Join(tr.trace, "\n"))
		}

		r.Distinct += 2
		_ = r.Write()

		return
	}

	avoid := avoidList("C30")
	c30UserProbes(r)

	seeds := vh.Rand("c30-users")
	n := vh.N(40, 1500)

	for i := 0; i < n; i++ {
		for _, kind := range []string{"blacklist", "dsns", "tableperms"} {
			c := c30UCase{Kind: kind, HSeed: seeds.Int63()&0x7fffffffffff + 1, Steps: 30, File: i%5 == 0, Avoid: avoid}
			tr := run(c)
			r.Eval(vh.Hash(tr.trace), true)
			r.Count("histories."+kind, 1)

			if i == 1 && !tr.violated {
				s := tr.trace
				if len(s) > 6 {
					s = s[:6]
				}

				r.Sample(map[string]any{"user": kind, "hseed": c.HSeed, "first_steps": s})
			}
		}
	}

	if r.Counters["blacklist.list-compared"] == 0 || r.Counters["dsns.list-compared"] == 0 || r.Counters["tableperms.state-compared"] == 0 {
		t.Fatal("observed nothing")
	}

	if err := r.Write(); err != nil {
		t.Fatal(err)
	}
}
