package fmt5

import "testing"

// TestMaskPos pins the shapes maskPos must and must not touch.
func TestMaskPos(t *testing.T) {
	for _, c := range [][2]string{
		{"at main(line 55), division by zero", "at main(line N), division by zero"},
		{"Error: at x.ego(line 12:7), missing term", "Error: at x.ego(line N), missing term"},
		{"panic: hello\nCall frames:\n  at: main 'k/pan.ego'  16  (file k/pan.ego)\n", "panic: hello\nCall frames:\n  at: main 'k/pan.ego' N  (file k/pan.ego)\n"},
		{"from:        inner  7  \nnext 12", "from:        inner N\nnext 12"},
		{"t3 16\nvalue at: 12", "t3 16\nvalue at: 12"},
		{"t21 caught at defer main:181(line 185), division by zero", "t21 caught at defer main:N(line N), division by zero"},
		{"t9 caught at defer <anon>:183(line 118), invalid array: 3", "t9 caught at defer <anon>:N(line N), invalid array: 3"},
		{"error in defer h3:7", "error in defer h3:N"},
		{"ratio x:12 y:3", "ratio x:12 y:3"},
	} {
		if got := maskPos(c[0]); got != c[1] {
			t.Errorf("maskPos(%q) = %q, want %q", c[0], got, c[1])
		}
	}
}

// TestEqualFor pins the comparison of concurrent programs.
func TestEqualFor(t *testing.T) {
	conc := "func main() {\n\tgo f(c)\n\tfmt.Println(1)\n}\n"
	seq := "func main() {\n\tfmt.Println(1)\n}\n"
	a := Behaviour{Out: "x\ny\nz\n", Outcome: "ok"}
	b := Behaviour{Out: "y\nx\nz\n", Outcome: "ok"}
	c := Behaviour{Out: "y\nx\nw\n", Outcome: "ok"}

	if !a.EqualFor(conc, b) || a.EqualFor(seq, b) || a.EqualFor(conc, c) {
		t.Errorf("EqualFor: conc/reordered=%v seq/reordered=%v conc/different=%v", a.EqualFor(conc, b), a.EqualFor(seq, b), a.EqualFor(conc, c))
	}
}
