package fmt5

// String-literal clause and probes. The formatter re-quotes every string literal
// (the tokenizer hands it the VALUE; format/print_expr.go quoteString writes it back
// as an interpreted literal), so a literal whose value holds invisible or control
// characters is where a re-quoting defect changes a constant.

import (
	"fmt"
	"strings"

	"github.com/tucats/ego/internal/language/tokenizer"
)

// stringValues returns the values of the string-literal tokens of src, in order, as
// the Ego tokenizer reports them (the same values the compiler and the formatter see).
func stringValues(src string) []string {
	t := tokenizer.New(src, true)

	var out []string

	for _, tk := range t.Tokens {
		if tk.IsString() {
			out = append(out, tk.Spelling())
		}
	}

	return out
}

// compareStringValues names the first string literal whose value differs.
func compareStringValues(S, F string) string {
	a, b := stringValues(S), stringValues(F)

	for i := 0; i < len(a) || i < len(b); i++ {
		x, y := "<none>", "<none>"
		if i < len(a) {
			x = fmt.Sprintf("%+q", a[i])
		}

		if i < len(b) {
			y = fmt.Sprintf("%+q", b[i])
		}

		if x != y {
			return fmt.Sprintf("string literal #%d of %d: source value %s, formatted value %s", i+1, len(a), x, y)
		}
	}

	return ""
}

type stringProbe struct{ Name, Lit string }

// stringProbes: every special character as (1) the character itself inside an
// interpreted literal, (2) an escape sequence, (3) the character itself inside a raw
// literal. One program per literal, so a literal the compiler rejects (counted out of
// scope) does not take the others with it.
func stringProbes() []stringProbe {
	type ch struct {
		name, raw string
		esc       []string
	}

	// raw: the character itself (spelled here with Go escapes; the Ego source gets
	// the real character). esc: Ego-source escape sequences for the same value.
	chars := []ch{
		{"nbsp-u00a0", "\u00a0", []string{`\u00a0`, `\xc2\xa0`, `\302\240`}},
		{"soft-hyphen-u00ad", "\u00ad", []string{`\u00ad`}},
		{"zero-width-space-u200b", "\u200b", []string{`\u200b`, `\xe2\x80\x8b`}},
		{"zwj-emoji-sequence", "\U0001F469\u200d\U0001F4BB", []string{`\U0001F469\u200d\U0001F4BB`}},
		{"bom-ufeff", "\ufeff", []string{`\ufeff`}},
		{"line-separator-u2028", "\u2028", []string{`\u2028`}},
		{"next-line-u0085", "\u0085", []string{`\u0085`, `\xc2\x85`}},
		{"combining-acute", "e\u0301", []string{`e\u0301`}},
		{"carriage-return", "\r", []string{`\r`, `\x0d`, `\015`}},
		{"nul", "\x00", []string{`\x00`, `\000`, `\u0000`}},
		{"del-x7f", "\x7f", []string{`\x7f`, `\177`}},
		{"bell", "\a", []string{`\a`, `\x07`}},
		{"vertical-tab", "\v", []string{`\v`, `\x0b`}},
		{"form-feed-backspace", "\f\b", []string{`\f\b`}},
		{"quote-backslash-mix", "", []string{`\"\\\'x\\n`}},
	}

	var out []stringProbe

	for _, c := range chars {
		if c.raw != "" {
			out = append(out, stringProbe{c.name + ":char-in-interpreted", `"a` + c.raw + `b"`})
			out = append(out, stringProbe{c.name + ":char-in-raw", "`a" + c.raw + "b`"})
		}

		for i, e := range c.esc {
			out = append(out, stringProbe{fmt.Sprintf("%s:escape-%d", c.name, i+1), `"a` + e + `b"`})
		}
	}

	return out
}

func stringProbeProgram(lit string) string {
	var b strings.Builder

	b.WriteString("package main\n\nimport \"fmt\"\n\nfunc main() {\n")
	b.WriteString("\ts := " + lit + "\n")
	b.WriteString("\tfmt.Printf(\"%d %q\\n\", len(s), s)\n")
	b.WriteString("\tm := map[string]int{" + lit + ": 1}\n")
	b.WriteString("\tfmt.Println(len(m), s == " + lit + ")\n}\n")

	return b.String()
}
