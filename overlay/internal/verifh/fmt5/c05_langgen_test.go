package fmt5

// Programs of the shared generator internal/verifh/gen (group langgen) are fed
// through the same oracle and the same comment decorator.

import (
	"math/rand"
	"sync"

	"github.com/tucats/ego/internal/verifh/gen"
	"github.com/tucats/ego/internal/verifh/vh"
)

var (
	langgenAvoidOnce sync.Once
	langgenAvoidSet  map[string]bool
)

func langgenAvoid() map[string]bool {
	langgenAvoidOnce.Do(func() { langgenAvoidSet = gen.KnownAvoid(vh.KnownKeys("C01")) })

	return langgenAvoidSet
}

func init() {
	extraSources = append(extraSources, func(rng *rand.Rand) (string, []string, bool) {
		// comments in every position the generator can name on half of the programs; the
		// others get all their comments from this package's decorator
		// constructs named by C01's known findings (e.g. break/continue inside a default:
		// clause, which loops forever) are kept out, as the generator's author advises
		p := gen.New(rng, gen.Options{EgoOnly: true, Comments: rng.Intn(2) == 0, MaxStmts: 10 + rng.Intn(30), Avoid: langgenAvoid()})
		if p.Ego == "" {
			return "", nil, false
		}

		return p.Ego, p.Features, true
	})
}
