package fmt5

// Programs of the shared generator internal/verifh/gen (group langgen) are fed
// through the same oracle and the same comment decorator.

import (
	"math/rand"

	"github.com/tucats/ego/internal/verifh/gen"
)

func init() {
	extraSources = append(extraSources, func(rng *rand.Rand) (string, []string, bool) {
		// comments in every position the generator can name on half of the programs; the
		// others get all their comments from this package's decorator
		p := gen.New(rng, gen.Options{EgoOnly: true, Comments: rng.Intn(2) == 0, MaxStmts: 10 + rng.Intn(30)})
		if p.Ego == "" {
			return "", nil, false
		}

		return p.Ego, p.Features, true
	})
}
