package fmt5

// C05 part "corpus": every .ego file of the repository, as a full file, per @test
// body as a fragment, and decorated with comments.

import (
	"encoding/json"
	"fmt"
	"os"
	"path/filepath"
	"sort"
	"strings"
	"testing"

	"github.com/tucats/ego/internal/verifh/vh"
)

var corpusRoots = []string{"tests", "lib/packages", "lib/services", "examples"}

// hostDependent test directories are compiled but not run (network, database
// servers, child processes): behaviour is not observed for them.
var hostDependent = map[string]bool{"ai": true, "server": true, "sql": true, "exec": true, "tables": true}

func corpusFiles(root string) []string {
	var files []string

	for _, d := range corpusRoots {
		_ = filepath.Walk(filepath.Join(root, d), func(p string, info os.FileInfo, err error) error {
			if err == nil && !info.IsDir() && strings.HasSuffix(p, ".ego") {
				files = append(files, p)
			}

			return nil
		})
	}

	sort.Strings(files)

	return files
}

// testBody is the text of one @test of a test file.
type testBody struct {
	Name       string
	Start, End int // byte range of the body (after the description, up to the next top-level @test)
}

// splitTests finds the top-level @test directives the way collectTestBodyTokens
// does: "@" "test" at brace depth 0. ok=false when the braces do not balance
// (e.g. an "@compile ... eof=" block): then the file is not split.
func splitTests(src string) (bodies []testBody, ok bool) {
	toks, sok := scan(src)
	if !sok {
		return nil, false
	}

	// "@compile ... eof=<marker>" spans hold deliberately unbalanced braces; the
	// compiler skips them with a marker search this splitter does not reproduce.
	if strings.Contains(src, "eof=") || strings.Contains(src, "eof =") {
		return nil, false
	}

	depth := 0

	var code []tok

	for _, t := range toks {
		if t.kind != tkComment {
			code = append(code, t)
		}
	}

	for i := 0; i < len(code); i++ {
		switch code[i].text {
		case "{":
			depth++
		case "}":
			depth--
		}

		if depth < 0 {
			return nil, false
		}

		if depth == 0 && code[i].text == "@" && i+2 < len(code) && code[i+1].text == "test" && code[i+1].start == code[i].end && code[i+2].kind == tkLit {
			if n := len(bodies); n > 0 {
				bodies[n-1].End = code[i].start
			}

			bodies = append(bodies, testBody{Name: code[i+2].text, Start: code[i+2].end, End: len(src)})
			i += 2
		}
	}

	if depth != 0 {
		return nil, false
	}

	return bodies, true
}

type corpusCase struct {
	Kind   string `json:"kind"`
	Origin string `json:"origin"`
	File   string `json:"file"`
	Source string `json:"source"`
	Mode   string `json:"mode"`
	Runner string `json:"runner"`
}

func TestC05Corpus(t *testing.T) {
	r := vh.New("C05", "corpus")
	r.Rule = "every .ego file under tests/, lib/packages/, lib/services/, examples/ of the source tree: (1) the whole file through `ego fmt` auto mode, " +
		"(2) for test files each @test body through --fragment mode and the file with every body replaced by its formatted form, (3) the file decorated with comments at PRNG-chosen token boundaries; " +
		"distinct = distinct source text; non-trivial = accepted by the compiler (test mode for tests/, run mode for programs)"
	r.Assume("a test file is run the way `ego test <file>` does for a single file (fresh symbol table per run, optimizer 0, extensions on, deep scope); cross-file state of a whole-directory run is not reproduced")
	r.Assume("test directories ai, server, sql, exec, tables depend on the network / host and are compiled, formatted and re-compiled but not executed")

	root := os.Getenv("VERIF_EGO_SRC")
	if root == "" {
		t.Fatal("VERIF_EGO_SRC not set")
	}

	// the test-mode runner must see the runtime library as `ego test` does
	// (egorun.Init reads this once)
	if os.Getenv("VERIF_EGO_LIB") == "" {
		os.Setenv("VERIF_EGO_LIB", filepath.Join(root, "lib"))
	}

	arena := arenaDir(t)

	// `ego test` is run from the root of the source tree: several tests import
	// packages by a path relative to it ("tests/packages/employee")
	if err := os.Chdir(root); err != nil {
		t.Fatal(err)
	}

	if c := vh.ReplayCase(); c != nil {
		var cc corpusCase
		if err := json.Unmarshal(c, &cc); err != nil || cc.Source == "" || !strings.HasPrefix(cc.Origin, "corpus") {
			t.Skip("replay case belongs to another part")
		}

		env := Env{Arena: arena}
		mode, runner := modeOf(cc.Mode), runnerOf(cc.Runner)
		o := observe(cc.Source, mode, runner, env)
		r.Eval(vh.Hash(cc.Source), o.Accepted)
		r.Eval(vh.Hash(cc.Source, "replay"), true)
		reportFindings(r, o, cc.Source, mode, runner, env, "", nil, nil, nil, func(Finding) string { return "file:" + cc.File }, cc.Origin, nil)
		r.Distinct = 2
		_ = r.Write()

		return
	}

	// The interpreter's settings are process-global, so files cannot be run
	// concurrently in one process; the corpus is sharded over worker processes of
	// this same test binary instead and the parent merges their reports.
	shard, shards, sharded := shardOf(t, "FMT5_SHARD")
	if !sharded && os.Getenv("FMT5_ONLY") == "" {
		// more shards than workers: a pool pulls them, so one heavy shard (a blocking
		// example, a slow test directory) does not leave the other workers idle
		w := shardWorkers()
		runShards(t, r, arena, root, "TestC05Corpus", "FMT5_SHARD", 4*w, w)

		if r.Counters["files.accepted"] == 0 {
			t.Fatal("observed nothing")
		}

		if err := r.Write(); err != nil {
			t.Fatal(err)
		}

		return
	}

	known := vh.KnownKeys("C05")
	avoid := newAvoid(known)
	files := corpusFiles(root)
	variants := vh.N(1, 8)

	only := os.Getenv("FMT5_ONLY") // development aid: substring filter on the path

	for fileIndex, path := range files {
		if only != "" && !strings.Contains(path, only) {
			continue
		}

		if fileIndex%shards != shard {
			continue
		}

		b, err := os.ReadFile(path)
		if err != nil {
			continue
		}

		src := string(b)
		rel, _ := filepath.Rel(root, path)
		rel = filepath.ToSlash(rel)
		parts := strings.Split(rel, "/")

		runner := CompileOnly
		isTest := parts[0] == "tests"

		switch {
		case isTest && !hostDependent[parts[1]]:
			runner = RunTest
		case parts[0] == "examples" && len(parts) == 2 && strings.Contains(src, "func main"):
			runner = RunProgramChild
		}

		r.Count("files.total", 1)

		env := Env{Arena: arena, Name: filepath.Base(rel), Concurrent: startsGoroutines(src)}

		// baseline twice for test files
		if runner == RunTest {
			r1 := runTestFile(src, filepath.Base(rel), arena, false)
			if r1.CompileErr != "" || r1.Panic != "" {
				r.Eval(vh.Hash(src), false)
				r.Count("out_of_scope.compiler_rejects_file", 1)

				continue
			}

			r2 := runTestFile(src, filepath.Base(rel), arena, false)

			if r1.Budget || r2.Budget || len(r1.Names) != len(r2.Names) || r1.RunErr != r2.RunErr || r1.Passed != r2.Passed || r1.Failed != r2.Failed {
				runner = CompileOnly
				r.Count("files.self_unstable_not_run", 1)
			} else {
				env.Flaky = map[string]bool{}

				for i := range r1.Names {
					if r1.Names[i] != r2.Names[i] || r1.Verdicts[i] != r2.Verdicts[i] {
						env.Flaky[r1.Names[i]] = true
						env.Flaky[r2.Names[i]] = true
					}
				}

				env.OutputUnstable = r1.Output != r2.Output
				r.Count("tests.self_flaky_dropped", int64(len(env.Flaky)))

				if env.OutputUnstable {
					r.Count("files.output_self_unstable", 1)
				}

				env.TestBase = &r1
				r.Count("tests.baseline_passed", int64(r1.Passed))
				r.Count("tests.baseline_failed", int64(r1.Failed))
				r.Count("tests.baseline_test_lines", int64(len(r1.Names)))
			}
		}

		classOfFile := func(Finding) string { return "file:" + rel }

		// (1) whole file
		o := observe(src, Auto, runner, env)
		r.Eval(vh.Hash(src), o.Accepted)

		if !o.Accepted {
			r.Count("out_of_scope.compiler_rejects_file", 1)

			continue
		}

		r.Count("files.accepted", 1)
		r.Count("files.runner."+runnerName(runner), 1)
		r.Count("comments.in_sources", int64(len(tokComments(src))))

		if o.F != "" {
			r.Count("events.format_ok", 1)
			r.Count("events.comments_in_outputs", int64(len(tokComments(o.F))))
		}

		if o.FBeh != "" {
			r.Count("events.behaviour_pairs", 1)
		}

		if o.Budget {
			r.Count("inconclusive.step_budget", 1)
		}

		if o.Flaky {
			r.Count("inconclusive.self_unstable_program", 1)
		}

		if o.LineSens {
			r.Count("out_of_scope.behaviour_depends_on_own_line_numbers", 1)
			r.Note("corpus:" + rel + " behaves differently when only blank lines are added (it depends on its own line numbers); behaviour clause not applied, other clauses checked")
		}

		if o.Harness != "" {
			r.Count("harness.child_failures", 1)
			r.Inconcl("harness: child process for corpus:" + rel + " could not be run: " + o.Harness)

			runner = CompileOnly
		}

		if o.Timeout {
			r.Inconcl("corpus:" + rel + ": the program did not finish within the child-process watchdog (blocks on the host); behaviour of source vs formatted not observed")

			// do not spend the watchdog again on every decorated variant
			runner = CompileOnly
		}

		for _, f := range o.Findings {
			key := f.base()
			if f.Sig == "" {
				key += ":" + classOfFile(f)
			}

			r.Violate(vh.Violation{Key: key, Desc: fmt.Sprintf("[corpus:%s] %s: %s", rel, f.Kind, f.Detail),
				Case:     corpusCase{Kind: "source", Origin: "corpus:file", File: rel, Source: src, Mode: "auto", Runner: runnerName(runner)},
				Expected: "format succeeds; output compiles, behaves like the source, keeps every comment, and is a fixed point of the formatter",
				Observed: map[string]any{"finding": f.Kind, "signature": f.Sig, "detail": f.Detail, "behaviour_source": o.SBeh, "behaviour_formatted": o.FBeh}})
		}

		if r.Evaluations%53 == 1 {
			r.Sample(map[string]any{"file": rel, "runner": runnerName(runner), "comments": len(tokComments(src)), "behaviour": o.SBeh, "formatted_head": vh.Trunc(o.F, 300)})
		}

		// (2) fragments
		if isTest {
			if bodies, ok := splitTests(src); ok && len(bodies) > 0 {
				var rebuilt strings.Builder

				last, allOK := 0, true

				for bi, tb := range bodies {
					body := src[tb.Start:tb.End]
					fo := Observed{Accepted: true}
					formatClauses(body, Fragment, &fo)
					r.Eval(vh.Hash(rel, bi, body), true)
					r.Count("fragments.formatted", 1)

					for _, f := range fo.Findings {
						key := f.base()
						if f.Sig == "" {
							key += fmt.Sprintf(":fragment:%s#%d", rel, bi)
						}

						r.Violate(vh.Violation{Key: key, Desc: fmt.Sprintf("[corpus:%s @test %s as --fragment] %s: %s", rel, tb.Name, f.Kind, f.Detail),
							Case:     corpusCase{Kind: "source", Origin: "corpus:fragment", File: rel, Source: body, Mode: "fragment", Runner: "none"},
							Observed: map[string]any{"finding": f.Kind, "signature": f.Sig, "detail": f.Detail}})
					}

					if fo.F == "" {
						allOK = false

						continue
					}

					rebuilt.WriteString(src[last:tb.Start])
					rebuilt.WriteString("\n" + fo.F + "\n")

					last = tb.End
				}

				rebuilt.WriteString(src[last:])

				// quick tier: the file rebuilt from its formatted fragments is re-run for a
				// PRNG-chosen half of the files (every fragment's formatter clauses are
				// always checked)
				rerun := vh.Tier() != "quick" || vh.Rand("c05-corpus-frag/"+rel).Intn(2) == 0
				if !rerun {
					r.Count("fragments.files_rerun_not_chosen_in_quick_tier", 1)
				}

				if allOK && runner == RunTest && rerun {
					fr := runTestFile(rebuilt.String(), filepath.Base(rel), arena, false)
					r.Count("fragments.files_rerun", 1)

					d := ""

					switch {
					case fr.CompileErr != "":
						d = "the compiler rejects the file rebuilt from formatted fragments: " + fr.CompileErr
					case fr.Budget:
						r.Count("inconclusive.step_budget", 1)
					default:
						d = compareTestRuns(*env.TestBase, fr, env)
						if d != "" {
							s3 := runTestFile(src, filepath.Base(rel), arena, false)
							if compareTestRuns(*env.TestBase, s3, env) != "" {
								d = ""

								r.Count("inconclusive.self_unstable_program", 1)
							}
						}

						if d != "" && (o.LineSens || testLineSensitive(src, *env.TestBase, env)) {
							d = ""

							r.Count("out_of_scope.fragments_line_number_sensitive", 1)
						}
					}

					if d != "" {
						r.Violate(vh.Violation{Key: "behaviour:fragments:" + rel, Desc: fmt.Sprintf("[corpus:%s with every @test body formatted as a fragment] %s", rel, d),
							Case:     corpusCase{Kind: "source", Origin: "corpus:fragments-rebuilt", File: rel, Source: src, Mode: "fragment", Runner: "test"},
							Observed: map[string]any{"rebuilt": vh.Trunc(rebuilt.String(), 3000)}})
					}
				}
			} else {
				r.Count("fragments.files_not_split", 1)
			}
		}

		// (3) decorated variants
		if o.F == "" {
			continue
		}

		// a file that is not a fixed point by itself would blur the classification
		baseIdem := !hasKind(o.Findings, "not-idempotent")

		cand := avoid.filterSlots(slots(src))

		offs := map[int]bool{}
		for _, s := range cand {
			offs[s.Off] = true
		}

		// A test file that is only compiled (host-dependent directory, or not stable
		// between two runs) cannot be decorated soundly: a comment that stops ONE @test
		// body from compiling does not fail the file's compilation (ego test turns it
		// into that test's FAIL at run time), so "the compiler accepts the decorated
		// file" could not be observed. E.g. `rest.New(). /* c */` + newline + `Base(..)`
		// is rejected by the compiler (invalid identifier) yet the file compiles.
		if isTest && runner != RunTest {
			r.Count("decorated.skipped_compile_only_test_file", 1)

			continue
		}

		// one PRNG stream per file: what a file is decorated with does not depend on
		// how the corpus is sharded
		rng := vh.Rand("c05-corpus/" + rel)

		// quick tier: a PRNG-chosen quarter of the files gets decorated variants
		if vh.Tier() == "quick" && rng.Intn(4) != 0 {
			r.Count("decorated.files_not_chosen_in_quick_tier", 1)

			continue
		}

		r.Count("decorated.files_chosen", 1)

		for v := 0; v < variants; v++ {
			density := 0.02 + rng.Float64()*0.2
			n := int(density * float64(len(offs)))

			if n < 1 {
				n = 1
			}

			pick := pickSlots(rng, cand, n)
			S, inserted := decorate(src, cand, pick, "zc")
			denv := env
			denv.TestBase = nil

			// A decorated test file is a subject only where the compiler treats it like
			// the original: a comment that makes one @test body fail to compile (the file
			// still compiles; that test reports FAIL) puts the variant out of scope.
			if runner == RunTest && env.TestBase != nil {
				ds := runTestFile(S, env.unit(), arena, false)
				if ds.CompileErr != "" || ds.Panic != "" || ds.Budget || compareTestRuns(*env.TestBase, ds, env) != "" {
					r.Eval(vh.Hash(S), false)
					r.Count("out_of_scope.decorated_not_equivalent_to_file", 1)

					continue
				}

				denv.TestBase = &ds
			}

			do := observe(S, Auto, runner, denv)
			r.Eval(vh.Hash(S), do.Accepted)

			if !do.Accepted {
				r.Count("out_of_scope.compiler_rejects_decorated", 1)

				continue
			}

			r.Count("decorated.accepted", 1)
			countComments(r, S, inserted)

			if do.F != "" {
				r.Count("events.format_ok", 1)
				r.Count("events.comments_in_outputs", int64(len(tokComments(do.F))))
			}

			if do.FBeh != "" {
				r.Count("events.behaviour_pairs", 1)
			}

			if do.Budget {
				r.Count("inconclusive.step_budget", 1)
			}

			if do.Timeout {
				r.Count("inconclusive.child_watchdog", 1)
			}

			if do.LineSens {
				r.Count("out_of_scope.behaviour_depends_on_own_line_numbers", 1)
			}

			var fs []Finding

			for _, f := range do.Findings {
				if !baseIdem && (f.Kind == "not-idempotent" || f.Kind == "not-convergent") {
					continue // already reported for the undecorated file
				}

				fs = append(fs, f)
			}

			do.Findings = fs

			if len(fs) > 0 {
				reportFindings(r, do, S, Auto, runner, denv, src, cand, pick, inserted, classOfFile, "corpus:decorated:"+rel, nil)
			}
		}
	}

	if r.Counters["files.accepted"] == 0 && shards == 1 {
		t.Fatal("observed nothing")
	}

	if n := r.Counters["harness.child_failures"]; n > 0 {
		_ = r.Write()
		t.Fatalf("harness error: %d child process(es) could not be run (see inconclusive entries)", n)
	}

	if err := r.Write(); err != nil {
		t.Fatal(err)
	}
}

func hasKind(fs []Finding, kind string) bool {
	for _, f := range fs {
		if f.Kind == kind {
			return true
		}
	}

	return false
}
