package fmt5

// C05 part "cli": shows that the in-process harness represents the command line.
// A disagreement between the harness and the ego binary is a HARNESS error (the
// part fails itself, exit 2); it is never reported as a violation of C05.
//
//	fmt  : `ego fmt <file>` / `ego fmt --fragment <file>` vs cliFormat
//	run  : `ego run <file>` vs runProgram
//	test : `ego test <file>` vs runTestFile (ego's own passed/failed totals and the TEST lines)

import (
	"bytes"
	"context"
	"fmt"
	"os"
	"os/exec"
	"path/filepath"
	"regexp"
	"strconv"
	"strings"
	"sync"
	"testing"
	"time"

	"github.com/tucats/ego/internal/verifh/vh"
)

// egoBinary installs the driver's ego binary the way an installed ego looks: the
// binary with its library next to it. On its first start ego stores the directory
// it lives in as ego.runtime.path and takes <that directory>/lib as its library;
// a bare binary has no library at all (math.Pi, strings.Camel ... are "unknown
// package member"). The in-process runner uses $VERIF_EGO_SRC/lib, so the binary
// is given the same one.
func egoBinary(t *testing.T, arena, root string) (bin, home string) {
	src := filepath.Join(os.Getenv("VERIF_BIN"), "ego")

	raw, err := os.ReadFile(src)
	if err != nil {
		t.Fatalf("ego binary not found at %s (registry must list bins:[{name:ego}]): %v", src, err)
	}

	dir := filepath.Join(arena, "egobin")
	home = filepath.Join(arena, "egohome")

	_ = os.RemoveAll(dir)
	_ = os.RemoveAll(home)

	if err := os.MkdirAll(dir, 0o755); err != nil {
		t.Fatal(err)
	}

	if err := os.MkdirAll(home, 0o755); err != nil {
		t.Fatal(err)
	}

	bin = filepath.Join(dir, "ego")
	if err := os.WriteFile(bin, raw, 0o755); err != nil {
		t.Fatal(err)
	}

	if err := os.Symlink(filepath.Join(root, "lib"), filepath.Join(dir, "lib")); err != nil {
		t.Fatal(err)
	}

	return bin, home
}

// runEgo runs the binary with an isolated HOME; timedOut is a watchdog (inconclusive).
func runEgo(bin, home, dir string, args ...string) (stdout, stderr string, exit int, timedOut bool) {
	ctx, cancel := context.WithTimeout(context.Background(), 120*time.Second)
	defer cancel()

	cmd := exec.CommandContext(ctx, bin, args...)
	cmd.Dir = dir
	cmd.Env = append(os.Environ(), "HOME="+home, "EGO_PATH=")
	cmd.WaitDelay = 2 * time.Second

	var so, se bytes.Buffer

	cmd.Stdout, cmd.Stderr = &so, &se
	err := cmd.Run()

	if ctx.Err() == context.DeadlineExceeded {
		return so.String(), se.String(), -1, true
	}

	if ee, ok := err.(*exec.ExitError); ok {
		exit = ee.ExitCode()
	} else if err != nil {
		// the process could not be started or waited for (fork failure under load ...):
		// that is not a result of ego
		return so.String(), "could not run the binary: " + err.Error(), exitNotRun, false
	}

	return so.String(), se.String(), exit, false
}

// exitNotRun marks an invocation that produced no result of ego at all.
const exitNotRun = -2

var completedRe = regexp.MustCompile(`Completed a total of (\d+) tests(?:, (\d+) failed)?`)

func TestC05CLI(t *testing.T) {
	r := vh.New("C05", "cli")
	r.Rule = "a PRNG-chosen ~2 % of the corpus files plus generated decorated programs are formatted by the ego binary and by the harness (auto and --fragment), " +
		"generated programs are run by both, corpus test files are tested by both; distinct = distinct (command, source); non-trivial = the binary produced a result"
	r.Assume("tests/profile is not part of the `ego test` cross-check: those tests observe the process-wide profile, which the in-process harness configures itself")
	r.Assume("the ego binary is built from the same scratch tree as the harness and is installed next to that tree's lib/ (an installed ego keeps its library beside the binary); a bare binary without a library is not what the corpus part models")

	if vh.ReplayCase() != nil {
		t.Skip("replay belongs to another part")
	}

	root := os.Getenv("VERIF_EGO_SRC")
	arena := arenaDir(t)
	bin, egoHome := egoBinary(t, arena, root)

	if os.Getenv("VERIF_EGO_LIB") == "" {
		os.Setenv("VERIF_EGO_LIB", filepath.Join(root, "lib"))
	}

	rng := vh.Rand("c05-cli")
	mismatches := 0

	mismatch := func(what, detail string) {
		mismatches++
		r.Count("crosscheck.mismatch."+what, 1)
		r.Inconcl("harness does not represent the CLI (" + what + "): " + detail)
	}

	// Binary invocations are independent processes: they are queued, run by a small
	// pool, and compared with the harness afterwards (the harness side stays
	// sequential: interpreter settings are process-global).
	type job struct {
		dir   string
		args  []string
		out   string
		errT  string
		exit  int
		to    bool
		after func(j *job)
	}

	var jobs []*job

	seq := 0
	write := func(name, src string) string {
		seq++
		d := filepath.Join(arena, fmt.Sprintf("cli-%03d", seq))
		_ = os.MkdirAll(d, 0o755)
		p := filepath.Join(d, name)
		_ = os.WriteFile(p, []byte(src), 0o644)

		return p
	}

	enqueue := func(path string, after func(j *job), args ...string) {
		jobs = append(jobs, &job{dir: filepath.Dir(path), args: args, after: after})
	}

	runJobs := func() {
		// one sequential invocation first: a fresh HOME is initialised (profile,
		// library) by a single process, not by eight racing ones
		// (`ego run` / `ego test` also create the system database: two processes doing
		// that at once fail with "table dsns already exists"), so every verb used
		// below is started once, alone, before the pool.
		warm := write("warm.ego", "package main\n\nimport \"fmt\"\n\nfunc main() {\n\tfmt.Println(1)\n}\n")
		warmTest := write("warm_test.ego", "@test \"warm: up\"\n{\n\t@assert 1 == 1\n}\n")

		for _, args := range [][]string{{"fmt", warm}, {"run", warm}, {"test", warmTest}} {
			_, errText, exit, to := runEgo(bin, egoHome, filepath.Dir(args[1]), args...)

			// "could not be started" (fork / pipe failure under load) is not a result of ego
			for try := 0; try < 3 && exit == exitNotRun && !to; try++ {
				r.Count("cli.start_retries", 1)

				_, errText, exit, to = runEgo(bin, egoHome, filepath.Dir(args[1]), args...)
			}

			switch {
			case to:
				r.Count("inconclusive.cli_watchdog", 1)
			case exit == exitNotRun:
				r.Count("inconclusive.cli_could_not_start", 1)
				r.Inconcl("the ego binary could not be started for the warm-up `ego " + args[0] + "` (" + trunc(errText, 200) + ")")
			case exit != 0:
				t.Fatalf("harness error: warm-up `ego %s` failed (exit %d): %s", args[0], exit, trunc(errText, 400))
			}
		}

		sem := make(chan struct{}, 8)

		var wg sync.WaitGroup

		for _, j := range jobs {
			wg.Add(1)
			sem <- struct{}{}

			go func(j *job) {
				defer func() { <-sem; wg.Done() }()

				j.out, j.errT, j.exit, j.to = runEgo(bin, egoHome, j.dir, j.args...)
			}(j)
		}

		wg.Wait()

		for _, j := range jobs {
			// an invocation that could not be started is retried alone, then given up
			for try := 0; try < 2 && j.exit == exitNotRun && !j.to; try++ {
				r.Count("cli.start_retries", 1)

				j.out, j.errT, j.exit, j.to = runEgo(bin, egoHome, j.dir, j.args...)
			}

			if j.to {
				r.Count("inconclusive.cli_watchdog", 1)

				continue
			}

			if j.exit == exitNotRun {
				r.Count("inconclusive.cli_could_not_start", 1)
				r.Inconcl("the ego binary could not be started for one cross-check (" + trunc(j.errT, 200) + "); that comparison was not made")

				continue
			}

			j.after(j)
		}

		jobs = nil
	}

	// ---- fmt ---------------------------------------------------------------
	checkFmt := func(id, src string, mode Mode) {
		p := write("cli_fmt.ego", src)
		args := []string{"fmt"}

		if mode == Fragment {
			args = append(args, "--fragment")
		}

		enqueue(p, func(j *job) {
			want, herr := cliFormat(src, mode)
			r.Eval(vh.Hash("fmt", mode, src), true)
			r.Count("crosscheck.fmt."+mode.String(), 1)

			switch {
			case (herr != nil) != (j.exit != 0):
				mismatch("fmt-outcome", fmt.Sprintf("%s: harness error=%v, binary exit=%d stderr=%q", id, herr, j.exit, trunc(j.errT, 200)))
			case herr == nil && strings.TrimRight(j.out, "\n") != strings.TrimRight(want, "\n"):
				mismatch("fmt-text", fmt.Sprintf("%s: %s", id, firstDiff(want, j.out)))
			default:
				r.Count("crosscheck.fmt.agree", 1)
			}
		}, append(args, p)...)
	}

	files := corpusFiles(root)
	nFiles := vh.N(7, 40)

	for _, i := range rng.Perm(len(files))[:nFiles] {
		b, err := os.ReadFile(files[i])
		if err != nil {
			continue
		}

		rel, _ := filepath.Rel(root, files[i])
		src := string(b)
		checkFmt("corpus:"+rel, src, Auto)

		// the same file with a few comments
		if sl := slots(src); len(sl) > 0 {
			S, _ := decorate(src, sl, pickSlots(rng, sl, 5), "zc")
			checkFmt("corpus+comments:"+rel, S, Auto)
		}

		if bodies, ok := splitTests(src); ok && len(bodies) > 0 {
			tb := bodies[rng.Intn(len(bodies))]
			checkFmt("fragment:"+rel+":"+tb.Name, src[tb.Start:tb.End], Fragment)
		}
	}

	// ---- run ---------------------------------------------------------------
	var plain []Snippet

	for _, s := range snippetLib {
		// language extensions are on in the harness and off in a fresh profile
		if s.Name != "try-catch" && s.Name != "print-statement" {
			plain = append(plain, s)
		}
	}

	nProg := vh.N(6, 40)

	for i := 0; i < nProg; i++ {
		sn := []Snippet{plain[rng.Intn(len(plain))], plain[rng.Intn(len(plain))], exprSnippet(rng, 4)}
		p := compose(sn)
		src := p.Src

		if sl := slots(src); len(sl) > 0 {
			src, _ = decorate(src, sl, pickSlots(rng, sl, 8), "zc")
		}

		checkFmt("gen", src, Auto)

		hb, budget := runProgram(src)
		if budget || hb.Compile {
			continue
		}

		fp := write("cli_run.ego", src)
		names := p.Names

		enqueue(fp, func(j *job) {
			r.Eval(vh.Hash("run", src), true)
			r.Count("crosscheck.run", 1)

			cliOutcome := "ok"
			if j.exit != 0 {
				cliOutcome = "error"
			}

			if maskPos(j.out) != hb.Out || cliOutcome != hb.Outcome {
				mismatch("run", fmt.Sprintf("snippets %v: harness %s / binary exit=%d out=%q err=%q", names, hb.String(), j.exit, trunc(j.out, 200), trunc(j.errT, 200)))
			} else {
				r.Count("crosscheck.run.agree", 1)
			}
		}, "run", fp)
	}

	// ---- test --------------------------------------------------------------
	var testFiles []string

	for _, f := range files {
		rel, _ := filepath.Rel(root, f)
		parts := strings.Split(filepath.ToSlash(rel), "/")

		// tests/profile inspects the ego profile. The in-process runner shares ONE
		// process-wide profile, in which the harness itself sets optimizer level,
		// extensions and library path; a fresh binary has a fresh profile. For those
		// tests the runner does not represent the CLI and they are not sampled here
		// (the source-vs-formatted comparison of the corpus part runs both sides in
		// the same process and is not affected).
		if parts[0] == "tests" && len(parts) > 2 && !hostDependent[parts[1]] && parts[1] != "profile" {
			testFiles = append(testFiles, f)
		}
	}

	nTest := vh.N(8, 45)

	for _, i := range rng.Perm(len(testFiles))[:nTest] {
		b, _ := os.ReadFile(testFiles[i])
		rel, _ := filepath.Rel(root, testFiles[i])
		name := filepath.Base(rel)

		fp := write(name, string(b))
		src := string(b)

		enqueue(fp, func(j *job) {
			out, errText := j.out, j.errT
			h1 := runTestFile(src, name, arena, false)
			h2 := runTestFile(src, name, arena, false)

			if h1.Passed != h2.Passed || h1.Failed != h2.Failed || h1.Vector() != h2.Vector() {
				r.Count("crosscheck.test.self_unstable_skipped", 1)

				return
			}

			r.Eval(vh.Hash("test", rel), true)
			r.Count("crosscheck.test", 1)

			var cli TestRun

			cli.parse(out + "\n" + errText)

			// a file without any @test gets the summary "Completed tests in ..." (no count)
			total, failed := -1, 0
			if strings.Contains(out, "TEST: Completed tests") {
				total = 0
			}

			if m := completedRe.FindStringSubmatch(out); m != nil {
				total, _ = strconv.Atoi(m[1])
				if m[2] != "" {
					failed, _ = strconv.Atoi(m[2])
				}
			}

			switch {
			case total != h1.Passed+h1.Failed || failed != h1.Failed:
				mismatch("test-totals", fmt.Sprintf("%s: binary total=%d failed=%d, harness passed=%d failed=%d (compile=%q run=%q)", rel, total, failed, h1.Passed, h1.Failed, h1.CompileErr, h1.RunErr))
			case cli.Vector() != h1.Vector():
				mismatch("test-vector", fmt.Sprintf("%s: %s", rel, diffVector(cli.Vector(), h1.Vector())))
			default:
				r.Count("crosscheck.test.agree", 1)
				r.Count("crosscheck.test.tests_agreeing", int64(total))
			}
		}, "test", fp)
	}

	runJobs()

	if r.Evaluations == 0 {
		t.Fatal("observed nothing")
	}

	r.Sample(map[string]any{"fmt_checks": r.Counters["crosscheck.fmt.agree"], "run_checks": r.Counters["crosscheck.run.agree"], "test_checks": r.Counters["crosscheck.test.agree"]})

	if err := r.Write(); err != nil {
		t.Fatal(err)
	}

	if mismatches > 0 {
		t.Fatalf("harness error: %d disagreement(s) between the harness and the ego binary (see inconclusive entries); not a verdict", mismatches)
	}
}
