package fmt5

// The oracle of C05 and the classification of its findings.

import (
	"fmt"
	"regexp"
	"sort"
	"strings"
)

// Finding is one refuted clause of the property for one source.
type Finding struct {
	Kind   string // format-error, reformat-error, not-idempotent, not-convergent, comment-lost, comment-added, formatted-rejected, behaviour
	Sig    string // mechanism signature observed in the outputs ("" = none recognised)
	Detail string
	Lost   []string // for comment-lost: the normalised texts
}

// Runner says how behaviour is observed.
type Runner int

const (
	RunProgram      Runner = iota // complete program, `ego run`
	RunTest                       // test file, `ego test`
	RunProgramChild               // complete program run in a child process under a watchdog (corpus examples)
	CompileOnly                   // no execution (packages, services, host-dependent tests)
	NoRun                         // formatter clauses only
)

// Observed is everything the monitor saw for one source.
type Observed struct {
	Accepted bool   // the compiler accepted S (else the case is out of scope)
	Budget   bool   // a step budget ended a run: behaviour not comparable
	Flaky    bool   // the source or its formatted form does not behave the same on every run: not comparable
	Timeout  bool   // the child-process watchdog fired: behaviour not observed
	LineSens bool   // the behaviour of the source changes when only blank lines are added: it depends on its own line numbers
	Harness  string // the child process could not be run: a harness error, not a verdict
	F, F2    string
	FmtErr   string
	Findings []Finding
	SBeh     string // printable behaviour of S
	FBeh     string
}

// Env carries what the behaviour runners need.
type Env struct {
	Arena string
	Name  string // compilation-unit name used for EVERY run of the case (it appears in messages)
	// baseline of S already known (test files: avoids re-running S)
	TestBase       *TestRun
	Flaky          map[string]bool // tests whose verdict differs between two runs of the unformatted file
	OutputUnstable bool            // the printed output differs between those two runs: only verdicts are compared
	Concurrent     bool            // the source starts goroutines: printed lines are compared as a multiset
}

func (e Env) unit() string {
	if e.Name != "" {
		return e.Name
	}

	return "verif.ego"
}

// formatClauses evaluates the clauses that need no execution: formatting succeeds,
// comments kept, format(F) == F, and convergence of a second re-format.
func formatClauses(S string, mode Mode, o *Observed) {
	F, err := cliFormat(S, mode)
	if err != nil {
		o.FmtErr = err.Error()
		kind := "format-error"

		if strings.HasPrefix(o.FmtErr, "PANIC:") {
			kind = "format-panic"
		}

		o.Findings = append(o.Findings, Finding{Kind: kind, Sig: formatErrorSignature(o.FmtErr), Detail: trunc(maskPos(o.FmtErr), 300)})

		return
	}

	o.F = F

	missing, extra := multisetDiff(tokComments(S), tokComments(F))
	if len(missing) > 0 {
		o.Findings = append(o.Findings, Finding{Kind: "comment-lost", Detail: fmt.Sprintf("%d comment(s) of the source are not in the output: %q", len(missing), missing), Lost: missing})
	}

	if len(extra) > 0 {
		o.Findings = append(o.Findings, Finding{Kind: "comment-added", Detail: fmt.Sprintf("the output has %d comment(s) the source does not have: %q", len(extra), extra), Lost: extra})
	}

	// the constants of the program: every string literal must keep its value
	if d := compareStringValues(S, F); d != "" {
		o.Findings = append(o.Findings, Finding{Kind: "string-literal-changed", Detail: d})
	}

	// the re-format uses the same mode the CLI would be given for F
	F2, err := cliFormat(F, mode)
	if err != nil {
		o.Findings = append(o.Findings, Finding{Kind: "reformat-error", Sig: formatErrorSignature(err.Error()), Detail: trunc(maskPos(err.Error()), 300)})

		return
	}

	o.F2 = F2

	if F2 != F {
		sig, detail := idempotenceSignature(F, F2)
		o.Findings = append(o.Findings, Finding{Kind: "not-idempotent", Sig: sig, Detail: detail})

		if F3, err := cliFormat(F2, mode); err == nil && F3 != F2 {
			if F4, err := cliFormat(F3, mode); err == nil && F4 != F3 {
				sig3, d3 := idempotenceSignature(F3, F4)
				o.Findings = append(o.Findings, Finding{Kind: "not-convergent", Sig: sig3, Detail: "four successive formats all differ; last step: " + d3})
			}
		}
	}
}

var semiErrRe = regexp.MustCompile(`^(?:at (?:line )?\d+(?::\d+)?, )?([a-zA-Z'{}() ]+): ;$`)

// formatErrorSignature recognises one mechanism from the parser's own message: the
// offending token is ";". The tokenizer appends a synthetic ";" to a line that ends
// in an element, a "}" or a comment; the compiler skips those inside literal lists
// and type bodies (skipSyntheticSemicolons), the formatter's parser does not. The
// message class tells the sites apart: "missing term" (an element is expected),
// "missing '{'" -> open-brace (the closing brace of a list is expected, the BUG-41
// shape) and "invalid identifier" (a struct or interface body).
func formatErrorSignature(msg string) string {
	if m := semiErrRe.FindStringSubmatch(strings.TrimSpace(msg)); m != nil {
		slug := strings.NewReplacer("'{'", "open-brace", "'}'", "close-brace", "'('", "open-paren", "')'", "close-paren", "'", "", " ", "-").Replace(strings.TrimSpace(m[1]))

		return "unexpected-semicolon:" + slug
	}

	return ""
}

// codeTokens returns the non-comment token texts.
func codeTokens(src string) []string {
	toks, _ := scan(src)
	out := make([]string, 0, len(toks))

	for _, t := range toks {
		if t.kind != tkComment {
			out = append(out, t.text)
		}
	}

	return out
}

type placedComment struct {
	raw, norm string
	role      string // own | trailing
	before    string // category of the code token before it on its line ("" if own)
}

func placedComments(src string) []placedComment {
	toks, _ := scan(src)

	var out []placedComment

	for i, t := range toks {
		if t.kind != tkComment {
			continue
		}

		pc := placedComment{raw: t.text, norm: normComment(t.text), role: "own"}

		for j := i - 1; j >= 0; j-- {
			if toks[j].kind == tkComment {
				continue
			}

			endLine := toks[j].line + strings.Count(toks[j].text, "\n")
			if endLine == t.line {
				pc.role = "trailing"
				pc.before = category(toks[j])
			}

			break
		}

		out = append(out, pc)
	}

	return out
}

// idempotenceSignature looks at two successive formatter outputs that differ and
// names the mechanism when it is one the monitor can recognise from the outputs
// alone:
//
//	trailing-comment-relocated  the code is identical; every comment whose placement
//	    changed trailed code on its line in the first output and stands on a line of its
//	    own in the second (the token it followed is reported in the description only: it
//	    is whatever ends the construct, not part of the mechanism).
//	comment-interior-whitespace:<star|block> the code and the placement are identical; a
//	    multi-line comment's own text changed in interior white space only.
func idempotenceSignature(F, F2 string) (sig, detail string) {
	detail = firstDiff(F, F2)

	a, b := codeTokens(F), codeTokens(F2)
	if strings.Join(a, "\x00") != strings.Join(b, "\x00") {
		return "", "code differs between format(S) and format(format(S)): " + detail
	}

	ca, cb := placedComments(F), placedComments(F2)
	if len(ca) != len(cb) {
		return "", "comment count differs: " + detail
	}

	moved := map[string]bool{}
	textDrift := map[string]bool{}

	for i := range ca {
		if ca[i].norm != cb[i].norm {
			return "", "comment order/text differs: " + detail
		}

		if ca[i].role != cb[i].role {
			if ca[i].role == "trailing" && cb[i].role == "own" {
				moved["after-"+ca[i].before] = true
			} else {
				return "", "a comment on its own line became a trailing comment: " + detail
			}
		} else if ca[i].raw != cb[i].raw {
			k := "block"
			if isStar(ca[i].raw) {
				k = "star"
			}

			textDrift[k] = true
		}
	}

	if len(moved) > 0 {
		keys := make([]string, 0, len(moved))
		for k := range moved {
			keys = append(keys, k)
		}

		sort.Strings(keys)

		return "trailing-comment-relocated", "a comment trailing the last line of a construct printed over several lines (" + strings.Join(keys, ", ") + ") moves to a line of its own on re-format: " + detail
	}

	if len(textDrift) > 0 {
		k := "block"
		if textDrift["star"] {
			k = "star"
		}

		return "comment-interior-whitespace:" + k, "the interior lines of a multi-line comment are re-indented differently on each pass: " + detail
	}

	return "", "only white space / layout differs: " + detail
}

func isStar(raw string) bool {
	lines := strings.Split(raw, "\n")
	if len(lines) < 2 {
		return false
	}

	for _, l := range lines[1:] {
		if !strings.HasPrefix(strings.TrimLeft(l, " \t"), "*") {
			return false
		}
	}

	return true
}

func firstDiff(a, b string) string {
	la, lb := strings.Split(a, "\n"), strings.Split(b, "\n")
	for i := 0; i < len(la) || i < len(lb); i++ {
		x, y := "<eof>", "<eof>"
		if i < len(la) {
			x = la[i]
		}

		if i < len(lb) {
			y = lb[i]
		}

		if x != y {
			return fmt.Sprintf("first difference at output line %d: %q vs %q", i+1, trunc(x, 120), trunc(y, 120))
		}
	}

	return "no difference"
}

// observe evaluates every clause of the property for S.
func observe(S string, mode Mode, runner Runner, env Env) (o Observed) {
	switch runner {
	case RunProgram:
		sb, budget := runProgram(S)
		if sb.Compile {
			return o
		}

		o.Accepted, o.SBeh = true, sb.String()
		formatClauses(S, mode, &o)

		if o.F == "" {
			return o
		}

		if budget {
			o.Budget = true
			return o
		}

		fb, fbudget := runProgram(o.F)
		o.FBeh = fb.String()

		switch {
		case fb.Compile:
			o.Findings = append(o.Findings, Finding{Kind: "formatted-rejected", Detail: "the compiler rejects the formatted program: " + fb.Err})
		case fbudget:
			o.Budget = true
		case !sb.EqualFor(S, fb):
			// a difference counts only when both programs are self-stable: each is
			// run three more times and must behave exactly as it did the first time
			stable := true

			for i := 0; i < 3 && stable; i++ {
				s2, _ := runProgram(S)
				f2, _ := runProgram(o.F)
				stable = s2.Equal(sb) && f2.Equal(fb)
			}

			switch {
			case !stable:
				o.Flaky = true
			case lineSensitive(S, func(x string) (string, bool) { b, bud := runProgram(x); return b.String(), !bud && !b.Compile }, sb.String()):
				o.LineSens = true
			default:
				o.Findings = append(o.Findings, Finding{Kind: "behaviour", Detail: "original: " + sb.String() + " / formatted: " + fb.String()})
			}
		}

	case RunProgramChild:
		// acceptance by the compiler is decided in-process (no execution)
		if e, _ := compileProgram(S); e != "" {
			return o
		}

		o.Accepted = true
		formatClauses(S, mode, &o)

		if o.F == "" {
			return o
		}

		if e, _ := compileProgram(o.F); e != "" {
			o.Findings = append(o.Findings, Finding{Kind: "formatted-rejected", Detail: "the compiler rejects the formatted program: " + e})

			return o
		}

		child := func(src string) (Behaviour, bool, bool) {
			b, budget, st, why := runProgramChild(src, env.Arena)

			switch st {
			case childWatchdogFired:
				o.Timeout = true
			case childFailed:
				o.Harness = why
			}

			return b, budget, st == childOK
		}

		sb, budget, ok := child(S)
		if !ok {
			return o
		}

		o.SBeh = sb.String()

		if budget {
			o.Budget = true

			return o
		}

		fb, fbudget, ok := child(o.F)
		if !ok {
			return o
		}

		if fbudget {
			o.Budget = true

			return o
		}

		o.FBeh = fb.String()

		if !sb.EqualFor(S, fb) {
			// a difference counts only if it reproduces: three more runs of each
			okAll, stable := true, true

			for i := 0; i < 3 && okAll && stable; i++ {
				s2, _, ok2 := child(S)
				f2, _, ok3 := child(o.F)
				okAll = ok2 && ok3
				stable = okAll && s2.Equal(sb) && f2.Equal(fb)
			}

			switch {
			case !okAll:
			case !stable:
				o.Flaky = true
			case lineSensitive(S, func(x string) (string, bool) { b, bud, ok := child(x); return b.String(), ok && !bud }, sb.String()):
				o.LineSens = true
			default:
				o.Findings = append(o.Findings, Finding{Kind: "behaviour", Detail: "original: " + sb.String() + " / formatted: " + fb.String()})
			}
		}

	case RunTest:
		var base TestRun
		if env.TestBase != nil {
			base = *env.TestBase
		} else {
			base = runTestFile(S, env.unit(), env.Arena, false)
		}

		if base.CompileErr != "" || base.Panic != "" {
			return o
		}

		o.Accepted, o.SBeh = true, base.Summary()
		formatClauses(S, mode, &o)

		if o.F == "" {
			return o
		}

		if base.Budget {
			o.Budget = true
			return o
		}

		fr := runTestFile(o.F, env.unit(), env.Arena, false)
		o.FBeh = fr.Summary()

		switch {
		case fr.CompileErr != "":
			o.Findings = append(o.Findings, Finding{Kind: "formatted-rejected", Detail: "the compiler rejects the formatted test file: " + fr.CompileErr})
		case fr.Budget:
			o.Budget = true
		default:
			if d := compareTestRuns(base, fr, env); d != "" {
				// Runs in one process are not fully independent (package imports are
				// cached process-wide). The difference counts only if S still behaves
				// like its baseline when run AFTER F, and F behaves like F again.
				s3 := runTestFile(S, env.unit(), env.Arena, false)
				f2 := runTestFile(o.F, env.unit(), env.Arena, false)

				switch {
				case compareTestRuns(base, s3, env) != "" || compareTestRuns(fr, f2, env) != "":
					o.Flaky = true
				case testLineSensitive(S, base, env):
					o.LineSens = true
				default:
					o.Findings = append(o.Findings, Finding{Kind: "behaviour", Detail: d})
				}
			}
		}

	case CompileOnly:
		base := runTestFile(S, env.unit(), env.Arena, true)
		if base.CompileErr != "" || base.Panic != "" {
			return o
		}

		o.Accepted = true
		formatClauses(S, mode, &o)

		if o.F == "" {
			return o
		}

		if fr := runTestFile(o.F, env.unit(), env.Arena, true); fr.CompileErr != "" {
			o.Findings = append(o.Findings, Finding{Kind: "formatted-rejected", Detail: "the compiler rejects the formatted file: " + fr.CompileErr})
		}

	default:
		o.Accepted = true
		formatClauses(S, mode, &o)
	}

	return o
}

// lineSensitive runs the blank-line controls of src; true when one of them does not
// behave like src itself (want).
func lineSensitive(src string, run func(string) (string, bool), want string) bool {
	for _, c := range blankLineControls(src) {
		if got, ok := run(c); ok && got != want {
			return true
		}
	}

	return false
}

func testLineSensitive(src string, base TestRun, env Env) bool {
	for _, c := range blankLineControls(src) {
		cr := runTestFile(c, env.unit(), env.Arena, false)
		if cr.CompileErr == "" && cr.Panic == "" && !cr.Budget && compareTestRuns(base, cr, env) != "" {
			return true
		}
	}

	return false
}

// compareTestRuns compares what two `ego test` runs showed, ignoring tests that
// were not stable between two runs of the unformatted file.
func compareTestRuns(a, b TestRun, env Env) string {
	flaky := env.Flaky

	if a.RunErr != b.RunErr {
		return fmt.Sprintf("file-level outcome differs: %q vs %q", a.RunErr, b.RunErr)
	}

	if len(flaky) == 0 && (a.Passed != b.Passed || a.Failed != b.Failed) {
		return fmt.Sprintf("ego's own test counters differ: original passed=%d failed=%d / formatted passed=%d failed=%d", a.Passed, a.Failed, b.Passed, b.Failed)
	}

	va, vb := a.vectorWithout(flaky), b.vectorWithout(flaky)
	if va != vb {
		return fmt.Sprintf("PASS/FAIL vector differs: original %s / formatted %s", trunc(diffVector(va, vb), 400), "")
	}

	if len(flaky) == 0 && !env.OutputUnstable && a.Output != b.Output && !(env.Concurrent && sortedLines(a.Output) == sortedLines(b.Output)) {
		return "test output differs: " + firstDiff(a.Output, b.Output)
	}

	return ""
}

func diffVector(a, b string) string {
	xa, xb := strings.Split(a, ";"), strings.Split(b, ";")
	for i := 0; i < len(xa) || i < len(xb); i++ {
		x, y := "<none>", "<none>"
		if i < len(xa) {
			x = xa[i]
		}

		if i < len(xb) {
			y = xb[i]
		}

		if x != y {
			return fmt.Sprintf("entry %d: %q vs %q", i, x, y)
		}
	}

	return ""
}

func (r TestRun) vectorWithout(flaky map[string]bool) string {
	var b strings.Builder

	for i := range r.Names {
		if flaky[r.Names[i]] {
			continue
		}

		fmt.Fprintf(&b, "%s=%s;", r.Names[i], r.Verdicts[i])
	}

	return b.String()
}

func (r TestRun) Summary() string {
	pass := 0

	for _, v := range r.Verdicts {
		if v == "PASS" {
			pass++
		}
	}

	return fmt.Sprintf("test_lines=%d pass_lines=%d ego_passed=%d ego_failed=%d error_lines=%d runerr=%q", len(r.Names), pass, r.Passed, r.Failed, r.ErrLines, r.RunErr)
}

// ---------------------------------------------------------------------------
// reduction: which of the parts of a case are needed for a finding
// ---------------------------------------------------------------------------

// reduce removes elements of [0,n) greedily while fails(subset) stays true and
// returns the remaining indices. fails is called O(n) times (one pass halving, then
// one-by-one), which is enough for naming; it is not a full ddmin.
func reduce(n int, fails func(keep []int) bool) []int {
	keep := make([]int, n)
	for i := range keep {
		keep[i] = i
	}

	// halves first
	for size := len(keep) / 2; size >= 1; size /= 2 {
		for start := 0; start+size <= len(keep) && len(keep) > 1; {
			cand := append(append([]int{}, keep[:start]...), keep[start+size:]...)
			if fails(cand) {
				keep = cand
			} else {
				start += size
			}
		}
	}

	return keep
}

func hasFinding(fs []Finding, kind, sig string) bool {
	for _, f := range fs {
		if f.Kind == kind && f.Sig == sig {
			return true
		}
	}

	return false
}

// findingKey is kind[:sig] — the class is appended by the caller when sig is empty.
func (f Finding) base() string {
	if f.Sig != "" {
		return f.Kind + ":" + f.Sig
	}

	return f.Kind
}

func joinClasses(cs []string) string {
	sort.Strings(cs)

	// drop duplicates
	out := cs[:0]
	for i, c := range cs {
		if i == 0 || c != cs[i-1] {
			out = append(out, c)
		}
	}

	if len(out) > 3 {
		return strings.Join(out[:3], "+") + "+more"
	}

	return strings.Join(out, "+")
}
