package fmt5

// Run-mode corpus programs (examples/) may block forever on the host (a channel
// nobody writes, a REST server that is not there). A goroutine blocked that way
// executes no instruction, so the step budget cannot stop it, and it would hold
// egorun's process-wide lock. Such programs are therefore run in a child process
// (this same test binary) under a wall-clock watchdog; the watchdog firing is
// inconclusive, never a verdict.

import (
	"context"
	"encoding/json"
	"fmt"
	"os"
	"os/exec"
	"path/filepath"
	"testing"
	"time"

	"github.com/tucats/ego/internal/verifh/vh"
)

// childWatchdog bounds one child run in wall time (a watchdog only: its firing is
// inconclusive). The quick tier does not wait long for programs that block on the host.
func childWatchdog() time.Duration {
	if vh.Tier() == "thorough" {
		return 180 * time.Second
	}

	return 45 * time.Second
}

// childStepLimit is the logical budget of one child run (its exhaustion is
// inconclusive as well): long-running examples are cut short in the quick tier.
func childStepLimit() int64 {
	if vh.Tier() == "thorough" {
		return StepLimit
	}

	return StepLimit / 6
}

// selfExe is the absolute path of this test binary, resolved before any chdir
// (os.Args[0] may be relative).
var selfExe = func() string {
	if p, err := os.Executable(); err == nil {
		if a, err := filepath.Abs(p); err == nil {
			return a
		}

		return p
	}

	a, _ := filepath.Abs(os.Args[0])

	return a
}()

// childStatus tells a watchdog expiry (inconclusive) from a child that could not
// be started or died without a result (a harness error, never a verdict).
type childStatus int

const (
	childOK childStatus = iota
	childWatchdogFired
	childFailed
)

type childResult struct {
	B      Behaviour `json:"b"`
	Budget bool      `json:"budget"`
}

// TestC05Child is the child side: it does nothing unless FMT5_CHILD_SRC is set.
func TestC05Child(t *testing.T) {
	p := os.Getenv("FMT5_CHILD_SRC")
	if p == "" {
		t.Skip("child entry point")
	}

	src, err := os.ReadFile(p)
	if err != nil {
		t.Fatal(err)
	}

	programStepLimit = childStepLimit()
	b, budget := runProgram(string(src))
	out, _ := json.Marshal(childResult{B: b, Budget: budget})

	if err := os.WriteFile(os.Getenv("FMT5_CHILD_OUT"), out, 0o644); err != nil {
		t.Fatal(err)
	}
}

// runProgramChild is runProgram in a child process.
func runProgramChild(src, arena string) (b Behaviour, budget bool, st childStatus, why string) {
	in := filepath.Join(arena, "child_src.ego")
	out := filepath.Join(arena, "child_out.json")
	_ = os.Remove(out)

	if err := os.WriteFile(in, []byte(src), 0o644); err != nil {
		return b, false, childFailed, err.Error()
	}

	ctx, cancel := context.WithTimeout(context.Background(), childWatchdog())
	defer cancel()

	cmd := exec.CommandContext(ctx, selfExe, "-test.run", "^TestC05Child$", "-test.timeout", "0", "-test.count", "1")
	cmd.Env = append(os.Environ(), "FMT5_CHILD_SRC="+in, "FMT5_CHILD_OUT="+out)
	cmd.Dir = arena
	cmd.WaitDelay = 2 * time.Second
	log, runErr := cmd.CombinedOutput()

	if ctx.Err() == context.DeadlineExceeded {
		return b, false, childWatchdogFired, "watchdog"
	}

	raw, err := os.ReadFile(out)
	if err != nil {
		return b, false, childFailed, fmt.Sprintf("no result file (run error: %v): %s", runErr, trunc(string(log), 400))
	}

	var cr childResult
	if err := json.Unmarshal(raw, &cr); err != nil {
		return b, false, childFailed, "unreadable result: " + err.Error()
	}

	return cr.B, cr.Budget, childOK, ""
}
