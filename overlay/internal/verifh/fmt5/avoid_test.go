package fmt5

// The avoid set: constructs named by `known:` lines are kept out of the random
// streams (so that a failure there is by construction a new one) and stay under
// test through the directed probes below, which report the same keys.

// Avoid is derived from vh.KnownKeys("C05") only.
type Avoid struct {
	Snippets        map[string]bool // snippet names in "...:snippet:<a>+<b>" keys
	SemicolonInList bool            // format-error:unexpected-semicolon:missing-term
	SemicolonInBody bool            // format-error:unexpected-semicolon:invalid-identifier
	HeaderLiteral   bool            // a known key about a slice/map/struct-typed literal in a control header
	HeaderNamed     bool            // a known key about a literal of a NAMED type in a control header (range Ints{4, 5})
	DoubleUnary     bool            // double-unary-minus
}

var headerLiteralSnippets = map[string]bool{
	"for-range-composite-literal": true, "for-range-map-literal": true, "for-range-struct-slice-literal": true,
	"for-range-anonymous-struct-selector": true, "for-range-named-type-literal": true,
	"if-init-composite-literal": true, "switch-init-composite-literal": true,
}

func newAvoid(known map[string]bool) Avoid {
	a := Avoid{Snippets: avoidSnippets(known)}
	a.SemicolonInList = known["format-error:unexpected-semicolon:missing-term"]
	a.SemicolonInBody = known["format-error:unexpected-semicolon:invalid-identifier"]
	a.DoubleUnary = a.Snippets["double-unary-minus"]

	for n := range a.Snippets {
		switch {
		case n == "for-range-named-type-literal":
			a.HeaderNamed = true
		case headerLiteralSnippets[n]:
			a.HeaderLiteral = true
		}
	}

	return a
}

// slotAvoided predicts, from the slot alone, that a comment there runs into a
// known mechanism: a comment that ends a line (or is a line) inside a literal list
// or a struct/interface body leaves a synthetic ";" the formatter's parser rejects.
// The prediction only steers the random streams; what a case violates is decided
// by observing it.
func (a Avoid) slotAvoided(s Slot) bool {
	if s.Style == StInline {
		return false
	}

	switch s.Ctx {
	case "lit", "call", "paren", "index":
		// a line break inside any expression bracket nested in a literal also counts;
		// the scanner only knows the innermost bracket, so every expression bracket
		// is avoided while the list mechanism is known.
		return a.SemicolonInList
	case "typebody":
		return a.SemicolonInBody
	case "block":
		// the scanner's "block" guess can be a literal body whose type ends in a
		// keyword-like token (map[string]func(int) int{...}): avoid slots that
		// follow a comma or an opening brace on a line that does not start a statement.
		return a.SemicolonInList && (s.Prev == "," || s.Head == "lit" || s.Head == "id" && s.Prev == "{")
	default:
		return false
	}
}

func (a Avoid) filterSlots(sl []Slot) []Slot {
	out := make([]Slot, 0, len(sl))

	for _, s := range sl {
		if !a.slotAvoided(s) {
			out = append(out, s)
		}
	}

	return out
}

// sourceAvoided names the known construct a foreign program (corpus file, program
// of the shared generator) contains, or "". It over-approximates on purpose.
func (a Avoid) sourceAvoided(src string) string {
	toks, ok := scan(src)
	if !ok {
		return ""
	}

	var (
		code    []tok
		stack   []string
		comment = map[int]bool{} // index into code of the token FOLLOWING a comment
	)

	for _, t := range toks {
		if t.kind == tkComment {
			comment[len(code)] = true

			continue
		}

		code = append(code, t)
	}

	for i, t := range code {
		// a comment inside a struct/interface body or a literal list
		if comment[i] && len(stack) > 0 {
			switch stack[len(stack)-1] {
			case "typebody":
				if a.SemicolonInBody {
					return "comment-in-type-body"
				}
			case "lit":
				if a.SemicolonInList {
					return "comment-in-literal-list"
				}
			}
		}

		switch t.text {
		case "{":
			k := "block"

			if i > 0 {
				switch p := code[i-1]; {
				case p.text == "struct" || p.text == "interface":
					k = "typebody"
				case p.text == "]":
					k = "lit"
				case p.kind == tkIdent && !keywords[p.text] && i > 1 && (code[i-2].text == "=" || code[i-2].text == ":" || code[i-2].text == "," ||
					code[i-2].text == "(" || code[i-2].text == "return" || code[i-2].text == "&" || code[i-2].text == "]" || code[i-2].text == "range"):
					k = "lit"
				case p.text == "," || p.text == "{" && len(stack) > 0 && stack[len(stack)-1] == "lit" || p.text == ":" && len(stack) > 0 && stack[len(stack)-1] == "lit":
					k = "lit"
				}
			}

			stack = append(stack, k)
		case "(", "[":
			stack = append(stack, t.text)
		case "}", ")", "]":
			if len(stack) > 0 {
				stack = stack[:len(stack)-1]
			}
		}

		// a control header with a "{" that is not the last token of its line
		if (a.HeaderLiteral || a.HeaderNamed) && t.kind == tkIdent && (t.text == "for" || t.text == "if" || t.text == "switch") && (i == 0 || code[i-1].line < t.line || code[i-1].text == "else") {
			// the header line ends in the "{" that opens the body and holds another "{"
			// outside parentheses before it (a one-line body "if x { y }" ends in "}")
			// The type before an inner "{" tells the two defects apart: "]" or "}" ends a
			// slice/map/struct type, an identifier is a named type.
			depth, braces, last := 0, 0, ""
			typed, named := false, false

			for j := i + 1; j < len(code) && code[j].line == t.line; j++ {
				last = code[j].text

				switch code[j].text {
				case "(", "[":
					depth++
				case ")", "]":
					depth--
				case "{":
					if depth == 0 {
						braces++

						if j+1 < len(code) && code[j+1].line == t.line { // not the body opener
							// walk back over a possibly qualified element type (pkg.Name); a "]"
							// before it makes the whole thing a slice or map type ([]int, map[k]v)
							k := j - 1
							for k >= 2 && code[k].kind == tkIdent && code[k-1].text == "." && code[k-2].kind == tkIdent {
								k -= 2
							}

							if p := code[k]; p.kind == tkIdent && !keywords[p.text] && (k == 0 || code[k-1].text != "]") {
								named = true
							} else {
								typed = true
							}
						}
					}
				}
			}

			if braces > 1 && last == "{" {
				if typed && a.HeaderLiteral || named && (a.HeaderNamed || a.HeaderLiteral) {
					return "literal-in-control-header"
				}
			}
		}

		if a.DoubleUnary && t.text == "-" && i+1 < len(code) && code[i+1].text == "-" && code[i+1].start > t.end {
			return "double-unary-minus"
		}
	}

	return ""
}

// commentProbes are hand-written sources for the known comment mechanisms. Each
// is evaluated with the full oracle in every run; they report the signature keys.
var commentProbes = []struct{ Name, Src string }{
	{"comment-line-in-literal-list", "package main\n\nimport \"fmt\"\n\nfunc main() {\n\tm := []int{\n\t\t// first\n\t\t1,\n\t\t2, // two\n\t\t3, /* three */\n\t}\n\tfmt.Println(m)\n}\n"},
	{"multiline-literal-last-element-without-trailing-comma", "package main\n\nimport \"fmt\"\n\nfunc main() {\n\tx := map[string][]int{\n\t\t\"a\": []int{1, 2}\n\t}\n\tfmt.Println(x[\"a\"][1])\n}\n"},
	{"comment-in-struct-body", "package main\n\nimport \"fmt\"\n\ntype P struct {\n\t// the name\n\tname string\n\tage  int // years\n}\n\nfunc main() {\n\tfmt.Println(P{name: \"x\", age: 3})\n}\n"},
	{"comment-in-interface-body", "package main\n\nimport \"fmt\"\n\ntype S interface {\n\t// area of the shape\n\tArea() int\n}\n\ntype Q struct {\n\tn int\n}\n\nfunc (q Q) Area() int {\n\treturn q.n\n}\n\nfunc main() {\n\tvar s S\n\ts = Q{n: 2}\n\tfmt.Println(s.Area())\n}\n"},
	{"trailing-comment-on-first-line-of-multiline-statement", "package main\n\nimport \"fmt\"\n\nconst ( // limits\n\tlo = 1\n\thi = 9\n)\n\nfunc main() {\n\tif lo < hi { // always\n\t\tfmt.Println(lo, hi)\n\t}\n}\n"},
	{"eol-comment-after-else-open-brace", "package main\n\nimport \"fmt\"\n\nfunc main() {\n\tx := 3\n\tif x > 5 { // big\n\t\tfmt.Println(\"big\")\n\t} else if x > 2 { // middle\n\t\tfmt.Println(\"middle\")\n\t} else { // small\n\t\tfmt.Println(\"small\")\n\t}\n}\n"},
	{"eol-comment-after-func-literal-call", "package main\n\nimport \"fmt\"\n\nfunc apply(f func(int) int, v int) int {\n\treturn f(v)\n}\n\nfunc main() {\n\tfunc() {\n\t\tfmt.Println(\"iife\")\n\t}() // called at once\n\tr := apply(func(q int) int {\n\t\treturn q * q\n\t}, 21) // squared\n\tfmt.Println(r)\n\tdefer func() {\n\t\tfmt.Println(\"bye\")\n\t}() /* deferred */\n}\n"},
	{"star-comment-lines-ending-in-continuation-rune", "package main\n\nimport \"fmt\"\n\n/*\n * First line ends in a period.\n * Second line ends in a comma,\n * third line ends plainly\n */\nfunc main() {\n\t/*\n\t * Inside a function: indented star comment.\n\t * Another line.\n\t */\n\tfmt.Println(\"star\")\n}\n"},
	{"block-comment-lines-ending-in-continuation-rune", "package main\n\nimport \"fmt\"\n\nfunc main() {\n\t/* A plain block comment.\n\t   Its second line ends in a period.\n\t   Third line, with a comma,\n\t   last line */\n\tfmt.Println(\"block\")\n}\n"},
}
