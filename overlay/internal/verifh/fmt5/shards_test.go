package fmt5

// Worker-process sharding shared by the corpus part and the thorough tier of the
// generated part. The interpreter's settings are process-global, so cases cannot run
// concurrently inside one process; independent cases are spread over child processes
// of this same test binary instead, and the parent merges their reports.

import (
	"encoding/json"
	"fmt"
	"os"
	"os/exec"
	"path/filepath"
	"runtime"
	"strings"
	"sync"
	"testing"

	"github.com/tucats/ego/internal/verifh/vh"
)

// shardOf parses the "i/n" value of an environment variable; ok=false when unset.
func shardOf(t *testing.T, envVar string) (shard, shards int, ok bool) {
	sp := os.Getenv(envVar)
	if sp == "" {
		return 0, 1, false
	}

	if _, err := fmt.Sscanf(sp, "%d/%d", &shard, &shards); err != nil || shards < 1 || shard < 0 || shard >= shards {
		t.Fatalf("bad %s %q", envVar, sp)
	}

	return shard, shards, true
}

func shardWorkers() int {
	w := runtime.NumCPU() / 2
	if w > 8 {
		w = 8
	}

	if w < 1 {
		w = 1
	}

	return w
}

// runShards starts `shards` runs of testName (each told its shard through envVar),
// at most `workers` at a time, and merges their reports into r. dir is the working
// directory of the workers. A worker that leaves no report, or fails, is a harness
// error (t.Fatal), never a verdict.
func runShards(t *testing.T, r *vh.Report, arena, dir, testName, envVar string, shards, workers int) {
	type result struct {
		out string
		log []byte
		err error
	}

	res := make([]result, shards)
	sem := make(chan struct{}, workers)

	var wg sync.WaitGroup

	for i := 0; i < shards; i++ {
		wg.Add(1)
		sem <- struct{}{}

		go func(i int) {
			defer func() { <-sem; wg.Done() }()

			wa := filepath.Join(arena, fmt.Sprintf("shard-%d", i))
			wh := filepath.Join(wa, "home") // workers must not share a profile directory
			_ = os.MkdirAll(wh, 0o755)
			res[i].out = filepath.Join(arena, fmt.Sprintf("shard-%d.json", i))
			_ = os.Remove(res[i].out)

			wd := dir
			if wd == "" {
				wd = wa
			}

			cmd := exec.Command(selfExe, "-test.run", "^"+testName+"$", "-test.timeout", "0", "-test.count", "1")
			cmd.Env = append(os.Environ(), fmt.Sprintf("%s=%d/%d", envVar, i, shards), "VERIF_OUT="+res[i].out, "VERIF_ARENA="+wa, "VERIF_HOME="+wh)
			cmd.Dir = wd
			res[i].log, res[i].err = cmd.CombinedOutput()
		}(i)
	}

	wg.Wait()

	r.Count("shards.workers", int64(workers))
	r.Count("shards.total", int64(shards))

	for i := range res {
		raw, err := os.ReadFile(res[i].out)
		if err != nil {
			t.Fatalf("harness error: worker %d of %s left no report (%v): %s", i, testName, res[i].err, trunc(string(res[i].log), 1500))
		}

		var w vh.Report
		if err := json.Unmarshal(raw, &w); err != nil {
			t.Fatalf("harness error: report of worker %d of %s unreadable: %v", i, testName, err)
		}

		if res[i].err != nil {
			t.Fatalf("harness error: worker %d of %s failed: %v: %s", i, testName, res[i].err, trunc(string(res[i].log), 1500))
		}

		r.Evaluations += w.Evaluations
		r.Distinct += w.Distinct // shards hold disjoint cases

		for k, v := range w.Counters {
			switch {
			case k == "violations_raw":
				// the merged report keeps at most 3 witnesses per key and worker; the true
				// number of refuted cases is kept here
				r.Count("violations_raw_in_workers", v)
			case !strings.HasPrefix(k, "violations_") && k != "inconclusive":
				r.Count(k, v)
			}
		}

		for _, v := range w.Violations {
			r.Violate(v)
		}

		for _, x := range w.Inconclusive {
			r.Inconcl(x)
		}

		for _, x := range w.Notes {
			r.Note(x)
		}

		for _, x := range w.ProbesRun {
			r.Probe(x)
		}

		if i < 3 {
			for _, x := range w.Samples {
				r.Sample(x)
			}
		}
	}
}
