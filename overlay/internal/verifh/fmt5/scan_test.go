package fmt5

// A position-exact lexical scan of Ego source (text/scanner in the same mode the
// Ego tokenizer uses, but on the unmodified text so byte offsets are exact) and the
// comment decorator built on it.

import (
	"fmt"
	"math/rand"
	"strings"
	"text/scanner"
)

type tokKind int

const (
	tkIdent tokKind = iota
	tkLit           // number, string, raw string, char
	tkPunct
	tkComment
)

type tok struct {
	kind       tokKind
	text       string
	start, end int // byte offsets in the source
	line       int // 1-based line of the first byte
}

// scan splits src into tokens; ok=false when the scanner reported a lexical error
// (then the source is not decorated).
func scan(src string) (toks []tok, ok bool) {
	var s scanner.Scanner

	s.Init(strings.NewReader(src))
	s.Mode &^= scanner.SkipComments
	ok = true
	s.Error = func(*scanner.Scanner, string) { ok = false }

	for t := s.Scan(); t != scanner.EOF; t = s.Scan() {
		k := tkPunct

		switch t {
		case scanner.Ident:
			k = tkIdent
		case scanner.Int, scanner.Float, scanner.Char, scanner.String, scanner.RawString:
			k = tkLit
		case scanner.Comment:
			k = tkComment
		}

		toks = append(toks, tok{kind: k, text: s.TokenText(), start: s.Position.Offset, end: s.Pos().Offset, line: s.Position.Line})
	}

	return toks, ok
}

// Style of an inserted comment.
type Style string

const (
	StInline   Style = "inline"   // /* c */ between two tokens of one line
	StEOL      Style = "eol"      // // c at the end of a line
	StEOLBlock Style = "eolblock" // /* c */ at the end of a line
	StOwn      Style = "own"      // // c on a line of its own
	StOwnBlock Style = "ownblock" // /* c */ on a line of its own
	StOwnMulti Style = "ownmulti" // multi-line /* ... */ on lines of its own
	StOwnStar  Style = "ownstar"  // multi-line star comment on lines of its own
)

// Slot is a place in a source where a comment may be inserted.
type Slot struct {
	Off   int    // byte offset of the insertion
	Style Style  // what is inserted
	Prev  string // category of the code token before the slot ("" = start of file)
	Next  string // category of the code token after the slot ("" = end of file)
	Ctx   string // innermost open bracket: top block switchbody lit typebody call params declgroup paren index
	Head  string // first word of the statement the slot belongs to
}

// group folds the seven styles into the three placements the formatter can tell apart.
func (s Slot) group() string {
	switch s.Style {
	case StInline:
		return "inline"
	case StEOL, StEOLBlock:
		return "eol"
	default:
		return "own"
	}
}

func operand(c string) bool { return c == "id" || c == "lit" }

// pos names the slot relative to its neighbours.
func (s Slot) pos() string {
	switch {
	case s.Next == "else":
		return "before-else"
	case s.Prev == "":
		return "file-start"
	case s.Next == "":
		return "file-end"
	case s.Prev == "(" || s.Prev == "[" || s.Prev == "{":
		return "after-open"
	case s.Next == ")" || s.Next == "]" || s.Next == "}":
		return "before-close"
	case s.Prev == ",":
		return "after-comma"
	case s.Prev == ";":
		return "after-semicolon"
	case s.Prev == ":":
		return "after-colon"
	case keywords[s.Prev]:
		return "after-" + s.Prev
	case keywords[s.Next]:
		return "before-" + s.Next
	case s.Next == "{":
		return "before-open-brace"
	case s.Next == "(" || s.Next == "[":
		return "before-open"
	case s.Prev == "}" || s.Prev == ")" || s.Prev == "]":
		return "after-close"
	case s.Next == "," || s.Next == ";" || s.Next == ":":
		return "before-separator"
	case s.Prev == "." || s.Next == ".":
		return "at-selector"
	case operand(s.Prev) && operand(s.Next):
		return "between-operands"
	case operand(s.Prev):
		return "before-operator"
	case operand(s.Next):
		return "after-operator"
	default:
		return "between-operators"
	}
}

// Class is the position class used in violation keys: placement, statement
// head, bracket context, neighbour relation.
func (s Slot) Class() string {
	return fmt.Sprintf("%s:%s:%s:%s", s.group(), s.Head, s.Ctx, s.pos())
}

var keywords = map[string]bool{
	"else": true, "func": true, "for": true, "if": true, "return": true, "range": true, "case": true, "default": true,
	"switch": true, "var": true, "const": true, "type": true, "struct": true, "package": true, "import": true,
	"break": true, "continue": true, "defer": true, "go": true, "try": true, "catch": true, "map": true,
	"interface": true, "fallthrough": true, "print": true, "call": true, "throw": true, "exit": true, "panic": true, "chan": true,
}

func category(t tok) string {
	switch t.kind {
	case tkIdent:
		if keywords[t.text] {
			return t.text
		}

		return "id"
	case tkLit:
		return "lit"
	default:
		return t.text
	}
}

func blockLike(ctx string) bool { return ctx == "top" || ctx == "block" || ctx == "switchbody" }

// slots enumerates every insertion point of src. Existing comments are transparent
// (never split, never used as neighbours). A boundary between two adjacent
// punctuation characters is skipped (":=", "++", "<-", "...", "{}" are crushed into
// one token by the Ego tokenizer only when adjacent), as is the position after "@".
func slots(src string) []Slot {
	all, ok := scan(src)
	if !ok {
		return nil
	}

	var (
		out   []Slot
		code  []tok
		stack []string       // bracket context
		heads = []string{""} // statement head per block-like level
	)

	for _, t := range all {
		if t.kind != tkComment {
			code = append(code, t)
		}
	}

	nl := strings.Count(src, "\n") + 2
	inside := make([]bool, nl+2)   // the END of line i is inside a multi-line token
	hasLineC := make([]bool, nl+2) // line i ends in a // comment

	for _, t := range all {
		if t.kind == tkComment && strings.HasPrefix(t.text, "//") {
			hasLineC[t.line] = true
			continue
		}

		for i, n := 0, strings.Count(t.text, "\n"); i < n; i++ {
			inside[t.line+i] = true
		}
	}

	ctxOf := func() string {
		if len(stack) == 0 {
			return "top"
		}

		return stack[len(stack)-1]
	}

	lineStart := []int{0, 0}
	for i := 0; i < len(src); i++ {
		if src[i] == '\n' {
			lineStart = append(lineStart, i+1)
		}
	}

	cat := func(i int) string {
		if i < 0 || i >= len(code) {
			return ""
		}

		return category(code[i])
	}

	header := "" // keyword of the control header being scanned: its "{" opens a block
	newStmt := true

	for i := 0; i <= len(code); i++ {
		var prev, next *tok
		if i > 0 {
			prev = &code[i-1]
		}

		if i < len(code) {
			next = &code[i]
		}

		if prev != nil {
			if newStmt && blockLike(ctxOf()) {
				heads[len(heads)-1] = category(*prev)
				if prev.text == "@" && i < len(code) {
					heads[len(heads)-1] = "@" + code[i].text
				}

				newStmt = false
			}

			switch prev.text {
			case "if", "for", "switch", "func", "else", "try", "catch":
				if prev.kind == tkIdent && blockLike(ctxOf()) {
					header = prev.text
				}
			case "(":
				k := "paren"

				switch {
				case i >= 2 && (code[i-2].text == "import" || code[i-2].text == "const" || code[i-2].text == "var" || code[i-2].text == "type"):
					k = "declgroup"
				case i >= 2 && code[i-2].text == "func":
					k = "params"
				case i >= 3 && code[i-2].kind == tkIdent && !keywords[code[i-2].text] && (code[i-3].text == "func" || code[i-3].text == ")") && header == "func":
					k = "params"
				case i >= 2 && (code[i-2].kind == tkIdent && !keywords[code[i-2].text] || code[i-2].text == ")" || code[i-2].text == "]" || code[i-2].text == "}"):
					k = "call"
				}

				stack = append(stack, k)
			case "[":
				stack = append(stack, "index")
			case "{":
				k := "lit"
				p2 := ""
				if i >= 2 {
					p2 = code[i-2].text
				}

				switch {
				case p2 == "struct" || p2 == "interface":
					k = "typebody"
				case p2 == "]":
					k = "lit"
				case header == "switch" && blockLike(ctxOf()):
					k, header = "switchbody", ""
				case header != "" && blockLike(ctxOf()):
					k, header = "block", ""
				case p2 == "" || p2 == "{" || p2 == ";" || p2 == "}" || p2 == ")" || p2 == ":":
					k = "block"
				case i >= 2 && code[i-2].kind == tkIdent && keywords[p2] && p2 != "map":
					k = "block"
				case i >= 2 && prev.line != code[i-2].line:
					k = "block"
				}

				stack = append(stack, k)

				if blockLike(k) {
					heads = append(heads, "")
					newStmt = true
				}
			case ")", "]", "}":
				if len(stack) > 0 {
					if blockLike(stack[len(stack)-1]) && len(heads) > 1 {
						heads = heads[:len(heads)-1]
					}

					stack = stack[:len(stack)-1]
				}
			case ";":
				if blockLike(ctxOf()) {
					newStmt = true
				}
			}
		}

		// a new line at block level starts a new statement (unless the previous
		// token obviously continues)
		if prev != nil && next != nil && blockLike(ctxOf()) && next.line > prev.line+strings.Count(prev.text, "\n") {
			switch prev.text {
			case ",", "+", "-", "*", "/", "&", "|", "=", "(", "[", ".", "<", ">":
			default:
				if next.text != "else" && next.text != "catch" && next.text != "{" {
					newStmt = true
				}
			}
		}

		if prev != nil && next != nil {
			if prev.text == "@" {
				continue
			}

			if prev.kind == tkPunct && next.kind == tkPunct && prev.end == next.start {
				continue
			}
		}

		ctx := ctxOf()
		off, line := len(src), nl

		if next != nil {
			off, line = next.start, next.line
		}

		base := Slot{Prev: cat(i - 1), Next: cat(i), Ctx: ctx, Head: heads[len(heads)-1]}

		sameLine := prev != nil && next != nil && prev.line+strings.Count(prev.text, "\n") == next.line
		if sameLine {
			s := base
			s.Off, s.Style = off, StInline
			out = append(out, s)

			continue
		}

		if prev != nil {
			pl := prev.line + strings.Count(prev.text, "\n")
			if !hasLineC[pl] && !inside[pl] {
				eol := strings.IndexByte(src[prev.end:], '\n')
				if eol < 0 {
					eol = len(src) - prev.end
				}

				for _, st := range []Style{StEOL, StEOLBlock} {
					s := base
					s.Off, s.Style = prev.end+eol, st
					out = append(out, s)
				}
			}
		}

		// own-line comments lead the statement that follows
		ownBase := base
		if newStmt && next != nil && blockLike(ctx) {
			ownBase.Head = category(*next)
			if next.text == "@" && i+1 < len(code) {
				ownBase.Head = "@" + code[i+1].text
			}
		}

		if next != nil && line < len(lineStart) && (line == 1 || !inside[line-1]) {
			for _, st := range []Style{StOwn, StOwnBlock, StOwnMulti, StOwnStar} {
				s := ownBase
				s.Off, s.Style = lineStart[line], st
				out = append(out, s)
			}
		} else if next == nil && strings.HasSuffix(src, "\n") {
			for _, st := range []Style{StOwn, StOwnBlock} {
				s := base
				s.Off, s.Style = len(src), st
				out = append(out, s)
			}
		}
	}

	return out
}

// Inserted is one comment put into a source by decorate.
type Inserted struct {
	Slot Slot
	Text string // normalised comment text as the tokenizer should report it
}

// render gives the text inserted for slot s carrying the unique tag.
func render(s Slot, tag, indent string) (ins string, norm string) {
	switch s.Style {
	case StInline:
		// the leading blank keeps a preceding "/" from fusing with "/*" into "//"
		c := "/* " + tag + " */"
		return " " + c + " ", c
	case StEOL:
		c := "// " + tag
		return " " + c, c
	case StEOLBlock:
		c := "/* " + tag + " */"
		return " " + c, c
	case StOwn:
		c := "// " + tag
		return indent + c + "\n", c
	case StOwnBlock:
		c := "/* " + tag + " */"
		return indent + c + "\n", c
	case StOwnMulti:
		c := "/* " + tag + "\n" + indent + "   second line of " + tag + "\n" + indent + "*/"
		return indent + c + "\n", normComment(c)
	default: // StOwnStar
		c := "/*\n" + indent + " * " + tag + "\n" + indent + " */"
		return indent + c + "\n", normComment(c)
	}
}

// decorate inserts the chosen slots (indices into sl) into src. Slots sharing an
// offset are inserted in the given order. Tags are c<N>q so that no tag is a
// prefix of another.
func decorate(src string, sl []Slot, pick []int, tagBase string) (string, []Inserted) {
	type ins struct {
		off  int
		seq  int
		text string
	}

	var (
		list []ins
		done []Inserted
	)

	for n, idx := range pick {
		s := sl[idx]
		tag := fmt.Sprintf("%s%dq", tagBase, n)
		indent := ""

		if s.Off < len(src) {
			// indentation of the line the slot is on
			ls := strings.LastIndexByte(src[:s.Off], '\n') + 1
			j := ls
			for j < len(src) && (src[j] == ' ' || src[j] == '\t') {
				j++
			}

			indent = src[ls:j]
		}

		text, norm := render(s, tag, indent)
		list = append(list, ins{s.Off, n, text})
		done = append(done, Inserted{Slot: s, Text: norm})
	}

	// stable order by offset
	for i := 1; i < len(list); i++ {
		for j := i; j > 0 && list[j].off < list[j-1].off; j-- {
			list[j], list[j-1] = list[j-1], list[j]
		}
	}

	var b strings.Builder

	last := 0
	for _, x := range list {
		b.WriteString(src[last:x.off])
		b.WriteString(x.text)
		last = x.off
	}

	b.WriteString(src[last:])

	return b.String(), done
}

// pickSlots chooses n distinct slot indices, never two at one offset with an
// own-line style mixed after an inline one (keeps the text well formed), and at
// most one end-of-line style per offset.
func pickSlots(rng *rand.Rand, sl []Slot, n int) []int {
	if n > len(sl) {
		n = len(sl)
	}

	perm := rng.Perm(len(sl))
	usedOff := map[int]bool{}

	var out []int

	for _, i := range perm {
		if len(out) >= n {
			break
		}

		if usedOff[sl[i].Off] {
			continue
		}

		usedOff[sl[i].Off] = true
		out = append(out, i)
	}

	return out
}
