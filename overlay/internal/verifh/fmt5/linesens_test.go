package fmt5

import "strings"

// blankLineControls returns two re-layouts of src that change nothing but line
// numbers: (1) three empty lines in front, (2) an empty line before every line
// that does not start inside a multi-line token (raw string, block comment). An
// empty line is inert for the tokenizer (splitLines adds no ";" to it). A program
// whose behaviour differs under either control depends on its own line numbers
// (e.g. tests/runtime/runtime.ego asserts runtime.Frames()[0].Line == 6), which no
// formatter can preserve and which the property excludes ("ignoring source line
// numbers").
func blankLineControls(src string) []string {
	out := []string{"\n\n\n" + src}

	toks, ok := scan(src)
	if !ok {
		return out
	}

	n := strings.Count(src, "\n") + 2
	inside := make([]bool, n+2) // line i (1-based) ENDS inside a multi-line token

	for _, t := range toks {
		for i, k := 0, strings.Count(t.text, "\n"); i < k; i++ {
			if t.line+i < len(inside) {
				inside[t.line+i] = true
			}
		}
	}

	var b strings.Builder

	for i, line := range strings.SplitAfter(src, "\n") {
		ln := i + 1 // this line's number
		if ln > 1 && !inside[ln-1] && strings.TrimSpace(line) != "" {
			b.WriteString("\n")
		}

		b.WriteString(line)
	}

	return append(out, b.String())
}
