package fmt5

// C05 part "generated": snippet probes, single-comment sweep, random programs with
// heavy comment decoration.

import (
	"encoding/json"
	"fmt"
	"math/rand"
	"os"
	"strings"
	"testing"

	"github.com/tucats/ego/internal/verifh/vh"
)

// genCase is the replayable form of a generated case.
type genCase struct {
	Kind     string   `json:"kind"` // "source"
	Origin   string   `json:"origin"`
	Source   string   `json:"source"`
	Mode     string   `json:"mode"`
	Runner   string   `json:"runner"`
	Snippets []string `json:"snippets,omitempty"`
	Comments []string `json:"comments,omitempty"`
}

// extraSources lets an optional file (c05_langgen_test.go) feed programs of
// internal/verifh/gen through the same decorator.
var extraSources []func(rng *rand.Rand) (src string, features []string, ok bool)

func arenaDir(t *testing.T) string {
	a := os.Getenv("VERIF_ARENA")
	if a == "" {
		a = t.TempDir()
	}

	_ = os.MkdirAll(a, 0o755)

	return a
}

// avoidSnippets derives, from the known keys, the snippet names that must stay out
// of the random stream (they remain under test through their probe).
func avoidSnippets(known map[string]bool) map[string]bool {
	out := map[string]bool{}

	for k := range known {
		if i := strings.Index(k, ":snippet:"); i >= 0 {
			for _, n := range strings.Split(k[i+len(":snippet:"):], "+") {
				out[n] = true
			}
		}
	}

	return out
}

// avoidSlotClasses: known keys that name a comment position class.
func avoidSlotClasses(known map[string]bool) map[string]bool {
	out := map[string]bool{}

	for k := range known {
		if i := strings.Index(k, ":comment:"); i >= 0 {
			for _, n := range strings.Split(k[i+len(":comment:"):], "+") {
				out[n] = true
			}
		}
	}

	return out
}

// report turns the findings of one observed case into violations.
//
//	base:     undecorated source (what the snippets compose to); "" if none
//	inserted: the comments decorating it
//	classOf:  names the class of a finding that survives without any comment
func reportFindings(r *vh.Report, o Observed, S string, mode Mode, runner Runner, env Env, base string, sl []Slot, pick []int,
	inserted []Inserted, undecoratedClass func(f Finding) string, origin string, names []string) {
	for _, f := range o.Findings {
		key := f.base()
		needed := []string{}

		if f.Sig == "" {
			class := ""

			switch {
			case (f.Kind == "comment-lost" || f.Kind == "comment-added") && len(inserted) > 0:
				var cs []string

				for _, l := range f.Lost {
					for _, in := range inserted {
						if in.Text == l {
							cs = append(cs, in.Slot.Class())
							needed = append(needed, string(in.Slot.Style)+"@"+in.Slot.Class())
						}
					}
				}

				if len(cs) > 0 {
					class = "comment:" + joinClasses(cs)
				}
			case len(inserted) > 0:
				// which comments are needed for this finding?
				keep := reduce(len(pick), func(k []int) bool {
					sub := make([]int, len(k))
					for i, x := range k {
						sub[i] = pick[x]
					}

					S2, _ := decorate(base, sl, sub, "zc")
					o2 := observeFor(f.Kind, S2, mode, runner, env)

					return o2.Accepted && hasFinding(o2.Findings, f.Kind, f.Sig)
				})

				// does it survive with no comment at all?
				o0 := observeFor(f.Kind, base, mode, runner, env)
				if !(o0.Accepted && hasFinding(o0.Findings, f.Kind, f.Sig)) {
					var cs []string
					for _, x := range keep {
						cs = append(cs, inserted[x].Slot.Class())
						needed = append(needed, string(inserted[x].Slot.Style)+"@"+inserted[x].Slot.Class())
					}

					class = "comment:" + joinClasses(cs)
				}
			}

			if class == "" {
				class = undecoratedClass(f)
			}

			key += ":" + class
		}

		r.Violate(vh.Violation{
			Key:      key,
			Desc:     fmt.Sprintf("[%s] %s: %s%s", origin, f.Kind, f.Detail, neededText(needed)),
			Case:     genCase{Kind: "source", Origin: origin, Source: S, Mode: mode.String(), Runner: runnerName(runner), Snippets: names, Comments: needed},
			Expected: "format succeeds; output compiles, behaves like the source, keeps every comment, and is a fixed point of the formatter",
			Observed: map[string]any{"finding": f.Kind, "signature": f.Sig, "detail": f.Detail, "formatted": vh.Trunc(o.F, 1500), "behaviour_source": o.SBeh, "behaviour_formatted": o.FBeh},
		})
	}
}

// countComments records, for one accepted decorated source, how many comments were
// inserted, how many of those the tokenizer's capture reports for S (the list the
// oracle compares), and how many it does not (a comment the capture cannot see would
// escape the comment clause, so this is monitored, not assumed).
func countComments(r *vh.Report, S string, inserted []Inserted) {
	have := map[string]int{}

	src := tokComments(S)
	for _, c := range src {
		have[c]++
	}

	r.Count("comments.in_sources", int64(len(src)))
	r.Count("comments.inserted", int64(len(inserted)))

	for _, in := range inserted {
		if have[in.Text] > 0 {
			have[in.Text]--
			r.Count("comments.inserted_seen_by_tokenizer", 1)
		} else {
			r.Count("comments.inserted_not_seen_by_tokenizer", 1)
		}
	}
}

func neededText(n []string) string {
	if len(n) == 0 {
		return ""
	}

	return " (comments needed: " + strings.Join(n, ", ") + ")"
}

func runnerName(r Runner) string {
	switch r {
	case RunProgram:
		return "run"
	case RunProgramChild:
		return "runchild"
	case RunTest:
		return "test"
	case CompileOnly:
		return "compile"
	default:
		return "none"
	}
}

func runnerOf(s string) Runner {
	switch s {
	case "runchild":
		return RunProgramChild
	case "test":
		return RunTest
	case "compile":
		return CompileOnly
	case "none":
		return NoRun
	default:
		return RunProgram
	}
}

func modeOf(s string) Mode {
	switch s {
	case "fragment":
		return Fragment
	case "program":
		return Program
	default:
		return Auto
	}
}

// observeFor re-observes with the cheapest runner that can show a finding of kind.
func observeFor(kind string, S string, mode Mode, runner Runner, env Env) Observed {
	switch kind {
	case "behaviour", "formatted-rejected":
		e := env
		e.TestBase = nil

		return observe(S, mode, runner, e)
	default:
		// the formatter clauses need no execution, but S must still be accepted
		e := env
		e.TestBase = nil

		switch runner {
		case RunProgram, RunProgramChild:
			sb, _ := compileProgram(S)
			if sb != "" {
				return Observed{}
			}
		case RunTest, CompileOnly:
			if tr := runTestFile(S, env.unit(), env.Arena, true); tr.CompileErr != "" || tr.Panic != "" {
				return Observed{}
			}
		}

		o := Observed{Accepted: true}
		formatClauses(S, mode, &o)

		return o
	}
}

// snippetClass names an undecorated generated program by the snippets a finding needs.
func snippetClass(sn []Snippet, mode Mode, env Env) func(f Finding) string {
	return func(f Finding) string {
		keep := reduce(len(sn), func(k []int) bool {
			if len(k) == 0 {
				return false
			}

			sub := make([]Snippet, len(k))
			for i, x := range k {
				sub[i] = sn[x]
			}

			o := observeFor(f.Kind, compose(sub).Src, mode, RunProgram, env)

			return o.Accepted && hasFinding(o.Findings, f.Kind, f.Sig)
		})

		var names []string
		for _, x := range keep {
			names = append(names, sn[x].Name)
		}

		return "snippet:" + joinClasses(names)
	}
}

func TestC05Generated(t *testing.T) {
	r := vh.New("C05", "generated")
	r.Rule = "programs composed from a library of named construct snippets (plus random integer/boolean expressions with exact and redundant parentheses), " +
		"(a) each snippet alone, (b) each snippet with ONE comment at every token boundary in 7 styles (inline /* */, end-of-line // and /* */, own-line //, /* */, multi-line, star), " +
		"(c) random compositions of 2-6 snippets with 10-60 % of the boundaries decorated; distinct = distinct source text; non-trivial = the compiler accepts the source and it carries at least one comment or is a bare snippet probe"
	r.Assume("behaviour of a program = captured standard output + outcome class + message with source positions masked, as observed by the in-process runner egorun (cross-checked against the ego binary by part cli)")
	r.Assume("comment lists are taken with the tokenizer's own capture (Tokenizer.Comments) on source and output; texts compared modulo white space")

	env := Env{Arena: arenaDir(t)}
	known := vh.KnownKeys("C05")
	avoid := newAvoid(known)
	avoidSn := avoid.Snippets

	if c := vh.ReplayCase(); c != nil {
		var gc genCase
		if err := json.Unmarshal(c, &gc); err != nil || gc.Source == "" {
			t.Skip("replay case is not a source case")
		}

		if gc.Origin != "" && !strings.HasPrefix(gc.Origin, "gen") {
			t.Skip("replay case belongs to another part")
		}

		mode, runner := modeOf(gc.Mode), runnerOf(gc.Runner)
		o := observe(gc.Source, mode, runner, env)
		r.Eval(vh.Hash(gc.Source), o.Accepted)
		r.Eval(vh.Hash(gc.Source, "replay"), true)
		reportFindings(r, o, gc.Source, mode, runner, env, "", nil, nil, nil, func(Finding) string { return "replay" }, gc.Origin, gc.Snippets)
		r.Distinct = 2
		_ = r.Write()

		return
	}

	// The thorough tier is spread over worker processes (interpreter runs are
	// serialised inside one process). Each worker takes every shards-th snippet of
	// the sweep and 1/shards of the random and generator programs, from PRNG streams
	// of its own. The quick tier runs in this process with the unsuffixed streams.
	shard, shards, sharded := shardOf(t, "FMT5_GEN_SHARD")
	if !sharded && vh.Tier() == "thorough" {
		w := shardWorkers()
		runShards(t, r, env.Arena, "", "TestC05Generated", "FMT5_GEN_SHARD", 2*w, w)

		if r.Counters["sources.accepted"] == 0 {
			t.Fatal("observed nothing")
		}

		if err := r.Write(); err != nil {
			t.Fatal(err)
		}

		return
	}

	sfx := ""
	if shards > 1 {
		sfx = fmt.Sprintf("#%d", shard)
	}

	share := func(n int) int { return (n + shards - 1) / shards }

	evalCase := func(origin string, sn []Snippet, base string, sl []Slot, pick []int, full bool) {
		S, inserted := base, []Inserted(nil)
		if len(pick) > 0 {
			S, inserted = decorate(base, sl, pick, "zc")
		}

		runner := RunProgram
		o := Observed{}

		if full {
			o = observe(S, Auto, runner, env)
		} else {
			o = observeFor("format", S, Auto, runner, env)
		}

		r.Eval(vh.Hash(S), o.Accepted)

		if !o.Accepted {
			r.Count("out_of_scope.compiler_rejects_source", 1)

			return
		}

		r.Count("sources.accepted", 1)
		countComments(r, S, inserted)

		if o.F != "" {
			r.Count("events.format_ok", 1)
			r.Count("events.comments_in_outputs", int64(len(tokComments(o.F))))
		}

		if o.F2 != "" {
			r.Count("events.reformat_ok", 1)
		}

		if full && o.FBeh != "" {
			r.Count("events.behaviour_pairs", 1)
		}

		if o.Budget {
			r.Count("inconclusive.step_budget", 1)
		}

		if o.Flaky {
			r.Count("inconclusive.self_unstable_program", 1)
		}

		if o.LineSens {
			r.Count("out_of_scope.behaviour_depends_on_own_line_numbers", 1)
		}

		for _, in := range inserted {
			r.Count("slot_style."+string(in.Slot.Style), 1)
		}

		names := make([]string, len(sn))
		for i := range sn {
			names[i] = sn[i].Name
		}

		if len(o.Findings) > 0 {
			reportFindings(r, o, S, Auto, runner, env, base, sl, pick, inserted, snippetClass(sn, Auto, env), origin, names)
		}

		if r.Evaluations%997 == 3 {
			r.Sample(map[string]any{"origin": origin, "snippets": names, "comments": len(inserted), "source": vh.Trunc(S, 700), "formatted": vh.Trunc(o.F, 500), "behaviour": o.SBeh})
		}
	}

	// print_stmt.go: every function and every statement case, with the directed
	// snippet (each run alone as a probe) that prints it with all optional parts present
	if shard == 0 {
		r.Note("print_stmt.go coverage by directed snippets: " +
			"[x] printBlock (empty {} / with statements / trailing inner comments): nested-blocks, comment probes; " +
			"[x] printIf (init; cond; else-if chain with init in every arm; final else): init-clause-first-if, init-clause-else-if-2-arms, init-clause-else-if-4-arms, init-clause-else-if-falls-to-else, if-init, if-else-chain; " +
			"[x] printFor (range key,value := / key only / =; three-clause with init+cond+post; cond only; infinite): for-range-variable, for-range-int, for-range-call, init-clause-for-three, for-three-clause, for-conditional, for-infinite-break; " +
			"[x] printSwitch (init; tag / tag only / tagless; `switch init; {` without a tag is rejected by the ego compiler (missing ':'), so it is out of scope) + printCaseClause (multi-expr case, default, fallthrough): init-clause-switch-tag, switch-init, switch-tag, switch-conditional, switch-fallthrough; " +
			"[x] printTry (catch with and without variable): try-catch, stmt-kinds-misc; " +
			"[x] printPrint (one and several args; the trailing-comma form joins the next line in the tokenizer and is not used): print-statement, stmt-kinds-misc; " +
			"[x] printDirective (@assert with expression): stmt-kinds-misc and every corpus test file (@test, @assert, @fail ...); " +
			"[x] printImport/printImportSpec (grouped, single, alias): every program (grouped or single), import-alias-decl; " +
			"[x] printConst/printConstSpec (single, grouped, typed/untyped): const-decls; [x] printVar/printVarSpec (single, grouped, names+type+values): var-decls; " +
			"[x] printFuncDecl (receiver value/pointer, params, results, named result): struct-type-literal, func-multi-return, variadic; " +
			"[x] printStmt cases AssignStmt/IncDecStmt (assignment-forms), SendStmt (goroutine-channel, stmt-kinds-misc), ReturnStmt (return-forms), Break/Continue with label + LabeledStmt (labeled-loops), DeferStmt (defer), GoStmt (goroutine-channel, waitgroup), PanicStmt + ThrowStmt (stmt-kinds-misc), TypeDecl (type-alias-decl, struct-type-literal, interface-assert), PackageDecl (every program), ExprStmt (every program); " +
			"[ ] CallStmt (`call f()`) and ExitStmt (`exit n`): not in a directed snippet (exit ends the host-less run; `call` is covered only where corpus files use it)")
	}

	// (a) probes: every snippet alone, undecorated, full oracle (first shard only).
	for _, s := range snippetLib {
		if shard != 0 {
			break
		}

		p := compose([]Snippet{s})
		evalCase("gen:probe:"+s.Name, []Snippet{s}, p.Src, nil, nil, true)
		r.Probe("snippet:" + s.Name)
	}

	// (a') probes of the comment mechanisms (hand-written, deterministic)
	for _, cp := range commentProbes {
		if shard != 0 {
			break
		}

		o := observe(cp.Src, Auto, RunProgram, env)
		r.Eval(vh.Hash(cp.Src), o.Accepted)
		r.Probe("comment:" + cp.Name)

		if !o.Accepted {
			t.Fatalf("harness error: the compiler rejects probe %s", cp.Name)
		}

		r.Count("sources.accepted", 1)
		r.Count("probes.comment", 1)

		name := cp.Name
		reportFindings(r, o, cp.Src, Auto, RunProgram, env, "", nil, nil, nil, func(Finding) string { return "probe:" + name }, "gen:probe:"+cp.Name, nil)
	}

	// (a'') probes of string literals whose value holds invisible or control characters
	for _, sp := range stringProbes() {
		if shard != 0 {
			break
		}

		src := stringProbeProgram(sp.Lit)
		o := observe(src, Auto, RunProgram, env)
		r.Eval(vh.Hash(src), o.Accepted)
		r.Probe("string:" + sp.Name)

		if !o.Accepted {
			r.Count("probes.string_rejected_by_compiler", 1)

			continue
		}

		r.Count("sources.accepted", 1)
		r.Count("probes.string", 1)

		name := sp.Name
		reportFindings(r, o, src, Auto, RunProgram, env, "", nil, nil, nil, func(Finding) string { return "probe:string:" + name }, "gen:probe:string:"+sp.Name, nil)
	}

	// (b) single-comment sweep over every snippet: all slots for the formatter
	// clauses; behaviour on a PRNG-chosen share.
	rngB := vh.Rand("c05-sweep" + sfx)
	perSnippet := vh.N(60, 1200)
	behShare := vh.N(8, 4) // 1 in behShare cases gets the full oracle

	classesSeen := map[string]bool{}

	for si, s := range snippetLib {
		if avoidSn[s.Name] || si%shards != shard {
			continue
		}

		p := compose([]Snippet{s})
		sl := avoid.filterSlots(slots(p.Src))
		idx := rngB.Perm(len(sl))

		if len(idx) > perSnippet {
			idx = idx[:perSnippet]
		}

		for _, i := range idx {
			classesSeen[sl[i].Class()] = true
			evalCase("gen:single:"+s.Name, []Snippet{s}, p.Src, sl, []int{i}, rngB.Intn(behShare) == 0)
		}
	}

	if shards > 1 {
		r.Count("sweep.slot_classes_seen_summed_over_shards", int64(len(classesSeen)))
	} else {
		r.Count("sweep.slot_classes_seen", int64(len(classesSeen)))
	}

	// (c) random compositions, heavy decoration.
	rng := vh.Rand("c05-random" + sfx)
	n := share(vh.N(350, 12000))

	var pool []Snippet

	for _, s := range snippetLib {
		if !avoidSn[s.Name] {
			pool = append(pool, s)
		}
	}

	for i := 0; i < n; i++ {
		k := 2 + rng.Intn(5)
		sn := make([]Snippet, 0, k+1)

		for j := 0; j < k; j++ {
			sn = append(sn, pool[rng.Intn(len(pool))])
		}

		if rng.Intn(2) == 0 {
			sn = append(sn, exprSnippet(rng, 3+rng.Intn(6)))
		}

		p := compose(sn)
		sl := slots(p.Src)

		// candidate slots: not predicted to hit a known mechanism
		cand := avoid.filterSlots(sl)

		density := 0.10 + rng.Float64()*0.5
		if i%10 == 0 {
			density = 0 // undecorated composition
		}

		// distinct offsets
		offs := map[int]bool{}
		for _, s := range cand {
			offs[s.Off] = true
		}

		pick := pickSlots(rng, cand, int(density*float64(len(offs))))
		evalCase("gen:random", sn, p.Src, cand, pick, true)
	}

	// (d) programs of the shared generator, when present, through the same decorator.
	for gi, g := range extraSources {
		rg := vh.Rand(fmt.Sprintf("c05-langgen-%d%s", gi, sfx))
		m := share(vh.N(150, 4000))

		for i, attempts := 0, 0; i < m && attempts < 6*m; attempts++ {
			src, feats, ok := g(rg)
			if !ok {
				continue
			}

			if why := avoid.sourceAvoided(src); why != "" {
				r.Count("langgen.avoided."+why, 1)

				continue
			}

			i++

			cand := avoid.filterSlots(slots(src))

			offs := map[int]bool{}
			for _, s := range cand {
				offs[s.Off] = true
			}

			// These programs are large: at this density some comment nearly always lands
			// where the compiler does not take one. Back off (halve the set) until the
			// compiler accepts the decorated program; the bare program is the last resort.
			pick := pickSlots(rg, cand, int((0.05+rg.Float64()*0.4)*float64(len(offs))))
			S, inserted := decorate(src, cand, pick, "zc")

			for len(pick) > 0 {
				if e, _ := compileProgram(S); e == "" {
					break
				}

				r.Count("langgen.decoration_backoffs", 1)

				pick = pick[:len(pick)/2]
				S, inserted = decorate(src, cand, pick, "zc")
			}

			o := observe(S, Auto, RunProgram, env)
			r.Eval(vh.Hash(S), o.Accepted)

			if !o.Accepted {
				r.Count("out_of_scope.compiler_rejects_source", 1)
				continue
			}

			r.Count("sources.accepted", 1)
			r.Count("langgen.programs", 1)
			countComments(r, S, inserted)

			if len(o.Findings) > 0 {
				reportFindings(r, o, S, Auto, RunProgram, env, src, cand, pick, inserted,
					func(f Finding) string { return "langgen:" + joinClasses(append([]string{}, feats...)) }, "gen:langgen", feats)
			}
		}
	}

	if r.Counters["sources.accepted"] == 0 && shards == 1 {
		t.Fatal("observed nothing")
	}

	if err := r.Write(); err != nil {
		t.Fatal(err)
	}
}
