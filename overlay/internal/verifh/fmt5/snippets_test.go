package fmt5

// Program generator of the C05 monitor: a library of self-contained snippets (one
// named construct each), composed into complete programs, plus a random integer /
// boolean expression generator. Every snippet prints what it computes, so the
// behaviour of a program is its standard output. "$" in a snippet is replaced by a
// unique suffix so snippets can be combined freely.

import (
	"fmt"
	"math/rand"
	"sort"
	"strings"
)

// Snippet is one construct under test.
type Snippet struct {
	Name string // construct class (used in violation keys)
	Decl string // top-level declarations (may be empty)
	Body string // statements placed inside func main
}

var snippetLib = []Snippet{
	{Name: "for-range-composite-literal", Body: `
	for _, v$ := range []int{1, 2, 3} {
		fmt.Println("rcl", v$)
	}`},
	{Name: "for-range-map-literal", Body: `
	n$ := 0
	for k$, v$ := range map[string]int{"a": 1} {
		n$ += len(k$) + v$
	}
	fmt.Println("rml", n$)`},
	{Name: "for-range-named-type-literal", Decl: `
type Ints$ []int
`, Body: `
	for _, v$ := range Ints${4, 5} {
		fmt.Println("rnt", v$)
	}`},
	{Name: "for-range-struct-slice-literal", Decl: `
type Pr$ struct {
	x, y int
}
`, Body: `
	for _, p$ := range []Pr${{1, 2}, {3, 4}} {
		fmt.Println("rss", p$.x+p$.y)
	}`},
	{Name: "for-range-anonymous-struct-selector", Body: `
	for _, s$ := range struct{ a []int }{a: []int{7}}.a {
		fmt.Println("ras", s$)
	}`},
	{Name: "if-init-composite-literal", Body: `
	if v$ := []int{1, 2}; len(v$) > 1 {
		fmt.Println("iic", v$)
	}`},
	{Name: "switch-init-composite-literal", Body: `
	switch x$ := []int{1}; len(x$) {
	case 1:
		fmt.Println("sic one")
	}`},
	{Name: "header-literal-in-parens", Decl: `
type Pq$ struct {
	x, y int
}
`, Body: `
	if p$ := (Pq${1, 2}); p$.x == 1 && len([]int{1}) == 1 {
		fmt.Println("hlp")
	}
	for i$ := 0; i$ < len([]int{1, 2}); i$++ {
		fmt.Print(i$)
	}
	switch len(map[string]int{"a": 1}) {
	case 1:
		fmt.Println("m1")
	}`},
	{Name: "double-unary-minus", Body: `
	du$ := 3
	dv$ := - -du$
	fmt.Println("dum", dv$, 4 - -du$, - - -du$)`},
	// ---- init clauses in every position that takes one: the initializer calls a
	// function that prints a marker, and its name also exists in the enclosing scope,
	// so dropping or moving the init changes the output.
	{Name: "init-clause-first-if", Decl: `
func mark$(tag string, v int) int {
	fmt.Println("init", tag, v)

	return v
}
`, Body: `
	v$ := 1
	if v$ := mark$("if", 20); v$ > 10 {
		fmt.Println("then", v$)
	} else {
		fmt.Println("else", v$)
	}
	fmt.Println("outer", v$)`},
	{Name: "init-clause-else-if-2-arms", Decl: `
func mark$(tag string, v int) int {
	fmt.Println("init", tag, v)

	return v
}
`, Body: `
	w$ := 1
	if w$ > 5 {
		fmt.Println("a0")
	} else if w$ := mark$("e1", 30); w$ > 10 {
		fmt.Println("a1", w$)
	} else {
		fmt.Println("else", w$)
	}
	fmt.Println("outer", w$)`},
	{Name: "init-clause-else-if-4-arms", Decl: `
func mark$(tag string, v int) int {
	fmt.Println("init", tag, v)

	return v
}
`, Body: `
	w$ := 1
	if w$ := mark$("e0", 2); w$ > 5 {
		fmt.Println("a0")
	} else if w$ := mark$("e1", 3); w$ > 10 {
		fmt.Println("a1", w$)
	} else if w$ := mark$("e2", 7); w$ > 10 {
		fmt.Println("a2", w$)
	} else if w$ := mark$("e3", 40); w$ > 10 {
		fmt.Println("a3", w$)
	} else if w$ := mark$("e4", 50); w$ > 10 {
		fmt.Println("a4", w$)
	} else {
		fmt.Println("else", w$)
	}
	fmt.Println("outer", w$)`},
	{Name: "init-clause-else-if-falls-to-else", Decl: `
func mark$(tag string, v int) int {
	fmt.Println("init", tag, v)

	return v
}
`, Body: `
	u$ := 99
	if u$ < 0 {
		fmt.Println("neg")
	} else if u$ := mark$("f1", 1); u$ > 10 {
		fmt.Println("b1", u$)
	} else if u$ := mark$("f2", 2); u$ > 10 {
		fmt.Println("b2", u$)
	} else {
		fmt.Println("else sees outer", u$)
	}`},
	{Name: "init-clause-switch-tag", Decl: `
func mark$(tag string, v int) int {
	fmt.Println("init", tag, v)

	return v
}
`, Body: `
	s$ := 9
	switch s$ := mark$("sw", 2); s$ {
	case 2:
		fmt.Println("two", s$)
	case 9:
		fmt.Println("nine", s$)
	default:
		fmt.Println("dflt", s$)
	}
	fmt.Println("outer", s$)`},
	{Name: "init-clause-for-three", Decl: `
func mark$(tag string, v int) int {
	fmt.Println("init", tag, v)

	return v
}
`, Body: `
	i$ := 100
	for i$ := mark$("for", 0); i$ < mark$("cond", 2); i$++ {
		fmt.Println("body", i$)
	}
	fmt.Println("outer", i$)`},
	// ---- statement kinds of print_stmt.go not exercised elsewhere
	{Name: "stmt-kinds-misc", Body: `
	try {
		throw "thrown$"
	} catch (e$) {
		fmt.Println("caught", e$)
	}
	try {
		panic("pan$")
	} catch (e$) {
		fmt.Println("caught", e$)
	}
	print "two", "args"
	sc$ := make(chan, 1)
	sc$ <- "sent"
	fmt.Println(<-sc$)
	@assert 1 + 1 == 2`},
	{Name: "import-alias-decl", Decl: `
import str$ "strings"
`, Body: `
	fmt.Println("ia", str$.ToUpper("x"))`},
	{Name: "for-range-variable", Body: `
	xs$ := []string{"a", "b", "c"}
	for i$, s$ := range xs$ {
		fmt.Println("rv", i$, s$)
	}
	for i$ := range xs$ {
		fmt.Print(i$, ";")
	}
	fmt.Println()`},
	{Name: "for-range-int", Body: `
	for i$ := range 3 {
		fmt.Print("ri", i$, " ")
	}
	fmt.Println()`},
	{Name: "for-range-call", Body: `
	for i$, c$ := range strings.Split("x,y,z", ",") {
		fmt.Println("rc", i$, c$)
	}`},
	{Name: "for-three-clause", Body: `
	t$ := 0
	for i$ := 0; i$ < 5; i$++ {
		t$ += i$ * 2
	}
	for j$ := 10; j$ > 0; j$ -= 3 {
		t$ = t$ + j$
	}
	fmt.Println("f3", t$)`},
	{Name: "for-conditional", Body: `
	c$ := 0
	for c$ < 4 {
		c$++
	}
	fmt.Println("fc", c$)`},
	{Name: "for-infinite-break", Body: `
	q$ := 0
	for {
		q$ += 3
		if q$ > 10 {
			break
		}
	}
	fmt.Println("fi", q$)`},
	{Name: "labeled-loops", Body: `
outer$:
	for i$ := 0; i$ < 3; i$++ {
		for j$ := 0; j$ < 3; j$++ {
			if j$ == 2 {
				continue outer$
			}
			if i$ == 2 {
				break outer$
			}
			fmt.Print(i$, j$, " ")
		}
	}
	fmt.Println("ll")`},
	{Name: "if-else-chain", Body: `
	a$ := 7
	if a$ > 10 {
		fmt.Println("big")
	} else if a$ > 5 {
		fmt.Println("mid")
	} else {
		fmt.Println("small")
	}
	if a$%2 == 1 { fmt.Println("odd") }`},
	{Name: "if-init", Body: `
	m$ := map[string]int{"k": 4}
	if v$, ok$ := m$["k"]; ok$ && v$ > 2 {
		fmt.Println("ii", v$)
	}
	if w$ := len(m$); w$ == 0 {
		fmt.Println("empty")
	} else {
		fmt.Println("ii2", w$)
	}`},
	{Name: "switch-tag", Body: `
	ds$ := []int{1, 2, 6, 9}
	for _, d$ := range ds$ {
		switch d$ {
		case 1, 2:
			fmt.Println("low", d$)
		case 6:
			fmt.Println("six")
		default:
			fmt.Println("other", d$)
		}
	}`},
	{Name: "switch-init", Body: `
	b$ := 3
	switch t$ := b$ * 2; t$ {
	case 6:
		fmt.Println("si six")
	default:
		fmt.Println("si other")
	}`},
	{Name: "switch-fallthrough", Body: `
	g$ := 2
	switch g$ {
	case 2:
		fmt.Println("two")
		fallthrough
	case 3:
		fmt.Println("three")
	default:
		fmt.Println("dflt")
	}`},
	{Name: "switch-conditional", Body: `
	h$ := 15
	switch {
	case h$ > 10 && h$ < 20:
		fmt.Println("teens")
	case h$ > 1:
		fmt.Println("gt1")
	default:
		fmt.Println("none")
	}`},
	{Name: "struct-type-literal", Decl: `
type Point$ struct {
	x, y int
	name string
}

func (p Point$) Sum() int {
	return p.x + p.y
}

func (p *Point$) Move(dx int) {
	p.x = p.x + dx
}
`, Body: `
	p$ := Point${x: 1, y: 2, name: "pt"}
	q$ := &Point${
		x:    10,
		y:    20,
		name: "far",
	}
	q$.Move(5)
	fmt.Println("st", p$.Sum(), q$.Sum(), p$.name, (*q$).name)`},
	{Name: "struct-embedded", Decl: `
type Base$ struct {
	id int
}

type Derived$ struct {
	Base$
	tag string
}
`, Body: `
	d$ := Derived${Base$: Base${id: 7}, tag: "t"}
	fmt.Println("se", d$.id, d$.tag)`},
	{Name: "anonymous-struct", Body: `
	an$ := struct {
		a int
		b string
	}{a: 1, b: "two"}
	fmt.Println("as", an$.a, an$.b)`},
	{Name: "nested-composite", Body: `
	nm$ := map[string][]int{"a": {1, 2}, "b": []int{3}}
	ng$ := [][]int{{1}, {2, 3}, {}}
	fmt.Println("nc", len(nm$), nm$["a"][1], len(ng$[1]), len(ng$[2]))`},
	{Name: "multiline-literal", Body: `
	ml$ := []string{
		"one",
		"two",
		"three",
	}
	mm$ := map[int]string{
		1: "a",
		2: "b",
	}
	fmt.Println("ml", len(ml$), ml$[2], mm$[2])`},
	{Name: "slices", Body: `
	sl$ := []int{1, 2, 3, 4, 5}
	fmt.Println("sl", sl$[1:], sl$[:2], sl$[1:3], sl$[len(sl$)-1])
	sl$ = append(sl$, 6, 7)
	sl$[0] = 9
	fmt.Println(len(sl$), sl$[0])`},
	{Name: "map-ops", Body: `
	mo$ := map[string]int{}
	mo$["x"] = 1
	mo$["y"] = 2
	delete(mo$, "x")
	_, has$ := mo$["x"]
	fmt.Println("mo", len(mo$), has$, mo$["y"])`},
	{Name: "closure", Body: `
	ctr$ := 0
	inc$ := func(n int) int {
		ctr$ += n
		return ctr$
	}
	inc$(2)
	fmt.Println("cl", inc$(3))
	func() {
		fmt.Println("iife")
	}()
	r$ := func(a, b int) int { return a * b }(3, 4)
	fmt.Println(r$)`},
	{Name: "func-multi-return", Decl: `
func divmod$(a, b int) (int, int) {
	return a / b, a % b
}

func named$(s string, n int) string {
	out := ""
	for i := 0; i < n; i++ {
		out = out + s
	}

	return out
}
`, Body: `
	dq$, dr$ := divmod$(17, 5)
	fmt.Println("mr", dq$, dr$, named$("ab", 2))`},
	{Name: "variadic", Decl: `
func total$(label string, nums ...int) int {
	t := 0
	for _, n := range nums {
		t += n
	}
	fmt.Println(label, len(nums))

	return t
}
`, Body: `
	va$ := []int{1, 2, 3}
	fmt.Println("va", total$("x", 1, 2), total$("y", va$...), total$("z"))`},
	{Name: "recursion", Decl: `
func fact$(n int) int {
	if n <= 1 {
		return 1
	}

	return n * fact$(n-1)
}
`, Body: `
	fmt.Println("re", fact$(5))`},
	{Name: "defer", Decl: `
func deferred$() {
	defer fmt.Println("d1")
	defer func() {
		fmt.Println("d2")
	}()
	fmt.Println("body")
}
`, Body: `
	deferred$()`},
	{Name: "try-catch", Body: `
	try {
		z$ := 0
		fmt.Println(10 / z$)
	} catch (e$) {
		fmt.Println("caught", e$)
	}
	try {
		fmt.Println("fine")
	} catch {
		fmt.Println("never")
	}`},
	{Name: "var-decls", Decl: `
var g$ int = 4

var (
	ga$ = "s"
	gb$ float64
)
`, Body: `
	var va$ int
	var vb$, vc$ string = "p", "q"
	var vd$ = []int{1}
	var ve$ float64 = 2.5
	fmt.Println("vd", g$, ga$, gb$, va$, vb$, vc$, vd$, ve$)`},
	{Name: "const-decls", Decl: `
const C$ = 10

const (
	CA$ = "x"
	CB$ = 2.5
)
`, Body: `
	const local$ = 3
	fmt.Println("cd", C$, CA$, CB$, local$)`},
	{Name: "assignment-forms", Body: `
	af$, ag$ := 1, 2
	af$, ag$ = ag$, af$
	af$ += 5
	ag$ -= 1
	af$ *= 2
	af$ /= 3
	af$++
	ag$--
	fmt.Println("af", af$, ag$)`},
	{Name: "operators", Body: `
	o$ := 13
	fmt.Println("op", o$%5, o$<<2, o$>>1, o$&6, o$|16, o$^3, -o$, !(o$ > 3), o$ - -2, -(-o$))
	fmt.Println((o$+1)*2, o$+(1*2), (o$-3)-(2-1), o$-(3-2)-1, 100/(o$-3)/2, 100/((o$-3)/2))
	fmt.Println(o$ > 2 && o$ < 20 || o$ == 0, o$ > 2 && (o$ < 5 || o$ == 13), !(o$ == 13) || true)`},
	{Name: "literals", Body: `
	fmt.Println("li", 0x1F, 0o17, 1e3, 2.5e-1, 1_000, 'a', 3.0, .5)
	ls$ := "a\tb\\n\"q\" é \x41"
	lr$ := ` + "`raw \"q\" \\n`" + `
	fmt.Println(ls$, lr$, len(ls$), len(lr$), "", "%d%%")`},
	{Name: "func-literal-argument-multiline", Decl: `
func applyTo$(f func(int) int, v int) int {
	return f(v)
}
`, Body: `
	fa$ := applyTo$(func(q int) int {
		return q * q
	}, 21)
	func() {
		fmt.Println("fla iife", fa$)
	}()`},
	{Name: "string-literals-special", Body: "\n\tsp$ := []string{\"a\\u00a0b\", \"a\\u200bb\", \"e\\u0301\", \"a\\x7fb\", \"a\\vb\", \"a\\ab\", \"a\\rb\", \"a\\x00b\", \"\\U0001F469\\u200d\\U0001F4BB\", \"a\u00a0b\", \"a\u200bb\", `raw\u00a0\u200b`}\n\tfor _, s$ := range sp$ {\n\t\tfmt.Printf(\"%d %q\\n\", len(s$), s$)\n\t}"},
	{Name: "raw-string-multiline", Body: `
	rs$ := ` + "`line one\n  line two\nline three`" + `
	fmt.Println("rs", len(rs$), rs$)`},
	{Name: "pointers", Body: `
	pv$ := 5
	pp$ := &pv$
	*pp$ = 8
	fmt.Println("pt", pv$, *pp$)`},
	{Name: "type-conversion", Body: `
	tc$ := 3.9
	ti$ := int(tc$)
	ts$ := string(65)
	tf$ := float64(ti$) / 2
	fmt.Println("tc", ti$, ts$, tf$, int32(7), []byte("hi"))`},
	{Name: "interface-assert", Decl: `
type Shape$ interface {
	Area() int
	Name() string
}

type Sq$ struct {
	side int
}

func (s Sq$) Area() int {
	return s.side * s.side
}

func (s Sq$) Name() string {
	return "sq"
}
`, Body: `
	var sh$ Shape$
	sh$ = Sq${side: 3}
	fmt.Println("ia", sh$.Area(), sh$.Name())
	var any$ interface{} = 5
	fmt.Println(any$.(int))`},
	{Name: "goroutine-channel", Body: `
	ch$ := make(chan int, 3)
	go func() {
		ch$ <- 1
		ch$ <- 2
	}()
	fmt.Println("gc", <-ch$ + <-ch$)`},
	{Name: "waitgroup", Body: `
	var wg$ sync.WaitGroup
	res$ := make(chan int, 2)
	for i$ := 0; i$ < 2; i$++ {
		wg$.Add(1)
		go func(n int) {
			defer wg$.Done()
			res$ <- n * n
		}(i$ + 1)
	}
	wg$.Wait()
	fmt.Println("wg", <-res$ + <-res$)`},
	{Name: "nested-blocks", Body: `
	nb$ := 1
	{
		nb$ := 2
		{
			nb$ = nb$ + 5
		}
		fmt.Println("inner", nb$)
	}
	fmt.Println("outer", nb$)`},
	{Name: "string-ops", Body: `
	so$ := "hello, world"
	fmt.Println("so", strings.ToUpper(so$), strings.Contains(so$, "lo,"), so$[1:4], len(so$), so$+"!")
	fmt.Printf("%s|%5d|%-4s|%v\n", so$, 42, "ab", []int{1})`},
	{Name: "func-type-param", Decl: `
func apply$(f func(int) int, v int) int {
	return f(v)
}

func makeAdder$(n int) func(int) int {
	return func(x int) int {
		return x + n
	}
}
`, Body: `
	fmt.Println("ft", apply$(makeAdder$(3), 4), apply$(func(q int) int { return q * q }, 5))`},
	{Name: "type-alias-decl", Decl: `
type Celsius$ float64

type Names$ []string

type Lookup$ map[string]int
`, Body: `
	var tc$ Celsius$ = 36.6
	tn$ := Names${"a", "b"}
	tl$ := Lookup${"k": 1}
	fmt.Println("ta", tc$, len(tn$), tl$["k"])`},
	{Name: "compact-one-liners", Body: `
	oa$ := 1; ob$ := 2
	if oa$ < ob$ { oa$, ob$ = ob$, oa$ }
	for k$ := 0; k$ < 2; k$++ { oa$ += k$ }
	fmt.Println("ol", oa$, ob$)`},
	{Name: "odd-spacing", Body: `
	os$:=[]int{ 1,2 ,3 }
	ot$  :=  os$[ 0 ]+os$[1]*( os$[2]-1 )
	if(ot$>2){fmt.Println( "osp",ot$ )}
	fmt.Println(len( os$ ),ot$)`},
	{Name: "return-forms", Decl: `
func early$(n int) string {
	if n < 0 {
		return "neg"
	}
	switch n {
	case 0:
		return "zero"
	}
	for i := 0; i < n; i++ {
		if i == 2 {
			return "two+"
		}
	}

	return "small"
}

func noResult$(n int) {
	if n > 0 {
		fmt.Println("pos")

		return
	}
	fmt.Println("nonpos")
}
`, Body: `
	fmt.Println("rf", early$(-1), early$(0), early$(1), early$(5))
	noResult$(1)
	noResult$(0)`},
	{Name: "print-statement", Body: `
	print "ps ", 1 + 2
	print "x"`},
	{Name: "errors", Body: `
	er$ := errors.New("boom")
	if er$ != nil {
		fmt.Println("er", er$)
	}
	var en$ error
	fmt.Println(en$ == nil)`},
	{Name: "sort-strconv", Body: `
	ss$ := []int{3, 1, 2}
	sort.Ints(ss$)
	sn$, _ := strconv.Atoi("42")
	fmt.Println("ss", ss$, sn$+1, strconv.Itoa(7)+"!")`},
	{Name: "complex-conditions", Body: `
	cc$ := []int{4, 8, 15}
	if len(cc$) > 2 && (cc$[0]+cc$[1] == 12 || cc$[2] < 0) && !(cc$[0] == 0) {
		fmt.Println("cc yes")
	}
	for i$ := 0; i$ < len(cc$) && cc$[i$] < 10; i$++ {
		fmt.Print(cc$[i$], " ")
	}
	fmt.Println()`},
	{Name: "struct-slice-of-struct", Decl: `
type Item$ struct {
	name string
	qty  int
}
`, Body: `
	items$ := []Item${{name: "a", qty: 1}, {name: "b", qty: 2}, Item${name: "c", qty: 3}}
	sum$ := 0
	for _, it$ := range items$ {
		sum$ += it$.qty
	}
	fmt.Println("ss", sum$, items$[1].name)`},
	{Name: "func-literal-in-literal", Body: `
	fl$ := map[string]func(int) int{
		"dbl": func(n int) int { return n * 2 },
		"neg": func(n int) int {
			return -n
		},
	}
	fmt.Println("fl", fl$["dbl"](4), fl$["neg"](4))`},
	{Name: "method-chain", Body: `
	mc$ := strings.ToUpper(strings.TrimSpace("  abc  ")) + strings.Repeat("-", 2)
	fmt.Println("mc", mc$, len(strings.Split(mc$, "-")))`},
	{Name: "index-expressions", Body: `
	ix$ := [][]int{{1, 2}, {3, 4}}
	im$ := map[string]map[string]int{"a": {"b": 5}}
	ix$[1][0] = ix$[0][1] + im$["a"]["b"]
	fmt.Println("ix", ix$[1][0], ix$[len(ix$)-1][1])`},
}

var snippetImports = []string{"errors", "fmt", "sort", "strconv", "strings", "sync"}

// snippetByName returns the library entry.
func snippetByName(name string) (Snippet, bool) {
	for _, s := range snippetLib {
		if s.Name == name {
			return s, true
		}
	}

	return Snippet{}, false
}

// exprSnippet builds a snippet that evaluates n random integer/boolean expressions
// with parentheses exactly where the tree needs them (and sometimes redundantly).
func exprSnippet(rng *rand.Rand, n int) Snippet {
	var b strings.Builder

	b.WriteString("\n\tea$, eb$, ec$ := 7, 3, 2\n")

	for i := 0; i < n; i++ {
		if rng.Intn(3) == 0 {
			fmt.Fprintf(&b, "\tfmt.Println(\"ex%d\", %s)\n", i, boolExpr(rng, 3))
		} else {
			fmt.Fprintf(&b, "\tfmt.Println(\"ex%d\", %s)\n", i, intExpr(rng, 3))
		}
	}

	b.WriteString("\t_ = ea$ + eb$ + ec$")

	return Snippet{Name: "expression", Body: b.String()}
}

var intOps = []struct {
	op   string
	prec int
}{{"+", 4}, {"-", 4}, {"*", 5}, {"|", 4}, {"&", 5}, {"^", 4}, {"<<", 5}, {"%", 5}}

func intAtom(rng *rand.Rand) string {
	switch rng.Intn(5) {
	case 0:
		return "ea$"
	case 1:
		return "eb$"
	case 2:
		return "ec$"
	default:
		return fmt.Sprint(rng.Intn(9) + 1)
	}
}

// intExpr renders a random expression; every binary sub-expression is
// parenthesised unless it is the left operand of an operator of lower-or-equal
// precedence ... the generator does not rely on either grammar's precedence
// beyond Go's, which docs/LANGUAGE.md adopts.
func intExpr(rng *rand.Rand, depth int) string {
	s, _ := intExprP(rng, depth)
	return s
}

func intExprP(rng *rand.Rand, depth int) (string, int) {
	if depth == 0 || rng.Intn(4) == 0 {
		a := intAtom(rng)
		switch rng.Intn(8) {
		case 0:
			return "-" + a, 6
		case 1:
			return "(" + a + ")", 7
		case 2:
			return "-(-" + a + ")", 6
		}

		return a, 7
	}

	o := intOps[rng.Intn(len(intOps))]
	l, lp := intExprP(rng, depth-1)
	r, rp := intExprP(rng, depth-1)

	if o.op == "<<" {
		r, rp = fmt.Sprint(rng.Intn(3)+1), 7
	}

	if o.op == "%" {
		r, rp = fmt.Sprint(rng.Intn(5)+2), 7
	}

	// In Ego "^" is exponentiation, computed by a loop inside ONE instruction (the
	// step budget cannot interrupt it): the exponent is a small literal and the base
	// a plain operand, never a sub-expression that may have grown large.
	if o.op == "^" {
		l, lp = intAtom(rng), 7
		r, rp = fmt.Sprint(rng.Intn(3)+1), 7
	}

	if lp < o.prec || rng.Intn(6) == 0 {
		l = "(" + l + ")"
	}

	if rp <= o.prec || rng.Intn(6) == 0 {
		r = "(" + r + ")"
	}

	sep := " "
	if rng.Intn(3) == 0 {
		sep = ""
		if strings.HasPrefix(r, "-") || strings.HasPrefix(r, "&") {
			sep = " "
		}
	}

	return l + sep + o.op + sep + r, o.prec
}

func boolExpr(rng *rand.Rand, depth int) string {
	s, _ := boolExprP(rng, depth)
	return s
}

func boolExprP(rng *rand.Rand, depth int) (string, int) {
	if depth == 0 || rng.Intn(3) == 0 {
		cmp := []string{"<", ">", "==", "!=", "<=", ">="}[rng.Intn(6)]
		l, lp := intExprP(rng, 1)
		r, rp := intExprP(rng, 1)

		if lp <= 3 {
			l = "(" + l + ")"
		}

		if rp <= 3 {
			r = "(" + r + ")"
		}

		return l + " " + cmp + " " + r, 3
	}

	switch rng.Intn(3) {
	case 0:
		x, _ := boolExprP(rng, depth-1)
		return "!(" + x + ")", 6
	case 1:
		l, lp := boolExprP(rng, depth-1)
		r, rp := boolExprP(rng, depth-1)

		if lp < 2 {
			l = "(" + l + ")"
		}

		if rp <= 2 {
			r = "(" + r + ")"
		}

		return l + " && " + r, 2
	default:
		l, lp := boolExprP(rng, depth-1)
		r, rp := boolExprP(rng, depth-1)

		if lp < 1 {
			l = "(" + l + ")"
		}

		if rp <= 1 {
			r = "(" + r + ")"
		}

		return l + " || " + r, 1
	}
}

// GenProgram is one generated complete program.
type GenProgram struct {
	Names []string // snippet names, in order
	Src   string
}

// compose renders snippets as one program. Each snippet gets its own suffix.
func compose(sn []Snippet) GenProgram {
	var decl, body strings.Builder

	names := make([]string, 0, len(sn))
	used := map[string]bool{"fmt": true}

	for i, s := range sn {
		suf := fmt.Sprintf("_%d", i)
		d := strings.ReplaceAll(s.Decl, "$", suf)
		b := strings.ReplaceAll(s.Body, "$", suf)

		for _, imp := range snippetImports {
			if strings.Contains(d, imp+".") || strings.Contains(b, imp+".") {
				used[imp] = true
			}
		}

		decl.WriteString(d)
		body.WriteString(strings.TrimRight(b, "\n") + "\n")
		names = append(names, s.Name)
	}

	imps := make([]string, 0, len(used))
	for k := range used {
		imps = append(imps, k)
	}

	sort.Strings(imps)

	var src strings.Builder

	src.WriteString("package main\n\n")

	if len(imps) == 1 {
		src.WriteString("import \"fmt\"\n")
	} else {
		src.WriteString("import (\n")

		for _, i := range imps {
			src.WriteString("\t\"" + i + "\"\n")
		}

		src.WriteString(")\n")
	}

	src.WriteString(decl.String())
	src.WriteString("\nfunc main() {")
	src.WriteString(strings.TrimRight(body.String(), "\n"))
	src.WriteString("\n}\n")

	return GenProgram{Names: names, Src: src.String()}
}
