package fmt5

// Shared plumbing of the C05 monitor: the formatter called exactly as
// internal/commands/fmt.go does, comment capture through the tokenizer's own side
// list, and two in-process runners (run mode via egorun, test mode as TestAction).

import (
	"fmt"
	"os"
	"path/filepath"
	"regexp"
	"runtime/debug"
	"sort"
	"strings"
	"sync"
	"sync/atomic"

	"github.com/tucats/ego/internal/builtins"
	"github.com/tucats/ego/internal/cli/settings"
	"github.com/tucats/ego/internal/defs"
	"github.com/tucats/ego/internal/errors"
	"github.com/tucats/ego/internal/language/bytecode"
	"github.com/tucats/ego/internal/language/compiler"
	"github.com/tucats/ego/internal/language/data"
	"github.com/tucats/ego/internal/language/parse"
	"github.com/tucats/ego/internal/language/parse/ast"
	"github.com/tucats/ego/internal/language/parse/format"
	"github.com/tucats/ego/internal/language/symbols"
	"github.com/tucats/ego/internal/language/tokenizer"
	"github.com/tucats/ego/internal/runtime/profile"
	"github.com/tucats/ego/internal/verifh/egorun"
)

// Mode mirrors the three parse selections of `ego fmt` (parseSource in fmt.go).
type Mode int

const (
	Auto     Mode = iota // no flag: program first, then fragment (parse.ParseAuto)
	Fragment             // --fragment
	Program              // --program
)

func (m Mode) String() string { return [...]string{"auto", "fragment", "program"}[m] }

// cliFormat is renderSource of internal/commands/fmt.go with dumpAST=false and
// default options: parseSource(mode) then format.FileWithOptions. A Go panic in the
// formatter is returned as an error text starting with "PANIC:".
func cliFormat(src string, mode Mode) (out string, err error) {
	defer func() {
		if r := recover(); r != nil {
			err = fmt.Errorf("PANIC: %v\n%s", r, debug.Stack())
		}
	}()

	var file *ast.File

	switch mode {
	case Fragment:
		file, err = parse.ParseStatements(src)
	case Program:
		file, err = parse.ParseProgram(src)
	default:
		file, err = parse.ParseAuto(src)
	}

	if err != nil {
		return "", err
	}

	return format.FileWithOptions(file, format.Options{})
}

var wsRun = regexp.MustCompile(`\s+`)

// normComment is "comment text modulo whitespace": every run of white space
// (including the re-indented interior line breaks of a block comment) is one blank.
func normComment(s string) string {
	return strings.TrimSpace(wsRun.ReplaceAllString(s, " "))
}

// tokComments returns the comments the tokenizer itself captured (Tokenizer.Comments,
// the same list the formatter is given), whitespace-normalised, in source order.
func tokComments(src string) []string {
	t := tokenizer.New(src, true)
	out := make([]string, 0, len(t.Comments))

	for _, c := range t.Comments {
		out = append(out, normComment(c.Text))
	}

	return out
}

// multisetDiff returns the elements of a missing from b and those b has in excess.
func multisetDiff(a, b []string) (missing, extra []string) {
	m := map[string]int{}
	for _, x := range a {
		m[x]++
	}

	for _, x := range b {
		m[x]--
	}

	keys := make([]string, 0, len(m))
	for k := range m {
		keys = append(keys, k)
	}

	sort.Strings(keys)

	for _, k := range keys {
		for n := m[k]; n > 0; n-- {
			missing = append(missing, k)
		}

		for n := m[k]; n < 0; n++ {
			extra = append(extra, k)
		}
	}

	return
}

var (
	lineRe    = regexp.MustCompile(`\bline \d+(:\d+)?`)
	atLineRe  = regexp.MustCompile(`\bat \d+:\d+`)
	elapsedRe = regexp.MustCompile(`\(\s*(PASS|FAIL)\s*\)\s*[0-9.]+\s*[a-zµ]*s?`)
)

// frameRe matches one line of a call-frame dump (bytecode.FormatFrames):
// "  at: <module>  <line>  (<table>)" / "from: <module>  <line>  (<table>)".
var frameRe = regexp.MustCompile(`(?m)^([ \t]*(?:at|from):[ \t]+\S.*?)[ \t]+\d+([ \t]+\([^\n]*\))?[ \t]*$`)

// frameNameRe matches the name ego gives a call frame, "<function>:<line>"
// (bytecode callframe.go: fmt.Sprintf("%s:%d", name, f.Line)), where it shows in a
// message: directly in front of "(line N)" or after "defer " (the name of a deferred
// function literal is "defer main:181"; inside a function literal it is "defer <anon>:183").
var (
	frameNameRe = regexp.MustCompile(`(<\w+>|\b[A-Za-z_][\w.$]*):\d+(\(line N)`)
	deferNameRe = regexp.MustCompile(`\b(defer (?:<\w+>|[A-Za-z_][\w.$]*)):\d+\b`)
)

// maskPos removes source positions from messages: "line 12", "line 12:7", the bare
// line-number column of a call-frame dump, and the line in a call frame's name.
func maskPos(s string) string {
	s = lineRe.ReplaceAllString(s, "line N")
	s = frameRe.ReplaceAllString(s, "$1 N$2")
	s = frameNameRe.ReplaceAllString(s, "$1:N$2")
	s = deferNameRe.ReplaceAllString(s, "$1:N")

	return s
}

// Behaviour of a complete program in run mode.
type Behaviour struct {
	Out     string
	Outcome string // ok / error / panic
	Err     string // masked message
	Compile bool   // the error is a compile error
}

// startsGoroutines reports that src contains a `go` statement. The order in which
// such a program's lines are printed is not determined by the program (examples/
// goroutine.ego prints "Waiting on a reply..." from main and "Sleeping in a distant
// land" from the goroutine in either order), so its output is compared as a multiset
// of lines. An ordering-only change of a concurrent program's output is therefore not
// detectable; everything else about the behaviour is.
func startsGoroutines(src string) bool {
	toks, _ := scan(src)

	for i, t := range toks {
		if t.kind == tkIdent && t.text == "go" && i+1 < len(toks) && (toks[i+1].kind == tkIdent || toks[i+1].text == "(") {
			return true
		}
	}

	return false
}

func sortedLines(s string) string {
	l := strings.Split(s, "\n")
	sort.Strings(l)

	return strings.Join(l, "\n")
}

// EqualFor compares two behaviours of the program src.
func (b Behaviour) EqualFor(src string, o Behaviour) bool {
	if b.Equal(o) {
		return true
	}

	if startsGoroutines(src) {
		return b.Outcome == o.Outcome && b.Err == o.Err && sortedLines(b.Out) == sortedLines(o.Out)
	}

	return false
}

func (b Behaviour) Equal(o Behaviour) bool {
	return b.Out == o.Out && b.Outcome == o.Outcome && b.Err == o.Err
}

func (b Behaviour) String() string {
	return fmt.Sprintf("outcome=%s err=%q out=%q", b.Outcome, b.Err, trunc(b.Out, 300))
}

func trunc(s string, n int) string {
	if len(s) <= n {
		return s
	}

	return s[:n] + "…"
}

// StepLimit is the logical instruction budget per run-mode execution (H1 hook).
const StepLimit = 3_000_000

// programStepLimit is the budget runProgram applies (the child runner lowers it in
// the quick tier).
var programStepLimit int64 = StepLimit

// runProgram executes src the way `ego run file` does (egorun), with language
// extensions on, a step budget, and positions masked. budget reports that the step
// budget stopped the run (then the behaviour is not comparable: inconclusive).
func runProgram(src string) (b Behaviour, budget bool) {
	settings.SetDefault(defs.RuntimeDeepScopeSetting, "false")

	bytecode.VerifStepLimit.Store(atomic.LoadInt64(&bytecode.InstructionsExecuted) + programStepLimit)
	before := bytecode.VerifBudgetHits.Load()

	r := egorun.Run(src, egorun.Config{Types: "dynamic", Opt: 0, SymAlloc: 32, Extensions: true, Sandbox: 1})

	bytecode.VerifStepLimit.Store(0)

	b = Behaviour{Out: maskPos(r.Out), Outcome: r.Outcome(), Err: maskPos(r.Err), Compile: r.CompileErr}
	if r.Panic != "" {
		b.Err = maskPos(strings.SplitN(r.Panic, "\n", 2)[0])
	}

	return b, bytecode.VerifBudgetHits.Load() != before
}

// ---------------------------------------------------------------------------
// test mode (internal/commands/test.go: TestAction) for one file
// ---------------------------------------------------------------------------

// TestRun is what one `ego test <file>` run shows.
type TestRun struct {
	CompileErr string   // whole-file compile error ("" if the compiler accepted the file)
	RunErr     string   // error that aborted the file outside any @test
	Names      []string // test descriptions in order of completion
	Verdicts   []string // PASS / FAIL per entry of Names
	Output     string   // everything printed, elapsed times and positions masked
	Panic      string
	Budget     bool // the step budget stopped the run: not comparable
	Passed     int  // ego's own _testcount after the run
	Failed     int  // ego's own _testfailcount after the run
	ErrLines   int  // "Error:" lines printed (a test failing at run time prints one, and no TEST line)
}

func (r TestRun) Vector() string {
	var b strings.Builder
	for i := range r.Names {
		fmt.Fprintf(&b, "%s=%s;", r.Names[i], r.Verdicts[i])
	}

	return b.String()
}

var (
	testInit sync.Once
	testLine = regexp.MustCompile(`^TEST: (.*?)\s*\((PASS|FAIL|OUTPUT)\)(.*)$`)
	durPadRe = regexp.MustCompile(`\s*\b([0-9]+(\.[0-9]+)?(ns|µs|us|ms|s|m|h))+\s*`)
)

// runTestFile compiles and runs one test file the way TestAction does for a single
// file argument: fresh "Unit Tests" symbol table, compiler in test mode and
// interactive, optimizer 0, extensions on, deep scope on, console output captured.
// Standard output (ui.Say -> fmt.Println) is redirected to a file in arena.
func runTestFile(src, name, arena string, compileOnly bool) (res TestRun) {
	egorun.Init()
	testInit.Do(func() {
		_ = profile.InitProfileDefaults(profile.AllDefaults)
	})

	settings.SetDefault(defs.OptimizerSetting, "0")
	settings.SetDefault(defs.ExtensionsEnabledSetting, defs.True)
	settings.SetDefault(defs.SandboxPathSetting, "")
	settings.SetDefault(defs.RuntimeDeepScopeSetting, "true")
	settings.SetDefault(defs.StaticTypesSetting, defs.Dynamic)
	symbols.RootSymbolTable.SetAlways(defs.ExtensionsVariable, true)
	symbols.RootSymbolTable.SetAlways("_testcount", 0)
	symbols.RootSymbolTable.SetAlways("_testfailcount", 0)
	symbols.RootSymbolTable.SetAlways(defs.TypeCheckingVariable, defs.NoTypeEnforcement)

	capPath := filepath.Join(arena, "stdout.cap")

	f, err := os.Create(capPath)
	if err != nil {
		res.Panic = "harness: " + err.Error()
		return res
	}

	saved := os.Stdout
	os.Stdout = f

	finish := func() {
		os.Stdout = saved
		_ = f.Close()
		b, _ := os.ReadFile(capPath)
		res.parse(string(b))
	}

	defer func() {
		if r := recover(); r != nil {
			res.Panic = fmt.Sprintf("%v", r)
			finish()
		}
	}()

	bytecode.VerifStepLimit.Store(atomic.LoadInt64(&bytecode.InstructionsExecuted) + 20*StepLimit)
	hits := bytecode.VerifBudgetHits.Load()
	defer func() {
		bytecode.VerifStepLimit.Store(0)
		res.Budget = bytecode.VerifBudgetHits.Load() != hits
	}()

	st := symbols.NewSymbolTable("Unit Tests").Shared(true)
	st.SetAlways(defs.ModeVariable, "test")
	st.SetAlways(defs.TypeCheckingVariable, defs.NoTypeEnforcement)

	t := tokenizer.New(src, true)
	comp := compiler.New(name).SetTestMode(true)

	compiler.AddStandard(st)
	_ = comp.AutoImport(true, st)

	for _, p := range compiler.GetAutoImportedPackages() {
		comp.DefineGlobalSymbol(p)
	}

	comp.SetInteractive(true)

	b, cerr := comp.Compile(name, t)
	if cerr != nil {
		res.CompileErr = maskPos(cerr.Error())
		finish()

		return res
	}

	if compileOnly {
		finish()

		return res
	}

	ctx := bytecode.NewContext(st, b)
	ctx.EnableConsoleOutput(false)

	rerr := ctx.Run()
	if errors.Equals(rerr, errors.ErrStop) {
		rerr = nil
	}

	if rerr != nil {
		res.RunErr = maskPos(rerr.Error())
	}

	if v, ok := symbols.RootSymbolTable.Get("_testcount"); ok {
		res.Passed, _ = data.Int(v)
	}

	if v, ok := symbols.RootSymbolTable.Get("_testfailcount"); ok {
		res.Failed, _ = data.Int(v)
	}

	finish()

	return res
}

func (r *TestRun) parse(out string) {
	var b strings.Builder

	for _, line := range strings.Split(out, "\n") {
		if m := testLine.FindStringSubmatch(line); m != nil {
			if m[2] != "OUTPUT" {
				r.Names = append(r.Names, m[1])
				r.Verdicts = append(r.Verdicts, m[2])
				// the tail holds the elapsed time (and for FAIL the message)
				// the elapsed time is right-aligned: its padding varies with its width
				line = "TEST: " + m[1] + " (" + m[2] + ")" + strings.TrimRight(durPadRe.ReplaceAllString(m[3], " T "), " ")
			}
		}

		if strings.HasPrefix(strings.TrimSpace(line), "Error:") {
			r.ErrLines++
		}

		b.WriteString(maskPos(line))
		b.WriteString("\n")
	}

	r.Output = b.String()
}

// compileProgram compiles src the way egorun.Run (and `ego run`) does, without
// running it: "" when the compiler accepts it, else the error text.
func compileProgram(src string) (errText string, _ bool) {
	egorun.Init()

	defer func() {
		if r := recover(); r != nil {
			errText = fmt.Sprintf("PANIC: %v", r)
		}
	}()

	settings.SetDefault(defs.RuntimeDeepScopeSetting, "false")
	egorun.Apply(egorun.Config{Types: "dynamic", Opt: 0, SymAlloc: 32, Extensions: true})

	text := src
	if strings.HasPrefix(text, "#!") {
		if i := strings.Index(text, "\n"); i >= 0 {
			text = text[i:]
		} else {
			text = ""
		}
	}

	text += "\n@entrypoint main"

	st := symbols.NewSymbolTable("file verif.ego").Shared(true)
	st.SetGlobalSingleton()
	st.SetAlways(defs.CLIArgumentListVariable, data.NewArrayFromInterfaces(data.StringType))
	st.SetAlways(defs.TypeCheckingVariable, defs.NoTypeEnforcement)
	st.SetAlways(defs.ModeVariable, "run")
	builtins.AddBuiltins(st.Root())
	st.Root().SetAlways(defs.MainVariable, defs.Main)
	st.Root().SetAlways(defs.ExtensionsVariable, true)
	st.Root().SetAlways(defs.UserCodeRunningVariable, true)
	symbols.RootSymbolTable.SetAlways(defs.TypeCheckingVariable, defs.NoTypeEnforcement)

	comp := compiler.New("run").
		SetNormalization(settings.GetBool(defs.CaseNormalizedSetting)).
		SetExitEnabled(false).
		SetRoot(&symbols.RootSymbolTable).
		SetInteractive(false)

	_ = comp.AutoImport(true, st)

	t := tokenizer.New(text, true)
	comp.Fragment(true)

	if _, err := comp.Compile("main 'verif.ego'", t); !errors.Nil(err) {
		return maskPos(err.Error()), false
	}

	return "", false
}
