package small

// C37 — Printed durations can be read back.
//
// Events: (text, err) of util.FormatDuration(d,true) -> util.ParseDuration.
// Oracle: parse(format(d)) == d truncated to the second, no error; documented
// spellings (Go syntax plus a "d" suffix, units separated by spaces as the
// extended printer writes them) parse to the value of a 15-line reference parser.
import (
	"fmt"
	"strings"
	"testing"
	"time"

	"github.com/tucats/ego/internal/util"
	"github.com/tucats/ego/internal/verifh/vh"
)

// shape classifies a printed duration by which units appear and its sign: that is
// what decides the parser's path, so it is the key of a finding.
func durShape(s string) string {
	var b strings.Builder
	if strings.HasPrefix(s, "-") {
		b.WriteString("neg:")
	}
	for _, u := range []string{"d", "h", "m", "s"} {
		for _, f := range strings.Fields(strings.TrimPrefix(s, "-")) {
			if strings.HasSuffix(f, u) && !strings.HasSuffix(f, "ms") {
				b.WriteString(u)
			}
		}
	}
	if strings.Contains(s, " ") {
		b.WriteString(":spaced")
	}
	return b.String()
}

// refParse is the monitor's own parser of the documented extended grammar:
// [-] term {space term}, term = N ("d"|"h"|"m"|"s"); the sign applies to the whole.
func refParse(s string) (time.Duration, bool) {
	neg := false
	if strings.HasPrefix(s, "-") {
		neg = true
		s = s[1:]
	}
	var total time.Duration
	fields := strings.Fields(s)
	if len(fields) == 0 {
		return 0, false
	}
	for _, f := range fields {
		if len(f) < 2 {
			return 0, false
		}
		var n int64
		if _, err := fmt.Sscanf(f[:len(f)-1], "%d", &n); err != nil {
			return 0, false
		}
		switch f[len(f)-1] {
		case 'd':
			total += time.Duration(n) * 24 * time.Hour
		case 'h':
			total += time.Duration(n) * time.Hour
		case 'm':
			total += time.Duration(n) * time.Minute
		case 's':
			total += time.Duration(n) * time.Second
		default:
			return 0, false
		}
	}
	if neg {
		total = -total
	}
	return total, true
}

func TestC37(t *testing.T) {
	r := vh.New("C37", "durations")
	r.Rule = "d enumerated over boundary (days,hours,min,sec) combinations with both signs plus PRNG-uniform seconds in ±10^6 h, plus sub-second values; " +
		"distinct = distinct printed text; non-trivial = |d| >= 1s (the extended printer is used). Spellings: unit subsets x spacing of the documented grammar."
	rng := vh.Rand("c37")
	check := func(d time.Duration, origin string) {
		txt := util.FormatDuration(d, true)
		want := d.Truncate(time.Second)
		if d > -time.Second && d < time.Second {
			want = d // compact form keeps sub-second precision
		}
		got, err := util.ParseDuration(txt)
		r.Eval(txt, d <= -time.Second || d >= time.Second)
		r.Count("roundtrips", 1)
		r.Count("shape:"+durShape(txt), 1)
		if err != nil || got != want {
			r.Violate(vh.Violation{Key: "roundtrip:" + durShape(txt), Desc: fmt.Sprintf("FormatDuration(%d ns,true)=%q; ParseDuration -> (%v, %v), want %v", int64(d), txt, got, err, want),
				Case: map[string]any{"kind": "roundtrip", "ns": int64(d)}, Expected: want.String(), Observed: fmt.Sprintf("%v / %v", got, err)})
		}
		if r.Evaluations%20011 == 1 {
			r.Sample(map[string]any{"ns": int64(d), "printed": txt, "parsed": got.String(), "origin": origin})
		}
	}

	if c := vh.ReplayCase(); c != nil {
		var rc struct {
			Kind string
			Ns   int64
			Text string
		}
		_ = jsonUnmarshal(c, &rc)
		if rc.Kind == "roundtrip" {
			check(time.Duration(rc.Ns), "replay")
		} else {
			checkSpelling(r, rc.Text)
		}
		r.Distinct = 2
		_ = r.Write()
		return
	}

	// 1. boundary enumeration
	days := []int64{0, 1, 2, 6, 7, 30, 365, 41666}
	hours := []int64{0, 1, 12, 23}
	mins := []int64{0, 1, 30, 59}
	secs := []int64{0, 1, 30, 59}
	for _, a := range days {
		for _, b := range hours {
			for _, c := range mins {
				for _, e := range secs {
					d := time.Duration(a)*24*time.Hour + time.Duration(b)*time.Hour + time.Duration(c)*time.Minute + time.Duration(e)*time.Second
					for _, sign := range []time.Duration{1, -1} {
						check(sign*d, "boundary")
						check(sign*(d+500*time.Millisecond), "boundary+0.5s")
					}
				}
			}
		}
	}
	// 2. uniform seconds in ±10^6 h
	n := vh.N(100000, 1000000)
	const span = int64(1000000) * 3600
	for i := 0; i < n; i++ {
		s := rng.Int63n(2*span+1) - span
		check(time.Duration(s)*time.Second, "uniform")
	}
	// small magnitudes are where unit subsets vary most
	for i := 0; i < n/4; i++ {
		s := rng.Int63n(2*200000+1) - 200000
		check(time.Duration(s)*time.Second+time.Duration(rng.Int63n(1000))*time.Millisecond, "small")
	}
	// 3. sub-second
	for _, d := range []time.Duration{0, 1, -1, 999, time.Microsecond, 1500 * time.Microsecond, 300 * time.Millisecond, -300 * time.Millisecond, 999999999, -999999999} {
		check(d, "subsecond")
	}
	// 4. documented spellings: subsets of units, spaced like the printer / compact like Go+d
	units := []string{"d", "h", "m", "s"}
	for mask := 1; mask < 16; mask++ {
		for _, neg := range []bool{false, true} {
			for _, spaced := range []bool{false, true} {
				for rep := 0; rep < 6; rep++ {
					var parts []string
					for i, u := range units {
						if mask&(1<<i) != 0 {
							v := []int64{0, 1, 2, 23, 59, 100}[rng.Intn(6)]
							if rep == 0 {
								v = int64(i + 1)
							}
							parts = append(parts, fmt.Sprintf("%d%s", v, u))
						}
					}
					sep := ""
					if spaced {
						sep = " "
					}
					txt := strings.Join(parts, sep)
					if neg {
						txt = "-" + txt
					}
					checkSpelling(r, txt)
				}
			}
		}
	}
	if err := r.Write(); err != nil {
		t.Fatal(err)
	}
}

func checkSpelling(r *vh.Report, txt string) {
	want, ok := refParse(spaceOut(txt))
	if !ok {
		return
	}
	got, err := util.ParseDuration(txt)
	r.Eval("sp:"+txt, true)
	r.Count("spellings", 1)
	if err != nil || got != want {
		r.Violate(vh.Violation{Key: "spelling:" + spellShape(txt), Desc: fmt.Sprintf("ParseDuration(%q) -> (%v, %v), documented meaning %v", txt, got, err, want),
			Case: map[string]any{"kind": "spelling", "text": txt}, Expected: want.String(), Observed: fmt.Sprintf("%v / %v", got, err)})
	}
	if r.Counters["spellings"]%97 == 1 {
		r.Sample(map[string]any{"spelling": txt, "parsed": got.String()})
	}
}

// spaceOut turns "1d6h30m" into "1d 6h 30m" for the reference parser.
func spaceOut(s string) string {
	var b strings.Builder
	for _, ch := range s {
		b.WriteRune(ch)
		if ch == 'd' || ch == 'h' || ch == 'm' || ch == 's' {
			b.WriteRune(' ')
		}
	}
	return strings.TrimSpace(b.String())
}

func spellShape(s string) string {
	sh := ""
	if strings.HasPrefix(s, "-") {
		sh = "neg:"
	}
	for _, ch := range s {
		if ch == 'd' || ch == 'h' || ch == 'm' || ch == 's' {
			sh += string(ch)
		}
	}
	if strings.Contains(s, " ") {
		sh += ":spaced"
	}
	return sh
}
