package tableschk

// C18 — Row values survive a REST round trip.
//
// Events: a table with one column of every type the REST create-table handler accepts is created
// through that handler; rows are written through PUT …/rows (single object, rowset, abstract rowset),
// PATCH …/rows and the POST @transaction insert task, and read back through GET …/rows with a filter
// on the key column (whole batch) and with a filter on the row's _row_id_ (plain and ?abstract=true).
// Oracle, per column type: the decoded JSON value equals the written value under the type's documented
// representation; a value the type cannot hold must be rejected or, if accepted, come back unaltered.

import (
	"bytes"
	"encoding/json"
	"fmt"
	"math"
	"math/rand"
	"regexp"
	"strconv"
	"strings"
	"testing"
	"time"

	"github.com/tucats/ego/internal/verifh/srvfix"
	"github.com/tucats/ego/internal/verifh/vh"
)

var c18Types = []string{"byte", "int", "int8", "int16", "int32", "int64", "string", "float", "double", "float32", "float64", "time", "timestamp", "date", "bool"}

type wval struct {
	Lit   string // JSON literal sent
	Class string // value class (part of the violation key)
	Kind  string // "int","float","float32","bool","string","time"
	I     int64
	F     float64
	S     string
	B     bool
	T     time.Time
	Valid bool // the column type can hold it
}

func intRange(ty string) (lo, hi int64) {
	switch ty {
	case "byte":
		return 0, 255
	case "int8":
		return -128, 127
	case "int16":
		return -32768, 32767
	case "int32":
		return math.MinInt32, math.MaxInt32
	}

	return math.MinInt64, math.MaxInt64
}

func intClass(v int64) string {
	a := v
	if a < 0 {
		a = -a
	}

	switch {
	case v == math.MaxInt64:
		return "max64"
	case v == math.MinInt64:
		return "min64"
	case a < 0: // overflowed negation
		return "min64"
	case a > 1<<53:
		return "gt2p53"
	case a == 1<<53:
		return "eq2p53"
	case a > math.MaxInt32:
		return "gt2p31"
	case a > 32767:
		return "gt2p15"
	case a > 255:
		return "gt2p8"
	case a > 127:
		return "gt2p7"
	}

	return "small"
}

func genInt(rng *rand.Rand, ty string, wantValid bool) wval {
	lo, hi := intRange(ty)

	var v int64

	if wantValid {
		bounds := []int64{0, 1, -1, lo, hi, lo + 1, hi - 1, 127, 128, 255, 256, 32767, 32768, 65535, 1 << 31, -(1 << 31) - 1, 1<<53 - 1, 1 << 53, 1<<53 + 1, -(1<<53 - 1), -(1 << 53), -(1<<53 + 1), math.MaxInt64, math.MinInt64, math.MaxInt64 - 1, math.MinInt64 + 1}

		for tries := 0; ; tries++ {
			switch rng.Intn(4) {
			case 0:
				v = bounds[rng.Intn(len(bounds))]
			case 1:
				v = rng.Int63n(2001) - 1000
			case 2:
				v = int64(rng.Uint64()) // uniform over int64
			default:
				v = int64(rng.Uint64()) >> uint(rng.Intn(64))
			}

			if v >= lo && v <= hi {
				break
			}

			if tries > 50 {
				v = lo + rng.Int63n(hi-lo+1)

				break
			}
		}
	} else {
		// out of range for a narrow type
		outs := []int64{hi + 1, lo - 1, hi + 1000, lo - 1000, 1 << 40, -(1 << 40), (hi+1)*2 + 17, 70000, 300}

		for {
			v = outs[rng.Intn(len(outs))]
			if v < lo || v > hi {
				break
			}
		}
	}

	return wval{Lit: strconv.FormatInt(v, 10), Class: intClass(v), Kind: "int", I: v, Valid: v >= lo && v <= hi}
}

func floatClass(f float64) string {
	a := math.Abs(f)

	switch {
	case f == 0 && math.Signbit(f):
		return "negzero"
	case f == 0:
		return "zero"
	case a < 2.2250738585072014e-308:
		return "subnormal"
	case a >= 1e300:
		return "huge"
	case a == math.Trunc(a) && a < 1e15:
		return "integral"
	case a == math.Trunc(a):
		return "integral-big"
	case a < 1e-300:
		return "tiny"
	}

	return "frac"
}

func genFloat(rng *rand.Rand) wval {
	bounds := []float64{0, math.Copysign(0, -1), 1, -1, 0.1, -0.1, 1.0 / 3, 5e-324, -5e-324, 2.2250738585072014e-308, 2.225073858507201e-308, math.MaxFloat64, -math.MaxFloat64,
		9007199254740992, 9007199254740993, 123456789.125, 1e15, 1e16, 1e21, 1e22, 1e-7, 0.000001, 3.141592653589793, 2.718281828459045, 4.35, 0.3, 100, 1e100, -1e-100, 255, 65536, 4294967296, 1.5, 2.5}

	var f float64

	switch rng.Intn(4) {
	case 0:
		f = bounds[rng.Intn(len(bounds))]
	case 1:
		for {
			f = math.Float64frombits(rng.Uint64())
			if !math.IsNaN(f) && !math.IsInf(f, 0) {
				break
			}
		}
	case 2:
		f = float64(rng.Int63n(2000001)-1000000) / []float64{1, 10, 100, 1000, 8, 3}[rng.Intn(6)]
	default:
		f = rng.NormFloat64() * math.Pow(10, float64(rng.Intn(40)-20))
	}

	return wval{Lit: strconv.FormatFloat(f, 'g', -1, 64), Class: floatClass(f), Kind: "float", F: f, Valid: true}
}

func genFloat32(rng *rand.Rand, wantValid bool) wval {
	if !wantValid {
		outs := []float64{1e39, -1e39, 3.5e38, math.MaxFloat64}
		f := outs[rng.Intn(len(outs))]

		return wval{Lit: strconv.FormatFloat(f, 'g', -1, 64), Class: "over-f32", Kind: "float32", F: f, Valid: false}
	}

	bounds := []float32{0, 1, -1, 0.1, math.MaxFloat32, -math.MaxFloat32, math.SmallestNonzeroFloat32, 1.17549435e-38, 16777216, 16777217, 0.5, 3.1415927, 1e10, 1e-10}

	var f float32

	switch rng.Intn(3) {
	case 0:
		f = bounds[rng.Intn(len(bounds))]
	case 1:
		for {
			f = math.Float32frombits(rng.Uint32())
			if f == f && !math.IsInf(float64(f), 0) {
				break
			}
		}
	default:
		f = float32(rng.Int63n(200001)-100000) / []float32{1, 10, 100, 8}[rng.Intn(4)]
	}

	cl := floatClass(float64(f))
	if a := math.Abs(float64(f)); a != 0 && a < 1.17549435e-38 {
		cl = "subnormal32"
	}

	return wval{Lit: strconv.FormatFloat(float64(f), 'g', -1, 32), Class: cl, Kind: "float32", F: float64(f), Valid: true}
}

var c18Strings = []string{
	"", "a", " ", "  lead and trail  ", " lead", "trail ", "\ttab-lead", "newline-trail\n", "  ", "\u00a0nbsp-edges\u00a0", "\u3000wide-space\u3000", "O'Brien", "''", "'", "\"", "\"quoted\"", "a\"b'c", `back\slash`, `\`, `\\`, `\'`, `\"`, `'\''`, "%", "_", "100%_done",
	"'); DROP TABLE rt; --", "' OR '1'='1", "x' UNION SELECT sval FROM secret --", "/* c */ -- d", "semi;colon", "$1", "?", "?1", ":name", "@v",
	"tab\there", "line\nbreak", "cr\rlf\r\n", "\u00e9\u00e8\u00ea", "Zo\u00eb", "\u4e2d\u6587", "\U0001F600", "\U0001F468\u200d\U0001F469\u200d\U0001F467", "e\u0301", "\u202eRTL", "\ufeffbom", "\u2028ls", "\uffff", "\U0010FFFF",
	"123", "-5", "1e5", "0x10", "true", "false", "null", "NULL", "nil", "NaN", "2024-06-15T12:00:00Z", "{\"json\":[1,2,{\"a\":null}]}", "[1,2,3]",
	"550e8400-e29b-41d4-a716-446655440000", "550E8400-E29B-41D4-A716-446655440000", "{{sym}}", "{{", "}}", "\u0001\u0002\u001f", "\u007f", "&lt;html&gt;<b>", "a b",
}

func stringClass(s string) string {
	switch {
	case s == "":
		return "empty"
	case strings.ContainsAny(s, "'"):
		return "squote"
	case strings.ContainsAny(s, "\""):
		return "dquote"
	case strings.ContainsAny(s, "\\"):
		return "backslash"
	case strings.Contains(s, "{{") || strings.Contains(s, "}}"):
		return "braces"
	case strings.ContainsAny(s, "\n\r\t") || strings.ContainsAny(s, "\x01\x02\x1f\x7f"):
		return "control"
	}

	for _, r := range s {
		if r > 0xFFFF {
			return "utf8-4byte"
		}
	}

	for _, r := range s {
		if r > 0x7f {
			return "unicode"
		}
	}

	if _, err := strconv.ParseFloat(s, 64); err == nil {
		return "numeric-text"
	}

	if len(s) > 1000 {
		return "long"
	}

	switch s {
	case "true", "false", "null", "NULL", "nil", "NaN":
		return "keyword-text"
	}

	return "plain"
}

func genString(rng *rand.Rand) wval {
	var s string

	switch rng.Intn(5) {
	case 0, 1:
		s = c18Strings[rng.Intn(len(c18Strings))]
	case 2:
		// random unicode, NUL-free, valid scalar values only
		n := rng.Intn(24)

		var b strings.Builder

		for i := 0; i < n; i++ {
			var r rune

			switch rng.Intn(6) {
			case 0:
				r = rune(1 + rng.Intn(0x7f))
			case 1:
				r = rune(0x80 + rng.Intn(0x780))
			case 2:
				r = rune(0x800 + rng.Intn(0xD000-0x800))
			case 3:
				r = rune(0x10000 + rng.Intn(0x100000))
			case 4:
				r = []rune{'\'', '"', '\\', '%', '_', ';', '-', '(', ')', '$', '?'}[rng.Intn(11)]
			default:
				r = rune('a' + rng.Intn(26))
			}

			b.WriteRune(r)
		}

		s = b.String()
	case 3:
		s = c18Strings[rng.Intn(len(c18Strings))] + c18Strings[rng.Intn(len(c18Strings))]
	default:
		n := []int{1, 7, 255, 256, 4096, 20000}[rng.Intn(6)]
		s = strings.Repeat("x'é", n/4+1)
	}

	lit, _ := json.Marshal(s)
	// json.Marshal escapes <,>,& and U+2028/9 as \u sequences: still the same string after decoding

	return wval{Lit: string(lit), Class: stringClass(s), Kind: "string", S: s, Valid: true}
}

func genBool(rng *rand.Rand) wval {
	b := rng.Intn(2) == 0

	return wval{Lit: strconv.FormatBool(b), Class: strconv.FormatBool(b), Kind: "bool", B: b, Valid: true}
}

func genTime(rng *rand.Rand, colType string) wval {
	offs := []int{0, 0, 3600, -5 * 3600, 5*3600 + 1800, 14 * 3600, -12 * 3600, 3600*5 + 45*60, -(9*3600 + 30*60)}

	type tb struct {
		y, mo, d, h, mi, s int
		class              string
	}

	bounds := []tb{{1, 1, 1, 0, 0, 0, "year1"}, {1, 1, 2, 0, 0, 0, "year1"}, {9999, 12, 31, 23, 59, 59, "year9999"}, {9999, 12, 30, 0, 0, 0, "year9999"}, {1970, 1, 1, 0, 0, 0, "epoch"}, {1969, 12, 31, 23, 59, 59, "pre-epoch"},
		{2038, 1, 19, 3, 14, 8, "y2038"}, {2024, 2, 29, 12, 0, 0, "leapday"}, {1900, 3, 1, 0, 0, 0, "y1900"}, {1582, 10, 10, 0, 0, 0, "gregorian-gap"}, {2016, 12, 31, 23, 59, 59, "plain"}, {100, 6, 15, 1, 2, 3, "year100"}, {999, 1, 1, 0, 0, 0, "year999"}}

	var b tb

	if rng.Intn(2) == 0 {
		b = bounds[rng.Intn(len(bounds))]
	} else {
		b = tb{1800 + rng.Intn(400), 1 + rng.Intn(12), 1 + rng.Intn(28), rng.Intn(24), rng.Intn(60), rng.Intn(60), "plain"}
	}

	off := offs[rng.Intn(len(offs))]
	loc := time.FixedZone("", off)
	t := time.Date(b.y, time.Month(b.mo), b.d, b.h, b.mi, b.s, 0, loc)
	cl := b.class

	if off != 0 {
		cl += "+offset"
	}

	lit := t.Format(time.RFC3339)

	if rng.Intn(8) == 0 {
		// fractional seconds: documented resolution is the second
		ns := []int{500000000, 1000000, 999999999, 123456789}[rng.Intn(4)]
		t = t.Add(time.Duration(ns))
		lit = t.Format(time.RFC3339Nano)
		cl += "+frac"
	} else if colType == "date" && rng.Intn(3) == 0 && off == 0 {
		// the documented date-only form, read as midnight UTC
		t = time.Date(b.y, time.Month(b.mo), b.d, 0, 0, 0, 0, time.UTC)
		lit = t.Format("2006-01-02")
		cl = b.class + "+dateonly"
	}

	// an instant whose UTC form leaves the four-digit years is its own class whatever else holds; values are kept
	// as UTC instants in RFC 3339 form, so one beyond year 9999 is a value the column cannot hold
	valid := true

	if y := t.UTC().Year(); y > 9999 {
		cl, valid = "utc-year-gt-9999", false
	} else if y < 1 {
		cl = "utc-year-lt-1"
	}

	js, _ := json.Marshal(lit)

	return wval{Lit: string(js), Class: cl, Kind: "time", T: t, S: lit, Valid: valid}
}

func genFor(rng *rand.Rand, ty string, wantValid bool) wval {
	switch ty {
	case "byte", "int8", "int16", "int32":
		return genInt(rng, ty, wantValid)
	case "int", "int64":
		return genInt(rng, ty, true)
	case "string":
		return genString(rng)
	case "float", "double", "float64":
		return genFloat(rng)
	case "float32":
		return genFloat32(rng, wantValid)
	case "bool":
		return genBool(rng)
	}

	return genTime(rng, ty)
}

func canBeInvalid(ty string) bool {
	switch ty {
	case "byte", "int8", "int16", "int32", "float32":
		return true
	}

	return false
}

var timeLayouts = []string{time.RFC3339Nano, "2006-01-02 15:04:05.999999999-07:00", "2006-01-02T15:04:05.999999999", "2006-01-02 15:04:05.999999999", "2006-01-02"}

// compareValue: does the value read (decoded with UseNumber) equal the written one under the type's representation?
func compareValue(ty string, w wval, got any) (ok bool, observed string) {
	observed = fmt.Sprintf("%v", got)
	if got == nil {
		return false, "null"
	}

	switch w.Kind {
	case "int":
		switch g := got.(type) {
		case json.Number:
			if i, err := strconv.ParseInt(g.String(), 10, 64); err == nil {
				return i == w.I, g.String()
			}

			if f, err := strconv.ParseFloat(g.String(), 64); err == nil && f == math.Trunc(f) && math.Abs(f) < 1<<53 {
				return int64(f) == w.I, g.String()
			}
		}

		return false, observed
	case "float", "float32":
		g, isNum := got.(json.Number)
		if !isNum {
			return false, observed
		}

		f, err := strconv.ParseFloat(g.String(), 64)
		if err != nil {
			return false, g.String()
		}

		if w.Kind == "float32" {
			return float32(f) == float32(w.F), g.String()
		}

		return f == w.F, g.String() // IEEE equality: -0 == +0 (the sign of zero is counted separately)
	case "bool":
		switch g := got.(type) {
		case bool:
			return g == w.B, observed
		case json.Number: // abstract rows carry the driver's value, 0/1
			return (g.String() == "1") == w.B && (g.String() == "1" || g.String() == "0"), observed
		}

		return false, observed
	case "string":
		g, isStr := got.(string)

		return isStr && g == w.S, strconv.Quote(observed)
	case "time":
		g, isStr := got.(string)
		if !isStr {
			return false, observed
		}

		for _, l := range timeLayouts {
			if t, err := time.Parse(l, g); err == nil {
				return t.Unix() == w.T.Unix(), g
			}
		}

		return false, "unparsable:" + g
	}

	return false, observed
}

type c18Row struct {
	Table   string // "" = by variant
	K       int64
	Vals    map[string]wval // column -> value ("c_"+type)
	Variant string
	Reject  bool   // holds a value its column type cannot hold
	BadCol  string // that column
	Status  int
	RowID   string
}

func (r *c18Row) body(withKey bool) []byte {
	var b bytes.Buffer

	b.WriteByte('{')

	if withKey {
		fmt.Fprintf(&b, `"k":%d`, r.K)
	}

	for _, ty := range c18Types {
		v, ok := r.Vals["c_"+ty]
		if !ok {
			continue
		}

		if b.Len() > 1 {
			b.WriteByte(',')
		}

		fmt.Fprintf(&b, `"c_%s":%s`, ty, v.Lit)
	}

	b.WriteByte('}')

	return b.Bytes()
}

func decodeRows(body []byte) ([]map[string]any, error) {
	var doc struct {
		Rows []map[string]any `json:"rows"`
	}

	d := json.NewDecoder(bytes.NewReader(body))
	d.UseNumber()

	if err := d.Decode(&doc); err != nil {
		return nil, err
	}

	return doc.Rows, nil
}

func decodeAbstract(body []byte) ([]map[string]any, error) {
	var doc struct {
		Columns []struct {
			Name string `json:"name"`
		} `json:"columns"`
		Rows [][]any `json:"rows"`
	}

	d := json.NewDecoder(bytes.NewReader(body))
	d.UseNumber()

	if err := d.Decode(&doc); err != nil {
		return nil, err
	}

	out := []map[string]any{}

	for _, r := range doc.Rows {
		m := map[string]any{}

		for i, c := range doc.Columns {
			if i < len(r) {
				m[c.Name] = r[i]
			}
		}

		out = append(out, m)
	}

	return out, nil
}

func TestC18(t *testing.T) {
	e := getEnv(t)
	r := vh.New("C18", "roundtrip")
	r.Rule = "rows over a table with one column of each of the 15 REST column types; each row carries one value per column (boundary list + PRNG: uniform int64/float64 bit patterns, scaled decimals, Unicode/quote-laden strings, RFC 3339 instants with offsets, year 1/9999); " +
		"written by PUT object / PUT rowset / PUT abstract rowset / PATCH / @transaction insert, read by GET filter on key range and GET filter on _row_id_ (plain and abstract). " +
		"A case = (column type, write path, value); distinct by value; non-trivial = not a small integer / plain ASCII word / true,false."
	r.Assume("SQLite backend only (modernc.org/sqlite); PostgreSQL type mapping is out of reach here")
	r.Assume("the monitor's JSON literals are what is on the wire (bodies are built by hand; responses decoded with json.Number)")
	r.Assume("float equality is IEEE ==; the sign of zero is reported as a note, not a violation (SQLite stores integral REAL values as integers)")
	r.Assume("uuid and json are not column types of this tree (defs.TableColumnTypeNames); uuid- and JSON-shaped text is covered as string content")
	r.Assume("a value outside its column type's range that is accepted and read back UNALTERED is counted, not reported (the property speaks of values the type can hold)")

	shardI, shardN := shard(8)
	rng := vh.Rand(fmt.Sprintf("c18/%d", shardI))

	if shardN > 1 {
		r.Part = fmt.Sprintf("roundtrip-%d", shardI)
	}

	if err := e.Restore(); err != nil {
		t.Fatal(err)
	}

	// tables through the REST create-table handler: rt (every type), rtx (every type but the time ones, for the
	// @transaction insert path), rtt_<type> (one time-typed column each)
	mk := func(name string, types []string) {
		cols := []map[string]any{{"name": "k", "type": "int"}}
		for _, ty := range types {
			cols = append(cols, map[string]any{"name": "c_" + ty, "type": ty})
		}

		cb, _ := json.Marshal(cols)
		if resp := e.Do("admin", "PUT", "/dsns/d_open/tables/"+name, cb); resp.Status != 201 {
			t.Fatalf("create %s: %d %s %s", name, resp.Status, resp.Body, resp.Panic)
		}
	}

	var noTime []string

	for _, ty := range c18Types {
		if ty != "time" && ty != "timestamp" && ty != "date" {
			noTime = append(noTime, ty)
		}
	}

	mk("rt", c18Types)
	mk("rtx", noTime)

	for _, ty := range []string{"time", "timestamp", "date"} {
		mk("rtt_"+ty, []string{ty})
	}

	if resp := e.Do("admin", "GET", "/dsns/d_open/tables/rt", nil); resp.Status == 200 {
		var doc struct {
			Columns []struct{ Name, Type string } `json:"columns"`
		}

		_ = json.Unmarshal(resp.Body, &doc)

		m := map[string]string{}
		for _, c := range doc.Columns {
			m[c.Name] = c.Type
		}

		r.Sample(map[string]any{"describe_table_types": m})
	}

	rowsPath := func(table string) string { return "/dsns/d_open/tables/" + table + "/rows" }

	fam := func(variant string) string {
		switch variant {
		case "abstract":
			return "raw"
		case "tx":
			return "tx"
		}

		return "rest" // PUT object, PUT rowset and PATCH share the coercion path
	}

	vkey := func(ty, variant string, w wval, what string) string {
		return fmt.Sprintf("%s:%s:%s:%s", what, ty, w.Class, fam(variant))
	}

	negZero := int64(0)

	checkRow := func(row *c18Row, got map[string]any, how string) {
		for _, ty := range c18Types {
			w, ok := row.Vals["c_"+ty]
			if !ok {
				continue
			}

			nontrivial := !(w.Class == "small" || w.Class == "plain" || w.Kind == "bool")
			r.Eval(ty+"|"+fam(row.Variant)+"|"+w.Lit, nontrivial)
			r.Count("values.read."+how, 1)
			r.Count("type."+ty, 1)

			eq, obs := compareValue(ty, w, got["c_"+ty])

			if w.Kind == "float" && w.F == 0 && math.Signbit(w.F) && eq {
				if n, isNum := got["c_"+ty].(json.Number); isNum && !strings.HasPrefix(n.String(), "-") {
					negZero++
				}
			}

			if eq {
				if !w.Valid {
					r.Count("outofrange.accepted.unaltered."+ty, 1)
				}

				continue
			}

			what := "roundtrip"
			if !w.Valid {
				what = "outofrange-altered"
			}

			key := vkey(ty, row.Variant, w, what)

			r.Violate(vh.Violation{Key: key,
				Desc:     fmt.Sprintf("column type %s, written %s through %s, read back %s (%s)", ty, vh.Trunc(w.Lit, 200), row.Variant, vh.Trunc(obs, 200), how),
				Case:     map[string]any{"type": ty, "lit": w.Lit, "variant": row.Variant},
				Expected: vh.Trunc(w.Lit, 300), Observed: vh.Trunc(obs, 300)})
		}
	}

	nextK := int64(1)

	safe := map[string]wval{}
	for _, ty := range c18Types {
		switch ty {
		case "string":
			safe["c_"+ty] = wval{Lit: `"base"`, Class: "plain", Kind: "string", S: "base", Valid: true}
		case "bool":
			safe["c_"+ty] = wval{Lit: "true", Class: "true", Kind: "bool", B: true, Valid: true}
		case "float", "double", "float64":
			safe["c_"+ty] = wval{Lit: "1.5", Class: "frac", Kind: "float", F: 1.5, Valid: true}
		case "float32":
			safe["c_"+ty] = wval{Lit: "1.5", Class: "frac", Kind: "float32", F: 1.5, Valid: true}
		case "time", "timestamp", "date":
			tt := time.Date(2024, 6, 15, 12, 0, 0, 0, time.UTC)
			safe["c_"+ty] = wval{Lit: `"2024-06-15T12:00:00Z"`, Class: "plain", Kind: "time", T: tt, Valid: true}
		default:
			safe["c_"+ty] = wval{Lit: "7", Class: "small", Kind: "int", I: 7, Valid: true}
		}
	}

	tableOf := func(row *c18Row) string {
		if row.Table != "" {
			return row.Table
		}

		if row.Variant == "tx" {
			return "rtx"
		}

		return "rt"
	}

	colsOf := func(table string) []string {
		switch {
		case table == "rtx":
			return noTime
		case strings.HasPrefix(table, "rtt_"):
			return []string{strings.TrimPrefix(table, "rtt_")}
		}

		return c18Types
	}

	safeRow := func(variant, table string) *c18Row {
		row := &c18Row{K: nextK, Vals: map[string]wval{}, Variant: variant, Table: table}
		nextK++

		for _, ty := range colsOf(tableOf(row)) {
			row.Vals["c_"+ty] = safe["c_"+ty]
		}

		return row
	}

	// writeRow sends one row through the path named by its variant.
	writeRow := func(row *c18Row) srvfix.Response {
		table := tableOf(row)
		path := rowsPath(table)

		switch row.Variant {
		case "abstract":
			// abstract rowset: columns + value arrays; _row_id_ is listed so that the handler can assign it
			var cb, vb bytes.Buffer

			cb.WriteString(`{"name":"k","type":"int"}`)
			fmt.Fprintf(&vb, "%d", row.K)

			for _, ty := range c18Types {
				if w, ok := row.Vals["c_"+ty]; ok {
					fmt.Fprintf(&cb, `,{"name":"c_%s","type":"%s"}`, ty, ty)
					vb.WriteString("," + w.Lit)
				}
			}

			cb.WriteString(`,{"name":"_row_id_","type":"string"}`)
			vb.WriteString(`,""`)
			r.Count("requests.put.abstract", 1)

			resp := e.Do("admin", "PUT", path+q("abstract", "true"), []byte(fmt.Sprintf(`{"columns":[%s],"rows":[[%s]],"count":1}`, cb.String(), vb.String())))
			if resp.Panic != "" {
				r.Count("handler.panics.abstract-insert", 1)
			}

			return resp
		case "tx":
			r.Count("requests.tx.insert", 1)

			return e.Do("admin", "POST", "/dsns/d_open/tables/@transaction", []byte(fmt.Sprintf(`[{"operation":"insert","table":"%s","data":%s}]`, table, row.body(true))))
		case "patch":
			base := safeRow("put", table)
			base.K = row.K
			nextK--

			if resp := e.Do("admin", "PUT", path, base.body(true)); resp.Status != 200 {
				return resp
			}

			r.Count("requests.patch", 1)

			resp := e.Do("admin", "PATCH", path+q("filter", fmt.Sprintf("EQ(k,%d)", row.K)), row.body(false))
			if resp.Status >= 300 {
				// leave no half-written base row behind
				_ = e.Do("admin", "DELETE", path+q("filter", fmt.Sprintf("EQ(k,%d)", row.K)), nil)
			}

			return resp
		}

		r.Count("requests.put.object", 1)

		return e.Do("admin", "PUT", path, row.body(true))
	}

	readKey := func(table string, k int64) (map[string]any, int, []byte) {
		one := e.Do("admin", "GET", rowsPath(table)+q("filter", fmt.Sprintf("EQ(k,%d)", k)), nil)
		r.Count("requests.get.key", 1)

		if one.Status == 200 {
			rows, err := decodeRows(one.Body)
			if err != nil || one.Panic != "" {
				// 200 with an empty or undecodable body (e.g. a stored value the JSON encoder refuses): the row cannot be
				// read; reported as such at once, never retried
				return nil, -200, one.Body
			}

			if len(rows) == 1 {
				return rows[0], 200, one.Body
			}

			return nil, 200, one.Body
		}

		return nil, one.Status, one.Body
	}

	// attribute a refusal of a row of valid values: each value alone in an otherwise safe row, same path
	attributeRefusal := func(row *c18Row) {
		base := safeRow(row.Variant, row.Table)
		if resp := writeRow(base); resp.Status >= 300 {
			r.Violate(vh.Violation{Key: "refused:baseline:" + fam(row.Variant) + ":" + tableOf(row), Desc: fmt.Sprintf("a row of plain values is refused through %s: %d %s", row.Variant, resp.Status, vh.Trunc(msgOf(resp.Body), 300)),
				Case: map[string]any{"variant": row.Variant, "body": string(base.body(true))}})

			return
		}

		for _, ty := range c18Types {
			w, ok := row.Vals["c_"+ty]
			if !ok {
				continue
			}

			if !w.Valid {
				r.Count("outofrange.rejected."+ty, 1) // refusing what the type cannot hold is right

				continue
			}

			single := safeRow(row.Variant, row.Table)
			single.Vals["c_"+ty] = w

			if resp := writeRow(single); resp.Status >= 300 {
				r.Eval("refused|"+ty+"|"+w.Lit, true)
				r.Violate(vh.Violation{Key: vkey(ty, row.Variant, w, "refused"), Desc: fmt.Sprintf("a value the %s type can hold is refused through %s: %s -> %d %s", ty, row.Variant, vh.Trunc(w.Lit, 120), resp.Status, vh.Trunc(msgOf(resp.Body), 200)),
					Case: map[string]any{"type": ty, "lit": w.Lit, "variant": row.Variant}, Expected: "stored", Observed: resp.Status})
			}
		}
	}

	// verdict for one written row given what a read by key range / key returned
	perRowReads := vh.N(700, 6000) / shardN
	sampled := 0
	rowsDone := 0

	forceBothReads := false

	judge := func(row *c18Row, gr map[string]any, present bool) {
		table := tableOf(row)

		switch {
		case row.Status >= 300 && !present:
			if row.Reject {
				r.Count("outofrange.rejected."+row.BadCol, 1)
				r.Eval("reject|"+row.BadCol+"|"+row.Vals["c_"+row.BadCol].Lit, true)

				return
			}

			r.Count("valid-row.rejected."+row.Variant, 1)
			attributeRefusal(row)

			return
		case row.Status >= 300 && present:
			r.Violate(vh.Violation{Key: "status:error-but-stored:" + fam(row.Variant), Desc: fmt.Sprintf("write answered %d but the row is there", row.Status), Case: map[string]any{"variant": row.Variant, "body": vh.Trunc(string(row.body(true)), 2000)}})

			return
		case !present:
			r.Violate(vh.Violation{Key: "status:ok-but-missing:" + fam(row.Variant), Desc: fmt.Sprintf("write answered %d but no row with k=%d is returned", row.Status, row.K), Case: map[string]any{"variant": row.Variant, "body": vh.Trunc(string(row.body(true)), 2000)}})

			return
		}

		checkRow(row, gr, "key")

		if id, ok := gr["_row_id_"].(string); ok {
			row.RowID = id
		}

		if rowsDone < 3 {
			r.Sample(map[string]any{"variant": row.Variant, "written": vh.Trunc(string(row.body(true)), 700), "read": vh.Trunc(fmt.Sprintf("%v", gr), 700)})
		}

		// read again with a filter on the row id (the directed probes read both ways, so that their keys do not depend on the seed)
		var modes []bool

		if forceBothReads && row.RowID != "" {
			modes = []bool{false, true}
		} else if row.RowID != "" && sampled < perRowReads && (rowsDone < 300 || rng.Intn(map[string]int{"quick": 4, "thorough": 18}[vh.Tier()]) == 0) {
			sampled++

			modes = []bool{rng.Intn(3) == 0}
		}

		for _, abstract := range modes {
			p := rowsPath(table) + q("filter", fmt.Sprintf(`EQ(_row_id_,"%s")`, row.RowID))

			if abstract {
				p += "&abstract=true"
			}

			one := e.Do("admin", "GET", p, nil)
			r.Count("requests.get.rowid", 1)

			var rows []map[string]any

			var err error

			if abstract {
				rows, err = decodeAbstract(one.Body)
			} else {
				rows, err = decodeRows(one.Body)
			}

			how := map[bool]string{true: "rowid-abstract", false: "rowid"}[abstract]

			if one.Status != 200 || err != nil || len(rows) != 1 {
				r.Violate(vh.Violation{Key: "rowid-read:" + how, Desc: fmt.Sprintf("GET with filter on _row_id_ %q: status %d, %d rows, err %v", row.RowID, one.Status, len(rows), err),
					Case: map[string]any{"variant": row.Variant, "body": vh.Trunc(string(row.body(true)), 2000)}})
			} else {
				checkRow(row, rows[0], how)
			}
		}
	}

	// unreadable: accepted on write, the read of that row fails afterwards
	unreadableRows := 0

	unreadable := func(row *c18Row, status int, body []byte) {
		blamed := false

		for _, ty := range c18Types {
			if w, ok := row.Vals["c_"+ty]; ok && regexp.MustCompile(`\bc_`+ty+`\b`).Match(body) {
				blamed = true

				r.Eval("unreadable|"+ty+"|"+w.Lit, true)
				r.Violate(vh.Violation{Key: vkey(ty, row.Variant, w, "unreadable"), Desc: fmt.Sprintf("value %s accepted for a %s column through %s; reading the row then fails: %d %s", vh.Trunc(w.Lit, 100), ty, row.Variant, status, vh.Trunc(msgOf(body), 300)),
					Case: map[string]any{"type": ty, "lit": w.Lit, "variant": row.Variant}})
			}
		}

		if !blamed && unreadableRows < 25 {
			// no column named (an empty body, for instance): read each column of the row alone
			for _, ty := range c18Types {
				w, ok := row.Vals["c_"+ty]
				if !ok {
					continue
				}

				one := e.Do("admin", "GET", rowsPath(tableOf(row))+q("filter", fmt.Sprintf("EQ(k,%d)", row.K), "columns", "c_"+ty), nil)
				r.Count("requests.get.column", 1)

				if _, err := decodeRows(one.Body); one.Status != 200 || err != nil || one.Panic != "" {
					blamed = true

					what := fmt.Sprintf("status %d, body of %d bytes", one.Status, len(one.Body))
					if err != nil {
						what += ", " + err.Error()
					}

					r.Eval("unreadable|"+ty+"|"+w.Lit, true)
					r.Violate(vh.Violation{Key: vkey(ty, row.Variant, w, "unreadable"), Desc: fmt.Sprintf("value %s accepted for a %s column through %s; reading that column of the row then fails: %s", vh.Trunc(w.Lit, 100), ty, row.Variant, what),
						Case: map[string]any{"type": ty, "lit": w.Lit, "variant": row.Variant}})
				}
			}
		}

		unreadableRows++

		if !blamed {
			r.Violate(vh.Violation{Key: "unreadable:row:" + fam(row.Variant), Desc: fmt.Sprintf("row accepted through %s cannot be read: %d %s", row.Variant, status, vh.Trunc(msgOf(body), 300)),
				Case: map[string]any{"variant": row.Variant, "body": vh.Trunc(string(row.body(true)), 2000)}})
		}

		_ = e.Do("admin", "DELETE", rowsPath(tableOf(row))+q("filter", fmt.Sprintf("EQ(k,%d)", row.K)), nil)
	}

	// known findings are an avoid set for the random stream: a construct named by a known key is not drawn
	// (it stays under test through the directed probes below, which report the same keys)
	known := vh.KnownKeys("C18")
	avoided := func(ty, variant string, w wval) bool {
		for _, what := range []string{"roundtrip", "outofrange-altered", "unreadable", "refused"} {
			if known[vkey(ty, variant, w, what)] {
				return true
			}
		}

		return false
	}

	mkRow := func(variant string, reject bool) *c18Row {
		row := &c18Row{K: nextK, Vals: map[string]wval{}, Variant: variant, Reject: reject}
		nextK++

		if reject {
			inv := []string{"byte", "int8", "int16", "int32", "float32"}
			row.BadCol = inv[rng.Intn(len(inv))]
		}

		for _, ty := range colsOf(tableOf(row)) {
			var w wval

			for tries := 0; ; tries++ {
				w = genFor(rng, ty, !(reject && ty == row.BadCol))
				if variant == "tx" && w.Kind == "string" && (strings.Contains(w.S, "{{") || strings.Contains(w.S, "}}")) {
					w = safe["c_string"] // {{name}} is the documented substitution syntax of transaction tasks
				}

				if !avoided(ty, variant, w) {
					break
				}

				r.Count("generator.avoided-known-construct", 1)

				if tries > 200 {
					w = safe["c_"+ty]

					break
				}
			}

			row.Vals["c_"+ty] = w
		}

		return row
	}

	// ---- replay of one (type, literal, variant)
	if rc := vh.ReplayCase(); rc != nil {
		var c struct{ Type, Lit, Variant string }

		_ = json.Unmarshal(rc, &c)

		w := wval{Lit: c.Lit, Class: "replay", Valid: true}

		switch c.Type {
		case "string":
			w.Kind = "string"
			_ = json.Unmarshal([]byte(c.Lit), &w.S)
		case "bool":
			w.Kind, w.B = "bool", c.Lit == "true"
		case "float", "double", "float64", "float32":
			w.Kind = map[bool]string{true: "float32", false: "float"}[c.Type == "float32"]
			w.F, _ = strconv.ParseFloat(c.Lit, 64)
		case "time", "timestamp", "date":
			w.Kind = "time"

			var s string

			_ = json.Unmarshal([]byte(c.Lit), &s)

			for _, l := range timeLayouts {
				if tt, err := time.Parse(l, s); err == nil {
					w.T = tt

					break
				}
			}
		default:
			w.Kind = "int"
			w.I, _ = strconv.ParseInt(c.Lit, 10, 64)
			lo, hi := intRange(c.Type)
			w.Valid = w.I >= lo && w.I <= hi
		}

		row := safeRow(c.Variant, "")
		if c.Variant == "tx" && w.Kind == "time" {
			row = safeRow("tx", "rtt_"+c.Type)
		}

		row.Vals["c_"+c.Type] = w
		resp := writeRow(row)
		row.Status = resp.Status
		t.Logf("replay write -> %d %s", resp.Status, vh.Trunc(msgOf(resp.Body), 300))

		gr, st, body := readKey(tableOf(row), row.K)
		if st != 200 && row.Status < 300 {
			unreadable(row, st, body)
		} else {
			judge(row, gr, gr != nil)
		}

		r.Distinct = 2
		_ = r.Write()

		return
	}

	nRows := vh.N(2000, 100000) / shardN // (thorough: split over processes, the read handlers leak a connection per request)
	batch := 50

	if vh.Tier() == "thorough" {
		batch = 100
	}

	for rowsDone < nRows {
		if unreadableRows > 150 {
			// enough witnesses: every further batch would be read row by row; say so and stop instead of running into the watchdog
			r.Note(fmt.Sprintf("main stream stopped after %d rows: %d accepted rows could not be read back", rowsDone, unreadableRows))
			r.Count("stream.stopped-early", 1)

			break
		}

		var rowsB []*c18Row

		first := nextK

		for len(rowsB) < batch && rowsDone+len(rowsB) < nRows {
			variant := "put"

			x := rng.Intn(100)
			if vh.Tier() == "thorough" && x >= 68 && x < 92 && rng.Intn(4) != 0 {
				x = 30 // PATCH and abstract PUT leak a connection each: a quarter of their quick-tier share
			}

			switch {
			case x < 12:
				variant = "put"
			case x < 68:
				variant = "rowset"
			case x < 76:
				variant = "abstract"
			case x < 84:
				variant = "tx"
			case x < 92:
				variant = "patch"
			default:
				variant = "put-reject"
			}

			switch variant {
			case "rowset":
				n := 2 + rng.Intn(12)

				var rs []*c18Row

				var b bytes.Buffer

				b.WriteString(`{"rows":[`)

				for i := 0; i < n && len(rowsB)+len(rs) < batch; i++ {
					row := mkRow("rowset", false)
					if i > 0 {
						b.WriteByte(',')
					}

					b.Write(row.body(true))
					rs = append(rs, row)
				}

				fmt.Fprintf(&b, `],"count":%d}`, len(rs))

				resp := e.Do("admin", "PUT", rowsPath("rt"), b.Bytes())
				for _, row := range rs {
					row.Status = resp.Status
				}

				rowsB = append(rowsB, rs...)
				r.Count("requests.put.rowset", 1)
			default:
				row := mkRow(strings.TrimSuffix(variant, "-reject"), variant == "put-reject")
				row.Status = writeRow(row).Status
				rowsB = append(rowsB, row)
			}
		}

		last := nextK - 1

		// ---- read the batch back with a filter on the key range (one request per table)
		got := map[string]map[int64]map[string]any{}
		failed := map[string]bool{}

		for _, table := range []string{"rt", "rtx"} {
			g := e.Do("admin", "GET", rowsPath(table)+q("filter", fmt.Sprintf("AND(GE(k,%d),LE(k,%d))", first, last), "sort", "k", "limit", "1000"), nil)
			r.Count("requests.get.range", 1)

			got[table] = map[int64]map[string]any{}

			if g.Status != 200 {
				failed[table] = true
				r.Count("range-read.failed", 1)

				continue
			}

			rows, err := decodeRows(g.Body)
			if err != nil {
				failed[table] = true
				r.Count("range-read.undecodable", 1)

				continue
			}

			for _, gr := range rows {
				if kn, ok := gr["k"].(json.Number); ok {
					ki, _ := strconv.ParseInt(kn.String(), 10, 64)
					got[table][ki] = gr
				}
			}
		}

		for _, row := range rowsB {
			table := tableOf(row)
			gr, present := got[table][row.K]

			if failed[table] {
				// some stored value breaks the whole read: go row by row
				var st int

				var body []byte

				gr, st, body = readKey(table, row.K)
				present = gr != nil

				if st != 200 {
					if row.Status < 300 {
						unreadable(row, st, body)
					}

					rowsDone++

					continue
				}
			}

			judge(row, gr, present)
			rowsDone++
		}
	}

	// ---- schema changed under the row endpoints: a table that was already used through the row endpoints (its column types are
	// then cached by the server) is re-created or altered by an @sql BATCH in which the schema statement is not the last one;
	// rows written and read right afterwards must follow the NEW column types
	if shardI == 0 {
		sqlBatch := func(stmts ...string) srvfix.Response {
			b, _ := json.Marshal(stmts)

			return e.Do("admin", "POST", "/dsns/d_open/tables/@sql", b)
		}

		textValues := []string{"00123", "0x1F", "1e3", " 7 ", "-0", "1.50", "9007199254740993", "true"}

		expectText := func(scenario, table, how string, k int64, col, want string) {
			r.Eval("schema|"+scenario+"|"+how+"|"+want, true)
			r.Count("schema-change.values", 1)

			gr, st, body := readKey(table, k)
			if st != 200 || gr == nil {
				r.Violate(vh.Violation{Key: "schema-change:" + scenario + ":unreadable", Desc: fmt.Sprintf("after the schema change, row k=%d of %s (%s=%q written through %s) cannot be read: %d %s", k, table, col, want, how, st, vh.Trunc(msgOf(body), 200)),
					Case: map[string]any{"type": "string", "lit": strconv.Quote(want), "variant": "put"}})

				return
			}

			if got, isStr := gr[col].(string); !isStr || got != want {
				r.Violate(vh.Violation{Key: "schema-change:" + scenario + ":roundtrip", Desc: fmt.Sprintf("column %s of %s is TEXT since the schema change; %q written through %s is read back as %v (the column's previous type is still applied)", col, table, want, how, gr[col]),
					Case: map[string]any{"type": "string", "lit": strconv.Quote(want), "variant": "put"}, Expected: want, Observed: fmt.Sprintf("%v", gr[col])})
			}
		}

		use := func(table string) {
			// use the table through every row endpoint, so that whatever the server caches about it is cached
			p := rowsPath(table)
			_ = e.Do("admin", "PUT", p, []byte(`{"k":1,"sku":123,"qty":5}`))
			_ = e.Do("admin", "GET", p+q("filter", "EQ(k,1)"), nil)
			_ = e.Do("admin", "GET", p+q("filter", "EQ(k,1)", "abstract", "true"), nil)
			_ = e.Do("admin", "PATCH", p+q("filter", "EQ(k,1)"), []byte(`{"qty":6}`))
			_ = e.Do("admin", "POST", "/dsns/d_open/tables/@transaction", []byte(`[{"operation":"insert","table":"`+table+`","data":{"k":2,"sku":124,"qty":1}}]`))
			_ = e.Do("admin", "GET", "/dsns/d_open/tables/"+table, nil)
		}

		writeAll := func(scenario, table string) {
			k := int64(100)

			for _, v := range textValues {
				lit, _ := json.Marshal(v)

				k++
				if resp := e.Do("admin", "PUT", rowsPath(table), []byte(fmt.Sprintf(`{"k":%d,"sku":%s,"qty":1}`, k, lit))); resp.Status >= 300 {
					r.Violate(vh.Violation{Key: "schema-change:" + scenario + ":refused", Desc: fmt.Sprintf("sku is TEXT since the schema change, PUT of %q is refused: %d %s", v, resp.Status, vh.Trunc(msgOf(resp.Body), 200)),
						Case: map[string]any{"type": "string", "lit": string(lit), "variant": "put"}})
				} else {
					expectText(scenario, table, "PUT", k, "sku", v)
				}

				k++
				_ = e.Do("admin", "PUT", rowsPath(table), []byte(fmt.Sprintf(`{"k":%d,"sku":"base","qty":1}`, k)))

				if resp := e.Do("admin", "PATCH", rowsPath(table)+q("filter", fmt.Sprintf("EQ(k,%d)", k)), []byte(fmt.Sprintf(`{"sku":%s}`, lit))); resp.Status < 300 {
					expectText(scenario, table, "PATCH", k, "sku", v)
				}

				k++
				if resp := e.Do("admin", "POST", "/dsns/d_open/tables/@transaction", []byte(fmt.Sprintf(`[{"operation":"insert","table":"%s","data":{"k":%d,"sku":%s,"qty":1}}]`, table, k, lit))); resp.Status < 300 {
					expectText(scenario, table, "transaction insert", k, "sku", v)
				}
			}
		}

		intCols := []string{"sku", "qty"}

		// (a) DROP + CREATE in one batch (the schema statements are followed by an INSERT)
		mk2 := func(name string) {
			cols := []map[string]any{{"name": "k", "type": "int"}}
			for _, cn := range intCols {
				cols = append(cols, map[string]any{"name": cn, "type": "int"})
			}

			cb, _ := json.Marshal(cols)
			if resp := e.Do("admin", "PUT", "/dsns/d_open/tables/"+name, cb); resp.Status != 201 {
				t.Fatalf("create %s: %d %s", name, resp.Status, resp.Body)
			}
		}

		mk2("sc1")
		use("sc1")

		if resp := sqlBatch(`DROP TABLE sc1`, `CREATE TABLE sc1 (k INTEGER, sku TEXT, qty INTEGER, _row_id_ TEXT UNIQUE)`, `INSERT INTO sc1(k,sku,qty,_row_id_) VALUES(9,'0009',1,'r9')`); resp.Status != 200 {
			t.Fatalf("@sql batch: %d %s", resp.Status, resp.Body)
		}

		expectText("drop-create", "sc1", "the batch's own INSERT", 9, "sku", "0009")
		writeAll("drop-create", "sc1")

		// (b) the same with the two schema statements only
		mk2("sc2")
		use("sc2")

		if resp := sqlBatch(`DROP TABLE sc2`, `CREATE TABLE sc2 (k INTEGER, sku TEXT, qty INTEGER, _row_id_ TEXT UNIQUE)`); resp.Status != 200 {
			t.Fatalf("@sql batch: %d %s", resp.Status, resp.Body)
		}

		writeAll("drop-create-last", "sc2")

		// (c) ALTER followed by an INSERT: the new column must be usable at once
		mk2("sc3")
		use("sc3")

		if resp := sqlBatch(`ALTER TABLE sc3 ADD COLUMN note TEXT`, `INSERT INTO sc3(k,sku,qty,note,_row_id_) VALUES(50,1,1,'from-sql','r50')`); resp.Status != 200 {
			t.Fatalf("@sql batch: %d %s", resp.Status, resp.Body)
		}

		expectText("alter-insert", "sc3", "the batch's own INSERT", 50, "note", "from-sql")

		for i, v := range textValues {
			lit, _ := json.Marshal(v)
			k := int64(200 + i)

			if resp := e.Do("admin", "PUT", rowsPath("sc3"), []byte(fmt.Sprintf(`{"k":%d,"sku":1,"qty":1,"note":%s}`, k, lit))); resp.Status >= 300 {
				r.Violate(vh.Violation{Key: "schema-change:alter-insert:refused", Desc: fmt.Sprintf("column note exists since the ALTER; PUT of a row that carries it is refused: %d %s", resp.Status, vh.Trunc(msgOf(resp.Body), 200)),
					Case: map[string]any{"type": "string", "lit": string(lit), "variant": "put"}})
			} else {
				expectText("alter-insert", "sc3", "PUT", k, "note", v)
			}
		}

		// (d) ALTER … RENAME COLUMN followed by an UPDATE
		mk2("sc4")
		use("sc4")

		if resp := sqlBatch(`ALTER TABLE sc4 RENAME COLUMN sku TO code`, `UPDATE sc4 SET qty=7 WHERE k=1`); resp.Status != 200 {
			t.Fatalf("@sql batch: %d %s", resp.Status, resp.Body)
		}

		if resp := e.Do("admin", "PUT", rowsPath("sc4"), []byte(`{"k":300,"code":77,"qty":1}`)); resp.Status >= 300 {
			r.Violate(vh.Violation{Key: "schema-change:rename-update:refused", Desc: fmt.Sprintf("column sku is called code since the ALTER; PUT of a row with code is refused: %d %s", resp.Status, vh.Trunc(msgOf(resp.Body), 200)),
				Case: map[string]any{"type": "int", "lit": "77", "variant": "put"}})
		} else if gr, st, _ := readKey("sc4", 300); st != 200 || gr == nil || fmt.Sprint(gr["code"]) != "77" {
			r.Violate(vh.Violation{Key: "schema-change:rename-update:roundtrip", Desc: fmt.Sprintf("row written with the renamed column reads back as %v (status %d)", gr, st),
				Case: map[string]any{"type": "int", "lit": "77", "variant": "put"}})
		}

		r.Eval("schema|rename-update", true)
		r.Count("schema-change.scenarios", 4)
	}

	// ---- directed probe: time-typed values through the @transaction insert task (one table per type,
	// so that a refusal is attributable); several instants each
	for _, ty := range []string{"time", "timestamp", "date"} {
		refused, stored := 0, 0

		var lastResp srvfix.Response

		var rows []*c18Row

		for i := 0; i < 6; i++ {
			row := &c18Row{K: nextK, Vals: map[string]wval{}, Variant: "tx", Table: "rtt_" + ty}
			nextK++
			row.Vals["c_"+ty] = genTime(rng, ty)

			if i == 0 {
				row.Vals["c_"+ty] = safe["c_"+ty]
			}

			resp := writeRow(row)
			row.Status = resp.Status
			r.Eval("txtime|"+ty+"|"+row.Vals["c_"+ty].Lit, true)

			if resp.Status >= 300 {
				refused++
				lastResp = resp
			} else {
				stored++

				rows = append(rows, row)
			}
		}

		r.Count("probe.tx-time."+ty+".refused", int64(refused))
		r.Count("probe.tx-time."+ty+".stored", int64(stored))

		if refused == 6 {
			w := safe["c_"+ty]
			w.Class = "any"
			r.Violate(vh.Violation{Key: vkey(ty, "tx", w, "refused"), Desc: fmt.Sprintf("every RFC 3339 value for a %s column is refused by the @transaction insert task: %d %s", ty, lastResp.Status, vh.Trunc(msgOf(lastResp.Body), 300)),
				Case: map[string]any{"type": ty, "lit": w.Lit, "variant": "tx"}, Expected: "stored", Observed: lastResp.Status})
		} else if refused > 0 {
			r.Note(fmt.Sprintf("tx insert of %s values: %d of 6 refused", ty, refused))
		}

		for _, row := range rows {
			gr, st, body := readKey(tableOf(row), row.K)
			if st != 200 {
				unreadable(row, st, body)
			} else {
				judge(row, gr, gr != nil)
			}
		}
	}

	// ---- directed probes: the constructs of the known findings, through the same write/read/judge path
	type probe struct {
		ty      string
		w       wval
		variant string
	}

	var probes []probe

	ip := func(v int64) wval {
		return wval{Lit: strconv.FormatInt(v, 10), Class: intClass(v), Kind: "int", I: v, Valid: true}
	}

	for _, variant := range []string{"put", "abstract", "tx", "patch"} {
		for _, ty := range []string{"int", "int64"} {
			for _, v := range []int64{1<<53 + 1, -(1<<53 + 1), math.MaxInt64, math.MaxInt64 - 1, math.MinInt64 + 1, math.MinInt64, 1 << 53, 1<<53 - 1} {
				probes = append(probes, probe{ty, ip(v), variant})
			}
		}
	}

	for _, v := range []int64{32768, 70000, -32769, 1 << 40} {
		w := ip(v)
		w.Valid = false
		probes = append(probes, probe{"int16", w, "put"})
	}

	for _, ty := range []string{"time", "timestamp", "date"} {
		for _, lit := range []string{"9999-12-31T23:59:59-05:00", "9999-12-31T20:00:00-12:00", "0001-01-01T00:00:00+14:00"} {
			tt, _ := time.Parse(time.RFC3339, lit)
			cl, valid := "plain", true

			if y := tt.UTC().Year(); y > 9999 {
				cl, valid = "utc-year-gt-9999", false
			} else if y < 1 {
				cl = "utc-year-lt-1"
			}

			js, _ := json.Marshal(lit)

			for _, variant := range []string{"put", "abstract"} {
				probes = append(probes, probe{ty, wval{Lit: string(js), Class: cl, Kind: "time", T: tt, S: lit, Valid: valid}, variant})
			}
		}
	}

	forceBothReads = true

	for _, p := range probes {
		table := ""
		if p.variant == "tx" && p.w.Kind == "time" {
			table = "rtt_" + p.ty
		}

		row := safeRow(p.variant, table)
		row.Vals["c_"+p.ty] = p.w
		row.Reject = !p.w.Valid
		row.BadCol = p.ty
		row.Status = writeRow(row).Status
		r.Count("probe.cases", 1)

		gr, st, body := readKey(tableOf(row), row.K)
		if st != 200 {
			if row.Status < 300 {
				unreadable(row, st, body)
			}

			continue
		}

		judge(row, gr, gr != nil)
	}

	// the response writer: a string ending in a backslash, then a string with white space in the next row
	// (util.WriteJSON's minifier used to strip the white space of every string after such a one; repaired in /repo by 62e34c05)
	{
		a, b := safeRow("put", ""), safeRow("put", "")
		a.Vals["c_string"] = wval{Lit: `"a\\"`, Class: "backslash", Kind: "string", S: "a\\", Valid: true}
		b.Vals["c_string"] = wval{Lit: `"b c  d"`, Class: "plain", Kind: "string", S: "b c  d", Valid: true}
		a.Status, b.Status = writeRow(a).Status, writeRow(b).Status

		g := e.Do("admin", "GET", rowsPath("rt")+q("filter", fmt.Sprintf("AND(GE(k,%d),LE(k,%d))", a.K, b.K), "sort", "k"), nil)
		if rows, err := decodeRows(g.Body); err == nil && len(rows) == 2 {
			checkRow(a, rows[0], "probe")
			checkRow(b, rows[1], "probe")
		} else {
			r.Violate(vh.Violation{Key: "response:undecodable", Desc: fmt.Sprintf("range read of two rows: status %d, %d rows, err %v", g.Status, len(rows), err), Case: map[string]any{"type": "string", "lit": a.Vals["c_string"].Lit, "variant": "put"}})
		}

		r.Count("probe.cases", 2)
	}

	for k := range known {
		r.Probe(k)
	}

	if negZero > 0 {
		r.Note(fmt.Sprintf("-0.0 written %d times was read back as 0 (sign of zero not preserved; numerically equal)", negZero))
		r.Count("float.negzero.sign-dropped", negZero)
	}

	r.Count("rows.written", int64(rowsDone))
	r.Count("descriptors.on.db.at.end", int64(e.FDCount()))

	if r.Evaluations == 0 {
		t.Fatal("observed nothing")
	}

	if err := r.Write(); err != nil {
		t.Fatal(err)
	}
}
